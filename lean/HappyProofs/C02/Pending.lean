import HappyProofs.C02.Basic
/-!
# C02 — "at most one pending resumption per process" at the level of one handler invocation

`cnt e pid` = continuation specs created so far for `pid` + futures `pid` is parked on.  Every
primitive state change of the process layer leaves it unchanged or lowers it (`Closed (Bnd B)`);
only the terminator of the running process's own segment raises its own count from 0 to 1.
-/
namespace HappyModel.C01
set_option linter.unusedVariables false

@[simp] theorem setFut_specs (e : Eff) (f : Nat) (x : Fut) : (e.setFut f x).specs = e.specs := rfl
@[simp] theorem setFut_cancels (e : Eff) (f : Nat) (x : Fut) : (e.setFut f x).cancels = e.cancels := rfl
@[simp] theorem setFut_futs (e : Eff) (f : Nat) (x : Fut) : (e.setFut f x).ps.futs = futSet e.ps.futs f x := rfl
@[simp] theorem setFut_procs (e : Eff) (f : Nat) (x : Fut) : (e.setFut f x).ps.procs = e.ps.procs := rfl
@[simp] theorem setFut_held (e : Eff) (f : Nat) (x : Fut) : (e.setFut f x).ps.held = e.ps.held := rfl
@[simp] theorem setFut_obs (e : Eff) (f : Nat) (x : Fut) : (e.setFut f x).ps.obs = e.ps.obs := rfl

@[simp] theorem push_specs (e : Eff) (sp : Spec) (hook : Nat) (tagged : Bool) :
    (e.push sp hook tagged).specs = e.specs ++ [{ sp with tag := if tagged then e.ps.tagc + 1 else 0 }] := by
  unfold Eff.push; cases tagged <;> rfl
theorem push_cont_specs (e : Eff) (p : Proc) (pid t : Nat) :
    (e.push (contSpec p pid t) 0 false).specs = e.specs ++ [contSpec p pid t] := rfl
@[simp] theorem push_cancels (e : Eff) (sp : Spec) (hook : Nat) (tagged : Bool) :
    (e.push sp hook tagged).cancels = e.cancels := rfl
@[simp] theorem push_futs (e : Eff) (sp : Spec) (hook : Nat) (tagged : Bool) :
    (e.push sp hook tagged).ps.futs = e.ps.futs := rfl
@[simp] theorem push_procs (e : Eff) (sp : Spec) (hook : Nat) (tagged : Bool) :
    (e.push sp hook tagged).ps.procs = e.ps.procs := rfl
@[simp] theorem push_held (e : Eff) (sp : Spec) (hook : Nat) (tagged : Bool) :
    (e.push sp hook tagged).ps.held = e.ps.held := rfl
@[simp] theorem push_obs (e : Eff) (sp : Spec) (hook : Nat) (tagged : Bool) :
    (e.push sp hook tagged).ps.obs = e.ps.obs := rfl

@[simp] theorem addObs_specs (e : Eff) (o : Obs) : (addObs e o).specs = e.specs := rfl
@[simp] theorem addObs_cancels (e : Eff) (o : Obs) : (addObs e o).cancels = e.cancels := rfl
@[simp] theorem addObs_futs (e : Eff) (o : Obs) : (addObs e o).ps.futs = e.ps.futs := rfl
@[simp] theorem addObs_procs (e : Eff) (o : Obs) : (addObs e o).ps.procs = e.ps.procs := rfl
@[simp] theorem addObs_held (e : Eff) (o : Obs) : (addObs e o).ps.held = e.ps.held := rfl
@[simp] theorem addObs_obs (e : Eff) (o : Obs) : (addObs e o).ps.obs = o :: e.ps.obs := rfl

/-- set one process -/
def Eff.setProc (e : Eff) (pid : Nat) (q : Proc) : Eff := { e with ps := { e.ps with procs := e.ps.procs.set pid q } }
@[simp] theorem setProc_specs (e : Eff) (i : Nat) (x : Proc) : (e.setProc i x).specs = e.specs := rfl
@[simp] theorem setProc_cancels (e : Eff) (i : Nat) (x : Proc) : (e.setProc i x).cancels = e.cancels := rfl
@[simp] theorem setProc_futs (e : Eff) (i : Nat) (x : Proc) : (e.setProc i x).ps.futs = e.ps.futs := rfl
@[simp] theorem setProc_procs (e : Eff) (i : Nat) (x : Proc) : (e.setProc i x).ps.procs = e.ps.procs.set i x := rfl
@[simp] theorem setProc_held (e : Eff) (i : Nat) (x : Proc) : (e.setProc i x).ps.held = e.ps.held := rfl
@[simp] theorem setProc_obs (e : Eff) (i : Nat) (x : Proc) : (e.setProc i x).ps.obs = e.ps.obs := rfl

/-! ### `resumeParked` in closed form -/

theorem resumeParked_none (e : Eff) (now f : Nat) (h : (futGet e.ps.futs f).parked = none) :
    resumeParked e now f = e := by
  simp [resumeParked, h]

theorem resumeParked_noproc (e : Eff) (now f pid : Nat) (h : (futGet e.ps.futs f).parked = some pid)
    (hp : e.ps.procs[pid]? = none) : resumeParked e now f = e := by
  simp [resumeParked, h, hp]

/-- `_resume`: one continuation spec at `now`, parked cleared, the value stored for `send` -/
def resumed (e : Eff) (now f pid : Nat) (p : Proc) : Eff :=
  (((e.push (contSpec p pid now) 0 false).setFut f { futGet e.ps.futs f with parked := none }).setProc pid
    { p with send := (futGet e.ps.futs f).value })

theorem resumeParked_some (e : Eff) (now f pid : Nat) (p : Proc)
    (h : (futGet e.ps.futs f).parked = some pid) (hp : e.ps.procs[pid]? = some p) :
    resumeParked e now f = resumed e now f pid p := by
  simp only [resumeParked, h, hp]
  rfl

theorem cntSpec_append (a b : List Spec) (q : Nat) : cntSpec (a ++ b) q = cntSpec a q + cntSpec b q := by
  simp [cntSpec, List.countP_append]

theorem cntSpec_single (sp : Spec) (q : Nat) : cntSpec [sp] q = ind (sp.data == q + 1) := by
  simp [cntSpec, List.countP_cons, ind]

/-! ### the invariant of one invocation -/

structure WF (e : Eff) : Prop where
  park : ∀ f pid, (futGet e.ps.futs f).parked = some pid →
      (futGet e.ps.futs f).resolved = false ∧ pid < e.ps.procs.length
  specs : ∀ sp ∈ e.specs, sp.data ≤ e.ps.procs.length
  held : ∀ q ∈ e.ps.held, q.2.data = 0

/-- pending resumptions of `pid` visible in an effect: continuation specs + parks -/
def cnt (e : Eff) (pid : Nat) : Nat := cntSpec e.specs pid + cntPark e.ps.futs pid

def Bnd (B : Nat → Nat) (e : Eff) : Prop := WF e ∧ ∀ q, cnt e q ≤ B q

theorem WF_setFut (e : Eff) (f : Nat) (x : Fut) (hw : WF e)
    (hx : ∀ pid, x.parked = some pid → x.resolved = false ∧ pid < e.ps.procs.length) : WF (e.setFut f x) := by
  refine ⟨?_, hw.specs, hw.held⟩
  intro g pid hg
  simp only [setFut_futs, futGet_futSet, setFut_procs] at hg ⊢
  split at hg
  · rename_i h; simp only [h, if_true]; exact hx pid hg
  · rename_i h; simp only [h, if_false]; exact hw.park g pid hg

theorem cnt_setFut (e : Eff) (f : Nat) (x : Fut) (q : Nat) :
    cnt (e.setFut f x) q + ind ((futGet e.ps.futs f).parked == some q) = cnt e q + ind (x.parked == some q) := by
  have := cntPark_futSet e.ps.futs f q x
  simp only [cnt, setFut_specs, setFut_futs]
  omega

theorem Bnd_setFut_same (B : Nat → Nat) (e : Eff) (f : Nat) (x : Fut) (h : Bnd B e)
    (hp : x.parked = (futGet e.ps.futs f).parked) (hr : x.resolved = (futGet e.ps.futs f).resolved) :
    Bnd B (e.setFut f x) := by
  refine ⟨WF_setFut e f x h.1 ?_, ?_⟩
  · intro pid hx; rw [hp] at hx; rw [hr]; exact h.1.park f pid hx
  · intro q
    have := cnt_setFut e f x q
    rw [hp] at this
    have := h.2 q
    omega

theorem ind_le_one (b : Bool) : ind b ≤ 1 := by unfold ind; split <;> omega

theorem Bnd_markResolved (B : Nat → Nat) (e : Eff) (now f : Nat) (v : Val) (h : Bnd B e)
    (hr : (futGet e.ps.futs f).resolved = false) : Bnd B (markResolved e now f v) := by
  unfold markResolved
  generalize hfu : futGet e.ps.futs f = fu at *
  generalize he1 : e.setFut f { fu with resolved := true, value := v, cbs := [] } = e1
  have hget : futGet e1.ps.futs f = { fu with resolved := true, value := v, cbs := [] } := by
    subst he1; simp [futGet_futSet]
  have hcnt : ∀ q, cnt e1 q = cnt e q := by
    intro q
    have := cnt_setFut e f { fu with resolved := true, value := v, cbs := [] } q
    subst he1; rw [hfu] at this; simp only [] at this; omega
  have hprocs : e1.ps.procs = e.ps.procs := by subst he1; rfl
  have hspecs : e1.specs = e.specs := by subst he1; rfl
  have hheld : e1.ps.held = e.ps.held := by subst he1; rfl
  have hother : ∀ g, g ≠ f → futGet e1.ps.futs g = futGet e.ps.futs g := by
    intro g hg; subst he1; simp [futGet_futSet, hg]
  cases hpk : fu.parked with
  | none =>
    rw [resumeParked_none e1 now f (by rw [hget]; exact hpk)]
    refine ⟨⟨?_, ?_, ?_⟩, ?_⟩
    · intro g pid hg
      by_cases hgf : g = f
      · subst hgf; rw [hget] at hg; simp [hpk] at hg
      · rw [hother g hgf] at hg ⊢; rw [hprocs]; exact h.1.park g pid hg
    · rw [hspecs, hprocs]; exact h.1.specs
    · rw [hheld]; exact h.1.held
    · intro q; rw [hcnt]; exact h.2 q
  | some pid =>
    have hpl : pid < e.ps.procs.length := (h.1.park f pid (by rw [hfu]; exact hpk)).2
    have hp : e1.ps.procs[pid]? = some e.ps.procs[pid] := by rw [hprocs]; simp [hpl]
    rw [resumeParked_some e1 now f pid _ (by rw [hget]; exact hpk) hp]
    unfold resumed
    refine ⟨⟨?_, ?_, ?_⟩, ?_⟩
    · intro g pid' hg
      simp only [setProc_futs, setFut_futs, push_futs, setProc_procs, setFut_procs, push_procs,
        List.length_set] at hg ⊢
      rw [futGet_futSet] at hg ⊢
      by_cases hgf : g = f
      · simp [hgf] at hg
      · simp only [hgf, if_false] at hg ⊢
        rw [hother g hgf] at hg ⊢; rw [hprocs]; exact h.1.park g pid' hg
    · intro sp hsp
      simp only [setProc_specs, setFut_specs, push_specs, setProc_procs, setFut_procs, push_procs,
        List.length_set, List.mem_append, List.mem_singleton] at hsp ⊢
      rw [hprocs]
      rcases hsp with hsp | rfl
      · rw [hspecs] at hsp; exact h.1.specs sp hsp
      · simp [contSpec]; omega
    · simp only [setProc_held, setFut_held, push_held]; rw [hheld]; exact h.1.held
    · intro q
      have h1 := cnt_setFut (e1.push (contSpec e.ps.procs[pid] pid now) 0 false) f
        { futGet e1.ps.futs f with parked := none } q
      have hpk' : (futGet e1.ps.futs f).parked = some pid := by rw [hget]; exact hpk
      have h2 : cnt (e1.push (contSpec e.ps.procs[pid] pid now) 0 false) q
          = cnt e1 q + ind (pid + 1 == q + 1) := by
        simp only [cnt, push_specs, push_futs, cntSpec_append, cntSpec_single, contSpec]
        omega
      have h3 := h.2 q
      have h4 := hcnt q
      have h5 : ∀ (x : Eff) i p, cnt (x.setProc i p) q = cnt x q := fun _ _ _ => rfl
      rw [h5]
      simp only [push_futs] at h1 ⊢
      rw [hpk'] at h1
      have a1 : ind (some pid == some q) = ind (pid + 1 == q + 1) := by
        by_cases hq : pid = q <;> simp [ind, hq]
      have a2 : ind ((none : Option Nat) == some q) = 0 := by simp [ind]
      omega

end HappyModel.C01
