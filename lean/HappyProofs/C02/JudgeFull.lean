import HappyProofs.C02.JudgeFutureV
/-!
# C02 — the full trace of the process model (with the `r` lines), plain futures

`c02FullTraceOf` is `c02TraceOf` with the `r` lines of the `resolve` actions written where they happen (between the
`h` lines, in action order).  For programs with plain futures the three monitors and the settle fold of the C02
judge all accept it: every clause of `Spec.judgeLines` except the end-of-trace clause
`future/resolved-but-never-resumed` is silent on the model's own trace.
-/
namespace HappyModel.C01
open HappyModel.C02.Spec (Line HSt hookStep hookMonitor delayMonitor waitMonitor SSt stepLine)
set_option linter.unusedVariables false
set_option linter.unusedSimpArgs false

/-- the `h` and `r` lines of the actions of a segment, in action order -/
def actsAllLines (now : Nat) : Eff → List Act → List Line
  | _, [] => []
  | e, a :: r => hAddLines e a ++ fActLines a ++ actsAllLines now (runAct now e a) r

def segAllLines (now : Nat) (e : Eff) (pid tag : Nat) : List Line :=
  match e.ps.procs[pid]? with
  | some p =>
    match p.segs with
    | seg :: _ =>
      actsAllLines now (segStart now e pid tag p) seg.acts ++
        (match seg.term with
         | .ret => Line.finish now pid ::
             hRunLines now (p.hooks ++ lateOf (seg.acts.foldl (runAct now) (segStart now e pid tag p)).ps pid)
         | _ => [])
    | [] => []
  | none => []

def allHookLines (ps : PS) (now : Nat) (ev : Ev) : List Line :=
  (if ev.data = 0 then
    match ps.defs.find? (fun d => d.ent == ev.target && d.kind == ev.kind) with
    | none => Line.skipped now (ev.id + 1) :: hRunLines now (hookOfFor ps ev.id)
    | some d =>
      Line.start now (ev.id + 1) ::
        segAllLines now (spawn (addObs { ps := ps } (.start now ev.target ev.kind ev.tag)) (newProc ps ev d))
          ps.procs.length 0
  else segAllLines now { ps := ps } (ev.data - 1) ev.tag) ++ [Line.other]

def fhStep (s : St PS) (ls : List Line) (m : Ev) : List Line :=
  if s.cancelled.contains m.id then ls
  else if m.time < s.now then ls
  else if procMachine.crashed s.ent m then ls
  else ls ++ allHookLines s.ent m.time m

def fhRun (endT : Option Nat) : Nat → St PS → List Line → List Line
  | 0, _, ls => ls
  | n+1, s, ls =>
    match s.heap with
    | [] => ls
    | x :: xs =>
      if continues endT s then fhRun endT n (stepWith procMachine s (minOf x xs)) (fhStep s ls (minOf x xs))
      else ls

def fullLines (s : St PS) (m : Ev) : List Line :=
  rLine s.ent m ++ allHookLines s.ent m.time m ++ yLines (procEff s.ent m.time m).specs ++ wLine s.ent m.time m

def fullStep (s : St PS) (ls : List Line) (m : Ev) : List Line :=
  if s.cancelled.contains m.id then ls
  else if m.time < s.now then ls
  else if procMachine.crashed s.ent m then ls
  else ls ++ fullLines s m

def fullRun (endT : Option Nat) : Nat → St PS → List Line → List Line
  | 0, _, ls => ls
  | n+1, s, ls =>
    match s.heap with
    | [] => ls
    | x :: xs =>
      if continues endT s then fullRun endT n (stepWith procMachine s (minOf x xs)) (fullStep s ls (minOf x xs))
      else ls

def c02FullTraceOf (endT : Option Nat) (n : Nat) (s0 : St PS) : List Line := fullRun endT n s0 (initHookLines s0.ent)

theorem fold_resolve_neutral (ls : List Line) (h : HSt) (hd : h.due = [])
    (hn : ∀ l ∈ ls, ∃ f v, l = Line.resolve f v) : ls.foldl hookStep h = h := by
  induction ls with
  | nil => rfl
  | cons l r ih =>
    simp only [List.foldl_cons]
    obtain ⟨f, v, rfl⟩ := hn l (by simp)
    have h1 : hookStep h (Line.resolve f v) = h := by simp [hookStep, hd]
    rw [h1]
    exact ih (fun x hx => hn x (List.mem_cons_of_mem _ hx))

theorem fActLines_resolve (a : Act) : ∀ l ∈ fActLines a, ∃ f v, l = Line.resolve f v := by
  intro l hl
  cases a <;> simp [fActLines] at hl
  exact ⟨_, _, hl⟩

theorem acts_HR2 {closed : List Nat} (now : Nat) (acts : List Act) (e : Eff) (h : HSt) (hr : HR closed e.ps h) :
    HR closed (acts.foldl (runAct now) e).ps ((actsAllLines now e acts).foldl hookStep h) := by
  induction acts generalizing e h with
  | nil => simpa [actsAllLines] using hr
  | cons a r ih =>
    simp only [List.foldl_cons, actsAllLines, List.foldl_append]
    have h1 := runAct_HR now e h a hr
    rw [fold_resolve_neutral (fActLines a) _ h1.due (fActLines_resolve a)]
    exact ih _ _ h1

theorem seg_HR2 {closed : List Nat} (now : Nat) (e : Eff) (h : HSt) (pid tag : Nat) (hr : HR closed e.ps h)
    (hdn : ∀ p, e.ps.procs[pid]? = some p → p.done = true → p.segs = []) :
    HR closed (runSegment now e pid tag).ps ((segAllLines now e pid tag).foldl hookStep h) := by
  unfold segAllLines
  cases hp : e.ps.procs[pid]? with
  | none => rw [runSegment_noproc now e pid tag hp]; simpa using hr
  | some p =>
    cases hs : p.segs with
    | nil =>
      have : runSegment now e pid tag = e := by simp [runSegment, hp, hs]
      rw [this]; simpa [hs] using hr
    | cons seg rest =>
      simp only [hs]
      have hpd : p.done = false := by
        cases hpd : p.done with
        | false => rfl
        | true => have := hdn p hp hpd; rw [hs] at this; simp at this
      rw [runSegment_eq now e pid tag p seg rest hp hs]
      unfold segBody
      simp only [List.foldl_append]
      have hr0 : HR closed (segStart now e pid tag p).ps h := HR_frame hr (HFrame_segStart now e pid tag p hp)
      have hr1 := acts_HR2 now seg.acts _ h hr0
      -- the record of `pid` still has the event, the flag and the hooks of `p`
      have hpr0 : ProcsAre ((e.ps.procs.map strip).set pid (strip { p with started := true, send := .none }))
          (segStart now e pid tag p) := by
        unfold segStart ProcsAre
        split <;> simp [List.map_set]
      have hpr1 := acts_closed (ProcsAre_closed _) now seg.acts _ hpr0
      have hl := getElem?_some_lt hp
      generalize seg.acts.foldl (runAct now) (segStart now e pid tag p) = e1 at hr1 hpr1
      generalize (actsAllLines now (segStart now e pid tag p) seg.acts).foldl hookStep h = h1 at hr1
      have hcur : ∃ p', e1.ps.procs[pid]? = some p' ∧ p'.ev = p.ev ∧ p'.done = p.done ∧ p'.hooks = p.hooks := by
        unfold ProcsAre at hpr1
        have := congrArg (fun l => l[pid]?) hpr1
        simp only [List.getElem?_map] at this
        rw [List.getElem?_set_self (by simpa using hl)] at this
        cases hq : e1.ps.procs[pid]? with
        | none => rw [hq] at this; simp at this
        | some p' =>
          rw [hq] at this; simp only [Option.map_some, Option.some.injEq] at this
          refine ⟨p', rfl, ?_, ?_, ?_⟩
          · have := congrArg Proc.ev this; simpa [strip] using this
          · have := congrArg Proc.done this; simpa [strip] using this
          · have := congrArg Proc.hooks this; simpa [strip] using this
      obtain ⟨p', hp', hev, hdone, hhooks⟩ := hcur
      cases ht : seg.term with
      | yieldD d =>
        simp only [ht, segTerm, List.foldl_nil]
        have h2 := HFrame_setProc e1 pid p' { ({ p with started := true, send := .none } : Proc) with segs := rest } hp'
          (by simp [hproj, hev, hdone, hhooks])
        exact HR_frame hr1 (h2.trans (HFrame_push0 _ _ true))
      | yieldF f =>
        simp only [ht, segTerm, List.foldl_nil]
        have h2 := HFrame_setProc e1 pid p' { ({ p with started := true, send := .none } : Proc) with segs := rest } hp'
          (by simp [hproj, hev, hdone, hhooks])
        have h3 := h2.trans (HFrame_setFut (e1.setProc pid { ({ p with started := true, send := .none } : Proc) with segs := rest }) f
          { futGet (e1.setProc pid { ({ p with started := true, send := .none } : Proc) with segs := rest }).ps.futs f with
            parked := some pid })
        split
        · exact HR_frame hr1 (h3.trans (HFrame_resumeParked _ now f))
        · exact HR_frame hr1 h3
      | ret =>
        simp only [ht, segTerm]
        exact finish_HR now e1 h1 pid p' { p with started := true, send := .none } hr1 hp' (by rw [hdone]; exact hpd)
          (by simp [hev]) (by simp [hhooks])

theorem procEff_HR2 {closed : List Nat} (ps : PS) (now : Nat) (m : Ev) (h : HSt) (hr : HR closed ps h)
    (hm : m.data = 0 → m.id ∉ closed ∧ m.id < ps.nid)
    (hdn : ∀ (pid : Nat) (p : Proc), ps.procs[pid]? = some p → p.done = true → p.segs = []) :
    HR (if m.data = 0 then m.id :: closed else closed) (procEff ps now m).ps
      ((allHookLines ps now m).foldl hookStep h) := by
  unfold procEff allHookLines
  by_cases hd : m.data = 0
  · simp only [hd, if_true]
    obtain ⟨hmc, hlt⟩ := hm hd
    cases hfind : ps.defs.find? (fun d => d.ent == m.target && d.kind == m.kind) with
    | none =>
      simp only [List.foldl_append, List.foldl_cons, List.foldl_nil]
      have h1 := skip_HR ps now m h hr hmc hlt
      simp only [List.foldl_cons] at h1
      rw [hookStep_other _ h1.due]
      refine HR_frame h1 ?_
      exact (HFrame_of_eqs (a := ps) (b := (addObs ({ ps := ps } : Eff) (.skip now m.target m.kind m.tag)).ps)
        rfl rfl rfl rfl rfl).trans (HFrame_runHooks now _ _)
    | some d =>
      simp only [List.foldl_append, List.foldl_cons, List.foldl_nil]
      have h1 := spawn_HR ps now m d h hr hmc hlt
      have h2 := seg_HR2 now _ _ ps.procs.length 0 h1 (by
        intro p hp hpd
        have : p = newProc ps m d := by
          have hp' : (ps.procs ++ [newProc ps m d])[ps.procs.length]? = some p := hp
          simp at hp'; exact hp'.symm
        subst this
        exact absurd hpd (by simp [newProc]))
      rw [hookStep_other _ h2.due]
      exact h2
  · simp only [hd, if_false, List.foldl_append, List.foldl_cons, List.foldl_nil]
    have h2 := seg_HR2 now ({ ps := ps } : Eff) h (m.data - 1) m.tag hr (hdn (m.data - 1))
    rw [hookStep_other _ h2.due]
    exact h2

theorem HI_step2 (s : St PS) (ls : List Line) (m : Ev) (hm : m ∈ s.heap) (inv : Inv s) (hk : HookInv s)
    (pinv : ProcInv s) (hr : HR (closedOf s) s.ent (ls.foldl hookStep {})) :
    HR (closedOf (stepWith procMachine s m)) (stepWith procMachine s m).ent ((fhStep s ls m).foldl hookStep {}) := by
  unfold stepWith fhStep
  simp only []
  split
  · exact hr
  · split
    · exact hr
    · split
      · exact hr
      · have heq := procHandle_eq s.ent m.time m
        have hent : (procMachine.handle s.ent m.time m).ent = (procEff s.ent m.time m).ps := by
          show (procHandle s.ent m.time m).ent = _; rw [heq]
        rw [List.foldl_append]
        have hmc : m.data = 0 → m.id ∉ closedOf s ∧ m.id < s.ent.nid := by
          intro _
          refine ⟨?_, by rw [hk.nid]; exact inv.fresh_heap m hm⟩
          intro hc
          unfold closedOf at hc
          obtain ⟨e, he, hid⟩ := List.mem_map.mp hc
          exact inv.log_ne_heap e (List.mem_filter.mp he).1 m hm hid
        have h1 := procEff_HR2 s.ent m.time m _ hr hmc (fun pid p hp hd => (pinv.doneNone pid p hp hd).1)
        show HR (closedOf { s with log := s.log ++ [m] }) (procMachine.handle s.ent m.time m).ent _
        rw [hent]
        refine HR_congr h1 ?_
        intro id
        unfold closedOf
        simp only [List.filter_append, List.map_append, List.mem_append, List.filter_cons, List.filter_nil]
        by_cases hd : m.data = 0
        · simp [hd]
          constructor
          · rintro (h' | h')
            · right; exact h'
            · left; exact h'
          · rintro (h' | h')
            · right; exact h'
            · left; exact h'
        · simp [hd]

theorem HI_run2 (endT : Option Nat) (n : Nat) (s : St PS) (ls : List Line) (inv : Inv s) (hk : HookInv s)
    (pinv : ProcInv s) (hr : HR (closedOf s) s.ent (ls.foldl hookStep {})) :
    HR (closedOf (run procMachine endT n s)) (run procMachine endT n s).ent ((fhRun endT n s ls).foldl hookStep {}) := by
  induction n generalizing s ls with
  | zero => simpa [run, fhRun]
  | succ n ih =>
    unfold run fhRun step
    cases hh : s.heap with
    | nil => simpa
    | cons x xs =>
      simp only []
      by_cases hc : continues endT s = true
      · simp only [hc, if_true]
        have hmem : minOf x xs ∈ s.heap := by rw [hh]; exact (pop_is_min x xs).1
        exact ih _ _ (step_preserves procMachine s x xs hh inv) (step_hookInv s _ inv hk hmem)
          (step_procInv s _ pinv hmem) (HI_step2 s ls _ hmem inv hk pinv hr)
      · simp only [hc, Bool.false_eq_true, if_false]
        exact hr

theorem actsAllLines_dw (now : Nat) (acts : List Act) (e : Eff) : ∀ l ∈ actsAllLines now e acts, dw l = false := by
  induction acts generalizing e with
  | nil => intro l hl; simp [actsAllLines] at hl
  | cons a r ih =>
    intro l hl
    simp only [actsAllLines, List.mem_append] at hl
    rcases hl with (hl | hl) | hl
    · exact hAddLines_dw e a l hl
    · obtain ⟨f, v, rfl⟩ := fActLines_resolve a l hl
      simp [dw, isDelayLine, isWaitLine]
    · exact ih _ l hl

theorem segAllLines_dw (now : Nat) (e : Eff) (pid tag : Nat) : ∀ l ∈ segAllLines now e pid tag, dw l = false := by
  intro l hl
  unfold segAllLines at hl
  split at hl
  · split at hl
    · simp only [List.mem_append] at hl
      rcases hl with hl | hl
      · exact actsAllLines_dw now _ _ l hl
      · split at hl
        · rcases List.mem_cons.mp hl with rfl | hl
          · simp [dw, isDelayLine, isWaitLine]
          · exact hRunLines_dw now _ l hl
        · simp at hl
    · simp at hl
  · simp at hl

theorem allHookLines_dw (ps : PS) (now : Nat) (ev : Ev) : ∀ l ∈ allHookLines ps now ev, dw l = false := by
  intro l hl
  unfold allHookLines at hl
  simp only [List.mem_append, List.mem_singleton] at hl
  rcases hl with hl | rfl
  · split at hl
    · split at hl
      · rcases List.mem_cons.mp hl with rfl | hl
        · simp [dw, isDelayLine, isWaitLine]
        · exact hRunLines_dw now _ l hl
      · rcases List.mem_cons.mp hl with rfl | hl
        · simp [dw, isDelayLine, isWaitLine]
        · exact segAllLines_dw now _ _ _ l hl
    · exact segAllLines_dw now _ _ _ l hl
  · simp [dw, isDelayLine, isWaitLine]

theorem fullLines_dw (s : St PS) (m : Ev) : (fullLines s m).filter dw = delayLines s m := by
  unfold fullLines delayLines
  simp only [List.filter_append]
  rw [filter_all dw _ (fun l hl => (rLine_neutral s.ent m l hl).2), filter_none dw _ (allHookLines_dw s.ent m.time m),
    filter_all dw _ (fun l hl => (yLines_neutral _ l hl).2), filter_all dw _ (fun l hl => (wLine_neutral _ _ _ l hl).2)]
  simp

theorem fullRun_dw (endT : Option Nat) (n : Nat) (s : St PS) (ls ls' : List Line) (h : ls.filter dw = ls') :
    (fullRun endT n s ls).filter dw = viewRun endT n s ls' := by
  induction n generalizing s ls ls' with
  | zero => simpa [fullRun, viewRun] using h
  | succ n ih =>
    unfold fullRun viewRun
    cases hh : s.heap with
    | nil => simpa using h
    | cons x xs =>
      simp only []
      by_cases hc : continues endT s = true
      · simp only [hc, if_true]
        apply ih
        unfold fullStep viewStep
        split
        · exact h
        · split
          · exact h
          · split
            · exact h
            · rw [List.filter_append, h, fullLines_dw]
      · simp only [hc, Bool.false_eq_true, if_false]
        exact h

theorem c02FullTrace_dw (endT : Option Nat) (n : Nat) (s0 : St PS) :
    (c02FullTraceOf endT n s0).filter dw = delayView endT n s0 :=
  fullRun_dw endT n s0 _ _ (initHookLines_dw s0.ent)

theorem TI_step_hooks2 (s : St PS) (ls : List Line) (m : Ev) (hm : m ∈ s.heap) (inv : Inv s) (hk : HookInv s)
    (pinv : ProcInv s) (hr : HR (closedOf s) s.ent (ls.foldl hookStep {})) :
    HR (closedOf (stepWith procMachine s m)) (stepWith procMachine s m).ent ((fullStep s ls m).foldl hookStep {}) := by
  have hstep := HI_step2 s ls m hm inv hk pinv hr
  unfold fhStep at hstep
  unfold fullStep
  split
  · rename_i h1; simp only [h1, if_true] at hstep; exact hstep
  · rename_i h1
    split
    · rename_i h2; simp only [h1, h2, if_true, if_false] at hstep; exact hstep
    · rename_i h2
      split
      · rename_i h3; simp only [h1, h2, h3, if_true, if_false] at hstep; exact hstep
      · rename_i h3
        simp only [h1, h2, h3, if_false, Bool.false_eq_true] at hstep
        unfold fullLines
        rw [List.foldl_append] at hstep
        simp only [List.foldl_append]
        rw [fold_hookNeutral (rLine s.ent m) _ hr.due (fun l hl => (rLine_neutral s.ent m l hl).1)]
        generalize (allHookLines s.ent m.time m).foldl hookStep (ls.foldl hookStep {}) = h2' at hstep
        rw [fold_hookNeutral _ h2' hstep.due (fun l hl => (yLines_neutral _ l hl).1),
          fold_hookNeutral _ h2' hstep.due (fun l hl => (wLine_neutral _ _ _ l hl).1)]
        exact hstep

theorem fullRun_HR (endT : Option Nat) (n : Nat) (s : St PS) (ls : List Line) (inv : Inv s) (hk : HookInv s)
    (pinv : ProcInv s) (hr : HR (closedOf s) s.ent (ls.foldl hookStep {})) :
    HR (closedOf (run procMachine endT n s)) (run procMachine endT n s).ent ((fullRun endT n s ls).foldl hookStep {}) := by
  induction n generalizing s ls with
  | zero => simpa [run, fullRun]
  | succ n ih =>
    unfold run fullRun step
    cases hh : s.heap with
    | nil => simpa
    | cons x xs =>
      simp only []
      by_cases hc : continues endT s = true
      · simp only [hc, if_true]
        have hmem : minOf x xs ∈ s.heap := by rw [hh]; exact (pop_is_min x xs).1
        exact ih _ _ (step_preserves procMachine s x xs hh inv) (step_hookInv s _ inv hk hmem)
          (step_procInv s _ pinv hmem) (TI_step_hooks2 s ls _ hmem inv hk pinv hr)
      · simp only [hc, Bool.false_eq_true, if_false]
        exact hr

end HappyModel.C01

namespace HappyModel.C01.FV
open HappyModel.C01
open HappyModel.C02.Spec (Line SSt FObj FExpr stepLine settle)
set_option linter.unusedVariables false
set_option linter.unusedSimpArgs false

/-! ## the settle fold on the full trace -/

/-- lines that leave the future layer of the fold alone and keep its clock -/
def neutK : Line → Bool
  | .hookAdd _ _ => true
  | .hookRun _ _ => true
  | .created => true
  | .other => true
  | .ydelay _ _ _ => true
  | _ => false

/-- … or set the clock (`F`) -/
def neut : Line → Bool
  | .finish _ _ => true
  | l => neutK l

theorem neut_step (j : SSt) (k : Nat) (l : Line) (hn : neut l = true) :
    (stepLine j k l).objs = j.objs ∧ (stepLine j k l).slot = j.slot ∧ (stepLine j k l).waits = j.waits ∧
    (stepLine j k l).err = j.err ∧ (stepLine j k l).clockAt = j.clock :: j.clockAt ∧
    (neutK l = true → (stepLine j k l).clock = j.clock) := by
  cases l <;> simp [neut, neutK] at hn <;> exact ⟨rfl, rfl, rfl, rfl, rfl, fun h => by first | rfl | (simp [neutK] at h)⟩

theorem FB_same {e : Eff} {j j' : SSt} {k : Nat} {X : Nat → Nat → Prop} (h : FB e j k X)
    (hobjs : j'.objs = j.objs) (hslot : j'.slot = j.slot) (hw : j'.waits = j.waits) (herr : j'.err = j.err)
    (hcat : j'.clockAt = j.clock :: j.clockAt) : FB e j' (k + 1) X := by
  have hobjeq : ∀ g, j'.obj g = j.obj g := by intro g; unfold SSt.obj; rw [hslot]
  have hreseq : ∀ o, resOf j' o = resOf j o := by intro o; unfold resOf; rw [hobjs]
  have hcateq : ∀ i c, cAt j i = some c → cAt j' i = some c := by
    intro i c hc
    have : cAt j' i = cAt (tick j) i := by unfold cAt tick; rw [hcat]
    rw [this]; exact cAt_tick_old j i c hc
  refine ⟨⟨by rw [hobjs]; exact h.js.plain, ?_, ?_⟩, ?_, ?_, ?_, ?_, ?_, h.okv, h.nocb, ?_, h.park1, h.excl, ?_, h.held,
    by rw [herr]; exact h.err⟩
  · intro g o hg; rw [hobjs]; rw [hobjeq] at hg; exact h.js.rng g o hg
  · intro a b o ha hb; rw [hobjeq] at ha hb; exact h.js.inj a b o ha hb
  · rw [hcat]; simp [h.len]
  · intro w hw'; rw [hw] at hw'; have := h.wpos w hw'; omega
  · intro o r hr'; rw [hreseq] at hr'; have := h.rpos o r hr'; omega
  · intro f hf
    obtain ⟨o, rp, ho, hr'⟩ := h.res f hf
    exact ⟨o, rp, by rw [hobjeq]; exact ho, by rw [hreseq]; exact hr'⟩
  · intro f o hf ho; rw [hobjeq] at ho; rw [hreseq]; exact h.unres f o hf ho
  · intro f q hf w hw'; rw [hw] at hw'; rw [hobjeq]; exact h.park f q hf w hw'
  · intro q t hqx w hw'
    rw [hw] at hw'
    obtain ⟨rp, v, p0, e1, e2, e3⟩ := h.pend q t hqx w hw'
    exact ⟨rp, v, p0, by rw [hreseq]; exact e1, hcateq _ _ e2, e3⟩

theorem FB_neutrals {e : Eff} {X : Nat → Nat → Prop} (ls : List Line) :
    ∀ (j : SSt) (k : Nat), (∀ l ∈ ls, neut l = true) → FB e j k X → FB e (foldFrom k ls j) (k + ls.length) X := by
  induction ls with
  | nil => intro j k _ h; exact h
  | cons l r ih =>
    intro j k hn h
    obtain ⟨h1, h2, h3, h4, h5, _⟩ := neut_step j k l (hn l (by simp))
    have := ih (stepLine j k l) (k + 1) (fun x hx => hn x (List.mem_cons_of_mem _ hx)) (FB_same h h1 h2 h3 h4 h5)
    simp only [foldFrom, List.length_cons]
    have he : k + (r.length + 1) = k + 1 + r.length := by omega
    rw [he]; exact this

theorem neut_of_neutK (l : Line) (h : neutK l = true) : neut l = true := by
  cases l <;> simp [neut, neutK] at h ⊢

theorem FN_neutrals {e : Eff} {X : Nat → Nat → Prop} {me now : Nat} (ls : List Line) :
    ∀ (j : SSt) (k : Nat), (∀ l ∈ ls, neutK l = true) → FN j k X me now e →
      FN (foldFrom k ls j) (k + ls.length) X me now e := by
  induction ls with
  | nil => intro j k _ h; exact h
  | cons l r ih =>
    intro j k hn h
    have hl := hn l (by simp)
    obtain ⟨h1, h2, h3, h4, h5, h6⟩ := neut_step j k l (neut_of_neutK l hl)
    have hfn : FN (stepLine j k l) (k + 1) X me now e :=
      ⟨FB_same h.1 h1 h2 h3 h4 h5, ⟨h.2.np, h.2.ns, h.2.nx, by rw [h6 hl]; exact h.2.clock⟩⟩
    have := ih (stepLine j k l) (k + 1) (fun x hx => hn x (List.mem_cons_of_mem _ hx)) hfn
    simp only [foldFrom, List.length_cons]
    have he : k + (r.length + 1) = k + 1 + r.length := by omega
    rw [he]; exact this

theorem hAddLines_neutK (e : Eff) (a : Act) : ∀ l ∈ hAddLines e a, neutK l = true := by
  intro l hl
  cases a with
  | emit t k d dm hk =>
    simp only [hAddLines] at hl
    split at hl
    · simp at hl
    · simp only [List.mem_singleton] at hl; subst hl; rfl
  | addHook k hk =>
    simp only [hAddLines] at hl
    split at hl
    · simp only [List.mem_singleton] at hl; subst hl; rfl
    · simp at hl
  | _ => simp [hAddLines] at hl

theorem hRunLines_neut (now : Nat) (hooks : List Nat) : ∀ l ∈ hRunLines now hooks, neut l = true := by
  intro l hl
  unfold hRunLines at hl
  obtain ⟨k, _, hk⟩ := List.mem_flatMap.mp hl
  simp only [List.mem_cons, List.mem_singleton, List.not_mem_nil, or_false] at hk
  rcases hk with rfl | rfl <;> rfl

theorem yLines_neutK (specs : List Spec) : ∀ l ∈ yLines specs, neutK l = true := by
  intro l hl
  unfold yLines at hl
  obtain ⟨sp, _, rfl⟩ := List.mem_map.mp hl
  rfl

theorem acts_FN_full (now : Nat) (acts : List Act) {X : Nat → Nat → Prop} {me : Nat} :
    ∀ (e : Eff) (j : SSt) (k : Nat), (∀ a ∈ acts, PlainActV a) → FN j k X me now e →
      FN (foldFrom k (actsAllLines now e acts) j) (k + (actsAllLines now e acts).length) X me now
        (acts.foldl (runAct now) e) := by
  induction acts with
  | nil => intro e j k _ h; exact h
  | cons a r ih =>
    intro e j k hp h
    simp only [actsAllLines, foldFrom_append, List.foldl_cons, List.length_append]
    have h1 := FN_neutrals (hAddLines e a) j k (hAddLines_neutK e a) h
    have h2 := runAct_FN now e a (hp a (by simp)) h1
    have h3 := ih _ _ _ (fun b hb => hp b (List.mem_cons_of_mem _ hb)) h2
    simp only [Nat.add_assoc] at h3 ⊢
    exact h3

/-- one segment on the full trace: its `h` / `r` lines, `F` and `H` lines, the closing neutral line, the `y`
    lines `Y` and the `w` line -/
theorem runSegment_FB_full (now : Nat) (e : Eff) (pid tag k : Nat) (Y : List Line) {j : SSt} {X : Nat → Nat → Prop}
    (hY : ∀ l ∈ Y, neutK l = true)
    (hpl : ∀ p, e.ps.procs[pid]? = some p → ∀ seg ∈ p.segs, PlainSegV seg)
    (h : FN j k X pid now e) :
    FB (runSegment now e pid tag) (foldFrom k (segAllLines now e pid tag ++ ([Line.other] ++ Y) ++ termLines e pid) j)
      (k + (segAllLines now e pid tag ++ ([Line.other] ++ Y) ++ termLines e pid).length) X := by
  have hOY : ∀ l ∈ [Line.other] ++ Y, neutK l = true := by
    intro l hl
    rcases List.mem_append.mp hl with hl | hl
    · simp only [List.mem_singleton] at hl; subst hl; rfl
    · exact hY l hl
  cases hp : e.ps.procs[pid]? with
  | none =>
    have h1 : segAllLines now e pid tag = [] := by simp [segAllLines, hp]
    have h2 : termLines e pid = [] := by simp [termLines, hp]
    rw [runSegment_noproc now e pid tag hp, h1, h2, List.nil_append, List.append_nil]
    exact FB_neutrals _ j k (fun l hl => neut_of_neutK l (hOY l hl)) h.1
  | some p =>
    cases hs : p.segs with
    | nil =>
      have h1 : segAllLines now e pid tag = [] := by simp [segAllLines, hp, hs]
      have h2 : termLines e pid = [] := by simp [termLines, hp, hs]
      have : runSegment now e pid tag = e := by simp [runSegment, hp, hs]
      rw [this, h1, h2, List.nil_append, List.append_nil]
      exact FB_neutrals _ j k (fun l hl => neut_of_neutK l (hOY l hl)) h.1
    | cons seg rest =>
      have h0 : FN j k X pid now (segStart now e pid tag p) := by
        unfold segStart
        split
        · exact FN_same (FN_setProcMe (FN_same (e' := addObs e (.resume now pid p.send tag)) h rfl rfl rfl rfl) _) rfl rfl rfl rfl
        · exact FN_same (FN_setProcMe h _) rfl rfl rfl rfl
      have hacts := acts_FN_full now seg.acts _ j k (hpl p hp seg (by rw [hs]; simp)) h0
      rw [runSegment_eq now e pid tag p seg rest hp hs]
      unfold segBody
      generalize hA : actsAllLines now (segStart now e pid tag p) seg.acts = A at hacts
      generalize hj1 : foldFrom k A j = j1 at hacts
      generalize he1 : seg.acts.foldl (runAct now) (segStart now e pid tag p) = e1 at hacts
      cases ht : seg.term with
      | yieldD d =>
        have h1 : segAllLines now e pid tag = A := by simp [segAllLines, hp, hs, ht, hA]
        have h2 : termLines e pid = [] := by simp [termLines, hp, hs, ht]
        rw [h1, h2, List.append_nil, foldFrom_append, hj1, List.length_append, ← Nat.add_assoc]
        simp only [segTerm]
        exact FB_neutrals _ j1 _ (fun l hl => neut_of_neutK l (hOY l hl))
          (FN_push (FN_setProcMe hacts _) _ _ _ (Or.inr rfl)).1
      | yieldF f =>
        have h1 : segAllLines now e pid tag = A := by simp [segAllLines, hp, hs, ht, hA]
        have h2 : termLines e pid = [Line.wait pid f p.daemon] := by simp [termLines, hp, hs, ht]
        rw [h1, h2, foldFrom_append, foldFrom_append, hj1]
        have hn := FN_neutrals ([Line.other] ++ Y) j1 _ hOY hacts
        have hgoal := yieldF_FB now _ pid { p with started := true, send := Val.none } rest f _ p.daemon hn
        simp only [foldFrom, List.length_append, List.length_cons, List.length_nil, Nat.add_assoc] at hgoal ⊢
        exact hgoal
      | ret =>
        have h1 : segAllLines now e pid tag = A ++ (Line.finish now pid ::
            hRunLines now (p.hooks ++ lateOf e1.ps pid)) := by
          simp [segAllLines, hp, hs, ht, hA, he1]
        have h2 : termLines e pid = [] := by simp [termLines, hp, hs, ht]
        rw [h1, h2, List.append_nil, List.append_assoc, foldFrom_append, hj1, List.length_append, ← Nat.add_assoc]
        simp only [segTerm]
        refine FB_neutrals _ j1 _ ?_ ?_
        · intro l hl
          rcases List.mem_append.mp hl with hl | hl
          · rcases List.mem_cons.mp hl with rfl | hl
            · rfl
            · exact hRunLines_neut now _ l hl
          · exact neut_of_neutK l (hOY l hl)
        · refine (runHooks_FN (me := pid) (now := now) now _ _ ?_).1
          exact FN_same (FN_setProcMe hacts _) rfl rfl rfl rfl

/-- what follows the opening line of a delivery on the full trace -/
def restLines (ps : PS) (now : Nat) (ev : Ev) (Y : List Line) : List Line :=
  (if ev.data = 0 then
    match ps.defs.find? (fun d => d.ent == ev.target && d.kind == ev.kind) with
    | none => hRunLines now (hookOfFor ps ev.id)
    | some d =>
      segAllLines now (spawn (addObs { ps := ps } (.start now ev.target ev.kind ev.tag)) (newProc ps ev d))
        ps.procs.length 0
  else segAllLines now { ps := ps } (ev.data - 1) ev.tag) ++ ([Line.other] ++ Y) ++ wLine ps now ev

theorem procEff_FB_full (ps : PS) (now : Nat) (ev : Ev) (k : Nat) (Y : List Line) {j : SSt} {X : Nat → Nat → Prop}
    (hY : ∀ l ∈ Y, neutK l = true) (hpp : PPV ps)
    (h : FN j k X (if ev.data = 0 then ps.procs.length else ev.data - 1) now { ps := ps }) :
    FB (procEff ps now ev) (foldFrom k (restLines ps now ev Y) j) (k + (restLines ps now ev Y).length) X := by
  unfold procEff restLines wLine
  by_cases hd : ev.data = 0
  · simp only [hd, if_true] at h ⊢
    cases hfind : ps.defs.find? (fun d => d.ent == ev.target && d.kind == ev.kind) with
    | none =>
      simp only [List.append_nil]
      refine FB_neutrals _ j k ?_ ?_
      · intro l hl
        rcases List.mem_append.mp hl with hl | hl
        · exact hRunLines_neut now _ l hl
        · rcases List.mem_append.mp hl with hl | hl
          · simp only [List.mem_singleton] at hl; subst hl; rfl
          · exact neut_of_neutK l (hY l hl)
      · refine (runHooks_FN (me := ps.procs.length) (now := now) now _ _ ?_).1
        exact FN_same h rfl rfl rfl rfl
    | some d =>
      simp only []
      apply runSegment_FB_full _ _ _ _ _ _ hY
      · intro p hp seg hseg
        have hp' : (ps.procs ++ [newProc ps ev d])[ps.procs.length]? = some p := hp
        have : p = newProc ps ev d := by simpa using hp'.symm
        subst this
        exact hpp.defs d (List.mem_of_find?_eq_some hfind) seg hseg
      · refine FN_frame h rfl (fun sp hsp => Or.inl hsp) (fun x hx => hx) ?_
        intro q hq
        show (ps.procs ++ [newProc ps ev d])[q]? = ps.procs[q]?
        by_cases hlt : q < ps.procs.length
        · rw [List.getElem?_append_left hlt]
        · have h1 : ps.procs.length ≤ q := by omega
          rw [List.getElem?_eq_none_iff.mpr h1, List.getElem?_eq_none_iff.mpr (by simp; omega)]
  · simp only [hd, if_false] at h ⊢
    apply runSegment_FB_full _ _ _ _ _ _ hY ?_ h
    intro p hp seg hseg
    exact (hpp.procs _ p hp).1 seg hseg

theorem fullLines_split (s : St PS) (m : Ev) :
    fullLines s m = openLine s.ent m ++ restLines s.ent m.time m (yLines (procEff s.ent m.time m).specs) := by
  unfold fullLines allHookLines openLine restLines
  by_cases hd : m.data = 0
  · have hr : rLine s.ent m = [] := by simp [rLine, hd]
    simp only [hd, if_true, hr, List.nil_append]
    cases s.ent.defs.find? (fun d => d.ent == m.target && d.kind == m.kind) with
    | none => simp [List.append_assoc]
    | some d => simp [List.append_assoc]
  · simp only [hd, if_false]
    simp [List.append_assoc]

theorem FI_step_full (s : St PS) (ls : List Line) (m : Ev) (hm : m ∈ s.heap) (pinv : ProcInv s) (h : FI s ls) :
    FI (stepWith procMachine s m) (fullStep s ls m) := by
  unfold stepWith fullStep
  simp only []
  split
  · exact FI_skip s _ m _ _ _ _ _ _ h
  · split
    · exact FI_skip s _ m _ _ _ _ _ _ h
    · split
      · exact FI_skip s _ m _ _ _ _ _ _ h
      · have heq := procHandle_eq s.ent m.time m
        have hent : (procMachine.handle s.ent m.time m).ent = (procEff s.ent m.time m).ps := by
          show (procHandle s.ent m.time m).ent = _; rw [heq]
        have hspecs : (procMachine.handle s.ent m.time m).specs = (procEff s.ent m.time m).specs := by
          show (procHandle s.ent m.time m).specs = _; rw [heq]
        have hpp := procEff_PPV s.ent m.time m h.pp
        have hfb : FB (procEff s.ent m.time m) (foldFrom 0 (ls ++ fullLines s m) {}) (ls ++ fullLines s m).length
            (XT (s.heap.erase m)) := by
          rw [fullLines_split]
          generalize hYdef : yLines (procEff s.ent m.time m).specs = Y
          have hY : ∀ l ∈ Y, neutK l = true := by rw [← hYdef]; exact yLines_neutK _
          have hfold : foldFrom 0 (ls ++ (openLine s.ent m ++ restLines s.ent m.time m Y)) {} =
              foldFrom (ls.length + (openLine s.ent m).length) (restLines s.ent m.time m Y)
                (foldFrom ls.length (openLine s.ent m) (foldFrom 0 ls {})) := by
            rw [foldFrom_append, foldFrom_append, Nat.zero_add]
          have hlen : (ls ++ (openLine s.ent m ++ restLines s.ent m.time m Y)).length =
              ls.length + (openLine s.ent m).length + (restLines s.ent m.time m Y).length := by
            simp only [List.length_append]; omega
          rw [hfold, hlen]
          by_cases hline : m.data = 0 ∨ rLine s.ent m ≠ []
          · have hopen := FB_open s m hm pinv (foldFrom 0 ls {}) ls.length h.fb hline
            exact procEff_FB_full s.ent m.time m (ls.length + (openLine s.ent m).length) Y hY h.pp hopen
          · have hd : m.data ≠ 0 := fun h0 => hline (Or.inl h0)
            have hr : rLine s.ent m = [] := by
              cases hrl : rLine s.ent m with
              | nil => rfl
              | cons a r => exact absurd (Or.inr (by rw [hrl]; simp)) hline
            obtain ⟨e1, e2, e3⟩ := noline s.ent m.time m hd hr h.pp
            have hop : openLine s.ent m = [] := by unfold openLine; simp only [hd, if_false, hr]
            have hseg : segAllLines m.time ({ ps := s.ent } : Eff) (m.data - 1) m.tag = [] := by
              unfold rLine at hr
              simp only [hd, if_false] at hr
              cases hp : s.ent.procs[m.data - 1]? with
              | none => simp [segAllLines, hp]
              | some p =>
                rw [hp] at hr
                simp only [] at hr
                have hs : p.segs = [] := by
                  rcases (h.pp.procs _ p hp).2 with h1 | h1
                  · by_cases hst : (p.started && !p.segs.isEmpty) = true
                    · simp only [hst, if_true] at hr; cases hr
                    · rw [h1] at hst
                      simp at hst
                      exact hst
                  · exact h1
                simp [segAllLines, hp, hs]
            have hrest : restLines s.ent m.time m Y = [Line.other] ++ Y := by
              unfold restLines
              simp only [hd, if_false, hseg, e3, List.nil_append, List.append_nil]
            rw [e1, hop, hrest]
            simp only [foldFrom, List.length_nil, Nat.add_zero]
            refine FB_neutrals _ _ _ ?_ (FB_monoX h.fb ?_)
            · intro l hl
              rcases List.mem_append.mp hl with hl | hl
              · simp only [List.mem_singleton] at hl; subst hl; rfl
              · exact neut_of_neutK l (hY l hl)
            · intro q t ⟨ev, he, hdq⟩
              exact ⟨ev, List.mem_of_mem_erase he, hdq⟩
        generalize procEff s.ent m.time m = r at hent hspecs hfb hpp
        refine ⟨?_, ?_⟩
        · show FB ({ ps := (procMachine.handle s.ent m.time m).ent } : Eff) (foldFrom 0 (ls ++ fullLines s m) {})
            (ls ++ fullLines s m).length
            (XT (s.heap.erase m ++ mkEvents s.nextId m.time (procMachine.handle s.ent m.time m).specs))
          rw [hent, hspecs]
          apply FB_close hfb
          intro q t ⟨ev, he, hd, ht, htt⟩
          rcases List.mem_append.mp he with he | he
          · exact Or.inl ⟨ev, he, hd, ht, htt⟩
          · obtain ⟨sp, hsp, h1, h2, h3⟩ := mkEvents_full3 _ _ _ ev he
            exact Or.inr ⟨sp, hsp, by omega, by omega, by omega⟩
        · show PPV (procMachine.handle s.ent m.time m).ent
          rw [hent]; exact hpp

theorem FI_run_full (endT : Option Nat) (n : Nat) (s : St PS) (ls : List Line) (pinv : ProcInv s) (h : FI s ls) :
    FI (run procMachine endT n s) (fullRun endT n s ls) := by
  induction n generalizing s ls with
  | zero => simpa [run, fullRun]
  | succ n ih =>
    unfold run fullRun step
    cases hh : s.heap with
    | nil => simpa
    | cons x xs =>
      simp only []
      by_cases hc : continues endT s = true
      · simp only [hc, if_true]
        have hmem : minOf x xs ∈ s.heap := by rw [hh]; exact (pop_is_min x xs).1
        exact ih _ _ (step_procInv s _ pinv hmem) (FI_step_full s ls _ hmem pinv h)
      · simp only [hc, Bool.false_eq_true, if_false]
        exact h

end HappyModel.C01.FV

namespace HappyModel.C01
open HappyModel.C02.Spec (Line HSt hookStep hookMonitor delayMonitor waitMonitor SSt stepLine)

/-- **the full trace of the process model passes every check of the C02 judge but the end-of-trace clause,
    plain futures**: for every handler table with plain futures (`FV.PlainSegV`), from every initial state with
    no process, no future, plain pending events and fresh creation indices, every end time and number of
    iterations, the trace the model writes (`c02FullTraceOf`: the `h` lines of the pre-run hooks, then per
    delivery the `R` line, the `S` / `K` line, the `h` and `r` lines in action order, `F` and the `H` / `c`
    lines, the `y` and `w` lines) is accepted by the hook monitor, the delay monitor, the wait monitor and the
    settle fold — `Spec.judgeLines` can only answer with its last clause, `future/resolved-but-never-resumed` -/
theorem plain_full_trace_satisfies_c02_spec (endT : Option Nat) (n : Nat) (s0 : St PS) (inv : Inv s0)
    (hk : HookInv s0) (h0 : InitOk s0) (hlog : s0.log = []) (hlate : s0.ent.late = [])
    (hf2 : ∀ x ∈ s0.ent.hookOf, x.1 < s0.ent.nid) (hlk : ∀ x ∈ s0.ent.lastKind, x.2 < s0.ent.nid)
    (hpl : ∀ d ∈ s0.ent.defs, ∀ seg ∈ d.segs, FV.PlainSegV seg) (hfut : s0.ent.futs = []) :
    hookMonitor (c02FullTraceOf endT n s0) = none ∧ delayMonitor (c02FullTraceOf endT n s0) = none ∧
    waitMonitor (c02FullTraceOf endT n s0) = none ∧
    ((enum (c02FullTraceOf endT n s0)).foldl (fun st p => stepLine st p.1 p.2) {}).err = none := by
  have hr := fullRun_HR endT n s0 _ inv hk h0.procInv (HR_init s0 h0 hlog hlate hf2 hlk)
  have hdw := process_trace_satisfies_c02_spec_delay_wait endT n s0 inv h0 (c02FullTraceOf endT n s0)
    (c02FullTrace_dw endT n s0)
  refine ⟨?_, hdw.1, hdw.2, ?_⟩
  · unfold hookMonitor c02FullTraceOf
    simp [hr.err, hr.due]
  · rw [fold_enum_eq]
    have hget : ∀ f, futGet s0.ent.futs f = ({} : Fut) := by intro f; rw [hfut]; rfl
    have hpp : FV.PPV s0.ent := ⟨hpl, by intro q p hq; rw [h0.noProcs] at hq; simp at hq⟩
    have hb0 : FV.FB ({ ps := s0.ent } : Eff) {} 0 (FV.XT s0.heap) := by
      refine ⟨⟨?_, ?_, ?_⟩, rfl, ?_, ?_, ?_, ?_, ?_, ?_, ?_, ?_, ?_, ?_, h0.heldPlain, rfl⟩
      · intro o ho; simp at ho
      · intro g o hg; simp [SSt.obj] at hg
      · intro a b o ha; simp [SSt.obj] at ha
      · intro w hw; simp at hw
      · intro o r hr; simp [resOf] at hr
      · intro f hf; rw [hget] at hf; simp at hf
      · intro f o _ ho; simp [SSt.obj] at ho
      · intro f hf; rw [hget] at hf; simp at hf
      · intro f; rw [hget]
      · intro f pid hf; rw [hget] at hf; simp at hf
      · intro f g pid hf; rw [hget] at hf; simp at hf
      · intro f pid hf; rw [hget] at hf; simp at hf
      · intro pid t hp w hw; simp at hw
    have hinit : ∀ l ∈ initHookLines s0.ent, FV.neut l = true := by
      intro l hl
      unfold initHookLines at hl
      obtain ⟨x, _, rfl⟩ := List.mem_map.mp hl
      rfl
    have hb1 := FV.FB_neutrals (initHookLines s0.ent) {} 0 hinit hb0
    rw [Nat.zero_add] at hb1
    exact (FV.FI_run_full endT n s0 _ h0.procInv ⟨hb1, hpp⟩).fb.err

/-- for the initial state of any program with a plain pre-run schedule and plain futures -/
theorem plain_program_full_trace_satisfies_c02_spec (p : Program) (gateCont : Bool) (hp : p.Plain)
    (hf : p.PlainFuturesV) (endT : Option Nat) (n : Nat) :
    hookMonitor (c02FullTraceOf endT n (p.initState gateCont)) = none ∧
    delayMonitor (c02FullTraceOf endT n (p.initState gateCont)) = none ∧
    waitMonitor (c02FullTraceOf endT n (p.initState gateCont)) = none ∧
    ((enum (c02FullTraceOf endT n (p.initState gateCont))).foldl (fun st q => stepLine st q.1 q.2) {}).err = none :=
  plain_full_trace_satisfies_c02_spec endT n _ (initState_inv p gateCont) (initState_hookInv p gateCont)
    (initState_ok p gateCont hp) rfl rfl (initState_hookOf_fresh p gateCont) (initState_lastKind_fresh p gateCont) hf rfl

end HappyModel.C01
