import HappyModel.C01.Parse
import HappyProofs.C02.Run
/-!
# C02 — the initial state satisfies the invariant; readable consequences of the invariant
-/
namespace HappyModel.C01
set_option linter.unusedVariables false

/-- a pre-run schedule of plain events (no continuation payloads) — what `parseProgram` produces -/
def Program.Plain (p : Program) : Prop :=
  (∀ x ∈ p.pre, x.1.data = 0) ∧ (∀ x ∈ p.held, x.data = 0)

theorem cntSpec_zero_of_plain (l : List Spec) (h : ∀ sp ∈ l, sp.data = 0) (q : Nat) : cntSpec l q = 0 := by
  unfold cntSpec
  rw [List.countP_eq_zero]
  intro sp hsp
  simp [h sp hsp]

/-- the hypothesis of the run-level theorems, stated on an arbitrary initial state: only plain
    events are pending, no process exists, nobody is parked, held events are plain -/
structure InitOk (s : St PS) : Prop where
  heapPlain : ∀ e ∈ s.heap, e.data = 0
  noPark : ∀ f, (futGet s.ent.futs f).parked = none
  noProcs : s.ent.procs = []
  heldPlain : ∀ q ∈ s.ent.held, q.2.data = 0

theorem InitOk.procInv {s : St PS} (h : InitOk s) : ProcInv s := by
  have hheap : ∀ q, cntHeap s.heap q = 0 := by
    intro q
    unfold cntHeap
    rw [List.countP_eq_zero]
    intro e he
    simp [h.heapPlain e he]
  have hpark : ∀ q, cntPark s.ent.futs q = 0 := by
    intro q
    rw [cntPark_zero]
    intro f; rw [h.noPark f]; simp
  refine ⟨?_, ?_, ?_, ?_, h.heldPlain⟩
  · intro q; rw [hheap, hpark]; omega
  · intro e he; rw [h.heapPlain e he]; omega
  · intro f pid hf; rw [h.noPark f] at hf; simp at hf
  · intro pid p hp; rw [h.noProcs] at hp; simp at hp

theorem initState_ok (p : Program) (gateCont : Bool) (hp : p.Plain) : InitOk (p.initState gateCont) := by
  refine ⟨?_, ?_, rfl, ?_⟩
  · intro e he
    have he' : e ∈ mkEvents 0 p.start (p.pre.map (·.1)) := he
    obtain ⟨sp, hsp, hd⟩ := mkEvents_data 0 p.start _ e he'
    rw [hd]
    obtain ⟨x, hx, rfl⟩ := List.mem_map.mp hsp
    exact hp.1 x hx
  · intro f
    show (futGet [] f).parked = none
    rw [futGet_default [] f (by simp)]
  · intro q hq
    have hq' : q ∈ ((List.range p.held.length).zip p.held).map
        (fun q => (q.1, { q.2 with tag := (p.pre.map (·.1)).length + q.1 + 1 })) := hq
    obtain ⟨x, hx, rfl⟩ := List.mem_map.mp hq'
    exact hp.2 x.2 (List.of_mem_zip hx).2

/-! ### reading the invariant -/

/-- a process parked on a future has no continuation event pending -/
theorem ProcInv.park_excludes_continuation {s : St PS} (inv : ProcInv s) (f pid : Nat)
    (h : (futGet s.ent.futs f).parked = some pid) : ∀ e ∈ s.heap, e.data ≠ pid + 1 := by
  have h1 : cntPark s.ent.futs pid ≠ 0 := by
    rw [Ne, cntPark_zero]; intro hall; exact hall f h
  have h2 := inv.atMostOne pid
  have h3 : cntHeap s.heap pid = 0 := by omega
  unfold cntHeap at h3
  rw [List.countP_eq_zero] at h3
  intro e he
  simpa using h3 e he

/-- a process is parked on at most one future -/
theorem ProcInv.park_unique {s : St PS} (inv : ProcInv s) (f g pid : Nat)
    (hf : (futGet s.ent.futs f).parked = some pid) (hg : (futGet s.ent.futs g).parked = some pid) : f = g := by
  apply Classical.byContradiction
  intro hne
  have h1 := cntPark_futSet s.ent.futs f pid {}
  have h2 : cntPark (futSet s.ent.futs f {}) pid ≠ 0 := by
    rw [Ne, cntPark_zero]; intro hall
    have := hall g
    rw [futGet_futSet_ne _ _ _ _ (Ne.symm hne)] at this
    exact this hg
  have h3 := inv.atMostOne pid
  rw [hf] at h1
  simp [ind] at h1
  omega

/-- at most one continuation event of a process is pending -/
theorem ProcInv.continuation_unique {s : St PS} (inv : ProcInv s) (pid : Nat) :
    (s.heap.filter (fun e => e.data == pid + 1)).length ≤ 1 := by
  have := inv.atMostOne pid
  unfold cntHeap at this
  rw [List.countP_eq_length_filter] at this
  omega

/-- a finished process has no continuation pending, is parked nowhere and has no code left -/
theorem ProcInv.done_nothing {s : St PS} (inv : ProcInv s) (pid : Nat) (p : Proc)
    (hp : s.ent.procs[pid]? = some p) (hd : p.done = true) :
    p.segs = [] ∧ (∀ e ∈ s.heap, e.data ≠ pid + 1) ∧ ∀ f, (futGet s.ent.futs f).parked ≠ some pid := by
  have ⟨a, b, c⟩ := inv.doneNone pid p hp hd
  refine ⟨a, ?_, (cntPark_zero _ _).mp c⟩
  unfold cntHeap at b
  rw [List.countP_eq_zero] at b
  intro e he
  simpa using b e he

end HappyModel.C01
