import HappyProofs.C02.JudgeWait
/-!
# C02 — the hook clauses of the trace Spec are silent on the trace of the process model

`Spec.hookMonitor` (`process/hook/not-run-at-finish`, `…/ran-without-being-due`, `…/ran-out-of-order`,
`…/ran-at-wrong-instant`) reads the `h` (hook attached), `H` (hook ran), `S` / `K` / `F` and `c` lines
of a trace.  `hookView` is that part of the trace the model itself writes, built along `run`, with the
creation index of an event (+ 1) as its tag: per delivery the `S` or `K` line, one `h` line per hook
attached by the actions of the segment *in action order* (`emit` with a hook; `add_completion_hook` on
an event that is pending, done, or — `in flight` — being processed by a generator), then for a
finishing segment the `F` line and one `H` (+ `c`) line per hook the model runs, and a closing
neutral line (anything else that follows in a full trace).
-/
namespace HappyModel.C01
open HappyModel.C02.Spec (Line HSt hookStep hookMonitor)
set_option linter.unusedVariables false
set_option linter.unusedSimpArgs false

/-! ## the view -/

/-- hooks attached to event `id` and not yet handed to a process -/
def hookOfFor (ps : PS) (id : Nat) : List Nat := (ps.hookOf.filter (fun p => p.1 == id)).map (·.2)

def hAddLines (e : Eff) : Act → List Line
  | .emit _ _ _ _ hook => if hook = 0 then [] else [Line.hookAdd (e.ps.nid + 1) hook]
  | .addHook kind hook =>
    match e.ps.lastKind.find? (fun p => p.1 == kind) with
    | some (_, id) => [Line.hookAdd (id + 1) hook]
    | none => []
  | _ => []

def actsHookLines (now : Nat) : Eff → List Act → List Line
  | _, [] => []
  | e, a :: r => hAddLines e a ++ actsHookLines now (runAct now e a) r

def hRunLines (now : Nat) (hooks : List Nat) : List Line :=
  hooks.flatMap (fun k => [Line.hookRun now k, Line.created])

def segHookLines (now : Nat) (e : Eff) (pid tag : Nat) : List Line :=
  match e.ps.procs[pid]? with
  | some p =>
    match p.segs with
    | seg :: _ =>
      actsHookLines now (segStart now e pid tag p) seg.acts ++
        (match seg.term with
         | .ret => Line.finish now pid ::
             hRunLines now (p.hooks ++ lateOf (seg.acts.foldl (runAct now) (segStart now e pid tag p)).ps pid)
         | _ => [])
    | [] => []
  | none => []

def hookLines (ps : PS) (now : Nat) (ev : Ev) : List Line :=
  (if ev.data = 0 then
    match ps.defs.find? (fun d => d.ent == ev.target && d.kind == ev.kind) with
    | none => Line.skipped now (ev.id + 1) :: hRunLines now (hookOfFor ps ev.id)
    | some d =>
      Line.start now (ev.id + 1) ::
        segHookLines now (spawn (addObs { ps := ps } (.start now ev.target ev.kind ev.tag)) (newProc ps ev d))
          ps.procs.length 0
  else segHookLines now { ps := ps } (ev.data - 1) ev.tag) ++ [Line.other]

def hviewStep (s : St PS) (ls : List Line) (m : Ev) : List Line :=
  if s.cancelled.contains m.id then ls
  else if m.time < s.now then ls
  else if procMachine.crashed s.ent m then ls
  else ls ++ hookLines s.ent m.time m

def hviewRun (endT : Option Nat) : Nat → St PS → List Line → List Line
  | 0, _, ls => ls
  | n+1, s, ls =>
    match s.heap with
    | [] => ls
    | x :: xs =>
      if continues endT s then hviewRun endT n (stepWith procMachine s (minOf x xs)) (hviewStep s ls (minOf x xs))
      else ls

/-- the `h` lines of the hooks the pre-run events were created with -/
def initHookLines (ps : PS) : List Line := ps.hookOf.map (fun x => Line.hookAdd (x.1 + 1) x.2)

def hookView (endT : Option Nat) (n : Nat) (s0 : St PS) : List Line := hviewRun endT n s0 (initHookLines s0.ent)

/-! ## the relation between the process state and the monitor state -/

def hooksFor (h : HSt) (t : Nat) : List Nat := (h.hooks.filter (fun p => p.1 == t)).map (·.2)

/-- what the hook clauses see of a process -/
def hproj (p : Proc) : Nat × Bool × List Nat := (p.ev, p.done, p.hooks)

structure HR (closed : List Nat) (ps : PS) (h : HSt) : Prop where
  err : h.err = none
  due : h.due = []
  /-- an event that has not been handed to a handler: the monitor's list is the model's -/
  h1 : ∀ id, id ∉ closed → hooksFor h (id + 1) = hookOfFor ps id
  /-- an event whose process is in flight: what it started with, then what was added since -/
  h2 : ∀ (pid : Nat) (p : Proc), ps.procs[pid]? = some p → p.done = false → hooksFor h (p.ev + 1) = p.hooks ++ lateOf ps pid
  f1 : ∀ x ∈ h.hooks, x.1 ≤ ps.nid
  f2 : ∀ x ∈ ps.hookOf, x.1 < ps.nid
  lk : ∀ x ∈ ps.lastKind, x.2 < ps.nid
  cl : ∀ id ∈ closed, id < ps.nid
  u : ∀ (i j : Nat) (p q : Proc), ps.procs[i]? = some p → ps.procs[j]? = some q → p.ev = q.ev → i = j
  v : ∀ (pid : Nat) (p : Proc), ps.procs[pid]? = some p → p.ev ∈ closed
  pt : ∀ (pid : Nat) (p : Proc), ps.procs[pid]? = some p → h.pidTag.find? (fun x => x.1 == pid) = some (pid, p.ev + 1)
  np : h.nProc = ps.procs.length
  lb : ∀ x ∈ ps.late, x.1 < ps.procs.length

/-- a change of the process state the hook clauses do not see (only the creation counter grows) -/
structure HFrame (a b : PS) : Prop where
  hookOf : b.hookOf = a.hookOf
  late : b.late = a.late
  lastKind : ∀ x ∈ b.lastKind, x ∈ a.lastKind ∨ (a.nid ≤ x.2 ∧ x.2 < b.nid)
  procs : b.procs.map hproj = a.procs.map hproj
  nid : a.nid ≤ b.nid

theorem HFrame.refl (a : PS) : HFrame a a :=
  ⟨rfl, rfl, fun x hx => Or.inl hx, rfl, Nat.le_refl _⟩

theorem HFrame.trans {a b c : PS} (h1 : HFrame a b) (h2 : HFrame b c) : HFrame a c := by
  refine ⟨by rw [h2.hookOf, h1.hookOf], by rw [h2.late, h1.late], ?_, by rw [h2.procs, h1.procs],
    Nat.le_trans h1.nid h2.nid⟩
  intro x hx
  have n1 := h1.nid
  have n2 := h2.nid
  rcases h2.lastKind x hx with h | h
  · rcases h1.lastKind x h with h' | h'
    · exact Or.inl h'
    · exact Or.inr ⟨h'.1, by omega⟩
  · exact Or.inr ⟨by omega, h.2⟩

theorem getElem?_of_map_hproj {a b : List Proc} (h : b.map hproj = a.map hproj) (i : Nat) (q : Proc)
    (hq : b[i]? = some q) : ∃ p, a[i]? = some p ∧ hproj p = hproj q := by
  have := congrArg (fun l => l[i]?) h
  simp only [List.getElem?_map, hq, Option.map_some] at this
  cases ha : a[i]? with
  | none => rw [ha] at this; simp at this
  | some p => rw [ha] at this; simp at this; exact ⟨p, rfl, this.symm⟩

theorem lateOf_congr {a b : PS} (h : b.late = a.late) (pid : Nat) : lateOf b pid = lateOf a pid := by
  unfold lateOf; rw [h]

theorem hookOfFor_congr {a b : PS} (h : b.hookOf = a.hookOf) (id : Nat) : hookOfFor b id = hookOfFor a id := by
  unfold hookOfFor; rw [h]

/-- the relation is insensitive to changes the hook clauses do not see -/
theorem HR_frame {closed : List Nat} {a b : PS} {h : HSt} (hr : HR closed a h) (hf : HFrame a b) : HR closed b h := by
  have hlk : ∀ x ∈ b.lastKind, x.2 < b.nid := by
    intro x hx
    rcases hf.lastKind x hx with h' | h'
    · have := hr.lk x h'; have := hf.nid; omega
    · exact h'.2
  have hlen : b.procs.length = a.procs.length := by
    have := congrArg List.length hf.procs; simpa using this
  have hget : ∀ i q, b.procs[i]? = some q → ∃ p, a.procs[i]? = some p ∧ hproj p = hproj q :=
    getElem?_of_map_hproj hf.procs
  refine
    { err := hr.err, due := hr.due, h1 := ?_, h2 := ?_, f1 := ?_, f2 := ?_, lk := hlk, cl := ?_, u := ?_, v := ?_,
      pt := ?_, np := by rw [hr.np, hlen], lb := ?_ }
  · intro id hid; rw [hookOfFor_congr hf.hookOf]; exact hr.h1 id hid
  · intro pid q hq hd
    obtain ⟨p, hp, hpq⟩ := hget pid q hq
    simp only [hproj, Prod.mk.injEq] at hpq
    rw [lateOf_congr hf.late, ← hpq.1, ← hpq.2.2]
    exact hr.h2 pid p hp (by rw [hpq.2.1]; exact hd)
  · intro x hx; have := hr.f1 x hx; have := hf.nid; omega
  · intro x hx; rw [hf.hookOf] at hx; have := hr.f2 x hx; have := hf.nid; omega
  · intro id hid; have := hr.cl id hid; have := hf.nid; omega
  · intro i j p q hp hq hev
    obtain ⟨p', hp', hpp⟩ := hget i p hp
    obtain ⟨q', hq', hqq⟩ := hget j q hq
    simp only [hproj, Prod.mk.injEq] at hpp hqq
    exact hr.u i j p' q' hp' hq' (by rw [hpp.1, hqq.1]; exact hev)
  · intro pid q hq
    obtain ⟨p, hp, hpq⟩ := hget pid q hq
    simp only [hproj, Prod.mk.injEq] at hpq
    rw [← hpq.1]; exact hr.v pid p hp
  · intro pid q hq
    obtain ⟨p, hp, hpq⟩ := hget pid q hq
    simp only [hproj, Prod.mk.injEq] at hpq
    rw [← hpq.1]; exact hr.pt pid p hp
  · intro x hx; rw [hf.late] at hx; rw [hlen]; exact hr.lb x hx

/-! ## list facts -/
theorem findIdx?_some' {α} (P : α → Bool) (l : List α) (i : Nat) (h : l.findIdx? P = some i) :
    ∃ x, l[i]? = some x ∧ P x = true := by
  induction l generalizing i with
  | nil => simp at h
  | cons a r ih =>
    rw [List.findIdx?_cons] at h
    by_cases hp : P a = true
    · simp [hp] at h; subst h; exact ⟨a, by simp, hp⟩
    · simp [hp] at h
      obtain ⟨j, hj, rfl⟩ := h
      obtain ⟨x, hx, hpx⟩ := ih j hj
      exact ⟨x, by simpa using hx, hpx⟩
theorem findIdx?_none' {α} (P : α → Bool) (l : List α) (h : l.findIdx? P = none) : ∀ x ∈ l, P x = false := by
  induction l with
  | nil => intro x hx; simp at hx
  | cons a r ih =>
    rw [List.findIdx?_cons] at h
    by_cases hp : P a = true
    · simp [hp] at h
    · simp [hp] at h
      intro x hx
      rcases List.mem_cons.mp hx with rfl | hx
      · simpa using hp
      · exact h x hx

theorem map_hproj_set (l : List Proc) (i : Nat) (p q : Proc) (h : l[i]? = some p) (hq : hproj q = hproj p) :
    (l.set i q).map hproj = l.map hproj := by
  apply List.ext_getElem?
  intro j
  simp only [List.getElem?_map, List.getElem?_set]
  by_cases hij : i = j
  · subst hij
    have hl : i < l.length := getElem?_some_lt h
    have hli : l[i] = p := by rw [List.getElem?_eq_getElem hl] at h; exact Option.some.inj h
    simp [hl, hq, hli]
  · simp [hij]

/-! ## the monitor on single lines -/

theorem hookStep_add (h : HSt) (t k : Nat) (hd : h.due = []) :
    hookStep h (.hookAdd t k) = { h with hooks := h.hooks ++ [(t, k)] } := by
  simp [hookStep, hd]

theorem hooksFor_add (h : HSt) (t k t' : Nat) :
    hooksFor { h with hooks := h.hooks ++ [(t, k)] } t' = hooksFor h t' ++ (if t = t' then [k] else []) := by
  unfold hooksFor
  by_cases htt : t = t'
  · subst htt; simp [List.filter_append]
  · simp [List.filter_append, htt]

theorem hookStep_other (h : HSt) (hd : h.due = []) : hookStep h .other = h := by
  simp [hookStep, hd]

/-- the `H` (+ `c`) lines of the due hooks, in order, at the due instant -/
theorem hRun_ok (now : Nat) (hooks : List Nat) (h : HSt) (hd : h.due = hooks) (hc : h.dueClock = now) :
    (hRunLines now hooks).foldl hookStep h = { h with due := [] } := by
  induction hooks generalizing h with
  | nil =>
    cases h with
    | mk a b c d e f => simp only at hd; subst hd; rfl
  | cons k r ih =>
    simp only [hRunLines, List.flatMap_cons, List.cons_append, List.nil_append, List.foldl_cons]
    have h1 : hookStep h (.hookRun now k) = { h with due := r } := by
      simp [hookStep, hd, hc]
    have h2 : hookStep { h with due := r } .created = { h with due := r } := by
      simp [hookStep]
    rw [h1, h2]
    have := ih { h with due := r } rfl hc
    simpa [hRunLines] using this

/-! ## the cascade and the plain creations are invisible to the hook clauses -/

theorem HFrame_of_eqs {a b : PS} (h1 : b.hookOf = a.hookOf) (h2 : b.late = a.late) (h3 : b.lastKind = a.lastKind)
    (h4 : b.procs = a.procs) (h5 : b.nid = a.nid) : HFrame a b :=
  ⟨h1, h2, fun y hy => Or.inl (by rw [← h3]; exact hy), by rw [h4], by rw [h5]; exact Nat.le_refl _⟩

theorem HFrame_setFut (e : Eff) (f : Nat) (x : Fut) : HFrame e.ps (e.setFut f x).ps :=
  ⟨rfl, rfl, fun y hy => Or.inl hy, rfl, Nat.le_refl _⟩

theorem HFrame_push0 (e : Eff) (sp : Spec) (tagged : Bool) : HFrame e.ps (e.push sp 0 tagged).ps := by
  refine ⟨by simp [Eff.push], rfl, ?_, rfl, by simp [Eff.push]⟩
  intro x hx
  simp only [Eff.push] at hx
  split at hx
  · rcases List.mem_cons.mp hx with rfl | hx
    · right; simp [Eff.push]
    · left; exact (List.mem_filter.mp hx).1
  · left; exact hx

theorem HFrame_setProc (e : Eff) (i : Nat) (p q : Proc) (hp : e.ps.procs[i]? = some p) (hq : hproj q = hproj p) :
    HFrame e.ps (e.setProc i q).ps :=
  ⟨rfl, rfl, fun y hy => Or.inl hy, by simp only [setProc_procs]; exact map_hproj_set _ _ _ _ hp hq, Nat.le_refl _⟩

theorem HFrame_resumeParked (e : Eff) (now f : Nat) : HFrame e.ps (resumeParked e now f).ps := by
  cases hpk : (futGet e.ps.futs f).parked with
  | none => rw [resumeParked_none e now f hpk]; exact HFrame.refl _
  | some pid =>
    cases hp : e.ps.procs[pid]? with
    | none => rw [resumeParked_noproc e now f pid hpk hp]; exact HFrame.refl _
    | some p =>
      rw [resumeParked_some e now f pid p hpk hp]
      unfold resumed
      have h1 := HFrame_push0 e (contSpec p pid now) false
      have h2 := HFrame_setFut (e.push (contSpec p pid now) 0 false) f { futGet e.ps.futs f with parked := none }
      have h3 := HFrame_setProc ((e.push (contSpec p pid now) 0 false).setFut f { futGet e.ps.futs f with parked := none })
        pid p { p with send := (futGet e.ps.futs f).value } (by simpa using hp) rfl
      exact h1.trans (h2.trans h3)

theorem HF_cclosed (a : PS) : CClosed (fun e => HFrame a e.ps) where
  resolve := by
    intro e now f v h hr
    unfold markResolved
    exact h.trans ((HFrame_setFut e f _).trans (HFrame_resumeParked _ now f))
  allUpd := fun e c res rem h hr => h.trans (HFrame_setFut e c _)

theorem addCb_HF (a : PS) (e : Eff) (now g : Nat) (cb : Cb) (h : HFrame a e.ps) : HFrame a (addCb e now g cb).ps := by
  rw [addCb_eq]
  split
  · exact cbStep_cclosed (HF_cclosed a) _ _ _ _ _ h
  · exact h.trans (HFrame_setFut e g _)

/-- every action except `emit` with a hook and `add_completion_hook` -/
theorem runAct_HFrame (now : Nat) (e : Eff) (a : Act)
    (ha : (∀ t k d dm hk, a = .emit t k d dm hk → hk = 0) ∧ ∀ k hk, a ≠ .addHook k hk) :
    HFrame e.ps (runAct now e a).ps := by
  cases a with
  | emit tgt kind delay daemon hook =>
    have := ha.1 tgt kind delay daemon hook rfl
    subst this
    exact HFrame_push0 e _ true
  | emitPast tgt kind back daemon => exact HFrame_push0 e _ true
  | emitAbs tgt kind time daemon => exact HFrame_push0 e _ true
  | release i =>
    simp only [runAct]
    split
    · exact HFrame.refl _
    · exact ⟨rfl, rfl, fun y hy => Or.inl hy, rfl, Nat.le_succ _⟩
  | cancel kind =>
    simp only [runAct]
    split
    · exact HFrame.refl _
    · exact HFrame.refl _
  | resolve f v => exact resolveFut_cclosed (HF_cclosed e.ps) _ _ _ _ _ (HFrame.refl _)
  | anyOf f gs =>
    simp only [runAct]
    apply foldl_closed (P := fun x => HFrame e.ps x.ps)
    · intro e' p h'; exact addCb_HF e.ps _ _ _ _ h'
    · exact HFrame_setFut e f _
  | allOf f gs =>
    simp only [runAct]
    apply foldl_closed (P := fun x => HFrame e.ps x.ps)
    · intro e' p h'; exact addCb_HF e.ps _ _ _ _ h'
    · exact HFrame_setFut e f _
  | fresh f => exact HFrame_setFut e f _
  | crash x => exact HFrame_of_eqs rfl rfl rfl rfl rfl
  | restore x => exact HFrame_of_eqs rfl rfl rfl rfl rfl
  | addHook kind hook => exact absurd rfl (ha.2 kind hook)
  | metric x abs v => exact HFrame_of_eqs rfl rfl rfl rfl rfl
  | relay tgt kind delay limit daemon =>
    simp only [runAct]
    split
    · have h1 := HFrame_push0 e ⟨now + delay, tgt, kind, daemon, 0, 0⟩ true
      refine h1.trans ?_
      exact HFrame_of_eqs rfl rfl rfl rfl rfl
    · exact HFrame.refl _

/-! ## the two actions that attach hooks -/

theorem hookOfFor_cons (ps : PS) (x : Nat × Nat) (id : Nat) :
    ((x :: ps.hookOf).filter (fun p => p.1 == id)).map (·.2)
      = (if x.1 = id then [x.2] else []) ++ hookOfFor ps id := by
  unfold hookOfFor
  by_cases h : x.1 = id <;> simp [List.filter_cons, h]

theorem hookOfFor_append (ps : PS) (x : Nat × Nat) (id : Nat) :
    ((ps.hookOf ++ [x]).filter (fun p => p.1 == id)).map (·.2)
      = hookOfFor ps id ++ (if x.1 = id then [x.2] else []) := by
  unfold hookOfFor
  by_cases h : x.1 = id <;> simp [List.filter_append, h]

theorem hooksFor_nil_of_fresh (h : HSt) (t : Nat) (hf : ∀ x ∈ h.hooks, x.1 < t) : hooksFor h t = [] := by
  unfold hooksFor
  rw [List.filter_eq_nil_iff.mpr]
  · rfl
  · intro x hx
    have := hf x hx
    simp; omega

theorem hookOfFor_nil_of_fresh (ps : PS) (id : Nat) (hf : ∀ x ∈ ps.hookOf, x.1 < id) : hookOfFor ps id = [] := by
  unfold hookOfFor
  rw [List.filter_eq_nil_iff.mpr]
  · rfl
  · intro x hx
    have := hf x hx
    simp; omega

/-- `emit` with a completion hook: the new event (creation index `nid`) has exactly that hook -/
theorem emitHook_HR {closed : List Nat} (now : Nat) (e : Eff) (h : HSt) (tgt kind delay : Nat) (dm : Bool) (hook : Nat)
    (hk : hook ≠ 0) (hr : HR closed e.ps h) :
    HR closed (runAct now e (.emit tgt kind delay dm hook)).ps (hookStep h (.hookAdd (e.ps.nid + 1) hook)) := by
  rw [hookStep_add h _ _ hr.due]
  have hho : (runAct now e (.emit tgt kind delay dm hook)).ps.hookOf = (e.ps.nid, hook) :: e.ps.hookOf := by
    simp [runAct, Eff.push, hk]
  have hnid : (runAct now e (.emit tgt kind delay dm hook)).ps.nid = e.ps.nid + 1 := rfl
  have hlate : (runAct now e (.emit tgt kind delay dm hook)).ps.late = e.ps.late := rfl
  have hprocs : (runAct now e (.emit tgt kind delay dm hook)).ps.procs = e.ps.procs := rfl
  have hlk : ∀ x ∈ (runAct now e (.emit tgt kind delay dm hook)).ps.lastKind, x.2 < e.ps.nid + 1 := by
    intro x hx
    simp only [runAct, Eff.push] at hx
    split at hx
    · rcases List.mem_cons.mp hx with rfl | hx
      · simp
      · have := hr.lk x (List.mem_filter.mp hx).1; omega
    · have := hr.lk x hx; omega
  generalize (runAct now e (.emit tgt kind delay dm hook)).ps = ps' at hho hnid hlate hprocs hlk
  refine
    { err := hr.err, due := hr.due, h1 := ?_, h2 := ?_, f1 := ?_, f2 := ?_, lk := by rw [hnid]; exact hlk,
      cl := ?_, u := by rw [hprocs]; exact hr.u, v := by rw [hprocs]; exact hr.v,
      pt := by rw [hprocs]; exact hr.pt, np := by rw [hprocs]; exact hr.np, lb := by rw [hprocs, hlate]; exact hr.lb }
  · intro id hid
    rw [hooksFor_add]
    unfold hookOfFor
    rw [hho, hookOfFor_cons]
    by_cases hidn : e.ps.nid = id
    · subst hidn
      rw [hooksFor_nil_of_fresh h _ (fun x hx => by have := hr.f1 x hx; omega),
        hookOfFor_nil_of_fresh e.ps _ (fun x hx => hr.f2 x hx)]
      simp
    · have : ¬ (e.ps.nid + 1 = id + 1) := by omega
      simp [hidn, this]
      exact hr.h1 id hid
  · intro pid p hp hd
    rw [hprocs] at hp
    have hlt := hr.cl _ (hr.v pid p hp)
    rw [hooksFor_add, lateOf_congr hlate]
    have hne' : e.ps.nid ≠ p.ev := by omega
    simp [hne']
    exact hr.h2 pid p hp hd
  · intro x hx
    rw [hnid]
    rcases List.mem_append.mp hx with hx | hx
    · have := hr.f1 x hx; omega
    · simp at hx; subst hx; simp
  · intro x hx
    rw [hho] at hx
    rw [hnid]
    rcases List.mem_cons.mp hx with rfl | hx
    · simp
    · have := hr.f2 x hx; omega
  · intro id hid; rw [hnid]; have := hr.cl id hid; omega

/-- `add_completion_hook` on the event with creation index `id` -/
theorem addHook_HR {closed : List Nat} (e : Eff) (h : HSt) (id hook : Nat) (hid : id < e.ps.nid)
    (hr : HR closed e.ps h) : HR closed (addHookTo e id hook).ps (hookStep h (.hookAdd (id + 1) hook)) := by
  rw [hookStep_add h _ _ hr.due]
  unfold addHookTo
  cases hfi : e.ps.procs.findIdx? (fun p => p.ev == id && !p.done) with
  | some pid =>
    -- in flight: the hook joins the late list of that process
    simp only []
    obtain ⟨p0, hp0, hP⟩ := findIdx?_some' _ _ _ hfi
    simp only [Bool.and_eq_true, beq_iff_eq, Bool.not_eq_true'] at hP
    have hclosed : id ∈ closed := by rw [← hP.1]; exact hr.v pid p0 hp0
    refine
      { err := hr.err, due := hr.due, h1 := ?_, h2 := ?_, f1 := ?_, f2 := hr.f2, lk := hr.lk, cl := hr.cl, u := hr.u,
        v := hr.v, pt := hr.pt, np := hr.np, lb := ?_ }
    · intro id' hid'
      rw [hooksFor_add]
      have hne' : id ≠ id' := by intro heq; rw [heq] at hclosed; exact hid' hclosed
      simp [hne']
      exact hr.h1 id' hid'
    · intro pid' p hp hd
      rw [hooksFor_add]
      by_cases hpp : pid' = pid
      · subst hpp
        have hpe : p = p0 := by rw [hp0] at hp; exact (Option.some.inj hp).symm
        subst hpe
        have hl : lateOf { e.ps with late := e.ps.late ++ [(pid', hook)], lateAtt := hook :: e.ps.lateAtt } pid'
            = lateOf e.ps pid' ++ [hook] := by simp [lateOf, List.filter_append]
        rw [hl, ← List.append_assoc, ← hr.h2 pid' p hp hd]
        simp [hP.1]
      · have hne : p.ev ≠ id := by
          intro heq
          exact hpp (hr.u pid' pid p p0 hp hp0 (by rw [heq, hP.1]))
        have hl : lateOf { e.ps with late := e.ps.late ++ [(pid, hook)], lateAtt := hook :: e.ps.lateAtt } pid'
            = lateOf e.ps pid' := by
          have : (pid == pid') = false := by simp [Ne.symm hpp]
          simp [lateOf, List.filter_append, this]
        rw [hl]
        have hne' : id ≠ p.ev := fun hh => hne hh.symm
        simp [hne']
        exact hr.h2 pid' p hp hd
    · intro x hx
      rcases List.mem_append.mp hx with hx | hx
      · exact hr.f1 x hx
      · simp at hx; subst hx; show id + 1 ≤ e.ps.nid; omega
    · intro x hx
      rcases List.mem_append.mp hx with hx | hx
      · exact hr.lb x hx
      · simp at hx; subst hx; exact getElem?_some_lt hp0
  | none =>
    -- pending, done or dropped: the hook joins the event's own list
    simp only []
    have hnone := findIdx?_none' _ _ hfi
    refine
      { err := hr.err, due := hr.due, h1 := ?_, h2 := ?_, f1 := ?_, f2 := ?_, lk := hr.lk, cl := hr.cl, u := hr.u,
        v := hr.v, pt := hr.pt, np := hr.np, lb := hr.lb }
    · intro id' hid'
      rw [hooksFor_add]
      show _ = ((e.ps.hookOf ++ [(id, hook)]).filter (fun p => p.1 == id')).map (·.2)
      rw [hookOfFor_append, hr.h1 id' hid']
      by_cases hii : id = id' <;> simp [hii]
    · intro pid p hp hd
      rw [hooksFor_add]
      have hne : p.ev ≠ id := by
        intro heq
        have := hnone p (List.mem_of_getElem? hp)
        simp [heq, hd] at this
      have hne' : id ≠ p.ev := fun hh => hne hh.symm
      simp [hne']
      exact hr.h2 pid p hp hd
    · intro x hx
      rcases List.mem_append.mp hx with hx | hx
      · exact hr.f1 x hx
      · simp at hx; subst hx; show id + 1 ≤ e.ps.nid; omega
    · intro x hx
      rcases List.mem_append.mp hx with hx | hx
      · exact hr.f2 x hx
      · simp at hx; subst hx; exact hid

/-- one action of a segment -/
theorem runAct_HR {closed : List Nat} (now : Nat) (e : Eff) (h : HSt) (a : Act) (hr : HR closed e.ps h) :
    HR closed (runAct now e a).ps ((hAddLines e a).foldl hookStep h) := by
  by_cases ha : (∀ t k d dm hk, a = .emit t k d dm hk → hk = 0) ∧ ∀ k hk, a ≠ .addHook k hk
  · have hl : hAddLines e a = [] := by
      cases a with
      | emit t k d dm hk => simp [hAddLines, ha.1 t k d dm hk rfl]
      | addHook k hk => exact absurd rfl (ha.2 k hk)
      | _ => rfl
    rw [hl]
    exact HR_frame hr (runAct_HFrame now e a ha)
  · cases a with
    | emit t k d dm hk =>
      by_cases h0 : hk = 0
      · exfalso; apply ha
        refine ⟨?_, by intro k' hk' hc; cases hc⟩
        intro t' k' d' dm' hk' heq
        cases heq; exact h0
      · simp only [hAddLines, h0, if_false, List.foldl_cons, List.foldl_nil]
        exact emitHook_HR now e h t k d dm hk h0 hr
    | addHook k hk =>
      simp only [hAddLines, runAct]
      cases hf : e.ps.lastKind.find? (fun p => p.1 == k) with
      | none => simpa using hr
      | some x =>
        obtain ⟨k', id⟩ := x
        simp only [List.foldl_cons, List.foldl_nil]
        exact addHook_HR e h id hk (hr.lk _ (List.mem_of_find?_eq_some hf)) hr
    | _ =>
      exfalso; apply ha
      exact ⟨(by intro t k d dm hk hc; cases hc), (by intro k hk hc; cases hc)⟩

theorem acts_HR {closed : List Nat} (now : Nat) (acts : List Act) (e : Eff) (h : HSt) (hr : HR closed e.ps h) :
    HR closed (acts.foldl (runAct now) e).ps ((actsHookLines now e acts).foldl hookStep h) := by
  induction acts generalizing e h with
  | nil => simpa [actsHookLines] using hr
  | cons a r ih =>
    simp only [List.foldl_cons, actsHookLines, List.foldl_append]
    exact ih _ _ (runAct_HR now e h a hr)

/-! ## one segment -/

theorem HFrame_runHooks (now : Nat) (hooks : List Nat) (e : Eff) : HFrame e.ps (runHooks now e hooks).ps := by
  unfold runHooks
  induction hooks generalizing e with
  | nil => exact HFrame.refl _
  | cons k r ih =>
    simp only [List.foldl_cons]
    refine HFrame.trans ?_ (ih _)
    exact (HFrame_of_eqs (a := e.ps) (b := (addObs e (.hook now k)).ps) rfl rfl rfl rfl rfl).trans
      (HFrame_push0 (addObs e (.hook now k)) _ true)

theorem HFrame_segStart (now : Nat) (e : Eff) (pid tag : Nat) (p : Proc) (hp : e.ps.procs[pid]? = some p) :
    HFrame e.ps (segStart now e pid tag p).ps := by
  unfold segStart
  split
  · have h1 : HFrame e.ps (addObs e (.resume now pid p.send tag)).ps := HFrame_of_eqs rfl rfl rfl rfl rfl
    have h2 := HFrame_setProc (addObs e (.resume now pid p.send tag)) pid p { p with started := true, send := .none }
      (by simpa using hp) rfl
    exact h1.trans (h2.trans (HFrame_of_eqs rfl rfl rfl rfl rfl))
  · have h2 := HFrame_setProc e pid p { p with started := true, send := .none } hp rfl
    exact h2.trans (HFrame_of_eqs rfl rfl rfl rfl rfl)

theorem hooksFor_remove (h : HSt) (t t' : Nat) (d : List Nat) (c : Nat) :
    hooksFor { h with due := d, dueClock := c, hooks := h.hooks.filter (fun x => x.1 != t) } t'
      = if t' = t then [] else hooksFor h t' := by
  unfold hooksFor
  simp only [List.filter_filter]
  by_cases htt : t' = t
  · subst htt
    simp only [if_true]
    rw [List.filter_eq_nil_iff.mpr]
    · rfl
    · intro x _; by_cases hx : x.1 = t' <;> simp [hx]
  · simp only [htt, if_false]
    congr 1
    apply List.filter_congr
    intro x _
    by_cases hx : x.1 = t' <;> simp [hx, htt]

theorem lateOf_clear (ps : PS) (pid pid' : Nat) (hne : pid' ≠ pid) :
    ((ps.late.filter (fun q => q.1 != pid)).filter (fun q => q.1 == pid')).map (·.2) = lateOf ps pid' := by
  unfold lateOf
  rw [List.filter_filter]
  congr 1
  apply List.filter_congr
  intro x _
  by_cases hx : x.1 = pid' <;> simp [hx, hne]

/-- the finishing step: the `F` line makes exactly the hooks the model runs fall due, the `H` lines run
    them in order at that instant, and afterwards the finished process is out of the picture -/
theorem finish_HR {closed : List Nat} (now : Nat) (e1 : Eff) (h1 : HSt) (pid : Nat) (p' p1 : Proc)
    (hr : HR closed e1.ps h1) (hp' : e1.ps.procs[pid]? = some p') (hd : p'.done = false)
    (hev : p1.ev = p'.ev) (hhk : p1.hooks = p'.hooks) :
    HR closed
      (runHooks now (addObs ((e1.setProc pid { p1 with segs := [], done := true, hooks := [] }).clearLate pid)
        (.finish now pid)) (p1.hooks ++ lateOf e1.ps pid)).ps
      ((Line.finish now pid :: hRunLines now (p1.hooks ++ lateOf e1.ps pid)).foldl hookStep h1) := by
  have hpl : pid < e1.ps.procs.length := getElem?_some_lt hp'
  -- the monitor
  have hfin : hookStep h1 (.finish now pid)
      = { h1 with due := hooksFor h1 (p'.ev + 1), dueClock := now,
                  hooks := h1.hooks.filter (fun x => x.1 != p'.ev + 1) } := by
    simp [hookStep, hr.due, hr.pt pid p' hp', HSt.finishEvent, hooksFor]
  have hdue : hooksFor h1 (p'.ev + 1) = p1.hooks ++ lateOf e1.ps pid := by
    rw [hhk]; exact hr.h2 pid p' hp' hd
  simp only [List.foldl_cons]
  rw [hfin, hRun_ok now _ _ hdue rfl]
  -- the model, up to the creations of the hooks
  refine HR_frame ?_ (HFrame_runHooks now _ _)
  have hget : ∀ i q, (e1.ps.procs.set pid { p1 with segs := [], done := true, hooks := [] })[i]? = some q →
      (i = pid ∧ q = { p1 with segs := [], done := true, hooks := [] }) ∨ (i ≠ pid ∧ e1.ps.procs[i]? = some q) := by
    intro i q hq
    by_cases hip : pid = i
    · subst hip
      rw [List.getElem?_set_self hpl] at hq
      left; exact ⟨rfl, (Option.some.inj hq).symm⟩
    · rw [List.getElem?_set_ne hip] at hq
      right; exact ⟨fun hh => hip hh.symm, hq⟩
  refine
    { err := hr.err, due := rfl, h1 := ?_, h2 := ?_, f1 := ?_, f2 := hr.f2, lk := hr.lk, cl := hr.cl, u := ?_, v := ?_,
      pt := ?_, np := ?_, lb := ?_ }
  · intro id hid
    have hne : id + 1 ≠ p'.ev + 1 := by
      intro heq
      have : id = p'.ev := by omega
      rw [this] at hid; exact hid (hr.v pid p' hp')
    have := hooksFor_remove h1 (p'.ev + 1) (id + 1) [] now
    simp only [hne, if_false] at this
    show hooksFor _ (id + 1) = hookOfFor e1.ps id
    rw [this]; exact hr.h1 id hid
  · intro pid' q hq hqd
    rcases hget pid' q hq with ⟨_, rfl⟩ | ⟨hne, hq'⟩
    · simp at hqd
    · have hev' : q.ev ≠ p'.ev := fun heq => hne (hr.u pid' pid q p' hq' hp' heq)
      have hne' : q.ev + 1 ≠ p'.ev + 1 := by omega
      have := hooksFor_remove h1 (p'.ev + 1) (q.ev + 1) [] now
      simp only [hne', if_false] at this
      show hooksFor _ (q.ev + 1) = q.hooks ++ ((e1.ps.late.filter (fun x => x.1 != pid)).filter (fun x => x.1 == pid')).map (·.2)
      rw [this, lateOf_clear e1.ps pid pid' hne]
      exact hr.h2 pid' q hq' hqd
  · intro x hx; exact hr.f1 x (List.mem_filter.mp hx).1
  · intro i j a b ha hb hab
    rcases hget i a ha with ⟨hi, rfl⟩ | ⟨hi, ha'⟩ <;> rcases hget j b hb with ⟨hj, rfl⟩ | ⟨hj, hb'⟩
    · rw [hi, hj]
    · exact (hr.u pid j p' b hp' hb' (by rw [← hev]; exact hab)) ▸ hi
    · exact (hr.u i pid a p' ha' hp' (by rw [← hev]; exact hab)).trans hj.symm
    · exact hr.u i j a b ha' hb' hab
  · intro i a ha
    rcases hget i a ha with ⟨_, rfl⟩ | ⟨_, ha'⟩
    · show p1.ev ∈ closed; rw [hev]; exact hr.v pid p' hp'
    · exact hr.v i a ha'
  · intro i a ha
    rcases hget i a ha with ⟨hi, rfl⟩ | ⟨_, ha'⟩
    · show h1.pidTag.find? _ = some (i, p1.ev + 1)
      rw [hi, hev]; exact hr.pt pid p' hp'
    · exact hr.pt i a ha'
  · show h1.nProc = (e1.ps.procs.set pid _).length
    rw [List.length_set]; exact hr.np
  · intro x hx
    show x.1 < (e1.ps.procs.set pid _).length
    rw [List.length_set]
    exact hr.lb x (List.mem_filter.mp hx).1

/-- one call of `runSegment` for a process that is not finished -/
theorem seg_HR {closed : List Nat} (now : Nat) (e : Eff) (h : HSt) (pid tag : Nat) (hr : HR closed e.ps h)
    (hdn : ∀ p, e.ps.procs[pid]? = some p → p.done = true → p.segs = []) :
    HR closed (runSegment now e pid tag).ps ((segHookLines now e pid tag).foldl hookStep h) := by
  unfold segHookLines
  cases hp : e.ps.procs[pid]? with
  | none => rw [runSegment_noproc now e pid tag hp]; simpa using hr
  | some p =>
    cases hs : p.segs with
    | nil =>
      have : runSegment now e pid tag = e := by simp [runSegment, hp, hs]
      rw [this]; simpa [hs] using hr
    | cons seg rest =>
      simp only [hs]
      have hpd : p.done = false := by
        cases hpd : p.done with
        | false => rfl
        | true => have := hdn p hp hpd; rw [hs] at this; simp at this
      rw [runSegment_eq now e pid tag p seg rest hp hs]
      unfold segBody
      simp only [List.foldl_append]
      have hr0 : HR closed (segStart now e pid tag p).ps h := HR_frame hr (HFrame_segStart now e pid tag p hp)
      have hr1 := acts_HR now seg.acts _ h hr0
      -- the record of `pid` still has the event, the flag and the hooks of `p`
      have hpr0 : ProcsAre ((e.ps.procs.map strip).set pid (strip { p with started := true, send := .none }))
          (segStart now e pid tag p) := by
        unfold segStart ProcsAre
        split <;> simp [List.map_set]
      have hpr1 := acts_closed (ProcsAre_closed _) now seg.acts _ hpr0
      have hl := getElem?_some_lt hp
      generalize seg.acts.foldl (runAct now) (segStart now e pid tag p) = e1 at hr1 hpr1
      generalize (actsHookLines now (segStart now e pid tag p) seg.acts).foldl hookStep h = h1 at hr1
      have hcur : ∃ p', e1.ps.procs[pid]? = some p' ∧ p'.ev = p.ev ∧ p'.done = p.done ∧ p'.hooks = p.hooks := by
        unfold ProcsAre at hpr1
        have := congrArg (fun l => l[pid]?) hpr1
        simp only [List.getElem?_map] at this
        rw [List.getElem?_set_self (by simpa using hl)] at this
        cases hq : e1.ps.procs[pid]? with
        | none => rw [hq] at this; simp at this
        | some p' =>
          rw [hq] at this; simp only [Option.map_some, Option.some.injEq] at this
          refine ⟨p', rfl, ?_, ?_, ?_⟩
          · have := congrArg Proc.ev this; simpa [strip] using this
          · have := congrArg Proc.done this; simpa [strip] using this
          · have := congrArg Proc.hooks this; simpa [strip] using this
      obtain ⟨p', hp', hev, hdone, hhooks⟩ := hcur
      cases ht : seg.term with
      | yieldD d =>
        simp only [ht, segTerm, List.foldl_nil]
        have h2 := HFrame_setProc e1 pid p' { ({ p with started := true, send := .none } : Proc) with segs := rest } hp'
          (by simp [hproj, hev, hdone, hhooks])
        exact HR_frame hr1 (h2.trans (HFrame_push0 _ _ true))
      | yieldF f =>
        simp only [ht, segTerm, List.foldl_nil]
        have h2 := HFrame_setProc e1 pid p' { ({ p with started := true, send := .none } : Proc) with segs := rest } hp'
          (by simp [hproj, hev, hdone, hhooks])
        have h3 := h2.trans (HFrame_setFut (e1.setProc pid { ({ p with started := true, send := .none } : Proc) with segs := rest }) f
          { futGet (e1.setProc pid { ({ p with started := true, send := .none } : Proc) with segs := rest }).ps.futs f with
            parked := some pid })
        split
        · exact HR_frame hr1 (h3.trans (HFrame_resumeParked _ now f))
        · exact HR_frame hr1 h3
      | ret =>
        simp only [ht, segTerm]
        exact finish_HR now e1 h1 pid p' { p with started := true, send := .none } hr1 hp' (by rw [hdone]; exact hpd)
          (by simp [hev]) (by simp [hhooks])

/-! ## one handler invocation -/

theorem HR_close {closed : List Nat} {ps : PS} {h : HSt} (hr : HR closed ps h) (id : Nat) (hlt : id < ps.nid) :
    HR (id :: closed) ps h :=
  { err := hr.err, due := hr.due, h1 := fun i hi => hr.h1 i (fun hc => hi (List.mem_cons_of_mem _ hc)), h2 := hr.h2,
    f1 := hr.f1, f2 := hr.f2, lk := hr.lk,
    cl := by intro i hi; rcases List.mem_cons.mp hi with rfl | hi; exact hlt; exact hr.cl i hi,
    u := hr.u, v := fun pid p hp => List.mem_cons_of_mem _ (hr.v pid p hp), pt := hr.pt, np := hr.np, lb := hr.lb }

theorem HR_congr {c c' : List Nat} {ps : PS} {h : HSt} (hr : HR c ps h) (hcc : ∀ id, id ∈ c' ↔ id ∈ c) : HR c' ps h :=
  { err := hr.err, due := hr.due, h1 := fun i hi => hr.h1 i (fun hc => hi ((hcc i).mpr hc)), h2 := hr.h2,
    f1 := hr.f1, f2 := hr.f2, lk := hr.lk, cl := fun i hi => hr.cl i ((hcc i).mp hi), u := hr.u,
    v := fun pid p hp => (hcc _).mpr (hr.v pid p hp), pt := hr.pt, np := hr.np, lb := hr.lb }

/-- an event without handler: its processing is over at once, its hooks run -/
theorem skip_HR {closed : List Nat} (ps : PS) (now : Nat) (m : Ev) (h : HSt) (hr : HR closed ps h)
    (hm : m.id ∉ closed) (hlt : m.id < ps.nid) :
    HR (m.id :: closed) ps
      ((Line.skipped now (m.id + 1) :: hRunLines now (hookOfFor ps m.id)).foldl hookStep h) := by
  have hfin : hookStep h (.skipped now (m.id + 1))
      = { h with due := hooksFor h (m.id + 1), dueClock := now, hooks := h.hooks.filter (fun x => x.1 != m.id + 1) } := by
    simp [hookStep, hr.due, HSt.finishEvent, hooksFor]
  simp only [List.foldl_cons]
  rw [hfin, hRun_ok now _ _ (hr.h1 m.id hm) rfl]
  refine
    { err := hr.err, due := rfl, h1 := ?_, h2 := ?_, f1 := fun x hx => hr.f1 x (List.mem_filter.mp hx).1, f2 := hr.f2,
      lk := hr.lk, cl := ?_, u := hr.u, v := fun pid p hp => List.mem_cons_of_mem _ (hr.v pid p hp), pt := hr.pt,
      np := hr.np, lb := hr.lb }
  · intro id hid
    have hne : id + 1 ≠ m.id + 1 := by
      intro heq; apply hid; have : id = m.id := by omega
      rw [this]; exact List.mem_cons_self ..
    have := hooksFor_remove h (m.id + 1) (id + 1) [] now
    simp only [hne, if_false] at this
    rw [this]
    exact hr.h1 id (fun hc => hid (List.mem_cons_of_mem _ hc))
  · intro pid p hp hd
    have hne : p.ev + 1 ≠ m.id + 1 := by
      intro heq; apply hm; have : m.id = p.ev := by omega
      rw [this]; exact hr.v pid p hp
    have := hooksFor_remove h (m.id + 1) (p.ev + 1) [] now
    simp only [hne, if_false] at this
    rw [this]
    exact hr.h2 pid p hp hd
  · intro i hi
    rcases List.mem_cons.mp hi with rfl | hi
    · exact hlt
    · exact hr.cl i hi

/-- a handler is entered: the `S` line allocates the process id the model allocates -/
theorem spawn_HR {closed : List Nat} (ps : PS) (now : Nat) (m : Ev) (d : HandlerDef) (h : HSt) (hr : HR closed ps h)
    (hm : m.id ∉ closed) (hlt : m.id < ps.nid) :
    HR (m.id :: closed) (spawn (addObs { ps := ps } (.start now m.target m.kind m.tag)) (newProc ps m d)).ps
      (hookStep h (.start now (m.id + 1))) := by
  have hst : hookStep h (.start now (m.id + 1))
      = { h with pidTag := (h.nProc, m.id + 1) :: h.pidTag, nProc := h.nProc + 1 } := by
    simp [hookStep, hr.due]
  rw [hst]
  have hget : ∀ i q, (ps.procs ++ [newProc ps m d])[i]? = some q →
      (i < ps.procs.length ∧ ps.procs[i]? = some q) ∨ (i = ps.procs.length ∧ q = newProc ps m d) := by
    intro i q hq
    by_cases hi : i < ps.procs.length
    · rw [List.getElem?_append_left hi] at hq; exact Or.inl ⟨hi, hq⟩
    · have hi' : ps.procs.length ≤ i := by omega
      rw [List.getElem?_append_right hi'] at hq
      generalize hk : i - ps.procs.length = k at hq
      cases k with
      | zero => simp at hq; exact Or.inr ⟨by omega, hq.symm⟩
      | succ k => simp at hq
  have hnew : (newProc ps m d).ev = m.id ∧ (newProc ps m d).done = false ∧ (newProc ps m d).hooks = hookOfFor ps m.id :=
    ⟨rfl, rfl, rfl⟩
  refine
    { err := hr.err, due := hr.due, h1 := fun i hi => hr.h1 i (fun hc => hi (List.mem_cons_of_mem _ hc)), h2 := ?_,
      f1 := hr.f1, f2 := hr.f2, lk := hr.lk, cl := ?_, u := ?_, v := ?_, pt := ?_, np := ?_, lb := ?_ }
  · intro pid q hq hqd
    rcases hget pid q hq with ⟨_, hq'⟩ | ⟨hi, rfl⟩
    · exact hr.h2 pid q hq' hqd
    · -- the new process starts with the hooks the event had
      have hl : lateOf ps pid = [] := by
        unfold lateOf
        rw [List.filter_eq_nil_iff.mpr]
        · rfl
        · intro x hx
          have := hr.lb x hx
          simp; omega
      show hooksFor h ((newProc ps m d).ev + 1) = (newProc ps m d).hooks ++ lateOf ps pid
      rw [hl, hnew.1, hnew.2.2, List.append_nil]
      exact hr.h1 m.id hm
  · intro i hi
    rcases List.mem_cons.mp hi with rfl | hi
    · exact hlt
    · exact hr.cl i hi
  · intro i j a b ha hb hab
    rcases hget i a ha with ⟨hi, ha'⟩ | ⟨hi, rfl⟩ <;> rcases hget j b hb with ⟨hj, hb'⟩ | ⟨hj, rfl⟩
    · exact hr.u i j a b ha' hb' hab
    · exfalso; apply hm; rw [← hnew.1, ← hab]; exact hr.v i a ha'
    · exfalso; apply hm; rw [← hnew.1, hab]; exact hr.v j b hb'
    · rw [hi, hj]
  · intro i a ha
    rcases hget i a ha with ⟨_, ha'⟩ | ⟨_, rfl⟩
    · exact List.mem_cons_of_mem _ (hr.v i a ha')
    · exact List.mem_cons_self ..
  · intro i a ha
    rcases hget i a ha with ⟨hi, ha'⟩ | ⟨hi, rfl⟩
    · have hne : (h.nProc == i) = false := by rw [hr.np]; simp; omega
      simp only [List.find?_cons, hne]
      exact hr.pt i a ha'
    · have heq : (h.nProc == i) = true := by rw [hr.np, hi]; simp
      simp only [List.find?_cons, heq]
      rw [hr.np, hi]; rfl
  · show h.nProc + 1 = (ps.procs ++ [newProc ps m d]).length
    rw [hr.np]; simp
  · intro x hx
    show x.1 < (ps.procs ++ [newProc ps m d]).length
    have := hr.lb x hx
    simp; omega

theorem procEff_HR {closed : List Nat} (ps : PS) (now : Nat) (m : Ev) (h : HSt) (hr : HR closed ps h)
    (hm : m.data = 0 → m.id ∉ closed ∧ m.id < ps.nid)
    (hdn : ∀ (pid : Nat) (p : Proc), ps.procs[pid]? = some p → p.done = true → p.segs = []) :
    HR (if m.data = 0 then m.id :: closed else closed) (procEff ps now m).ps
      ((hookLines ps now m).foldl hookStep h) := by
  unfold procEff hookLines
  by_cases hd : m.data = 0
  · simp only [hd, if_true]
    obtain ⟨hmc, hlt⟩ := hm hd
    cases hfind : ps.defs.find? (fun d => d.ent == m.target && d.kind == m.kind) with
    | none =>
      simp only [List.foldl_append, List.foldl_cons, List.foldl_nil]
      have h1 := skip_HR ps now m h hr hmc hlt
      simp only [List.foldl_cons] at h1
      rw [hookStep_other _ h1.due]
      refine HR_frame h1 ?_
      exact (HFrame_of_eqs (a := ps) (b := (addObs ({ ps := ps } : Eff) (.skip now m.target m.kind m.tag)).ps)
        rfl rfl rfl rfl rfl).trans (HFrame_runHooks now _ _)
    | some d =>
      simp only [List.foldl_append, List.foldl_cons, List.foldl_nil]
      have h1 := spawn_HR ps now m d h hr hmc hlt
      have h2 := seg_HR now _ _ ps.procs.length 0 h1 (by
        intro p hp hpd
        have : p = newProc ps m d := by
          have hp' : (ps.procs ++ [newProc ps m d])[ps.procs.length]? = some p := hp
          simp at hp'; exact hp'.symm
        subst this
        exact absurd hpd (by simp [newProc]))
      rw [hookStep_other _ h2.due]
      exact h2
  · simp only [hd, if_false, List.foldl_append, List.foldl_cons, List.foldl_nil]
    have h2 := seg_HR now ({ ps := ps } : Eff) h (m.data - 1) m.tag hr (hdn (m.data - 1))
    rw [hookStep_other _ h2.due]
    exact h2

/-! ## the link at the level of a run -/

/-- the events that have been handed to a handler (or found none) -/
def closedOf (s : St PS) : List Nat := (s.log.filter (fun e => e.data == 0)).map (·.id)

theorem HR_skipStep (s : St PS) (h : HSt) (m : Ev) (now' a b c prim : Nat) (pp : List (Ev × Verdict))
    (hr : HR (closedOf s) s.ent h) :
    HR (closedOf { s with heap := s.heap.erase m, primary := prim, now := now', processed := a, nCancelled := b,
                          nStale := c, popped := pp }) s.ent h := hr

theorem HI_step (s : St PS) (ls : List Line) (m : Ev) (hm : m ∈ s.heap) (inv : Inv s) (hk : HookInv s)
    (pinv : ProcInv s) (hr : HR (closedOf s) s.ent (ls.foldl hookStep {})) :
    HR (closedOf (stepWith procMachine s m)) (stepWith procMachine s m).ent ((hviewStep s ls m).foldl hookStep {}) := by
  unfold stepWith hviewStep
  simp only []
  split
  · exact hr
  · split
    · exact hr
    · split
      · exact hr
      · have heq := procHandle_eq s.ent m.time m
        have hent : (procMachine.handle s.ent m.time m).ent = (procEff s.ent m.time m).ps := by
          show (procHandle s.ent m.time m).ent = _; rw [heq]
        rw [List.foldl_append]
        have hmc : m.data = 0 → m.id ∉ closedOf s ∧ m.id < s.ent.nid := by
          intro _
          refine ⟨?_, by rw [hk.nid]; exact inv.fresh_heap m hm⟩
          intro hc
          unfold closedOf at hc
          obtain ⟨e, he, hid⟩ := List.mem_map.mp hc
          exact inv.log_ne_heap e (List.mem_filter.mp he).1 m hm hid
        have h1 := procEff_HR s.ent m.time m _ hr hmc (fun pid p hp hd => (pinv.doneNone pid p hp hd).1)
        show HR (closedOf { s with log := s.log ++ [m] }) (procMachine.handle s.ent m.time m).ent _
        rw [hent]
        refine HR_congr h1 ?_
        intro id
        unfold closedOf
        simp only [List.filter_append, List.map_append, List.mem_append, List.filter_cons, List.filter_nil]
        by_cases hd : m.data = 0
        · simp [hd]
          constructor
          · rintro (h' | h')
            · right; exact h'
            · left; exact h'
          · rintro (h' | h')
            · right; exact h'
            · left; exact h'
        · simp [hd]

theorem HI_run (endT : Option Nat) (n : Nat) (s : St PS) (ls : List Line) (inv : Inv s) (hk : HookInv s)
    (pinv : ProcInv s) (hr : HR (closedOf s) s.ent (ls.foldl hookStep {})) :
    HR (closedOf (run procMachine endT n s)) (run procMachine endT n s).ent ((hviewRun endT n s ls).foldl hookStep {}) := by
  induction n generalizing s ls with
  | zero => simpa [run, hviewRun]
  | succ n ih =>
    unfold run hviewRun step
    cases hh : s.heap with
    | nil => simpa
    | cons x xs =>
      simp only []
      by_cases hc : continues endT s = true
      · simp only [hc, if_true]
        have hmem : minOf x xs ∈ s.heap := by rw [hh]; exact (pop_is_min x xs).1
        exact ih _ _ (step_preserves procMachine s x xs hh inv) (step_hookInv s _ inv hk hmem)
          (step_procInv s _ pinv hmem) (HI_step s ls _ hmem inv hk pinv hr)
      · simp only [hc, Bool.false_eq_true, if_false]
        exact hr

theorem hooksFor_init (ps : PS) (id : Nat) :
    hooksFor ((initHookLines ps).foldl hookStep {}) (id + 1) = hookOfFor ps id ∧
    ((initHookLines ps).foldl hookStep {}).due = [] ∧ ((initHookLines ps).foldl hookStep {}).err = none ∧
    ((initHookLines ps).foldl hookStep {}).hooks = ps.hookOf.map (fun x => (x.1 + 1, x.2)) ∧
    ((initHookLines ps).foldl hookStep {}).pidTag = [] ∧ ((initHookLines ps).foldl hookStep {}).nProc = 0 := by
  have key : ∀ (l : List (Nat × Nat)) (h : HSt), h.due = [] →
      ((l.map (fun x => Line.hookAdd (x.1 + 1) x.2)).foldl hookStep h).due = [] ∧
      ((l.map (fun x => Line.hookAdd (x.1 + 1) x.2)).foldl hookStep h).err = h.err ∧
      ((l.map (fun x => Line.hookAdd (x.1 + 1) x.2)).foldl hookStep h).hooks = h.hooks ++ l.map (fun x => (x.1 + 1, x.2)) ∧
      ((l.map (fun x => Line.hookAdd (x.1 + 1) x.2)).foldl hookStep h).pidTag = h.pidTag ∧
      ((l.map (fun x => Line.hookAdd (x.1 + 1) x.2)).foldl hookStep h).nProc = h.nProc := by
    intro l
    induction l with
    | nil => intro h hd; simp [hd]
    | cons a r ih =>
      intro h hd
      simp only [List.map_cons, List.foldl_cons]
      rw [hookStep_add h _ _ hd]
      have := ih { h with hooks := h.hooks ++ [(a.1 + 1, a.2)] } hd
      simpa [List.append_assoc] using this
  obtain ⟨k1, k2, k3, k4, k5⟩ := key ps.hookOf {} rfl
  unfold initHookLines
  refine ⟨?_, k1, k2, by simpa using k3, k4, k5⟩
  unfold hooksFor hookOfFor
  rw [k3]
  simp only [List.nil_append, List.filter_map, List.map_map]
  congr 1
  apply List.filter_congr
  intro x _
  simp

/-- **the hook clauses of the C02 judge are silent on the trace of the model**: for every handler table,
    from every initial state with no process, no pending late hook, plain pending events and fresh
    creation indices, for every end time and number of iterations: when the processing of an event
    finishes, the hooks the model runs are exactly the hooks attached to the event up to that moment, in
    attachment order, at that instant — and the model runs no hook at any other time -/
theorem hook_clauses_silent_on_model (endT : Option Nat) (n : Nat) (s0 : St PS) (inv : Inv s0) (hk : HookInv s0)
    (h0 : InitOk s0) (hlog : s0.log = []) (hlate : s0.ent.late = [])
    (hf2 : ∀ x ∈ s0.ent.hookOf, x.1 < s0.ent.nid) (hlk : ∀ x ∈ s0.ent.lastKind, x.2 < s0.ent.nid) :
    hookMonitor (hookView endT n s0) = none := by
  obtain ⟨_, i2, i3, i4, i5, i6⟩ := hooksFor_init s0.ent 0
  have hr0 : HR (closedOf s0) s0.ent ((initHookLines s0.ent).foldl hookStep {}) := by
    have hc : closedOf s0 = [] := by simp [closedOf, hlog]
    rw [hc]
    refine
      { err := i3, due := i2, h1 := fun id _ => (hooksFor_init s0.ent id).1, h2 := ?_, f1 := ?_, f2 := hf2, lk := hlk,
        cl := by simp, u := ?_, v := ?_, pt := ?_, np := by rw [i6, h0.noProcs]; rfl, lb := by rw [hlate]; simp }
    · intro pid p hp; rw [h0.noProcs] at hp; simp at hp
    · intro x hx
      rw [i4] at hx
      obtain ⟨y, hy, rfl⟩ := List.mem_map.mp hx
      have := hf2 y hy
      simp only []; omega
    · intro i j p q hp; rw [h0.noProcs] at hp; simp at hp
    · intro pid p hp; rw [h0.noProcs] at hp; simp at hp
    · intro pid p hp; rw [h0.noProcs] at hp; simp at hp
  have hr := HI_run endT n s0 _ inv hk h0.procInv hr0
  unfold hookMonitor hookView
  simp [hr.err, hr.due]

theorem initState_hookOf_fresh (p : Program) (gateCont : Bool) :
    ∀ x ∈ (p.initState gateCont).ent.hookOf, x.1 < (p.initState gateCont).ent.nid := by
  intro x hx
  have hx' : x ∈ ((List.range (p.pre.map (·.1)).length).zip p.pre).filterMap
      (fun q => if q.2.2.1 = 0 then none else some (q.1, q.2.2.1)) := hx
  show x.1 < (p.pre.map (·.1)).length
  obtain ⟨y, hy, hfy⟩ := List.mem_filterMap.mp hx'
  have hr := (List.of_mem_zip hy).1
  split at hfy
  · simp at hfy
  · simp only [Option.some.injEq] at hfy
    subst hfy
    simpa using hr

theorem initState_lastKind_fresh (p : Program) (gateCont : Bool) :
    ∀ x ∈ (p.initState gateCont).ent.lastKind, x.2 < (p.initState gateCont).ent.nid := by
  intro x hx
  show x.2 < (p.pre.map (·.1)).length
  -- the handles of the pre-run events are their creation indices
  have hx' : x ∈ ((List.range (p.pre.map (·.1)).length).zip (p.pre.map (·.1))).foldl
      (fun acc q => (q.2.kind, q.1) :: acc.filter (fun y => y.1 != q.2.kind)) [] := hx
  have key : ∀ (l : List (Nat × Spec)) (acc : List (Nat × Nat)) (N : Nat), (∀ q ∈ l, q.1 < N) → (∀ y ∈ acc, y.2 < N) →
      ∀ y ∈ l.foldl (fun acc q => (q.2.kind, q.1) :: acc.filter (fun y => y.1 != q.2.kind)) acc, y.2 < N := by
    intro l
    induction l with
    | nil => intro acc N _ ha y hy; exact ha y hy
    | cons q r ih =>
      intro acc N hl ha y hy
      simp only [List.foldl_cons] at hy
      refine ih _ N (fun z hz => hl z (List.mem_cons_of_mem _ hz)) ?_ y hy
      intro z hz
      rcases List.mem_cons.mp hz with rfl | hz
      · exact hl q (by simp)
      · exact ha z (List.mem_filter.mp hz).1
  refine key _ [] _ ?_ (by simp) x hx'
  intro q hq
  have := (List.of_mem_zip hq).1
  simpa using this

/-- for the initial state of any program with a plain pre-run schedule -/
theorem hook_clauses_silent_on_program (p : Program) (gateCont : Bool) (hp : p.Plain) (endT : Option Nat) (n : Nat) :
    hookMonitor (hookView endT n (p.initState gateCont)) = none :=
  hook_clauses_silent_on_model endT n _ (initState_inv p gateCont) (initState_hookInv p gateCont)
    (initState_ok p gateCont hp) rfl rfl (initState_hookOf_fresh p gateCont) (initState_lastKind_fresh p gateCont)

end HappyModel.C01