import HappyProofs.C02.Late
import HappyProofs.C01.Props
import HappyModel.C02.Spec
/-!
# C02 — the delay clauses of the trace Spec are silent on the trace of the process model

`Spec.delayMonitor` (the part of the C02 judge that raises `process/resumed-without-pending-delay` and
`process/delay-resume-at-wrong-time`) reads the `y` lines (a process yielded a delay: tag, pid, due
time) and the tagged `R` lines (a process was resumed by a delay continuation) of a trace.

`delayView` is that part of the trace of the model itself, written along `run`: when a continuation
event of process `pid` is delivered and the process takes a step, the line `R now pid value tag`
(`rLine`: the entry `Obs.resume` of the model's own log, `resumed_value_logged`); then one line
`y tag pid time` for every tagged continuation the handler invocation created (`yLines`: the `yield
delay` terminators; continuations created by `SimFuture._resume` carry no tag).

`delay_clauses_silent_on_model`: for every program, start state with fresh tags, end time and number
of iterations, `Spec.delayMonitor (delayView …) = none`.  `delayMonitor_filter`: the monitor does not
look at any other line, so the statement holds for every full trace with that `y` / `R` content.
-/
namespace HappyModel.C01
open HappyModel.C02.Spec (Line DSt delayStep delayMonitor)
set_option linter.unusedVariables false
set_option linter.unusedSimpArgs false

/-! ## the view -/

/-- a continuation created by a `yield delay` (it carries a harness tag) -/
def tcSpec (sp : Spec) : Bool := sp.data != 0 && sp.tag != 0
def tcEv (e : Ev) : Bool := e.data != 0 && e.tag != 0

def yLines (specs : List Spec) : List Line :=
  (specs.filter tcSpec).map (fun sp => Line.ydelay sp.tag (sp.data - 1) sp.time)

/-- the `R` line of a delivered continuation, if the process takes a step -/
def rLine (ps : PS) (m : Ev) : List Line :=
  if m.data = 0 then []
  else match ps.procs[m.data - 1]? with
    | some p => if p.started && !p.segs.isEmpty then [Line.resume m.time (m.data - 1) p.send.show m.tag] else []
    | none => []

/-- the `w` line of the segment process `pid` runs next, if it ends by yielding a future -/
def termLines (e : Eff) (pid : Nat) : List Line :=
  match e.ps.procs[pid]? with
  | some p =>
    match p.segs with
    | seg :: _ =>
      match seg.term with
      | .yieldF f => [Line.wait pid f p.daemon]
      | _ => []
    | [] => []
  | none => []

/-- the `w` line of a handler invocation (same case split as `procEff`) -/
def wLine (ps : PS) (now : Nat) (ev : Ev) : List Line :=
  if ev.data = 0 then
    match ps.defs.find? (fun d => d.ent == ev.target && d.kind == ev.kind) with
    | none => []
    | some d =>
      termLines (spawn (addObs { ps := ps } (.start now ev.target ev.kind ev.tag)) (newProc ps ev d)) ps.procs.length
  else termLines { ps := ps } (ev.data - 1)

/-- the `R`, `y` and `w` lines of one delivery: the resumption, then what the terminator of the segment
    that ran wrote (a segment ends in at most one of `yield delay` / `yield future`) -/
def delayLines (s : St PS) (m : Ev) : List Line :=
  rLine s.ent m ++ yLines (procEff s.ent m.time m).specs ++ wLine s.ent m.time m

theorem termLines_delay (e : Eff) (pid : Nat) (d : DSt) : (termLines e pid).foldl delayStep d = d := by
  unfold termLines
  split
  · split
    · split <;> simp [delayStep]
    · rfl
  · rfl

theorem wLine_delay (ps : PS) (now : Nat) (ev : Ev) (d : DSt) : (wLine ps now ev).foldl delayStep d = d := by
  unfold wLine
  split
  · split
    · rfl
    · exact termLines_delay _ _ d
  · exact termLines_delay _ _ d

/-- what one loop iteration adds to the view -/
def viewStep (s : St PS) (ls : List Line) (m : Ev) : List Line :=
  if s.cancelled.contains m.id then ls
  else if m.time < s.now then ls
  else if procMachine.crashed s.ent m then ls
  else ls ++ delayLines s m

def viewRun (endT : Option Nat) : Nat → St PS → List Line → List Line
  | 0, _, ls => ls
  | n+1, s, ls =>
    match s.heap with
    | [] => ls
    | x :: xs =>
      if continues endT s then viewRun endT n (stepWith procMachine s (minOf x xs)) (viewStep s ls (minOf x xs))
      else ls

/-- the `R` / `y` / `w` lines of the trace of a run from `s0` -/
def delayView (endT : Option Nat) (n : Nat) (s0 : St PS) : List Line := viewRun endT n s0 []

/-! ## no tagged continuation is created by the actions of a segment -/

/-- no tagged continuation among the specs so far, the tag counter has not gone back, held events are plain -/
def NoTC (base : Nat) (e : Eff) : Prop :=
  (∀ sp ∈ e.specs, tcSpec sp = false) ∧ base ≤ e.ps.tagc ∧ ∀ q ∈ e.ps.held, q.2.data = 0

theorem tcSpec_data0 (sp : Spec) (h : sp.data = 0) : tcSpec sp = false := by simp [tcSpec, h]
theorem tcSpec_tag0 (sp : Spec) (h : sp.tag = 0) : tcSpec sp = false := by simp [tcSpec, h]

theorem NoTC_frame {base : Nat} {e e' : Eff} (h : NoTC base e) (hs : e'.specs = e.specs)
    (ht : e'.ps.tagc = e.ps.tagc) (hh : e'.ps.held = e.ps.held) : NoTC base e' :=
  ⟨by rw [hs]; exact h.1, by rw [ht]; exact h.2.1, by rw [hh]; exact h.2.2⟩

theorem NoTC_push {base : Nat} {e : Eff} (h : NoTC base e) (sp : Spec) (hook : Nat) (tagged : Bool)
    (hd : sp.data = 0 ∨ tagged = false) : NoTC base (e.push sp hook tagged) := by
  refine ⟨?_, ?_, h.2.2⟩
  · intro x hx
    rw [push_specs] at hx
    rcases List.mem_append.mp hx with hx | hx
    · exact h.1 x hx
    · simp only [List.mem_singleton] at hx
      subst hx
      rcases hd with hd | hd
      · exact tcSpec_data0 _ hd
      · exact tcSpec_tag0 _ (by simp [hd])
  · have : e.ps.tagc ≤ (e.push sp hook tagged).ps.tagc := by
      unfold Eff.push; cases tagged <;> simp
    exact Nat.le_trans h.2.1 this

theorem NoTC_closed (base : Nat) : Closed (NoTC base) where
  resolve := by
    intro e now f v h hr
    rcases markResolved_cases e now f v with h1 | ⟨pid, p, hpk, hp, h1⟩
    · rw [h1]; exact NoTC_frame h rfl rfl rfl
    · rw [h1]
      unfold resumed
      have h0 : NoTC base (e.setFut f { futGet e.ps.futs f with resolved := true, value := v, cbs := [] }) :=
        NoTC_frame h rfl rfl rfl
      have h2 := NoTC_push h0 (contSpec p pid now) 0 false (Or.inr rfl)
      exact NoTC_frame h2 rfl rfl rfl
  allUpd := fun e c res rem h hr => NoTC_frame h rfl rfl rfl
  cbAdd := fun e g cb h hr => NoTC_frame h rfl rfl rfl
  bind := fun e f rs rm h => NoTC_frame h rfl rfl rfl
  push := fun e sp hook tagged hd h => NoTC_push h sp hook tagged (Or.inl hd)
  release := by
    intro e i sp h hm
    refine ⟨?_, h.2.1, fun q hq => h.2.2 q (List.mem_filter.mp hq).1⟩
    intro x hx
    rcases List.mem_append.mp hx with hx | hx
    · exact h.1 x hx
    · simp only [List.mem_singleton] at hx
      subst hx
      exact tcSpec_data0 _ (h.2.2 (i, x) hm)
  crashed := fun e l h => NoTC_frame h rfl rfl rfl
  cancels := fun e l h => NoTC_frame h rfl rfl rfl
  hookLate := fun e pid hook h => NoTC_frame h rfl rfl rfl
  hookEarly := fun e id hook h => NoTC_frame h rfl rfl rfl
  level := fun e l h => NoTC_frame h rfl rfl rfl
  hops := fun e l h => NoTC_frame h rfl rfl rfl
  obs := fun e o ho h => NoTC_frame h rfl rfl rfl

/-- what a whole handler invocation leaves: at most one tagged continuation, with a tag handed out
    during this invocation -/
def HC (base : Nat) (r : Eff) : Prop :=
  base ≤ r.ps.tagc ∧ (∀ q ∈ r.ps.held, q.2.data = 0) ∧
  (r.specs.filter tcSpec = [] ∨ ∃ sp, r.specs.filter tcSpec = [sp] ∧ base < sp.tag ∧ sp.tag ≤ r.ps.tagc)

theorem HC_of_NoTC {base : Nat} {r : Eff} (h : NoTC base r) : HC base r :=
  ⟨h.2.1, h.2.2, Or.inl (List.filter_eq_nil_iff.mpr (fun sp hsp => by simp [h.1 sp hsp]))⟩

theorem resumeParked_NoTC {base : Nat} {e : Eff} (h : NoTC base e) (now f : Nat) : NoTC base (resumeParked e now f) := by
  cases hpk : (futGet e.ps.futs f).parked with
  | none => rw [resumeParked_none e now f hpk]; exact h
  | some pid =>
    cases hp : e.ps.procs[pid]? with
    | none => rw [resumeParked_noproc e now f pid hpk hp]; exact h
    | some p =>
      rw [resumeParked_some e now f pid p hpk hp]
      unfold resumed
      exact NoTC_frame (NoTC_push h (contSpec p pid now) 0 false (Or.inr rfl)) rfl rfl rfl

theorem segTerm_HC (base now : Nat) (e1 : Eff) (pid : Nat) (p1 : Proc) (rest : List Seg) (t : Term)
    (h : NoTC base e1) : HC base (segTerm now e1 pid p1 rest t) := by
  cases t with
  | yieldD d =>
    simp only [segTerm]
    have h2 : NoTC base (e1.setProc pid { p1 with segs := rest }) := NoTC_frame h rfl rfl rfl
    generalize e1.setProc pid { p1 with segs := rest } = e2 at h2
    refine ⟨?_, h2.2.2, Or.inr ⟨{ contSpec p1 pid (now + d) with tag := e2.ps.tagc + 1 }, ?_, ?_, ?_⟩⟩
    · show base ≤ e2.ps.tagc + 1
      have := h2.2.1; omega
    · rw [push_specs, List.filter_append, List.filter_eq_nil_iff.mpr (fun sp hsp => by simp [h2.1 sp hsp])]
      simp [tcSpec, contSpec]
    · show base < e2.ps.tagc + 1
      have := h2.2.1; omega
    · show e2.ps.tagc + 1 ≤ e2.ps.tagc + 1
      exact Nat.le_refl _
  | yieldF f =>
    simp only [segTerm]
    have h2 : NoTC base ((e1.setProc pid { p1 with segs := rest }).setFut f
        { futGet (e1.setProc pid { p1 with segs := rest }).ps.futs f with parked := some pid }) :=
      NoTC_frame h rfl rfl rfl
    split
    · exact HC_of_NoTC (resumeParked_NoTC h2 now f)
    · exact HC_of_NoTC h2
  | ret =>
    simp only [segTerm]
    apply HC_of_NoTC
    apply runHooks_closed (NoTC_closed base)
    exact NoTC_frame h rfl rfl rfl

theorem runSegment_HC (base now : Nat) (e : Eff) (pid tag : Nat) (h : NoTC base e) :
    HC base (runSegment now e pid tag) := by
  cases hp : e.ps.procs[pid]? with
  | none => rw [runSegment_noproc now e pid tag hp]; exact HC_of_NoTC h
  | some p =>
    cases hs : p.segs with
    | nil =>
      have : runSegment now e pid tag = e := by simp [runSegment, hp, hs]
      rw [this]; exact HC_of_NoTC h
    | cons seg rest =>
      rw [runSegment_eq now e pid tag p seg rest hp hs]
      unfold segBody
      have h0 : NoTC base (segStart now e pid tag p) := by
        unfold segStart
        split
        · exact NoTC_frame h rfl rfl rfl
        · exact NoTC_frame h rfl rfl rfl
      exact segTerm_HC base now _ pid _ rest seg.term (acts_closed (NoTC_closed base) now seg.acts _ h0)

theorem procEff_HC (ps : PS) (now : Nat) (ev : Ev) (hh : ∀ q ∈ ps.held, q.2.data = 0) :
    HC ps.tagc (procEff ps now ev) := by
  have h0 : NoTC ps.tagc ({ ps := ps } : Eff) := ⟨by simp, Nat.le_refl _, hh⟩
  unfold procEff
  simp only []
  split
  · split
    · apply HC_of_NoTC
      apply runHooks_closed (NoTC_closed _)
      exact NoTC_frame h0 rfl rfl rfl
    · apply runSegment_HC
      exact NoTC_frame h0 rfl rfl rfl
  · exact runSegment_HC _ now _ _ _ h0

/-! ## a process with a pending delay continuation has no value waiting to be sent -/

/-- the processes of `Q` are parked nowhere and have nothing to be sent -/
def SN (Q : List Nat) (e : Eff) : Prop :=
  ∀ q ∈ Q, (∀ f, (futGet e.ps.futs f).parked ≠ some q) ∧ (∀ p, e.ps.procs[q]? = some p → p.send = .none)

theorem SN_same {Q : List Nat} {e e' : Eff} (h : SN Q e) (hf : e'.ps.futs = e.ps.futs)
    (hp : e'.ps.procs = e.ps.procs) : SN Q e' := by
  intro q hq
  rw [hf, hp]; exact h q hq

theorem SN_setFut {Q : List Nat} {e : Eff} (h : SN Q e) (f : Nat) (x : Fut) (hx : ∀ q ∈ Q, x.parked ≠ some q) :
    SN Q (e.setFut f x) := by
  intro q hq
  refine ⟨?_, (h q hq).2⟩
  intro g
  simp only [setFut_futs, futGet_futSet]
  split
  · exact hx q hq
  · exact (h q hq).1 g

theorem SN_setProc {Q : List Nat} {e : Eff} (h : SN Q e) (i : Nat) (x : Proc) (hx : i ∈ Q → x.send = .none) :
    SN Q (e.setProc i x) := by
  intro q hq
  refine ⟨(h q hq).1, ?_⟩
  intro p hp
  simp only [setProc_procs, List.getElem?_set] at hp
  split at hp
  · rename_i hiq
    split at hp
    · simp only [Option.some.injEq] at hp; subst hp; subst hiq; exact hx hq
    · simp at hp
  · exact (h q hq).2 p hp

theorem SN_resumeParked {Q : List Nat} {e : Eff} (h : SN Q e) (now f : Nat) : SN Q (resumeParked e now f) := by
  cases hpk : (futGet e.ps.futs f).parked with
  | none => rw [resumeParked_none e now f hpk]; exact h
  | some pid =>
    cases hp : e.ps.procs[pid]? with
    | none => rw [resumeParked_noproc e now f pid hpk hp]; exact h
    | some p =>
      rw [resumeParked_some e now f pid p hpk hp]
      unfold resumed
      have hnot : pid ∉ Q := fun hq => (h pid hq).1 f hpk
      have h1 : SN Q (e.push (contSpec p pid now) 0 false) := SN_same h rfl rfl
      have h2 := SN_setFut h1 f { futGet e.ps.futs f with parked := none } (by intro q _; simp)
      exact SN_setProc h2 pid _ (fun hq => absurd hq hnot)

theorem SN_closed (Q : List Nat) : Closed (SN Q) where
  resolve := by
    intro e now f v h hr
    unfold markResolved
    apply SN_resumeParked
    exact SN_setFut h f _ (fun q hq => (h q hq).1 f)
  allUpd := fun e c res rem h hr => SN_setFut h c _ (fun q hq => (h q hq).1 c)
  cbAdd := fun e g cb h hr => SN_setFut h g _ (fun q hq => (h q hq).1 g)
  bind := fun e f rs rm h => SN_setFut h f _ (by intro q _; simp)
  push := fun e sp hook tagged hd h => SN_same h rfl rfl
  release := fun e i sp h hm => SN_same h rfl rfl
  crashed := fun e l h => SN_same h rfl rfl
  cancels := fun e l h => SN_same h rfl rfl
  hookLate := fun e pid hook h => SN_same h rfl rfl
  hookEarly := fun e id hook h => SN_same h rfl rfl
  level := fun e l h => SN_same h rfl rfl
  hops := fun e l h => SN_same h rfl rfl
  obs := fun e o ho h => SN_same h rfl rfl

/-- the process of every tagged continuation created so far has nothing to be sent -/
def TS (r : Eff) : Prop :=
  ∀ sp ∈ r.specs, tcSpec sp = true → ∀ p, r.ps.procs[sp.data - 1]? = some p → p.send = .none

theorem TS_of_NoTC {base : Nat} {r : Eff} (h : NoTC base r) : TS r := by
  intro sp hsp htc; rw [h.1 sp hsp] at htc; simp at htc

theorem segTerm_SN (Q : List Nat) (base now : Nat) (e1 : Eff) (pid : Nat) (p1 : Proc) (rest : List Seg) (t : Term)
    (h : SN Q e1) (hn : NoTC base e1) (hpid : pid ∉ Q) (hp1 : p1.send = .none) :
    SN Q (segTerm now e1 pid p1 rest t) ∧ TS (segTerm now e1 pid p1 rest t) := by
  cases t with
  | yieldD d =>
    simp only [segTerm]
    have h2 := SN_setProc h pid { p1 with segs := rest } (fun hq => absurd hq hpid)
    refine ⟨SN_same h2 rfl rfl, ?_⟩
    intro sp hsp htc p hp
    rw [push_specs] at hsp
    rcases List.mem_append.mp hsp with hsp | hsp
    · rw [hn.1 sp hsp] at htc; simp at htc
    · simp only [List.mem_singleton] at hsp
      subst hsp
      simp only [contSpec, Nat.add_sub_cancel, push_procs, setProc_procs, List.getElem?_set] at hp
      split at hp
      · split at hp
        · simp only [Option.some.injEq] at hp; subst hp; exact hp1
        · simp at hp
      · rename_i hne; exact absurd trivial hne
  | yieldF f =>
    simp only [segTerm]
    have h2 := SN_setProc h pid { p1 with segs := rest } (fun hq => absurd hq hpid)
    have h3 := SN_setFut h2 f
      { futGet (e1.setProc pid { p1 with segs := rest }).ps.futs f with parked := some pid }
      (by intro q hq hc; simp at hc; subst hc; exact hpid hq)
    have n3 : NoTC base ((e1.setProc pid { p1 with segs := rest }).setFut f
        { futGet (e1.setProc pid { p1 with segs := rest }).ps.futs f with parked := some pid }) :=
      NoTC_frame hn rfl rfl rfl
    split
    · exact ⟨SN_resumeParked h3 now f, TS_of_NoTC (resumeParked_NoTC n3 now f)⟩
    · exact ⟨h3, TS_of_NoTC n3⟩
  | ret =>
    simp only [segTerm]
    have h2 := SN_setProc h pid { p1 with segs := [], done := true, hooks := [] } (fun hq => absurd hq hpid)
    have h3 : SN Q (addObs ((e1.setProc pid { p1 with segs := [], done := true, hooks := [] }).clearLate pid)
        (.finish now pid)) := SN_same h2 rfl rfl
    have n3 : NoTC base (addObs ((e1.setProc pid { p1 with segs := [], done := true, hooks := [] }).clearLate pid)
        (.finish now pid)) := NoTC_frame hn rfl rfl rfl
    exact ⟨runHooks_closed (SN_closed Q) now _ _ h3, TS_of_NoTC (runHooks_closed (NoTC_closed base) now _ _ n3)⟩

theorem runSegment_SN (Q : List Nat) (base now : Nat) (e : Eff) (pid tag : Nat) (h : SN Q e) (hn : NoTC base e)
    (hpid : pid ∉ Q) : SN Q (runSegment now e pid tag) ∧ TS (runSegment now e pid tag) := by
  cases hp : e.ps.procs[pid]? with
  | none => rw [runSegment_noproc now e pid tag hp]; exact ⟨h, TS_of_NoTC hn⟩
  | some p =>
    cases hs : p.segs with
    | nil =>
      have : runSegment now e pid tag = e := by simp [runSegment, hp, hs]
      rw [this]; exact ⟨h, TS_of_NoTC hn⟩
    | cons seg rest =>
      rw [runSegment_eq now e pid tag p seg rest hp hs]
      unfold segBody
      have h0 : SN Q (segStart now e pid tag p) := by
        unfold segStart
        split
        · exact SN_same (SN_setProc (SN_same (e' := addObs e (.resume now pid p.send tag)) h rfl rfl) pid _
            (fun hq => absurd hq hpid)) rfl rfl
        · exact SN_same (SN_setProc h pid _ (fun hq => absurd hq hpid)) rfl rfl
      have n0 : NoTC base (segStart now e pid tag p) := by
        unfold segStart
        split
        · exact NoTC_frame hn rfl rfl rfl
        · exact NoTC_frame hn rfl rfl rfl
      exact segTerm_SN Q base now _ pid _ rest seg.term (acts_closed (SN_closed Q) now seg.acts _ h0)
        (acts_closed (NoTC_closed base) now seg.acts _ n0) hpid rfl

theorem procEff_SN (Q : List Nat) (ps : PS) (now : Nat) (ev : Ev) (hh : ∀ q ∈ ps.held, q.2.data = 0)
    (h0 : SN Q ({ ps := ps } : Eff)) (h1 : ev.data ≠ 0 → ev.data - 1 ∉ Q) (h2 : ev.data = 0 → ps.procs.length ∉ Q)
    (hlen : ∀ q ∈ Q, q < ps.procs.length) :
    SN Q (procEff ps now ev) ∧ TS (procEff ps now ev) := by
  have n0 : NoTC ps.tagc ({ ps := ps } : Eff) := ⟨by simp, Nat.le_refl _, hh⟩
  unfold procEff
  by_cases hd : ev.data = 0
  · simp only [hd, if_true]
    cases hfind : ps.defs.find? (fun d => d.ent == ev.target && d.kind == ev.kind) with
    | none =>
      simp only []
      exact ⟨runHooks_closed (SN_closed Q) now _ _ (SN_same h0 rfl rfl),
        TS_of_NoTC (runHooks_closed (NoTC_closed _) now _ _ (NoTC_frame n0 rfl rfl rfl))⟩
    | some d =>
      simp only []
      refine runSegment_SN Q ps.tagc now _ _ _ ?_ (NoTC_frame n0 rfl rfl rfl) (h2 hd)
      -- spawning a process leaves the records of `Q` alone
      intro q hq
      refine ⟨(h0 q hq).1, ?_⟩
      intro p hp
      simp only [spawn_procs, addObs_procs] at hp
      rw [List.getElem?_append_left (hlen q hq)] at hp
      exact (h0 q hq).2 p hp
  · simp only [hd, if_false]
    exact runSegment_SN Q ps.tagc now _ _ _ h0 n0 (h1 hd)

/-! ## the monitor on single lines -/

theorem resume_ok (d : DSt) (pid tag clk : Nat) (htag : tag ≠ 0)
    (hmem : (pid, tag, clk) ∈ d.delays) (hnd : (d.delays.map (·.2.1)).Nodup) :
    delayStep d (.resume clk pid "none" tag)
      = { d with delays := d.delays.filter (fun x => !(x.1 == pid && x.2.1 == tag)) } := by
  have ht : (tag != 0) = true := by simp [htag]
  simp only [delayStep, ht, if_true]
  cases hf : d.delays.find? (fun x => x.1 == pid && x.2.1 == tag) with
  | none =>
    exfalso
    have := (List.find?_eq_none.mp hf) (pid, tag, clk) hmem
    simp at this
  | some d0 =>
    have hd0 := List.mem_of_find?_eq_some hf
    have hp0 := List.find?_some hf
    simp only [Bool.and_eq_true, beq_iff_eq] at hp0
    have heq : d0 = (pid, tag, clk) :=
      inj_of_nodup_map (fun x : Nat × Nat × Nat => x.2.1) hnd hd0 hmem (by simp [hp0.2])
    have hnr : ("none" : String).startsWith "raised:" = false := by decide
    simp [heq, hnr]

theorem resume_untagged (d : DSt) (pid clk : Nat) (val : String) :
    delayStep d (.resume clk pid val 0) = d := by
  simp [delayStep]

theorem mkEvents_tc_tags (n t : Nat) (specs : List Spec) :
    ((mkEvents n t specs).filter tcEv).map (·.tag) = (specs.filter tcSpec).map (·.tag) := by
  induction specs generalizing n with
  | nil => rfl
  | cons a r ih =>
    simp only [mkEvents, List.filter_cons]
    have : tcEv ⟨n, a.time, a.target, a.kind, a.daemon, a.data, t, a.tag⟩ = tcSpec a := rfl
    rw [this]
    cases tcSpec a <;> simp [ih]

theorem mkEvents_tc_mem (n t : Nat) (specs : List Spec) :
    ∀ e ∈ mkEvents n t specs, tcEv e = true →
      ∃ sp ∈ specs.filter tcSpec, e.data = sp.data ∧ e.tag = sp.tag ∧ e.time = sp.time := by
  induction specs generalizing n with
  | nil => intro e he; simp [mkEvents] at he
  | cons a r ih =>
    intro e he htc
    simp only [mkEvents, List.mem_cons] at he
    rcases he with rfl | he
    · exact ⟨a, List.mem_filter.mpr ⟨by simp, htc⟩, rfl, rfl, rfl⟩
    · obtain ⟨sp, hsp, h⟩ := ih (n + 1) e he htc
      exact ⟨sp, List.mem_filter.mpr ⟨List.mem_cons_of_mem _ (List.mem_filter.mp hsp).1, (List.mem_filter.mp hsp).2⟩, h⟩

/-! ## the link between the engine state and the monitor state -/

structure DI (s : St PS) (d : DSt) : Prop where
  err : d.err = none
  pend : ∀ ev ∈ s.heap, tcEv ev = true → (ev.data - 1, ev.tag, ev.time) ∈ d.delays
  tagsLe : ∀ x ∈ d.delays, x.2.1 ≤ s.ent.tagc
  nodup : (d.delays.map (·.2.1)).Nodup
  heapLe : ∀ ev ∈ s.heap, tcEv ev = true → ev.tag ≤ s.ent.tagc
  heapNd : ((s.heap.filter tcEv).map (·.tag)).Nodup
  held : ∀ q ∈ s.ent.held, q.2.data = 0
  sendNone : ∀ ev ∈ s.heap, tcEv ev = true → ∀ p, s.ent.procs[ev.data - 1]? = some p → p.send = .none

theorem DI_skip (s : St PS) (d : DSt) (m : Ev) (now' a b c prim : Nat) (pp : List (Ev × Verdict)) (h : DI s d) :
    DI { s with heap := s.heap.erase m, primary := prim, now := now', processed := a, nCancelled := b,
                nStale := c, popped := pp } d :=
  { err := h.err, pend := fun ev he => h.pend ev (List.mem_of_mem_erase he), tagsLe := h.tagsLe, nodup := h.nodup,
    heapLe := fun ev he => h.heapLe ev (List.mem_of_mem_erase he),
    heapNd := ((List.erase_sublist).filter _ |>.map _).nodup h.heapNd,
    held := h.held, sendNone := fun ev he => h.sendNone ev (List.mem_of_mem_erase he) }

/-- the monitor after the `R` line of a delivered event -/
theorem DI_rLine (s : St PS) (d : DSt) (m : Ev) (hm : m ∈ s.heap) (inv : Inv s) (h : DI s d) :
    ((rLine s.ent m).foldl delayStep d).err = none ∧
    (∀ x ∈ ((rLine s.ent m).foldl delayStep d).delays, x ∈ d.delays) ∧
    (((rLine s.ent m).foldl delayStep d).delays.map (·.2.1)).Nodup ∧
    (∀ ev ∈ s.heap.erase m, tcEv ev = true →
      (ev.data - 1, ev.tag, ev.time) ∈ ((rLine s.ent m).foldl delayStep d).delays) := by
  have keep : ((∀ x ∈ d.delays, x ∈ d.delays) ∧ (d.delays.map (·.2.1)).Nodup ∧
      (∀ ev ∈ s.heap.erase m, tcEv ev = true → (ev.data - 1, ev.tag, ev.time) ∈ d.delays)) :=
    ⟨fun x hx => hx, h.nodup, fun ev he htc => h.pend ev (List.mem_of_mem_erase he) htc⟩
  unfold rLine
  split
  · exact ⟨h.err, keep⟩
  · rename_i hd
    split
    · rename_i p hp
      split
      · simp only [List.foldl_cons, List.foldl_nil]
        by_cases htag : m.tag = 0
        · rw [htag, resume_untagged]; exact ⟨h.err, keep⟩
        · have htc : tcEv m = true := by simp [tcEv, hd, htag]
          have hsend : p.send.show = "none" := by rw [h.sendNone m hm htc p hp]; simp [Val.show]
          rw [hsend, resume_ok d (m.data - 1) m.tag m.time htag (h.pend m hm htc) h.nodup]
          refine ⟨h.err, fun x hx => (List.mem_filter.mp hx).1,
            ((List.filter_sublist).map _).nodup h.nodup, ?_⟩
          intro ev he hev
          refine List.mem_filter.mpr ⟨h.pend ev (List.mem_of_mem_erase he) hev, ?_⟩
          -- another pending tagged continuation carries another tag
          have hne : ev.tag ≠ m.tag := by
            intro heq
            have h1 : ev ∈ s.heap.filter tcEv := List.mem_filter.mpr ⟨List.mem_of_mem_erase he, hev⟩
            have h2 : m ∈ s.heap.filter tcEv := List.mem_filter.mpr ⟨hm, htc⟩
            have := inj_of_nodup_map (fun e : Ev => e.tag) h.heapNd h1 h2 heq
            exact ne_id_of_mem_erase inv.nodup hm he (by rw [this])
          simp [hne]
      · exact ⟨h.err, keep⟩
    · exact ⟨h.err, keep⟩

theorem DI_step (s : St PS) (ls : List Line) (m : Ev) (hm : m ∈ s.heap) (inv : Inv s) (pinv : ProcInv s)
    (h : DI s (ls.foldl delayStep {})) :
    DI (stepWith procMachine s m) ((viewStep s ls m).foldl delayStep {}) := by
  unfold stepWith viewStep
  simp only []
  split
  · exact DI_skip s _ m _ _ _ _ _ _ h
  · split
    · exact DI_skip s _ m _ _ _ _ _ _ h
    · split
      · exact DI_skip s _ m _ _ _ _ _ _ h
      · have heq := procHandle_eq s.ent m.time m
        have hent : (procMachine.handle s.ent m.time m).ent = (procEff s.ent m.time m).ps := by
          show (procHandle s.ent m.time m).ent = _; rw [heq]
        have hspecs : (procMachine.handle s.ent m.time m).specs = (procEff s.ent m.time m).specs := by
          show (procHandle s.ent m.time m).specs = _; rw [heq]
        have hc := procEff_HC s.ent m.time m h.held
        -- the other processes with a pending delay continuation: parked nowhere, nothing to be sent
        have hQmem : ∀ q ∈ ((s.heap.erase m).filter tcEv).map (fun e => e.data - 1),
            ∃ ev ∈ s.heap.erase m, tcEv ev = true ∧ ev.data = q + 1 := by
          intro q hq
          obtain ⟨ev, hev, rfl⟩ := List.mem_map.mp hq
          have hm' := List.mem_filter.mp hev
          have : ev.data ≠ 0 := by have := hm'.2; simp [tcEv] at this; exact this.1
          exact ⟨ev, hm'.1, hm'.2, by omega⟩
        have hQ0 : SN (((s.heap.erase m).filter tcEv).map (fun e => e.data - 1)) ({ ps := s.ent } : Eff) := by
          intro q hq
          obtain ⟨ev, he, htc, hdq⟩ := hQmem q hq
          have hmem := List.mem_of_mem_erase he
          refine ⟨?_, ?_⟩
          · have hne : cntHeap s.heap q ≠ 0 := by
              intro h0
              unfold cntHeap at h0
              rw [List.countP_eq_zero] at h0
              have := h0 ev hmem
              simp [hdq] at this
            have := pinv.atMostOne q
            have hz : cntPark s.ent.futs q = 0 := by omega
            exact (cntPark_zero s.ent.futs q).mp hz
          · intro p hp
            have : ev.data - 1 = q := by omega
            exact h.sendNone ev hmem htc p (by rw [this]; exact hp)
        have hq1 : m.data ≠ 0 → m.data - 1 ∉ ((s.heap.erase m).filter tcEv).map (fun e => e.data - 1) := by
          intro hd hq
          obtain ⟨ev, he, _, hdq⟩ := hQmem _ hq
          have h1 := cntHeap_erase_mem s.heap m (m.data - 1) hm
          have h2 := pinv.atMostOne (m.data - 1)
          have hi : ind (m.data == m.data - 1 + 1) = 1 := by
            have : m.data = m.data - 1 + 1 := by omega
            simp [ind, ← this]
          have hz1 : cntHeap (s.heap.erase m) (m.data - 1) = 0 := by omega
          unfold cntHeap at hz1
          rw [List.countP_eq_zero] at hz1
          have := hz1 ev he
          simp [hdq] at this
        have hq2 : ∀ q ∈ ((s.heap.erase m).filter tcEv).map (fun e => e.data - 1), q < s.ent.procs.length := by
          intro q hq
          obtain ⟨ev, he, _, hdq⟩ := hQmem q hq
          have := pinv.heapProc ev (List.mem_of_mem_erase he)
          omega
        have hsn := procEff_SN _ s.ent m.time m h.held hQ0 hq1
          (fun _ hq => Nat.lt_irrefl _ (hq2 _ hq)) hq2
        have hsend : ∀ ev ∈ s.heap.erase m ++ mkEvents s.nextId m.time (procEff s.ent m.time m).specs, tcEv ev = true →
            ∀ p, (procEff s.ent m.time m).ps.procs[ev.data - 1]? = some p → p.send = .none := by
          intro ev he htc p hp
          rcases List.mem_append.mp he with he | he
          · have hq : ev.data - 1 ∈ ((s.heap.erase m).filter tcEv).map (fun e => e.data - 1) :=
              List.mem_map.mpr ⟨ev, List.mem_filter.mpr ⟨he, htc⟩, rfl⟩
            exact (hsn.1 _ hq).2 p hp
          · obtain ⟨sp, hsp, h1, _, _⟩ := mkEvents_tc_mem _ _ _ ev he htc
            have hm' := List.mem_filter.mp hsp
            exact hsn.2 sp hm'.1 hm'.2 p (by rw [← h1]; exact hp)
        clear hsn hQ0
        unfold delayLines
        generalize procEff s.ent m.time m = r at hent hspecs hc hsend
        obtain ⟨hr1, hr2, hr3, hr4⟩ := DI_rLine s _ m hm inv h
        rw [List.foldl_append, List.foldl_append, List.foldl_append, wLine_delay]
        generalize (rLine s.ent m).foldl delayStep (ls.foldl delayStep {}) = d1 at hr1 hr2 hr3 hr4
        have hd1le : ∀ x ∈ d1.delays, x.2.1 ≤ s.ent.tagc := fun x hx => h.tagsLe x (hr2 x hx)
        have hold : ((s.heap.erase m).filter tcEv).map (·.tag) |>.Nodup :=
          ((List.erase_sublist).filter _ |>.map _).nodup h.heapNd
        obtain ⟨hbase, hheld, hfil⟩ := hc
        rcases hfil with hnil | ⟨sp, hone, hlt, hle⟩
        · -- no `yield delay` in this invocation
          have hy : yLines r.specs = [] := by simp [yLines, hnil]
          rw [hy, List.foldl_nil]
          have hnew : ∀ e ∈ mkEvents s.nextId m.time r.specs, tcEv e = false := by
            intro e he
            cases htc : tcEv e with
            | false => rfl
            | true =>
              obtain ⟨sp, hsp, _⟩ := mkEvents_tc_mem _ _ _ e he htc
              rw [hnil] at hsp; simp at hsp
          refine
            { err := hr1, pend := ?_, tagsLe := ?_, nodup := hr3, heapLe := ?_, heapNd := ?_, held := ?_,
              sendNone := by
                intro ev he htc p hp
                have he' : ev ∈ s.heap.erase m ++ mkEvents s.nextId m.time (procMachine.handle s.ent m.time m).specs := he
                rw [hspecs] at he'
                have hp' : (procMachine.handle s.ent m.time m).ent.procs[ev.data - 1]? = some p := hp
                rw [hent] at hp'
                exact hsend ev he' htc p hp' }
          · intro ev he htc
            rw [hspecs] at he
            rcases List.mem_append.mp he with he | he
            · exact hr4 ev he htc
            · rw [hnew ev he] at htc; simp at htc
          · intro x hx
            have := hd1le x hx
            show x.2.1 ≤ (procMachine.handle s.ent m.time m).ent.tagc
            rw [hent]; omega
          · intro ev he htc
            rw [hspecs] at he
            show ev.tag ≤ (procMachine.handle s.ent m.time m).ent.tagc
            rw [hent]
            rcases List.mem_append.mp he with he | he
            · have := h.heapLe ev (List.mem_of_mem_erase he) htc; omega
            · rw [hnew ev he] at htc; simp at htc
          · show ((List.filter tcEv (s.heap.erase m ++ mkEvents s.nextId m.time (procMachine.handle s.ent m.time m).specs)).map (·.tag)).Nodup
            rw [hspecs, List.filter_append, List.map_append, mkEvents_tc_tags, hnil]
            simpa using hold
          · show ∀ q ∈ (procMachine.handle s.ent m.time m).ent.held, q.2.data = 0
            rw [hent]; exact hheld
        · -- one `yield delay`: its `y` line
          have hy : yLines r.specs = [Line.ydelay sp.tag (sp.data - 1) sp.time] := by simp [yLines, hone]
          rw [hy]
          simp only [List.foldl_cons, List.foldl_nil, delayStep]
          refine
            { err := hr1, pend := ?_, tagsLe := ?_, nodup := ?_, heapLe := ?_, heapNd := ?_, held := ?_,
              sendNone := by
                intro ev he htc p hp
                have he' : ev ∈ s.heap.erase m ++ mkEvents s.nextId m.time (procMachine.handle s.ent m.time m).specs := he
                rw [hspecs] at he'
                have hp' : (procMachine.handle s.ent m.time m).ent.procs[ev.data - 1]? = some p := hp
                rw [hent] at hp'
                exact hsend ev he' htc p hp' }
          · intro ev he htc
            rw [hspecs] at he
            rcases List.mem_append.mp he with he | he
            · exact List.mem_cons_of_mem _ (hr4 ev he htc)
            · obtain ⟨sp', hsp', h1, h2, h3⟩ := mkEvents_tc_mem _ _ _ ev he htc
              rw [hone] at hsp'
              simp only [List.mem_singleton] at hsp'
              subst hsp'
              rw [h1, h2, h3]; exact List.mem_cons_self ..
          · intro x hx
            show x.2.1 ≤ (procMachine.handle s.ent m.time m).ent.tagc
            rw [hent]
            rcases List.mem_cons.mp hx with rfl | hx
            · exact hle
            · have := hd1le x hx; omega
          · simp only [List.map_cons, List.nodup_cons]
            refine ⟨?_, hr3⟩
            intro hmem
            obtain ⟨x, hx, hxt⟩ := List.mem_map.mp hmem
            have := hd1le x hx
            omega
          · intro ev he htc
            rw [hspecs] at he
            show ev.tag ≤ (procMachine.handle s.ent m.time m).ent.tagc
            rw [hent]
            rcases List.mem_append.mp he with he | he
            · have := h.heapLe ev (List.mem_of_mem_erase he) htc; omega
            · obtain ⟨sp', hsp', _, h2, _⟩ := mkEvents_tc_mem _ _ _ ev he htc
              rw [hone] at hsp'
              simp only [List.mem_singleton] at hsp'
              subst hsp'
              rw [h2]; exact hle
          · show ((List.filter tcEv (s.heap.erase m ++ mkEvents s.nextId m.time (procMachine.handle s.ent m.time m).specs)).map (·.tag)).Nodup
            rw [hspecs, List.filter_append, List.map_append, mkEvents_tc_tags, hone, List.nodup_append]
            refine ⟨hold, by simp, ?_⟩
            intro a ha b hb
            simp only [List.map_cons, List.map_nil, List.mem_singleton] at hb
            subst hb
            obtain ⟨ev, hev, rfl⟩ := List.mem_map.mp ha
            have hm' := List.mem_filter.mp hev
            have := h.heapLe ev (List.mem_of_mem_erase hm'.1) hm'.2
            omega
          · show ∀ q ∈ (procMachine.handle s.ent m.time m).ent.held, q.2.data = 0
            rw [hent]; exact hheld

theorem DI_run (endT : Option Nat) (n : Nat) (s : St PS) (ls : List Line) (inv : Inv s) (pinv : ProcInv s)
    (h : DI s (ls.foldl delayStep {})) :
    DI (run procMachine endT n s) ((viewRun endT n s ls).foldl delayStep {}) := by
  induction n generalizing s ls with
  | zero => simpa [run, viewRun]
  | succ n ih =>
    unfold run viewRun step
    cases hh : s.heap with
    | nil => simpa
    | cons x xs =>
      simp only []
      by_cases hc : continues endT s = true
      · simp only [hc, if_true]
        have hmem : minOf x xs ∈ s.heap := by rw [hh]; exact (pop_is_min x xs).1
        exact ih _ _ (step_preserves procMachine s x xs hh inv) (step_procInv s _ pinv hmem) (DI_step s ls _ hmem inv pinv h)
      · simp only [hc, Bool.false_eq_true, if_false]
        exact h

theorem DI_init (s : St PS) (h0 : InitOk s) : DI s ({} : DSt) :=
  { err := rfl, pend := by intro ev he htc; simp [tcEv, h0.heapPlain ev he] at htc,
    tagsLe := by simp, nodup := by simp,
    heapLe := by intro ev he htc; simp [tcEv, h0.heapPlain ev he] at htc,
    heapNd := by
      have : s.heap.filter tcEv = [] := List.filter_eq_nil_iff.mpr (fun e he => by simp [tcEv, h0.heapPlain e he])
      rw [this]; simp,
    held := h0.heldPlain,
    sendNone := by intro ev he htc; simp [tcEv, h0.heapPlain ev he] at htc }

/-- **the delay clauses of the C02 judge are silent on the trace of the model**: for every handler
    table and every initial state with plain pending events (`InitOk`, e.g. the initial state of any
    parsed program) satisfying the engine invariant, every end time and number of iterations, a
    process resumed by a delay continuation had yielded exactly that delay (same process, same tag) and
    is resumed at exactly the due time written down at the yield, and receives `None` (nothing is raised
    into it) — `delayMonitor` raises none of `process/resumed-without-pending-delay`,
    `process/delay-resume-at-wrong-time`, `process/delay-resume-raised`, `process/delay-resume-with-value` -/
theorem delay_clauses_silent_on_model (endT : Option Nat) (n : Nat) (s0 : St PS) (inv : Inv s0) (h0 : InitOk s0) :
    delayMonitor (delayView endT n s0) = none :=
  (DI_run endT n s0 [] inv h0.procInv (DI_init s0 h0)).err

/-- for the initial state of any program with a plain pre-run schedule -/
theorem delay_clauses_silent_on_program (p : Program) (gateCont : Bool) (hp : p.Plain) (endT : Option Nat) (n : Nat) :
    delayMonitor (delayView endT n (p.initState gateCont)) = none :=
  delay_clauses_silent_on_model endT n _ (initState_inv p gateCont) (initState_ok p gateCont hp)

/-- the monitor reads only `y` and `R` lines: any trace with the model's `y` / `R` content is accepted -/
def isDelayLine : Line → Bool
  | .ydelay _ _ _ => true
  | .resume _ _ _ _ => true
  | _ => false

theorem delayMonitor_filter (ls : List Line) : delayMonitor ls = delayMonitor (ls.filter isDelayLine) := by
  unfold delayMonitor
  generalize ({} : DSt) = d
  induction ls generalizing d with
  | nil => rfl
  | cons l r ih =>
    simp only [List.foldl_cons, List.filter_cons]
    cases l <;> simp [isDelayLine, delayStep, ih]

end HappyModel.C01
