import HappyProofs.C02.JudgeTrace
/-!
# C02 — the settle fold of the judge on the model's trace, plain futures

The last part of the C02 judge (`Spec.stepLine`, folded over the numbered lines) keeps a table of future
objects (`n` / `a` / `l` / `r` lines), the futures processes wait on (`w` lines) and checks every untagged
resumption (`R` line) against it.  Here the `r` lines are ghosted alongside `run` (next to the `R` and
`w` lines of `delayView`), and for programs whose segments use no combinator and never rebind a slot
(`PlainAct`: no `fresh` / `any_of` / `all_of`; `settle` is then the identity) the fold is shown never to
raise `future/resumed-before-resolved` on the model's own trace: an untagged continuation exists only
for a process whose first outstanding wait names an object the trace has already resolved.
-/
namespace HappyModel.C01
open HappyModel.C02.Spec (Line SSt FObj FExpr stepLine settle)
set_option linter.unusedVariables false
set_option linter.unusedSimpArgs false

/-- the clause -/
def BR : String := "future/resumed-before-resolved"

/-- resolution of object `o` in the judge's table -/
def resOf (j : SSt) (o : Nat) : Option (Nat × Val) := (j.objs[o]?).bind (·.res)

/-- the fold of the judge, positions made explicit -/
def foldFrom : Nat → List Line → SSt → SSt
  | _, [], j => j
  | k, l :: r, j => foldFrom (k + 1) r (stepLine j k l)

theorem foldFrom_append (k : Nat) (a b : List Line) (j : SSt) :
    foldFrom k (a ++ b) j = foldFrom (k + a.length) b (foldFrom k a j) := by
  induction a generalizing k j with
  | nil => simp [foldFrom]
  | cons x r ih =>
    simp only [List.cons_append, foldFrom, List.length_cons]
    rw [ih]
    congr 1
    omega

theorem fold_enum_eq (ls : List Line) (j : SSt) :
    (enum ls).foldl (fun st p => stepLine st p.1 p.2) j = foldFrom 0 ls j := by
  unfold enum
  rw [List.range_eq_range']
  generalize 0 = k
  induction ls generalizing k j with
  | nil => simp [foldFrom]
  | cons x r ih =>
    simp only [List.length_cons, List.range'_succ, List.zip_cons_cons, List.foldl_cons, foldFrom]
    exact ih _ _

/-! ## the judge's side -/

structure JOk (j : SSt) : Prop where
  plain : ∀ o ∈ j.objs, o.expr = FExpr.plain
  rng : ∀ g o, j.obj g = some o → o < j.objs.length

/-- `j'` extends `j`: bindings kept, resolutions kept -/
structure JExt (j j' : SSt) : Prop where
  ok : JOk j'
  err : j'.err = j.err
  obj : ∀ g o, j.obj g = some o → j'.obj g = some o
  res : ∀ o, (resOf j o).isSome = true → (resOf j' o).isSome = true

theorem JExt.refl {j : SSt} (h : JOk j) : JExt j j := ⟨h, rfl, fun _ _ h => h, fun _ h => h⟩

theorem JExt.trans {a b c : SSt} (h1 : JExt a b) (h2 : JExt b c) : JExt a c :=
  ⟨h2.ok, h2.err.trans h1.err, fun g o h => h2.obj g o (h1.obj g o h), fun o h => h2.res o (h1.res o h)⟩

theorem settle_plain (pos fuel : Nat) (objs : List FObj) (h : ∀ o ∈ objs, o.expr = FExpr.plain) :
    settle pos fuel objs = objs := by
  have hm : ∀ g : FObj → FObj, (∀ o ∈ objs, g o = o) → objs.map g = objs := by
    intro g hg
    rw [List.map_congr_left hg, List.map_id']
  induction fuel with
  | zero => rfl
  | succ n ih =>
    unfold settle
    refine Eq.trans (congrArg (settle pos n) (hm _ ?_)) ih
    intro o ho
    have he := h o ho
    cases hr : o.res with
    | some r => simp only [hr]
    | none => simp only [hr, he]

theorem find?_filter_ne {α} (l : List (Nat × α)) (f g : Nat) (h : g ≠ f) :
    (l.filter (fun x => x.1 != f)).find? (fun x => x.1 == g) = l.find? (fun x => x.1 == g) := by
  induction l with
  | nil => rfl
  | cons a r ih =>
    by_cases ha : a.1 = f
    · have hg : (a.1 == g) = false := by simp; omega
      have hf : (a.1 != f) = false := by simp [ha]
      rw [List.filter_cons, List.find?_cons]
      simp only [hf, hg, Bool.false_eq_true, if_false]
      exact ih
    · have hf : (a.1 != f) = true := by simp [ha]
      rw [List.filter_cons]
      simp only [hf, if_true, List.find?_cons]
      rw [ih]

theorem find?_filter_self {α} (l : List (Nat × α)) (f : Nat) :
    (l.filter (fun x => x.1 != f)).find? (fun x => x.1 == f) = none := by
  rw [List.find?_eq_none]
  intro x hx
  have := (List.mem_filter.mp hx).2
  simpa using this

theorem obj_bind_same (j : SSt) (f : Nat) (e : FExpr) (pos : Nat) :
    (j.bind f e pos).obj f = some j.objs.length := by
  simp [SSt.obj, SSt.bind]

theorem obj_bind_ne (j : SSt) (f g : Nat) (e : FExpr) (pos : Nat) (h : g ≠ f) :
    (j.bind f e pos).obj g = j.obj g := by
  have hg : (f == g) = false := by simp; omega
  simp only [SSt.obj, SSt.bind, List.find?_cons, hg]
  rw [find?_filter_ne _ _ _ h]

theorem ensure_cases (s : SSt) (f pos : Nat) :
    (∃ o, s.obj f = some o ∧ s.ensure f pos = (s, o)) ∨
    (s.obj f = none ∧ s.ensure f pos = (s.bind f .plain pos, s.objs.length)) := by
  unfold SSt.ensure
  cases h : s.obj f with
  | some o => left; exact ⟨o, rfl, rfl⟩
  | none => right; exact ⟨rfl, rfl⟩

theorem JExt_bind (s : SSt) (f pos : Nat) (hk : JOk s) (hn : s.obj f = none) : JExt s (s.bind f .plain pos) := by
  have hlen : (s.bind f .plain pos).objs.length = s.objs.length + 1 := by simp [SSt.bind]
  refine ⟨⟨?_, ?_⟩, rfl, ?_, ?_⟩
  · intro o ho
    have ho' : o ∈ s.objs ++ [⟨FExpr.plain, pos, none⟩] := ho
    rcases List.mem_append.mp ho' with ho' | ho'
    · exact hk.plain o ho'
    · simp only [List.mem_singleton] at ho'; subst ho'; rfl
  · intro g o hg
    rw [hlen]
    by_cases hgf : g = f
    · subst hgf
      rw [obj_bind_same] at hg
      simp only [Option.some.injEq] at hg
      omega
    · rw [obj_bind_ne _ _ _ _ _ hgf] at hg
      have := hk.rng g o hg
      omega
  · intro g o hg
    have hgf : g ≠ f := by
      intro heq; subst heq; rw [hn] at hg; cases hg
    rw [obj_bind_ne _ _ _ _ _ hgf]; exact hg
  · intro o ho
    unfold resOf at ho ⊢
    cases hx : s.objs[o]? with
    | none => rw [hx] at ho; simp at ho
    | some x =>
      obtain ⟨hlt, _⟩ := List.getElem?_eq_some_iff.mp hx
      have : (s.bind f .plain pos).objs[o]? = some x := by
        show (s.objs ++ [⟨FExpr.plain, pos, none⟩])[o]? = some x
        rw [List.getElem?_append_left hlt]; exact hx
      rw [this]; rw [hx] at ho; exact ho

theorem JExt_ensure (s : SSt) (f pos : Nat) (hk : JOk s) :
    JExt s (s.ensure f pos).1 ∧ (s.ensure f pos).1.obj f = some (s.ensure f pos).2 ∧
      (s.ensure f pos).1.waits = s.waits ∧ (s.ensure f pos).1.daemonWaits = s.daemonWaits := by
  rcases ensure_cases s f pos with ⟨o, ho, he⟩ | ⟨hn, he⟩
  · rw [he]; exact ⟨JExt.refl hk, ho, rfl, rfl⟩
  · rw [he]; exact ⟨JExt_bind s f pos hk hn, obj_bind_same _ _ _ _, rfl, rfl⟩

theorem JExt_set (s : SSt) (o : Nat) (ob : FObj) (r : Nat × Val) (pos fuel : Nat) (hk : JOk s)
    (ho : s.objs[o]? = some ob) :
    JExt s { s with objs := settle pos fuel (s.objs.set o { ob with res := some r }) } ∧
    (resOf { s with objs := settle pos fuel (s.objs.set o { ob with res := some r }) } o).isSome = true := by
  have hpl : ∀ x ∈ s.objs.set o { ob with res := some r }, x.expr = FExpr.plain := by
    intro x hx
    rcases List.mem_or_eq_of_mem_set hx with hx | rfl
    · exact hk.plain x hx
    · exact hk.plain ob (List.mem_of_getElem? ho)
  have hobjs : settle pos fuel (s.objs.set o { ob with res := some r }) = s.objs.set o { ob with res := some r } :=
    settle_plain _ _ _ hpl
  obtain ⟨hlt, _⟩ := List.getElem?_eq_some_iff.mp ho
  rw [hobjs]
  refine ⟨⟨⟨hpl, ?_⟩, rfl, fun g o' h => h, ?_⟩, ?_⟩
  · intro g o' h
    show o' < (s.objs.set o { ob with res := some r }).length
    rw [List.length_set]
    exact hk.rng g o' h
  · intro o' h
    unfold resOf at h ⊢
    show (((s.objs.set o { ob with res := some r })[o']?).bind (·.res)).isSome = true
    by_cases hoo : o = o'
    · subst hoo
      rw [List.getElem?_set_self hlt]; rfl
    · rw [List.getElem?_set_ne hoo]; exact h
  · unfold resOf
    show (((s.objs.set o { ob with res := some r })[o]?).bind (·.res)).isSome = true
    rw [List.getElem?_set_self hlt]; rfl

/-- an `r` line -/
theorem step_resolve (j : SSt) (pos f : Nat) (v : Val) (hk : JOk j) :
    JExt j (stepLine j pos (.resolve f v)) ∧ (stepLine j pos (.resolve f v)).waits = j.waits ∧
    ∃ o, (stepLine j pos (.resolve f v)).obj f = some o ∧
      (resOf (stepLine j pos (.resolve f v)) o).isSome = true := by
  have h := JExt_ensure { j with clockAt := j.clock :: j.clockAt } f pos ⟨hk.plain, hk.rng⟩
  simp only [stepLine]
  generalize hE : SSt.ensure { j with clockAt := j.clock :: j.clockAt } f pos = E at h
  obtain ⟨s1, o⟩ := E
  simp only [] at h ⊢
  obtain ⟨hext, hobj, hw, _⟩ := h
  have hext' : JExt j s1 := ⟨hext.ok, hext.err, hext.obj, hext.res⟩
  have hw' : s1.waits = j.waits := hw
  have hlt := hext.ok.rng f o hobj
  cases hob : s1.objs[o]? with
  | none =>
    have := List.getElem?_eq_none_iff.mp hob
    omega
  | some ob =>
    simp only []
    by_cases hres : ob.res.isSome = true
    · simp only [hres, if_true]
      refine ⟨hext', hw', o, hobj, ?_⟩
      unfold resOf; rw [hob]; exact hres
    · simp only [hres, Bool.false_eq_true, if_false]
      obtain ⟨h1, h2⟩ := JExt_set s1 o ob (pos, v) pos ((s1.objs.set o { ob with res := some (pos, v) }).length + 1) hext.ok hob
      exact ⟨hext'.trans h1, hw', o, hobj, h2⟩

/-- a `w` line -/
theorem step_wait (j : SSt) (pos pid f : Nat) (dm : Bool) (hk : JOk j) :
    JExt j (stepLine j pos (.wait pid f dm)) ∧
    ∃ o, (stepLine j pos (.wait pid f dm)).waits = (pid, o, pos) :: j.waits ∧
      (stepLine j pos (.wait pid f dm)).obj f = some o := by
  have h := JExt_ensure { j with clockAt := j.clock :: j.clockAt } f pos ⟨hk.plain, hk.rng⟩
  simp only [stepLine]
  generalize hE : SSt.ensure { j with clockAt := j.clock :: j.clockAt } f pos = E at h
  obtain ⟨s1, o⟩ := E
  simp only [] at h ⊢
  obtain ⟨hext, hobj, hw, _⟩ := h
  refine ⟨⟨⟨hext.ok.plain, hext.ok.rng⟩, hext.err, hext.obj, hext.res⟩, o, ?_, hobj⟩
  show (pid, o, pos) :: s1.waits = (pid, o, pos) :: j.waits
  rw [hw]

theorem err_or (e : Option String) (x : String) (h : e ≠ some BR) (hx : x ≠ BR) : (e <|> some x) ≠ some BR := by
  cases e with
  | none => simpa using hx
  | some y => simpa using h

/-- an `R` line -/
theorem step_resume (j : SSt) (pos clk pid tag : Nat) (val : String) (hok : j.err ≠ some BR)
    (hres : tag = 0 → ∀ w, j.waits.find? (fun w => w.1 == pid) = some w → (resOf j w.2.1).isSome = true) :
    (stepLine j pos (.resume clk pid val tag)).objs = j.objs ∧
    (stepLine j pos (.resume clk pid val tag)).slot = j.slot ∧
    (stepLine j pos (.resume clk pid val tag)).err ≠ some BR ∧
    (∀ q, (tag = 0 → q ≠ pid) →
      (stepLine j pos (.resume clk pid val tag)).waits.find? (fun w => w.1 == q) = j.waits.find? (fun w => w.1 == q)) ∧
    (tag = 0 → (stepLine j pos (.resume clk pid val tag)).waits.find? (fun w => w.1 == pid) = none) := by
  simp only [stepLine]
  by_cases htag : tag = 0
  · have ht : (tag != 0) = false := by simp [htag]
    simp only [ht, Bool.false_eq_true, if_false]
    cases hf : j.waits.find? (fun w => w.1 == pid) with
    | none =>
      simp only []
      exact ⟨trivial, trivial, hok, fun q _ => trivial, fun _ => hf⟩
    | some w =>
      simp only []
      have hr := hres htag w hf
      unfold resOf at hr
      cases hrr : (j.objs[w.2.1]?).bind (·.res) with
      | none => rw [hrr] at hr; simp at hr
      | some r =>
        obtain ⟨rpos, v⟩ := r
        simp only []
        have hq : ∀ q, (tag = 0 → q ≠ pid) →
            (j.waits.filter (fun x => x.1 != pid)).find? (fun w => w.1 == q) = j.waits.find? (fun w => w.1 == q) :=
          fun q hq => find?_filter_ne _ _ _ (hq htag)
        have hs : tag = 0 → (j.waits.filter (fun x => x.1 != pid)).find? (fun w => w.1 == pid) = none :=
          fun _ => find?_filter_self _ _
        split
        · exact ⟨rfl, rfl, err_or _ _ hok (by decide), hq, hs⟩
        · split
          · exact ⟨rfl, rfl, err_or _ _ hok (by decide), hq, hs⟩
          · split
            · exact ⟨rfl, rfl, err_or _ _ hok (by decide), hq, hs⟩
            · exact ⟨rfl, rfl, hok, hq, hs⟩
  · have ht : (tag != 0) = true := by simp [htag]
    simp only [ht, if_true]
    exact ⟨trivial, trivial, hok, fun q _ => trivial, fun h => absurd h htag⟩


/-! ## the model's side -/

/-- the link between the effect of the code run so far (`e`), the judge's state after the lines written so
    far (`j`) and the processes `X` with an untagged continuation pending elsewhere (in the heap) -/
structure FA (e : Eff) (j : SSt) (X : Nat → Prop) : Prop where
  jok : JOk j
  res : ∀ f, (futGet e.ps.futs f).resolved = true → ∃ o, j.obj f = some o ∧ (resOf j o).isSome = true
  nocb : ∀ f, (futGet e.ps.futs f).cbs = []
  park : ∀ f pid, (futGet e.ps.futs f).parked = some pid →
    ∀ w, j.waits.find? (fun w => w.1 == pid) = some w → j.obj f = some w.2.1
  pend : ∀ pid, (X pid ∨ ∃ sp ∈ e.specs, sp.data = pid + 1 ∧ sp.tag = 0) →
    ∀ w, j.waits.find? (fun w => w.1 == pid) = some w → (resOf j w.2.1).isSome = true
  held : ∀ x ∈ e.ps.held, x.2.data = 0
  ok : j.err ≠ some BR

/-- the running process is parked nowhere and has no untagged continuation yet -/
def NP (me : Nat) (e : Eff) : Prop :=
  (∀ g, (futGet e.ps.futs g).parked ≠ some me) ∧ (∀ sp ∈ e.specs, sp.data = me + 1 → sp.tag ≠ 0)

def FN (j : SSt) (X : Nat → Prop) (me : Nat) (e : Eff) : Prop := FA e j X ∧ NP me e

theorem FA_monoX {e : Eff} {j : SSt} {X X' : Nat → Prop} (h : FA e j X) (hx : ∀ q, X' q → X q) : FA e j X' :=
  ⟨h.jok, h.res, h.nocb, h.park,
   fun pid hp => h.pend pid (hp.elim (fun a => Or.inl (hx pid a)) Or.inr), h.held, h.ok⟩

/-- the general update: what is new is justified by the new judge state, the rest is inherited -/
theorem FA_upd {e e' : Eff} {j j' : SSt} {X : Nat → Prop} (h : FA e j X) (hx : JExt j j')
    (hres : ∀ g, (futGet e'.ps.futs g).resolved = true →
      (futGet e.ps.futs g).resolved = true ∨ ∃ o, j'.obj g = some o ∧ (resOf j' o).isSome = true)
    (hcb : ∀ g, (futGet e'.ps.futs g).cbs = [])
    (hpark : ∀ g pid, (futGet e'.ps.futs g).parked = some pid →
      ∀ w, j'.waits.find? (fun w => w.1 == pid) = some w →
        ((futGet e.ps.futs g).parked = some pid ∧ j.waits.find? (fun w => w.1 == pid) = some w) ∨
        j'.obj g = some w.2.1)
    (hpend : ∀ pid, (∃ sp ∈ e'.specs, sp.data = pid + 1 ∧ sp.tag = 0) →
      ∀ w, j'.waits.find? (fun w => w.1 == pid) = some w →
        ((∃ sp ∈ e.specs, sp.data = pid + 1 ∧ sp.tag = 0) ∧ j.waits.find? (fun w => w.1 == pid) = some w) ∨
        (resOf j' w.2.1).isSome = true)
    (hX : ∀ pid, X pid → ∀ w, j'.waits.find? (fun w => w.1 == pid) = some w →
      j.waits.find? (fun w => w.1 == pid) = some w)
    (hheld : ∀ x ∈ e'.ps.held, x.2.data = 0) : FA e' j' X := by
  refine ⟨hx.ok, ?_, hcb, ?_, ?_, hheld, by rw [hx.err]; exact h.ok⟩
  · intro g hg
    rcases hres g hg with h1 | h1
    · obtain ⟨o, ho, hr⟩ := h.res g h1
      exact ⟨o, hx.obj g o ho, hx.res o hr⟩
    · exact h1
  · intro g pid hg w hw
    rcases hpark g pid hg w hw with ⟨h1, h2⟩ | h1
    · exact hx.obj g _ (h.park g pid h1 w h2)
    · exact h1
  · intro pid hp w hw
    rcases hp with hp | hp
    · exact hx.res _ (h.pend pid (Or.inl hp) w (hX pid hp w hw))
    · rcases hpend pid hp w hw with ⟨h1, h2⟩ | h1
      · exact hx.res _ (h.pend pid (Or.inr h1) w h2)
      · exact h1

theorem FN_frame {j : SSt} {X : Nat → Prop} {me : Nat} {e e' : Eff} (h : FN j X me e)
    (hf : e'.ps.futs = e.ps.futs)
    (hs : ∀ sp ∈ e'.specs, sp ∈ e.specs ∨ sp.data = 0 ∨ sp.tag ≠ 0)
    (hh : ∀ x ∈ e'.ps.held, x ∈ e.ps.held) : FN j X me e' := by
  refine ⟨FA_upd h.1 (JExt.refl h.1.jok) ?_ ?_ ?_ ?_ (fun _ _ _ hw => hw) (fun x hx => h.1.held x (hh x hx)), ?_, ?_⟩
  · intro g hg; rw [hf] at hg; exact Or.inl hg
  · intro g; rw [hf]; exact h.1.nocb g
  · intro g pid hg w hw; rw [hf] at hg; exact Or.inl ⟨hg, hw⟩
  · intro pid ⟨sp, hsp, hd, ht⟩ w hw
    rcases hs sp hsp with h1 | h1 | h1
    · exact Or.inl ⟨⟨sp, h1, hd, ht⟩, hw⟩
    · omega
    · exact absurd ht h1
  · intro g; rw [hf]; exact h.2.1 g
  · intro sp hsp hd
    rcases hs sp hsp with h1 | h1 | h1
    · exact h.2.2 sp h1 hd
    · omega
    · exact h1

theorem FN_push {j : SSt} {X : Nat → Prop} {me : Nat} {e : Eff} (h : FN j X me e) (sp : Spec) (hook : Nat)
    (tagged : Bool) (hd : sp.data = 0 ∨ tagged = true) : FN j X me (e.push sp hook tagged) := by
  refine FN_frame h rfl ?_ (fun x hx => hx)
  intro s hs
  rw [push_specs] at hs
  rcases List.mem_append.mp hs with hs | hs
  · exact Or.inl hs
  · simp only [List.mem_singleton] at hs
    subst hs
    rcases hd with hd | hd
    · exact Or.inr (Or.inl hd)
    · subst hd; exact Or.inr (Or.inr (by simp))

theorem FN_same {j : SSt} {X : Nat → Prop} {me : Nat} {e e' : Eff} (h : FN j X me e)
    (hf : e'.ps.futs = e.ps.futs) (hs : e'.specs = e.specs) (hh : e'.ps.held = e.ps.held) : FN j X me e' :=
  FN_frame h hf (fun sp hsp => Or.inl (hs ▸ hsp)) (fun x hx => hh ▸ hx)

/-- segments of plain futures: no combinator, no rebinding of a slot -/
def PlainAct : Act → Prop
  | .fresh _ => False
  | .anyOf _ _ => False
  | .allOf _ _ => False
  | _ => True

/-- the `r` line of an action -/
def fActLines : Act → List Line
  | .resolve f v => [Line.resolve f v]
  | _ => []

theorem resumed_futs (e : Eff) (now f pid : Nat) (p : Proc) :
    (resumed e now f pid p).ps.futs = futSet e.ps.futs f { futGet e.ps.futs f with parked := none } := rfl
theorem resumed_specs (e : Eff) (now f pid : Nat) (p : Proc) :
    (resumed e now f pid p).specs = e.specs ++ [contSpec p pid now] := rfl
theorem resumed_held (e : Eff) (now f pid : Nat) (p : Proc) : (resumed e now f pid p).ps.held = e.ps.held := rfl
theorem setFut_specs' (e : Eff) (f : Nat) (x : Fut) : (e.setFut f x).specs = e.specs := rfl
theorem setFut_held' (e : Eff) (f : Nat) (x : Fut) : (e.setFut f x).ps.held = e.ps.held := rfl

/-- a `resolve` action and its `r` line -/
theorem resolve_FN (now : Nat) (e : Eff) (f : Nat) (v : Val) (k : Nat) {j : SSt} {X : Nat → Prop} {me : Nat}
    (h : FN j X me e) :
    FN (stepLine j k (.resolve f v)) X me (resolveFut depthFuel e now f v) := by
  obtain ⟨hx, hw, o, hobj, hres⟩ := step_resolve j k f v h.1.jok
  generalize stepLine j k (.resolve f v) = j' at hx hw hobj hres
  have hfuel : depthFuel = 63 + 1 := rfl
  rw [hfuel, resolveFut_succ]
  by_cases hr : (futGet e.ps.futs f).resolved = true
  · simp only [hr, if_true]
    refine ⟨FA_upd h.1 hx (fun g hg => Or.inl hg) h.1.nocb ?_ ?_ ?_ h.1.held, h.2⟩
    · intro g pid hg w hw'; rw [hw] at hw'; exact Or.inl ⟨hg, hw'⟩
    · intro pid hp w hw'; rw [hw] at hw'; exact Or.inl ⟨hp, hw'⟩
    · intro pid _ w hw'; rw [hw] at hw'; exact hw'
  · simp only [hr, Bool.false_eq_true, if_false]
    rw [h.1.nocb f, List.foldl_nil]
    rcases markResolved_cases e now f v with heq | ⟨pid, p, hpk, hp, heq⟩
    · rw [heq]
      refine ⟨FA_upd h.1 hx ?_ ?_ ?_ ?_ ?_ h.1.held, ?_, h.2.2⟩
      · intro g hg
        rw [setFut_futs, futGet_futSet] at hg
        by_cases hgf : g = f
        · subst hgf; exact Or.inr ⟨o, hobj, hres⟩
        · simp only [hgf, if_false] at hg; exact Or.inl hg
      · intro g
        rw [setFut_futs, futGet_futSet]
        by_cases hgf : g = f
        · simp only [hgf, if_true]
        · simp only [hgf, if_false]; exact h.1.nocb g
      · intro g pid hg w hw'
        rw [hw] at hw'
        rw [setFut_futs, futGet_futSet] at hg
        by_cases hgf : g = f
        · subst hgf; simp only [if_true] at hg; exact Or.inl ⟨hg, hw'⟩
        · simp only [hgf, if_false] at hg; exact Or.inl ⟨hg, hw'⟩
      · intro pid hp w hw'; rw [hw] at hw'; exact Or.inl ⟨hp, hw'⟩
      · intro pid _ w hw'; rw [hw] at hw'; exact hw'
      · intro g
        rw [setFut_futs, futGet_futSet]
        by_cases hgf : g = f
        · subst hgf; simp only [if_true]; exact h.2.1 g
        · simp only [hgf, if_false]; exact h.2.1 g
    · rw [heq]
      have hpm : pid ≠ me := by
        intro hpm; subst hpm; exact h.2.1 f hpk
      have hget : ∀ g, futGet (resumed (e.setFut f { futGet e.ps.futs f with resolved := true, value := v, cbs := [] }) now f pid p).ps.futs g =
          if g = f then { futGet e.ps.futs f with resolved := true, value := v, cbs := [], parked := none }
          else futGet e.ps.futs g := by
        intro g
        rw [resumed_futs, setFut_futs, futGet_futSet]
        by_cases hgf : g = f
        · simp only [hgf, if_true, futGet_futSet_same]
        · simp only [hgf, if_false]; rw [futGet_futSet_ne _ _ _ _ hgf]
      refine ⟨FA_upd h.1 hx ?_ ?_ ?_ ?_ ?_ h.1.held, ?_, ?_⟩
      · intro g hg
        rw [hget] at hg
        by_cases hgf : g = f
        · subst hgf; exact Or.inr ⟨o, hobj, hres⟩
        · simp only [hgf, if_false] at hg; exact Or.inl hg
      · intro g
        rw [hget]
        by_cases hgf : g = f
        · simp only [hgf, if_true]
        · simp only [hgf, if_false]; exact h.1.nocb g
      · intro g q hg w hw'
        rw [hw] at hw'
        rw [hget] at hg
        by_cases hgf : g = f
        · simp only [hgf, if_true] at hg; cases hg
        · simp only [hgf, if_false] at hg; exact Or.inl ⟨hg, hw'⟩
      · intro q ⟨sp, hsp, hd, ht⟩ w hw'
        rw [hw] at hw'
        rw [resumed_specs, setFut_specs'] at hsp
        rcases List.mem_append.mp hsp with hsp | hsp
        · exact Or.inl ⟨⟨sp, hsp, hd, ht⟩, hw'⟩
        · simp only [List.mem_singleton] at hsp
          subst hsp
          have hq : q = pid := by simp [contSpec] at hd; omega
          subst hq
          right
          have h1 := hx.obj f _ (h.1.park f q hpk w hw')
          rw [hobj] at h1
          simp only [Option.some.injEq] at h1
          rw [← h1]; exact hres
      · intro q _ w hw'; rw [hw] at hw'; exact hw'
      · intro g
        rw [hget]
        by_cases hgf : g = f
        · simp only [hgf, if_true]; simp
        · simp only [hgf, if_false]; exact h.2.1 g
      · intro sp hsp hd
        rw [resumed_specs, setFut_specs'] at hsp
        rcases List.mem_append.mp hsp with hsp | hsp
        · exact h.2.2 sp hsp hd
        · simp only [List.mem_singleton] at hsp
          subst hsp
          simp [contSpec] at hd
          omega

theorem runAct_FN (now : Nat) (e : Eff) (a : Act) (k : Nat) {j : SSt} {X : Nat → Prop} {me : Nat}
    (hp : PlainAct a) (h : FN j X me e) : FN (foldFrom k (fActLines a) j) X me (runAct now e a) := by
  cases a with
  | emit tgt kind delay daemon hook => exact FN_push h _ _ _ (Or.inl rfl)
  | emitPast tgt kind back daemon => exact FN_push h _ _ _ (Or.inl rfl)
  | emitAbs tgt kind time daemon => exact FN_push h _ _ _ (Or.inl rfl)
  | release i =>
    show FN j X me (runAct now e (.release i))
    simp only [runAct]
    split
    · exact h
    · rename_i i' sp hf
      have hm := List.mem_of_find?_eq_some hf
      refine FN_frame h rfl ?_ (fun x hx => (List.mem_filter.mp hx).1)
      intro s hs
      rcases List.mem_append.mp hs with hs | hs
      · exact Or.inl hs
      · simp only [List.mem_singleton] at hs
        subst hs
        exact Or.inr (Or.inl (h.1.held _ hm))
  | cancel kind =>
    show FN j X me (runAct now e (.cancel kind))
    simp only [runAct]
    split
    · exact FN_same h rfl rfl rfl
    · exact h
  | resolve f v => exact resolve_FN now e f v k h
  | anyOf f gs => exact False.elim hp
  | allOf f gs => exact False.elim hp
  | fresh f => exact False.elim hp
  | crash x => exact FN_same h rfl rfl rfl
  | restore x => exact FN_same h rfl rfl rfl
  | addHook kind hook =>
    show FN j X me (runAct now e (.addHook kind hook))
    simp only [runAct]
    split
    · unfold addHookTo
      split
      · exact FN_same h rfl rfl rfl
      · exact FN_same h rfl rfl rfl
    · exact h
  | metric x abs v => exact FN_same h rfl rfl rfl
  | relay tgt kind delay limit daemon =>
    show FN j X me (runAct now e (.relay tgt kind delay limit daemon))
    simp only [runAct]
    split
    · exact FN_same (FN_push h (⟨now + delay, tgt, kind, daemon, 0, 0⟩ : Spec) 0 true (Or.inl rfl)) rfl rfl rfl
    · exact h

theorem acts_FN (now : Nat) (acts : List Act) {X : Nat → Prop} {me : Nat} :
    ∀ (e : Eff) (j : SSt) (k : Nat), (∀ a ∈ acts, PlainAct a) → FN j X me e →
      FN (foldFrom k (acts.flatMap fActLines) j) X me (acts.foldl (runAct now) e) := by
  induction acts with
  | nil => intro e j k _ h; exact h
  | cons a r ih =>
    intro e j k hp h
    rw [List.flatMap_cons, foldFrom_append, List.foldl_cons]
    exact ih _ _ _ (fun b hb => hp b (List.mem_cons_of_mem _ hb)) (runAct_FN now e a k (hp a (by simp)) h)


/-! ## terminators and segments -/

theorem runHooks_FN (now : Nat) (hooks : List Nat) (e : Eff) {j : SSt} {X : Nat → Prop} {me : Nat}
    (h : FN j X me e) : FN j X me (runHooks now e hooks) := by
  unfold runHooks
  apply foldl_closed (P := FN j X me) _ _ _ _ h
  intro e' hk h'
  have h2 : FN j X me (addObs e' (.hook now hk)) := FN_same h' rfl rfl rfl
  exact FN_push h2 (⟨now, 0, 1000 + hk, false, 0, 0⟩ : Spec) 0 true (Or.inl rfl)

/-- `yield future` and its `w` line -/
theorem yieldF_FA (now : Nat) (e1 : Eff) (pid : Nat) (p1 : Proc) (rest : List Seg) (f k : Nat) (dm : Bool)
    {j : SSt} {X : Nat → Prop} (h : FN j X pid e1) (hX : ¬ X pid) :
    FA (segTerm now e1 pid p1 rest (.yieldF f)) (stepLine j k (.wait pid f dm)) X := by
  obtain ⟨hx, o, hw, hobj⟩ := step_wait j k pid f dm h.1.jok
  generalize stepLine j k (.wait pid f dm) = j' at hx hw hobj
  have hfq : ∀ q, q ≠ pid → j'.waits.find? (fun w => w.1 == q) = j.waits.find? (fun w => w.1 == q) := by
    intro q hq
    have : (pid == q) = false := by simp; omega
    rw [hw, List.find?_cons]; simp only [this]
  have hfp : j'.waits.find? (fun w => w.1 == pid) = some (pid, o, k) := by
    rw [hw, List.find?_cons]; simp
  simp only [segTerm]
  generalize he2 : e1.setProc pid { p1 with segs := rest } = e2
  have hf2 : e2.ps.futs = e1.ps.futs := by subst he2; rfl
  have hs2 : e2.specs = e1.specs := by subst he2; rfl
  have hh2 : e2.ps.held = e1.ps.held := by subst he2; rfl
  have hget3 : ∀ g, futGet (e2.setFut f { futGet e2.ps.futs f with parked := some pid }).ps.futs g =
      if g = f then { futGet e1.ps.futs f with parked := some pid } else futGet e1.ps.futs g := by
    intro g
    rw [setFut_futs, futGet_futSet, hf2]
  -- what is inherited
  have hparkOld : ∀ g q, g ≠ f → (futGet e1.ps.futs g).parked = some q →
      ∀ w, j'.waits.find? (fun w => w.1 == q) = some w →
        ((futGet e1.ps.futs g).parked = some q ∧ j.waits.find? (fun w => w.1 == q) = some w) ∨
        j'.obj g = some w.2.1 := by
    intro g q _ hg w hw'
    have hq : q ≠ pid := by intro hq; subst hq; exact h.2.1 g hg
    rw [hfq q hq] at hw'
    exact Or.inl ⟨hg, hw'⟩
  have hpendOld : ∀ q, (∃ sp ∈ e1.specs, sp.data = q + 1 ∧ sp.tag = 0) →
      ∀ w, j'.waits.find? (fun w => w.1 == q) = some w →
        ((∃ sp ∈ e1.specs, sp.data = q + 1 ∧ sp.tag = 0) ∧ j.waits.find? (fun w => w.1 == q) = some w) ∨
        (resOf j' w.2.1).isSome = true := by
    intro q hq w hw'
    have hqp : q ≠ pid := by
      intro heq; subst heq
      obtain ⟨sp, hsp, hd, ht⟩ := hq
      exact h.2.2 sp hsp hd ht
    rw [hfq q hqp] at hw'
    exact Or.inl ⟨hq, hw'⟩
  have hXold : ∀ q, X q → ∀ w, j'.waits.find? (fun w => w.1 == q) = some w →
      j.waits.find? (fun w => w.1 == q) = some w := by
    intro q hq w hw'
    have hqp : q ≠ pid := by intro heq; subst heq; exact hX hq
    rw [hfq q hqp] at hw'; exact hw'
  have hB : FA (e2.setFut f { futGet e2.ps.futs f with parked := some pid }) j' X := by
    refine FA_upd h.1 hx ?_ ?_ ?_ ?_ hXold ?_
    · intro g hg
      rw [hget3] at hg
      by_cases hgf : g = f
      · subst hgf; simp only [if_true] at hg; exact Or.inl hg
      · simp only [hgf, if_false] at hg; exact Or.inl hg
    · intro g
      rw [hget3]
      by_cases hgf : g = f
      · subst hgf; simp only [if_true]; exact h.1.nocb g
      · simp only [hgf, if_false]; exact h.1.nocb g
    · intro g q hg w hw'
      rw [hget3] at hg
      by_cases hgf : g = f
      · subst hgf
        simp only [if_true, Option.some.injEq] at hg
        subst hg
        rw [hfp] at hw'
        simp only [Option.some.injEq] at hw'
        subst hw'
        exact Or.inr hobj
      · simp only [hgf, if_false] at hg
        exact hparkOld g q hgf hg w hw'
    · intro q hq w hw'
      have hq' : ∃ sp ∈ e1.specs, sp.data = q + 1 ∧ sp.tag = 0 := by
        obtain ⟨sp, hsp, hd⟩ := hq
        exact ⟨sp, by rw [← hs2]; exact hsp, hd⟩
      exact hpendOld q hq' w hw'
    · intro x hx'
      have : x ∈ e1.ps.held := by rw [← hh2]; exact hx'
      exact h.1.held x this
  split
  · rename_i hr
    rw [hf2] at hr
    cases hq : (e2.setFut f { futGet e2.ps.futs f with parked := some pid }).ps.procs[pid]? with
    | none =>
      rw [resumeParked_noproc _ now f pid (by rw [hget3]; simp) hq]
      exact hB
    | some p' =>
      rw [resumeParked_some _ now f pid p' (by rw [hget3]; simp) hq]
      have hget4 : ∀ g, futGet (resumed (e2.setFut f { futGet e2.ps.futs f with parked := some pid }) now f pid p').ps.futs g =
          if g = f then { futGet e1.ps.futs f with parked := none } else futGet e1.ps.futs g := by
        intro g
        rw [resumed_futs, futGet_futSet]
        by_cases hgf : g = f
        · simp only [hgf, if_true, hget3]
        · simp only [hgf, if_false, hget3]
      refine FA_upd h.1 hx ?_ ?_ ?_ ?_ hXold ?_
      · intro g hg
        rw [hget4] at hg
        by_cases hgf : g = f
        · subst hgf; simp only [if_true] at hg; exact Or.inl hg
        · simp only [hgf, if_false] at hg; exact Or.inl hg
      · intro g
        rw [hget4]
        by_cases hgf : g = f
        · subst hgf; simp only [if_true]; exact h.1.nocb g
        · simp only [hgf, if_false]; exact h.1.nocb g
      · intro g q hg w hw'
        rw [hget4] at hg
        by_cases hgf : g = f
        · simp only [hgf, if_true] at hg; cases hg
        · simp only [hgf, if_false] at hg
          exact hparkOld g q hgf hg w hw'
      · intro q ⟨sp, hsp, hd, ht⟩ w hw'
        rw [resumed_specs, setFut_specs', hs2] at hsp
        rcases List.mem_append.mp hsp with hsp | hsp
        · exact hpendOld q ⟨sp, hsp, hd, ht⟩ w hw'
        · simp only [List.mem_singleton] at hsp
          subst hsp
          have hqp : q = pid := by simp [contSpec] at hd; omega
          subst hqp
          rw [hfp] at hw'
          simp only [Option.some.injEq] at hw'
          subst hw'
          right
          obtain ⟨o0, ho0, hr0⟩ := h.1.res f hr
          have h1 := hx.obj f o0 ho0
          rw [hobj] at h1
          simp only [Option.some.injEq] at h1
          show (resOf j' o).isSome = true
          rw [h1]; exact hx.res o0 hr0
      · intro x hx'
        have : x ∈ e1.ps.held := by
          rw [resumed_held, setFut_held', hh2] at hx'; exact hx'
        exact h.1.held x this
  · exact hB

/-- the `r` lines of the segment process `pid` runs next (in action order) -/
def resLines (e : Eff) (pid : Nat) : List Line :=
  match e.ps.procs[pid]? with
  | some p =>
    match p.segs with
    | seg :: _ => seg.acts.flatMap fActLines
    | [] => []
  | none => []

def PlainSeg (seg : Seg) : Prop := ∀ a ∈ seg.acts, PlainAct a

theorem runSegment_FA (now : Nat) (e : Eff) (pid tag k : Nat) {j : SSt} {X : Nat → Prop}
    (hpl : ∀ p, e.ps.procs[pid]? = some p → ∀ seg ∈ p.segs, PlainSeg seg)
    (h : FN j X pid e) (hX : ¬ X pid) :
    FA (runSegment now e pid tag) (foldFrom k (resLines e pid ++ termLines e pid) j) X := by
  cases hp : e.ps.procs[pid]? with
  | none =>
    have h1 : resLines e pid = [] := by simp [resLines, hp]
    have h2 : termLines e pid = [] := by simp [termLines, hp]
    rw [runSegment_noproc now e pid tag hp, h1, h2]; exact h.1
  | some p =>
    cases hs : p.segs with
    | nil =>
      have h1 : resLines e pid = [] := by simp [resLines, hp, hs]
      have h2 : termLines e pid = [] := by simp [termLines, hp, hs]
      have : runSegment now e pid tag = e := by simp [runSegment, hp, hs]
      rw [this, h1, h2]; exact h.1
    | cons seg rest =>
      have h1 : resLines e pid = seg.acts.flatMap fActLines := by simp [resLines, hp, hs]
      rw [runSegment_eq now e pid tag p seg rest hp hs, h1, foldFrom_append]
      unfold segBody
      have h0 : FN j X pid (segStart now e pid tag p) := by
        unfold segStart
        split
        · exact FN_same h rfl rfl rfl
        · exact FN_same h rfl rfl rfl
      have hacts := acts_FN now seg.acts _ j k (hpl p hp seg (by rw [hs]; simp)) h0
      cases ht : seg.term with
      | yieldD d =>
        have htl : termLines e pid = [] := by simp [termLines, hp, hs, ht]
        rw [htl]
        simp only [segTerm, foldFrom]
        refine (FN_push (me := pid) ?_ _ _ _ (Or.inr rfl)).1
        exact FN_same hacts rfl rfl rfl
      | yieldF f =>
        have htl : termLines e pid = [Line.wait pid f p.daemon] := by simp [termLines, hp, hs, ht]
        rw [htl]
        exact yieldF_FA now _ pid _ rest f _ p.daemon hacts hX
      | ret =>
        have htl : termLines e pid = [] := by simp [termLines, hp, hs, ht]
        rw [htl]
        simp only [segTerm, foldFrom]
        refine (runHooks_FN (me := pid) now _ _ ?_).1
        exact FN_same hacts rfl rfl rfl

/-- the `r` lines of a handler invocation (same case split as `procEff`) -/
def rsLine (ps : PS) (now : Nat) (ev : Ev) : List Line :=
  if ev.data = 0 then
    match ps.defs.find? (fun d => d.ent == ev.target && d.kind == ev.kind) with
    | none => []
    | some d =>
      resLines (spawn (addObs { ps := ps } (.start now ev.target ev.kind ev.tag)) (newProc ps ev d)) ps.procs.length
  else resLines { ps := ps } (ev.data - 1)

/-- every segment of the handler table and of the live processes is plain -/
structure PP (ps : PS) : Prop where
  defs : ∀ d ∈ ps.defs, ∀ seg ∈ d.segs, PlainSeg seg
  procs : ∀ p ∈ ps.procs, ∀ seg ∈ p.segs, PlainSeg seg

theorem procEff_FA (ps : PS) (now : Nat) (ev : Ev) (k : Nat) {j : SSt} {X : Nat → Prop} (hpp : PP ps)
    (h : FN j X (if ev.data = 0 then ps.procs.length else ev.data - 1) { ps := ps })
    (hX : ¬ X (if ev.data = 0 then ps.procs.length else ev.data - 1)) :
    FA (procEff ps now ev) (foldFrom k (rsLine ps now ev ++ wLine ps now ev) j) X := by
  unfold procEff rsLine wLine
  by_cases hd : ev.data = 0
  · simp only [hd, if_true] at h hX ⊢
    cases hfind : ps.defs.find? (fun d => d.ent == ev.target && d.kind == ev.kind) with
    | none =>
      simp only [List.append_nil, foldFrom]
      refine (runHooks_FN (me := ps.procs.length) now _ _ ?_).1
      exact FN_same h rfl rfl rfl
    | some d =>
      simp only []
      apply runSegment_FA
      · intro p hp seg hseg
        have hp' : (ps.procs ++ [newProc ps ev d])[ps.procs.length]? = some p := hp
        have : p = newProc ps ev d := by simpa using hp'.symm
        subst this
        exact hpp.defs d (List.mem_of_find?_eq_some hfind) seg hseg
      · exact FN_same h rfl rfl rfl
      · exact hX
  · simp only [hd, if_false] at h hX ⊢
    apply runSegment_FA _ _ _ _ _ ?_ h hX
    intro p hp seg hseg
    exact hpp.procs p (List.mem_of_getElem? hp) seg hseg


/-! ## plain segments stay plain -/

theorem PP_same {e e' : Eff} (h : PP e.ps) (hd : e'.ps.defs = e.ps.defs) (hp : e'.ps.procs = e.ps.procs) :
    PP e'.ps := ⟨by rw [hd]; exact h.defs, by rw [hp]; exact h.procs⟩

theorem PP_setProc {e : Eff} (h : PP e.ps) (pid : Nat) (q : Proc) (hq : ∀ seg ∈ q.segs, PlainSeg seg) :
    PP (e.setProc pid q).ps := by
  refine ⟨h.defs, ?_⟩
  intro p hp
  have hp' : p ∈ e.ps.procs.set pid q := hp
  rcases List.mem_or_eq_of_mem_set hp' with hp' | rfl
  · exact h.procs p hp'
  · exact hq

theorem PP_resumeParked {e : Eff} (h : PP e.ps) (now f : Nat) : PP (resumeParked e now f).ps := by
  cases hpk : (futGet e.ps.futs f).parked with
  | none => rw [resumeParked_none e now f hpk]; exact h
  | some pid =>
    cases hp : e.ps.procs[pid]? with
    | none => rw [resumeParked_noproc e now f pid hpk hp]; exact h
    | some p =>
      rw [resumeParked_some e now f pid p hpk hp]
      unfold resumed
      apply PP_setProc
      · exact PP_same (e := e) h rfl rfl
      · exact h.procs p (List.mem_of_getElem? hp)

theorem PP_closed : Closed (fun e => PP e.ps) where
  resolve := by
    intro e now f v h hr
    unfold markResolved
    apply PP_resumeParked
    exact PP_same (e := e) h rfl rfl
  allUpd := fun e c res rem h hr => PP_same (e := e) h rfl rfl
  cbAdd := fun e g cb h hr => PP_same (e := e) h rfl rfl
  bind := fun e f rs rm h => PP_same (e := e) h rfl rfl
  push := fun e sp hook tagged hd h => PP_same (e := e) h rfl rfl
  release := fun e i sp h hm => PP_same (e := e) h rfl rfl
  crashed := fun e l h => PP_same (e := e) h rfl rfl
  cancels := fun e l h => PP_same (e := e) h rfl rfl
  hookLate := fun e pid hook h => PP_same (e := e) h rfl rfl
  hookEarly := fun e id hook h => PP_same (e := e) h rfl rfl
  level := fun e l h => PP_same (e := e) h rfl rfl
  hops := fun e l h => PP_same (e := e) h rfl rfl
  obs := fun e o ho h => PP_same (e := e) h rfl rfl

theorem runSegment_PP (now : Nat) (e : Eff) (pid tag : Nat) (h : PP e.ps) : PP (runSegment now e pid tag).ps := by
  cases hp : e.ps.procs[pid]? with
  | none => rw [runSegment_noproc now e pid tag hp]; exact h
  | some p =>
    cases hs : p.segs with
    | nil =>
      have : runSegment now e pid tag = e := by simp [runSegment, hp, hs]
      rw [this]; exact h
    | cons seg rest =>
      rw [runSegment_eq now e pid tag p seg rest hp hs]
      unfold segBody
      have hpseg : ∀ x ∈ p.segs, PlainSeg x := h.procs p (List.mem_of_getElem? hp)
      have hrest : ∀ x ∈ rest, PlainSeg x := fun x hx => hpseg x (by rw [hs]; exact List.mem_cons_of_mem _ hx)
      have h0 : PP (segStart now e pid tag p).ps := by
        unfold segStart
        have hq : ∀ x ∈ ({ p with started := true, send := Val.none } : Proc).segs, PlainSeg x := hpseg
        split
        · exact PP_same (PP_setProc (e := addObs e (.resume now pid p.send tag)) (PP_same (e := e) h rfl rfl) pid _ hq) rfl rfl
        · exact PP_same (PP_setProc h pid _ hq) rfl rfl
      have h1 := acts_closed PP_closed now seg.acts _ h0
      generalize seg.acts.foldl (runAct now) (segStart now e pid tag p) = e1 at h1
      cases seg.term with
      | yieldD d =>
        simp only [segTerm]
        exact PP_same (PP_setProc h1 pid { p with started := true, send := Val.none, segs := rest } hrest) rfl rfl
      | yieldF f =>
        simp only [segTerm]
        have h2 := PP_setProc h1 pid { p with started := true, send := Val.none, segs := rest } hrest
        have h3 : PP ((e1.setProc pid { p with started := true, send := Val.none, segs := rest }).setFut f
            { futGet (e1.setProc pid { p with started := true, send := Val.none, segs := rest }).ps.futs f with
              parked := some pid }).ps := PP_same h2 rfl rfl
        split
        · exact PP_resumeParked h3 now f
        · exact h3
      | ret =>
        simp only [segTerm]
        apply runHooks_closed PP_closed
        have h2 := PP_setProc h1 pid { p with started := true, send := Val.none, segs := [], done := true, hooks := [] }
          (by intro x hx; simp at hx)
        exact PP_same h2 rfl rfl

theorem procEff_PP (ps : PS) (now : Nat) (ev : Ev) (h : PP ps) : PP (procEff ps now ev).ps := by
  unfold procEff
  by_cases hd : ev.data = 0
  · simp only [hd, if_true]
    cases hfind : ps.defs.find? (fun d => d.ent == ev.target && d.kind == ev.kind) with
    | none =>
      simp only []
      apply runHooks_closed PP_closed
      exact PP_same (e := ({ ps := ps } : Eff)) h rfl rfl
    | some d =>
      simp only []
      apply runSegment_PP
      refine ⟨h.defs, ?_⟩
      intro p hp
      have hp' : p ∈ ps.procs ++ [newProc ps ev d] := hp
      rcases List.mem_append.mp hp' with hp' | hp'
      · exact h.procs p hp'
      · simp only [List.mem_singleton] at hp'
        subst hp'
        exact h.defs d (List.mem_of_find?_eq_some hfind)
  · simp only [hd, if_false]
    exact runSegment_PP now _ _ _ h

/-! ## the link at the level of a run -/

/-- the `R`, `r` and `w` lines of one delivery: the resumption, the futures the segment resolves (in action
    order), the future it ends by yielding -/
def futLines (s : St PS) (m : Ev) : List Line :=
  rLine s.ent m ++ (rsLine s.ent m.time m ++ wLine s.ent m.time m)

def fviewStep (s : St PS) (ls : List Line) (m : Ev) : List Line :=
  if s.cancelled.contains m.id then ls
  else if m.time < s.now then ls
  else if procMachine.crashed s.ent m then ls
  else ls ++ futLines s m

def fviewRun (endT : Option Nat) : Nat → St PS → List Line → List Line
  | 0, _, ls => ls
  | n+1, s, ls =>
    match s.heap with
    | [] => ls
    | x :: xs =>
      if continues endT s then fviewRun endT n (stepWith procMachine s (minOf x xs)) (fviewStep s ls (minOf x xs))
      else ls

/-- the `R` / `r` / `w` lines of the trace of a run from `s0` -/
def futView (endT : Option Nat) (n : Nat) (s0 : St PS) : List Line := fviewRun endT n s0 []

/-- `q` has an untagged continuation in the heap -/
def XH (heap : List Ev) (q : Nat) : Prop := ∃ ev ∈ heap, ev.data = q + 1 ∧ ev.tag = 0

structure FI (s : St PS) (ls : List Line) : Prop where
  fa : FA ({ ps := s.ent } : Eff) (foldFrom 0 ls {}) (XH s.heap)
  pp : PP s.ent

theorem FI_skip (s : St PS) (ls : List Line) (m : Ev) (now' a b c prim : Nat) (pp : List (Ev × Verdict))
    (h : FI s ls) :
    FI { s with heap := s.heap.erase m, primary := prim, now := now', processed := a, nCancelled := b,
                nStale := c, popped := pp } ls := by
  refine ⟨FA_monoX h.fa ?_, h.pp⟩
  intro q ⟨ev, he, hd⟩
  exact ⟨ev, List.mem_of_mem_erase he, hd⟩

/-- the `R` line of a delivered event -/
theorem FA_rLine (s : St PS) (m : Ev) (hm : m ∈ s.heap) (pinv : ProcInv s) (j : SSt) (k : Nat)
    (h : FA ({ ps := s.ent } : Eff) j (XH s.heap)) :
    FN (foldFrom k (rLine s.ent m) j) (XH (s.heap.erase m))
      (if m.data = 0 then s.ent.procs.length else m.data - 1) ({ ps := s.ent } : Eff) ∧
    ¬ XH (s.heap.erase m) (if m.data = 0 then s.ent.procs.length else m.data - 1) := by
  have hsub : ∀ q, XH (s.heap.erase m) q → XH s.heap q :=
    fun q ⟨ev, he, hd⟩ => ⟨ev, List.mem_of_mem_erase he, hd⟩
  by_cases hd : m.data = 0
  · simp only [hd, if_true]
    have hr : rLine s.ent m = [] := by simp [rLine, hd]
    rw [hr]
    obtain ⟨f1, f2⟩ := fresh_pid_nothing s pinv
    refine ⟨⟨FA_monoX h hsub, (cntPark_zero _ _).mp f2, by intro sp hsp; simp at hsp⟩, ?_⟩
    intro ⟨ev, he, hdq, _⟩
    have := pinv.heapProc ev (List.mem_of_mem_erase he)
    omega
  · simp only [hd, if_false]
    have hdat : m.data = (m.data - 1) + 1 := by omega
    have h1 := cntHeap_erase_mem s.heap m (m.data - 1) hm
    have h2 := pinv.atMostOne (m.data - 1)
    have hi : ind (m.data == m.data - 1 + 1) = 1 := by simp [ind, ← hdat]
    have hz1 : cntHeap (s.heap.erase m) (m.data - 1) = 0 := by omega
    have hz2 : cntPark s.ent.futs (m.data - 1) = 0 := by omega
    have hnp := (cntPark_zero _ _).mp hz2
    have hnx : ¬ XH (s.heap.erase m) (m.data - 1) := by
      intro ⟨ev, he, hdq, _⟩
      unfold cntHeap at hz1
      rw [List.countP_eq_zero] at hz1
      have := hz1 ev he
      simp [hdq] at this
    refine ⟨⟨?_, hnp, by intro sp hsp; simp at hsp⟩, hnx⟩
    unfold rLine
    simp only [hd, if_false]
    cases hp : s.ent.procs[m.data - 1]? with
    | none => exact FA_monoX h hsub
    | some p =>
      simp only []
      split
      · -- the `R` line
        show FA _ (stepLine j k (Line.resume m.time (m.data - 1) p.send.show m.tag)) _
        obtain ⟨hobjs, hslot, herr, hq, hself⟩ := step_resume j k m.time (m.data - 1) m.tag p.send.show h.ok
          (fun htag w hw => h.pend _ (Or.inl ⟨m, hm, hdat, htag⟩) w hw)
        generalize stepLine j k (Line.resume m.time (m.data - 1) p.send.show m.tag) = j1 at hobjs hslot herr hq hself
        have hobjeq : ∀ g, j1.obj g = j.obj g := by intro g; unfold SSt.obj; rw [hslot]
        have hreseq : ∀ o, resOf j1 o = resOf j o := by intro o; unfold resOf; rw [hobjs]
        refine ⟨⟨by rw [hobjs]; exact h.jok.plain, ?_⟩, ?_, h.nocb, ?_, ?_, h.held, herr⟩
        · intro g o hg; rw [hobjs]; rw [hobjeq] at hg; exact h.jok.rng g o hg
        · intro f hf
          obtain ⟨o, ho, hr⟩ := h.res f hf
          exact ⟨o, by rw [hobjeq]; exact ho, by rw [hreseq]; exact hr⟩
        · intro f q hf w hw
          have hqp : m.tag = 0 → q ≠ m.data - 1 := by
            intro _ heq; subst heq; exact hnp f hf
          rw [hq q hqp] at hw
          rw [hobjeq]; exact h.park f q hf w hw
        · intro q hqx w hw
          rcases hqx with hqx | ⟨sp, hsp, _⟩
          · have hqp : m.tag = 0 → q ≠ m.data - 1 := by
              intro _ heq; subst heq; exact hnx hqx
            rw [hq q hqp] at hw
            rw [hreseq]; exact h.pend q (Or.inl (hsub q hqx)) w hw
          · simp at hsp
      · exact FA_monoX h hsub

theorem FA_close {r : Eff} {j : SSt} {X X' : Nat → Prop} (h : FA r j X)
    (hX' : ∀ q, X' q → X q ∨ ∃ sp ∈ r.specs, sp.data = q + 1 ∧ sp.tag = 0) :
    FA ({ ps := r.ps } : Eff) j X' :=
  ⟨h.jok, h.res, h.nocb, h.park,
   fun pid hp w hw => h.pend pid (by
     rcases hp with hp | ⟨sp, hsp, _⟩
     · exact hX' pid hp
     · simp at hsp) w hw,
   h.held, h.ok⟩

theorem FI_step (s : St PS) (ls : List Line) (m : Ev) (hm : m ∈ s.heap) (pinv : ProcInv s) (h : FI s ls) :
    FI (stepWith procMachine s m) (fviewStep s ls m) := by
  unfold stepWith fviewStep
  simp only []
  split
  · exact FI_skip s _ m _ _ _ _ _ _ h
  · split
    · exact FI_skip s _ m _ _ _ _ _ _ h
    · split
      · exact FI_skip s _ m _ _ _ _ _ _ h
      · have heq := procHandle_eq s.ent m.time m
        have hent : (procMachine.handle s.ent m.time m).ent = (procEff s.ent m.time m).ps := by
          show (procHandle s.ent m.time m).ent = _; rw [heq]
        have hspecs : (procMachine.handle s.ent m.time m).specs = (procEff s.ent m.time m).specs := by
          show (procHandle s.ent m.time m).specs = _; rw [heq]
        obtain ⟨hr1, hr2⟩ := FA_rLine s m hm pinv (foldFrom 0 ls {}) (0 + ls.length) h.fa
        have hpe := procEff_FA s.ent m.time m (0 + ls.length + (rLine s.ent m).length) h.pp hr1 hr2
        have hpp := procEff_PP s.ent m.time m h.pp
        have hfold : foldFrom 0 (ls ++ futLines s m) {} =
            foldFrom (0 + ls.length + (rLine s.ent m).length) (rsLine s.ent m.time m ++ wLine s.ent m.time m)
              (foldFrom (0 + ls.length) (rLine s.ent m) (foldFrom 0 ls {})) := by
          unfold futLines
          rw [foldFrom_append, foldFrom_append]
        generalize procEff s.ent m.time m = r at hent hspecs hpe hpp
        refine ⟨?_, ?_⟩
        · show FA ({ ps := (procMachine.handle s.ent m.time m).ent } : Eff) (foldFrom 0 (ls ++ futLines s m) {})
            (XH (s.heap.erase m ++ mkEvents s.nextId m.time (procMachine.handle s.ent m.time m).specs))
          rw [hent, hspecs, hfold]
          apply FA_close hpe
          intro q ⟨ev, he, hd, ht⟩
          rcases List.mem_append.mp he with he | he
          · exact Or.inl ⟨ev, he, hd, ht⟩
          · obtain ⟨sp, hsp, h1, h2⟩ := mkEvents_full _ _ _ ev he
            exact Or.inr ⟨sp, hsp, by omega, by omega⟩
        · show PP (procMachine.handle s.ent m.time m).ent
          rw [hent]; exact hpp

theorem FI_run (endT : Option Nat) (n : Nat) (s : St PS) (ls : List Line) (pinv : ProcInv s) (h : FI s ls) :
    FI (run procMachine endT n s) (fviewRun endT n s ls) := by
  induction n generalizing s ls with
  | zero => simpa [run, fviewRun]
  | succ n ih =>
    unfold run fviewRun step
    cases hh : s.heap with
    | nil => simpa
    | cons x xs =>
      simp only []
      by_cases hc : continues endT s = true
      · simp only [hc, if_true]
        have hmem : minOf x xs ∈ s.heap := by rw [hh]; exact (pop_is_min x xs).1
        exact ih _ _ (step_procInv s _ pinv hmem) (FI_step s ls _ hmem pinv h)
      · simp only [hc, Bool.false_eq_true, if_false]
        exact h

/-- **`future/resumed-before-resolved` is silent on the trace of the model, plain futures**: for every
    handler table whose segments use no combinator and never rebind a slot (`PP`), every initial state with
    plain pending events and no future resolved yet, every end time and number of iterations, the settle fold
    of the C02 judge over the numbered `R` / `r` / `w` lines of the model's run never raises the clause —
    whenever a process is resumed by a future, the future it waits on (the first outstanding `w` line of
    that process) has an `r` line before the resumption -/
theorem future_before_resolved_silent_on_model_plain (endT : Option Nat) (n : Nat) (s0 : St PS) (h0 : InitOk s0)
    (hpl : PP s0.ent) (hfut : s0.ent.futs = []) :
    ((enum (futView endT n s0)).foldl (fun st p => stepLine st p.1 p.2) {}).err ≠
      some "future/resumed-before-resolved" := by
  rw [fold_enum_eq]
  have hget : ∀ f, futGet s0.ent.futs f = ({} : Fut) := by intro f; rw [hfut]; rfl
  refine (FI_run endT n s0 [] h0.procInv ⟨⟨⟨?_, ?_⟩, ?_, ?_, ?_, ?_, h0.heldPlain, ?_⟩, hpl⟩).fa.ok
  · intro o ho; simp [foldFrom] at ho
  · intro g o hg; simp [foldFrom, SSt.obj] at hg
  · intro f hf; rw [hget] at hf; simp at hf
  · intro f; rw [hget]
  · intro f pid hf; rw [hget] at hf; simp at hf
  · intro pid hp w hw; simp [foldFrom] at hw
  · simp [foldFrom, BR]

/-- a program all of whose segments are plain -/
def Program.PlainFutures (p : Program) : Prop := ∀ d ∈ p.defs, ∀ seg ∈ d.segs, PlainSeg seg

theorem future_before_resolved_silent_on_program_plain (p : Program) (gateCont : Bool) (hp : p.Plain)
    (hf : p.PlainFutures) (endT : Option Nat) (n : Nat) :
    ((enum (futView endT n (p.initState gateCont))).foldl (fun st q => stepLine st q.1 q.2) {}).err ≠
      some "future/resumed-before-resolved" :=
  future_before_resolved_silent_on_model_plain endT n _ (initState_ok p gateCont hp)
    ⟨hf, by intro q hq; have : q ∈ ([] : List Proc) := hq; simp at this⟩ rfl


instance (a : Act) : Decidable (PlainAct a) := by
  cases a <;> simp only [PlainAct] <;> infer_instance
instance (seg : Seg) : Decidable (PlainSeg seg) := by unfold PlainSeg; infer_instance
instance (p : Program) : Decidable p.PlainFutures := by unfold Program.PlainFutures; infer_instance

/-- a key of the `R` / `r` / `w` lines, for examples -/
def futKey : Line → Nat × Nat × Nat
  | .resolve f _ => (1, f, 0)
  | .wait pid f _ => (2, pid, f)
  | .resume clk pid _ tag => (3, clk, pid + 100 * tag)
  | _ => (0, 0, 0)

end HappyModel.C01
