import HappyProofs.C02.NestedAny
import HappyProofs.C02.AllOf
/-!
# C02 — nested `all_of`: inputs may be composites that settle inside a callback cascade
-/
namespace HappyModel.C01
set_option linter.unusedVariables false

/-- input `g` has not been accounted for by `f` yet: unresolved, or resolved with its callback pending -/
def missing (x : Eff) (P : List Nat) (g : Nat) : Bool := !(futGet x.ps.futs g).resolved || P.contains g

/-- the all_of bookkeeping between complete `resolve` calls, except the "something is still missing" part -/
structure AllCore (rk : Nat → Nat) (f : Nat) (gs : List Nat) (P : List Nat) (x : Eff) : Prop where
  rank : RankOk rk x
  nodup : gs.Nodup
  notin : f ∉ gs
  inp : ∀ i (hi : i < gs.length), (futGet x.ps.futs gs[i]).resolved = false →
    (futGet x.ps.futs gs[i]).cbs.countP (fun cb => cb.tgt == f) = 1 ∧
    ∀ cb ∈ (futGet x.ps.futs gs[i]).cbs, cb.tgt = f → cb = .allCb f i
  oth : ∀ g, g ∉ gs → ∀ cb ∈ (futGet x.ps.futs g).cbs, cb.tgt ≠ f
  pres : ∀ g ∈ P, (futGet x.ps.futs g).resolved = true
  len : (futGet x.ps.futs f).results.length = gs.length
  A : (futGet x.ps.futs f).resolved = false → (futGet x.ps.futs f).remaining = gs.countP (missing x P)
  B : (futGet x.ps.futs f).resolved = false → ∀ i (hi : i < gs.length),
    (futGet x.ps.futs gs[i]).resolved = true → gs[i] ∉ P →
    (futGet x.ps.futs f).results[i]? = some (futGet x.ps.futs gs[i]).value
  C : (futGet x.ps.futs f).resolved = true → (∀ g ∈ gs, (futGet x.ps.futs g).resolved = true) ∧
    (futGet x.ps.futs f).value = .list (gs.map (fun g => (futGet x.ps.futs g).value))

structure AllInv (rk : Nat → Nat) (f : Nat) (gs : List Nat) (P : List Nat) (x : Eff) : Prop
    extends AllCore rk f gs P x where
  D : (futGet x.ps.futs f).resolved = false → P = [] → 1 ≤ (futGet x.ps.futs f).remaining

theorem map_value_later {x x' : Eff} (hl : Later x x') (gs : List Nat)
    (hall : ∀ g ∈ gs, (futGet x.ps.futs g).resolved = true) :
    gs.map (fun g => (futGet x'.ps.futs g).value) = gs.map (fun g => (futGet x.ps.futs g).value) := by
  apply List.map_congr_left
  intro g hg
  exact (hl.res g (hall g hg)).2

/-- transport of the static part along `Later`, when `f`'s record is untouched -/
theorem AllCore_later_static {rk : Nat → Nat} {f : Nat} {gs P : List Nat} {x x' : Eff}
    (h : AllCore rk f gs P x) (hl : Later x x') :
    RankOk rk x' ∧
    (∀ i (hi : i < gs.length), (futGet x'.ps.futs gs[i]).resolved = false →
      (futGet x.ps.futs gs[i]).resolved = false ∧
      (futGet x'.ps.futs gs[i]).cbs.countP (fun cb => cb.tgt == f) = 1 ∧
      ∀ cb ∈ (futGet x'.ps.futs gs[i]).cbs, cb.tgt = f → cb = .allCb f i) ∧
    (∀ g, g ∉ gs → ∀ cb ∈ (futGet x'.ps.futs g).cbs, cb.tgt ≠ f) := by
  refine ⟨RankOk_later h.rank hl, ?_, ?_⟩
  · intro i hi hun
    have hunx : (futGet x.ps.futs gs[i]).resolved = false := by
      cases hr : (futGet x.ps.futs gs[i]).resolved with
      | false => rfl
      | true => have := (hl.res _ hr).1; rw [hun] at this; simp at this
    rcases hl.cbs gs[i] with h1 | ⟨_, h1⟩
    · rw [h1]; exact ⟨hunx, h.inp i hi hunx⟩
    · rw [hun] at h1; simp at h1
  · intro g hg cb hcb
    rcases hl.cbs g with h1 | ⟨h1, _⟩
    · rw [h1] at hcb; exact h.oth g hg cb hcb
    · rw [h1] at hcb; simp at hcb

/-- a future other than `f` resolves (an input becomes pending, anything else changes nothing) -/
theorem AllInv_mark {rk : Nat → Nat} {f : Nat} {gs P : List Nat} {x : Eff} (h : AllInv rk f gs P x)
    (now g : Nat) (w : Val) (hun : (futGet x.ps.futs g).resolved = false) (hgf : g ≠ f) :
    AllInv rk f gs (if g ∈ gs then g :: P else P) (markResolved x now g w) := by
  have hl := Later_mark x now g w hun
  have hf := markResolved_futGet_ne x now g f w (Ne.symm hgf)
  have ⟨s1, s2, s3⟩ := AllCore_later_static h.toAllCore hl
  have hoth : ∀ g', g' ≠ g → futGet (markResolved x now g w).ps.futs g' = futGet x.ps.futs g' :=
    fun g' hg' => markResolved_futGet_ne x now g g' w hg'
  have hgP : g ∉ P := fun hm => by have := h.pres g hm; rw [hun] at this; simp at this
  have hmiss : ∀ g' ∈ gs, missing (markResolved x now g w) (if g ∈ gs then g :: P else P) g' = missing x P g' := by
    intro g' hg'
    unfold missing
    by_cases heq : g' = g
    · subst heq
      simp [hg', hun]
    · rw [hoth g' heq]
      by_cases hgs : g ∈ gs
      · simp [hgs, heq]
      · simp [hgs]
  refine ⟨⟨s1, h.nodup, h.notin, fun i hi hu => (s2 i hi hu).2, s3, ?_, by rw [hf]; exact h.len, ?_, ?_, ?_⟩, ?_⟩
  · intro g' hg'
    by_cases hgs : g ∈ gs
    · simp only [hgs, if_true, List.mem_cons] at hg'
      rcases hg' with rfl | hg'
      · exact (markResolved_futGet_same x now g' w).1
      · exact (hl.res g' (h.pres g' hg')).1
    · simp only [hgs, if_false] at hg'
      exact (hl.res g' (h.pres g' hg')).1
  · intro hfu
    rw [hf] at hfu ⊢
    rw [h.A hfu]
    exact (List.countP_congr (fun g' hg' => by rw [hmiss g' hg'])).symm
  · intro hfu i hi hr hP
    rw [hf] at hfu ⊢
    have hne : gs[i] ≠ g := by
      intro heq
      have hgs : g ∈ gs := heq ▸ List.getElem_mem hi
      simp [hgs, heq] at hP
    rw [hoth _ hne] at hr ⊢
    have hP' : gs[i] ∉ P := by
      by_cases hgs : g ∈ gs
      · simp only [hgs, if_true, List.mem_cons, not_or] at hP; exact hP.2
      · simpa [hgs] using hP
    exact h.B hfu i hi hr hP'
  · intro hfr
    rw [hf] at hfr ⊢
    have ⟨c1, c2⟩ := h.C hfr
    exact ⟨fun g' hg' => (hl.res g' (c1 g' hg')).1, by rw [c2, map_value_later hl gs c1]⟩
  · intro hfu hPe
    rw [hf] at hfu ⊢
    by_cases hgs : g ∈ gs
    · simp [hgs] at hPe
    · simp only [hgs, if_false] at hPe
      exact h.D hfu hPe

theorem AllInv_allUpd {rk : Nat → Nat} {f : Nat} {gs P : List Nat} {x : Eff} (h : AllInv rk f gs P x)
    (c : Nat) (hc : c ≠ f) (res : List Val) (rem : Nat) :
    AllInv rk f gs P (x.setFut c { futGet x.ps.futs c with results := res, remaining := rem }) := by
  have hl := Later_allUpd x c res rem
  have ⟨s1, s2, s3⟩ := AllCore_later_static h.toAllCore hl
  have hf : futGet (x.setFut c { futGet x.ps.futs c with results := res, remaining := rem }).ps.futs f
      = futGet x.ps.futs f := by simp [futGet_futSet, Ne.symm hc]
  have hsame : ∀ g, (futGet (x.setFut c { futGet x.ps.futs c with results := res, remaining := rem }).ps.futs g).resolved
      = (futGet x.ps.futs g).resolved ∧
      (futGet (x.setFut c { futGet x.ps.futs c with results := res, remaining := rem }).ps.futs g).value
      = (futGet x.ps.futs g).value := by
    intro g
    simp only [setFut_futs, futGet_futSet]; split
    · rename_i hh; subst hh; exact ⟨rfl, rfl⟩
    · exact ⟨rfl, rfl⟩
  have hmiss : ∀ g, missing (x.setFut c { futGet x.ps.futs c with results := res, remaining := rem }) P g
      = missing x P g := by
    intro g; unfold missing; rw [(hsame g).1]
  refine ⟨⟨s1, h.nodup, h.notin, fun i hi hu => (s2 i hi hu).2, s3, ?_, by rw [hf]; exact h.len, ?_, ?_, ?_⟩, ?_⟩
  · intro g hg; rw [(hsame g).1]; exact h.pres g hg
  · intro hfu; rw [hf] at hfu ⊢; rw [h.A hfu]
    exact (List.countP_congr (fun g' _ => by rw [hmiss g'])).symm
  · intro hfu i hi hr hP
    rw [hf] at hfu ⊢; rw [(hsame _).1] at hr; rw [(hsame _).2]
    exact h.B hfu i hi hr hP
  · intro hfr
    rw [hf] at hfr ⊢
    have ⟨c1, c2⟩ := h.C hfr
    refine ⟨fun g' hg' => by rw [(hsame g').1]; exact c1 g' hg', ?_⟩
    rw [c2]; congr 1
    exact List.map_congr_left (fun g' _ => (hsame g').2.symm)
  · intro hfu hPe; rw [hf] at hfu ⊢; exact h.D hfu hPe

theorem AllInv_drop {rk : Nat → Nat} {f : Nat} {gs P : List Nat} {x : Eff} {g : Nat} (h : AllInv rk f gs (g :: P) x)
    (hr : (futGet x.ps.futs f).resolved = true) : AllInv rk f gs P x := by
  refine ⟨⟨h.rank, h.nodup, h.notin, h.inp, h.oth, fun g' hg' => h.pres g' (List.mem_cons_of_mem _ hg'),
    h.len, ?_, ?_, h.C⟩, ?_⟩
  · intro hfu; rw [hr] at hfu; simp at hfu
  · intro hfu; rw [hr] at hfu; simp at hfu
  · intro hfu; rw [hr] at hfu; simp at hfu

/-- `f` resolves, once nothing is missing, with its slots -/
theorem AllInv_mark_f {rk : Nat → Nat} {f : Nat} {gs P : List Nat} {x : Eff} (h : AllCore rk f gs P x)
    (now : Nat) (hun : (futGet x.ps.futs f).resolved = false) (hrem : (futGet x.ps.futs f).remaining = 0) :
    AllInv rk f gs P (markResolved x now f (.list (futGet x.ps.futs f).results)) := by
  have hl := Later_mark x now f (.list (futGet x.ps.futs f).results) hun
  have ⟨s1, s2, s3⟩ := AllCore_later_static h hl
  have hs := markResolved_futGet_same x now f (.list (futGet x.ps.futs f).results)
  have hz : gs.countP (missing x P) = 0 := by rw [← h.A hun]; exact hrem
  rw [List.countP_eq_zero] at hz
  have hall : ∀ g ∈ gs, (futGet x.ps.futs g).resolved = true ∧ g ∉ P := by
    intro g hg
    have := hz g hg
    unfold missing at this
    simp only [Bool.or_eq_true, Bool.not_eq_eq_eq_not, Bool.not_true, List.contains_eq_mem,
      decide_eq_true_eq, not_or] at this
    exact ⟨by simpa using this.1, this.2⟩
  have hne : ∀ g ∈ gs, g ≠ f := fun g hg heq => h.notin (heq ▸ hg)
  refine ⟨⟨s1, h.nodup, h.notin, fun i hi hu => (s2 i hi hu).2, s3,
    fun g hg => (hl.res g (h.pres g hg)).1, by rw [hs.2.2.2.1]; exact h.len, ?_, ?_, ?_⟩, ?_⟩
  · intro hfu; rw [hs.1] at hfu; simp at hfu
  · intro hfu; rw [hs.1] at hfu; simp at hfu
  · intro _
    refine ⟨fun g hg => (hl.res g (hall g hg).1).1, ?_⟩
    rw [hs.2.1]; congr 1
    apply List.ext_getElem?
    intro j
    by_cases hj : j < gs.length
    · have hg := List.getElem_mem hj
      rw [h.B hun j hj (hall _ hg).1 (hall _ hg).2]
      simp only [List.getElem?_map, List.getElem?_eq_getElem hj, Option.map_some]
      rw [(hl.res _ (hall _ hg).1).2]
    · have h1 : gs.length ≤ j := by omega
      rw [List.getElem?_eq_none (by rw [h.len]; exact h1), List.getElem?_eq_none (by simp; exact h1)]
  · intro hfu; rw [hs.1] at hfu; simp at hfu

/-- `f`'s record after the callback of input `i` stored `v` -/
def slotFut (x : Eff) (f i : Nat) (v : Val) : Fut :=
  { futGet x.ps.futs f with results := (futGet x.ps.futs f).results.set i v, remaining := (futGet x.ps.futs f).remaining - 1 }

/-- the slot update made by the callback of the pending input `gs[i]` (resolved with `v`) -/
theorem AllCore_slot {rk : Nat → Nat} {f : Nat} {gs P : List Nat} {x : Eff} (i : Nat) (hi : i < gs.length)
    (v : Val) (h : AllInv rk f gs (gs[i] :: P) x) (hP : gs[i] ∉ P)
    (hun : (futGet x.ps.futs f).resolved = false)
    (hri : (futGet x.ps.futs gs[i]).resolved = true) (hvi : (futGet x.ps.futs gs[i]).value = v) :
    AllCore rk f gs P (x.setFut f (slotFut x f i v)) ∧
    (futGet x.ps.futs f).remaining = gs.countP (missing x P) + 1 := by
  have hl := Later_allUpd x f ((futGet x.ps.futs f).results.set i v) ((futGet x.ps.futs f).remaining - 1)
  have ⟨s1, s2, s3⟩ := AllCore_later_static h.toAllCore hl
  have hne : ∀ g ∈ gs, g ≠ f := fun g hg heq => h.notin (heq ▸ hg)
  have hx'0 : x.setFut f (slotFut x f i v) = x.setFut f { futGet x.ps.futs f with
      results := (futGet x.ps.futs f).results.set i v, remaining := (futGet x.ps.futs f).remaining - 1 } := rfl
  rw [hx'0]
  generalize hx' : x.setFut f { futGet x.ps.futs f with
      results := (futGet x.ps.futs f).results.set i v, remaining := (futGet x.ps.futs f).remaining - 1 } = x' at *
  have hff : futGet x'.ps.futs f = slotFut x f i v := by subst hx'; simp [futGet_futSet, slotFut]
  have hoth : ∀ g, g ≠ f → futGet x'.ps.futs g = futGet x.ps.futs g := by
    intro g hg; subst hx'; simp [futGet_futSet, hg]
  have hcount : gs.countP (missing x P) + 1 = gs.countP (missing x (gs[i] :: P)) := by
    apply countP_flip_one gs gs[i] _ _ h.nodup (List.getElem_mem hi)
    · simp [missing]
    · simp [missing, hri, hP]
    · intro g hg; simp [missing, hg]
  have hrem : (futGet x.ps.futs f).remaining = gs.countP (missing x P) + 1 := by rw [h.A hun, hcount]
  have hmiss : ∀ g ∈ gs, missing x' P g = missing x P g := by
    intro g hg; unfold missing; rw [hoth g (hne g hg)]
  refine ⟨⟨s1, h.nodup, h.notin, fun j hj hu => (s2 j hj hu).2, s3, ?_, ?_, ?_, ?_, ?_⟩, hrem⟩
  · intro g hg
    have hgf : g ≠ f := by
      intro heq; subst heq
      have := h.pres g (List.mem_cons_of_mem _ hg); rw [hun] at this; simp at this
    rw [hoth g hgf]; exact h.pres g (List.mem_cons_of_mem _ hg)
  · rw [hff]; simp [slotFut, h.len]
  · intro _
    rw [hff]; simp only [slotFut]
    have hc : gs.countP (missing x' P) = gs.countP (missing x P) :=
      List.countP_congr (fun g hg => by rw [hmiss g hg])
    rw [hrem, hc]
    omega
  · intro _ j hj hr hPj
    have hgj := List.getElem_mem hj
    rw [hoth _ (hne _ hgj)] at hr ⊢
    rw [hff]; simp only [slotFut]
    by_cases hji : j = i
    · subst hji
      rw [hvi]
      have : j < (futGet x.ps.futs f).results.length := by rw [h.len]; exact hj
      simp [this]
    · rw [List.getElem?_set_ne (Ne.symm hji)]
      have hne' : gs[j] ≠ gs[i] := fun heq => hji ((List.getElem_inj h.nodup).mp heq)
      exact h.B hun j hj hr (by simp [hne', hPj])
  · intro hfr; rw [hff] at hfr; simp only [slotFut] at hfr; rw [hun] at hfr; simp at hfr

/-- what complete `resolve` calls with fuel `n` do to the all_of bookkeeping -/
structure AllClaim (rk : Nat → Nat) (f : Nat) (gs : List Nat) (now n : Nat) : Prop where
  other : ∀ (x : Eff) (h : Nat) (w : Val) (P : List Nat), rk h < n → h ≠ f → AllInv rk f gs P x →
    AllInv rk f gs P (resolveFut n x now h w)
  comp : ∀ (x : Eff) (P : List Nat), rk f < n → AllCore rk f gs P x →
    (futGet x.ps.futs f).resolved = false → (futGet x.ps.futs f).remaining = 0 →
    AllInv rk f gs P (resolveFut n x now f (.list (futGet x.ps.futs f).results))

theorem all_cb_other {rk : Nat → Nat} {f : Nat} {gs : List Nat} {now n : Nat} (cl : AllClaim rk f gs now n)
    (w : Val) (acc : Eff) (cb : Cb) (Q : List Nat) (hr : rk cb.tgt < n) (hne : cb.tgt ≠ f)
    (h : AllInv rk f gs Q acc) : AllInv rk f gs Q (cbStep n now w acc cb) := by
  cases cb with
  | anyCb c idx => exact cl.other acc c _ Q hr hne h
  | allCb c idx =>
    simp only [cbStep, allStep]
    split
    · exact h
    · have h2 := AllInv_allUpd h c hne ((futGet acc.ps.futs c).results.set idx w) ((futGet acc.ps.futs c).remaining - 1)
      split
      · exact cl.other _ c _ Q hr hne h2
      · exact h2

theorem all_fold_other {rk : Nat → Nat} {f : Nat} {gs : List Nat} {now n : Nat} (cl : AllClaim rk f gs now n)
    (w : Val) (l : List Cb) (acc : Eff) (Q : List Nat) (hl : ∀ cb ∈ l, rk cb.tgt < n ∧ cb.tgt ≠ f)
    (h : AllInv rk f gs Q acc) : AllInv rk f gs Q (l.foldl (cbStep n now w) acc) := by
  induction l generalizing acc with
  | nil => exact h
  | cons cb t ih =>
    simp only [List.foldl_cons]
    apply ih _ (fun cb' hcb' => hl cb' (List.mem_cons_of_mem _ hcb'))
    exact all_cb_other cl w acc cb Q (hl cb (by simp)).1 (hl cb (by simp)).2 h

/-- the callback of the pending input `gs[i]` into `f` -/
theorem all_cb_f {rk : Nat → Nat} {f : Nat} {gs : List Nat} {now n : Nat} (cl : AllClaim rk f gs now n)
    (i : Nat) (hi : i < gs.length) (v : Val) (P : List Nat) (acc : Eff) (hrf : rk f < n)
    (h : AllInv rk f gs (gs[i] :: P) acc) (hP : gs[i] ∉ P) (hres : ResolvedIs gs[i] v acc) :
    AllInv rk f gs P (cbStep n now v acc (.allCb f i)) := by
  simp only [cbStep, allStep]
  split
  · rename_i hr; exact AllInv_drop h hr
  · rename_i hun'
    have hun : (futGet acc.ps.futs f).resolved = false := by simpa using hun'
    have ⟨hcore, hrem⟩ := AllCore_slot i hi v h hP hun hres.1 hres.2
    have hff : futGet (acc.setFut f (slotFut acc f i v)).ps.futs f = slotFut acc f i v := by
      simp [futGet_futSet]
    change AllInv rk f gs P (if (futGet acc.ps.futs f).remaining - 1 = 0
      then resolveFut n (acc.setFut f (slotFut acc f i v)) now f (.list ((futGet acc.ps.futs f).results.set i v))
      else acc.setFut f (slotFut acc f i v))
    split
    · rename_i hz
      have := cl.comp (acc.setFut f (slotFut acc f i v)) P hrf hcore (by rw [hff]; exact hun)
        (by rw [hff]; exact hz)
      rw [hff] at this
      exact this
    · rename_i hz
      refine ⟨hcore, ?_⟩
      intro _ _
      rw [hff]
      show 1 ≤ (futGet acc.ps.futs f).remaining - 1
      omega

theorem all_fold_input {rk : Nat → Nat} {f : Nat} {gs : List Nat} {now n : Nat} (cl : AllClaim rk f gs now n)
    (i : Nat) (hi : i < gs.length) (v : Val) (P : List Nat) (hP : gs[i] ∉ P) (l : List Cb) :
    ∀ (acc : Eff), (∀ cb ∈ l, rk cb.tgt < n) → (∀ cb ∈ l, cb.tgt = f → cb = .allCb f i) →
    ResolvedIs gs[i] v acc → l.countP (fun cb => cb.tgt == f) = 1 →
    AllInv rk f gs (gs[i] :: P) acc → AllInv rk f gs P (l.foldl (cbStep n now v) acc) := by
  induction l with
  | nil => intro acc _ _ _ hc; simp at hc
  | cons cb t ih =>
    intro acc hrk hf hres hc h
    simp only [List.foldl_cons]
    by_cases ht : cb.tgt = f
    · have hcb := hf cb (by simp) ht
      have hrf : rk f < n := by have := hrk cb (by simp); rw [ht] at this; exact this
      have hc0 : t.countP (fun cb => cb.tgt == f) = 0 := by
        rw [List.countP_cons] at hc
        have hb : (cb.tgt == f) = true := by simp [ht]
        simp only [hb, if_true] at hc; omega
      subst hcb
      apply all_fold_other cl v t _ P _ (all_cb_f cl i hi v P acc hrf h hP hres)
      intro cb' hcb'
      refine ⟨hrk cb' (List.mem_cons_of_mem _ hcb'), ?_⟩
      rw [List.countP_eq_zero] at hc0
      have := hc0 cb' hcb'
      simpa using this
    · have hc1 : t.countP (fun cb => cb.tgt == f) = 1 := by
        rw [List.countP_cons] at hc
        have hb : (cb.tgt == f) = false := by simp [ht]
        simp only [hb, Bool.false_eq_true, if_false] at hc; omega
      exact ih _ (fun cb' hcb' => hrk cb' (List.mem_cons_of_mem _ hcb'))
        (fun cb' hcb' => hf cb' (List.mem_cons_of_mem _ hcb'))
        (cbStep_cclosed (ResolvedIs_cclosed gs[i] v) n now v acc cb hres) hc1
        (all_cb_other cl v acc cb (gs[i] :: P) (hrk cb (by simp)) ht h)

theorem allClaim (rk : Nat → Nat) (f : Nat) (gs : List Nat) (now : Nat) : ∀ n, AllClaim rk f gs now n := by
  intro n
  induction n with
  | zero => exact ⟨fun _ _ _ _ h => absurd h (Nat.not_lt_zero _), fun _ _ h => absurd h (Nat.not_lt_zero _)⟩
  | succ n ih =>
    constructor
    · intro x h w P hrk hne inv
      rw [resolveFut_succ]
      split
      · exact inv
      · rename_i hun'
        have hun : (futGet x.ps.futs h).resolved = false := by simpa using hun'
        have hrank : ∀ cb ∈ (futGet x.ps.futs h).cbs, rk cb.tgt < n := by
          intro cb hcb; have := inv.rank h cb hcb; omega
        have hm := AllInv_mark inv now h w hun hne
        by_cases hg : h ∈ gs
        · simp only [hg, if_true] at hm
          obtain ⟨i, hi, rfl⟩ := List.getElem_of_mem hg
          have ⟨hcnt, hall⟩ := inv.inp i hi hun
          have hs := markResolved_futGet_same x now gs[i] w
          have hP : gs[i] ∉ P := fun hmem => by have := inv.pres _ hmem; rw [hun] at this; simp at this
          exact all_fold_input ih i hi w P hP _ _ hrank hall ⟨hs.1, hs.2.1⟩ hcnt hm
        · simp only [hg, if_false] at hm
          exact all_fold_other ih w _ _ P (fun cb hcb => ⟨hrank cb hcb, inv.oth h hg cb hcb⟩) hm
    · intro x P hrk core hun hrem
      rw [resolveFut_succ]
      simp only [hun, Bool.false_eq_true, if_false]
      apply all_fold_other ih
      · intro cb hcb
        have := core.rank f cb hcb
        exact ⟨by omega, by intro heq; rw [heq] at this; omega⟩
      · exact AllInv_mark_f core now hun hrem

/-- **nested all_of.**  `f = all_of(gs)` over pairwise distinct inputs that may themselves be composites
    (ranked callback graph; each unresolved input carries exactly one callback into `f`, `allCb f i`; a
    settled input has its value in its slot; `remaining` = number of unresolved inputs ≥ 1).  After any
    `resolve` call on `h ≠ f` with fuel above the rank of `h`: `f` is resolved iff every input is, and
    then its value is the list of the inputs' values in argument order -/
theorem allof_nested_core (rk : Nat → Nat) (fuel : Nat) (e : Eff) (now f h : Nat) (gs : List Nat) (w : Val)
    (hrank : RankOk rk e) (hfuel : rk h < fuel) (hhf : h ≠ f) (hnd : gs.Nodup) (hf : f ∉ gs)
    (hunf : (futGet e.ps.futs f).resolved = false)
    (hlen : (futGet e.ps.futs f).results.length = gs.length)
    (hrem : (futGet e.ps.futs f).remaining = gs.countP (fun g => !(futGet e.ps.futs g).resolved))
    (hpos : 1 ≤ (futGet e.ps.futs f).remaining)
    (hin : ∀ i (hi : i < gs.length),
      ((futGet e.ps.futs gs[i]).resolved = true →
        (futGet e.ps.futs f).results[i]? = some (futGet e.ps.futs gs[i]).value) ∧
      ((futGet e.ps.futs gs[i]).resolved = false →
        (futGet e.ps.futs gs[i]).cbs.countP (fun cb => cb.tgt == f) = 1 ∧
        ∀ cb ∈ (futGet e.ps.futs gs[i]).cbs, cb.tgt = f → cb = .allCb f i))
    (hoth : ∀ g, g ∉ gs → ∀ cb ∈ (futGet e.ps.futs g).cbs, cb.tgt ≠ f) :
    ((futGet (resolveFut fuel e now h w).ps.futs f).resolved = true ↔
      ∀ g ∈ gs, (futGet (resolveFut fuel e now h w).ps.futs g).resolved = true) ∧
    ((futGet (resolveFut fuel e now h w).ps.futs f).resolved = true →
      (futGet (resolveFut fuel e now h w).ps.futs f).value
        = .list (gs.map (fun g => (futGet (resolveFut fuel e now h w).ps.futs g).value))) := by
  have inv0 : AllInv rk f gs [] e := by
    refine ⟨⟨hrank, hnd, hf, fun i hi hu => (hin i hi).2 hu, hoth, by simp, hlen, ?_, ?_, ?_⟩, fun _ _ => hpos⟩
    · intro _; rw [hrem]; apply List.countP_congr; intro g _; simp [missing]
    · intro _ i hi hr _; exact (hin i hi).1 hr
    · intro hr; rw [hunf] at hr; simp at hr
  have inv := (allClaim rk f gs now fuel).other e h w [] hfuel hhf inv0
  generalize resolveFut fuel e now h w = r at inv
  refine ⟨⟨fun hr => (inv.C hr).1, ?_⟩, fun hr => (inv.C hr).2⟩
  intro hall
  cases hfr : (futGet r.ps.futs f).resolved with
  | true => rfl
  | false =>
    exfalso
    have h1 := inv.A hfr
    have h2 := inv.D hfr rfl
    have hz : gs.countP (missing r []) = 0 := by
      rw [List.countP_eq_zero]; intro g hg; simp [missing, hall g hg]
    omega

end HappyModel.C01
