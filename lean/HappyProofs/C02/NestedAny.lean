import HappyProofs.C02.Combinators
/-!
# C02 — nested `any_of`: inputs may be composites that settle inside a callback cascade

The callback graph is ranked (`RankOk`: every callback points to a composite of strictly smaller
rank — true of any combinator tree, where a composite is created after its inputs), and the fuel
of the `resolve` call exceeds the rank of the resolved future, so the cascade never runs dry.
-/
namespace HappyModel.C01
set_option linter.unusedVariables false

def Cb.tgt : Cb → Nat
  | .anyCb c _ => c
  | .allCb c _ => c

def RankOk (rk : Nat → Nat) (x : Eff) : Prop :=
  ∀ g cb, cb ∈ (futGet x.ps.futs g).cbs → rk cb.tgt < rk g

/-- `x'` is `x` after some futures were resolved / had their all_of bookkeeping updated:
    callbacks are kept or cleared on resolution; resolved futures keep their value -/
structure Later (x x' : Eff) : Prop where
  cbs : ∀ g, (futGet x'.ps.futs g).cbs = (futGet x.ps.futs g).cbs ∨
      ((futGet x'.ps.futs g).cbs = [] ∧ (futGet x'.ps.futs g).resolved = true)
  res : ∀ g, (futGet x.ps.futs g).resolved = true →
      (futGet x'.ps.futs g).resolved = true ∧ (futGet x'.ps.futs g).value = (futGet x.ps.futs g).value

theorem Later_mark (x : Eff) (now h : Nat) (w : Val) (hun : (futGet x.ps.futs h).resolved = false) :
    Later x (markResolved x now h w) := by
  constructor
  · intro g
    by_cases hg : g = h
    · subst hg; right
      exact ⟨(markResolved_futGet_same x now g w).2.2.1, (markResolved_futGet_same x now g w).1⟩
    · left; rw [markResolved_futGet_ne x now h g w hg]
  · intro g hr
    have hg : g ≠ h := by intro heq; subst heq; rw [hun] at hr; simp at hr
    rw [markResolved_futGet_ne x now h g w hg]; exact ⟨hr, rfl⟩

theorem Later_allUpd (x : Eff) (c : Nat) (res : List Val) (rem : Nat) :
    Later x (x.setFut c { futGet x.ps.futs c with results := res, remaining := rem }) := by
  constructor
  · intro g; left
    simp only [setFut_futs, futGet_futSet]; split
    · rename_i h; subst h; rfl
    · rfl
  · intro g hr
    simp only [setFut_futs, futGet_futSet]; split
    · rename_i h; subst h; exact ⟨hr, rfl⟩
    · exact ⟨hr, rfl⟩

theorem RankOk_later {rk : Nat → Nat} {x x' : Eff} (h : RankOk rk x) (hl : Later x x') : RankOk rk x' := by
  intro g cb hcb
  rcases hl.cbs g with h1 | ⟨h1, _⟩
  · rw [h1] at hcb; exact h g cb hcb
  · rw [h1] at hcb; simp at hcb

/-- the any_of bookkeeping between complete `resolve` calls; `P` = inputs that are resolved but whose
    callback into `f` has not run yet (we are inside their cascade) -/
structure AnyInv (rk : Nat → Nat) (f : Nat) (gs : List Nat) (P : List Nat) (x : Eff) : Prop where
  rank : RankOk rk x
  notin : f ∉ gs
  inp : ∀ i (hi : i < gs.length), (futGet x.ps.futs gs[i]).resolved = false →
    Cb.anyCb f i ∈ (futGet x.ps.futs gs[i]).cbs ∧
    ∀ cb ∈ (futGet x.ps.futs gs[i]).cbs, cb.tgt = f → cb = .anyCb f i
  oth : ∀ g, g ∉ gs → ∀ cb ∈ (futGet x.ps.futs g).cbs, cb.tgt ≠ f
  K : ∀ i (hi : i < gs.length), gs[i] ∉ P → (futGet x.ps.futs gs[i]).resolved = true →
    (futGet x.ps.futs f).resolved = true
  W : (futGet x.ps.futs f).resolved = true → ∃ i, ∃ hi : i < gs.length,
    (futGet x.ps.futs gs[i]).resolved = true ∧
    (futGet x.ps.futs f).value = .pair i (futGet x.ps.futs gs[i]).value

theorem AnyInv_later {rk : Nat → Nat} {f : Nat} {gs P Q : List Nat} {x x' : Eff} (h : AnyInv rk f gs P x)
    (hl : Later x x')
    (hK : ∀ i (hi : i < gs.length), gs[i] ∉ Q → (futGet x'.ps.futs gs[i]).resolved = true →
      (futGet x'.ps.futs f).resolved = true)
    (hW : (futGet x'.ps.futs f).resolved = true → ∃ i, ∃ hi : i < gs.length,
      (futGet x'.ps.futs gs[i]).resolved = true ∧
      (futGet x'.ps.futs f).value = .pair i (futGet x'.ps.futs gs[i]).value) :
    AnyInv rk f gs Q x' := by
  refine ⟨RankOk_later h.rank hl, h.notin, ?_, ?_, hK, hW⟩
  · intro i hi hun
    have hunx : (futGet x.ps.futs gs[i]).resolved = false := by
      cases hr : (futGet x.ps.futs gs[i]).resolved with
      | false => rfl
      | true => have := (hl.res _ hr).1; rw [hun] at this; simp at this
    rcases hl.cbs gs[i] with h1 | ⟨_, h1⟩
    · rw [h1]; exact h.inp i hi hunx
    · rw [hun] at h1; simp at h1
  · intro g hg cb hcb
    rcases hl.cbs g with h1 | ⟨h1, _⟩
    · rw [h1] at hcb; exact h.oth g hg cb hcb
    · rw [h1] at hcb; simp at hcb

theorem W_later {f : Nat} {gs : List Nat} {x x' : Eff} (hl : Later x x')
    (hf : futGet x'.ps.futs f = futGet x.ps.futs f)
    (hW : (futGet x.ps.futs f).resolved = true → ∃ i, ∃ hi : i < gs.length,
      (futGet x.ps.futs gs[i]).resolved = true ∧
      (futGet x.ps.futs f).value = .pair i (futGet x.ps.futs gs[i]).value) :
    (futGet x'.ps.futs f).resolved = true → ∃ i, ∃ hi : i < gs.length,
      (futGet x'.ps.futs gs[i]).resolved = true ∧
      (futGet x'.ps.futs f).value = .pair i (futGet x'.ps.futs gs[i]).value := by
  intro hr
  rw [hf] at hr ⊢
  obtain ⟨i, hi, h1, h2⟩ := hW hr
  have := hl.res _ h1
  exact ⟨i, hi, this.1, by rw [this.2]; exact h2⟩

/-- a future other than `f` and the inputs resolves -/
theorem AnyInv_mark_other {rk : Nat → Nat} {f : Nat} {gs P : List Nat} {x : Eff} (h : AnyInv rk f gs P x)
    (now g : Nat) (w : Val) (hun : (futGet x.ps.futs g).resolved = false) (hgf : g ≠ f) (hg : g ∉ gs) :
    AnyInv rk f gs P (markResolved x now g w) := by
  have hl := Later_mark x now g w hun
  have hf := markResolved_futGet_ne x now g f w (Ne.symm hgf)
  refine AnyInv_later h hl ?_ (W_later hl hf h.W)
  intro i hi hP hr
  have hne : gs[i] ≠ g := fun heq => hg (heq ▸ List.getElem_mem hi)
  rw [markResolved_futGet_ne x now g gs[i] w hne] at hr
  rw [hf]; exact h.K i hi hP hr

/-- an input resolves: it becomes pending -/
theorem AnyInv_mark_input {rk : Nat → Nat} {f : Nat} {gs P : List Nat} {x : Eff} (h : AnyInv rk f gs P x)
    (now : Nat) (i : Nat) (hi : i < gs.length) (w : Val) (hun : (futGet x.ps.futs gs[i]).resolved = false) :
    AnyInv rk f gs (gs[i] :: P) (markResolved x now gs[i] w) := by
  have hl := Later_mark x now gs[i] w hun
  have hgf : f ≠ gs[i] := fun heq => h.notin (heq ▸ List.getElem_mem hi)
  have hf := markResolved_futGet_ne x now gs[i] f w hgf
  refine AnyInv_later h hl ?_ (W_later hl hf h.W)
  intro j hj hP hr
  simp only [List.mem_cons, not_or] at hP
  rw [markResolved_futGet_ne x now gs[i] gs[j] w hP.1] at hr
  rw [hf]; exact h.K j hj hP.2 hr

/-- `f` itself resolves, from the callback of the pending input `i` -/
theorem AnyInv_mark_f {rk : Nat → Nat} {f : Nat} {gs P : List Nat} {x : Eff} {g0 : Nat}
    (h : AnyInv rk f gs (g0 :: P) x)
    (now : Nat) (i : Nat) (hi : i < gs.length) (v : Val) (hun : (futGet x.ps.futs f).resolved = false)
    (hri : (futGet x.ps.futs gs[i]).resolved = true) (hvi : (futGet x.ps.futs gs[i]).value = v) :
    AnyInv rk f gs P (markResolved x now f (.pair i v)) := by
  have hl := Later_mark x now f (.pair i v) hun
  have hs := markResolved_futGet_same x now f (.pair i v)
  refine AnyInv_later h hl (fun _ _ _ _ => hs.1) ?_
  intro _
  have := hl.res _ hri
  exact ⟨i, hi, this.1, by rw [hs.2.1, this.2, hvi]⟩

theorem AnyInv_allUpd {rk : Nat → Nat} {f : Nat} {gs P : List Nat} {x : Eff} (h : AnyInv rk f gs P x)
    (c : Nat) (res : List Val) (rem : Nat) :
    AnyInv rk f gs P (x.setFut c { futGet x.ps.futs c with results := res, remaining := rem }) := by
  have hl := Later_allUpd x c res rem
  have hsame : ∀ g, (futGet (x.setFut c { futGet x.ps.futs c with results := res, remaining := rem }).ps.futs g).resolved
      = (futGet x.ps.futs g).resolved ∧
      (futGet (x.setFut c { futGet x.ps.futs c with results := res, remaining := rem }).ps.futs g).value
      = (futGet x.ps.futs g).value := by
    intro g
    simp only [setFut_futs, futGet_futSet]; split
    · rename_i hh; subst hh; exact ⟨rfl, rfl⟩
    · exact ⟨rfl, rfl⟩
  refine AnyInv_later h hl ?_ ?_
  · intro i hi hP hr
    rw [(hsame _).1] at hr ⊢; exact h.K i hi hP hr
  · intro hr
    rw [(hsame _).1] at hr
    obtain ⟨i, hi, h1, h2⟩ := h.W hr
    exact ⟨i, hi, by rw [(hsame _).1]; exact h1, by rw [(hsame _).2, (hsame _).2]; exact h2⟩

theorem AnyInv_weaken {rk : Nat → Nat} {f : Nat} {gs P : List Nat} {x : Eff} (h : AnyInv rk f gs P x) (g : Nat) :
    AnyInv rk f gs (g :: P) x :=
  ⟨h.rank, h.notin, h.inp, h.oth, fun i hi hP hr => h.K i hi (fun hm => hP (List.mem_cons_of_mem _ hm)) hr, h.W⟩

theorem AnyInv_drop {rk : Nat → Nat} {f : Nat} {gs P : List Nat} {x : Eff} {g : Nat} (h : AnyInv rk f gs (g :: P) x)
    (hr : (futGet x.ps.futs f).resolved = true) : AnyInv rk f gs P x :=
  ⟨h.rank, h.notin, h.inp, h.oth, fun _ _ _ _ => hr, h.W⟩

/-- what complete `resolve` calls with fuel `n` do to the bookkeeping -/
structure AnyClaim (rk : Nat → Nat) (f : Nat) (gs : List Nat) (now n : Nat) : Prop where
  /-- a call on anything but `f` -/
  other : ∀ (x : Eff) (h : Nat) (w : Val) (P : List Nat), rk h < n → h ≠ f → AnyInv rk f gs P x →
    AnyInv rk f gs P (resolveFut n x now h w)
  /-- the call on `f` made by the callback of input `i`, which is pending -/
  comp : ∀ (x : Eff) (i : Nat) (hi : i < gs.length) (v : Val) (g0 : Nat) (P : List Nat), rk f < n →
    AnyInv rk f gs (g0 :: P) x → (futGet x.ps.futs gs[i]).resolved = true → (futGet x.ps.futs gs[i]).value = v →
    AnyInv rk f gs P (resolveFut n x now f (.pair i v))

/-- one callback that does not point to `f` -/
theorem any_cb_other {rk : Nat → Nat} {f : Nat} {gs : List Nat} {now n : Nat} (cl : AnyClaim rk f gs now n)
    (w : Val) (acc : Eff) (cb : Cb) (Q : List Nat) (hr : rk cb.tgt < n) (hne : cb.tgt ≠ f)
    (h : AnyInv rk f gs Q acc) : AnyInv rk f gs Q (cbStep n now w acc cb) := by
  cases cb with
  | anyCb c idx => exact cl.other acc c _ Q hr hne h
  | allCb c idx =>
    simp only [cbStep, allStep]
    split
    · exact h
    · have h2 := AnyInv_allUpd h c ((futGet acc.ps.futs c).results.set idx w) ((futGet acc.ps.futs c).remaining - 1)
      split
      · exact cl.other _ c _ Q hr hne h2
      · exact h2

theorem any_fold_other {rk : Nat → Nat} {f : Nat} {gs : List Nat} {now n : Nat} (cl : AnyClaim rk f gs now n)
    (w : Val) (l : List Cb) (acc : Eff) (Q : List Nat) (hl : ∀ cb ∈ l, rk cb.tgt < n ∧ cb.tgt ≠ f)
    (h : AnyInv rk f gs Q acc) : AnyInv rk f gs Q (l.foldl (cbStep n now w) acc) := by
  induction l generalizing acc with
  | nil => exact h
  | cons cb t ih =>
    simp only [List.foldl_cons]
    apply ih _ (fun cb' hcb' => hl cb' (List.mem_cons_of_mem _ hcb'))
    exact any_cb_other cl w acc cb Q (hl cb (by simp)).1 (hl cb (by simp)).2 h

/-- the callbacks of input `i`, which resolved with `w` -/
theorem any_fold_input {rk : Nat → Nat} {f : Nat} {gs : List Nat} {now n : Nat} (cl : AnyClaim rk f gs now n)
    (i : Nat) (hi : i < gs.length) (w : Val) (P : List Nat) (l : List Cb) :
    ∀ (acc : Eff), (∀ cb ∈ l, rk cb.tgt < n) → (∀ cb ∈ l, cb.tgt = f → cb = .anyCb f i) →
    ResolvedIs gs[i] w acc →
    (AnyInv rk f gs P acc → AnyInv rk f gs P (l.foldl (cbStep n now w) acc)) ∧
    (Cb.anyCb f i ∈ l → AnyInv rk f gs (gs[i] :: P) acc → AnyInv rk f gs P (l.foldl (cbStep n now w) acc)) := by
  induction l with
  | nil => intro acc _ _ _; exact ⟨fun h => h, fun hm => by simp at hm⟩
  | cons cb t ih =>
    intro acc hrk hf hres
    have hres' : ResolvedIs gs[i] w (cbStep n now w acc cb) :=
      cbStep_cclosed (ResolvedIs_cclosed gs[i] w) n now w acc cb hres
    have ⟨ih1, ih2⟩ := ih (cbStep n now w acc cb) (fun cb' hcb' => hrk cb' (List.mem_cons_of_mem _ hcb'))
      (fun cb' hcb' => hf cb' (List.mem_cons_of_mem _ hcb')) hres'
    simp only [List.foldl_cons]
    by_cases ht : cb.tgt = f
    · have hcb := hf cb (by simp) ht
      have hrf : rk f < n := by have := hrk cb (by simp); rw [ht] at this; exact this
      subst hcb
      constructor
      · intro h
        exact ih1 (cl.comp acc i hi w gs[i] P hrf (AnyInv_weaken h gs[i]) hres.1 hres.2)
      · intro _ h
        exact ih1 (cl.comp acc i hi w gs[i] P hrf h hres.1 hres.2)
    · constructor
      · intro h
        exact ih1 (any_cb_other cl w acc cb P (hrk cb (by simp)) ht h)
      · intro hm h
        have hm' : Cb.anyCb f i ∈ t := by
          rcases List.mem_cons.mp hm with heq | hm'
          · exfalso; apply ht; rw [← heq]; rfl
          · exact hm'
        exact ih2 hm' (any_cb_other cl w acc cb (gs[i] :: P) (hrk cb (by simp)) ht h)

theorem anyClaim (rk : Nat → Nat) (f : Nat) (gs : List Nat) (now : Nat) : ∀ n, AnyClaim rk f gs now n := by
  intro n
  induction n with
  | zero => exact ⟨fun _ _ _ _ h => absurd h (Nat.not_lt_zero _), fun _ _ _ _ _ _ h => absurd h (Nat.not_lt_zero _)⟩
  | succ n ih =>
    constructor
    · intro x h w P hrk hne inv
      rw [resolveFut_succ]
      split
      · exact inv
      · rename_i hun'
        have hun : (futGet x.ps.futs h).resolved = false := by simpa using hun'
        have hrank : ∀ cb ∈ (futGet x.ps.futs h).cbs, rk cb.tgt < n := by
          intro cb hcb; have := inv.rank h cb hcb; omega
        by_cases hg : h ∈ gs
        · obtain ⟨i, hi, rfl⟩ := List.getElem_of_mem hg
          have ⟨hmem, hall⟩ := inv.inp i hi hun
          have hs := markResolved_futGet_same x now gs[i] w
          exact (any_fold_input ih i hi w P _ _ hrank hall ⟨hs.1, hs.2.1⟩).2 hmem
            (AnyInv_mark_input inv now i hi w hun)
        · exact any_fold_other ih w _ _ P (fun cb hcb => ⟨hrank cb hcb, inv.oth h hg cb hcb⟩)
            (AnyInv_mark_other inv now h w hun hne hg)
    · intro x i hi v g0 P hrk inv hri hvi
      rw [resolveFut_succ]
      split
      · rename_i hr; exact AnyInv_drop inv hr
      · rename_i hun'
        have hun : (futGet x.ps.futs f).resolved = false := by simpa using hun'
        apply any_fold_other ih
        · intro cb hcb
          have := inv.rank f cb hcb
          exact ⟨by omega, by intro heq; rw [heq] at this; omega⟩
        · exact AnyInv_mark_f inv now i hi v hun hri hvi

/-- **nested any_of.**  `f = any_of(gs)` where the inputs may themselves be composites (ranked callback
    graph; each unresolved input carries the callback `anyCb f i`, and every callback into `f` is one of
    these).  Whenever one `resolve` call — with fuel above the rank of the resolved future `h ≠ f` — takes
    the composite from "no input resolved" to "some input resolved", `f` is resolved after that call with
    `(i, v)` for an input `i` that is resolved with `v` -/
theorem anyof_nested_core (rk : Nat → Nat) (fuel : Nat) (e : Eff) (now f h : Nat) (gs : List Nat) (w : Val)
    (hrank : RankOk rk e) (hfuel : rk h < fuel) (hhf : h ≠ f) (hf : f ∉ gs)
    (hunf : (futGet e.ps.futs f).resolved = false)
    (hin : ∀ i (hi : i < gs.length), (futGet e.ps.futs gs[i]).resolved = false ∧
      Cb.anyCb f i ∈ (futGet e.ps.futs gs[i]).cbs ∧
      ∀ cb ∈ (futGet e.ps.futs gs[i]).cbs, cb.tgt = f → cb = .anyCb f i)
    (hoth : ∀ g, g ∉ gs → ∀ cb ∈ (futGet e.ps.futs g).cbs, cb.tgt ≠ f)
    (hsome : ∃ i, ∃ hi : i < gs.length, (futGet (resolveFut fuel e now h w).ps.futs gs[i]).resolved = true) :
    ∃ i, ∃ hi : i < gs.length, (futGet (resolveFut fuel e now h w).ps.futs gs[i]).resolved = true ∧
      (futGet (resolveFut fuel e now h w).ps.futs f).resolved = true ∧
      (futGet (resolveFut fuel e now h w).ps.futs f).value
        = .pair i (futGet (resolveFut fuel e now h w).ps.futs gs[i]).value := by
  have inv0 : AnyInv rk f gs [] e := by
    refine ⟨hrank, hf, fun i hi _ => (hin i hi).2, hoth, ?_, ?_⟩
    · intro i hi _ hr; rw [(hin i hi).1] at hr; simp at hr
    · intro hr; rw [hunf] at hr; simp at hr
  have inv := (anyClaim rk f gs now fuel).other e h w [] hfuel hhf inv0
  obtain ⟨i, hi, hr⟩ := hsome
  have hfr := inv.K i hi (by simp) hr
  obtain ⟨j, hj, h1, h2⟩ := inv.W hfr
  exact ⟨j, hj, h1, hfr, h2⟩

end HappyModel.C01
