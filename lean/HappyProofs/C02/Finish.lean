import HappyProofs.C02.Run
/-!
# C02 — a process finishes at most once

`finCount obs pid` = number of `finish _ pid` entries of the observable log.  Along a run it equals
1 for a finished process and 0 otherwise, and a finished process has no completion hooks left.
-/
namespace HappyModel.C01
set_option linter.unusedVariables false

def isFinish (pid : Nat) : Obs → Bool
  | .finish _ q => q == pid
  | _ => false

def finCount (obs : List Obs) (pid : Nat) : Nat := obs.countP (isFinish pid)

def doneInd (L : List Proc) (pid : Nat) : Nat :=
  match L[pid]? with
  | some p => if p.done then 1 else 0
  | none => 0

/-- the finish entries of the log are as `C` says -/
def ObsFin (C : Nat → Nat) (e : Eff) : Prop := ∀ q, finCount e.ps.obs q = C q

theorem resumeParked_obs (e : Eff) (now f : Nat) : (resumeParked e now f).ps.obs = e.ps.obs := by
  cases hpk : (futGet e.ps.futs f).parked with
  | none => rw [resumeParked_none e now f hpk]
  | some pid =>
    cases hp : e.ps.procs[pid]? with
    | none => rw [resumeParked_noproc e now f pid hpk hp]
    | some p => rw [resumeParked_some e now f pid p hpk hp]; rfl

theorem markResolved_obs (e : Eff) (now f : Nat) (v : Val) : (markResolved e now f v).ps.obs = e.ps.obs := by
  unfold markResolved; rw [resumeParked_obs]; rfl

theorem finCount_cons_other (o : Obs) (obs : List Obs) (q : Nat) (h : ∀ t pid, o ≠ .finish t pid) :
    finCount (o :: obs) q = finCount obs q := by
  unfold finCount
  rw [List.countP_cons]
  have : isFinish q o = false := by
    cases o with
    | finish t pid => exact absurd rfl (h t pid)
    | _ => rfl
  simp [this]

theorem ObsFin_closed (C : Nat → Nat) : Closed (ObsFin C) where
  resolve := by
    intro e now f v h hr q
    rw [markResolved_obs]; exact h q
  allUpd := fun e c res rem h hr => h
  cbAdd := fun e g cb h hr => h
  bind := fun e f rs rm h => h
  push := fun e sp hook tagged hd h => h
  release := fun e i sp h hm => h
  crashed := fun e l h => h
  cancels := fun e l h => h
  hookLate := fun e pid hook h => h
  hookEarly := fun e id hook h => h
  level := fun e l h => h
  hops := fun e l h => h
  obs := by
    intro e o ho h q
    simp only [addObs_obs]
    rw [finCount_cons_other o _ q ho]; exact h q

/-- the log agrees with the process table: one finish entry per finished process, none otherwise;
    finished processes have no hooks left -/
def EF (L : List Proc) (C : Nat → Nat) : Prop :=
  (∀ q, C q = doneInd L q) ∧ (∀ (q : Nat) (p : Proc), L[q]? = some p → p.done = true → p.hooks = [] ∧ p.segs = [])

def retInd : Term → Nat
  | .ret => 1
  | _ => 0

theorem segTerm_obsfin (C : Nat → Nat) (now : Nat) (e1 : Eff) (pid : Nat) (p1 : Proc) (rest : List Seg)
    (t : Term) (h : ObsFin C e1) :
    ObsFin (fun q => C q + retInd t * ind (pid == q)) (segTerm now e1 pid p1 rest t) := by
  cases t with
  | yieldD d => intro q; simpa [retInd, segTerm] using h q
  | yieldF f =>
    intro q
    simp only [segTerm, retInd, Nat.zero_mul, Nat.add_zero]
    split
    · rw [resumeParked_obs]; exact h q
    · exact h q
  | ret =>
    simp only [segTerm, retInd, Nat.one_mul]
    apply runHooks_closed (ObsFin_closed _)
    intro q
    simp only [addObs_obs, clearLate_obs, setProc_obs, finCount, List.countP_cons, isFinish]
    have := h q
    unfold finCount at this
    rw [this]
    simp [ind]

theorem segBody_obsfin (C : Nat → Nat) (now : Nat) (e : Eff) (pid tag : Nat) (p : Proc) (seg : Seg)
    (rest : List Seg) (h : ObsFin C e) :
    ObsFin (fun q => C q + retInd seg.term * ind (pid == q)) (segBody now e pid tag p seg rest) := by
  have h0 : ObsFin C (segStart now e pid tag p) := by
    unfold segStart
    intro q
    simp only [setCur_obs, setProc_obs]
    split
    · simp only [addObs_obs]; rw [finCount_cons_other _ _ q (by intro t pid; simp)]; exact h q
    · exact h q
  exact segTerm_obsfin C now _ pid _ rest seg.term (acts_closed (ObsFin_closed C) now seg.acts _ h0)

theorem doneInd_set_ne (L : List Proc) (pid q : Nat) (x : Proc) (h : q ≠ pid) :
    doneInd (L.set pid x) q = doneInd L q := by
  unfold doneInd; rw [List.getElem?_set_ne (Ne.symm h)]

/-- the agreement between log and process table survives one call of `runSegment` -/
theorem runSegment_ef (now : Nat) (e : Eff) (pid tag : Nat)
    (h : EF (e.ps.procs.map strip) (fun q => finCount e.ps.obs q)) :
    EF ((runSegment now e pid tag).ps.procs.map strip) (fun q => finCount (runSegment now e pid tag).ps.obs q) := by
  cases hp : e.ps.procs[pid]? with
  | none => rw [runSegment_noproc now e pid tag hp]; exact h
  | some p =>
    cases hs : p.segs with
    | nil =>
      have : runSegment now e pid tag = e := by simp [runSegment, hp, hs]
      rw [this]; exact h
    | cons seg rest =>
      rw [runSegment_eq now e pid tag p seg rest hp hs]
      have hpr := segBody_procs now e pid tag p seg rest
      have hob := segBody_obsfin (fun q => finCount e.ps.obs q) now e pid tag p seg rest (fun q => rfl)
      unfold ProcsAre at hpr
      rw [hpr]
      have hobs : (fun q => finCount (segBody now e pid tag p seg rest).ps.obs q)
          = (fun q => finCount e.ps.obs q + retInd seg.term * ind (pid == q)) := funext hob
      rw [hobs]
      have hl := getElem?_some_lt hp
      have hLp : (e.ps.procs.map strip)[pid]? = some (strip p) := by simp [hp]
      have hpd : p.done = false := by
        cases hpd : p.done with
        | false => rfl
        | true =>
          have := (h.2 pid (strip p) hLp (by simpa [strip] using hpd)).2
          simp [strip, hs] at this
      have hC0 : finCount e.ps.obs pid = 0 := by
        have := h.1 pid
        simp only [doneInd, hLp, strip, hpd] at this
        simpa using this
      refine ⟨?_, ?_⟩
      · intro q
        by_cases hq : q = pid
        · subst hq
          have hget : ∀ X : Proc, ((e.ps.procs.map strip).set q X)[q]? = some X :=
            fun X => List.getElem?_set_self (by simpa using hl)
          simp only [doneInd, hget, hC0]
          cases ht : seg.term <;> simp [retInd, finalProc, strip, ind, hpd]
        · rw [doneInd_set_ne _ _ _ _ hq, ← h.1 q]
          have : ind (pid == q) = 0 := by simp [ind, Ne.symm hq]
          simp [this]
      · intro q p' hp' hd
        by_cases hq : q = pid
        · subst hq
          have hget : ∀ X : Proc, ((e.ps.procs.map strip).set q X)[q]? = some X :=
            fun X => List.getElem?_set_self (by simpa using hl)
          rw [hget] at hp'
          simp only [Option.some.injEq] at hp'
          subst hp'
          cases ht : seg.term with
          | ret => simp [finalProc, strip]
          | yieldD d => rw [ht] at hd; simp [finalProc, strip, hpd] at hd
          | yieldF f => rw [ht] at hd; simp [finalProc, strip, hpd] at hd
        · rw [List.getElem?_set_ne (Ne.symm hq)] at hp'
          exact h.2 q p' hp' hd

/-- run-level invariant: the log's finish entries agree with the process table -/
def FinInv (s : St PS) : Prop := EF (s.ent.procs.map strip) (fun q => finCount s.ent.obs q)

theorem EF_of_frame {L : List Proc} {C : Nat → Nat} {r : Eff} (h : EF L C) (hp : ProcsAre L r) (ho : ObsFin C r) :
    EF (r.ps.procs.map strip) (fun q => finCount r.ps.obs q) := by
  unfold ProcsAre at hp
  rw [hp, show (fun q => finCount r.ps.obs q) = C from funext ho]
  exact h

theorem procEff_ef (ps : PS) (now : Nat) (ev : Ev)
    (h : EF (ps.procs.map strip) (fun q => finCount ps.obs q)) :
    EF ((procEff ps now ev).ps.procs.map strip) (fun q => finCount (procEff ps now ev).ps.obs q) := by
  unfold procEff
  simp only []
  split
  · split
    · have hc := closed_and (ProcsAre_closed (ps.procs.map strip)) (ObsFin_closed (fun q => finCount ps.obs q))
      have h0 : ProcsAre (ps.procs.map strip) (addObs { ps := ps } (.skip now ev.target ev.kind ev.tag)) ∧
          ObsFin (fun q => finCount ps.obs q) (addObs { ps := ps } (.skip now ev.target ev.kind ev.tag)) := by
        refine ⟨rfl, ?_⟩
        intro q
        simp only [addObs_obs]
        rw [finCount_cons_other _ _ q (by intro t pid; simp)]
      have := runHooks_closed hc now ((ps.hookOf.filter (fun p => p.1 == ev.id)).map (·.2)) _ h0
      exact EF_of_frame h this.1 this.2
    · rename_i d hd
      apply runSegment_ef
      simp only [spawn_procs, spawn_obs, addObs_procs, addObs_obs, List.map_append, List.map_cons, List.map_nil]
      have hobs : (fun q => finCount (Obs.start now ev.target ev.kind ev.tag :: ps.obs) q)
          = (fun q => finCount ps.obs q) := by
        funext q; exact finCount_cons_other _ _ q (by intro t pid; simp)
      rw [hobs]
      refine ⟨?_, ?_⟩
      · intro q
        rw [h.1 q]
        unfold doneInd
        by_cases hq : q < (ps.procs.map strip).length
        · rw [List.getElem?_append_left hq]
        · have hq' : (ps.procs.map strip).length ≤ q := by omega
          rw [List.getElem?_eq_none hq', List.getElem?_append_right hq']
          generalize q - (ps.procs.map strip).length = k
          cases k with
          | zero => simp [strip, newProc]
          | succ k => simp
      · intro q p hp hdn
        by_cases hq : q < (ps.procs.map strip).length
        · rw [List.getElem?_append_left hq] at hp
          exact h.2 q p hp hdn
        · have hq' : (ps.procs.map strip).length ≤ q := by omega
          rw [List.getElem?_append_right hq'] at hp
          generalize q - (ps.procs.map strip).length = k at hp
          cases k with
          | zero => simp at hp; subst hp; simp [strip, newProc] at hdn
          | succ k => simp at hp
  · exact runSegment_ef now { ps := ps } (ev.data - 1) ev.tag h

theorem step_finInv (s : St PS) (m : Ev) (h : FinInv s) : FinInv (stepWith procMachine s m) := by
  unfold stepWith
  simp only []
  split
  · exact h
  · split
    · exact h
    · split
      · exact h
      · have heq := procHandle_eq s.ent m.time m
        show EF ((procHandle s.ent m.time m).ent.procs.map strip) (fun q => finCount (procHandle s.ent m.time m).ent.obs q)
        rw [heq]
        exact procEff_ef s.ent m.time m h

theorem run_finInv (endT : Option Nat) (n : Nat) (s : St PS) (h : FinInv s) :
    FinInv (run procMachine endT n s) := by
  induction n generalizing s with
  | zero => simpa [run]
  | succ n ih =>
    unfold run
    cases hs : step procMachine endT s with
    | none => simpa
    | some s' =>
      simp only []
      apply ih
      unfold step at hs
      split at hs
      · simp at hs
      · split at hs
        · simp at hs; subst hs; exact step_finInv s _ h
        · simp at hs

theorem doneInd_le_one (L : List Proc) (q : Nat) : doneInd L q ≤ 1 := by
  unfold doneInd; split
  · split <;> omega
  · omega

theorem doneInd_strip_one (L : List Proc) (q : Nat) :
    doneInd (L.map strip) q = 1 ↔ ∃ p, L[q]? = some p ∧ p.done = true := by
  unfold doneInd
  simp only [List.getElem?_map]
  cases hq : L[q]? with
  | none => simp
  | some p => cases hd : p.done <;> simp [strip, hd]

theorem InitOk_finInv (s : St PS) (hprocs : s.ent.procs = []) (hobs : ∀ q, finCount s.ent.obs q = 0) :
    FinInv s := by
  unfold FinInv
  rw [hprocs]
  refine ⟨fun q => by show finCount s.ent.obs q = _; rw [hobs q]; rfl, ?_⟩
  intro q p hp; simp at hp

/-! ### the finishing step runs the completion hooks, once each, right after logging the finish -/

theorem runHooks_obs (now : Nat) (hooks : List Nat) (e : Eff) :
    (runHooks now e hooks).ps.obs = (hooks.map (fun h => Obs.hook now h)).reverse ++ e.ps.obs := by
  unfold runHooks
  induction hooks generalizing e with
  | nil => rfl
  | cons h t ih =>
    simp only [List.foldl_cons, List.map_cons, List.reverse_cons, List.append_assoc]
    rw [ih]
    rfl

theorem runHooks_specs_length (now : Nat) (hooks : List Nat) (e : Eff) :
    (runHooks now e hooks).specs.length = e.specs.length + hooks.length := by
  unfold runHooks
  induction hooks generalizing e with
  | nil => rfl
  | cons h t ih =>
    simp only [List.foldl_cons, List.length_cons]
    rw [ih]
    simp only [push_specs, addObs_specs, List.length_append, List.length_singleton]
    omega

theorem ret_runs_hooks_once (now : Nat) (e : Eff) (pid tag : Nat) (p : Proc) (acts : List Act)
    (rest : List Seg) (hp : e.ps.procs[pid]? = some p) (hs : p.segs = ⟨acts, .ret⟩ :: rest) :
    (runSegment now e pid tag).ps.obs
      = ((p.hooks ++ lateOf (acts.foldl (runAct now) (segStart now e pid tag p)).ps pid).map
            (fun h => Obs.hook now h)).reverse ++
          Obs.finish now pid :: (acts.foldl (runAct now) (segStart now e pid tag p)).ps.obs ∧
    (runSegment now e pid tag).specs.length
      = (acts.foldl (runAct now) (segStart now e pid tag p)).specs.length +
          (p.hooks ++ lateOf (acts.foldl (runAct now) (segStart now e pid tag p)).ps pid).length := by
  rw [runSegment_eq now e pid tag p _ rest hp hs]
  unfold segBody
  simp only [segTerm]
  rw [runHooks_obs, runHooks_specs_length]
  exact ⟨rfl, rfl⟩

end HappyModel.C01
