import HappyProofs.C02.HooksRun
/-!
# C02 — completion hooks added to an event after it was created, and opaque resume values

`event.add_completion_hook(h)` (`Act.addHook`, `addHookTo`) appends to the event's `on_complete` list.
`_start_process` hands that very list to the continuation chain, so what happens to the hook depends
on where the event is in its life:

* not delivered yet — it is among the hooks the process starts with (`addHook_before_delivery`);
* its process is in flight — it runs when the process finishes, after the hooks the process started
  with, in the order of addition (`addHook_in_flight`, `inflight_hook_runs_at_finish`), and the list
  is empty afterwards (`inflight_hooks_cleared`);
* finished or dropped — never (the run-level bound is `hooks_at_most_once`).

The value a process is resumed with is opaque to the engine (`Val.atom`: exception instances,
booleans, strings, …): whatever was stored for the process is what its resumption reports
(`resumed_value_logged`).
-/
namespace HappyModel.C01
set_option linter.unusedVariables false

/-- **a hook added while the process is in flight** goes to that process's late list, after the ones
    added before; nothing else changes (no event is created, no other process is affected, the
    attachments of undelivered events are untouched) -/
theorem addHook_in_flight (e : Eff) (id hook pid : Nat)
    (hf : e.ps.procs.findIdx? (fun p => p.ev == id && !p.done) = some pid) :
    lateOf (addHookTo e id hook).ps pid = lateOf e.ps pid ++ [hook] ∧
    (∀ q, q ≠ pid → lateOf (addHookTo e id hook).ps q = lateOf e.ps q) ∧
    (addHookTo e id hook).ps.procs = e.ps.procs ∧ (addHookTo e id hook).specs = e.specs ∧
    (addHookTo e id hook).ps.hookOf = e.ps.hookOf ∧ (addHookTo e id hook).ps.obs = e.ps.obs := by
  unfold addHookTo
  rw [hf]
  refine ⟨?_, ?_, rfl, rfl, rfl, rfl⟩
  · simp [lateOf, List.filter_append]
  · intro q hq
    have : (pid == q) = false := by simp [Ne.symm hq]
    simp [lateOf, List.filter_append, this]

/-- **a hook added before the event is delivered** joins the event's attachments: a process started
    by that event later starts with it, after the hooks attached earlier -/
theorem addHook_before_delivery (e : Eff) (id hook : Nat)
    (hf : e.ps.procs.findIdx? (fun p => p.ev == id && !p.done) = none) :
    (addHookTo e id hook).ps.hookOf = e.ps.hookOf ++ [(id, hook)] ∧
    (∀ ev d, ev.id = id → (newProc (addHookTo e id hook).ps ev d).hooks = (newProc e.ps ev d).hooks ++ [hook]) ∧
    (∀ ev d, ev.id ≠ id → (newProc (addHookTo e id hook).ps ev d).hooks = (newProc e.ps ev d).hooks) ∧
    (addHookTo e id hook).ps.late = e.ps.late ∧ (addHookTo e id hook).ps.procs = e.ps.procs ∧
    (addHookTo e id hook).specs = e.specs := by
  unfold addHookTo
  rw [hf]
  refine ⟨rfl, ?_, ?_, rfl, rfl, rfl⟩
  · intro ev d hid
    simp [newProc, List.filter_append, hid]
  · intro ev d hid
    have : (id == ev.id) = false := by simp [Ne.symm hid]
    simp [newProc, List.filter_append, this]

theorem runHooks_late (now : Nat) (hooks : List Nat) (e : Eff) : (runHooks now e hooks).ps.late = e.ps.late := by
  unfold runHooks
  induction hooks generalizing e with
  | nil => rfl
  | cons h t ih => simp only [List.foldl_cons]; rw [ih]; rfl

/-- **the list is cleared when the hooks run**: after the finishing segment no late hook of the
    process is left, so none of them can run a second time -/
theorem inflight_hooks_cleared (now : Nat) (e : Eff) (pid tag : Nat) (p : Proc) (acts : List Act)
    (rest : List Seg) (hp : e.ps.procs[pid]? = some p) (hs : p.segs = ⟨acts, .ret⟩ :: rest) :
    lateOf (runSegment now e pid tag).ps pid = [] := by
  rw [runSegment_eq now e pid tag p _ rest hp hs]
  unfold segBody
  simp only [segTerm]
  unfold lateOf
  rw [runHooks_late]
  simp only [addObs, Eff.clearLate, List.filter_filter]
  have : ∀ q : Nat × Nat, (q.1 == pid && q.1 != pid) = false := by
    intro q; by_cases h : q.1 = pid <;> simp [h]
  simp [this]

/-- **a hook added in flight runs when the process finishes**: every hook on the process's late list
    when its last segment has run its actions is logged as run at the finishing instant -/
theorem inflight_hook_runs_at_finish (now : Nat) (e : Eff) (pid tag : Nat) (p : Proc) (acts : List Act)
    (rest : List Seg) (hp : e.ps.procs[pid]? = some p) (hs : p.segs = ⟨acts, .ret⟩ :: rest) (h : Nat)
    (hin : h ∈ lateOf (acts.foldl (runAct now) (segStart now e pid tag p)).ps pid) :
    Obs.hook now h ∈ (runSegment now e pid tag).ps.obs := by
  rw [(ret_runs_hooks_once now e pid tag p acts rest hp hs).1]
  apply List.mem_append_left
  rw [List.mem_reverse, List.mem_map]
  exact ⟨h, List.mem_append_right _ hin, rfl⟩

/-! ### the resume value is reported as stored -/

theorem obsMem_closed (o : Obs) : Closed (fun e : Eff => o ∈ e.ps.obs) where
  resolve := by
    intro e now f v h hr
    rw [markResolved_obs]; exact h
  allUpd := fun e c res rem h hr => h
  cbAdd := fun e g cb h hr => h
  bind := fun e f rs rm h => h
  push := fun e sp hook tagged hd h => h
  release := fun e i sp h hm => h
  crashed := fun e l h => h
  cancels := fun e l h => h
  hookLate := fun e pid hook h => h
  hookEarly := fun e id hook h => h
  level := fun e l h => h
  hops := fun e l h => h
  obs := fun e o' ho h => List.mem_cons_of_mem _ h

/-- **the value is sent as it is**: when a started process is resumed, its log records the resumption
    with exactly the value stored for it (`Proc.send`: set by `resolve` to the future's value —
    `future_resume_once`, `park_on_resolved_resumes_at_once`) — for every kind of value, an exception
    instance (`Val.atom 0 _`) like any other: nothing in the resumption looks inside the value -/
theorem resumed_value_logged (now : Nat) (e : Eff) (pid tag : Nat) (p : Proc) (seg : Seg) (rest : List Seg)
    (hp : e.ps.procs[pid]? = some p) (hst : p.started = true) (hs : p.segs = seg :: rest) :
    Obs.resume now pid p.send tag ∈ (runSegment now e pid tag).ps.obs := by
  rw [runSegment_eq now e pid tag p seg rest hp hs]
  unfold segBody
  have h0 : Obs.resume now pid p.send tag ∈ (segStart now e pid tag p).ps.obs := by
    unfold segStart
    simp [hst, addObs]
  have h1 := acts_closed (obsMem_closed _) now seg.acts _ h0
  generalize seg.acts.foldl (runAct now) (segStart now e pid tag p) = e1 at h1
  cases seg.term with
  | yieldD d => simpa [segTerm] using h1
  | yieldF f =>
    simp only [segTerm]
    split
    · rw [resumeParked_obs]; exact h1
    · exact h1
  | ret =>
    simp only [segTerm]
    apply runHooks_closed (obsMem_closed _)
    exact List.mem_cons_of_mem _ h1

/-! ### a future that is awaited directly and watched by combinators at the same time -/

/-- **`resolve` wakes the parked process and then notifies every watcher**: on an unresolved future the
    call marks it resolved, resumes the process parked on it (if any) and then runs *all* settle
    callbacks registered on it (the `any_of` / `all_of` composites it is an input of), in registration
    order — having a parked process does not exempt the watchers -/
theorem resolve_wakes_then_notifies (fuel : Nat) (e : Eff) (now f : Nat) (v : Val)
    (hr : (futGet e.ps.futs f).resolved = false) :
    resolveFut (fuel + 1) e now f v
      = (futGet e.ps.futs f).cbs.foldl (cbStep fuel now v) (markResolved e now f v) := by
  rw [resolveFut_succ]
  simp [hr]

/-! ### hop counters kept in the event's metadata -/

/-- **below the limit the packet is forwarded with the next hop count**: one fresh event, whose
    metadata (looked up by its creation tag) carries `hops = h + 1` where `h` is what the running
    handler's own event was delivered with -/
theorem relay_forwards (now : Nat) (e : Eff) (tgt kind delay limit : Nat) (dm : Bool) (h : e.ps.cur < limit) :
    (runAct now e (.relay tgt kind delay limit dm)).specs
        = e.specs ++ [⟨now + delay, tgt, kind, dm, 0, e.ps.tagc + 1⟩] ∧
    hopsAt (runAct now e (.relay tgt kind delay limit dm)).ps.hopsOf (e.ps.tagc + 1) = e.ps.cur + 1 ∧
    (runAct now e (.relay tgt kind delay limit dm)).ps.procs = e.ps.procs := by
  simp [runAct, h, Eff.push, hopsAt]

/-- at the limit nothing happens -/
theorem relay_stops (now : Nat) (e : Eff) (tgt kind delay limit : Nat) (dm : Bool) (h : ¬ e.ps.cur < limit) :
    runAct now e (.relay tgt kind delay limit dm) = e := by
  simp [runAct, h]

/-- **what a handler reads is what the event was scheduled with**: the hop count a process starts with
    depends on the event's creation tag only — a copy re-created by `reset()` (same tag, new creation
    index, new delivery) starts the same process as the original did, whatever handlers stamped on the
    delivered original in between -/
theorem hops_by_tag (ps : PS) (ev ev' : Ev) (d : HandlerDef) (h : ev.tag = ev'.tag) :
    (newProc ps ev d).hops = (newProc ps ev' d).hops := by
  simp [newProc, h]

end HappyModel.C01
