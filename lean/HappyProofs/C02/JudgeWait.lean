import HappyProofs.C02.JudgeDelay
/-!
# C02 — "resumed by a future only after waiting on one" is silent on the trace of the model

`Spec.waitMonitor` (the part of the C02 judge that raises `future/resumed-without-wait`) reads the `w`
lines (a process yielded a future) and the untagged `R` lines (a process was resumed by a future).
On the view of the model's own trace (`delayView`: `R`, `y`, `w` lines) it never fires: an untagged
continuation exists only for a process that was parked (`SimFuture._resume`), a process is parked only
by its own `yield future`, and a process has at most one pending resumption (`ProcInv.atMostOne`), so
every future-resumption is preceded by a `w` line of that process that no earlier resumption used up.
-/
namespace HappyModel.C01
open HappyModel.C02.Spec (Line WSt waitStep waitMonitor)
set_option linter.unusedVariables false
set_option linter.unusedSimpArgs false

/-- process `q` has an untagged continuation among the specs created so far, or is parked -/
def pendingU (e : Eff) (q : Nat) : Prop :=
  (∃ sp ∈ e.specs, sp.data = q + 1 ∧ sp.tag = 0) ∨ (∃ f, (futGet e.ps.futs f).parked = some q)

/-- … only processes of `W` are, and held events are plain -/
def PW (W : List Nat) (e : Eff) : Prop := (∀ q, pendingU e q → q ∈ W) ∧ ∀ x ∈ e.ps.held, x.2.data = 0

theorem PW_of {W : List Nat} {e e' : Eff} (h : PW W e)
    (hs : ∀ sp ∈ e'.specs, sp ∈ e.specs ∨ sp.data = 0 ∨ sp.tag ≠ 0 ∨ (∃ q, sp.data = q + 1 ∧ q ∈ W))
    (hf : ∀ f q, (futGet e'.ps.futs f).parked = some q → (∃ g, (futGet e.ps.futs g).parked = some q) ∨ q ∈ W)
    (hh : ∀ x ∈ e'.ps.held, x ∈ e.ps.held) : PW W e' := by
  refine ⟨?_, fun x hx => h.2 x (hh x hx)⟩
  intro q hq
  rcases hq with ⟨sp, hsp, hd, ht⟩ | ⟨f, hf'⟩
  · rcases hs sp hsp with h1 | h1 | h1 | ⟨q', hq', hW⟩
    · exact h.1 q (Or.inl ⟨sp, h1, hd, ht⟩)
    · omega
    · exact absurd ht h1
    · have : q' = q := by omega
      subst this; exact hW
  · rcases hf f q hf' with ⟨g, hg⟩ | hW
    · exact h.1 q (Or.inr ⟨g, hg⟩)
    · exact hW

theorem PW_same {W : List Nat} {e e' : Eff} (h : PW W e) (hs : e'.specs = e.specs)
    (hf : e'.ps.futs = e.ps.futs) (hh : e'.ps.held = e.ps.held) : PW W e' :=
  PW_of h (fun sp hsp => Or.inl (by rw [← hs]; exact hsp)) (fun f q hq => Or.inl ⟨f, by rw [← hf]; exact hq⟩)
    (fun x hx => by rw [← hh]; exact hx)

/-- rewriting one future record without parking anybody new -/
theorem PW_setFut {W : List Nat} {e : Eff} (h : PW W e) (f : Nat) (x : Fut)
    (hx : ∀ q, x.parked = some q → (futGet e.ps.futs f).parked = some q ∨ q ∈ W) : PW W (e.setFut f x) := by
  refine PW_of h (fun sp hsp => Or.inl hsp) ?_ (fun y hy => hy)
  intro g q hg
  simp only [setFut_futs, futGet_futSet] at hg
  split at hg
  · rcases hx q hg with h1 | h1
    · exact Or.inl ⟨f, h1⟩
    · exact Or.inr h1
  · exact Or.inl ⟨g, hg⟩

theorem PW_push {W : List Nat} {e : Eff} (h : PW W e) (sp : Spec) (hook : Nat) (tagged : Bool)
    (hd : sp.data = 0 ∨ tagged = true ∨ (∃ q, sp.data = q + 1 ∧ q ∈ W)) : PW W (e.push sp hook tagged) := by
  refine PW_of h ?_ (fun f q hq => Or.inl ⟨f, hq⟩) (fun x hx => hx)
  intro x hx
  rw [push_specs] at hx
  rcases List.mem_append.mp hx with hx | hx
  · exact Or.inl hx
  · simp only [List.mem_singleton] at hx
    subst hx
    rcases hd with hd | hd | hd
    · exact Or.inr (Or.inl hd)
    · exact Or.inr (Or.inr (Or.inl (by simp [hd])))
    · exact Or.inr (Or.inr (Or.inr hd))

theorem PW_resumed {W : List Nat} {e : Eff} (h : PW W e) (now f pid : Nat) (p : Proc)
    (hpk : (futGet e.ps.futs f).parked = some pid) : PW W (resumed e now f pid p) := by
  unfold resumed
  have hW : pid ∈ W := h.1 pid (Or.inr ⟨f, hpk⟩)
  have h1 := PW_push h (contSpec p pid now) 0 false (Or.inr (Or.inr ⟨pid, rfl, hW⟩))
  have h2 : PW W ((e.push (contSpec p pid now) 0 false).setFut f { futGet e.ps.futs f with parked := none }) :=
    PW_setFut h1 f _ (by intro q hq; simp at hq)
  exact PW_same h2 rfl rfl rfl

theorem PW_resumeParked {W : List Nat} {e : Eff} (h : PW W e) (now f : Nat) : PW W (resumeParked e now f) := by
  cases hpk : (futGet e.ps.futs f).parked with
  | none => rw [resumeParked_none e now f hpk]; exact h
  | some pid =>
    cases hp : e.ps.procs[pid]? with
    | none => rw [resumeParked_noproc e now f pid hpk hp]; exact h
    | some p => rw [resumeParked_some e now f pid p hpk hp]; exact PW_resumed h now f pid p hpk

theorem PW_closed (W : List Nat) : Closed (PW W) where
  resolve := by
    intro e now f v h hr
    unfold markResolved
    apply PW_resumeParked
    exact PW_setFut h f _ (by intro q hq; exact Or.inl hq)
  allUpd := fun e c res rem h hr => PW_setFut h c _ (by intro q hq; exact Or.inl hq)
  cbAdd := fun e g cb h hr => PW_setFut h g _ (by intro q hq; exact Or.inl hq)
  bind := fun e f rs rm h => PW_setFut h f _ (by intro q hq; simp at hq)
  push := fun e sp hook tagged hd h => PW_push h sp hook tagged (Or.inl hd)
  release := by
    intro e i sp h hm
    refine PW_of h ?_ (fun f q hq => Or.inl ⟨f, hq⟩) (fun x hx => (List.mem_filter.mp hx).1)
    intro x hx
    rcases List.mem_append.mp hx with hx | hx
    · exact Or.inl hx
    · simp only [List.mem_singleton] at hx
      subst hx
      exact Or.inr (Or.inl (h.2 (i, x) hm))
  crashed := fun e l h => PW_same h rfl rfl rfl
  cancels := fun e l h => PW_same h rfl rfl rfl
  hookLate := fun e pid hook h => PW_same h rfl rfl rfl
  hookEarly := fun e id hook h => PW_same h rfl rfl rfl
  level := fun e l h => PW_same h rfl rfl rfl
  hops := fun e l h => PW_same h rfl rfl rfl
  obs := fun e o ho h => PW_same h rfl rfl rfl

theorem PW_mono {W W' : List Nat} {e : Eff} (h : PW W e) (hsub : ∀ q ∈ W, q ∈ W') : PW W' e :=
  ⟨fun q hq => hsub q (h.1 q hq), h.2⟩

/-- the pids of the `w` lines -/
def waitPids (ls : List Line) : List Nat :=
  ls.filterMap (fun l => match l with | .wait pid _ _ => some pid | _ => none)

theorem segTerm_PW (W : List Nat) (now : Nat) (e1 : Eff) (pid : Nat) (p1 : Proc) (rest : List Seg) (t : Term)
    (h : PW W e1) :
    PW ((match t with | .yieldF _ => [pid] | _ => []) ++ W) (segTerm now e1 pid p1 rest t) := by
  cases t with
  | yieldD d =>
    simp only [segTerm, List.nil_append]
    exact PW_push (PW_same h rfl rfl rfl) _ 0 true (Or.inr (Or.inl rfl))
  | yieldF f =>
    simp only [segTerm]
    have hW : PW ([pid] ++ W) (e1.setProc pid { p1 with segs := rest }) :=
      PW_same (PW_mono h (fun q hq => by simp [hq])) rfl rfl rfl
    have h2 := PW_setFut hW f
      { futGet (e1.setProc pid { p1 with segs := rest }).ps.futs f with parked := some pid }
      (by intro q hq; simp at hq; subst hq; exact Or.inr (by simp))
    split
    · exact PW_resumeParked h2 now f
    · exact h2
  | ret =>
    simp only [segTerm, List.nil_append]
    apply runHooks_closed (PW_closed W)
    exact PW_same h rfl rfl rfl

theorem runSegment_PW (W : List Nat) (now : Nat) (e : Eff) (pid tag : Nat) (h : PW W e) :
    PW (waitPids (termLines e pid) ++ W) (runSegment now e pid tag) := by
  cases hp : e.ps.procs[pid]? with
  | none =>
    have htl : termLines e pid = [] := by simp [termLines, hp]
    rw [runSegment_noproc now e pid tag hp, htl]; simpa [waitPids] using h
  | some p =>
    cases hs : p.segs with
    | nil =>
      have htl : termLines e pid = [] := by simp [termLines, hp, hs]
      have : runSegment now e pid tag = e := by simp [runSegment, hp, hs]
      rw [this, htl]; simpa [waitPids] using h
    | cons seg rest =>
      rw [runSegment_eq now e pid tag p seg rest hp hs]
      unfold segBody
      have h0 : PW W (segStart now e pid tag p) := by
        unfold segStart
        split
        · exact PW_same h rfl rfl rfl
        · exact PW_same h rfl rfl rfl
      have h1 := acts_closed (PW_closed W) now seg.acts _ h0
      have h2 := segTerm_PW W now _ pid { p with started := true, send := .none } rest seg.term h1
      cases ht : seg.term with
      | yieldD d =>
        have htl : termLines e pid = [] := by simp [termLines, hp, hs, ht]
        rw [htl]; rw [ht] at h2; simpa [waitPids] using h2
      | yieldF f =>
        have htl : termLines e pid = [Line.wait pid f p.daemon] := by simp [termLines, hp, hs, ht]
        rw [htl]; rw [ht] at h2; simpa [waitPids] using h2
      | ret =>
        have htl : termLines e pid = [] := by simp [termLines, hp, hs, ht]
        rw [htl]; rw [ht] at h2; simpa [waitPids] using h2

theorem procEff_PW (W : List Nat) (ps : PS) (now : Nat) (ev : Ev) (h0 : PW W ({ ps := ps } : Eff)) :
    PW (waitPids (wLine ps now ev) ++ W) (procEff ps now ev) := by
  unfold procEff wLine
  by_cases hd : ev.data = 0
  · simp only [hd, if_true]
    cases hfind : ps.defs.find? (fun d => d.ent == ev.target && d.kind == ev.kind) with
    | none =>
      simp only [waitPids, List.filterMap_nil, List.nil_append]
      apply runHooks_closed (PW_closed W)
      exact PW_same h0 rfl rfl rfl
    | some d =>
      simp only []
      apply runSegment_PW
      exact PW_same h0 rfl rfl rfl
  · simp only [hd, if_false]
    exact runSegment_PW W now _ _ _ h0

/-! ## the link at the level of a run -/

/-- `q` has an untagged continuation in the heap, or is parked -/
def pendH (s : St PS) (q : Nat) : Prop :=
  (∃ ev ∈ s.heap, ev.data = q + 1 ∧ ev.tag = 0) ∨ (∃ f, (futGet s.ent.futs f).parked = some q)

structure WI (s : St PS) (w : WSt) : Prop where
  err : w.err = none
  pend : ∀ q, pendH s q → q ∈ w.waits

theorem WI_skip (s : St PS) (w : WSt) (m : Ev) (now' a b c prim : Nat) (pp : List (Ev × Verdict)) (h : WI s w) :
    WI { s with heap := s.heap.erase m, primary := prim, now := now', processed := a, nCancelled := b,
                nStale := c, popped := pp } w := by
  refine ⟨h.err, ?_⟩
  intro q hq
  apply h.pend q
  rcases hq with ⟨ev, he, hd⟩ | hf
  · exact Or.inl ⟨ev, List.mem_of_mem_erase he, hd⟩
  · exact Or.inr hf

theorem mkEvents_full (n t : Nat) (specs : List Spec) :
    ∀ e ∈ mkEvents n t specs, ∃ sp ∈ specs, e.data = sp.data ∧ e.tag = sp.tag := by
  induction specs generalizing n with
  | nil => intro e he; simp [mkEvents] at he
  | cons a r ih =>
    intro e he
    simp only [mkEvents, List.mem_cons] at he
    rcases he with rfl | he
    · exact ⟨a, by simp, rfl, rfl⟩
    · obtain ⟨sp, hsp, h⟩ := ih (n + 1) e he
      exact ⟨sp, List.mem_cons_of_mem _ hsp, h⟩

theorem waitPids_fold (ls : List Line) (w : WSt) (hl : ∀ l ∈ ls, ∃ pid f dm, l = Line.wait pid f dm) :
    (ls.foldl waitStep w).err = w.err ∧ ∀ q, q ∈ waitPids ls ++ w.waits → q ∈ (ls.foldl waitStep w).waits := by
  induction ls generalizing w with
  | nil => exact ⟨rfl, fun q hq => by simpa [waitPids] using hq⟩
  | cons l r ih =>
    obtain ⟨pid, f, dm, rfl⟩ := hl l (by simp)
    have ih' := ih { w with waits := pid :: w.waits } (fun l hl' => hl l (List.mem_cons_of_mem _ hl'))
    simp only [List.foldl_cons, waitStep]
    refine ⟨ih'.1, ?_⟩
    intro q hq
    apply ih'.2
    simp only [waitPids, List.filterMap_cons, List.cons_append, List.mem_cons, List.mem_append] at hq ⊢
    rcases hq with rfl | hq | hq
    · right; left; rfl
    · left; exact hq
    · right; right; exact hq

theorem termLines_waits (e : Eff) (pid : Nat) : ∀ l ∈ termLines e pid, ∃ p f dm, l = Line.wait p f dm := by
  unfold termLines
  split
  · split
    · split
      · intro l hl; simp only [List.mem_singleton] at hl; exact ⟨_, _, _, hl⟩
      · intro l hl; simp at hl
    · intro l hl; simp at hl
  · intro l hl; simp at hl

theorem wLine_waits (ps : PS) (now : Nat) (ev : Ev) : ∀ l ∈ wLine ps now ev, ∃ p f dm, l = Line.wait p f dm := by
  unfold wLine
  split
  · split
    · intro l hl; simp at hl
    · exact termLines_waits _ _
  · exact termLines_waits _ _

theorem yLines_wait (specs : List Spec) (w : WSt) : (yLines specs).foldl waitStep w = w := by
  unfold yLines
  induction (specs.filter tcSpec) generalizing w with
  | nil => rfl
  | cons a r ih => simp only [List.map_cons, List.foldl_cons, waitStep]; exact ih w

/-- the monitor after the `R` line of a delivered event -/
theorem WI_rLine (s : St PS) (w : WSt) (m : Ev) (hm : m ∈ s.heap) (pinv : ProcInv s) (h : WI s w) :
    ((rLine s.ent m).foldl waitStep w).err = none ∧
    (∀ q, (∃ f, (futGet s.ent.futs f).parked = some q) → q ∈ ((rLine s.ent m).foldl waitStep w).waits) ∧
    (∀ q, (∃ ev ∈ s.heap.erase m, ev.data = q + 1 ∧ ev.tag = 0) → q ∈ ((rLine s.ent m).foldl waitStep w).waits) := by
  have keep : (∀ q, (∃ f, (futGet s.ent.futs f).parked = some q) → q ∈ w.waits) ∧
      (∀ q, (∃ ev ∈ s.heap.erase m, ev.data = q + 1 ∧ ev.tag = 0) → q ∈ w.waits) :=
    ⟨fun q hq => h.pend q (Or.inr hq),
     fun q ⟨ev, he, hd⟩ => h.pend q (Or.inl ⟨ev, List.mem_of_mem_erase he, hd⟩)⟩
  unfold rLine
  split
  · exact ⟨h.err, keep⟩
  · rename_i hd
    split
    · rename_i p hp
      split
      · simp only [List.foldl_cons, List.foldl_nil, waitStep]
        by_cases htag : m.tag = 0
        · -- resumed by a future: the process had yielded one
          have hdat : m.data = (m.data - 1) + 1 := by omega
          have hin : (m.data - 1) ∈ w.waits := h.pend _ (Or.inl ⟨m, hm, hdat, htag⟩)
          have hc : w.waits.contains (m.data - 1) = true := by simpa using hin
          simp only [htag, bne_self_eq_false, Bool.false_eq_true, if_false, hc, if_true]
          -- nothing else of this process is pending
          have h1 := cntHeap_erase_mem s.heap m (m.data - 1) hm
          have h2 := pinv.atMostOne (m.data - 1)
          have hi : ind (m.data == m.data - 1 + 1) = 1 := by simp [ind, ← hdat]
          have hz1 : cntHeap (s.heap.erase m) (m.data - 1) = 0 := by omega
          have hz2 : cntPark s.ent.futs (m.data - 1) = 0 := by omega
          refine ⟨h.err, ?_, ?_⟩
          · intro q hq
            have hne : q ≠ m.data - 1 := by
              intro heq
              obtain ⟨f, hf⟩ := hq
              rw [heq] at hf
              exact (cntPark_zero s.ent.futs (m.data - 1)).mp hz2 f hf
            exact List.mem_filter.mpr ⟨keep.1 q hq, by simp [hne]⟩
          · intro q hq
            have hne : q ≠ m.data - 1 := by
              intro heq
              obtain ⟨ev, he, hdq, _⟩ := hq
              unfold cntHeap at hz1
              rw [List.countP_eq_zero] at hz1
              have := hz1 ev he
              simp [hdq, heq] at this
            exact List.mem_filter.mpr ⟨keep.2 q hq, by simp [hne]⟩
        · have ht : (m.tag != 0) = true := by simp [htag]
          simp only [ht, if_true]
          exact ⟨h.err, keep⟩
      · exact ⟨h.err, keep⟩
    · exact ⟨h.err, keep⟩

theorem WI_step (s : St PS) (ls : List Line) (m : Ev) (hm : m ∈ s.heap) (pinv : ProcInv s)
    (h : WI s (ls.foldl waitStep {})) :
    WI (stepWith procMachine s m) ((viewStep s ls m).foldl waitStep {}) := by
  unfold stepWith viewStep
  simp only []
  split
  · exact WI_skip s _ m _ _ _ _ _ _ h
  · split
    · exact WI_skip s _ m _ _ _ _ _ _ h
    · split
      · exact WI_skip s _ m _ _ _ _ _ _ h
      · have heq := procHandle_eq s.ent m.time m
        have hent : (procMachine.handle s.ent m.time m).ent = (procEff s.ent m.time m).ps := by
          show (procHandle s.ent m.time m).ent = _; rw [heq]
        have hspecs : (procMachine.handle s.ent m.time m).specs = (procEff s.ent m.time m).specs := by
          show (procHandle s.ent m.time m).specs = _; rw [heq]
        obtain ⟨hr1, hr2, hr3⟩ := WI_rLine s _ m hm pinv h
        unfold delayLines
        rw [List.foldl_append, List.foldl_append, List.foldl_append, yLines_wait]
        generalize (rLine s.ent m).foldl waitStep (ls.foldl waitStep {}) = w1 at hr1 hr2 hr3
        -- the handler invocation: only processes that were parked, and the one that yields a future now
        have h0 : PW w1.waits ({ ps := s.ent } : Eff) := by
          refine ⟨?_, pinv.heldPlain⟩
          intro q hq
          rcases hq with ⟨sp, hsp, _⟩ | hf
          · simp at hsp
          · exact hr2 q hf
        have hpw := procEff_PW w1.waits s.ent m.time m h0
        have hfold := waitPids_fold (wLine s.ent m.time m) w1 (wLine_waits s.ent m.time m)
        generalize procEff s.ent m.time m = r at hent hspecs hpw
        refine ⟨by rw [hfold.1]; exact hr1, ?_⟩
        intro q hq
        apply hfold.2
        rcases hq with ⟨ev, he, hd, ht⟩ | ⟨f, hf⟩
        · have he' : ev ∈ s.heap.erase m ++ mkEvents s.nextId m.time (procMachine.handle s.ent m.time m).specs := he
          rw [hspecs] at he'
          rcases List.mem_append.mp he' with he' | he'
          · exact List.mem_append_right _ (hr3 q ⟨ev, he', hd, ht⟩)
          · obtain ⟨sp, hsp, h1, h2⟩ := mkEvents_full _ _ _ ev he'
            exact hpw.1 q (Or.inl ⟨sp, hsp, by omega, by omega⟩)
        · have hf' : (futGet (procMachine.handle s.ent m.time m).ent.futs f).parked = some q := hf
          rw [hent] at hf'
          exact hpw.1 q (Or.inr ⟨f, hf'⟩)

theorem WI_run (endT : Option Nat) (n : Nat) (s : St PS) (ls : List Line) (pinv : ProcInv s)
    (h : WI s (ls.foldl waitStep {})) :
    WI (run procMachine endT n s) ((viewRun endT n s ls).foldl waitStep {}) := by
  induction n generalizing s ls with
  | zero => simpa [run, viewRun]
  | succ n ih =>
    unfold run viewRun step
    cases hh : s.heap with
    | nil => simpa
    | cons x xs =>
      simp only []
      by_cases hc : continues endT s = true
      · simp only [hc, if_true]
        have hmem : minOf x xs ∈ s.heap := by rw [hh]; exact (pop_is_min x xs).1
        exact ih _ _ (step_procInv s _ pinv hmem) (WI_step s ls _ hmem pinv h)
      · simp only [hc, Bool.false_eq_true, if_false]
        exact h

/-- **`future/resumed-without-wait` is silent on the trace of the model**: for every handler table and
    every initial state with plain pending events, every end time and number of iterations, whenever a
    process is resumed by a future it had yielded a future since its previous resumption -/
theorem wait_clause_silent_on_model (endT : Option Nat) (n : Nat) (s0 : St PS) (h0 : InitOk s0) :
    waitMonitor (delayView endT n s0) = none := by
  refine (WI_run endT n s0 [] h0.procInv ⟨rfl, ?_⟩).err
  intro q hq
  rcases hq with ⟨ev, he, hd, _⟩ | ⟨f, hf⟩
  · have := h0.heapPlain ev he; omega
  · rw [h0.noPark f] at hf; simp at hf

theorem wait_clause_silent_on_program (p : Program) (gateCont : Bool) (hp : p.Plain) (endT : Option Nat) (n : Nat) :
    waitMonitor (delayView endT n (p.initState gateCont)) = none :=
  wait_clause_silent_on_model endT n _ (initState_ok p gateCont hp)

def isWaitLine : Line → Bool
  | .wait _ _ _ => true
  | .resume _ _ _ _ => true
  | _ => false

theorem waitMonitor_filter (ls : List Line) : waitMonitor ls = waitMonitor (ls.filter isWaitLine) := by
  unfold waitMonitor
  generalize ({} : WSt) = d
  induction ls generalizing d with
  | nil => rfl
  | cons l r ih =>
    simp only [List.foldl_cons, List.filter_cons]
    cases l <;> simp [isWaitLine, waitStep, ih]

/-- **the delay and wait clauses on any trace with the model's `R` / `y` / `w` content**: whatever other
    lines (creations, resolves, combinators, hooks, deliveries, …) a full trace interleaves with them, if
    its `R`, `y` and `w` lines are the ones the model writes, the five clauses
    `process/resumed-without-pending-delay`, `process/delay-resume-at-wrong-time`,
    `process/delay-resume-raised`, `process/delay-resume-with-value` and `future/resumed-without-wait` of
    the C02 judge stay silent -/
theorem process_trace_satisfies_c02_spec_delay_wait (endT : Option Nat) (n : Nat) (s0 : St PS) (inv : Inv s0)
    (h0 : InitOk s0) (L : List Line)
    (hL : L.filter (fun l => isDelayLine l || isWaitLine l) = delayView endT n s0) :
    HappyModel.C02.Spec.delayMonitor L = none ∧ waitMonitor L = none := by
  have hD : L.filter isDelayLine = (delayView endT n s0).filter isDelayLine := by
    rw [← hL, List.filter_filter]
    congr 1; funext l; cases isDelayLine l <;> simp
  have hW : L.filter isWaitLine = (delayView endT n s0).filter isWaitLine := by
    rw [← hL, List.filter_filter]
    congr 1; funext l; cases isWaitLine l <;> simp
  constructor
  · rw [delayMonitor_filter, hD, ← delayMonitor_filter]
    exact delay_clauses_silent_on_model endT n s0 inv h0
  · rw [waitMonitor_filter, hW, ← waitMonitor_filter]
    exact wait_clause_silent_on_model endT n s0 h0

end HappyModel.C01
