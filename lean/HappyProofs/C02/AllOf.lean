import HappyProofs.C02.Combinators
/-!
# C02 — `all_of` over plain futures (one level): one input settles
-/
namespace HappyModel.C01
set_option linter.unusedVariables false

/-- the state after input `i` of `f = all_of(gs)` settled with `v`, before `f` itself is looked at -/
def allAcc (e : Eff) (now f g i : Nat) (v : Val) : Eff :=
  (markResolved e now g v).setFut f
    { futGet e.ps.futs f with results := (futGet e.ps.futs f).results.set i v,
                              remaining := (futGet e.ps.futs f).remaining - 1 }

theorem allof_step_eq (fuel : Nat) (e : Eff) (now f : Nat) (gs : List Nat) (i : Nat) (v : Val)
    (sh : AllShape e f gs) (hi : i < gs.length) (hun : (futGet e.ps.futs gs[i]).resolved = false) :
    resolveFut (fuel + 2) e now gs[i] v =
      if (futGet e.ps.futs f).remaining - 1 = 0
      then markResolved (allAcc e now f gs[i] i v) now f (.list ((futGet e.ps.futs f).results.set i v))
      else allAcc e now f gs[i] i v := by
  have hcb := (sh.inp i hi).2 hun
  have hne : f ≠ gs[i] := fun heq => sh.notin (heq ▸ List.getElem_mem hi)
  rw [resolveFut_succ]
  simp only [hun, Bool.false_eq_true, if_false, hcb, List.foldl_cons, List.foldl_nil, cbStep, allStep]
  rw [markResolved_futGet_ne e now gs[i] f v hne]
  simp only [sh.unres, Bool.false_eq_true, if_false]
  split
  · rw [resolveFut_succ]
    simp only [setFut_futs, futGet_futSet_same, sh.nocb, Bool.false_eq_true, if_false,
      List.foldl_nil]
    simp [allAcc, sh.unres, sh.nocb]
  · simp [allAcc, sh.unres, sh.nocb]

theorem allAcc_f (e : Eff) (now f g i : Nat) (v : Val) :
    futGet (allAcc e now f g i v).ps.futs f =
      { futGet e.ps.futs f with results := (futGet e.ps.futs f).results.set i v,
                                remaining := (futGet e.ps.futs f).remaining - 1 } := by
  simp [allAcc, futGet_futSet]

theorem allAcc_g (e : Eff) (now f g i : Nat) (v : Val) (hne : f ≠ g) :
    (futGet (allAcc e now f g i v).ps.futs g).resolved = true ∧
    (futGet (allAcc e now f g i v).ps.futs g).value = v ∧
    (futGet (allAcc e now f g i v).ps.futs g).cbs = [] := by
  have h := markResolved_futGet_same e now g v
  simp only [allAcc, setFut_futs, futGet_futSet, Ne.symm hne, if_false]
  exact ⟨h.1, h.2.1, h.2.2.1⟩

theorem allAcc_other (e : Eff) (now f g i x : Nat) (v : Val) (h1 : x ≠ f) (h2 : x ≠ g) :
    futGet (allAcc e now f g i v).ps.futs x = futGet e.ps.futs x := by
  simp only [allAcc, setFut_futs, futGet_futSet, h1, if_false]
  exact markResolved_futGet_ne e now g x v h2

theorem allAcc_resolved_other (e : Eff) (now f g i x : Nat) (v : Val) (h2 : x ≠ g) :
    (futGet (allAcc e now f g i v).ps.futs x).resolved = (futGet e.ps.futs x).resolved := by
  by_cases h1 : x = f
  · subst h1; rw [allAcc_f]
  · rw [allAcc_other e now f g i x v h1 h2]

/-- **all_of resolves exactly when its last input settles, with every value in argument order.**
    While `f = all_of(gs)` is unresolved (`AllShape`: `remaining` = number of unresolved inputs,
    settled inputs have their value in their slot), resolving an unresolved input `gs[i]` with `v`:
    * if other inputs are still missing (`remaining ≠ 1`), `f` stays unresolved and the shape holds
      again with one input fewer missing;
    * if it was the last one (`remaining = 1`), `f` is resolved in the same call with the list of the
      inputs' values in argument order, and every input is resolved. -/
theorem allof_step_core (fuel : Nat) (e : Eff) (now f : Nat) (gs : List Nat) (i : Nat) (v : Val)
    (sh : AllShape e f gs) (hi : i < gs.length) (hun : (futGet e.ps.futs gs[i]).resolved = false) :
    ((futGet e.ps.futs f).remaining ≠ 1 →
      AllShape (resolveFut (fuel + 2) e now gs[i] v) f gs ∧
      (futGet (resolveFut (fuel + 2) e now gs[i] v).ps.futs f).remaining + 1 = (futGet e.ps.futs f).remaining) ∧
    ((futGet e.ps.futs f).remaining = 1 →
      (futGet (resolveFut (fuel + 2) e now gs[i] v).ps.futs f).resolved = true ∧
      (futGet (resolveFut (fuel + 2) e now gs[i] v).ps.futs f).value
        = .list (gs.map (fun g => (futGet (resolveFut (fuel + 2) e now gs[i] v).ps.futs g).value)) ∧
      ∀ g ∈ gs, (futGet (resolveFut (fuel + 2) e now gs[i] v).ps.futs g).resolved = true) := by
  have hne : f ≠ gs[i] := fun heq => sh.notin (heq ▸ List.getElem_mem hi)
  have hnef : ∀ j (hj : j < gs.length), gs[j] ≠ f := fun j hj heq => sh.notin (heq ▸ List.getElem_mem hj)
  have hinj : ∀ j (hj : j < gs.length), j ≠ i → gs[j] ≠ gs[i] := by
    intro j hj hji heq
    exact hji ((List.getElem_inj sh.nodup).mp heq)
  have hlen : i < (futGet e.ps.futs f).results.length := by rw [sh.len]; exact hi
  -- the count of unresolved inputs drops by exactly one
  have hcount : gs.countP (fun g => !(futGet (allAcc e now f gs[i] i v).ps.futs g).resolved) + 1
      = gs.countP (fun g => !(futGet e.ps.futs g).resolved) := by
    apply countP_flip_one gs gs[i] _ _ sh.nodup (List.getElem_mem hi)
    · simp [hun]
    · simp [(allAcc_g e now f gs[i] i v hne).1]
    · intro x hx; show (!(futGet (allAcc e now f gs[i] i v).ps.futs x).resolved) = !(futGet e.ps.futs x).resolved; rw [allAcc_resolved_other e now f gs[i] i x v hx]
  have hpos : 1 ≤ (futGet e.ps.futs f).remaining := by rw [sh.rem]; omega
  -- slots after the update
  have hslot : ∀ j (hj : j < gs.length),
      (futGet (allAcc e now f gs[i] i v).ps.futs gs[j]).resolved = true →
      ((futGet e.ps.futs f).results.set i v)[j]? = some (futGet (allAcc e now f gs[i] i v).ps.futs gs[j]).value := by
    intro j hj hres
    by_cases hji : j = i
    · subst hji
      rw [(allAcc_g e now f gs[j] j v hne).2.1]
      simp [hlen]
    · rw [allAcc_other e now f gs[i] i gs[j] v (hnef j hj) (hinj j hj hji)] at hres ⊢
      rw [List.getElem?_set_ne (Ne.symm hji)]
      exact (sh.inp j hj).1 hres
  rw [allof_step_eq fuel e now f gs i v sh hi hun]
  constructor
  · intro hrem
    have hr0 : ¬ ((futGet e.ps.futs f).remaining - 1 = 0) := by omega
    rw [if_neg hr0]
    refine ⟨⟨sh.nodup, sh.notin, ?_, ?_, ?_, ?_, ?_⟩, ?_⟩
    · rw [allAcc_f]; exact sh.unres
    · rw [allAcc_f]; exact sh.nocb
    · rw [allAcc_f]; simp [sh.len]
    · rw [allAcc_f]; simp only []; rw [sh.rem]; omega
    · intro j hj
      constructor
      · intro hres
        rw [allAcc_f]
        exact hslot j hj hres
      · intro hunj
        by_cases hji : j = i
        · subst hji; rw [(allAcc_g e now f gs[j] j v hne).1] at hunj; simp at hunj
        · rw [allAcc_other e now f gs[i] i gs[j] v (hnef j hj) (hinj j hj hji)] at hunj ⊢
          exact (sh.inp j hj).2 hunj
    · rw [allAcc_f]; simp only []; omega
  · intro hrem
    have hr0 : (futGet e.ps.futs f).remaining - 1 = 0 := by omega
    rw [if_pos hr0]
    have hz : gs.countP (fun g => !(futGet (allAcc e now f gs[i] i v).ps.futs g).resolved) = 0 := by
      rw [sh.rem] at hrem; omega
    rw [List.countP_eq_zero] at hz
    have hall : ∀ g ∈ gs, (futGet (allAcc e now f gs[i] i v).ps.futs g).resolved = true := by
      intro g hg; have := hz g hg; simpa using this
    have hsame := markResolved_futGet_same (allAcc e now f gs[i] i v) now f
      (.list ((futGet e.ps.futs f).results.set i v))
    have hoth : ∀ g ∈ gs, futGet (markResolved (allAcc e now f gs[i] i v) now f
        (.list ((futGet e.ps.futs f).results.set i v))).ps.futs g
        = futGet (allAcc e now f gs[i] i v).ps.futs g := by
      intro g hg
      exact markResolved_futGet_ne _ now f g _ (fun heq => sh.notin (heq ▸ hg))
    refine ⟨hsame.1, ?_, ?_⟩
    · rw [hsame.2.1]
      congr 1
      apply List.ext_getElem?
      intro j
      by_cases hj : j < gs.length
      · rw [hslot j hj (hall _ (List.getElem_mem hj))]
        simp only [List.getElem?_map, List.getElem?_eq_getElem hj, Option.map_some]
        rw [hoth _ (List.getElem_mem hj)]
      · have h1 : gs.length ≤ j := by omega
        rw [List.getElem?_eq_none (by simp [sh.len]; exact h1), List.getElem?_eq_none (by simp; exact h1)]
    · intro g hg
      rw [hoth g hg]; exact hall g hg

end HappyModel.C01
