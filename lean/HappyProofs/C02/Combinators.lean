import HappyProofs.C02.Resume
/-!
# C02 — `any_of` / `all_of` over plain futures (one level)

`AnyShape e f gs` / `AllShape e f gs` describe the future table after `f := any_of(gs…)` /
`f := all_of(gs…)` was built over pairwise distinct plain futures and while `f` is unresolved;
`anyOf_shape` / `allOf_shape` show that the constructors establish them.
-/
namespace HappyModel.C01
set_option linter.unusedVariables false

/-! ### registering callbacks -/

theorem addCb_unresolved (e : Eff) (now g : Nat) (cb : Cb) (h : (futGet e.ps.futs g).resolved = false) :
    addCb e now g cb = e.setFut g { futGet e.ps.futs g with cbs := (futGet e.ps.futs g).cbs ++ [cb] } := by
  rw [addCb_eq]; simp [h]

theorem addCb_fold (mk : Nat → Cb) (now : Nat) (ps : List (Nat × Nat)) :
    ∀ (e : Eff), (ps.map (·.2)).Nodup → (∀ p ∈ ps, (futGet e.ps.futs p.2).resolved = false) →
    (∀ g, g ∉ ps.map (·.2) →
      futGet (ps.foldl (fun acc p => addCb acc now p.2 (mk p.1)) e).ps.futs g = futGet e.ps.futs g) ∧
    (∀ p ∈ ps, futGet (ps.foldl (fun acc p => addCb acc now p.2 (mk p.1)) e).ps.futs p.2
      = { futGet e.ps.futs p.2 with cbs := (futGet e.ps.futs p.2).cbs ++ [mk p.1] }) := by
  induction ps with
  | nil => intro e _ _; simp
  | cons a t ih =>
    intro e hnd hun
    simp only [List.map_cons, List.nodup_cons] at hnd
    have ha := hun a (by simp)
    simp only [List.foldl_cons]
    rw [addCb_unresolved e now a.2 (mk a.1) ha]
    generalize he' : e.setFut a.2 { futGet e.ps.futs a.2 with cbs := (futGet e.ps.futs a.2).cbs ++ [mk a.1] } = e'
    have hsame : ∀ g, g ≠ a.2 → futGet e'.ps.futs g = futGet e.ps.futs g := by
      intro g hg; subst he'; simp [futGet_futSet, hg]
    have hat : futGet e'.ps.futs a.2
        = { futGet e.ps.futs a.2 with cbs := (futGet e.ps.futs a.2).cbs ++ [mk a.1] } := by
      subst he'; simp [futGet_futSet]
    have hne : ∀ p ∈ t, p.2 ≠ a.2 := by
      intro p hp heq
      exact hnd.1 (List.mem_map.mpr ⟨p, hp, heq⟩)
    have ⟨ih1, ih2⟩ := ih e' hnd.2 (by
      intro p hp; rw [hsame p.2 (hne p hp)]; exact hun p (by simp [hp]))
    constructor
    · intro g hg
      simp only [List.map_cons, List.mem_cons, not_or] at hg
      rw [ih1 g hg.2, hsame g hg.1]
    · intro p hp
      rcases List.mem_cons.mp hp with rfl | hp
      · rw [ih1 _ hnd.1, hat]
      · rw [ih2 p hp, hsame p.2 (hne p hp)]

theorem enum_snd (gs : List Nat) : (enum gs).map (·.2) = gs := by
  unfold enum
  rw [List.map_snd_zip]
  simp

theorem enum_mem (gs : List Nat) (i : Nat) (hi : i < gs.length) : (i, gs[i]) ∈ enum gs := by
  unfold enum
  rw [List.mem_iff_getElem]
  refine ⟨i, by simp [hi], ?_⟩
  simp

/-! ### any_of -/

structure AnyShape (e : Eff) (f : Nat) (gs : List Nat) : Prop where
  notin : f ∉ gs
  unres : (futGet e.ps.futs f).resolved = false
  nocb : (futGet e.ps.futs f).cbs = []
  inp : ∀ i (h : i < gs.length),
    (futGet e.ps.futs gs[i]).resolved = false ∧ (futGet e.ps.futs gs[i]).cbs = [.anyCb f i]

/-- `f := any_of(gs…)` over pairwise distinct, unresolved, callback-free futures -/
theorem anyOf_shape (now : Nat) (e : Eff) (f : Nat) (gs : List Nat) (hnd : gs.Nodup) (hf : f ∉ gs)
    (hgs : ∀ g ∈ gs, (futGet e.ps.futs g).resolved = false ∧ (futGet e.ps.futs g).cbs = []) :
    AnyShape (runAct now e (.anyOf f gs)) f gs := by
  simp only [runAct]
  have hsame : ∀ g, g ≠ f → futGet (e.setFut f {}).ps.futs g = futGet e.ps.futs g := by
    intro g hg; simp [futGet_futSet, hg]
  have hne : ∀ g ∈ gs, g ≠ f := fun g hg heq => hf (heq ▸ hg)
  have ⟨h1, h2⟩ := addCb_fold (Cb.anyCb f) now (enum gs) (e.setFut f {}) (by rw [enum_snd]; exact hnd) (by
    intro p hp
    have hp2 : p.2 ∈ gs := by rw [← enum_snd gs]; exact List.mem_map.mpr ⟨p, hp, rfl⟩
    rw [hsame p.2 (hne _ hp2)]; exact (hgs p.2 hp2).1)
  have hff : futGet (List.foldl (fun acc p => addCb acc now p.2 (Cb.anyCb f p.1)) (e.setFut f {}) (enum gs)).ps.futs f
      = {} := by
    rw [h1 f (by rw [enum_snd]; exact hf)]; simp [futGet_futSet]
  refine ⟨hf, ?_, ?_, ?_⟩
  · show (futGet (List.foldl (fun acc p => addCb acc now p.2 (Cb.anyCb f p.1)) (e.setFut f {}) (enum gs)).ps.futs f).resolved = false
    rw [hff]
  · show (futGet (List.foldl (fun acc p => addCb acc now p.2 (Cb.anyCb f p.1)) (e.setFut f {}) (enum gs)).ps.futs f).cbs = []
    rw [hff]
  · intro i hi
    have hm := enum_mem gs i hi
    have hgi := hgs gs[i] (List.getElem_mem hi)
    have := h2 (i, gs[i]) hm
    simp only [] at this
    show (futGet (List.foldl (fun acc p => addCb acc now p.2 (Cb.anyCb f p.1)) (e.setFut f {}) (enum gs)).ps.futs gs[i]).resolved = false ∧
      (futGet (List.foldl (fun acc p => addCb acc now p.2 (Cb.anyCb f p.1)) (e.setFut f {}) (enum gs)).ps.futs gs[i]).cbs = [.anyCb f i]
    rw [this, hsame _ (hne _ (List.getElem_mem hi))]
    simp [hgi.1, hgi.2]

/-- resolving input `i` of an unresolved `any_of`: the composite is resolved in the same call -/
theorem anyof_first_eq (fuel : Nat) (e : Eff) (now f : Nat) (gs : List Nat) (i : Nat) (v : Val)
    (sh : AnyShape e f gs) (hi : i < gs.length) :
    resolveFut (fuel + 2) e now gs[i] v
      = markResolved (markResolved e now gs[i] v) now f (.pair i v) := by
  have ⟨hun, hcb⟩ := sh.inp i hi
  have hne : f ≠ gs[i] := fun heq => sh.notin (heq ▸ List.getElem_mem hi)
  rw [resolveFut_succ]
  simp only [hun, Bool.false_eq_true, if_false, hcb, List.foldl_cons, List.foldl_nil, cbStep]
  rw [resolveFut_succ]
  rw [markResolved_futGet_ne e now gs[i] f v hne]
  simp [sh.unres, sh.nocb]

/-- `resolve` on a future with a parked process: its continuation at `now`, carrying the value -/
theorem markResolved_resumes (e : Eff) (now f pid : Nat) (v : Val) (p : Proc)
    (hpk : (futGet e.ps.futs f).parked = some pid) (hp : e.ps.procs[pid]? = some p) :
    (markResolved e now f v).specs = e.specs ++ [contSpec p pid now] ∧
    ∃ q, (markResolved e now f v).ps.procs[pid]? = some q ∧ q.send = v := by
  unfold markResolved
  generalize he1 : e.setFut f { futGet e.ps.futs f with resolved := true, value := v, cbs := [] } = e1
  have hget : futGet e1.ps.futs f = { futGet e.ps.futs f with resolved := true, value := v, cbs := [] } := by
    subst he1; simp [futGet_futSet]
  have hprocs : e1.ps.procs = e.ps.procs := by subst he1; rfl
  have hspecs : e1.specs = e.specs := by subst he1; rfl
  rw [resumeParked_some e1 now f pid p (by rw [hget]; exact hpk) (by rw [hprocs]; exact hp)]
  unfold resumed
  have hl : pid < e1.ps.procs.length := by rw [hprocs]; exact getElem?_some_lt hp
  refine ⟨by simp only [setProc_specs, setFut_specs, push_cont_specs, hspecs],
    { p with send := (futGet e1.ps.futs f).value }, ?_, ?_⟩
  · simp only [setProc_procs, setFut_procs, push_procs]; rw [List.getElem?_set_self hl]
  · simp [hget]

theorem markResolved_procs_some (e : Eff) (now f pid : Nat) (v : Val) (p : Proc) (hp : e.ps.procs[pid]? = some p) :
    ∃ p', (markResolved e now f v).ps.procs[pid]? = some p' ∧ strip p' = strip p := by
  have h : (markResolved e now f v).ps.procs.map strip = e.ps.procs.map strip := by
    rcases markResolved_cases e now f v with h1 | ⟨pid', p', hpk, hp', h1⟩
    · rw [h1]; rfl
    · rw [h1]; unfold resumed
      simp only [setProc_procs, setFut_procs, push_procs]
      rw [map_strip_set _ _ _ _ hp']
  have := congrArg (fun l => l[pid]?) h
  simp only [List.getElem?_map, hp, Option.map_some] at this
  cases hq : (markResolved e now f v).ps.procs[pid]? with
  | none => rw [hq] at this; simp at this
  | some p' => rw [hq] at this; simp at this; exact ⟨p', rfl, this⟩

/-- **any_of resumes with the (index, value) of the first input to resolve.**  While `f = any_of(gs)` is
    unresolved, resolving input `gs[i]` with `v` resolves `f` with `(i, v)` in the same call; no later
    resolution (of another input or anything else, at any time, with any value) changes `f`; and a
    process parked on `f` gets its continuation in that call, at the current clock, with `(i, v)` as
    the value to send -/
theorem anyof_first_core (fuel : Nat) (e : Eff) (now f : Nat) (gs : List Nat) (i : Nat) (v : Val)
    (sh : AnyShape e f gs) (hi : i < gs.length) :
    (futGet (resolveFut (fuel + 2) e now gs[i] v).ps.futs f).resolved = true ∧
    (futGet (resolveFut (fuel + 2) e now gs[i] v).ps.futs f).value = .pair i v ∧
    (∀ fuel' now' g w,
      (futGet (resolveFut fuel' (resolveFut (fuel + 2) e now gs[i] v) now' g w).ps.futs f).resolved = true ∧
      (futGet (resolveFut fuel' (resolveFut (fuel + 2) e now gs[i] v) now' g w).ps.futs f).value = .pair i v) ∧
    (∀ pid p, (futGet e.ps.futs f).parked = some pid → e.ps.procs[pid]? = some p →
      ∃ c, (resolveFut (fuel + 2) e now gs[i] v).specs.getLast? = some c ∧ c.time = now ∧ c.data = pid + 1 ∧
        ∃ q, (resolveFut (fuel + 2) e now gs[i] v).ps.procs[pid]? = some q ∧ q.send = .pair i v) := by
  rw [anyof_first_eq fuel e now f gs i v sh hi]
  have hsame := markResolved_futGet_same (markResolved e now gs[i] v) now f (.pair i v)
  have hne : f ≠ gs[i] := fun heq => sh.notin (heq ▸ List.getElem_mem hi)
  refine ⟨hsame.1, hsame.2.1, ?_, ?_⟩
  · intro fuel' now' g w
    exact resolveFut_cclosed (ResolvedIs_cclosed f (.pair i v)) fuel' _ now' g w ⟨hsame.1, hsame.2.1⟩
  · intro pid p hpk hp
    obtain ⟨p', hp', _⟩ := markResolved_procs_some e now gs[i] pid v p hp
    have hpk' : (futGet (markResolved e now gs[i] v).ps.futs f).parked = some pid := by
      rw [markResolved_futGet_ne e now gs[i] f v hne]; exact hpk
    have ⟨h1, h2⟩ := markResolved_resumes (markResolved e now gs[i] v) now f pid (.pair i v) p' hpk' hp'
    refine ⟨contSpec p' pid now, by rw [h1]; simp, rfl, rfl, h2⟩

/-! ### all_of -/

structure AllShape (e : Eff) (f : Nat) (gs : List Nat) : Prop where
  nodup : gs.Nodup
  notin : f ∉ gs
  unres : (futGet e.ps.futs f).resolved = false
  nocb : (futGet e.ps.futs f).cbs = []
  len : (futGet e.ps.futs f).results.length = gs.length
  /-- `remaining` counts the inputs that are still unresolved -/
  rem : (futGet e.ps.futs f).remaining = gs.countP (fun g => !(futGet e.ps.futs g).resolved)
  /-- a settled input has delivered its value into its slot; an unsettled one holds its callback -/
  inp : ∀ i (h : i < gs.length),
    ((futGet e.ps.futs gs[i]).resolved = true →
        (futGet e.ps.futs f).results[i]? = some (futGet e.ps.futs gs[i]).value) ∧
    ((futGet e.ps.futs gs[i]).resolved = false → (futGet e.ps.futs gs[i]).cbs = [.allCb f i])

theorem countP_flip_one (l : List Nat) (a : Nat) (P Q : Nat → Bool) (hnd : l.Nodup) (ha : a ∈ l)
    (hPa : P a = true) (hQa : Q a = false) (hother : ∀ x, x ≠ a → Q x = P x) :
    l.countP Q + 1 = l.countP P := by
  induction l with
  | nil => simp at ha
  | cons x xs ih =>
    simp only [List.nodup_cons] at hnd
    simp only [List.countP_cons]
    by_cases hx : x = a
    · subst hx
      have : xs.countP Q = xs.countP P := by
        apply List.countP_congr
        intro y hy
        have hyx : y ≠ x := fun h => hnd.1 (h ▸ hy)
        rw [hother y hyx]
      simp [hPa, hQa, this]
    · have ha' : a ∈ xs := by
        rcases List.mem_cons.mp ha with h | h
        · exact absurd h.symm hx
        · exact h
      have := ih hnd.2 ha'
      rw [hother x hx]
      omega

/-- `f := all_of(gs…)` over pairwise distinct, unresolved, callback-free futures -/
theorem allOf_shape (now : Nat) (e : Eff) (f : Nat) (gs : List Nat) (hnd : gs.Nodup) (hf : f ∉ gs)
    (hgs : ∀ g ∈ gs, (futGet e.ps.futs g).resolved = false ∧ (futGet e.ps.futs g).cbs = []) :
    AllShape (runAct now e (.allOf f gs)) f gs := by
  simp only [runAct]
  generalize hc0 : ({ results := List.replicate gs.length Val.none, remaining := gs.length } : Fut) = c0
  have hsame : ∀ g, g ≠ f → futGet (e.setFut f c0).ps.futs g = futGet e.ps.futs g := by
    intro g hg; simp [futGet_futSet, hg]
  have hne : ∀ g ∈ gs, g ≠ f := fun g hg heq => hf (heq ▸ hg)
  have ⟨h1, h2⟩ := addCb_fold (Cb.allCb f) now (enum gs) (e.setFut f c0) (by rw [enum_snd]; exact hnd) (by
    intro p hp
    have hp2 : p.2 ∈ gs := by rw [← enum_snd gs]; exact List.mem_map.mpr ⟨p, hp, rfl⟩
    rw [hsame p.2 (hne _ hp2)]; exact (hgs p.2 hp2).1)
  generalize hr : List.foldl (fun acc p => addCb acc now p.2 (Cb.allCb f p.1)) (e.setFut f c0) (enum gs) = r at h1 h2
  have hrr : (List.foldl (fun acc p => addCb acc now p.2 (Cb.allCb f p.1))
      { e with ps := { e.ps with futs := futSet e.ps.futs f c0 } } (enum gs)) = r := hr
  rw [hrr]
  have hff : futGet r.ps.futs f = c0 := by
    rw [h1 f (by rw [enum_snd]; exact hf)]; simp [futGet_futSet]
  have hin : ∀ i (hi : i < gs.length), (futGet r.ps.futs gs[i]).resolved = false ∧
      (futGet r.ps.futs gs[i]).cbs = [.allCb f i] := by
    intro i hi
    have hm := enum_mem gs i hi
    have hgi := hgs gs[i] (List.getElem_mem hi)
    have := h2 (i, gs[i]) hm
    simp only [] at this
    rw [this, hsame _ (hne _ (List.getElem_mem hi))]
    simp [hgi.1, hgi.2]
  refine ⟨hnd, hf, by rw [hff, ← hc0], by rw [hff, ← hc0], by rw [hff, ← hc0]; simp, ?_, ?_⟩
  · rw [hff, ← hc0]
    simp only []
    have : gs.countP (fun g => !(futGet r.ps.futs g).resolved) = gs.length := by
      rw [List.countP_eq_length]
      intro g hg
      obtain ⟨i, hi, rfl⟩ := List.getElem_of_mem hg
      simp [(hin i hi).1]
    rw [this]
  · intro i hi
    have := hin i hi
    exact ⟨fun h => by rw [this.1] at h; simp at h, fun _ => this.2⟩

end HappyModel.C01
