import HappyProofs.C02.Hooks
import HappyProofs.C02.Init
/-!
# C02 — hooks: the run-level accounting (uses the engine invariant of C01: pending ids are distinct)
-/
namespace HappyModel.C01
set_option linter.unusedVariables false

structure HookInv (s : St PS) : Prop where
  nid : s.ent.nid = s.nextId
  bal : ∀ h, hookRuns s.ent.obs h + hld s.ent.procs h + lateHeld s.ent.late h
      ≤ dead (s.heap.map (·.id)) s.nextId s.ent.hookOf h + s.ent.lateAtt.count h

theorem countP_filter_count (t : List (Nat × Nat)) (pA pB : Nat × Nat → Bool) (mid h : Nat)
    (h1 : ∀ q, q.1 = mid → q.2 = h → pA q = false ∧ pB q = true)
    (h2 : ∀ q, pA q = true → pB q = true) :
    t.countP pA + ((t.filter (fun p => p.1 == mid)).map (·.2)).count h ≤ t.countP pB := by
  induction t with
  | nil => simp
  | cons q t ih =>
    simp only [List.countP_cons, List.filter_cons]
    by_cases hq : q.1 = mid
    · have hb : (q.1 == mid) = true := by simp [hq]
      simp only [hb, if_true, List.map_cons, List.count_cons]
      by_cases hh : q.2 = h
      · have ⟨a, b⟩ := h1 q hq hh
        have hb2 : (q.2 == h) = true := by simp [hh]
        simp only [a, b, hb2, Bool.false_eq_true, if_false, if_true]
        omega
      · have hb2 : (q.2 == h) = false := by simp [hh]
        simp only [hb2, Bool.false_eq_true, if_false]
        cases ha : pA q with
        | false => simp only [Bool.false_eq_true, if_false]; split <;> omega
        | true => simp only [h2 q ha, if_true]; omega
    · have hb : (q.1 == mid) = false := by simp [hq]
      simp only [hb, Bool.false_eq_true, if_false]
      cases ha : pA q with
      | false => simp only [Bool.false_eq_true, if_false]; split <;> omega
      | true => simp only [h2 q ha, if_true]; omega

/-- popping `m` makes its attachments dead -/
theorem dead_pop (heap : List Ev) (m : Ev) (n0 : Nat) (hm : m ∈ heap) (hnd : (heap.map (·.id)).Nodup)
    (hfr : m.id < n0) (hookOf : List (Nat × Nat)) (h : Nat) :
    dead (heap.map (·.id)) n0 hookOf h + ((hookOf.filter (fun p => p.1 == m.id)).map (·.2)).count h
      ≤ dead ((heap.erase m).map (·.id)) n0 hookOf h := by
  have hnot : m.id ∉ (heap.erase m).map (·.id) := by
    intro hmem
    obtain ⟨e, he, hid⟩ := List.mem_map.mp hmem
    exact ne_id_of_mem_erase hnd hm he hid
  have hin : m.id ∈ heap.map (·.id) := List.mem_map.mpr ⟨m, hm, rfl⟩
  have hsub : ∀ x, x ∈ (heap.erase m).map (·.id) → x ∈ heap.map (·.id) := by
    intro x hx
    obtain ⟨e, he, hid⟩ := List.mem_map.mp hx
    exact List.mem_map.mpr ⟨e, List.mem_of_mem_erase he, hid⟩
  unfold dead
  apply countP_filter_count
  · intro q hq1 hq2
    constructor
    · simp [hq1, hin]
    · simp [hq1, hq2, hnot, hfr]
  · intro q hx
    simp only [Bool.and_eq_true, Bool.not_eq_eq_eq_not, Bool.not_true, List.contains_eq_mem,
      decide_eq_false_iff_not, decide_eq_true_eq] at hx ⊢
    exact ⟨⟨hx.1.1, fun hc => hx.1.2 (hsub _ hc)⟩, hx.2⟩

theorem dead_mono (H H' : List Nat) (n0 n1 : Nat) (hookOf : List (Nat × Nat)) (h : Nat)
    (hmono : ∀ q ∈ hookOf, q.1 ∉ H → q.1 < n0 → q.1 ∉ H' ∧ q.1 < n1) :
    dead H n0 hookOf h ≤ dead H' n1 hookOf h := by
  apply List.countP_mono_left
  intro q hq hx
  simp only [Bool.and_eq_true, Bool.not_eq_eq_eq_not, Bool.not_true, List.contains_eq_mem,
    decide_eq_false_iff_not, decide_eq_true_eq] at hx ⊢
  have := hmono q hq hx.1.2 hx.2
  exact ⟨⟨hx.1.1, this.1⟩, this.2⟩

theorem HookInv_erase (s s' : St PS) (m : Ev) (hk : HookInv s)
    (hh : s'.heap = s.heap.erase m) (he : s'.ent = s.ent) (hn : s'.nextId = s.nextId) : HookInv s' := by
  refine ⟨by rw [he, hn]; exact hk.nid, ?_⟩
  intro h
  rw [he, hh, hn]
  refine Nat.le_trans (hk.bal h) (Nat.add_le_add_right (dead_mono _ _ _ _ _ _ ?_) _)
  intro q _ hq hlt
  refine ⟨fun hc => hq ?_, hlt⟩
  obtain ⟨e, hemem, hid⟩ := List.mem_map.mp hc
  exact List.mem_map.mpr ⟨e, List.mem_of_mem_erase hemem, hid⟩

theorem step_hookInv (s : St PS) (m : Ev) (inv : Inv s) (hk : HookInv s) (hm : m ∈ s.heap) :
    HookInv (stepWith procMachine s m) := by
  unfold stepWith
  simp only []
  split
  · exact HookInv_erase s _ m hk rfl rfl rfl
  · split
    · exact HookInv_erase s _ m hk rfl rfl rfl
    · split
      · exact HookInv_erase s _ m hk rfl rfl rfl
      · have heq := procHandle_eq s.ent m.time m
        have hfr := inv.fresh_heap m hm
        have h0 : HK ((s.heap.erase m).map (·.id)) s.nextId
            (fun h => ((s.ent.hookOf.filter (fun p => p.1 == m.id)).map (·.2)).count h) ({ ps := s.ent } : Eff) := by
          refine ⟨by simp [hk.nid], ?_⟩
          intro h
          have h1 := dead_pop s.heap m s.nextId hm inv.nodup hfr s.ent.hookOf h
          have h2 := hk.bal h
          show hookRuns s.ent.obs h + hld s.ent.procs h + lateHeld s.ent.late h + _
            ≤ dead _ s.nextId s.ent.hookOf h + s.ent.lateAtt.count h
          omega
        have hr := procEff_HK s.ent m.time m h0
        generalize hrr : procEff s.ent m.time m = r at hr heq
        have hent : (procMachine.handle s.ent m.time m).ent = r.ps := by
          show (procHandle s.ent m.time m).ent = _; rw [heq]
        have hspecs : (procMachine.handle s.ent m.time m).specs = r.specs := by
          show (procHandle s.ent m.time m).specs = _; rw [heq]
        refine ⟨?_, ?_⟩
        · show (procMachine.handle s.ent m.time m).ent.nid = s.nextId + (procMachine.handle s.ent m.time m).specs.length
          rw [hent, hspecs]; exact hr.nid
        · intro h
          show hookRuns (procMachine.handle s.ent m.time m).ent.obs h + hld (procMachine.handle s.ent m.time m).ent.procs h
              + lateHeld (procMachine.handle s.ent m.time m).ent.late h
            ≤ dead ((s.heap.erase m ++ mkEvents s.nextId m.time (procMachine.handle s.ent m.time m).specs).map (·.id))
                (s.nextId + (procMachine.handle s.ent m.time m).specs.length)
                (procMachine.handle s.ent m.time m).ent.hookOf h
              + (procMachine.handle s.ent m.time m).ent.lateAtt.count h
          rw [hent, hspecs]
          have hb := hr.bal h
          refine Nat.le_trans (by omega) (Nat.add_le_add_right (dead_mono _ _ _ _ _ _ ?_) _)
          intro q _ hq hlt
          refine ⟨?_, by omega⟩
          intro hc
          rw [List.map_append, List.mem_append] at hc
          rcases hc with hc | hc
          · exact hq hc
          · obtain ⟨e, hemem, hid⟩ := List.mem_map.mp hc
            have := (mkEvents_id s.nextId m.time r.specs e hemem).1
            omega

theorem run_hookInv (endT : Option Nat) (n : Nat) (s : St PS) (inv : Inv s) (hk : HookInv s) :
    Inv (run procMachine endT n s) ∧ HookInv (run procMachine endT n s) := by
  induction n generalizing s with
  | zero => exact ⟨by simpa [run], by simpa [run]⟩
  | succ n ih =>
    unfold run
    cases hs : step procMachine endT s with
    | none => exact ⟨by simpa, by simpa⟩
    | some s' =>
      simp only []
      unfold step at hs
      split at hs
      · simp at hs
      · rename_i x xs hheap
        split at hs
        · simp at hs; subst hs
          have hmem : minOf x xs ∈ s.heap := by rw [hheap]; exact (pop_is_min x xs).1
          exact ih _ (step_preserves procMachine s x xs hheap inv) (step_hookInv s _ inv hk hmem)
        · simp at hs

theorem Inv_congr {σ} (s s' : St σ) (h : Inv s) (h1 : s'.heap = s.heap) (h2 : s'.now = s.now)
    (h3 : s'.nextId = s.nextId) (h4 : s'.log = s.log) (h5 : s'.popped = s.popped) (h6 : s'.primary = s.primary) :
    Inv s' := by
  refine ⟨?_, ?_, ?_, ?_, ?_, ?_, ?_, ?_, ?_, ?_, ?_, ?_, ?_⟩
  · rw [h1, h3]; exact h.fresh_heap
  · rw [h4, h3]; exact h.fresh_log
  · rw [h1]; exact h.nodup
  · rw [h4]; exact h.sorted
  · rw [h4, h2]; exact h.log_le_now
  · rw [h4, h1, h2]; exact h.log_lt_heap
  · rw [h4, h1]; exact h.log_ne_heap
  · rw [h6, h1]; exact h.prim
  · rw [h1, h2]; exact h.notStale
  · rw [h5, h1]; exact h.popped_ne_heap
  · rw [h5, h3]; exact h.fresh_popped
  · rw [h5]; exact h.popped_nodup
  · rw [h4, h5]; exact h.log_popped

theorem initState_inv (p : Program) (gateCont : Bool) : Inv (p.initState gateCont) :=
  Inv_congr _ _ (init_inv (p.initState gateCont).ent p.start (p.pre.map (·.1))) rfl rfl rfl rfl rfl rfl

theorem initState_hookInv (p : Program) (gateCont : Bool) : HookInv (p.initState gateCont) := by
  refine ⟨?_, ?_⟩
  · show (p.pre.map (·.1)).length = (p.pre.map (·.1)).length; rfl
  · intro h
    show hookRuns [] h + hld [] h + lateHeld [] h ≤ _
    simp [hookRuns, hld, lateHeld]

/-- from any state satisfying the engine invariant and the hook accounting -/
theorem hooks_le_attached (endT : Option Nat) (n : Nat) (s : St PS) (inv : Inv s) (hk : HookInv s) (h : Nat) :
    hookRuns (run procMachine endT n s).ent.obs h
      ≤ att (run procMachine endT n s).ent.hookOf h + (run procMachine endT n s).ent.lateAtt.count h := by
  have ⟨_, hk'⟩ := run_hookInv endT n s inv hk
  have := hk'.bal h
  have := dead_le_att ((run procMachine endT n s).heap.map (·.id)) (run procMachine endT n s).nextId
    (run procMachine endT n s).ent.hookOf h
  omega

end HappyModel.C01
