import HappyModel.C01.Process
/-!
# C02 — basic lemmas about the future table, pending-continuation counts and an induction
principle for the code a generator segment runs (`runAct`, `resolveFut`, `addCb`).
-/
namespace HappyModel.C01
set_option linter.unusedVariables false

/-! ## the future table -/

theorem futGet_default (fs : List Fut) (f : Nat) (h : fs.length ≤ f) : futGet fs f = {} := by
  unfold futGet
  simp [List.getD_eq_getElem?_getD, List.getElem?_eq_none h]

theorem futSet_eq_pad (fs : List Fut) (f : Nat) (x : Fut) :
    futSet fs f x = (fs ++ List.replicate (f + 1 - fs.length) ({} : Fut)).set f x := by
  unfold futSet
  split
  · rename_i h
    have : f + 1 - fs.length = 0 := by omega
    simp [this]
  · rename_i h
    have h' : fs.length ≤ f := by omega
    have : f + 1 - fs.length = (f - fs.length) + 1 := by omega
    rw [this, List.replicate_succ', ← List.append_assoc]
    have hl : (fs ++ List.replicate (f - fs.length) ({} : Fut)).length = f := by simp; omega
    rw [List.set_append_right _ _ (by omega)]
    simp [hl]

theorem futGet_pad (fs : List Fut) (n g : Nat) :
    futGet (fs ++ List.replicate n ({} : Fut)) g = futGet fs g := by
  unfold futGet
  simp only [List.getD_eq_getElem?_getD]
  by_cases h : g < fs.length
  · rw [List.getElem?_append_left h]
  · have h' : fs.length ≤ g := by omega
    rw [List.getElem?_append_right h', List.getElem?_eq_none h']
    simp [List.getElem?_replicate]
    split <;> rfl

theorem futGet_futSet (fs : List Fut) (f g : Nat) (x : Fut) :
    futGet (futSet fs f x) g = if g = f then x else futGet fs g := by
  rw [futSet_eq_pad]
  by_cases h : g = f
  · subst h
    simp [futGet, List.getD_eq_getElem?_getD, List.getElem?_set]
    have : g < fs.length + (g + 1 - fs.length) := by omega
    simp [this]
  · simp only [h, if_false]
    rw [← futGet_pad fs (f + 1 - fs.length) g]
    simp only [futGet, List.getD_eq_getElem?_getD]
    rw [List.getElem?_set_ne (by omega)]

theorem futGet_futSet_same (fs : List Fut) (f : Nat) (x : Fut) : futGet (futSet fs f x) f = x := by
  simp [futGet_futSet]

theorem futGet_futSet_ne (fs : List Fut) (f g : Nat) (x : Fut) (h : g ≠ f) :
    futGet (futSet fs f x) g = futGet fs g := by
  simp [futGet_futSet, h]

/-! ## counting pending resumptions -/

/-- number of futures a process is parked on -/
def cntPark (fs : List Fut) (pid : Nat) : Nat := fs.countP (fun f => f.parked == some pid)

/-- number of continuation specs of a process -/
def cntSpec (l : List Spec) (pid : Nat) : Nat := l.countP (fun s => s.data == pid + 1)

/-- number of continuation events of a process in a heap -/
def cntHeap (l : List Ev) (pid : Nat) : Nat := l.countP (fun e => e.data == pid + 1)

def ind (b : Bool) : Nat := if b then 1 else 0

theorem cntPark_pad (fs : List Fut) (n pid : Nat) :
    cntPark (fs ++ List.replicate n ({} : Fut)) pid = cntPark fs pid := by
  simp [cntPark, List.countP_append, List.countP_replicate]

theorem cntPark_futSet (fs : List Fut) (f pid : Nat) (x : Fut) :
    cntPark (futSet fs f x) pid + ind ((futGet fs f).parked == some pid)
      = cntPark fs pid + ind (x.parked == some pid) := by
  rw [futSet_eq_pad, ← cntPark_pad fs (f + 1 - fs.length) pid, ← futGet_pad fs (f + 1 - fs.length) f]
  have h : f < (fs ++ List.replicate (f + 1 - fs.length) ({} : Fut)).length := by simp; omega
  generalize fs ++ List.replicate (f + 1 - fs.length) ({} : Fut) = l at h ⊢
  unfold cntPark
  rw [List.countP_set h]
  have hle := List.boole_getElem_le_countP (p := fun f : Fut => f.parked == some pid) h
  have hg : futGet l f = l[f] := by simp [futGet, List.getD_eq_getElem?_getD, h]
  rw [hg]
  unfold ind
  omega

theorem cntPark_zero (fs : List Fut) (pid : Nat) :
    cntPark fs pid = 0 ↔ ∀ f, (futGet fs f).parked ≠ some pid := by
  unfold cntPark
  rw [List.countP_eq_zero]
  constructor
  · intro h f
    by_cases hf : f < fs.length
    · have := h fs[f] (List.getElem_mem hf)
      simpa [futGet, List.getD_eq_getElem?_getD, hf] using this
    · rw [futGet_default fs f (by omega)]; simp
  · intro h a ha
    obtain ⟨i, hi, rfl⟩ := List.getElem_of_mem ha
    have := h i
    simpa [futGet, List.getD_eq_getElem?_getD, hi] using this

/-! ## named pieces of `resolveFut` / `addCb` and an induction principle -/

def Eff.setFut (e : Eff) (f : Nat) (x : Fut) : Eff := { e with ps := { e.ps with futs := futSet e.ps.futs f x } }

/-- the all_of bookkeeping of one settled input -/
def allStep (rf : Eff → Nat → Val → Eff) (acc : Eff) (comp idx : Nat) (v : Val) : Eff :=
  let c := futGet acc.ps.futs comp
  if c.resolved then acc else
  let res := c.results.set idx v
  let rem := c.remaining - 1
  let acc1 := acc.setFut comp { c with results := res, remaining := rem }
  if rem = 0 then rf acc1 comp (.list res) else acc1

/-- one settle callback of a future that resolved with `v` -/
def cbStep (fuel now : Nat) (v : Val) (acc : Eff) (cb : Cb) : Eff :=
  match cb with
  | .anyCb comp idx => resolveFut fuel acc now comp (.pair idx v)
  | .allCb comp idx => allStep (fun a c w => resolveFut fuel a now c w) acc comp idx v

/-- state right after `resolve` marked the future and resumed its parked process, before callbacks -/
def markResolved (e : Eff) (now f : Nat) (v : Val) : Eff :=
  resumeParked (e.setFut f { futGet e.ps.futs f with resolved := true, value := v, cbs := [] }) now f

theorem resolveFut_succ (fuel : Nat) (e : Eff) (now f : Nat) (v : Val) :
    resolveFut (fuel + 1) e now f v =
      if (futGet e.ps.futs f).resolved then e
      else (futGet e.ps.futs f).cbs.foldl (cbStep fuel now v) (markResolved e now f v) := by
  rfl

theorem addCb_eq (e : Eff) (now g : Nat) (cb : Cb) :
    addCb e now g cb =
      if (futGet e.ps.futs g).resolved then cbStep depthFuel now (futGet e.ps.futs g).value e cb
      else e.setFut g { futGet e.ps.futs g with cbs := (futGet e.ps.futs g).cbs ++ [cb] } := by
  unfold addCb
  cases cb <;> rfl

/-- a predicate on effects that a `resolve` cascade preserves -/
structure CClosed (P : Eff → Prop) : Prop where
  resolve : ∀ e now f v, P e → (futGet e.ps.futs f).resolved = false → P (markResolved e now f v)
  allUpd : ∀ e c res rem, P e → (futGet e.ps.futs c).resolved = false →
      P (e.setFut c { futGet e.ps.futs c with results := res, remaining := rem })

/-- a predicate on effects that every action of a segment preserves -/
structure AClosed (P : Eff → Prop) : Prop extends CClosed P where
  cbAdd : ∀ e g cb, P e → (futGet e.ps.futs g).resolved = false →
      P (e.setFut g { futGet e.ps.futs g with cbs := (futGet e.ps.futs g).cbs ++ [cb] })
  bind : ∀ e f rs rm, P e → P (e.setFut f { results := rs, remaining := rm })
  push : ∀ e sp hook tagged, sp.data = 0 → P e → P (e.push sp hook tagged)
  release : ∀ e i sp, P e → (i, sp) ∈ e.ps.held →
      P { e with specs := e.specs ++ [sp],
                 ps := { e.ps with nid := e.ps.nid + 1, held := e.ps.held.filter (fun p => p.1 != i) } }
  crashed : ∀ e l, P e → P { e with ps := { e.ps with crashed := l } }
  cancels : ∀ e l, P e → P { e with cancels := l }
  hookLate : ∀ e pid hook, P e →
      P { e with ps := { e.ps with late := e.ps.late ++ [(pid, hook)], lateAtt := hook :: e.ps.lateAtt } }
  hookEarly : ∀ e id hook, P e → P { e with ps := { e.ps with hookOf := e.ps.hookOf ++ [(id, hook)] } }
  level : ∀ e l, P e → P { e with ps := { e.ps with level := l } }
  hops : ∀ e h, P e → P { e with ps := { e.ps with hopsOf := h } }

/-- … and that does not look at log entries other than `finish` -/
structure Closed (P : Eff → Prop) : Prop extends AClosed P where
  obs : ∀ e o, (∀ t pid, o ≠ .finish t pid) → P e → P (addObs e o)

theorem resolveFut_cclosed {P : Eff → Prop} (hc : CClosed P) (fuel : Nat) :
    ∀ (e : Eff) (now f : Nat) (v : Val), P e → P (resolveFut fuel e now f v) := by
  induction fuel with
  | zero => intro e now f v h; exact h
  | succ n ih =>
    intro e now f v h
    rw [resolveFut_succ]
    split
    · exact h
    · rename_i hr
      have hr' : (futGet e.ps.futs f).resolved = false := by simpa using hr
      have h1 := hc.resolve e now f v h hr'
      generalize markResolved e now f v = acc at h1
      generalize (futGet e.ps.futs f).cbs = cbs
      induction cbs generalizing acc with
      | nil => exact h1
      | cons cb t iht =>
        simp only [List.foldl_cons]
        apply iht
        cases cb with
        | anyCb comp idx => exact ih _ _ _ _ h1
        | allCb comp idx =>
          simp only [cbStep, allStep]
          split
          · exact h1
          · rename_i hcr
            have hcr' : (futGet acc.ps.futs comp).resolved = false := by simpa using hcr
            have h2 := hc.allUpd acc comp ((futGet acc.ps.futs comp).results.set idx v)
              ((futGet acc.ps.futs comp).remaining - 1) h1 hcr'
            split
            · exact ih _ _ _ _ h2
            · exact h2

theorem resolveFut_closed {P : Eff → Prop} (hc : Closed P) (fuel : Nat)
    (e : Eff) (now f : Nat) (v : Val) (h : P e) : P (resolveFut fuel e now f v) :=
  resolveFut_cclosed hc.toCClosed fuel e now f v h

theorem cbStep_cclosed {P : Eff → Prop} (hc : CClosed P) (fuel now : Nat) (v : Val) (acc : Eff) (cb : Cb)
    (h1 : P acc) : P (cbStep fuel now v acc cb) := by
  cases cb with
  | anyCb comp idx => exact resolveFut_cclosed hc _ _ _ _ _ h1
  | allCb comp idx =>
    simp only [cbStep, allStep]
    split
    · exact h1
    · rename_i hcr
      have hcr' : (futGet acc.ps.futs comp).resolved = false := by simpa using hcr
      have h2 := hc.allUpd acc comp ((futGet acc.ps.futs comp).results.set idx v)
        ((futGet acc.ps.futs comp).remaining - 1) h1 hcr'
      split
      · exact resolveFut_cclosed hc _ _ _ _ _ h2
      · exact h2

theorem cbStep_closed {P : Eff → Prop} (hc : Closed P) (fuel now : Nat) (v : Val) (acc : Eff) (cb : Cb)
    (h1 : P acc) : P (cbStep fuel now v acc cb) := cbStep_cclosed hc.toCClosed fuel now v acc cb h1

theorem addCb_closed {P : Eff → Prop} (hc : AClosed P) (e : Eff) (now g : Nat) (cb : Cb) (h : P e) :
    P (addCb e now g cb) := by
  rw [addCb_eq]
  split
  · exact cbStep_cclosed hc.toCClosed _ _ _ _ _ h
  · rename_i hr
    exact hc.cbAdd e g cb h (by simpa using hr)

theorem foldl_closed {α} {P : Eff → Prop} (step : Eff → α → Eff) (hs : ∀ e a, P e → P (step e a))
    (l : List α) (e : Eff) (h : P e) : P (l.foldl step e) := by
  induction l generalizing e with
  | nil => exact h
  | cons a t ih => exact ih _ (hs e a h)

theorem runAct_aclosed {P : Eff → Prop} (hc : AClosed P) (now : Nat) (e : Eff) (a : Act) (h : P e) :
    P (runAct now e a) := by
  cases a with
  | emit tgt kind delay daemon hook => exact hc.push _ _ _ _ rfl h
  | emitPast tgt kind back daemon => exact hc.push _ _ _ _ rfl h
  | emitAbs tgt kind time daemon => exact hc.push _ _ _ _ rfl h
  | release i =>
    simp only [runAct]
    split
    · exact h
    · rename_i j sp hf
      have hm := List.mem_of_find?_eq_some hf
      have hj := List.find?_some hf
      have : j = i := by simpa using hj
      subst this
      exact hc.release e j sp h hm
  | cancel kind =>
    simp only [runAct]
    split
    · exact hc.cancels _ _ h
    · exact h
  | resolve f v => exact resolveFut_cclosed hc.toCClosed _ _ _ _ _ h
  | anyOf f gs =>
    simp only [runAct]
    apply foldl_closed
    · intro e' p h'; exact addCb_closed hc _ _ _ _ h'
    · exact hc.bind e f [] 0 h
  | allOf f gs =>
    simp only [runAct]
    apply foldl_closed
    · intro e' p h'; exact addCb_closed hc _ _ _ _ h'
    · exact hc.bind e f _ _ h
  | fresh f => exact hc.bind e f [] 0 h
  | crash x => exact hc.crashed _ _ h
  | restore x => exact hc.crashed _ _ h
  | addHook kind hook =>
    simp only [runAct]
    split
    · unfold addHookTo
      split
      · exact hc.hookLate _ _ _ h
      · exact hc.hookEarly _ _ _ h
    · exact h
  | metric x abs v => exact hc.level _ _ h
  | relay tgt kind delay limit daemon =>
    simp only [runAct]
    split
    · exact hc.hops _ _ (hc.push _ _ _ _ rfl h)
    · exact h

theorem runAct_closed {P : Eff → Prop} (hc : Closed P) (now : Nat) (e : Eff) (a : Act) (h : P e) :
    P (runAct now e a) := runAct_aclosed hc.toAClosed now e a h

theorem acts_aclosed {P : Eff → Prop} (hc : AClosed P) (now : Nat) (acts : List Act) (e : Eff) (h : P e) :
    P (acts.foldl (runAct now) e) :=
  foldl_closed _ (fun e a h => runAct_aclosed hc now e a h) acts e h

theorem acts_closed {P : Eff → Prop} (hc : Closed P) (now : Nat) (acts : List Act) (e : Eff) (h : P e) :
    P (acts.foldl (runAct now) e) := acts_aclosed hc.toAClosed now acts e h

theorem runHooks_closed {P : Eff → Prop} (hc : Closed P) (now : Nat) (hooks : List Nat) (e : Eff) (h : P e) :
    P (runHooks now e hooks) := by
  unfold runHooks
  apply foldl_closed _ _ _ _ h
  intro e' hk h'
  exact hc.push _ _ _ _ rfl (hc.obs _ _ (by intro t pid; simp) h')

theorem cclosed_and {P Q : Eff → Prop} (hp : CClosed P) (hq : CClosed Q) : CClosed (fun e => P e ∧ Q e) where
  resolve := fun e now f v h hr => ⟨hp.resolve e now f v h.1 hr, hq.resolve e now f v h.2 hr⟩
  allUpd := fun e c res rem h hr => ⟨hp.allUpd e c res rem h.1 hr, hq.allUpd e c res rem h.2 hr⟩

theorem closed_and {P Q : Eff → Prop} (hp : Closed P) (hq : Closed Q) : Closed (fun e => P e ∧ Q e) where
  resolve := (cclosed_and hp.toCClosed hq.toCClosed).resolve
  allUpd := (cclosed_and hp.toCClosed hq.toCClosed).allUpd
  cbAdd := fun e g cb h hr => ⟨hp.cbAdd e g cb h.1 hr, hq.cbAdd e g cb h.2 hr⟩
  bind := fun e f rs rm h => ⟨hp.bind e f rs rm h.1, hq.bind e f rs rm h.2⟩
  push := fun e sp hook tagged hd h => ⟨hp.push e sp hook tagged hd h.1, hq.push e sp hook tagged hd h.2⟩
  release := fun e i sp h hm => ⟨hp.release e i sp h.1 hm, hq.release e i sp h.2 hm⟩
  crashed := fun e l h => ⟨hp.crashed e l h.1, hq.crashed e l h.2⟩
  cancels := fun e l h => ⟨hp.cancels e l h.1, hq.cancels e l h.2⟩
  hookLate := fun e pid hook h => ⟨hp.hookLate e pid hook h.1, hq.hookLate e pid hook h.2⟩
  hookEarly := fun e id hook h => ⟨hp.hookEarly e id hook h.1, hq.hookEarly e id hook h.2⟩
  level := fun e l h => ⟨hp.level e l h.1, hq.level e l h.2⟩
  hops := fun e l h => ⟨hp.hops e l h.1, hq.hops e l h.2⟩
  obs := fun e o ho h => ⟨hp.obs e o ho h.1, hq.obs e o ho h.2⟩

end HappyModel.C01
