import HappyProofs.C02.Finish
import HappyProofs.C01.Inv
/-!
# C02 — completion hooks run at most once per attachment

Accounting, per hook value `h`: (hook entries of the log) + (hooks held by processes) ≤ (attachments
whose event has been popped) ≤ (attachments).  An attachment `(id, h) ∈ hookOf` is *dead* once event
`id` is no longer pending; by the engine invariant of C01 an id is popped at most once.
-/
namespace HappyModel.C01
set_option linter.unusedVariables false

def hookIs (h : Nat) : Obs → Bool
  | .hook _ h' => h' == h
  | _ => false

/-- number of `hook _ h` entries of the log -/
def hookRuns (obs : List Obs) (h : Nat) : Nat := obs.countP (hookIs h)

/-- hooks `h` held by processes (to be run when they finish) -/
def hld : List Proc → Nat → Nat
  | [], _ => 0
  | p :: t, h => p.hooks.count h + hld t h

/-- attachments of `h` whose event is not pending (ids in `H` are pending, ids `≥ n0` are being created) -/
def dead (H : List Nat) (n0 : Nat) (hookOf : List (Nat × Nat)) (h : Nat) : Nat :=
  hookOf.countP (fun q => q.2 == h && !(H.contains q.1) && decide (q.1 < n0))

def att (hookOf : List (Nat × Nat)) (h : Nat) : Nat := hookOf.countP (fun q => q.2 == h)

/-- hooks `h` added in flight and waiting for their process to finish -/
def lateHeld (late : List (Nat × Nat)) (h : Nat) : Nat := late.countP (fun q => q.2 == h)

theorem lateHeld_split (late : List (Nat × Nat)) (pid h : Nat) :
    lateHeld (late.filter (fun q => q.1 != pid)) h + ((late.filter (fun q => q.1 == pid)).map (·.2)).count h
      = lateHeld late h := by
  unfold lateHeld
  induction late with
  | nil => simp
  | cons q t ih =>
    simp only [List.filter_cons, List.countP_cons]
    by_cases hq : q.1 = pid
    · have h1 : (q.1 != pid) = false := by simp [hq]
      have h2 : (q.1 == pid) = true := by simp [hq]
      simp only [h1, h2, Bool.false_eq_true, if_false, if_true, List.map_cons, List.count_cons]
      omega
    · have h1 : (q.1 != pid) = true := by simp [hq]
      have h2 : (q.1 == pid) = false := by simp [hq]
      simp only [h1, h2, Bool.false_eq_true, if_false, if_true, List.countP_cons]
      omega

theorem dead_le_att (H : List Nat) (n0 : Nat) (hookOf : List (Nat × Nat)) (h : Nat) :
    dead H n0 hookOf h ≤ att hookOf h := by
  apply List.countP_mono_left
  intro q _ hq
  simp only [Bool.and_eq_true] at hq
  exact hq.1.1

theorem hld_append (a b : List Proc) (h : Nat) : hld (a ++ b) h = hld a h + hld b h := by
  induction a with
  | nil => simp [hld]
  | cons p t ih => simp only [List.cons_append, hld, ih]; omega

theorem hld_set (L : List Proc) (i : Nat) (x p : Proc) (h : Nat) (hp : L[i]? = some p) :
    hld (L.set i x) h + p.hooks.count h = hld L h + x.hooks.count h := by
  induction L generalizing i with
  | nil => simp at hp
  | cons a t ih =>
    cases i with
    | zero =>
      simp only [List.getElem?_cons_zero, Option.some.injEq] at hp
      subst hp
      simp only [List.set_cons_zero, hld]; omega
    | succ j =>
      simp only [List.getElem?_cons_succ] at hp
      have := ih j hp
      simp only [List.set_cons_succ, hld]; omega

@[simp] theorem setFut_nid (e : Eff) (f : Nat) (x : Fut) : (e.setFut f x).ps.nid = e.ps.nid := rfl
@[simp] theorem setFut_hookOf (e : Eff) (f : Nat) (x : Fut) : (e.setFut f x).ps.hookOf = e.ps.hookOf := rfl
@[simp] theorem setProc_nid (e : Eff) (i : Nat) (x : Proc) : (e.setProc i x).ps.nid = e.ps.nid := rfl
@[simp] theorem setProc_hookOf (e : Eff) (i : Nat) (x : Proc) : (e.setProc i x).ps.hookOf = e.ps.hookOf := rfl
@[simp] theorem setFut_late (e : Eff) (f : Nat) (x : Fut) : (e.setFut f x).ps.late = e.ps.late := rfl
@[simp] theorem setFut_lateAtt (e : Eff) (f : Nat) (x : Fut) : (e.setFut f x).ps.lateAtt = e.ps.lateAtt := rfl
@[simp] theorem setProc_late (e : Eff) (i : Nat) (x : Proc) : (e.setProc i x).ps.late = e.ps.late := rfl
@[simp] theorem setProc_lateAtt (e : Eff) (i : Nat) (x : Proc) : (e.setProc i x).ps.lateAtt = e.ps.lateAtt := rfl
@[simp] theorem clearLate_nid (e : Eff) (i : Nat) : (e.clearLate i).ps.nid = e.ps.nid := rfl
@[simp] theorem clearLate_hookOf (e : Eff) (i : Nat) : (e.clearLate i).ps.hookOf = e.ps.hookOf := rfl
@[simp] theorem clearLate_lateAtt (e : Eff) (i : Nat) : (e.clearLate i).ps.lateAtt = e.ps.lateAtt := rfl
@[simp] theorem clearLate_late (e : Eff) (i : Nat) :
    (e.clearLate i).ps.late = e.ps.late.filter (fun q => q.1 != i) := rfl
@[simp] theorem addObs_nid (e : Eff) (o : Obs) : (addObs e o).ps.nid = e.ps.nid := rfl
@[simp] theorem addObs_hookOf (e : Eff) (o : Obs) : (addObs e o).ps.hookOf = e.ps.hookOf := rfl
@[simp] theorem push_nid (e : Eff) (sp : Spec) (hook : Nat) (tagged : Bool) :
    (e.push sp hook tagged).ps.nid = e.ps.nid + 1 := rfl
theorem push_hookOf (e : Eff) (sp : Spec) (hook : Nat) (tagged : Bool) :
    (e.push sp hook tagged).ps.hookOf = if hook = 0 then e.ps.hookOf else (e.ps.nid, hook) :: e.ps.hookOf := rfl

/-- hook accounting inside one handler invocation; `σ h` = hooks `h` taken from the popped event's
    attachments (or from a finishing process) and not yet handed to a process or run.  Hooks added to an
    event whose process is in flight (`late`) are attachments of their own (`lateAtt`). -/
structure HK (H : List Nat) (n0 : Nat) (σ : Nat → Nat) (e : Eff) : Prop where
  nid : e.ps.nid = n0 + e.specs.length
  bal : ∀ h, hookRuns e.ps.obs h + hld e.ps.procs h + lateHeld e.ps.late h + σ h
      ≤ dead H n0 e.ps.hookOf h + e.ps.lateAtt.count h

/-- the balance in difference form -/
theorem HK_gen {H : List Nat} {n0 : Nat} {σ σ' : Nat → Nat} {e e' : Eff} (k : Nat) (hk : HK H n0 σ e)
    (hn : e'.ps.nid = e.ps.nid + k) (hs : e'.specs.length = e.specs.length + k)
    (hb : ∀ h, hookRuns e'.ps.obs h + hld e'.ps.procs h + lateHeld e'.ps.late h + σ' h
          + (dead H n0 e.ps.hookOf h + e.ps.lateAtt.count h)
        ≤ hookRuns e.ps.obs h + hld e.ps.procs h + lateHeld e.ps.late h + σ h
          + (dead H n0 e'.ps.hookOf h + e'.ps.lateAtt.count h)) :
    HK H n0 σ' e' := by
  have hnid := hk.nid
  refine ⟨by omega, ?_⟩
  intro h
  have h1 := hb h
  have h2 := hk.bal h
  omega

theorem HK_of {H : List Nat} {n0 : Nat} {σ σ' : Nat → Nat} {e e' : Eff} (k : Nat) (hk : HK H n0 σ e)
    (hn : e'.ps.nid = e.ps.nid + k) (hs : e'.specs.length = e.specs.length + k)
    (hh : e'.ps.hookOf = e.ps.hookOf ∨ (1 ≤ k ∧ ∃ hook, e'.ps.hookOf = (e.ps.nid, hook) :: e.ps.hookOf))
    (hb : ∀ h, hookRuns e'.ps.obs h + hld e'.ps.procs h + σ' h ≤ hookRuns e.ps.obs h + hld e.ps.procs h + σ h)
    (hl : e'.ps.late = e.ps.late := by rfl) (ha : e'.ps.lateAtt = e.ps.lateAtt := by rfl) :
    HK H n0 σ' e' := by
  refine HK_gen k hk hn hs ?_
  intro h
  have h1 := hb h
  have h3 : dead H n0 e.ps.hookOf h ≤ dead H n0 e'.ps.hookOf h := by
    rcases hh with hh | ⟨_, hook, hh⟩
    · rw [hh]; exact Nat.le_refl _
    · rw [hh]; unfold dead; rw [List.countP_cons]; omega
  rw [hl, ha]
  omega

theorem HK_same {H : List Nat} {n0 : Nat} {σ : Nat → Nat} {e e' : Eff} (hk : HK H n0 σ e)
    (hn : e'.ps.nid = e.ps.nid) (hs : e'.specs = e.specs) (hh : e'.ps.hookOf = e.ps.hookOf)
    (ho : e'.ps.obs = e.ps.obs) (hp : ∀ h, hld e'.ps.procs h = hld e.ps.procs h)
    (hl : e'.ps.late = e.ps.late := by rfl) (ha : e'.ps.lateAtt = e.ps.lateAtt := by rfl) : HK H n0 σ e' :=
  HK_of 0 hk (by omega) (by rw [hs]; rfl) (Or.inl hh) (fun h => by rw [ho, hp h]; exact Nat.le_refl _) hl ha

theorem HK_push {H : List Nat} {n0 : Nat} {σ : Nat → Nat} {e : Eff} (hk : HK H n0 σ e) (sp : Spec)
    (hook : Nat) (tagged : Bool) : HK H n0 σ (e.push sp hook tagged) := by
  refine HK_of 1 hk rfl (by simp) ?_ (fun h => Nat.le_refl _)
  rw [push_hookOf]
  by_cases h0 : hook = 0
  · left; simp [h0]
  · right; exact ⟨Nat.le_refl _, hook, by simp [h0]⟩

theorem HK_setProc {H : List Nat} {n0 : Nat} {σ : Nat → Nat} {e : Eff} (hk : HK H n0 σ e) (i : Nat) (x p : Proc)
    (hp : e.ps.procs[i]? = some p) (hx : x.hooks = p.hooks) : HK H n0 σ (e.setProc i x) := by
  refine HK_same hk rfl rfl rfl rfl ?_
  intro h
  have := hld_set e.ps.procs i x p h hp
  rw [hx] at this
  simp only [setProc_procs]; omega

theorem HK_resumed {H : List Nat} {n0 : Nat} {σ : Nat → Nat} {e : Eff} (hk : HK H n0 σ e) (now f pid : Nat)
    (p : Proc) (hp : e.ps.procs[pid]? = some p) : HK H n0 σ (resumed e now f pid p) := by
  unfold resumed
  have h1 := HK_push hk (contSpec p pid now) 0 false
  have h2 : HK H n0 σ ((e.push (contSpec p pid now) 0 false).setFut f { futGet e.ps.futs f with parked := none }) :=
    HK_same h1 rfl rfl rfl rfl (fun _ => rfl)
  exact HK_setProc h2 pid _ p hp rfl

theorem HK_resumeParked {H : List Nat} {n0 : Nat} {σ : Nat → Nat} {e : Eff} (hk : HK H n0 σ e) (now f : Nat) :
    HK H n0 σ (resumeParked e now f) := by
  cases hpk : (futGet e.ps.futs f).parked with
  | none => rw [resumeParked_none e now f hpk]; exact hk
  | some pid =>
    cases hp : e.ps.procs[pid]? with
    | none => rw [resumeParked_noproc e now f pid hpk hp]; exact hk
    | some p => rw [resumeParked_some e now f pid p hpk hp]; exact HK_resumed hk now f pid p hp

theorem HK_aclosed (H : List Nat) (n0 : Nat) (σ : Nat → Nat) : AClosed (HK H n0 σ) where
  resolve := by
    intro e now f v hk hr
    unfold markResolved
    apply HK_resumeParked
    exact HK_same hk rfl rfl rfl rfl (fun _ => rfl)
  allUpd := fun e c res rem hk hr => HK_same hk rfl rfl rfl rfl (fun _ => rfl)
  cbAdd := fun e g cb hk hr => HK_same hk rfl rfl rfl rfl (fun _ => rfl)
  bind := fun e f rs rm hk => HK_same hk rfl rfl rfl rfl (fun _ => rfl)
  push := fun e sp hook tagged hd hk => HK_push hk sp hook tagged
  release := fun e i sp hk hm =>
    HK_of 1 hk rfl (by simp) (Or.inl rfl) (fun h => Nat.le_refl _)
  crashed := fun e l hk => HK_same hk rfl rfl rfl rfl (fun _ => rfl)
  cancels := fun e l hk => HK_same hk rfl rfl rfl rfl (fun _ => rfl)
  hookLate := by
    intro e pid hook hk
    refine HK_gen 0 hk rfl rfl ?_
    intro h
    show hookRuns e.ps.obs h + hld e.ps.procs h + lateHeld (e.ps.late ++ [(pid, hook)]) h + σ h
          + (dead H n0 e.ps.hookOf h + e.ps.lateAtt.count h)
        ≤ hookRuns e.ps.obs h + hld e.ps.procs h + lateHeld e.ps.late h + σ h
          + (dead H n0 e.ps.hookOf h + (hook :: e.ps.lateAtt).count h)
    unfold lateHeld
    rw [List.countP_append, List.count_cons]
    simp only [List.countP_cons, List.countP_nil]
    omega
  hookEarly := by
    intro e id hook hk
    refine HK_gen 0 hk rfl rfl ?_
    intro h
    show hookRuns e.ps.obs h + hld e.ps.procs h + lateHeld e.ps.late h + σ h
          + (dead H n0 e.ps.hookOf h + e.ps.lateAtt.count h)
        ≤ hookRuns e.ps.obs h + hld e.ps.procs h + lateHeld e.ps.late h + σ h
          + (dead H n0 (e.ps.hookOf ++ [(id, hook)]) h + e.ps.lateAtt.count h)
    unfold dead
    rw [List.countP_append]
    omega
  level := fun e l hk => HK_same hk rfl rfl rfl rfl (fun _ => rfl)
  hops := fun e l hk => HK_same hk rfl rfl rfl rfl (fun _ => rfl)

theorem hookRuns_cons (o : Obs) (obs : List Obs) (h : Nat) :
    hookRuns (o :: obs) h = hookRuns obs h + if hookIs h o then 1 else 0 := by
  unfold hookRuns; rw [List.countP_cons]

theorem HK_addObs {H : List Nat} {n0 : Nat} {σ : Nat → Nat} {e : Eff} (hk : HK H n0 σ e) (o : Obs)
    (ho : ∀ t h, o ≠ .hook t h) : HK H n0 σ (addObs e o) := by
  refine HK_of 0 hk rfl rfl (Or.inl rfl) ?_
  intro h
  simp only [addObs_obs, addObs_procs, hookRuns_cons]
  have : hookIs h o = false := by
    cases o with
    | hook t h' => exact absurd rfl (ho t h')
    | _ => rfl
  simp [this]

theorem HK_weaken {H : List Nat} {n0 : Nat} {σ σ' : Nat → Nat} {e : Eff} (hk : HK H n0 σ e)
    (hle : ∀ h, σ' h ≤ σ h) : HK H n0 σ' e :=
  HK_of 0 hk rfl rfl (Or.inl rfl) (fun h => by have := hle h; omega)

/-- running hooks that were set aside (`σ`) moves them into the log -/
theorem HK_runHooks {H : List Nat} {n0 : Nat} {σ : Nat → Nat} (now : Nat) (hooks : List Nat) :
    ∀ (e : Eff), HK H n0 (fun h => σ h + hooks.count h) e → HK H n0 σ (runHooks now e hooks) := by
  unfold runHooks
  induction hooks with
  | nil => intro e hk; exact HK_weaken hk (fun h => by simp)
  | cons a t ih =>
    intro e hk
    simp only [List.foldl_cons]
    apply ih
    apply HK_push
    refine HK_of 0 hk rfl rfl (Or.inl rfl) ?_
    intro h
    simp only [addObs_obs, addObs_procs, hookRuns_cons, hookIs, List.count_cons]
    by_cases hah : a = h
    · subst hah; simp; omega
    · have : (a == h) = false := by simp [hah]
      simp [this]

/-- a new process takes the hooks that were set aside -/
theorem HK_spawn {H : List Nat} {n0 : Nat} {σ : Nat → Nat} {e : Eff} (pn : Proc)
    (hk : HK H n0 (fun h => σ h + pn.hooks.count h) e) : HK H n0 σ (spawn e pn) := by
  refine HK_of 0 hk rfl rfl (Or.inl rfl) ?_
  intro h
  simp only [spawn_obs, spawn_procs, hld_append, hld]
  omega

/-- a finishing process hands its hooks — those it started with and those added in flight — back to be run -/
theorem HK_clear {H : List Nat} {n0 : Nat} {σ : Nat → Nat} {e : Eff} (hk : HK H n0 σ e) (i : Nat) (x p : Proc)
    (hp : e.ps.procs[i]? = some p) (hx : x.hooks = []) :
    HK H n0 (fun h => σ h + (p.hooks ++ lateOf e.ps i).count h) ((e.setProc i x).clearLate i) := by
  refine HK_gen 0 hk rfl rfl ?_
  intro h
  have := hld_set e.ps.procs i x p h hp
  rw [hx] at this
  have hl := lateHeld_split e.ps.late i h
  simp only [clearLate_procs, clearLate_obs, clearLate_late, clearLate_hookOf, clearLate_lateAtt, setProc_procs,
    setProc_obs, setProc_late, setProc_hookOf, setProc_lateAtt, List.count_nil, List.count_append, lateOf] at this ⊢
  omega

theorem strip_hooks_eq {p q : Proc} (h : strip p = strip q) : p.hooks = q.hooks := by
  have := congrArg Proc.hooks h; simpa [strip] using this

theorem segBody_HK {H : List Nat} {n0 : Nat} (now : Nat) (e : Eff) (pid tag : Nat) (p : Proc) (seg : Seg)
    (rest : List Seg) (hk : HK H n0 (fun _ => 0) e) (hp : e.ps.procs[pid]? = some p) :
    HK H n0 (fun _ => 0) (segBody now e pid tag p seg rest) := by
  have hl := getElem?_some_lt hp
  have h0 : HK H n0 (fun _ => 0) (segStart now e pid tag p) := by
    unfold segStart
    refine HK_same (e := (if p.started then addObs e (.resume now pid p.send tag) else e).setProc pid
      { p with started := true, send := .none }) ?_ rfl rfl rfl rfl (fun _ => rfl)
    split
    · exact HK_setProc (HK_addObs hk _ (by intro t h; simp)) pid _ p hp rfl
    · exact HK_setProc hk pid _ p hp rfl
  have hpr0 : ProcsAre ((e.ps.procs.map strip).set pid (strip { p with started := true, send := .none }))
      (segStart now e pid tag p) := by
    unfold segStart ProcsAre
    split <;> simp [List.map_set]
  have h1 := acts_aclosed (HK_aclosed H n0 _) now seg.acts _ h0
  have hpr1 := acts_closed (ProcsAre_closed _) now seg.acts _ hpr0
  unfold segBody
  generalize seg.acts.foldl (runAct now) (segStart now e pid tag p) = e1 at h1 hpr1
  -- the record of `pid` still has the hooks of `p`
  have hcur : ∃ p', e1.ps.procs[pid]? = some p' ∧ p'.hooks = p.hooks := by
    unfold ProcsAre at hpr1
    have := congrArg (fun l => l[pid]?) hpr1
    simp only [List.getElem?_map] at this
    rw [List.getElem?_set_self (by simpa using hl)] at this
    cases hq : e1.ps.procs[pid]? with
    | none => rw [hq] at this; simp at this
    | some p' =>
      rw [hq] at this; simp only [Option.map_some, Option.some.injEq] at this
      exact ⟨p', rfl, by have := strip_hooks_eq this; simpa using this⟩
  obtain ⟨p', hp', hhk⟩ := hcur
  cases seg.term with
  | yieldD d =>
    simp only [segTerm]
    exact HK_push (HK_setProc h1 pid _ p' hp' (by rw [hhk])) _ _ _
  | yieldF f =>
    simp only [segTerm]
    have h2 := HK_setProc h1 pid { ({ p with started := true, send := .none } : Proc) with segs := rest } p' hp'
      (by rw [hhk])
    have h3 : HK H n0 (fun _ => 0) ((e1.setProc pid { ({ p with started := true, send := .none } : Proc) with segs := rest }).setFut f
        { futGet (e1.setProc pid { ({ p with started := true, send := .none } : Proc) with segs := rest }).ps.futs f with parked := some pid }) :=
      HK_same h2 rfl rfl rfl rfl (fun _ => rfl)
    split
    · exact HK_resumeParked h3 now f
    · exact h3
  | ret =>
    simp only [segTerm]
    apply HK_runHooks
    have h2 := HK_clear h1 pid { ({ p with started := true, send := .none } : Proc) with segs := [], done := true, hooks := [] }
      p' hp' rfl
    have h3 := HK_addObs h2 (.finish now pid) (by intro t h; simp)
    refine HK_weaken h3 ?_
    intro h; rw [hhk]; simp

theorem runSegment_HK {H : List Nat} {n0 : Nat} (now : Nat) (e : Eff) (pid tag : Nat)
    (hk : HK H n0 (fun _ => 0) e) : HK H n0 (fun _ => 0) (runSegment now e pid tag) := by
  cases hp : e.ps.procs[pid]? with
  | none => rw [runSegment_noproc now e pid tag hp]; exact hk
  | some p =>
    cases hs : p.segs with
    | nil =>
      have : runSegment now e pid tag = e := by simp [runSegment, hp, hs]
      rw [this]; exact hk
    | cons seg rest =>
      rw [runSegment_eq now e pid tag p seg rest hp hs]
      exact segBody_HK now e pid tag p seg rest hk hp

/-- the whole handler invocation: the popped event's hooks (`σ`) are run at once (no handler) or
    given to the new process; a continuation has none to hand over -/
theorem procEff_HK {H : List Nat} {n0 : Nat} (ps : PS) (now : Nat) (ev : Ev)
    (hk : HK H n0 (fun h => ((ps.hookOf.filter (fun p => p.1 == ev.id)).map (·.2)).count h) { ps := ps }) :
    HK H n0 (fun _ => 0) (procEff ps now ev) := by
  unfold procEff
  simp only []
  split
  · split
    · apply HK_runHooks
      apply HK_addObs _ _ (by intro t h; simp)
      exact HK_weaken hk (fun h => by simp)
    · rename_i d hd
      apply runSegment_HK
      apply HK_spawn
      apply HK_addObs _ _ (by intro t h; simp)
      exact HK_weaken hk (fun h => by simp [newProc])
  · apply runSegment_HK
    exact HK_weaken hk (fun h => Nat.zero_le _)

end HappyModel.C01
