import HappyProofs.C02.JudgeHooks
/-!
# C02 — one trace of the process model, accepted by the three monitors

`c02TraceOf` puts the two views together in the order in which the lines are written: per delivery the
`R` line (a process resumes), the `S` / `K` line and the hook lines of the segment (`h` lines in action
order, `F` and the `H` / `c` lines of a finishing process), then the line of the terminator (`y`: yield
delay, `w`: yield future).  What it leaves out are the lines of the future layer proper (`n`, `a`,
`l`, `r`: they feed the clauses that need the judge's declarative resolution of futures, which are
not linked to the model).

`process_trace_satisfies_c02_spec`: the hook monitor, the delay monitor and the wait monitor all
accept this trace, for every program with a plain pre-run schedule, every end time and number of
iterations.
-/
namespace HappyModel.C01
open HappyModel.C02.Spec (Line HSt hookStep hookMonitor delayMonitor waitMonitor)
set_option linter.unusedVariables false
set_option linter.unusedSimpArgs false

def traceLines (s : St PS) (m : Ev) : List Line :=
  rLine s.ent m ++ hookLines s.ent m.time m ++ yLines (procEff s.ent m.time m).specs ++ wLine s.ent m.time m

def tStep (s : St PS) (ls : List Line) (m : Ev) : List Line :=
  if s.cancelled.contains m.id then ls
  else if m.time < s.now then ls
  else if procMachine.crashed s.ent m then ls
  else ls ++ traceLines s m

def tRun (endT : Option Nat) : Nat → St PS → List Line → List Line
  | 0, _, ls => ls
  | n+1, s, ls =>
    match s.heap with
    | [] => ls
    | x :: xs =>
      if continues endT s then tRun endT n (stepWith procMachine s (minOf x xs)) (tStep s ls (minOf x xs))
      else ls

/-- the trace of a run: the `h` lines of the pre-run hooks, then the lines of the deliveries -/
def c02TraceOf (endT : Option Nat) (n : Nat) (s0 : St PS) : List Line := tRun endT n s0 (initHookLines s0.ent)

/-! ## lines that a monitor does not look at -/

def dw (l : Line) : Bool := isDelayLine l || isWaitLine l

/-- neutral for the hook monitor while nothing is due -/
def hookNeutral : Line → Bool
  | .resume _ _ _ _ => true
  | .ydelay _ _ _ => true
  | .wait _ _ _ => true
  | .other => true
  | _ => false

theorem fold_hookNeutral (ls : List Line) (h : HSt) (hd : h.due = []) (hn : ∀ l ∈ ls, hookNeutral l = true) :
    ls.foldl hookStep h = h := by
  induction ls with
  | nil => rfl
  | cons l r ih =>
    simp only [List.foldl_cons]
    have h1 : hookStep h l = h := by
      have := hn l (by simp)
      cases l <;> simp [hookNeutral] at this <;> simp [hookStep, hd]
    rw [h1]
    exact ih (fun x hx => hn x (List.mem_cons_of_mem _ hx))

theorem rLine_neutral (ps : PS) (m : Ev) : ∀ l ∈ rLine ps m, hookNeutral l = true ∧ dw l = true := by
  unfold rLine
  split
  · intro l hl; simp at hl
  · split
    · split
      · intro l hl; simp only [List.mem_singleton] at hl; subst hl; simp [hookNeutral, dw, isDelayLine]
      · intro l hl; simp at hl
    · intro l hl; simp at hl

theorem yLines_neutral (specs : List Spec) : ∀ l ∈ yLines specs, hookNeutral l = true ∧ dw l = true := by
  intro l hl
  unfold yLines at hl
  obtain ⟨sp, _, rfl⟩ := List.mem_map.mp hl
  simp [hookNeutral, dw, isDelayLine]

theorem wLine_neutral (ps : PS) (now : Nat) (ev : Ev) : ∀ l ∈ wLine ps now ev, hookNeutral l = true ∧ dw l = true := by
  intro l hl
  obtain ⟨p, f, dm, rfl⟩ := wLine_waits ps now ev l hl
  simp [hookNeutral, dw, isDelayLine, isWaitLine]

theorem hAddLines_dw (e : Eff) (a : Act) : ∀ l ∈ hAddLines e a, dw l = false := by
  intro l hl
  cases a with
  | emit t k d dm hk =>
    simp only [hAddLines] at hl
    split at hl
    · simp at hl
    · simp only [List.mem_singleton] at hl; subst hl; simp [dw, isDelayLine, isWaitLine]
  | addHook k hk =>
    simp only [hAddLines] at hl
    split at hl
    · simp only [List.mem_singleton] at hl; subst hl; simp [dw, isDelayLine, isWaitLine]
    · simp at hl
  | _ => simp [hAddLines] at hl

theorem actsHookLines_dw (now : Nat) (acts : List Act) (e : Eff) : ∀ l ∈ actsHookLines now e acts, dw l = false := by
  induction acts generalizing e with
  | nil => intro l hl; simp [actsHookLines] at hl
  | cons a r ih =>
    intro l hl
    simp only [actsHookLines, List.mem_append] at hl
    rcases hl with hl | hl
    · exact hAddLines_dw e a l hl
    · exact ih _ l hl

theorem hRunLines_dw (now : Nat) (hooks : List Nat) : ∀ l ∈ hRunLines now hooks, dw l = false := by
  intro l hl
  unfold hRunLines at hl
  obtain ⟨k, _, hk⟩ := List.mem_flatMap.mp hl
  simp only [List.mem_cons, List.mem_singleton, List.not_mem_nil, or_false] at hk
  rcases hk with rfl | rfl <;> simp [dw, isDelayLine, isWaitLine]

theorem segHookLines_dw (now : Nat) (e : Eff) (pid tag : Nat) : ∀ l ∈ segHookLines now e pid tag, dw l = false := by
  intro l hl
  unfold segHookLines at hl
  split at hl
  · split at hl
    · simp only [List.mem_append] at hl
      rcases hl with hl | hl
      · exact actsHookLines_dw now _ _ l hl
      · split at hl
        · rcases List.mem_cons.mp hl with rfl | hl
          · simp [dw, isDelayLine, isWaitLine]
          · exact hRunLines_dw now _ l hl
        · simp at hl
    · simp at hl
  · simp at hl

theorem hookLines_dw (ps : PS) (now : Nat) (ev : Ev) : ∀ l ∈ hookLines ps now ev, dw l = false := by
  intro l hl
  unfold hookLines at hl
  simp only [List.mem_append, List.mem_singleton] at hl
  rcases hl with hl | rfl
  · split at hl
    · split at hl
      · rcases List.mem_cons.mp hl with rfl | hl
        · simp [dw, isDelayLine, isWaitLine]
        · exact hRunLines_dw now _ l hl
      · rcases List.mem_cons.mp hl with rfl | hl
        · simp [dw, isDelayLine, isWaitLine]
        · exact segHookLines_dw now _ _ _ l hl
    · exact segHookLines_dw now _ _ _ l hl
  · simp [dw, isDelayLine, isWaitLine]

theorem filter_all {α} (p : α → Bool) (l : List α) (h : ∀ x ∈ l, p x = true) : l.filter p = l :=
  List.filter_eq_self.mpr h

theorem filter_none {α} (p : α → Bool) (l : List α) (h : ∀ x ∈ l, p x = false) : l.filter p = [] :=
  List.filter_eq_nil_iff.mpr (fun x hx => by simp [h x hx])

/-- the delay / wait content of a delivery's lines is the delay view's -/
theorem traceLines_dw (s : St PS) (m : Ev) : (traceLines s m).filter dw = delayLines s m := by
  unfold traceLines delayLines
  simp only [List.filter_append]
  rw [filter_all dw _ (fun l hl => (rLine_neutral s.ent m l hl).2), filter_none dw _ (hookLines_dw s.ent m.time m),
    filter_all dw _ (fun l hl => (yLines_neutral _ l hl).2), filter_all dw _ (fun l hl => (wLine_neutral _ _ _ l hl).2)]
  simp

theorem tRun_dw (endT : Option Nat) (n : Nat) (s : St PS) (ls ls' : List Line) (h : ls.filter dw = ls') :
    (tRun endT n s ls).filter dw = viewRun endT n s ls' := by
  induction n generalizing s ls ls' with
  | zero => simpa [tRun, viewRun] using h
  | succ n ih =>
    unfold tRun viewRun
    cases hh : s.heap with
    | nil => simpa using h
    | cons x xs =>
      simp only []
      by_cases hc : continues endT s = true
      · simp only [hc, if_true]
        apply ih
        unfold tStep viewStep
        split
        · exact h
        · split
          · exact h
          · split
            · exact h
            · rw [List.filter_append, h, traceLines_dw]
      · simp only [hc, Bool.false_eq_true, if_false]
        exact h

theorem initHookLines_dw (ps : PS) : (initHookLines ps).filter dw = [] := by
  apply filter_none
  intro l hl
  unfold initHookLines at hl
  obtain ⟨x, _, rfl⟩ := List.mem_map.mp hl
  simp [dw, isDelayLine, isWaitLine]

theorem c02Trace_dw (endT : Option Nat) (n : Nat) (s0 : St PS) :
    (c02TraceOf endT n s0).filter dw = delayView endT n s0 :=
  tRun_dw endT n s0 _ _ (initHookLines_dw s0.ent)

/-! ## the hook monitor on the full trace -/

theorem TI_step_hooks (s : St PS) (ls : List Line) (m : Ev) (hm : m ∈ s.heap) (inv : Inv s) (hk : HookInv s)
    (pinv : ProcInv s) (hr : HR (closedOf s) s.ent (ls.foldl hookStep {})) :
    HR (closedOf (stepWith procMachine s m)) (stepWith procMachine s m).ent ((tStep s ls m).foldl hookStep {}) := by
  have hstep := HI_step s ls m hm inv hk pinv hr
  unfold hviewStep at hstep
  unfold tStep
  split
  · rename_i h1; simp only [h1, if_true] at hstep; exact hstep
  · rename_i h1
    split
    · rename_i h2; simp only [h1, h2, if_true, if_false] at hstep; exact hstep
    · rename_i h2
      split
      · rename_i h3; simp only [h1, h2, h3, if_true, if_false] at hstep; exact hstep
      · rename_i h3
        simp only [h1, h2, h3, if_false, Bool.false_eq_true] at hstep
        unfold traceLines
        rw [List.foldl_append] at hstep
        simp only [List.foldl_append]
        rw [fold_hookNeutral (rLine s.ent m) _ hr.due (fun l hl => (rLine_neutral s.ent m l hl).1)]
        generalize (hookLines s.ent m.time m).foldl hookStep (ls.foldl hookStep {}) = h2' at hstep
        rw [fold_hookNeutral _ h2' hstep.due (fun l hl => (yLines_neutral _ l hl).1),
          fold_hookNeutral _ h2' hstep.due (fun l hl => (wLine_neutral _ _ _ l hl).1)]
        exact hstep

theorem tRun_HR (endT : Option Nat) (n : Nat) (s : St PS) (ls : List Line) (inv : Inv s) (hk : HookInv s)
    (pinv : ProcInv s) (hr : HR (closedOf s) s.ent (ls.foldl hookStep {})) :
    HR (closedOf (run procMachine endT n s)) (run procMachine endT n s).ent ((tRun endT n s ls).foldl hookStep {}) := by
  induction n generalizing s ls with
  | zero => simpa [run, tRun]
  | succ n ih =>
    unfold run tRun step
    cases hh : s.heap with
    | nil => simpa
    | cons x xs =>
      simp only []
      by_cases hc : continues endT s = true
      · simp only [hc, if_true]
        have hmem : minOf x xs ∈ s.heap := by rw [hh]; exact (pop_is_min x xs).1
        exact ih _ _ (step_preserves procMachine s x xs hh inv) (step_hookInv s _ inv hk hmem)
          (step_procInv s _ pinv hmem) (TI_step_hooks s ls _ hmem inv hk pinv hr)
      · simp only [hc, Bool.false_eq_true, if_false]
        exact hr

theorem HR_init (s0 : St PS) (h0 : InitOk s0) (hlog : s0.log = []) (hlate : s0.ent.late = [])
    (hf2 : ∀ x ∈ s0.ent.hookOf, x.1 < s0.ent.nid) (hlk : ∀ x ∈ s0.ent.lastKind, x.2 < s0.ent.nid) :
    HR (closedOf s0) s0.ent ((initHookLines s0.ent).foldl hookStep {}) := by
  obtain ⟨_, i2, i3, i4, i5, i6⟩ := hooksFor_init s0.ent 0
  have hc : closedOf s0 = [] := by simp [closedOf, hlog]
  rw [hc]
  refine
    { err := i3, due := i2, h1 := fun id _ => (hooksFor_init s0.ent id).1, h2 := ?_, f1 := ?_, f2 := hf2, lk := hlk,
      cl := by simp, u := ?_, v := ?_, pt := ?_, np := by rw [i6, h0.noProcs]; rfl, lb := by rw [hlate]; simp }
  · intro pid p hp; rw [h0.noProcs] at hp; simp at hp
  · intro x hx
    rw [i4] at hx
    obtain ⟨y, hy, rfl⟩ := List.mem_map.mp hx
    have := hf2 y hy
    simp only []; omega
  · intro i j p q hp; rw [h0.noProcs] at hp; simp at hp
  · intro pid p hp; rw [h0.noProcs] at hp; simp at hp
  · intro pid p hp; rw [h0.noProcs] at hp; simp at hp

/-- **the trace of the process model is accepted by the hook, delay and wait monitors of the C02 judge**:
    for every handler table, from every initial state with no process, plain pending events and fresh
    creation indices, every end time and number of iterations.  On this trace the judge raises none of
    `process/hook/{not-run-at-finish, ran-without-being-due, ran-out-of-order, ran-at-wrong-instant}`,
    `process/{resumed-without-pending-delay, delay-resume-at-wrong-time, delay-resume-raised,
    delay-resume-with-value}`, `future/resumed-without-wait` (each of them is raised by its monitor only) -/
theorem process_trace_satisfies_c02_spec (endT : Option Nat) (n : Nat) (s0 : St PS) (inv : Inv s0) (hk : HookInv s0)
    (h0 : InitOk s0) (hlog : s0.log = []) (hlate : s0.ent.late = [])
    (hf2 : ∀ x ∈ s0.ent.hookOf, x.1 < s0.ent.nid) (hlk : ∀ x ∈ s0.ent.lastKind, x.2 < s0.ent.nid) :
    hookMonitor (c02TraceOf endT n s0) = none ∧ delayMonitor (c02TraceOf endT n s0) = none ∧
    waitMonitor (c02TraceOf endT n s0) = none := by
  have hr := tRun_HR endT n s0 _ inv hk h0.procInv (HR_init s0 h0 hlog hlate hf2 hlk)
  have hdw := process_trace_satisfies_c02_spec_delay_wait endT n s0 inv h0 (c02TraceOf endT n s0)
    (c02Trace_dw endT n s0)
  refine ⟨?_, hdw.1, hdw.2⟩
  unfold hookMonitor c02TraceOf
  simp [hr.err, hr.due]

/-- for the initial state of any program with a plain pre-run schedule -/
theorem program_trace_satisfies_c02_spec (p : Program) (gateCont : Bool) (hp : p.Plain) (endT : Option Nat) (n : Nat) :
    hookMonitor (c02TraceOf endT n (p.initState gateCont)) = none ∧
    delayMonitor (c02TraceOf endT n (p.initState gateCont)) = none ∧
    waitMonitor (c02TraceOf endT n (p.initState gateCont)) = none :=
  process_trace_satisfies_c02_spec endT n _ (initState_inv p gateCont) (initState_hookInv p gateCont)
    (initState_ok p gateCont hp) rfl rfl (initState_hookOf_fresh p gateCont) (initState_lastKind_fresh p gateCont)

end HappyModel.C01
