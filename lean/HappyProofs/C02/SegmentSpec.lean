import HappyProofs.C02.Segment
/-!
# C02 — what one call of `runSegment` does to the pending-resumption accounting and to the process table
-/
namespace HappyModel.C01
set_option linter.unusedVariables false

theorem resumeParked_procsAre (L : List Proc) (e : Eff) (now f : Nat) (h : ProcsAre L e) :
    ProcsAre L (resumeParked e now f) := by
  cases hpk : (futGet e.ps.futs f).parked with
  | none => rw [resumeParked_none e now f hpk]; exact h
  | some pid =>
    cases hp : e.ps.procs[pid]? with
    | none => rw [resumeParked_noproc e now f pid hpk hp]; exact h
    | some p =>
      rw [resumeParked_some e now f pid p hpk hp]
      unfold ProcsAre resumed at *
      simp only [setProc_procs, setFut_procs, push_procs]
      rw [map_strip_set _ _ _ _ hp]; exact h

/-- the process record the running process ends the segment with (`send` aside) -/
def finalProc (p : Proc) (rest : List Seg) : Term → Proc
  | .ret => { p with started := true, send := .none, segs := [], done := true, hooks := [] }
  | _ => { p with started := true, send := .none, segs := rest }

theorem segTerm_procs (L : List Proc) (now : Nat) (e1 : Eff) (pid : Nat) (p : Proc) (rest : List Seg)
    (t : Term) (h : ProcsAre L e1) :
    ProcsAre (L.set pid (strip (finalProc p rest t)))
      (segTerm now e1 pid { p with started := true, send := .none } rest t) := by
  have hset : ∀ x, ProcsAre (L.set pid (strip x)) (e1.setProc pid x) := by
    intro x
    unfold ProcsAre at *
    simp only [setProc_procs, List.map_set, h]
  cases t with
  | yieldD d => exact hset _
  | yieldF f =>
    simp only [segTerm, finalProc]
    split
    · exact resumeParked_procsAre _ _ _ _ (hset _)
    · exact hset _
  | ret =>
    simp only [segTerm, finalProc]
    apply runHooks_closed (ProcsAre_closed _)
    exact hset _

theorem segBody_procs (now : Nat) (e : Eff) (pid tag : Nat) (p : Proc) (seg : Seg) (rest : List Seg) :
    ProcsAre ((e.ps.procs.map strip).set pid (strip (finalProc p rest seg.term)))
      (segBody now e pid tag p seg rest) := by
  have h0 : ProcsAre ((e.ps.procs.map strip).set pid (strip { p with started := true, send := .none }))
      (segStart now e pid tag p) := by
    unfold segStart ProcsAre
    split <;> simp [List.map_set]
  have h1 := acts_closed (ProcsAre_closed _) now seg.acts _ h0
  have h2 := segTerm_procs _ now _ pid p rest seg.term h1
  rw [List.set_set] at h2
  exact h2

theorem getElem?_some_lt {α} {l : List α} {i : Nat} {x : α} (h : l[i]? = some x) : i < l.length := by
  rcases Nat.lt_or_ge i l.length with h' | h'
  · exact h'
  · rw [List.getElem?_eq_none h'] at h; simp at h

/-- one call of `runSegment` for a process that has nothing pending (its continuation was just
    popped, or it was just created) -/
theorem runSegment_spec (B : Nat → Nat) (now : Nat) (e : Eff) (pid tag : Nat) (h : Bnd B e) (hB : B pid = 0)
    (hdone : ∀ p, e.ps.procs[pid]? = some p → p.done = true → p.segs = []) :
    WF (runSegment now e pid tag) ∧
    (∀ q, cnt (runSegment now e pid tag) q ≤ B q + ind (pid == q)) ∧
    (runSegment now e pid tag).ps.procs.length = e.ps.procs.length ∧
    (∀ q, q ≠ pid → ((runSegment now e pid tag).ps.procs[q]?).map strip = (e.ps.procs[q]?).map strip) ∧
    (∀ p', (runSegment now e pid tag).ps.procs[pid]? = some p' → p'.done = true →
        p'.segs = [] ∧ cnt (runSegment now e pid tag) pid = 0) := by
  have hsame : ∀ r : Eff, r = e → WF r ∧ (∀ q, cnt r q ≤ B q + ind (pid == q)) ∧
      r.ps.procs.length = e.ps.procs.length ∧
      (∀ q, q ≠ pid → (r.ps.procs[q]?).map strip = (e.ps.procs[q]?).map strip) ∧
      (∀ p', r.ps.procs[pid]? = some p' → p'.done = true → p'.segs = [] ∧ cnt r pid = 0) := by
    intro r heq
    subst heq
    refine ⟨h.1, fun q => Nat.le_trans (h.2 q) (Nat.le_add_right _ _), rfl, fun _ _ => rfl, ?_⟩
    intro p' hp' hd
    have := h.2 pid
    exact ⟨hdone p' hp' hd, by omega⟩
  cases hp : e.ps.procs[pid]? with
  | none => exact hsame _ (runSegment_noproc now e pid tag hp)
  | some p =>
    cases hs : p.segs with
    | nil => exact hsame _ (by simp [runSegment, hp, hs])
    | cons seg rest =>
      rw [runSegment_eq now e pid tag p seg rest hp hs]
      have hb := segBody_bnd B now e pid tag p seg rest h hp
      have hpr := segBody_procs now e pid tag p seg rest
      have hl := getElem?_some_lt hp
      unfold ProcsAre at hpr
      have hlen : (segBody now e pid tag p seg rest).ps.procs.length = e.ps.procs.length := by
        have := congrArg List.length hpr
        simpa using this
      refine ⟨hb.1, hb.2.1, hlen, ?_, ?_⟩
      · intro q hq
        have := congrArg (fun l => l[q]?) hpr
        simp only [List.getElem?_map, List.getElem?_set] at this
        rw [this]
        simp [Ne.symm hq]
      · intro p' hp' hd
        have := congrArg (fun l => l[pid]?) hpr
        simp only [List.getElem?_map, List.getElem?_set, hp', Option.map_some] at this
        simp [hl] at this
        have hdn : p'.done = (finalProc p rest seg.term).done := by
          have := congrArg Proc.done this; simpa [strip] using this
        have hsg : p'.segs = (finalProc p rest seg.term).segs := by
          have := congrArg Proc.segs this; simpa [strip] using this
        have hpd : p.done = false := by
          cases hpd : p.done with
          | false => rfl
          | true => have := hdone p hp hpd; rw [hs] at this; simp at this
        cases ht : seg.term with
        | ret =>
          rw [ht] at hsg
          refine ⟨by simpa [finalProc] using hsg, ?_⟩
          have := hb.2.2 ht pid
          omega
        | yieldD d => rw [ht] at hdn; simp [finalProc, hpd, hd] at hdn
        | yieldF f => rw [ht] at hdn; simp [finalProc, hpd, hd] at hdn

end HappyModel.C01
