import HappyProofs.C02.Run
/-!
# C02 — the resuming step: `resolve` on a future with a parked process, and parking on a resolved future
-/
namespace HappyModel.C01
set_option linter.unusedVariables false

theorem markResolved_futGet_ne (e : Eff) (now f g : Nat) (v : Val) (h : g ≠ f) :
    futGet (markResolved e now f v).ps.futs g = futGet e.ps.futs g := by
  rcases markResolved_cases e now f v with h1 | ⟨pid, p, hpk, hp, h1⟩
  · rw [h1]; simp [futGet_futSet, h]
  · rw [h1]; unfold resumed; simp [futGet_futSet, h]

theorem markResolved_futGet_same (e : Eff) (now f : Nat) (v : Val) :
    (futGet (markResolved e now f v).ps.futs f).resolved = true ∧
    (futGet (markResolved e now f v).ps.futs f).value = v ∧
    (futGet (markResolved e now f v).ps.futs f).cbs = [] ∧
    (futGet (markResolved e now f v).ps.futs f).results = (futGet e.ps.futs f).results ∧
    (futGet (markResolved e now f v).ps.futs f).remaining = (futGet e.ps.futs f).remaining := by
  rcases markResolved_cases e now f v with h1 | ⟨pid, p, hpk, hp, h1⟩
  · rw [h1]; simp [futGet_futSet]
  · rw [h1]; unfold resumed; simp [futGet_futSet]

/-- the specs of an effect only ever grow at the end -/
def Extends (S : List Spec) (x : Eff) : Prop := ∃ more, x.specs = S ++ more

theorem Extends_cclosed (S : List Spec) : CClosed (Extends S) where
  resolve := by
    intro e now f v ⟨more, h⟩ hr
    rcases markResolved_cases e now f v with h1 | ⟨pid, p, hpk, hp, h1⟩
    · rw [h1]; exact ⟨more, h⟩
    · rw [h1]; unfold resumed
      exact ⟨more ++ [contSpec p pid now], by
        simp only [setProc_specs, setFut_specs, push_cont_specs, h, List.append_assoc]⟩
  allUpd := fun e c res rem h hr => h

/-- a future that is resolved with `w` stays so under any cascade -/
def ResolvedIs (f : Nat) (w : Val) (x : Eff) : Prop :=
  (futGet x.ps.futs f).resolved = true ∧ (futGet x.ps.futs f).value = w

theorem ResolvedIs_cclosed (f : Nat) (w : Val) : CClosed (ResolvedIs f w) where
  resolve := by
    intro e now g v h hr
    have hne : f ≠ g := by intro heq; subst heq; rw [h.1] at hr; simp at hr
    unfold ResolvedIs
    rw [markResolved_futGet_ne e now g f v hne]; exact h
  allUpd := by
    intro e c res rem h hr
    have hne : f ≠ c := by intro heq; subst heq; rw [h.1] at hr; simp at hr
    unfold ResolvedIs
    simp only [setFut_futs, futGet_futSet, hne, if_false]; exact h

/-- state of affairs once `resolve(f, v)` has resumed the process `pid` that was parked on `f`:
    the continuation is among the specs (`S` ends with it), `f` is resolved with `v` and nobody is
    parked on it, the process record carries `v` as the value to send -/
def ResumedInv (B : Nat → Nat) (S : List Spec) (f pid : Nat) (v : Val) (x : Eff) : Prop :=
  Bnd B x ∧ Extends S x ∧
  ((futGet x.ps.futs f).resolved = true ∧ (futGet x.ps.futs f).value = v ∧ (futGet x.ps.futs f).parked = none) ∧
  ∃ q, x.ps.procs[pid]? = some q ∧ q.send = v

theorem cntSpec_extends {S : List Spec} {x : Eff} (h : Extends S x) (pid : Nat) :
    cntSpec S pid ≤ cntSpec x.specs pid := by
  obtain ⟨more, hm⟩ := h
  rw [hm, cntSpec_append]; omega

theorem ResumedInv_cclosed (B : Nat → Nat) (S : List Spec) (f pid : Nat) (v : Val) (hB : B pid ≤ 1)
    (hS : 1 ≤ cntSpec S pid) : CClosed (ResumedInv B S f pid v) where
  resolve := by
    intro e now g w ⟨hb, hext, hfut, q, hq, hsend⟩ hr
    have hne : f ≠ g := by intro heq; subst heq; rw [hfut.1] at hr; simp at hr
    refine ⟨Bnd_markResolved B e now g w hb hr, (Extends_cclosed S).resolve e now g w hext hr, ?_, ?_⟩
    · rw [markResolved_futGet_ne e now g f w hne]; exact hfut
    · rcases markResolved_cases e now g w with h1 | ⟨pid', p, hpk, hp, h1⟩
      · rw [h1]; exact ⟨q, hq, hsend⟩
      · rw [h1]; unfold resumed
        have hpne : pid' ≠ pid := by
          intro heq; subst heq
          have h1 := cntSpec_extends hext pid'
          have h2 := hb.2 pid'
          have h3 : cntPark e.ps.futs pid' ≠ 0 := by
            rw [Ne, cntPark_zero]; intro hall; exact hall g hpk
          simp only [cnt] at h2
          omega
        refine ⟨q, ?_, hsend⟩
        simp only [setProc_procs, setFut_procs, push_procs]
        rw [List.getElem?_set_ne hpne]; exact hq
  allUpd := by
    intro e c res rem ⟨hb, hext, hfut, hsend⟩ hr
    have hne : f ≠ c := by intro heq; subst heq; rw [hfut.1] at hr; simp at hr
    refine ⟨(Bnd_closed B).allUpd e c res rem hb hr, hext, ?_, hsend⟩
    simp only [setFut_futs, futGet_futSet, hne, if_false]; exact hfut

/-- **the resuming step.**  `resolve(f, v)` on an unresolved future with process `pid` parked on it
    creates, in that very call, exactly one continuation of `pid` (time = the current clock, the
    process's own target/kind/daemon), stores `v` as the value to send, marks `f` resolved with `v`
    and un-parks; whatever the settle-callback cascade does afterwards creates no second
    continuation of `pid` and does not touch `f` again -/
theorem resolve_resumes_parked (fuel : Nat) (e : Eff) (now f pid : Nat) (v : Val) (p : Proc)
    (hw : WF e) (hone : cnt e pid ≤ 1)
    (hr : (futGet e.ps.futs f).resolved = false) (hpk : (futGet e.ps.futs f).parked = some pid)
    (hp : e.ps.procs[pid]? = some p) :
    ∃ more, (resolveFut (fuel + 1) e now f v).specs = e.specs ++ contSpec p pid now :: more ∧
      cntSpec e.specs pid = 0 ∧ cntSpec more pid = 0 ∧
      (futGet (resolveFut (fuel + 1) e now f v).ps.futs f).resolved = true ∧
      (futGet (resolveFut (fuel + 1) e now f v).ps.futs f).value = v ∧
      (futGet (resolveFut (fuel + 1) e now f v).ps.futs f).parked = none ∧
      (∃ q, (resolveFut (fuel + 1) e now f v).ps.procs[pid]? = some q ∧ q.send = v) ∧
      WF (resolveFut (fuel + 1) e now f v) ∧ cnt (resolveFut (fuel + 1) e now f v) pid ≤ 1 := by
  have hpark : cntPark e.ps.futs pid ≠ 0 := by
    rw [Ne, cntPark_zero]; intro hall; exact hall f hpk
  have hs0 : cntSpec e.specs pid = 0 := by simp only [cnt] at hone; omega
  rw [resolveFut_succ]
  simp only [hr, Bool.false_eq_true, if_false]
  -- the state right after mark + resume
  have hbnd0 : Bnd (cnt e) e := ⟨hw, fun q => Nat.le_refl _⟩
  have hbm := Bnd_markResolved (cnt e) e now f v hbnd0 hr
  have hm : markResolved e now f v =
      resumed (e.setFut f { futGet e.ps.futs f with resolved := true, value := v, cbs := [] }) now f pid p := by
    rcases markResolved_cases e now f v with h1 | ⟨pid', p', hpk', hp', h1⟩
    · exfalso
      have h2 := hbm.1.park f pid
      rw [h1] at h2
      simp only [setFut_futs, futGet_futSet, if_true] at h2
      have := (h2 hpk).1
      simp at this
    · rw [hpk] at hpk'; simp only [Option.some.injEq] at hpk'; subst hpk'
      rw [hp] at hp'; simp only [Option.some.injEq] at hp'; subst hp'
      exact h1
  have hmspecs : (markResolved e now f v).specs = e.specs ++ [contSpec p pid now] := by
    rw [hm]; unfold resumed; simp only [setProc_specs, setFut_specs, push_cont_specs]
  have hinv0 : ResumedInv (cnt e) (e.specs ++ [contSpec p pid now]) f pid v (markResolved e now f v) := by
    refine ⟨hbm, ⟨[], by rw [hmspecs]; simp⟩, ?_, ?_⟩
    · have := markResolved_futGet_same e now f v
      refine ⟨this.1, this.2.1, ?_⟩
      rw [hm]; unfold resumed; simp [futGet_futSet]
    · rw [hm]; unfold resumed
      have hl := getElem?_some_lt hp
      refine ⟨_, by simp only [setProc_procs, setFut_procs, push_procs]; rw [List.getElem?_set_self hl], ?_⟩
      simp [futGet_futSet]
  have hS : 1 ≤ cntSpec (e.specs ++ [contSpec p pid now]) pid := by
    rw [cntSpec_append, cntSpec_single]; simp [contSpec, ind]
  have hcl := ResumedInv_cclosed (cnt e) (e.specs ++ [contSpec p pid now]) f pid v hone hS
  have hfin := foldl_closed (cbStep fuel now v)
    (fun x cb hx => cbStep_cclosed hcl fuel now v x cb hx) (futGet e.ps.futs f).cbs _ hinv0
  generalize List.foldl (cbStep fuel now v) (markResolved e now f v) (futGet e.ps.futs f).cbs = r at hfin
  obtain ⟨hb, ⟨more, hext⟩, hfut, hsend⟩ := hfin
  refine ⟨more, by rw [hext]; simp, hs0, ?_, hfut.1, hfut.2.1, hfut.2.2, hsend, hb.1, Nat.le_trans (hb.2 pid) hone⟩
  have h1 := hb.2 pid
  simp only [cnt] at h1 hone
  rw [hext, cntSpec_append, cntSpec_append, cntSpec_single] at h1
  have : ind ((contSpec p pid now).data == pid + 1) = 1 := by simp [contSpec, ind]
  omega

/-- resolving again afterwards does nothing: no new spec, no state change -/
theorem resolve_twice_noop (fuel fuel' : Nat) (e : Eff) (now now' f : Nat) (v v' : Val)
    (hr : (futGet e.ps.futs f).resolved = false) :
    resolveFut fuel' (resolveFut (fuel + 1) e now f v) now' f v' = resolveFut (fuel + 1) e now f v := by
  cases fuel' with
  | zero => rfl
  | succ n =>
    rw [resolveFut_succ n]
    have : (futGet (resolveFut (fuel + 1) e now f v).ps.futs f).resolved = true := by
      rw [resolveFut_succ]
      simp only [hr, Bool.false_eq_true, if_false]
      have h0 : ResolvedIs f v (markResolved e now f v) :=
        ⟨(markResolved_futGet_same e now f v).1, (markResolved_futGet_same e now f v).2.1⟩
      exact (foldl_closed (cbStep fuel now v)
        (fun x cb hx => cbStep_cclosed (ResolvedIs_cclosed f v) fuel now v x cb hx) _ _ h0).1
    simp [this]

/-- `yield f` on a future that is already resolved: `_park` resumes at once — exactly one
    continuation, at the current instant, carrying the future's value; nobody stays parked -/
theorem segTerm_park_resolved (now : Nat) (e1 : Eff) (pid : Nat) (p1 : Proc) (rest : List Seg) (f : Nat)
    (hpid : pid < e1.ps.procs.length) (hres : (futGet e1.ps.futs f).resolved = true) :
    (segTerm now e1 pid p1 rest (.yieldF f)).specs = e1.specs ++ [contSpec p1 pid now] ∧
    (futGet (segTerm now e1 pid p1 rest (.yieldF f)).ps.futs f).parked = none ∧
    (futGet (segTerm now e1 pid p1 rest (.yieldF f)).ps.futs f).resolved = true ∧
    ∃ q, (segTerm now e1 pid p1 rest (.yieldF f)).ps.procs[pid]? = some q ∧
      q.send = (futGet e1.ps.futs f).value ∧ q.segs = rest := by
  have hres' : (futGet (e1.setProc pid { p1 with segs := rest }).ps.futs f).resolved = true := hres
  simp only [segTerm]
  rw [if_pos hres']
  generalize he3 : (e1.setProc pid { p1 with segs := rest }).setFut f
    { futGet (e1.setProc pid { p1 with segs := rest }).ps.futs f with parked := some pid } = e3
  have hget : futGet e3.ps.futs f = { futGet e1.ps.futs f with parked := some pid } := by
    subst he3; simp [futGet_futSet]
  have hprocs : e3.ps.procs = e1.ps.procs.set pid { p1 with segs := rest } := by subst he3; rfl
  have hspecs : e3.specs = e1.specs := by subst he3; rfl
  have hp : e3.ps.procs[pid]? = some { p1 with segs := rest } := by
    rw [hprocs, List.getElem?_set_self hpid]
  rw [resumeParked_some e3 now f pid _ (by rw [hget]) hp]
  unfold resumed
  refine ⟨?_, ?_, ?_, ?_⟩
  · simp only [setProc_specs, setFut_specs, push_cont_specs, hspecs]; rfl
  · simp [futGet_futSet]
  · simp [futGet_futSet, hget, hres]
  · have hl : pid < e3.ps.procs.length := by rw [hprocs]; simpa using hpid
    refine ⟨_, by simp only [setProc_procs, setFut_procs, push_procs]; rw [List.getElem?_set_self hl], ?_, rfl⟩
    simp [hget]

theorem park_on_resolved_resumes_at_once' (now : Nat) (e : Eff) (pid tag : Nat) (p : Proc) (acts : List Act)
    (f : Nat) (rest : List Seg) (hp : e.ps.procs[pid]? = some p) (hs : p.segs = ⟨acts, .yieldF f⟩ :: rest)
    (hres : (futGet (acts.foldl (runAct now) (segStart now e pid tag p)).ps.futs f).resolved = true) :
    (runSegment now e pid tag).specs
        = (acts.foldl (runAct now) (segStart now e pid tag p)).specs ++ [contSpec p pid now] ∧
    (futGet (runSegment now e pid tag).ps.futs f).parked = none ∧
    ∃ q, (runSegment now e pid tag).ps.procs[pid]? = some q ∧
      q.send = (futGet (acts.foldl (runAct now) (segStart now e pid tag p)).ps.futs f).value ∧ q.segs = rest := by
  rw [runSegment_eq now e pid tag p _ rest hp hs]
  unfold segBody
  simp only []
  have hl := getElem?_some_lt hp
  have hf1 := acts_closed (ProcsAre_closed _) now acts (segStart now e pid tag p) rfl
  have hl1 := ProcsAre_length hf1
  have hl0 : (segStart now e pid tag p).ps.procs.length = e.ps.procs.length := by
    unfold segStart; split <;> simp
  simp only [List.length_map] at hl1
  have := segTerm_park_resolved now _ pid { p with started := true, send := .none } rest f (by omega) hres
  exact ⟨this.1, this.2.1, this.2.2.2⟩

/-- `yield f` on an unresolved future: the process parks — no continuation is created in this step -/
theorem park_on_unresolved_waits' (now : Nat) (e : Eff) (pid tag : Nat) (p : Proc) (acts : List Act)
    (f : Nat) (rest : List Seg) (hp : e.ps.procs[pid]? = some p) (hs : p.segs = ⟨acts, .yieldF f⟩ :: rest)
    (hres : (futGet (acts.foldl (runAct now) (segStart now e pid tag p)).ps.futs f).resolved = false) :
    (runSegment now e pid tag).specs = (acts.foldl (runAct now) (segStart now e pid tag p)).specs ∧
    (futGet (runSegment now e pid tag).ps.futs f).parked = some pid ∧
    (futGet (runSegment now e pid tag).ps.futs f).resolved = false := by
  rw [runSegment_eq now e pid tag p _ rest hp hs]
  unfold segBody
  simp only [segTerm]
  have hres' : ¬ ((futGet ((acts.foldl (runAct now) (segStart now e pid tag p)).setProc pid
      { ({ p with started := true, send := .none } : Proc) with segs := rest }).ps.futs f).resolved = true) := by
    simp only [setProc_futs]; rw [hres]; simp
  rw [if_neg hres']
  refine ⟨rfl, ?_, ?_⟩
  · simp [futGet_futSet]
  · simp only [setFut_futs, futGet_futSet_same, setProc_futs]; exact hres

end HappyModel.C01
