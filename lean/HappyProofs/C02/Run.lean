import HappyProofs.C02.SegmentSpec
import HappyProofs.C01.Lemmas
/-!
# C02 — the run-level invariant: at most one pending resumption per process

A pending resumption of process `pid` is a continuation event in the heap (`data = pid + 1`) or a
future the process is parked on.  `ProcInv` says: every process has at most one of them, parks are
only on unresolved futures and only by existing processes, continuation events refer to existing
processes, and a finished process has none (and no code left).
-/
namespace HappyModel.C01
set_option linter.unusedVariables false

structure ProcInv (s : St PS) : Prop where
  atMostOne : ∀ pid, cntHeap s.heap pid + cntPark s.ent.futs pid ≤ 1
  heapProc : ∀ e ∈ s.heap, e.data ≤ s.ent.procs.length
  parkOk : ∀ f pid, (futGet s.ent.futs f).parked = some pid →
      (futGet s.ent.futs f).resolved = false ∧ pid < s.ent.procs.length
  doneNone : ∀ pid p, s.ent.procs[pid]? = some p → p.done = true →
      p.segs = [] ∧ cntHeap s.heap pid = 0 ∧ cntPark s.ent.futs pid = 0
  heldPlain : ∀ q ∈ s.ent.held, q.2.data = 0

theorem cntHeap_append (a b : List Ev) (q : Nat) : cntHeap (a ++ b) q = cntHeap a q + cntHeap b q := by
  simp [cntHeap, List.countP_append]

theorem cntHeap_mkEvents (n t : Nat) (specs : List Spec) (q : Nat) :
    cntHeap (mkEvents n t specs) q = cntSpec specs q := by
  induction specs generalizing n with
  | nil => rfl
  | cons s ss ih =>
    simp only [mkEvents, cntHeap, cntSpec, List.countP_cons] at ih ⊢
    rw [ih]

theorem mkEvents_data (n t : Nat) (specs : List Spec) :
    ∀ e ∈ mkEvents n t specs, ∃ sp ∈ specs, e.data = sp.data := by
  induction specs generalizing n with
  | nil => simp [mkEvents]
  | cons s ss ih =>
    intro e he
    simp only [mkEvents, List.mem_cons] at he
    rcases he with rfl | he
    · exact ⟨s, by simp, rfl⟩
    · obtain ⟨sp, hsp, h⟩ := ih (n + 1) e he
      exact ⟨sp, by simp [hsp], h⟩

theorem cntHeap_erase_le (l : List Ev) (m : Ev) (q : Nat) : cntHeap (l.erase m) q ≤ cntHeap l q :=
  List.Sublist.countP_le List.erase_sublist

theorem cntHeap_erase_mem (l : List Ev) (m : Ev) (q : Nat) (hm : m ∈ l) :
    cntHeap (l.erase m) q + ind (m.data == q + 1) = cntHeap l q := by
  induction l with
  | nil => simp at hm
  | cons x xs ih =>
    by_cases hx : x = m
    · subst hx
      simp only [List.erase_cons_head, cntHeap, List.countP_cons, ind]
    · have hm' : m ∈ xs := by
        rcases List.mem_cons.mp hm with h | h
        · exact absurd h.symm hx
        · exact h
      have hne : ¬ (x == m) = true := by simp [hx]
      rw [List.erase_cons_tail hne]
      have := ih hm'
      simp only [cntHeap, List.countP_cons] at this ⊢
      omega

/-- `_start_process`: a new process record -/
def spawn (e : Eff) (p : Proc) : Eff := { e with ps := { e.ps with procs := e.ps.procs ++ [p] } }

@[simp] theorem spawn_specs (e : Eff) (p : Proc) : (spawn e p).specs = e.specs := rfl
@[simp] theorem spawn_futs (e : Eff) (p : Proc) : (spawn e p).ps.futs = e.ps.futs := rfl
@[simp] theorem spawn_procs (e : Eff) (p : Proc) : (spawn e p).ps.procs = e.ps.procs ++ [p] := rfl
@[simp] theorem spawn_held (e : Eff) (p : Proc) : (spawn e p).ps.held = e.ps.held := rfl
@[simp] theorem spawn_obs (e : Eff) (p : Proc) : (spawn e p).ps.obs = e.ps.obs := rfl

/-- the process a generator handler starts as -/
def newProc (ps : PS) (ev : Ev) (d : HandlerDef) : Proc :=
  { ent := ev.target, kind := ev.kind, daemon := ev.daemon, segs := d.segs,
    hooks := (ps.hookOf.filter (fun p => p.1 == ev.id)).map (·.2), ev := ev.id,
    hops := hopsAt ps.hopsOf ev.tag }

/-- the effect computed by `procHandle` -/
def procEff (ps : PS) (now : Nat) (ev : Ev) : Eff :=
  let e0 : Eff := { ps := ps }
  let hooks := (ps.hookOf.filter (fun p => p.1 == ev.id)).map (·.2)
  if ev.data = 0 then
    match ps.defs.find? (fun d => d.ent == ev.target && d.kind == ev.kind) with
    | none => runHooks now (addObs e0 (.skip now ev.target ev.kind ev.tag)) hooks
    | some d =>
      runSegment now (spawn (addObs e0 (.start now ev.target ev.kind ev.tag)) (newProc ps ev d)) ps.procs.length
  else runSegment now e0 (ev.data - 1) ev.tag

theorem procHandle_eq (ps : PS) (now : Nat) (ev : Ev) :
    procHandle ps now ev =
      { ent := (procEff ps now ev).ps, specs := (procEff ps now ev).specs, cancels := (procEff ps now ev).cancels } := by
  unfold procHandle procEff
  by_cases hd : ev.data = 0
  · simp only [hd, if_true]
    cases ps.defs.find? (fun d => d.ent == ev.target && d.kind == ev.kind) <;> rfl
  · simp only [hd, if_false]

/-- assembling the invariant after a delivery from what the handler's effect satisfies -/
theorem ProcInv_assemble (s s' : St PS) (m : Ev) (r : Eff) (pid0 n t : Nat) (inv : ProcInv s)
    (hh : s'.heap = s.heap.erase m ++ mkEvents n t r.specs) (he : s'.ent = r.ps)
    (hw : WF r) (hc : ∀ q, cnt r q ≤ cntPark s.ent.futs q + ind (pid0 == q))
    (h0 : cntHeap (s.heap.erase m) pid0 = 0) (h0' : cntPark s.ent.futs pid0 = 0)
    (hlen : s.ent.procs.length ≤ r.ps.procs.length)
    (hfr : ∀ q, q ≠ pid0 → ∀ p', r.ps.procs[q]? = some p' → p'.done = true →
        ∃ p, s.ent.procs[q]? = some p ∧ p.done = true ∧ p'.segs = p.segs)
    (hd0 : ∀ p', r.ps.procs[pid0]? = some p' → p'.done = true → p'.segs = [] ∧ cnt r pid0 = 0) :
    ProcInv s' := by
  have hcount : ∀ q, cntHeap s'.heap q = cntHeap (s.heap.erase m) q + cntSpec r.specs q := by
    intro q; rw [hh, cntHeap_append, cntHeap_mkEvents]
  have hindne : ∀ q, q ≠ pid0 → ind (pid0 == q) = 0 := by
    intro q hq; simp [ind, Ne.symm hq]
  refine ⟨?_, ?_, ?_, ?_, ?_⟩
  · intro q
    rw [hcount, he]
    have h1 := hc q
    have h2 := inv.atMostOne q
    have h3 := cntHeap_erase_le s.heap m q
    simp only [cnt] at h1
    by_cases hq : q = pid0
    · subst hq
      have := ind_le_one (q == q)
      have h4 := inv.atMostOne q
      omega
    · rw [hindne q hq] at h1; omega
  · intro e hemem
    rw [hh] at hemem
    rw [he]
    rcases List.mem_append.mp hemem with h | h
    · exact Nat.le_trans (inv.heapProc e (List.mem_of_mem_erase h)) hlen
    · obtain ⟨sp, hsp, hd⟩ := mkEvents_data n t r.specs e h
      rw [hd]; exact hw.specs sp hsp
  · intro f pid hf
    rw [he] at hf ⊢
    exact hw.park f pid hf
  · intro q p' hp' hd
    rw [he] at hp'
    rw [hcount, he]
    by_cases hq : q = pid0
    · subst hq
      have ⟨hs, hz⟩ := hd0 p' hp' hd
      simp only [cnt] at hz
      exact ⟨hs, by omega, by omega⟩
    · obtain ⟨p, hp, hpd, hsg⟩ := hfr q hq p' hp' hd
      have ⟨a, b, c⟩ := inv.doneNone q p hp hpd
      have h1 := hc q
      rw [hindne q hq] at h1
      have h3 := cntHeap_erase_le s.heap m q
      simp only [cnt] at h1
      exact ⟨by rw [hsg]; exact a, by omega, by omega⟩
  · intro q hq
    rw [he] at hq
    exact hw.held q hq

/-- the popped event leaves, nothing else changes -/
theorem ProcInv_erase (s s' : St PS) (m : Ev) (inv : ProcInv s)
    (hh : s'.heap = s.heap.erase m) (he : s'.ent = s.ent) : ProcInv s' := by
  refine ⟨?_, ?_, ?_, ?_, ?_⟩
  · intro q
    rw [hh, he]
    have := inv.atMostOne q
    have := cntHeap_erase_le s.heap m q
    omega
  · intro e hemem
    rw [hh] at hemem; rw [he]
    exact inv.heapProc e (List.mem_of_mem_erase hemem)
  · rw [he]; exact inv.parkOk
  · intro q p hp hd
    rw [he] at hp
    rw [hh, he]
    have ⟨a, b, c⟩ := inv.doneNone q p hp hd
    have := cntHeap_erase_le s.heap m q
    exact ⟨a, by omega, c⟩
  · rw [he]; exact inv.heldPlain

theorem strip_frame {a b : List Proc} {q : Nat} (h : (a[q]?).map strip = (b[q]?).map strip) {p' : Proc}
    (hp : a[q]? = some p') : ∃ p, b[q]? = some p ∧ p.done = p'.done ∧ p.segs = p'.segs := by
  rw [hp] at h
  cases hb : b[q]? with
  | none => rw [hb] at h; simp at h
  | some p =>
    rw [hb] at h
    simp only [Option.map_some, Option.some.injEq] at h
    refine ⟨p, rfl, ?_, ?_⟩
    · have := congrArg Proc.done h; simpa [strip] using this.symm
    · have := congrArg Proc.segs h; simpa [strip] using this.symm

theorem Bnd_init (s : St PS) (inv : ProcInv s) : Bnd (cntPark s.ent.futs) ({ ps := s.ent } : Eff) := by
  refine ⟨⟨inv.parkOk, by simp, inv.heldPlain⟩, ?_⟩
  intro q
  simp [cnt, cntSpec]

theorem fresh_pid_nothing (s : St PS) (inv : ProcInv s) :
    cntHeap s.heap s.ent.procs.length = 0 ∧ cntPark s.ent.futs s.ent.procs.length = 0 := by
  constructor
  · unfold cntHeap
    rw [List.countP_eq_zero]
    intro e he
    have := inv.heapProc e he
    simp; omega
  · rw [cntPark_zero]
    intro f hf
    have := (inv.parkOk f _ hf).2
    omega

/-- what the handler invocation of a delivered event satisfies -/
theorem procEff_inv (s : St PS) (m : Ev) (now : Nat) (inv : ProcInv s) (hm : m ∈ s.heap) :
    ∃ pid0, WF (procEff s.ent now m) ∧
      (∀ q, cnt (procEff s.ent now m) q ≤ cntPark s.ent.futs q + ind (pid0 == q)) ∧
      cntHeap (s.heap.erase m) pid0 = 0 ∧ cntPark s.ent.futs pid0 = 0 ∧
      s.ent.procs.length ≤ (procEff s.ent now m).ps.procs.length ∧
      (∀ q, q ≠ pid0 → ∀ p', (procEff s.ent now m).ps.procs[q]? = some p' → p'.done = true →
        ∃ p, s.ent.procs[q]? = some p ∧ p.done = true ∧ p'.segs = p.segs) ∧
      (∀ p', (procEff s.ent now m).ps.procs[pid0]? = some p' → p'.done = true →
        p'.segs = [] ∧ cnt (procEff s.ent now m) pid0 = 0) := by
  have hB0 := Bnd_init s inv
  have ⟨hf1, hf2⟩ := fresh_pid_nothing s inv
  have hf1' : cntHeap (s.heap.erase m) s.ent.procs.length = 0 := by
    have := cntHeap_erase_le s.heap m s.ent.procs.length; omega
  unfold procEff
  simp only []
  by_cases hd : m.data = 0
  · simp only [hd, if_true]
    cases hfind : s.ent.defs.find? (fun d => d.ent == m.target && d.kind == m.kind) with
    | none =>
      simp only []
      have hb1 := runHooks_closed (Bnd_closed _) now
        ((s.ent.hookOf.filter (fun p => p.1 == m.id)).map (·.2)) _
        (Bnd_addObs _ _ (.skip now m.target m.kind m.tag) hB0)
      have hp1 := runHooks_closed (ProcsAre_closed _) now
        ((s.ent.hookOf.filter (fun p => p.1 == m.id)).map (·.2))
        (addObs { ps := s.ent } (.skip now m.target m.kind m.tag)) rfl
      generalize runHooks now (addObs { ps := s.ent } (.skip now m.target m.kind m.tag))
        ((s.ent.hookOf.filter (fun p => p.1 == m.id)).map (·.2)) = r at hb1 hp1
      unfold ProcsAre at hp1
      simp only [addObs_procs] at hp1
      have hlen : r.ps.procs.length = s.ent.procs.length := by
        have := congrArg List.length hp1; simpa using this
      refine ⟨s.ent.procs.length, hb1.1, fun q => Nat.le_trans (hb1.2 q) (Nat.le_add_right _ _), hf1', hf2,
        by omega, ?_, ?_⟩
      · intro q hq p' hp' hdn
        have hq' := congrArg (fun l => l[q]?) hp1
        simp only [List.getElem?_map] at hq'
        obtain ⟨p, hp, h1, h2⟩ := strip_frame hq' hp'
        exact ⟨p, hp, by rw [h1]; exact hdn, h2.symm⟩
      · intro p' hp'
        have := getElem?_some_lt hp'
        omega
    | some d =>
      simp only []
      generalize hpn : newProc s.ent m d = pn
      have hpnd : pn.done = false := by subst hpn; rfl
      generalize he2 : spawn (addObs { ps := s.ent } (.start now m.target m.kind m.tag)) pn = e2
      have hprocs2 : e2.ps.procs = s.ent.procs ++ [pn] := by subst he2; rfl
      have hB2 : Bnd (cntPark s.ent.futs) e2 := by
        subst he2
        refine ⟨⟨?_, ?_, hB0.1.held⟩, hB0.2⟩
        · intro f pid hf
          have := hB0.1.park f pid hf
          simp only [spawn_procs, addObs_procs, List.length_append, List.length_singleton] at this ⊢
          exact ⟨this.1, by omega⟩
        · intro sp hsp
          simp at hsp
      have hnew : e2.ps.procs[s.ent.procs.length]? = some pn := by rw [hprocs2]; simp
      have hsp := runSegment_spec _ now e2 s.ent.procs.length 0 hB2 hf2 (by
        intro p hp hdn; rw [hnew] at hp; simp at hp; subst hp; rw [hpnd] at hdn; simp at hdn)
      generalize runSegment now e2 s.ent.procs.length = r at hsp
      obtain ⟨hw, hc, hlen, hfr, hd0⟩ := hsp
      rw [hprocs2] at hlen hfr
      refine ⟨s.ent.procs.length, hw, hc, hf1', hf2, by rw [hlen]; simp, ?_, hd0⟩
      intro q hq p' hp' hdn
      obtain ⟨p, hp, h1, h2⟩ := strip_frame (hfr q hq) hp'
      have hql := getElem?_some_lt hp
      simp only [List.length_append, List.length_singleton] at hql
      rw [List.getElem?_append_left (by omega)] at hp
      exact ⟨p, hp, by rw [h1]; exact hdn, h2.symm⟩
  · simp only [hd, if_false]
    have hdat : m.data = (m.data - 1) + 1 := by omega
    generalize m.data - 1 = pid at hdat
    have h1 := cntHeap_erase_mem s.heap m pid hm
    have h2 := inv.atMostOne pid
    have hi : ind (m.data == pid + 1) = 1 := by simp [ind, hdat]
    have hz1 : cntHeap (s.heap.erase m) pid = 0 := by omega
    have hz2 : cntPark s.ent.futs pid = 0 := by omega
    have hsp := runSegment_spec _ now { ps := s.ent } pid m.tag hB0 hz2 (by
      intro p hp hdn; exact (inv.doneNone pid p hp hdn).1)
    generalize runSegment now { ps := s.ent } pid m.tag = r at hsp
    obtain ⟨hw, hc, hlen, hfr, hd0⟩ := hsp
    refine ⟨pid, hw, hc, hz1, hz2, by simp only [] at hlen; omega, ?_, hd0⟩
    intro q hq p' hp' hdn
    obtain ⟨p, hp, h1, h2⟩ := strip_frame (hfr q hq) hp'
    exact ⟨p, hp, by rw [h1]; exact hdn, h2.symm⟩

/-- one loop iteration preserves the invariant, whichever pending event is popped -/
theorem step_procInv (s : St PS) (m : Ev) (inv : ProcInv s) (hm : m ∈ s.heap) :
    ProcInv (stepWith procMachine s m) := by
  unfold stepWith
  simp only []
  split
  · exact ProcInv_erase s _ m inv rfl rfl
  · split
    · exact ProcInv_erase s _ m inv rfl rfl
    · split
      · exact ProcInv_erase s _ m inv rfl rfl
      · obtain ⟨pid0, hw, hc, h0, h0', hlen, hfr, hd0⟩ := procEff_inv s m m.time inv hm
        have heq := procHandle_eq s.ent m.time m
        apply ProcInv_assemble s _ m (procEff s.ent m.time m) pid0 s.nextId m.time inv _ _ hw hc h0 h0' hlen hfr hd0
        · show s.heap.erase m ++ mkEvents s.nextId m.time (procMachine.handle s.ent m.time m).specs = _
          show s.heap.erase m ++ mkEvents s.nextId m.time (procHandle s.ent m.time m).specs = _
          rw [heq]
        · show (procHandle s.ent m.time m).ent = _
          rw [heq]

theorem run_procInv (endT : Option Nat) (n : Nat) (s : St PS) (inv : ProcInv s) :
    ProcInv (run procMachine endT n s) := by
  induction n generalizing s with
  | zero => simpa [run]
  | succ n ih =>
    unfold run
    cases hs : step procMachine endT s with
    | none => simpa
    | some s' =>
      simp only []
      apply ih
      unfold step at hs
      split at hs
      · simp at hs
      · rename_i x xs hheap
        split at hs
        · simp at hs; subst hs
          have hmem : minOf x xs ∈ s.heap := by rw [hheap]; exact (pop_is_min x xs).1
          exact step_procInv s _ inv hmem
        · simp at hs

end HappyModel.C01
