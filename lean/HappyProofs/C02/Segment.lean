import HappyProofs.C02.Pending
/-!
# C02 — one generator segment (`ProcessContinuation.invoke`): pending-resumption accounting and frame
-/
namespace HappyModel.C01
set_option linter.unusedVariables false

theorem Bnd_closed (B : Nat → Nat) : Closed (Bnd B) where
  resolve := fun e now f v h hr => Bnd_markResolved B e now f v h hr
  allUpd := fun e c res rem h hr => Bnd_setFut_same B e c _ h rfl rfl
  cbAdd := fun e g cb h hr => Bnd_setFut_same B e g _ h rfl rfl
  bind := by
    intro e f rs rm h
    refine ⟨WF_setFut e f _ h.1 (by intro pid hx; simp at hx), ?_⟩
    intro q
    have h1 := cnt_setFut e f { results := rs, remaining := rm } q
    have a2 : ind ((none : Option Nat) == some q) = 0 := by simp [ind]
    have := h.2 q
    simp only [] at h1
    omega
  push := by
    intro e sp hook tagged hd h
    refine ⟨⟨h.1.park, ?_, h.1.held⟩, ?_⟩
    · intro s hs
      simp only [push_specs, List.mem_append, List.mem_singleton] at hs
      rcases hs with hs | rfl
      · exact h.1.specs s hs
      · simp [hd]
    · intro q
      have := h.2 q
      simp only [cnt, push_specs, push_futs, cntSpec_append, cntSpec_single, hd] at this ⊢
      have a : ind (0 == q + 1) = 0 := by simp [ind]
      omega
  release := by
    intro e i sp h hm
    have hd : sp.data = 0 := h.1.held (i, sp) hm
    refine ⟨⟨h.1.park, ?_, ?_⟩, ?_⟩
    · intro s hs
      simp only [List.mem_append, List.mem_singleton] at hs
      rcases hs with hs | rfl
      · exact h.1.specs s hs
      · simp [hd]
    · intro q hq
      exact h.1.held q (List.mem_filter.mp hq).1
    · intro q
      have := h.2 q
      simp only [cnt, cntSpec_append, cntSpec_single, hd] at this ⊢
      have a : ind (0 == q + 1) = 0 := by simp [ind]
      omega
  crashed := fun e l h => ⟨⟨h.1.park, h.1.specs, h.1.held⟩, h.2⟩
  cancels := fun e l h => ⟨⟨h.1.park, h.1.specs, h.1.held⟩, h.2⟩
  hookLate := fun e pid hook h => ⟨⟨h.1.park, h.1.specs, h.1.held⟩, h.2⟩
  hookEarly := fun e id hook h => ⟨⟨h.1.park, h.1.specs, h.1.held⟩, h.2⟩
  level := fun e l h => ⟨⟨h.1.park, h.1.specs, h.1.held⟩, h.2⟩
  hops := fun e l h => ⟨⟨h.1.park, h.1.specs, h.1.held⟩, h.2⟩
  obs := fun e o ho h => ⟨⟨h.1.park, h.1.specs, h.1.held⟩, h.2⟩

theorem Bnd_addObs (B : Nat → Nat) (e : Eff) (o : Obs) (h : Bnd B e) : Bnd B (addObs e o) :=
  ⟨⟨h.1.park, h.1.specs, h.1.held⟩, h.2⟩

theorem Bnd_setProc (B : Nat → Nat) (e : Eff) (i : Nat) (x : Proc) (h : Bnd B e) : Bnd B (e.setProc i x) := by
  refine ⟨⟨?_, ?_, h.1.held⟩, h.2⟩
  · intro f pid hf
    have := h.1.park f pid hf
    simpa using this
  · intro sp hs
    have := h.1.specs sp hs
    simpa using this

/-! ### `runSegment` in named pieces -/

/-- `on_complete.clear()`: the hooks added in flight to the event of `pid` are taken out of the table -/
def Eff.clearLate (e : Eff) (pid : Nat) : Eff :=
  { e with ps := { e.ps with late := e.ps.late.filter (fun q => q.1 != pid) } }

@[simp] theorem clearLate_specs (e : Eff) (i : Nat) : (e.clearLate i).specs = e.specs := rfl
@[simp] theorem clearLate_cancels (e : Eff) (i : Nat) : (e.clearLate i).cancels = e.cancels := rfl
@[simp] theorem clearLate_futs (e : Eff) (i : Nat) : (e.clearLate i).ps.futs = e.ps.futs := rfl
@[simp] theorem clearLate_procs (e : Eff) (i : Nat) : (e.clearLate i).ps.procs = e.ps.procs := rfl
@[simp] theorem clearLate_held (e : Eff) (i : Nat) : (e.clearLate i).ps.held = e.ps.held := rfl
@[simp] theorem clearLate_obs (e : Eff) (i : Nat) : (e.clearLate i).ps.obs = e.ps.obs := rfl

/-- the handler / process that runs now reads the `hops` its event was delivered with -/
def Eff.setCur (e : Eff) (h : Nat) : Eff := { e with ps := { e.ps with cur := h } }

@[simp] theorem setCur_specs (e : Eff) (h : Nat) : (e.setCur h).specs = e.specs := rfl
@[simp] theorem setCur_cancels (e : Eff) (h : Nat) : (e.setCur h).cancels = e.cancels := rfl
@[simp] theorem setCur_futs (e : Eff) (h : Nat) : (e.setCur h).ps.futs = e.ps.futs := rfl
@[simp] theorem setCur_procs (e : Eff) (h : Nat) : (e.setCur h).ps.procs = e.ps.procs := rfl
@[simp] theorem setCur_held (e : Eff) (h : Nat) : (e.setCur h).ps.held = e.ps.held := rfl
@[simp] theorem setCur_obs (e : Eff) (h : Nat) : (e.setCur h).ps.obs = e.ps.obs := rfl
@[simp] theorem setCur_nid (e : Eff) (h : Nat) : (e.setCur h).ps.nid = e.ps.nid := rfl
@[simp] theorem setCur_hookOf (e : Eff) (h : Nat) : (e.setCur h).ps.hookOf = e.ps.hookOf := rfl
@[simp] theorem setCur_late (e : Eff) (h : Nat) : (e.setCur h).ps.late = e.ps.late := rfl
@[simp] theorem setCur_lateAtt (e : Eff) (h : Nat) : (e.setCur h).ps.lateAtt = e.ps.lateAtt := rfl

theorem Bnd_setCur (B : Nat → Nat) (e : Eff) (h : Nat) (hb : Bnd B e) : Bnd B (e.setCur h) :=
  ⟨⟨hb.1.park, hb.1.specs, hb.1.held⟩, hb.2⟩

theorem Bnd_clearLate (B : Nat → Nat) (e : Eff) (i : Nat) (h : Bnd B e) : Bnd B (e.clearLate i) :=
  ⟨⟨h.1.park, h.1.specs, h.1.held⟩, h.2⟩

def segTerm (now : Nat) (e1 : Eff) (pid : Nat) (p1 : Proc) (rest : List Seg) : Term → Eff
  | .yieldD d => (e1.setProc pid { p1 with segs := rest }).push (contSpec p1 pid (now + d)) 0
  | .yieldF f =>
    let e2 := e1.setProc pid { p1 with segs := rest }
    let e3 := e2.setFut f { futGet e2.ps.futs f with parked := some pid }
    if (futGet e2.ps.futs f).resolved then resumeParked e3 now f else e3
  | .ret =>
    runHooks now (addObs ((e1.setProc pid { p1 with segs := [], done := true, hooks := [] }).clearLate pid) (.finish now pid))
      (p1.hooks ++ lateOf e1.ps pid)

/-- state in which the actions of the segment start: resume logged, `send` consumed -/
def segStart (now : Nat) (e : Eff) (pid tag : Nat) (p : Proc) : Eff :=
  ((if p.started then addObs e (.resume now pid p.send tag) else e).setProc pid
    { p with started := true, send := .none }).setCur p.hops

def segBody (now : Nat) (e : Eff) (pid tag : Nat) (p : Proc) (seg : Seg) (rest : List Seg) : Eff :=
  segTerm now (seg.acts.foldl (runAct now) (segStart now e pid tag p)) pid { p with started := true, send := .none } rest seg.term

theorem runSegment_eq (now : Nat) (e : Eff) (pid tag : Nat) (p : Proc) (seg : Seg) (rest : List Seg)
    (hp : e.ps.procs[pid]? = some p) (hs : p.segs = seg :: rest) :
    runSegment now e pid tag = segBody now e pid tag p seg rest := by
  simp only [runSegment, hp, hs, segBody, segStart]
  cases seg.term <;> rfl

theorem runSegment_noproc (now : Nat) (e : Eff) (pid tag : Nat) (hp : e.ps.procs[pid]? = none) :
    runSegment now e pid tag = e := by
  simp [runSegment, hp]

theorem ind_some (a b : Nat) : ind (some a == some b) = ind (a == b) := by
  by_cases h : a = b <;> simp [ind, h]

theorem ind_succ (a b : Nat) : ind (a + 1 == b + 1) = ind (a == b) := by
  by_cases h : a = b <;> simp [ind, h]

theorem ind_none (b : Nat) : ind ((none : Option Nat) == some b) = 0 := by simp [ind]

/-- the terminator: the running process (which had nothing pending) gets at most one pending
    resumption, none if it finishes; nobody else's count grows -/
theorem segTerm_bnd (B : Nat → Nat) (now : Nat) (e1 : Eff) (pid : Nat) (p1 : Proc) (rest : List Seg)
    (t : Term) (h : Bnd B e1) (hpid : pid < e1.ps.procs.length) :
    WF (segTerm now e1 pid p1 rest t) ∧
    (∀ q, cnt (segTerm now e1 pid p1 rest t) q ≤ B q + ind (pid == q)) ∧
    (t = .ret → ∀ q, cnt (segTerm now e1 pid p1 rest t) q ≤ B q) := by
  cases t with
  | yieldD d =>
    simp only [segTerm]
    have h2 := Bnd_setProc B e1 pid { p1 with segs := rest } h
    generalize he2 : e1.setProc pid { p1 with segs := rest } = e2 at h2
    have hl : e2.ps.procs.length = e1.ps.procs.length := by
      subst he2; simp
    refine ⟨⟨h2.1.park, ?_, h2.1.held⟩, ?_, fun hh => by simp at hh⟩
    · intro s hs
      simp only [push_specs, push_procs, List.mem_append, List.mem_singleton] at hs ⊢
      rcases hs with hs | rfl
      · exact h2.1.specs s hs
      · simp [contSpec]; omega
    · intro q
      have := h2.2 q
      simp only [cnt, push_specs, push_futs, cntSpec_append, cntSpec_single, contSpec, ind_succ] at this ⊢
      omega
  | yieldF f =>
    simp only [segTerm]
    have h2 := Bnd_setProc B e1 pid { p1 with segs := rest } h
    generalize he2 : e1.setProc pid { p1 with segs := rest } = e2 at h2
    have hl : e2.ps.procs.length = e1.ps.procs.length := by
      subst he2; simp
    generalize hfu : futGet e2.ps.futs f = fu
    have hc3 : ∀ q, cnt (e2.setFut f { fu with parked := some pid }) q + ind (fu.parked == some q)
        = cnt e2 q + ind (pid == q) := by
      intro q
      have := cnt_setFut e2 f { fu with parked := some pid } q
      rw [hfu] at this
      simpa only [ind_some] using this
    by_cases hres' : fu.resolved = true
    case neg =>
      have hres : fu.resolved = false := by simpa using hres'
      rw [if_neg hres']
      refine ⟨WF_setFut e2 f _ h2.1 ?_, ?_, fun hh => by simp at hh⟩
      · intro pid' hx
        simp only [Option.some.injEq] at hx
        subst hx
        exact ⟨hres, by omega⟩
      · intro q
        have := hc3 q
        have := h2.2 q
        omega
    case pos =>
      have hres := hres'
      rw [if_pos hres']
      have hnone : fu.parked = none := by
        cases hpk : fu.parked with
        | none => rfl
        | some x =>
          have := (h2.1.park f x (by rw [hfu]; exact hpk)).1
          rw [hfu, hres] at this; simp at this
      generalize he3 : e2.setFut f { fu with parked := some pid } = e3 at hc3
      have hget : futGet e3.ps.futs f = { fu with parked := some pid } := by
        subst he3; simp [futGet_futSet]
      have hother : ∀ g, g ≠ f → futGet e3.ps.futs g = futGet e2.ps.futs g := by
        intro g hg; subst he3; simp [futGet_futSet, hg]
      have hprocs : e3.ps.procs = e2.ps.procs := by subst he3; rfl
      have hspecs : e3.specs = e2.specs := by subst he3; rfl
      have hheld : e3.ps.held = e2.ps.held := by subst he3; rfl
      have hpl : pid < e3.ps.procs.length := by rw [hprocs]; omega
      have hp : e3.ps.procs[pid]? = some e3.ps.procs[pid] := by simp [hpl]
      rw [resumeParked_some e3 now f pid _ (by rw [hget]) hp]
      unfold resumed
      refine ⟨⟨?_, ?_, ?_⟩, ?_, fun hh => by simp at hh⟩
      · intro g pid' hg
        simp only [setProc_futs, setFut_futs, push_futs, setProc_procs, setFut_procs, push_procs,
          List.length_set] at hg ⊢
        rw [futGet_futSet] at hg ⊢
        by_cases hgf : g = f
        · simp [hgf] at hg
        · simp only [hgf, if_false] at hg ⊢
          rw [hother g hgf] at hg ⊢; rw [hprocs]; exact h2.1.park g pid' hg
      · intro sp hsp
        simp only [setProc_specs, setFut_specs, push_specs, setProc_procs, setFut_procs, push_procs,
          List.length_set, List.mem_append, List.mem_singleton] at hsp ⊢
        rcases hsp with hsp | rfl
        · rw [hspecs] at hsp; rw [hprocs]; exact h2.1.specs sp hsp
        · simp [contSpec]; omega
      · simp only [setProc_held, setFut_held, push_held]; rw [hheld]; exact h2.1.held
      · intro q
        have h1 := cnt_setFut (e3.push (contSpec e3.ps.procs[pid] pid now) 0 false) f
          { futGet e3.ps.futs f with parked := none } q
        have h2' : cnt (e3.push (contSpec e3.ps.procs[pid] pid now) 0 false) q
            = cnt e3 q + ind (pid == q) := by
          simp only [cnt, push_specs, push_futs, cntSpec_append, cntSpec_single, contSpec, ind_succ]
          omega
        have h3 := h2.2 q
        have h4 := hc3 q
        have h5 : ∀ (x : Eff) i p, cnt (x.setProc i p) q = cnt x q := fun _ _ _ => rfl
        rw [h5]
        have hpk' : (futGet e3.ps.futs f).parked = some pid := by rw [hget]
        simp only [push_futs] at h1 ⊢
        rw [hpk', ind_some, ind_none] at h1
        rw [hnone, ind_none] at h4
        omega
  | ret =>
    simp only [segTerm]
    have h2 := Bnd_addObs B _ (.finish now pid)
      (Bnd_clearLate B _ pid (Bnd_setProc B e1 pid { p1 with segs := [], done := true, hooks := [] } h))
    have h3 := runHooks_closed (Bnd_closed B) now (p1.hooks ++ lateOf e1.ps pid) _ h2
    refine ⟨h3.1, ?_, fun _ => h3.2⟩
    intro q
    have := h3.2 q
    omega

/-! ### frame: the code of a segment changes nothing of any process except `send` -/

theorem markResolved_cases (e : Eff) (now f : Nat) (v : Val) :
    markResolved e now f v = e.setFut f { futGet e.ps.futs f with resolved := true, value := v, cbs := [] } ∨
    ∃ pid p, (futGet e.ps.futs f).parked = some pid ∧ e.ps.procs[pid]? = some p ∧
      markResolved e now f v =
        resumed (e.setFut f { futGet e.ps.futs f with resolved := true, value := v, cbs := [] }) now f pid p := by
  unfold markResolved
  generalize he1 : e.setFut f { futGet e.ps.futs f with resolved := true, value := v, cbs := [] } = e1
  have hget : (futGet e1.ps.futs f).parked = (futGet e.ps.futs f).parked := by
    subst he1; simp [futGet_futSet]
  have hprocs : e1.ps.procs = e.ps.procs := by subst he1; rfl
  cases hpk : (futGet e.ps.futs f).parked with
  | none => left; exact resumeParked_none e1 now f (by rw [hget]; exact hpk)
  | some pid =>
    cases hp : e.ps.procs[pid]? with
    | none => left; exact resumeParked_noproc e1 now f pid (by rw [hget]; exact hpk) (by rw [hprocs]; exact hp)
    | some p =>
      right
      exact ⟨pid, p, rfl, hp, resumeParked_some e1 now f pid p (by rw [hget]; exact hpk) (by rw [hprocs]; exact hp)⟩

def strip (p : Proc) : Proc := { p with send := .none }

theorem map_strip_set (l : List Proc) (i : Nat) (p : Proc) (v : Val) (h : l[i]? = some p) :
    (l.set i { p with send := v }).map strip = l.map strip := by
  apply List.ext_getElem?
  intro j
  simp only [List.getElem?_map, List.getElem?_set]
  by_cases hij : i = j
  · subst hij
    have hl : i < l.length := by
      rcases Nat.lt_or_ge i l.length with h' | h'
      · exact h'
      · rw [List.getElem?_eq_none h'] at h; simp at h
    have hpe : p = l[i] := by rw [List.getElem?_eq_getElem hl] at h; exact (Option.some.inj h).symm
    subst hpe
    simp [hl, strip]
  · simp [hij]

/-- every process, `send` aside, is as in `L` -/
def ProcsAre (L : List Proc) (e : Eff) : Prop := e.ps.procs.map strip = L

theorem ProcsAre_closed (L : List Proc) : Closed (ProcsAre L) where
  resolve := by
    intro e now f v h hr
    rcases markResolved_cases e now f v with h1 | ⟨pid, p, hpk, hp, h1⟩
    · rw [h1]; exact h
    · rw [h1]
      unfold ProcsAre resumed at *
      simp only [setProc_procs, setFut_procs, push_procs]
      rw [map_strip_set _ _ _ _ hp]; exact h
  allUpd := fun e c res rem h hr => h
  cbAdd := fun e g cb h hr => h
  bind := fun e f rs rm h => h
  push := fun e sp hook tagged hd h => h
  release := fun e i sp h hm => h
  crashed := fun e l h => h
  cancels := fun e l h => h
  hookLate := fun e pid hook h => h
  hookEarly := fun e id hook h => h
  level := fun e l h => h
  hops := fun e l h => h
  obs := fun e o ho h => h

theorem ProcsAre_length {L : List Proc} {e : Eff} (h : ProcsAre L e) : e.ps.procs.length = L.length := by
  unfold ProcsAre at h; rw [← h]; simp

/-- the whole segment: accounting -/
theorem segBody_bnd (B : Nat → Nat) (now : Nat) (e : Eff) (pid tag : Nat) (p : Proc) (seg : Seg)
    (rest : List Seg) (h : Bnd B e) (hp : e.ps.procs[pid]? = some p) :
    WF (segBody now e pid tag p seg rest) ∧
    (∀ q, cnt (segBody now e pid tag p seg rest) q ≤ B q + ind (pid == q)) ∧
    (seg.term = .ret → ∀ q, cnt (segBody now e pid tag p seg rest) q ≤ B q) := by
  have hl : pid < e.ps.procs.length := by
    rcases Nat.lt_or_ge pid e.ps.procs.length with h' | h'
    · exact h'
    · rw [List.getElem?_eq_none h'] at hp; simp at hp
  have h0 : Bnd B (segStart now e pid tag p) := by
    unfold segStart
    apply Bnd_setCur
    apply Bnd_setProc
    split
    · exact Bnd_addObs B _ _ h
    · exact h
  have hl0 : (segStart now e pid tag p).ps.procs.length = e.ps.procs.length := by
    unfold segStart; split <;> simp
  have h1 := acts_closed (Bnd_closed B) now seg.acts _ h0
  have hf1 := acts_closed (ProcsAre_closed _) now seg.acts (segStart now e pid tag p) rfl
  have hl1 := ProcsAre_length hf1
  simp only [List.length_map] at hl1
  exact segTerm_bnd B now _ pid _ rest seg.term h1 (by omega)

end HappyModel.C01
