import HappyProofs.C02.JudgeFuture
/-!
# C02 — the per-resumption clauses of the settle fold on the model's trace, plain futures

`future/resumed-before-resolved`, `future/value-raised-instead-of-sent`, `future/resumed-with-wrong-value`
and `future/resumed-at-wrong-instant` are the only errors the fold of `Spec.stepLine` raises.  On the
numbered `S` / `K` / `R` / `r` / `w` lines the model writes (`futTrace`, ghosted alongside `run`: the line
that opens a delivery sets the judge's clock), for programs with plain futures (no combinator, no
rebinding; resolved values do not print as `raised:…`), the fold ends with `err = none`: the process that
is resumed by a future waits (first outstanding `w` line) on an object with an `r` line, it is sent the
value of that line, and the clock of the later of the two lines is the instant of the resumption.
-/
namespace HappyModel.C01.FV
open HappyModel.C01
open HappyModel.C02.Spec (Line SSt FObj FExpr stepLine settle)
set_option linter.unusedVariables false
set_option linter.unusedSimpArgs false

/-- the value does not print as an exception -/
def OKV (v : Val) : Prop := v.show.startsWith "raised:" = false
instance (v : Val) : Decidable (OKV v) := by unfold OKV; infer_instance

/-- the clock the judge recorded at position `i` -/
def cAt (j : SSt) (i : Nat) : Option Nat := j.clockAt.reverse[i]?

/-- a line is read: the clock is recorded -/
def tick (j : SSt) : SSt := { j with clockAt := j.clock :: j.clockAt }

theorem cAt_tick_old (j : SSt) (i c : Nat) (h : cAt j i = some c) : cAt (tick j) i = some c := by
  unfold cAt tick at *
  simp only [List.reverse_cons]
  obtain ⟨hlt, _⟩ := List.getElem?_eq_some_iff.mp h
  rw [List.getElem?_append_left hlt]; exact h

theorem cAt_tick_new (j : SSt) : cAt (tick j) j.clockAt.length = some j.clock := by
  unfold cAt tick
  simp only [List.reverse_cons]
  have : j.clockAt.length = j.clockAt.reverse.length := by simp
  rw [this, List.getElem?_concat_length]

theorem cAt_lt (j : SSt) (i c : Nat) (h : cAt j i = some c) : i < j.clockAt.length := by
  unfold cAt at h
  obtain ⟨hlt, _⟩ := List.getElem?_eq_some_iff.mp h
  simpa using hlt

/-- structural facts of the judge's table -/
structure JS (j : SSt) : Prop where
  plain : ∀ o ∈ j.objs, o.expr = FExpr.plain
  rng : ∀ g o, j.obj g = some o → o < j.objs.length
  inj : ∀ f g o, j.obj f = some o → j.obj g = some o → f = g

theorem resOf_ge (j : SSt) (o : Nat) (h : j.objs.length ≤ o) : resOf j o = none := by
  unfold resOf
  rw [List.getElem?_eq_none_iff.mpr h]; rfl

theorem ensure_facts (s : SSt) (f pos : Nat) (hk : JS s) :
    JS (s.ensure f pos).1 ∧ (s.ensure f pos).1.obj f = some (s.ensure f pos).2 ∧
    (s.ensure f pos).1.waits = s.waits ∧ (s.ensure f pos).1.err = s.err ∧
    (s.ensure f pos).1.clock = s.clock ∧ (s.ensure f pos).1.clockAt = s.clockAt ∧
    (∀ g o, s.obj g = some o → (s.ensure f pos).1.obj g = some o) ∧
    (∀ g o, g ≠ f → (s.ensure f pos).1.obj g = some o → s.obj g = some o) ∧
    (∀ o, resOf (s.ensure f pos).1 o = resOf s o) ∧
    (s.obj f = none → resOf s (s.ensure f pos).2 = none) := by
  rcases ensure_cases s f pos with ⟨o, ho, he⟩ | ⟨hn, he⟩
  · rw [he]
    exact ⟨hk, ho, rfl, rfl, rfl, rfl, fun _ _ h => h, fun _ _ _ h => h, fun _ => rfl,
      fun hn => by rw [hn] at ho; cases ho⟩
  · rw [he]
    have hlen : (s.bind f .plain pos).objs.length = s.objs.length + 1 := by simp [SSt.bind]
    have hx := JExt_bind s f pos ⟨hk.plain, hk.rng⟩ hn
    refine ⟨⟨hx.ok.plain, hx.ok.rng, ?_⟩, obj_bind_same _ _ _ _, rfl, rfl, rfl, rfl, hx.obj, ?_, ?_, ?_⟩
    · intro a b o ha hb
      by_cases haf : a = f
      · by_cases hbf : b = f
        · rw [haf, hbf]
        · subst haf
          rw [obj_bind_same] at ha
          rw [obj_bind_ne _ _ _ _ _ hbf] at hb
          have := hk.rng b o hb
          simp only [Option.some.injEq] at ha
          omega
      · by_cases hbf : b = f
        · subst hbf
          rw [obj_bind_same] at hb
          rw [obj_bind_ne _ _ _ _ _ haf] at ha
          have := hk.rng a o ha
          simp only [Option.some.injEq] at hb
          omega
        · rw [obj_bind_ne _ _ _ _ _ haf] at ha
          rw [obj_bind_ne _ _ _ _ _ hbf] at hb
          exact hk.inj a b o ha hb
    · intro g o hg h
      rw [obj_bind_ne _ _ _ _ _ hg] at h; exact h
    · intro o
      unfold resOf
      show ((s.objs ++ [(⟨FExpr.plain, pos, none⟩ : FObj)])[o]?).bind (·.res) = _
      by_cases hlt : o < s.objs.length
      · rw [List.getElem?_append_left hlt]
      · by_cases heq : o = s.objs.length
        · subst heq
          rw [List.getElem?_concat_length, List.getElem?_eq_none_iff.mpr (Nat.le_refl _)]; rfl
        · have h1 : (s.objs ++ [(⟨FExpr.plain, pos, none⟩ : FObj)]).length ≤ o := by simp; omega
          rw [List.getElem?_eq_none_iff.mpr h1, List.getElem?_eq_none_iff.mpr (by omega)]
    · intro _
      exact resOf_ge s _ (Nat.le_refl _)

theorem set_facts (s : SSt) (o : Nat) (ob : FObj) (r : Nat × Val) (pos fuel : Nat) (hk : JS s)
    (ho : s.objs[o]? = some ob) :
    JS { s with objs := settle pos fuel (s.objs.set o { ob with res := some r }) } ∧
    resOf { s with objs := settle pos fuel (s.objs.set o { ob with res := some r }) } o = some r ∧
    ∀ o', o' ≠ o → resOf { s with objs := settle pos fuel (s.objs.set o { ob with res := some r }) } o' = resOf s o' := by
  have hpl : ∀ x ∈ s.objs.set o { ob with res := some r }, x.expr = FExpr.plain := by
    intro x hx
    rcases List.mem_or_eq_of_mem_set hx with hx | rfl
    · exact hk.plain x hx
    · exact hk.plain ob (List.mem_of_getElem? ho)
  have hobjs : settle pos fuel (s.objs.set o { ob with res := some r }) = s.objs.set o { ob with res := some r } :=
    settle_plain _ _ _ hpl
  obtain ⟨hlt, _⟩ := List.getElem?_eq_some_iff.mp ho
  rw [hobjs]
  refine ⟨⟨hpl, ?_, fun a b o' ha hb => hk.inj a b o' ha hb⟩, ?_, ?_⟩
  · intro g o' h
    show o' < (s.objs.set o { ob with res := some r }).length
    rw [List.length_set]
    exact hk.rng g o' h
  · unfold resOf
    show (((s.objs.set o { ob with res := some r })[o]?).bind (·.res)) = some r
    rw [List.getElem?_set_self hlt]; rfl
  · intro o' hne
    unfold resOf
    show (((s.objs.set o { ob with res := some r })[o']?).bind (·.res)) = _
    rw [List.getElem?_set_ne (Ne.symm hne)]

/-- what an `r` or `w` line leaves alone -/
structure Keep (j j' : SSt) (f : Nat) : Prop where
  js : JS j'
  err : j'.err = j.err
  clock : j'.clock = j.clock
  clockAt : j'.clockAt = j.clock :: j.clockAt
  obj : ∀ g o, j.obj g = some o → j'.obj g = some o
  objr : ∀ g o, g ≠ f → j'.obj g = some o → j.obj g = some o

/-- an `r` line -/
theorem step_resolve2 (j : SSt) (pos f : Nat) (v : Val) (hk : JS j) :
    Keep j (stepLine j pos (.resolve f v)) f ∧ (stepLine j pos (.resolve f v)).waits = j.waits ∧
    ∃ o, (stepLine j pos (.resolve f v)).obj f = some o ∧ (j.obj f = none → resOf j o = none) ∧
      ((resOf j o).isSome = true → ∀ o', resOf (stepLine j pos (.resolve f v)) o' = resOf j o') ∧
      (resOf j o = none → resOf (stepLine j pos (.resolve f v)) o = some (pos, v) ∧
        ∀ o', o' ≠ o → resOf (stepLine j pos (.resolve f v)) o' = resOf j o') := by
  have h := ensure_facts (tick j) f pos ⟨hk.plain, hk.rng, hk.inj⟩
  simp only [stepLine]
  unfold tick at h
  generalize hE : SSt.ensure { j with clockAt := j.clock :: j.clockAt } f pos = E at h
  obtain ⟨s1, o⟩ := E
  simp only [] at h ⊢
  obtain ⟨hjs, hobj, hw, herr, hclock, hcat, hmono, hrev, hreq, hnone⟩ := h
  have hreq' : ∀ o', resOf s1 o' = resOf j o' := hreq
  have hlt := hjs.rng f o hobj
  cases hob : s1.objs[o]? with
  | none =>
    have := List.getElem?_eq_none_iff.mp hob
    omega
  | some ob =>
    simp only []
    have hres1 : resOf s1 o = ob.res := by unfold resOf; rw [hob]; rfl
    by_cases hres : ob.res.isSome = true
    · simp only [hres, if_true]
      refine ⟨⟨hjs, herr, hclock, hcat, hmono, hrev⟩, hw, o, hobj, hnone, fun _ => hreq', ?_⟩
      intro hn
      rw [← hreq' o, hres1] at hn
      rw [hn] at hres; simp at hres
    · simp only [hres, Bool.false_eq_true, if_false]
      obtain ⟨h1, h2, h3⟩ := set_facts s1 o ob (pos, v) pos ((s1.objs.set o { ob with res := some (pos, v) }).length + 1) hjs hob
      refine ⟨⟨h1, herr, hclock, hcat, hmono, hrev⟩, hw, o, hobj, hnone, ?_, ?_⟩
      · intro hs
        rw [← hreq' o, hres1] at hs
        exact absurd hs hres
      · intro _
        exact ⟨h2, fun o' hne => (h3 o' hne).trans (hreq' o')⟩

/-- a `w` line -/
theorem step_wait2 (j : SSt) (pos pid f : Nat) (dm : Bool) (hk : JS j) :
    Keep j (stepLine j pos (.wait pid f dm)) f ∧
    ∃ o, (stepLine j pos (.wait pid f dm)).waits = (pid, o, pos) :: j.waits ∧
      (stepLine j pos (.wait pid f dm)).obj f = some o ∧ (j.obj f = none → resOf j o = none) ∧
      ∀ o', resOf (stepLine j pos (.wait pid f dm)) o' = resOf j o' := by
  have h := ensure_facts (tick j) f pos ⟨hk.plain, hk.rng, hk.inj⟩
  simp only [stepLine]
  unfold tick at h
  generalize hE : SSt.ensure { j with clockAt := j.clock :: j.clockAt } f pos = E at h
  obtain ⟨s1, o⟩ := E
  simp only [] at h ⊢
  obtain ⟨hjs, hobj, hw, herr, hclock, hcat, hmono, hrev, hreq, hnone⟩ := h
  refine ⟨⟨⟨hjs.plain, hjs.rng, hjs.inj⟩, herr, hclock, hcat, hmono, hrev⟩, o, ?_, hobj, hnone, hreq⟩
  show (pid, o, pos) :: s1.waits = (pid, o, pos) :: j.waits
  rw [hw]

/-- a line that only sets the clock (`S`, `K`) -/
theorem step_start (j : SSt) (pos clk tag : Nat) :
    stepLine j pos (.start clk tag) = { tick j with clock := clk } := rfl
theorem step_skipped (j : SSt) (pos clk tag : Nat) :
    stepLine j pos (.skipped clk tag) = { tick j with clock := clk } := rfl

/-- an `R` line that passes the checks -/
theorem step_resume2 (j : SSt) (pos clk pid tag : Nat) (val : String) (herr : j.err = none)
    (hres : tag = 0 → ∀ w, j.waits.find? (fun w => w.1 == pid) = some w →
      ∃ rp v, resOf j w.2.1 = some (rp, v) ∧ cAt j (max rp w.2.2) = some clk ∧ v.show = val ∧
        val.startsWith "raised:" = false) :
    (stepLine j pos (.resume clk pid val tag)).objs = j.objs ∧
    (stepLine j pos (.resume clk pid val tag)).slot = j.slot ∧
    (stepLine j pos (.resume clk pid val tag)).err = none ∧
    (stepLine j pos (.resume clk pid val tag)).clock = clk ∧
    (stepLine j pos (.resume clk pid val tag)).clockAt = j.clock :: j.clockAt ∧
    (∀ w ∈ (stepLine j pos (.resume clk pid val tag)).waits, w ∈ j.waits) ∧
    (∀ q, (tag = 0 → q ≠ pid) →
      (stepLine j pos (.resume clk pid val tag)).waits.find? (fun w => w.1 == q) = j.waits.find? (fun w => w.1 == q)) ∧
    (tag = 0 → (stepLine j pos (.resume clk pid val tag)).waits.find? (fun w => w.1 == pid) = none) := by
  simp only [stepLine]
  by_cases htag : tag = 0
  · have ht : (tag != 0) = false := by simp [htag]
    simp only [ht, Bool.false_eq_true, if_false]
    cases hf : j.waits.find? (fun w => w.1 == pid) with
    | none =>
      simp only []
      exact ⟨trivial, trivial, herr, trivial, trivial, fun w hw => hw, fun q _ => trivial, fun _ => hf⟩
    | some w =>
      simp only []
      obtain ⟨rp, v, hr, hc, hv, hraised⟩ := hres htag w hf
      unfold resOf at hr
      rw [hr]
      simp only []
      have hq : ∀ q, (tag = 0 → q ≠ pid) →
          (j.waits.filter (fun x => x.1 != pid)).find? (fun w => w.1 == q) = j.waits.find? (fun w => w.1 == q) :=
        fun q hq => find?_filter_ne _ _ _ (hq htag)
      have hs : tag = 0 → (j.waits.filter (fun x => x.1 != pid)).find? (fun w => w.1 == pid) = none :=
        fun _ => find?_filter_self _ _
      have hsub : ∀ w ∈ j.waits.filter (fun x => x.1 != pid), w ∈ j.waits := fun w hw => (List.mem_filter.mp hw).1
      have hdue : (j.clock :: j.clockAt).reverse.getD (max rp w.2.2) clk = clk := by
        have := cAt_tick_old j _ _ hc
        unfold cAt tick at this
        rw [List.getD_eq_getElem?_getD, this]; rfl
      simp only [hraised, Bool.false_eq_true, if_false, hv, bne_self_eq_false, hdue]
      exact ⟨trivial, trivial, herr, trivial, trivial, hsub, hq, hs⟩
  · have ht : (tag != 0) = true := by simp [htag]
    simp only [ht, if_true]
    exact ⟨trivial, trivial, herr, trivial, trivial, fun w hw => hw, fun q _ => trivial, fun h => absurd h htag⟩


/-! ## the model's side -/

/-- the link between the effect of the code run so far, the judge's state after the `k` lines written so
    far and the untagged continuations `X pid time` pending elsewhere (in the heap) -/
structure FB (e : Eff) (j : SSt) (k : Nat) (X : Nat → Nat → Prop) : Prop where
  js : JS j
  len : j.clockAt.length = k
  wpos : ∀ w ∈ j.waits, w.2.2 < k
  rpos : ∀ o r, resOf j o = some r → r.1 < k
  res : ∀ f, (futGet e.ps.futs f).resolved = true →
    ∃ o rp, j.obj f = some o ∧ resOf j o = some (rp, (futGet e.ps.futs f).value)
  unres : ∀ f o, (futGet e.ps.futs f).resolved = false → j.obj f = some o → resOf j o = none
  okv : ∀ f, (futGet e.ps.futs f).resolved = true → OKV (futGet e.ps.futs f).value
  nocb : ∀ f, (futGet e.ps.futs f).cbs = []
  park : ∀ f pid, (futGet e.ps.futs f).parked = some pid →
    ∀ w, j.waits.find? (fun w => w.1 == pid) = some w → j.obj f = some w.2.1
  park1 : ∀ f g pid, (futGet e.ps.futs f).parked = some pid → (futGet e.ps.futs g).parked = some pid → f = g
  excl : ∀ f pid, (futGet e.ps.futs f).parked = some pid →
    (∀ t, ¬ X pid t) ∧ ∀ sp ∈ e.specs, sp.data = pid + 1 → sp.tag ≠ 0
  pend : ∀ pid t, (X pid t ∨ ∃ sp ∈ e.specs, sp.data = pid + 1 ∧ sp.tag = 0 ∧ sp.time = t) →
    ∀ w, j.waits.find? (fun w => w.1 == pid) = some w →
      ∃ rp v p, resOf j w.2.1 = some (rp, v) ∧ cAt j (max rp w.2.2) = some t ∧
        e.ps.procs[pid]? = some p ∧ p.send = v ∧ OKV v
  held : ∀ x ∈ e.ps.held, x.2.data = 0
  err : j.err = none

/-- the running process `me` is parked nowhere and has no untagged continuation; the judge's clock is the
    instant of the delivery -/
structure NP (me now : Nat) (X : Nat → Nat → Prop) (e : Eff) (j : SSt) : Prop where
  np : ∀ g, (futGet e.ps.futs g).parked ≠ some me
  ns : ∀ sp ∈ e.specs, sp.data = me + 1 → sp.tag ≠ 0
  nx : ∀ t, ¬ X me t
  clock : j.clock = now

def FN (j : SSt) (k : Nat) (X : Nat → Nat → Prop) (me now : Nat) (e : Eff) : Prop := FB e j k X ∧ NP me now X e j

theorem FN_frame {j : SSt} {k : Nat} {X : Nat → Nat → Prop} {me now : Nat} {e e' : Eff} (h : FN j k X me now e)
    (hf : e'.ps.futs = e.ps.futs)
    (hs : ∀ sp ∈ e'.specs, sp ∈ e.specs ∨ sp.data = 0 ∨ sp.tag ≠ 0)
    (hh : ∀ x ∈ e'.ps.held, x ∈ e.ps.held)
    (hp : ∀ q, q ≠ me → e'.ps.procs[q]? = e.ps.procs[q]?) : FN j k X me now e' := by
  obtain ⟨hb, hn⟩ := h
  refine ⟨⟨hb.js, hb.len, hb.wpos, hb.rpos, ?_, ?_, ?_, ?_, ?_, ?_, ?_, ?_, fun x hx => hb.held x (hh x hx), hb.err⟩,
    ⟨?_, ?_, hn.nx, hn.clock⟩⟩
  · rw [hf]; exact hb.res
  · rw [hf]; exact hb.unres
  · rw [hf]; exact hb.okv
  · rw [hf]; exact hb.nocb
  · rw [hf]; exact hb.park
  · rw [hf]; exact hb.park1
  · intro f pid hpk
    rw [hf] at hpk
    refine ⟨(hb.excl f pid hpk).1, ?_⟩
    intro sp hsp hd
    rcases hs sp hsp with h1 | h1 | h1
    · exact (hb.excl f pid hpk).2 sp h1 hd
    · omega
    · exact h1
  · intro pid t hpt w hw
    have hold : X pid t ∨ ∃ sp ∈ e.specs, sp.data = pid + 1 ∧ sp.tag = 0 ∧ sp.time = t := by
      rcases hpt with hpt | ⟨sp, hsp, hd, ht, htt⟩
      · exact Or.inl hpt
      · rcases hs sp hsp with h1 | h1 | h1
        · exact Or.inr ⟨sp, h1, hd, ht, htt⟩
        · omega
        · exact absurd ht h1
    have hne : pid ≠ me := by
      intro heq; subst heq
      rcases hold with h1 | ⟨sp, hsp, hd, ht, _⟩
      · exact hn.nx t h1
      · exact hn.ns sp hsp hd ht
    obtain ⟨rp, v, p, h1, h2, h3, h4, h5⟩ := hb.pend pid t hold w hw
    exact ⟨rp, v, p, h1, h2, by rw [hp pid hne]; exact h3, h4, h5⟩
  · rw [hf]; exact hn.np
  · intro sp hsp hd
    rcases hs sp hsp with h1 | h1 | h1
    · exact hn.ns sp h1 hd
    · omega
    · exact h1

theorem FN_push {j : SSt} {k : Nat} {X : Nat → Nat → Prop} {me now : Nat} {e : Eff} (h : FN j k X me now e)
    (sp : Spec) (hook : Nat) (tagged : Bool) (hd : sp.data = 0 ∨ tagged = true) :
    FN j k X me now (e.push sp hook tagged) := by
  refine FN_frame h rfl ?_ (fun x hx => hx) (fun q _ => rfl)
  intro s hs
  rw [push_specs] at hs
  rcases List.mem_append.mp hs with hs | hs
  · exact Or.inl hs
  · simp only [List.mem_singleton] at hs
    subst hs
    rcases hd with hd | hd
    · exact Or.inr (Or.inl hd)
    · subst hd; exact Or.inr (Or.inr (by simp))

theorem FN_same {j : SSt} {k : Nat} {X : Nat → Nat → Prop} {me now : Nat} {e e' : Eff} (h : FN j k X me now e)
    (hf : e'.ps.futs = e.ps.futs) (hs : e'.specs = e.specs) (hh : e'.ps.held = e.ps.held)
    (hp : e'.ps.procs = e.ps.procs) : FN j k X me now e' :=
  FN_frame h hf (fun sp hsp => Or.inl (hs ▸ hsp)) (fun x hx => hh ▸ hx) (fun q _ => by rw [hp])

/-- `_resume` of the process parked on a resolved future whose `r` / `w` lines are both written -/
theorem FB_resumed {e1 : Eff} {j : SSt} {k : Nat} {X : Nat → Nat → Prop} {now f pid : Nat} {p : Proc}
    (h : FB e1 j k X) (hpk : (futGet e1.ps.futs f).parked = some pid) (hp : e1.ps.procs[pid]? = some p)
    (hr : (futGet e1.ps.futs f).resolved = true)
    (hdue : ∀ w, j.waits.find? (fun w => w.1 == pid) = some w → ∀ rp val, resOf j w.2.1 = some (rp, val) →
      cAt j (max rp w.2.2) = some now) :
    FB (resumed e1 now f pid p) j k X := by
  have hget : ∀ g, futGet (resumed e1 now f pid p).ps.futs g =
      if g = f then { futGet e1.ps.futs f with parked := none } else futGet e1.ps.futs g := by
    intro g; rw [resumed_futs, futGet_futSet]
  have hspecs : (resumed e1 now f pid p).specs = e1.specs ++ [contSpec p pid now] := rfl
  have hprocs : (resumed e1 now f pid p).ps.procs = e1.ps.procs.set pid { p with send := (futGet e1.ps.futs f).value } := rfl
  have hother : ∀ g q, g ≠ f → (futGet e1.ps.futs g).parked = some q → q ≠ pid := by
    intro g q hg hq heq; subst heq; exact hg (h.park1 g f q hq hpk)
  refine ⟨h.js, h.len, h.wpos, h.rpos, ?_, ?_, ?_, ?_, ?_, ?_, ?_, ?_, h.held, h.err⟩
  · intro g hg
    rw [hget] at hg ⊢
    by_cases hgf : g = f
    · subst hgf; simp only [if_true] at hg ⊢; exact h.res g hg
    · simp only [hgf, if_false] at hg ⊢; exact h.res g hg
  · intro g o hg
    rw [hget] at hg
    by_cases hgf : g = f
    · subst hgf; simp only [if_true] at hg; exact h.unres g o hg
    · simp only [hgf, if_false] at hg; exact h.unres g o hg
  · intro g hg
    rw [hget] at hg ⊢
    by_cases hgf : g = f
    · subst hgf; simp only [if_true] at hg ⊢; exact h.okv g hg
    · simp only [hgf, if_false] at hg ⊢; exact h.okv g hg
  · intro g
    rw [hget]
    by_cases hgf : g = f
    · subst hgf; simp only [if_true]; exact h.nocb g
    · simp only [hgf, if_false]; exact h.nocb g
  · intro g q hg w hw
    rw [hget] at hg
    by_cases hgf : g = f
    · simp only [hgf, if_true] at hg; cases hg
    · simp only [hgf, if_false] at hg; exact h.park g q hg w hw
  · intro g g' q hg hg'
    rw [hget] at hg hg'
    by_cases hgf : g = f
    · simp only [hgf, if_true] at hg; cases hg
    · by_cases hgf' : g' = f
      · simp only [hgf', if_true] at hg'; cases hg'
      · simp only [hgf, hgf', if_false] at hg hg'; exact h.park1 g g' q hg hg'
  · intro g q hg
    rw [hget] at hg
    by_cases hgf : g = f
    · simp only [hgf, if_true] at hg; cases hg
    · simp only [hgf, if_false] at hg
      refine ⟨(h.excl g q hg).1, ?_⟩
      intro sp hsp hd
      rw [hspecs] at hsp
      rcases List.mem_append.mp hsp with hsp | hsp
      · exact (h.excl g q hg).2 sp hsp hd
      · simp only [List.mem_singleton] at hsp
        subst hsp
        have := hother g q hgf hg
        simp [contSpec] at hd
        omega
  · intro q t hqt w hw
    have hcases : (X q t ∨ ∃ sp ∈ e1.specs, sp.data = q + 1 ∧ sp.tag = 0 ∧ sp.time = t) ∨ (q = pid ∧ t = now) := by
      rcases hqt with hqt | ⟨sp, hsp, hd, ht, htt⟩
      · exact Or.inl (Or.inl hqt)
      · rw [hspecs] at hsp
        rcases List.mem_append.mp hsp with hsp | hsp
        · exact Or.inl (Or.inr ⟨sp, hsp, hd, ht, htt⟩)
        · simp only [List.mem_singleton] at hsp
          subst hsp
          right
          simp [contSpec] at hd htt
          exact ⟨by omega, htt.symm⟩
    rcases hcases with hold | ⟨hq, ht⟩
    · have hne : q ≠ pid := by
        intro heq; subst heq
        rcases hold with h1 | ⟨sp, hsp, hd, ht, _⟩
        · exact (h.excl f q hpk).1 t h1
        · exact (h.excl f q hpk).2 sp hsp hd ht
      obtain ⟨rp, v, p0, h1, h2, h3, h4, h5⟩ := h.pend q t hold w hw
      refine ⟨rp, v, p0, h1, h2, ?_, h4, h5⟩
      rw [hprocs, List.getElem?_set_ne (Ne.symm hne)]; exact h3
    · subst hq; subst ht
      obtain ⟨o, rp, ho, hres⟩ := h.res f hr
      have hw1 := h.park f q hpk w hw
      rw [ho] at hw1
      simp only [Option.some.injEq] at hw1
      subst hw1
      obtain ⟨hlt, _⟩ := List.getElem?_eq_some_iff.mp hp
      refine ⟨rp, (futGet e1.ps.futs f).value, { p with send := (futGet e1.ps.futs f).value }, hres,
        hdue w hw rp _ hres, ?_, rfl, h.okv f hr⟩
      rw [hprocs, List.getElem?_set_self hlt]

/-- segments of plain futures whose resolved values do not print as an exception -/
def PlainActV : Act → Prop
  | .resolve _ v => OKV v
  | .fresh _ => False
  | .anyOf _ _ => False
  | .allOf _ _ => False
  | _ => True

theorem cat_keep {j j' : SSt} {f : Nat} (hkp : Keep j j' f) (i c : Nat) (h : cAt j i = some c) : cAt j' i = some c := by
  have : cAt j' i = cAt (tick j) i := by unfold cAt tick; rw [hkp.clockAt]
  rw [this]; exact cAt_tick_old j i c h

theorem cat_keep_new {j j' : SSt} {f : Nat} (hkp : Keep j j' f) : cAt j' j.clockAt.length = some j.clock := by
  have : cAt j' j.clockAt.length = cAt (tick j) j.clockAt.length := by unfold cAt tick; rw [hkp.clockAt]
  rw [this]; exact cAt_tick_new j

/-- a `resolve` action and its `r` line -/
theorem resolve_FN (now : Nat) (e : Eff) (f : Nat) (v : Val) {k : Nat} {j : SSt} {X : Nat → Nat → Prop} {me : Nat}
    (hv : OKV v) (h : FN j k X me now e) :
    FN (stepLine j k (.resolve f v)) (k + 1) X me now (resolveFut depthFuel e now f v) := by
  obtain ⟨hb, hn⟩ := h
  obtain ⟨hkp, hw, o, hobj, hnone, hA, hB⟩ := step_resolve2 j k f v hb.js
  generalize stepLine j k (.resolve f v) = j' at hkp hw hobj hA hB
  have hlen' : j'.clockAt.length = k + 1 := by rw [hkp.clockAt]; simp [hb.len]
  have hcatk : cAt j' k = some now := by
    have := cat_keep_new hkp
    rw [hb.len, hn.clock] at this; exact this
  have hwpos' : ∀ w ∈ j'.waits, w.2.2 < k + 1 := by
    intro w hw'; rw [hw] at hw'; have := hb.wpos w hw'; omega
  have hfuel : depthFuel = 63 + 1 := rfl
  rw [hfuel, resolveFut_succ]
  by_cases hr : (futGet e.ps.futs f).resolved = true
  · simp only [hr, if_true]
    obtain ⟨o0, rp0, ho0, hr0⟩ := hb.res f hr
    have hoo : o0 = o := by
      have := hkp.obj f o0 ho0
      rw [hobj] at this; simp only [Option.some.injEq] at this; exact this.symm
    subst hoo
    have hsame := hA (by rw [hr0]; rfl)
    refine ⟨⟨hkp.js, hlen', hwpos', ?_, ?_, ?_, hb.okv, hb.nocb, ?_, hb.park1, hb.excl, ?_, hb.held, by rw [hkp.err]; exact hb.err⟩,
      ⟨hn.np, hn.ns, hn.nx, by rw [hkp.clock]; exact hn.clock⟩⟩
    · intro o' r hr'; rw [hsame] at hr'; have := hb.rpos o' r hr'; omega
    · intro g hg
      obtain ⟨og, rpg, h1, h2⟩ := hb.res g hg
      exact ⟨og, rpg, hkp.obj g og h1, by rw [hsame]; exact h2⟩
    · intro g og hg hog
      have hgf : g ≠ f := by intro heq; subst heq; rw [hr] at hg; cases hg
      rw [hsame]; exact hb.unres g og hg (hkp.objr g og hgf hog)
    · intro g q hg w hw'; rw [hw] at hw'; exact hkp.obj g _ (hb.park g q hg w hw')
    · intro q t hqt w hw'
      rw [hw] at hw'
      obtain ⟨rp, v0, p0, h1, h2, h3⟩ := hb.pend q t hqt w hw'
      exact ⟨rp, v0, p0, by rw [hsame]; exact h1, cat_keep hkp _ _ h2, h3⟩
  · have hr' : (futGet e.ps.futs f).resolved = false := by simpa using hr
    simp only [hr, Bool.false_eq_true, if_false]
    rw [hb.nocb f, List.foldl_nil]
    have hno : resOf j o = none := by
      cases hjo : j.obj f with
      | none => exact hnone hjo
      | some o0 =>
        have := hkp.obj f o0 hjo
        rw [hobj] at this; simp only [Option.some.injEq] at this
        rw [this]; exact hb.unres f o0 hr' hjo
    obtain ⟨hset, hoth⟩ := hB hno
    -- the state with the future marked
    have hget1 : ∀ g, futGet (e.setFut f { futGet e.ps.futs f with resolved := true, value := v, cbs := [] }).ps.futs g =
        if g = f then { futGet e.ps.futs f with resolved := true, value := v, cbs := [] } else futGet e.ps.futs g := by
      intro g; rw [setFut_futs, futGet_futSet]
    have hne_o : ∀ g og, g ≠ f → j'.obj g = some og → og ≠ o := by
      intro g og hg hog heq; subst heq; exact hg (hkp.js.inj g f og hog hobj)
    have hb1 : FB (e.setFut f { futGet e.ps.futs f with resolved := true, value := v, cbs := [] }) j' (k + 1) X := by
      refine ⟨hkp.js, hlen', hwpos', ?_, ?_, ?_, ?_, ?_, ?_, ?_, ?_, ?_, hb.held, by rw [hkp.err]; exact hb.err⟩
      · intro o' r hr1
        by_cases hoo : o' = o
        · subst hoo; rw [hset] at hr1; simp only [Option.some.injEq] at hr1; subst hr1; simp
        · rw [hoth o' hoo] at hr1; have := hb.rpos o' r hr1; omega
      · intro g hg
        rw [hget1] at hg ⊢
        by_cases hgf : g = f
        · subst hgf; simp only [if_true]; exact ⟨o, k, hobj, hset⟩
        · simp only [hgf, if_false] at hg ⊢
          obtain ⟨og, rpg, h1, h2⟩ := hb.res g hg
          exact ⟨og, rpg, hkp.obj g og h1, by rw [hoth og (hne_o g og hgf (hkp.obj g og h1))]; exact h2⟩
      · intro g og hg hog
        rw [hget1] at hg
        by_cases hgf : g = f
        · subst hgf; simp only [if_true] at hg; cases hg
        · simp only [hgf, if_false] at hg
          rw [hoth og (hne_o g og hgf hog)]
          exact hb.unres g og hg (hkp.objr g og hgf hog)
      · intro g hg
        rw [hget1] at hg ⊢
        by_cases hgf : g = f
        · subst hgf; simp only [if_true]; exact hv
        · simp only [hgf, if_false] at hg ⊢; exact hb.okv g hg
      · intro g
        rw [hget1]
        by_cases hgf : g = f
        · simp only [hgf, if_true]
        · simp only [hgf, if_false]; exact hb.nocb g
      · intro g q hg w hw'
        rw [hw] at hw'
        have hg' : (futGet e.ps.futs g).parked = some q := by
          rw [hget1] at hg
          by_cases hgf : g = f
          · subst hgf; simp only [if_true] at hg; exact hg
          · simp only [hgf, if_false] at hg; exact hg
        exact hkp.obj g _ (hb.park g q hg' w hw')
      · intro g g' q hg hg'
        have hgp : ∀ x, (futGet (e.setFut f { futGet e.ps.futs f with resolved := true, value := v, cbs := [] }).ps.futs x).parked =
            (futGet e.ps.futs x).parked := by
          intro x; rw [hget1]
          by_cases hxf : x = f
          · subst hxf; simp only [if_true]
          · simp only [hxf, if_false]
        rw [hgp] at hg hg'; exact hb.park1 g g' q hg hg'
      · intro g q hg
        have hg' : (futGet e.ps.futs g).parked = some q := by
          rw [hget1] at hg
          by_cases hgf : g = f
          · subst hgf; simp only [if_true] at hg; exact hg
          · simp only [hgf, if_false] at hg; exact hg
        exact hb.excl g q hg'
      · intro q t hqt w hw'
        rw [hw] at hw'
        obtain ⟨rp, v0, p0, h1, h2, h3⟩ := hb.pend q t hqt w hw'
        have hwo : w.2.1 ≠ o := by intro heq; rw [heq, hno] at h1; cases h1
        exact ⟨rp, v0, p0, by rw [hoth _ hwo]; exact h1, cat_keep hkp _ _ h2, h3⟩
    have hnp1 : ∀ g, (futGet (e.setFut f { futGet e.ps.futs f with resolved := true, value := v, cbs := [] }).ps.futs g).parked ≠ some me := by
      intro g; rw [hget1]
      by_cases hgf : g = f
      · subst hgf; simp only [if_true]; exact hn.np g
      · simp only [hgf, if_false]; exact hn.np g
    rcases markResolved_cases e now f v with heq | ⟨pid, p, hpk, hp, heq⟩
    · rw [heq]
      exact ⟨hb1, ⟨hnp1, hn.ns, hn.nx, by rw [hkp.clock]; exact hn.clock⟩⟩
    · rw [heq]
      have hpm : pid ≠ me := by intro hpm; subst hpm; exact hn.np f hpk
      have hpk1 : (futGet (e.setFut f { futGet e.ps.futs f with resolved := true, value := v, cbs := [] }).ps.futs f).parked = some pid := by
        rw [hget1]; simp only [if_true]; exact hpk
      have hr1 : (futGet (e.setFut f { futGet e.ps.futs f with resolved := true, value := v, cbs := [] }).ps.futs f).resolved = true := by
        rw [hget1]; simp only [if_true]
      refine ⟨FB_resumed hb1 hpk1 hp hr1 ?_, ⟨?_, ?_, hn.nx, by rw [hkp.clock]; exact hn.clock⟩⟩
      · intro w hw' rp val hres
        have h1 := hb1.park f pid hpk1 w hw'
        rw [hobj] at h1; simp only [Option.some.injEq] at h1
        rw [← h1, hset] at hres
        simp only [Option.some.injEq, Prod.mk.injEq] at hres
        obtain ⟨hrp, _⟩ := hres
        subst hrp
        have := hwpos' w (List.mem_of_find?_eq_some hw')
        have hm : max k w.2.2 = k := by omega
        rw [hm]; exact hcatk
      · intro g
        rw [resumed_futs, futGet_futSet]
        by_cases hgf : g = f
        · simp only [hgf, if_true]; simp
        · simp only [hgf, if_false]; exact hnp1 g
      · intro sp hsp hd
        have hsp' : sp ∈ e.specs ++ [contSpec p pid now] := hsp
        rcases List.mem_append.mp hsp' with hsp' | hsp'
        · exact hn.ns sp hsp' hd
        · simp only [List.mem_singleton] at hsp'
          subst hsp'
          simp [contSpec] at hd
          omega

/-- the `r` line of an action -/
theorem runAct_FN (now : Nat) (e : Eff) (a : Act) {k : Nat} {j : SSt} {X : Nat → Nat → Prop} {me : Nat}
    (hp : PlainActV a) (h : FN j k X me now e) :
    FN (foldFrom k (fActLines a) j) (k + (fActLines a).length) X me now (runAct now e a) := by
  cases a with
  | emit tgt kind delay daemon hook => exact FN_push h _ _ _ (Or.inl rfl)
  | emitPast tgt kind back daemon => exact FN_push h _ _ _ (Or.inl rfl)
  | emitAbs tgt kind time daemon => exact FN_push h _ _ _ (Or.inl rfl)
  | release i =>
    show FN j k X me now (runAct now e (.release i))
    simp only [runAct]
    split
    · exact h
    · rename_i i' sp hf
      have hm := List.mem_of_find?_eq_some hf
      refine FN_frame h rfl ?_ (fun x hx => (List.mem_filter.mp hx).1) (fun q _ => rfl)
      intro s hs
      rcases List.mem_append.mp hs with hs | hs
      · exact Or.inl hs
      · simp only [List.mem_singleton] at hs
        subst hs
        exact Or.inr (Or.inl (h.1.held _ hm))
  | cancel kind =>
    show FN j k X me now (runAct now e (.cancel kind))
    simp only [runAct]
    split
    · exact FN_same h rfl rfl rfl rfl
    · exact h
  | resolve f v => exact resolve_FN now e f v hp h
  | anyOf f gs => exact False.elim hp
  | allOf f gs => exact False.elim hp
  | fresh f => exact False.elim hp
  | crash x => exact FN_same h rfl rfl rfl rfl
  | restore x => exact FN_same h rfl rfl rfl rfl
  | addHook kind hook =>
    show FN j k X me now (runAct now e (.addHook kind hook))
    simp only [runAct]
    split
    · unfold addHookTo
      split
      · exact FN_same h rfl rfl rfl rfl
      · exact FN_same h rfl rfl rfl rfl
    · exact h
  | metric x abs v => exact FN_same h rfl rfl rfl rfl
  | relay tgt kind delay limit daemon =>
    show FN j k X me now (runAct now e (.relay tgt kind delay limit daemon))
    simp only [runAct]
    split
    · exact FN_same (FN_push h (⟨now + delay, tgt, kind, daemon, 0, 0⟩ : Spec) 0 true (Or.inl rfl)) rfl rfl rfl rfl
    · exact h

theorem acts_FN (now : Nat) (acts : List Act) {X : Nat → Nat → Prop} {me : Nat} :
    ∀ (e : Eff) (j : SSt) (k : Nat), (∀ a ∈ acts, PlainActV a) → FN j k X me now e →
      FN (foldFrom k (acts.flatMap fActLines) j) (k + (acts.flatMap fActLines).length) X me now
        (acts.foldl (runAct now) e) := by
  induction acts with
  | nil => intro e j k _ h; exact h
  | cons a r ih =>
    intro e j k hp h
    rw [List.flatMap_cons, foldFrom_append, List.foldl_cons, List.length_append, ← Nat.add_assoc]
    exact ih _ _ _ (fun b hb => hp b (List.mem_cons_of_mem _ hb)) (runAct_FN now e a (hp a (by simp)) h)


/-! ## terminators and segments -/

theorem FN_setProcMe {j : SSt} {k : Nat} {X : Nat → Nat → Prop} {me now : Nat} {e : Eff} (h : FN j k X me now e)
    (q : Proc) : FN j k X me now (e.setProc me q) :=
  FN_frame h rfl (fun sp hsp => Or.inl hsp) (fun x hx => hx)
    (fun i hi => by rw [setProc_procs, List.getElem?_set_ne (Ne.symm hi)])

theorem runHooks_FN (now' : Nat) (hooks : List Nat) (e : Eff) {j : SSt} {k : Nat} {X : Nat → Nat → Prop} {me now : Nat}
    (h : FN j k X me now e) : FN j k X me now (runHooks now' e hooks) := by
  unfold runHooks
  apply foldl_closed (P := FN j k X me now) _ _ _ _ h
  intro e' hk h'
  have h2 : FN j k X me now (addObs e' (.hook now' hk)) := FN_same h' rfl rfl rfl rfl
  exact FN_push h2 (⟨now', 0, 1000 + hk, false, 0, 0⟩ : Spec) 0 true (Or.inl rfl)

/-- `yield future` and its `w` line -/
theorem yieldF_FB (now : Nat) (e1 : Eff) (pid : Nat) (p1 : Proc) (rest : List Seg) (f k : Nat) (dm : Bool)
    {j : SSt} {X : Nat → Nat → Prop} (h : FN j k X pid now e1) :
    FB (segTerm now e1 pid p1 rest (.yieldF f)) (stepLine j k (.wait pid f dm)) (k + 1) X := by
  obtain ⟨hb, hn⟩ := h
  obtain ⟨hkp, o, hw, hobj, hnone, hsame⟩ := step_wait2 j k pid f dm hb.js
  generalize stepLine j k (.wait pid f dm) = j' at hkp hw hobj hsame
  have hlen' : j'.clockAt.length = k + 1 := by rw [hkp.clockAt]; simp [hb.len]
  have hcatk : cAt j' k = some now := by
    have := cat_keep_new hkp
    rw [hb.len, hn.clock] at this; exact this
  have hfq : ∀ q, q ≠ pid → j'.waits.find? (fun w => w.1 == q) = j.waits.find? (fun w => w.1 == q) := by
    intro q hq
    have : (pid == q) = false := by simp; omega
    rw [hw, List.find?_cons]; simp only [this]
  have hfp : j'.waits.find? (fun w => w.1 == pid) = some (pid, o, k) := by
    rw [hw, List.find?_cons]; simp
  simp only [segTerm]
  generalize he2 : e1.setProc pid { p1 with segs := rest } = e2
  have hf2 : e2.ps.futs = e1.ps.futs := by subst he2; rfl
  have hs2 : e2.specs = e1.specs := by subst he2; rfl
  have hh2 : e2.ps.held = e1.ps.held := by subst he2; rfl
  have hp2 : ∀ q, q ≠ pid → e2.ps.procs[q]? = e1.ps.procs[q]? := by
    intro q hq; subst he2; rw [setProc_procs, List.getElem?_set_ne (Ne.symm hq)]
  have hget3 : ∀ g, futGet (e2.setFut f { futGet e2.ps.futs f with parked := some pid }).ps.futs g =
      if g = f then { futGet e1.ps.futs f with parked := some pid } else futGet e1.ps.futs g := by
    intro g
    rw [setFut_futs, futGet_futSet, hf2]
  have hpq : ∀ g q, g ≠ f → (futGet e1.ps.futs g).parked = some q → q ≠ pid := by
    intro g q _ hg heq; subst heq; exact hn.np g hg
  have hB : FB (e2.setFut f { futGet e2.ps.futs f with parked := some pid }) j' (k + 1) X := by
    refine ⟨hkp.js, hlen', ?_, ?_, ?_, ?_, ?_, ?_, ?_, ?_, ?_, ?_, ?_, by rw [hkp.err]; exact hb.err⟩
    · intro w hw'
      rw [hw] at hw'
      rcases List.mem_cons.mp hw' with rfl | hw'
      · simp
      · have := hb.wpos w hw'; omega
    · intro o' r hr; rw [hsame] at hr; have := hb.rpos o' r hr; omega
    · intro g hg
      rw [hget3] at hg ⊢
      by_cases hgf : g = f
      · subst hgf; simp only [if_true] at hg ⊢
        obtain ⟨og, rp, h1, h2⟩ := hb.res g hg
        exact ⟨og, rp, hkp.obj g og h1, by rw [hsame]; exact h2⟩
      · simp only [hgf, if_false] at hg ⊢
        obtain ⟨og, rp, h1, h2⟩ := hb.res g hg
        exact ⟨og, rp, hkp.obj g og h1, by rw [hsame]; exact h2⟩
    · intro g og hg hog
      rw [hget3] at hg
      rw [hsame]
      by_cases hgf : g = f
      · subst hgf; simp only [if_true] at hg
        rw [hobj] at hog; simp only [Option.some.injEq] at hog; subst hog
        cases hjo : j.obj g with
        | none => exact hnone hjo
        | some o0 =>
          have := hkp.obj g o0 hjo
          rw [hobj] at this; simp only [Option.some.injEq] at this
          rw [this]; exact hb.unres g o0 hg hjo
      · simp only [hgf, if_false] at hg
        exact hb.unres g og hg (hkp.objr g og hgf hog)
    · intro g hg
      rw [hget3] at hg ⊢
      by_cases hgf : g = f
      · subst hgf; simp only [if_true] at hg ⊢; exact hb.okv g hg
      · simp only [hgf, if_false] at hg ⊢; exact hb.okv g hg
    · intro g
      rw [hget3]
      by_cases hgf : g = f
      · subst hgf; simp only [if_true]; exact hb.nocb g
      · simp only [hgf, if_false]; exact hb.nocb g
    · intro g q hg w hw'
      rw [hget3] at hg
      by_cases hgf : g = f
      · subst hgf
        simp only [if_true, Option.some.injEq] at hg
        subst hg
        rw [hfp] at hw'
        simp only [Option.some.injEq] at hw'
        subst hw'
        exact hobj
      · simp only [hgf, if_false] at hg
        rw [hfq q (hpq g q hgf hg)] at hw'
        exact hkp.obj g _ (hb.park g q hg w hw')
    · intro g g' q hg hg'
      rw [hget3] at hg hg'
      by_cases hgf : g = f
      · by_cases hgf' : g' = f
        · rw [hgf, hgf']
        · simp only [hgf, if_true, Option.some.injEq] at hg
          simp only [hgf', if_false] at hg'
          subst hg
          exact absurd hg' (hn.np g')
      · by_cases hgf' : g' = f
        · simp only [hgf', if_true, Option.some.injEq] at hg'
          simp only [hgf, if_false] at hg
          subst hg'
          exact absurd hg (hn.np g)
        · simp only [hgf, hgf', if_false] at hg hg'
          exact hb.park1 g g' q hg hg'
    · intro g q hg
      rw [hget3] at hg
      have hspecs : (e2.setFut f { futGet e2.ps.futs f with parked := some pid }).specs = e1.specs := hs2
      rw [hspecs]
      by_cases hgf : g = f
      · simp only [hgf, if_true, Option.some.injEq] at hg
        subst hg
        exact ⟨hn.nx, hn.ns⟩
      · simp only [hgf, if_false] at hg
        exact hb.excl g q hg
    · intro q t hqt w hw'
      have hspecs : (e2.setFut f { futGet e2.ps.futs f with parked := some pid }).specs = e1.specs := hs2
      rw [hspecs] at hqt
      have hne : q ≠ pid := by
        intro heq; subst heq
        rcases hqt with h1 | ⟨sp, hsp, hd, ht, _⟩
        · exact hn.nx t h1
        · exact hn.ns sp hsp hd ht
      rw [hfq q hne] at hw'
      obtain ⟨rp, v0, p0, h1, h2, h3, h4⟩ := hb.pend q t hqt w hw'
      refine ⟨rp, v0, p0, by rw [hsame]; exact h1, cat_keep hkp _ _ h2, ?_, h4⟩
      show e2.ps.procs[q]? = some p0
      rw [hp2 q hne]; exact h3
    · intro x hx'
      have : x ∈ e1.ps.held := by
        have hx2 : x ∈ e2.ps.held := hx'
        rw [hh2] at hx2; exact hx2
      exact hb.held x this
  split
  · rename_i hr
    rw [hf2] at hr
    cases hq : (e2.setFut f { futGet e2.ps.futs f with parked := some pid }).ps.procs[pid]? with
    | none =>
      rw [resumeParked_noproc _ now f pid (by rw [hget3]; simp) hq]
      exact hB
    | some p' =>
      rw [resumeParked_some _ now f pid p' (by rw [hget3]; simp) hq]
      refine FB_resumed hB (by rw [hget3]; simp) hq (by rw [hget3]; simpa using hr) ?_
      intro w hw' rp val hres
      rw [hfp] at hw'
      simp only [Option.some.injEq] at hw'
      subst hw'
      rw [hsame] at hres
      have := hb.rpos _ _ hres
      have hm : max rp k = k := by
        have : rp < k := this
        omega
      show cAt j' (max rp k) = some now
      rw [hm]; exact hcatk
  · exact hB

def PlainSegV (seg : Seg) : Prop := ∀ a ∈ seg.acts, PlainActV a

theorem runSegment_FB (now : Nat) (e : Eff) (pid tag k : Nat) {j : SSt} {X : Nat → Nat → Prop}
    (hpl : ∀ p, e.ps.procs[pid]? = some p → ∀ seg ∈ p.segs, PlainSegV seg)
    (h : FN j k X pid now e) :
    FB (runSegment now e pid tag) (foldFrom k (resLines e pid ++ termLines e pid) j)
      (k + (resLines e pid ++ termLines e pid).length) X := by
  cases hp : e.ps.procs[pid]? with
  | none =>
    have h1 : resLines e pid = [] := by simp [resLines, hp]
    have h2 : termLines e pid = [] := by simp [termLines, hp]
    rw [runSegment_noproc now e pid tag hp, h1, h2]; exact h.1
  | some p =>
    cases hs : p.segs with
    | nil =>
      have h1 : resLines e pid = [] := by simp [resLines, hp, hs]
      have h2 : termLines e pid = [] := by simp [termLines, hp, hs]
      have : runSegment now e pid tag = e := by simp [runSegment, hp, hs]
      rw [this, h1, h2]; exact h.1
    | cons seg rest =>
      have h1 : resLines e pid = seg.acts.flatMap fActLines := by simp [resLines, hp, hs]
      rw [runSegment_eq now e pid tag p seg rest hp hs, h1, foldFrom_append, List.length_append, ← Nat.add_assoc]
      unfold segBody
      have h0 : FN j k X pid now (segStart now e pid tag p) := by
        unfold segStart
        split
        · exact FN_same (FN_setProcMe (FN_same (e' := addObs e (.resume now pid p.send tag)) h rfl rfl rfl rfl) _) rfl rfl rfl rfl
        · exact FN_same (FN_setProcMe h _) rfl rfl rfl rfl
      have hacts := acts_FN now seg.acts _ j k (hpl p hp seg (by rw [hs]; simp)) h0
      cases ht : seg.term with
      | yieldD d =>
        have htl : termLines e pid = [] := by simp [termLines, hp, hs, ht]
        rw [htl]
        simp only [segTerm, foldFrom, List.length_nil, Nat.add_zero]
        exact (FN_push (FN_setProcMe hacts _) _ _ _ (Or.inr rfl)).1
      | yieldF f =>
        have htl : termLines e pid = [Line.wait pid f p.daemon] := by simp [termLines, hp, hs, ht]
        rw [htl]
        exact yieldF_FB now _ pid _ rest f _ p.daemon hacts
      | ret =>
        have htl : termLines e pid = [] := by simp [termLines, hp, hs, ht]
        rw [htl]
        simp only [segTerm, foldFrom, List.length_nil, Nat.add_zero]
        refine (runHooks_FN (me := pid) (now := now) now _ _ ?_).1
        exact FN_same (FN_setProcMe hacts _) rfl rfl rfl rfl

/-- plain segments everywhere; a live process with code left has started -/
def OkProc (p : Proc) : Prop := (∀ seg ∈ p.segs, PlainSegV seg) ∧ (p.started = true ∨ p.segs = [])

structure PPV (ps : PS) : Prop where
  defs : ∀ d ∈ ps.defs, ∀ seg ∈ d.segs, PlainSegV seg
  procs : ∀ (q : Nat) (p : Proc), ps.procs[q]? = some p → OkProc p

theorem procEff_FB (ps : PS) (now : Nat) (ev : Ev) (k : Nat) {j : SSt} {X : Nat → Nat → Prop} (hpp : PPV ps)
    (h : FN j k X (if ev.data = 0 then ps.procs.length else ev.data - 1) now { ps := ps }) :
    FB (procEff ps now ev) (foldFrom k (rsLine ps now ev ++ wLine ps now ev) j)
      (k + (rsLine ps now ev ++ wLine ps now ev).length) X := by
  unfold procEff rsLine wLine
  by_cases hd : ev.data = 0
  · simp only [hd, if_true] at h ⊢
    cases hfind : ps.defs.find? (fun d => d.ent == ev.target && d.kind == ev.kind) with
    | none =>
      simp only [List.append_nil, foldFrom, List.length_nil, Nat.add_zero]
      refine (runHooks_FN (me := ps.procs.length) (now := now) now _ _ ?_).1
      exact FN_same h rfl rfl rfl rfl
    | some d =>
      simp only []
      apply runSegment_FB
      · intro p hp seg hseg
        have hp' : (ps.procs ++ [newProc ps ev d])[ps.procs.length]? = some p := hp
        have : p = newProc ps ev d := by simpa using hp'.symm
        subst this
        exact hpp.defs d (List.mem_of_find?_eq_some hfind) seg hseg
      · refine FN_frame h rfl (fun sp hsp => Or.inl hsp) (fun x hx => hx) ?_
        intro q hq
        show (ps.procs ++ [newProc ps ev d])[q]? = ps.procs[q]?
        by_cases hlt : q < ps.procs.length
        · rw [List.getElem?_append_left hlt]
        · have h1 : ps.procs.length ≤ q := by omega
          rw [List.getElem?_eq_none_iff.mpr h1, List.getElem?_eq_none_iff.mpr (by simp; omega)]
  · simp only [hd, if_false] at h ⊢
    apply runSegment_FB _ _ _ _ _ ?_ h
    intro p hp seg hseg
    exact (hpp.procs _ p hp).1 seg hseg


/-! ## plain segments stay plain, live processes with code have started -/

theorem PPV_same {e e' : Eff} (h : PPV e.ps) (hd : e'.ps.defs = e.ps.defs) (hp : e'.ps.procs = e.ps.procs) :
    PPV e'.ps := ⟨by rw [hd]; exact h.defs, by rw [hp]; exact h.procs⟩

theorem procs_set_ok {l : List Proc} {pid : Nat} {x : Proc}
    (hold : ∀ (q : Nat) (p : Proc), l[q]? = some p → q ≠ pid → OkProc p) (hx : OkProc x) :
    ∀ (q : Nat) (p : Proc), (l.set pid x)[q]? = some p → OkProc p := by
  intro q p hp
  by_cases hq : pid = q
  · subst hq
    by_cases hlt : pid < l.length
    · rw [List.getElem?_set_self hlt] at hp; simp only [Option.some.injEq] at hp; subst hp; exact hx
    · have : (l.set pid x)[pid]? = none := by rw [List.getElem?_eq_none_iff]; simp; omega
      rw [this] at hp; cases hp
  · rw [List.getElem?_set_ne hq] at hp; exact hold q p hp (Ne.symm hq)

theorem PPV_setProc {e : Eff} (h : PPV e.ps) (pid : Nat) (x : Proc) (hx : OkProc x) : PPV (e.setProc pid x).ps :=
  ⟨h.defs, procs_set_ok (fun q p hp _ => h.procs q p hp) hx⟩

theorem PPV_resumeParked {e : Eff} (h : PPV e.ps) (now f : Nat) : PPV (resumeParked e now f).ps := by
  cases hpk : (futGet e.ps.futs f).parked with
  | none => rw [resumeParked_none e now f hpk]; exact h
  | some pid =>
    cases hp : e.ps.procs[pid]? with
    | none => rw [resumeParked_noproc e now f pid hpk hp]; exact h
    | some p =>
      rw [resumeParked_some e now f pid p hpk hp]
      unfold resumed
      apply PPV_setProc
      · exact PPV_same (e := e) h rfl rfl
      · exact h.procs pid p hp

theorem PPV_closed : Closed (fun e => PPV e.ps) where
  resolve := by
    intro e now f v h hr
    unfold markResolved
    apply PPV_resumeParked
    exact PPV_same (e := e) h rfl rfl
  allUpd := fun e c res rem h hr => PPV_same (e := e) h rfl rfl
  cbAdd := fun e g cb h hr => PPV_same (e := e) h rfl rfl
  bind := fun e f rs rm h => PPV_same (e := e) h rfl rfl
  push := fun e sp hook tagged hd h => PPV_same (e := e) h rfl rfl
  release := fun e i sp h hm => PPV_same (e := e) h rfl rfl
  crashed := fun e l h => PPV_same (e := e) h rfl rfl
  cancels := fun e l h => PPV_same (e := e) h rfl rfl
  hookLate := fun e pid hook h => PPV_same (e := e) h rfl rfl
  hookEarly := fun e id hook h => PPV_same (e := e) h rfl rfl
  level := fun e l h => PPV_same (e := e) h rfl rfl
  hops := fun e l h => PPV_same (e := e) h rfl rfl
  obs := fun e o ho h => PPV_same (e := e) h rfl rfl

theorem runSegment_PPV (now : Nat) (e : Eff) (pid tag : Nat)
    (hd : ∀ d ∈ e.ps.defs, ∀ seg ∈ d.segs, PlainSegV seg)
    (hprocs : ∀ (q : Nat) (p : Proc), e.ps.procs[q]? = some p → q ≠ pid → OkProc p)
    (hme : ∀ p, e.ps.procs[pid]? = some p → ∀ seg ∈ p.segs, PlainSegV seg) :
    PPV (runSegment now e pid tag).ps := by
  cases hp : e.ps.procs[pid]? with
  | none =>
    rw [runSegment_noproc now e pid tag hp]
    exact ⟨hd, fun q p hq => hprocs q p hq (by intro heq; subst heq; rw [hp] at hq; cases hq)⟩
  | some p =>
    cases hs : p.segs with
    | nil =>
      have : runSegment now e pid tag = e := by simp [runSegment, hp, hs]
      rw [this]
      refine ⟨hd, ?_⟩
      intro q p' hq
      by_cases hqp : q = pid
      · subst hqp
        rw [hp] at hq; simp only [Option.some.injEq] at hq; subst hq
        exact ⟨by rw [hs]; intro seg hseg; simp at hseg, Or.inr hs⟩
      · exact hprocs q p' hq hqp
    | cons seg rest =>
      rw [runSegment_eq now e pid tag p seg rest hp hs]
      unfold segBody
      have hpseg : ∀ x ∈ p.segs, PlainSegV x := hme p hp
      have hrest : ∀ x ∈ rest, PlainSegV x := fun x hx => hpseg x (by rw [hs]; exact List.mem_cons_of_mem _ hx)
      have hx0 : OkProc ({ p with started := true, send := Val.none } : Proc) := ⟨hpseg, Or.inl rfl⟩
      have h0 : PPV (segStart now e pid tag p).ps := by
        unfold segStart
        split
        · exact ⟨hd, procs_set_ok hprocs hx0⟩
        · exact ⟨hd, procs_set_ok hprocs hx0⟩
      have h1 := acts_closed PPV_closed now seg.acts _ h0
      generalize seg.acts.foldl (runAct now) (segStart now e pid tag p) = e1 at h1
      cases seg.term with
      | yieldD d =>
        simp only [segTerm]
        exact PPV_same (PPV_setProc h1 pid { p with started := true, send := Val.none, segs := rest } ⟨hrest, Or.inl rfl⟩) rfl rfl
      | yieldF f =>
        simp only [segTerm]
        have h2 := PPV_setProc h1 pid { p with started := true, send := Val.none, segs := rest } ⟨hrest, Or.inl rfl⟩
        have h3 : PPV ((e1.setProc pid { p with started := true, send := Val.none, segs := rest }).setFut f
            { futGet (e1.setProc pid { p with started := true, send := Val.none, segs := rest }).ps.futs f with
              parked := some pid }).ps := PPV_same h2 rfl rfl
        split
        · exact PPV_resumeParked h3 now f
        · exact h3
      | ret =>
        simp only [segTerm]
        apply runHooks_closed PPV_closed
        have h2 := PPV_setProc h1 pid { p with started := true, send := Val.none, segs := [], done := true, hooks := [] }
          ⟨by intro x hx; simp at hx, Or.inr rfl⟩
        exact PPV_same h2 rfl rfl

theorem procEff_PPV (ps : PS) (now : Nat) (ev : Ev) (h : PPV ps) : PPV (procEff ps now ev).ps := by
  unfold procEff
  by_cases hd : ev.data = 0
  · simp only [hd, if_true]
    cases hfind : ps.defs.find? (fun d => d.ent == ev.target && d.kind == ev.kind) with
    | none =>
      simp only []
      apply runHooks_closed PPV_closed
      exact PPV_same (e := ({ ps := ps } : Eff)) h rfl rfl
    | some d =>
      simp only []
      apply runSegment_PPV
      · exact h.defs
      · intro q p hq hne
        have hq' : (ps.procs ++ [newProc ps ev d])[q]? = some p := hq
        by_cases hlt : q < ps.procs.length
        · rw [List.getElem?_append_left hlt] at hq'; exact h.procs q p hq'
        · have : (ps.procs ++ [newProc ps ev d]).length ≤ q := by simp; omega
          rw [List.getElem?_eq_none_iff.mpr this] at hq'; cases hq'
      · intro p hp seg hseg
        have hp' : (ps.procs ++ [newProc ps ev d])[ps.procs.length]? = some p := hp
        have : p = newProc ps ev d := by simpa using hp'.symm
        subst this
        exact h.defs d (List.mem_of_find?_eq_some hfind) seg hseg
  · simp only [hd, if_false]
    exact runSegment_PPV now _ _ _ h.defs (fun q p hq _ => h.procs q p hq) (fun p hp => (h.procs _ p hp).1)

/-! ## the link at the level of a run -/

/-- the line that opens a delivery: `S` / `K` for a plain event, `R` for a continuation -/
def openLine (ps : PS) (m : Ev) : List Line :=
  if m.data = 0 then
    match ps.defs.find? (fun d => d.ent == m.target && d.kind == m.kind) with
    | none => [Line.skipped m.time (m.id + 1)]
    | some _ => [Line.start m.time (m.id + 1)]
  else rLine ps m

/-- the future layer of one delivery: the opening line, the futures the segment resolves (in action
    order), the future it ends by yielding -/
def ftLines (s : St PS) (m : Ev) : List Line :=
  openLine s.ent m ++ (rsLine s.ent m.time m ++ wLine s.ent m.time m)

def ftStep (s : St PS) (ls : List Line) (m : Ev) : List Line :=
  if s.cancelled.contains m.id then ls
  else if m.time < s.now then ls
  else if procMachine.crashed s.ent m then ls
  else ls ++ ftLines s m

def ftRun (endT : Option Nat) : Nat → St PS → List Line → List Line
  | 0, _, ls => ls
  | n+1, s, ls =>
    match s.heap with
    | [] => ls
    | x :: xs =>
      if continues endT s then ftRun endT n (stepWith procMachine s (minOf x xs)) (ftStep s ls (minOf x xs))
      else ls

/-- the `S` / `K` / `R` / `r` / `w` lines of the trace of a run from `s0` -/
def futTrace (endT : Option Nat) (n : Nat) (s0 : St PS) : List Line := ftRun endT n s0 []

/-- `q` has an untagged continuation at `t` in the heap -/
def XT (heap : List Ev) (q t : Nat) : Prop := ∃ ev ∈ heap, ev.data = q + 1 ∧ ev.tag = 0 ∧ ev.time = t

theorem FB_monoX {e : Eff} {j : SSt} {k : Nat} {X X' : Nat → Nat → Prop} (h : FB e j k X)
    (hx : ∀ q t, X' q t → X q t) : FB e j k X' :=
  ⟨h.js, h.len, h.wpos, h.rpos, h.res, h.unres, h.okv, h.nocb, h.park, h.park1,
   fun f pid hpk => ⟨fun t ht => (h.excl f pid hpk).1 t (hx pid t ht), (h.excl f pid hpk).2⟩,
   fun pid t hp => h.pend pid t (hp.elim (fun a => Or.inl (hx pid t a)) Or.inr), h.held, h.err⟩

theorem FB_close {r : Eff} {j : SSt} {k : Nat} {X X' : Nat → Nat → Prop} (h : FB r j k X)
    (hX' : ∀ q t, X' q t → X q t ∨ ∃ sp ∈ r.specs, sp.data = q + 1 ∧ sp.tag = 0 ∧ sp.time = t) :
    FB ({ ps := r.ps } : Eff) j k X' := by
  refine ⟨h.js, h.len, h.wpos, h.rpos, h.res, h.unres, h.okv, h.nocb, h.park, h.park1, ?_, ?_, h.held, h.err⟩
  · intro f pid hpk
    refine ⟨?_, by intro sp hsp; simp at hsp⟩
    intro t ht
    rcases hX' pid t ht with h1 | ⟨sp, hsp, hd, htag, _⟩
    · exact (h.excl f pid hpk).1 t h1
    · exact (h.excl f pid hpk).2 sp hsp hd htag
  · intro pid t hp w hw
    rcases hp with hp | ⟨sp, hsp, _⟩
    · exact h.pend pid t (hX' pid t hp) w hw
    · simp at hsp

/-- a line that only sets the clock -/
theorem FB_clock {e : Eff} {j : SSt} {k : Nat} {X : Nat → Nat → Prop} (h : FB e j k X) (c : Nat) :
    FB e { tick j with clock := c } (k + 1) X := by
  refine ⟨⟨h.js.plain, h.js.rng, h.js.inj⟩, ?_, ?_, ?_, h.res, h.unres, h.okv, h.nocb, h.park, h.park1, h.excl, ?_,
    h.held, h.err⟩
  · show (j.clock :: j.clockAt).length = k + 1
    simp [h.len]
  · intro w hw; have := h.wpos w hw; omega
  · intro o r hr; have := h.rpos o r hr; omega
  · intro pid t hp w hw
    obtain ⟨rp, v, p, h1, h2, h3⟩ := h.pend pid t hp w hw
    exact ⟨rp, v, p, h1, cAt_tick_old j _ _ h2, h3⟩

structure FI (s : St PS) (ls : List Line) : Prop where
  fb : FB ({ ps := s.ent } : Eff) (foldFrom 0 ls {}) ls.length (XT s.heap)
  pp : PPV s.ent

theorem FI_skip (s : St PS) (ls : List Line) (m : Ev) (now' a b c prim : Nat) (pp : List (Ev × Verdict))
    (h : FI s ls) :
    FI { s with heap := s.heap.erase m, primary := prim, now := now', processed := a, nCancelled := b,
                nStale := c, popped := pp } ls := by
  refine ⟨FB_monoX h.fb ?_, h.pp⟩
  intro q t ⟨ev, he, hd⟩
  exact ⟨ev, List.mem_of_mem_erase he, hd⟩

/-- the line that opens a delivery -/
theorem FB_open (s : St PS) (m : Ev) (hm : m ∈ s.heap) (pinv : ProcInv s) (j : SSt) (k : Nat)
    (h : FB ({ ps := s.ent } : Eff) j k (XT s.heap)) (hline : m.data = 0 ∨ rLine s.ent m ≠ []) :
    FN (foldFrom k (openLine s.ent m) j) (k + (openLine s.ent m).length) (XT (s.heap.erase m))
      (if m.data = 0 then s.ent.procs.length else m.data - 1) m.time ({ ps := s.ent } : Eff) := by
  have hsub : ∀ q t, XT (s.heap.erase m) q t → XT s.heap q t :=
    fun q t ⟨ev, he, hd⟩ => ⟨ev, List.mem_of_mem_erase he, hd⟩
  by_cases hd : m.data = 0
  · simp only [hd, if_true]
    obtain ⟨f1, f2⟩ := fresh_pid_nothing s pinv
    have hnx : ∀ t, ¬ XT (s.heap.erase m) s.ent.procs.length t := by
      intro t ⟨ev, he, hdq, _⟩
      have := pinv.heapProc ev (List.mem_of_mem_erase he)
      omega
    have hfn : FN { tick j with clock := m.time } (k + 1) (XT (s.heap.erase m)) s.ent.procs.length m.time
        ({ ps := s.ent } : Eff) :=
      ⟨FB_clock (FB_monoX h hsub) m.time, ⟨(cntPark_zero _ _).mp f2, by intro sp hsp; simp at hsp, hnx, rfl⟩⟩
    unfold openLine
    simp only [hd, if_true]
    cases s.ent.defs.find? (fun d => d.ent == m.target && d.kind == m.kind) with
    | none => exact hfn
    | some d => exact hfn
  · simp only [hd, if_false]
    have hdat : m.data = (m.data - 1) + 1 := by omega
    have h1 := cntHeap_erase_mem s.heap m (m.data - 1) hm
    have h2 := pinv.atMostOne (m.data - 1)
    have hi : ind (m.data == m.data - 1 + 1) = 1 := by simp [ind, ← hdat]
    have hz1 : cntHeap (s.heap.erase m) (m.data - 1) = 0 := by omega
    have hz2 : cntPark s.ent.futs (m.data - 1) = 0 := by omega
    have hnp := (cntPark_zero _ _).mp hz2
    have hnx : ∀ t, ¬ XT (s.heap.erase m) (m.data - 1) t := by
      intro t ⟨ev, he, hdq, _⟩
      unfold cntHeap at hz1
      rw [List.countP_eq_zero] at hz1
      have := hz1 ev he
      simp [hdq] at this
    have hr : rLine s.ent m ≠ [] := by
      rcases hline with h0 | h0
      · exact absurd h0 hd
      · exact h0
    unfold openLine
    simp only [hd, if_false]
    unfold rLine at hr ⊢
    simp only [hd, if_false] at hr ⊢
    cases hp : s.ent.procs[m.data - 1]? with
    | none => rw [hp] at hr; exact absurd rfl hr
    | some p =>
      rw [hp] at hr
      simp only [] at hr ⊢
      by_cases hst : (p.started && !p.segs.isEmpty) = true
      · simp only [hst, if_true]
        show FN (stepLine j k (Line.resume m.time (m.data - 1) p.send.show m.tag)) (k + 1) _ _ _ _
        obtain ⟨hobjs, hslot, herr, hclock, hcat, hwsub, hq, hself⟩ := step_resume2 j k m.time (m.data - 1) m.tag
          p.send.show h.err (by
            intro htag w hw
            obtain ⟨rp, v, p0, e1, e2, e3, e4, e5⟩ := h.pend (m.data - 1) m.time (Or.inl ⟨m, hm, hdat, htag, rfl⟩) w hw
            have e3' : s.ent.procs[m.data - 1]? = some p0 := e3
            rw [hp] at e3'; simp only [Option.some.injEq] at e3'; subst e3'
            exact ⟨rp, v, e1, e2, by rw [e4], by rw [e4]; exact e5⟩)
        generalize stepLine j k (Line.resume m.time (m.data - 1) p.send.show m.tag) = j1 at hobjs hslot herr hclock hcat hwsub hq hself
        have hobjeq : ∀ g, j1.obj g = j.obj g := by intro g; unfold SSt.obj; rw [hslot]
        have hreseq : ∀ o, resOf j1 o = resOf j o := by intro o; unfold resOf; rw [hobjs]
        have hcateq : ∀ i c, cAt j i = some c → cAt j1 i = some c := by
          intro i c hc
          have : cAt j1 i = cAt (tick j) i := by unfold cAt tick; rw [hcat]
          rw [this]; exact cAt_tick_old j i c hc
        refine ⟨⟨⟨by rw [hobjs]; exact h.js.plain, ?_, ?_⟩, ?_, ?_, ?_, ?_, ?_, h.okv, h.nocb, ?_, h.park1, ?_, ?_, h.held, herr⟩,
          ⟨hnp, by intro sp hsp; simp at hsp, hnx, hclock⟩⟩
        · intro g o hg; rw [hobjs]; rw [hobjeq] at hg; exact h.js.rng g o hg
        · intro a b o ha hb; rw [hobjeq] at ha hb; exact h.js.inj a b o ha hb
        · rw [hcat]; simp [h.len]
        · intro w hw; have := h.wpos w (hwsub w hw); omega
        · intro o r hr'; rw [hreseq] at hr'; have := h.rpos o r hr'; omega
        · intro f hf
          obtain ⟨o, rp, ho, hr'⟩ := h.res f hf
          exact ⟨o, rp, by rw [hobjeq]; exact ho, by rw [hreseq]; exact hr'⟩
        · intro f o hf ho; rw [hobjeq] at ho; rw [hreseq]; exact h.unres f o hf ho
        · intro f q hf w hw
          have hqp : m.tag = 0 → q ≠ m.data - 1 := by
            intro _ heq; subst heq; exact hnp f hf
          rw [hq q hqp] at hw
          rw [hobjeq]; exact h.park f q hf w hw
        · intro f q hf
          exact ⟨fun t ht => (h.excl f q hf).1 t (hsub q t ht), (h.excl f q hf).2⟩
        · intro q t hqx w hw
          rcases hqx with hqx | ⟨sp, hsp, _⟩
          · have hqp : m.tag = 0 → q ≠ m.data - 1 := by
              intro _ heq; subst heq; exact hnx t hqx
            rw [hq q hqp] at hw
            obtain ⟨rp, v, p0, e1, e2, e3⟩ := h.pend q t (Or.inl (hsub q t hqx)) w hw
            exact ⟨rp, v, p0, by rw [hreseq]; exact e1, hcateq _ _ e2, e3⟩
          · simp at hsp
      · simp only [hst, Bool.false_eq_true, if_false] at hr
        exact absurd rfl hr

/-- a continuation of a process with nothing left to run writes nothing and does nothing -/
theorem noline (ps : PS) (now : Nat) (m : Ev) (hd : m.data ≠ 0) (hr : rLine ps m = []) (hpp : PPV ps) :
    procEff ps now m = ({ ps := ps } : Eff) ∧ rsLine ps now m = [] ∧ wLine ps now m = [] := by
  unfold procEff rsLine wLine
  simp only [hd, if_false]
  unfold rLine at hr
  simp only [hd, if_false] at hr
  cases hp : ps.procs[m.data - 1]? with
  | none =>
    exact ⟨runSegment_noproc now _ _ _ hp, by simp [resLines, hp], by simp [termLines, hp]⟩
  | some p =>
    rw [hp] at hr
    simp only [] at hr
    have hs : p.segs = [] := by
      rcases (hpp.procs _ p hp).2 with h1 | h1
      · by_cases hst : (p.started && !p.segs.isEmpty) = true
        · simp only [hst, if_true] at hr; cases hr
        · rw [h1] at hst
          simp at hst
          exact hst
      · exact h1
    exact ⟨by simp [runSegment, hp, hs], by simp [resLines, hp, hs], by simp [termLines, hp, hs]⟩

theorem mkEvents_full3 (n t : Nat) (specs : List Spec) :
    ∀ e ∈ mkEvents n t specs, ∃ sp ∈ specs, e.data = sp.data ∧ e.tag = sp.tag ∧ e.time = sp.time := by
  induction specs generalizing n with
  | nil => intro e he; simp [mkEvents] at he
  | cons a r ih =>
    intro e he
    simp only [mkEvents, List.mem_cons] at he
    rcases he with rfl | he
    · exact ⟨a, by simp, rfl, rfl, rfl⟩
    · obtain ⟨sp, hsp, h⟩ := ih (n + 1) e he
      exact ⟨sp, List.mem_cons_of_mem _ hsp, h⟩

theorem FI_step (s : St PS) (ls : List Line) (m : Ev) (hm : m ∈ s.heap) (pinv : ProcInv s) (h : FI s ls) :
    FI (stepWith procMachine s m) (ftStep s ls m) := by
  unfold stepWith ftStep
  simp only []
  split
  · exact FI_skip s _ m _ _ _ _ _ _ h
  · split
    · exact FI_skip s _ m _ _ _ _ _ _ h
    · split
      · exact FI_skip s _ m _ _ _ _ _ _ h
      · have heq := procHandle_eq s.ent m.time m
        have hent : (procMachine.handle s.ent m.time m).ent = (procEff s.ent m.time m).ps := by
          show (procHandle s.ent m.time m).ent = _; rw [heq]
        have hspecs : (procMachine.handle s.ent m.time m).specs = (procEff s.ent m.time m).specs := by
          show (procHandle s.ent m.time m).specs = _; rw [heq]
        have hpp := procEff_PPV s.ent m.time m h.pp
        have hfb : FB (procEff s.ent m.time m) (foldFrom 0 (ls ++ ftLines s m) {}) (ls ++ ftLines s m).length
            (XT (s.heap.erase m)) := by
          by_cases hline : m.data = 0 ∨ rLine s.ent m ≠ []
          · have hopen := FB_open s m hm pinv (foldFrom 0 ls {}) ls.length h.fb hline
            have hpe := procEff_FB s.ent m.time m (ls.length + (openLine s.ent m).length) h.pp hopen
            have hfold : foldFrom 0 (ls ++ ftLines s m) {} =
                foldFrom (ls.length + (openLine s.ent m).length) (rsLine s.ent m.time m ++ wLine s.ent m.time m)
                  (foldFrom ls.length (openLine s.ent m) (foldFrom 0 ls {})) := by
              unfold ftLines
              rw [foldFrom_append, foldFrom_append, Nat.zero_add]
            have hlen : (ls ++ ftLines s m).length =
                ls.length + (openLine s.ent m).length + (rsLine s.ent m.time m ++ wLine s.ent m.time m).length := by
              unfold ftLines
              simp only [List.length_append]; omega
            rw [hfold, hlen]; exact hpe
          · have hd : m.data ≠ 0 := fun h0 => hline (Or.inl h0)
            have hr : rLine s.ent m = [] := by
              cases hrl : rLine s.ent m with
              | nil => rfl
              | cons a r => exact absurd (Or.inr (by rw [hrl]; simp)) hline
            obtain ⟨e1, e2, e3⟩ := noline s.ent m.time m hd hr h.pp
            have hl : ftLines s m = [] := by
              unfold ftLines openLine
              simp only [hd, if_false, hr, e2, e3, List.append_nil]
            rw [e1, hl, List.append_nil]
            refine FB_monoX h.fb ?_
            intro q t ⟨ev, he, hdq⟩
            exact ⟨ev, List.mem_of_mem_erase he, hdq⟩
        generalize procEff s.ent m.time m = r at hent hspecs hfb hpp
        refine ⟨?_, ?_⟩
        · show FB ({ ps := (procMachine.handle s.ent m.time m).ent } : Eff) (foldFrom 0 (ls ++ ftLines s m) {})
            (ls ++ ftLines s m).length
            (XT (s.heap.erase m ++ mkEvents s.nextId m.time (procMachine.handle s.ent m.time m).specs))
          rw [hent, hspecs]
          apply FB_close hfb
          intro q t ⟨ev, he, hd, ht, htt⟩
          rcases List.mem_append.mp he with he | he
          · exact Or.inl ⟨ev, he, hd, ht, htt⟩
          · obtain ⟨sp, hsp, h1, h2, h3⟩ := mkEvents_full3 _ _ _ ev he
            exact Or.inr ⟨sp, hsp, by omega, by omega, by omega⟩
        · show PPV (procMachine.handle s.ent m.time m).ent
          rw [hent]; exact hpp

theorem FI_run (endT : Option Nat) (n : Nat) (s : St PS) (ls : List Line) (pinv : ProcInv s) (h : FI s ls) :
    FI (run procMachine endT n s) (ftRun endT n s ls) := by
  induction n generalizing s ls with
  | zero => simpa [run, ftRun]
  | succ n ih =>
    unfold run ftRun step
    cases hh : s.heap with
    | nil => simpa
    | cons x xs =>
      simp only []
      by_cases hc : continues endT s = true
      · simp only [hc, if_true]
        have hmem : minOf x xs ∈ s.heap := by rw [hh]; exact (pop_is_min x xs).1
        exact ih _ _ (step_procInv s _ pinv hmem) (FI_step s ls _ hmem pinv h)
      · simp only [hc, Bool.false_eq_true, if_false]
        exact h

end HappyModel.C01.FV

namespace HappyModel.C01
open HappyModel.C02.Spec (Line SSt stepLine)

/-- **the per-resumption future clauses are silent on the trace of the model, plain futures**: for every
    handler table whose segments use no combinator, never rebind a slot and resolve futures with values that
    do not print as `raised:…` (`FV.PlainSegV`), every initial state with plain pending events and no future
    created yet, every end time and number of iterations, the settle fold of the C02 judge over the numbered
    `S` / `K` / `R` / `r` / `w` lines of the model's run (`FV.futTrace`) ends without an error: none of
    `future/resumed-before-resolved`, `future/value-raised-instead-of-sent`, `future/resumed-with-wrong-value`,
    `future/resumed-at-wrong-instant` (the only errors this fold raises) fires — the process resumed by a
    future waits on an object with an `r` line, it is sent the value of that line, at the clock of the later
    of its `w` line and that `r` line -/
theorem future_clauses_silent_on_model_plain (endT : Option Nat) (n : Nat) (s0 : St PS) (h0 : InitOk s0)
    (hpl : ∀ d ∈ s0.ent.defs, ∀ seg ∈ d.segs, FV.PlainSegV seg) (hfut : s0.ent.futs = []) :
    ((enum (FV.futTrace endT n s0)).foldl (fun st p => stepLine st p.1 p.2) {}).err = none := by
  rw [fold_enum_eq]
  have hget : ∀ f, futGet s0.ent.futs f = ({} : Fut) := by intro f; rw [hfut]; rfl
  have hpp : FV.PPV s0.ent := ⟨hpl, by intro q p hq; rw [h0.noProcs] at hq; simp at hq⟩
  refine (FV.FI_run endT n s0 [] h0.procInv ⟨⟨⟨?_, ?_, ?_⟩, rfl, ?_, ?_, ?_, ?_, ?_, ?_, ?_, ?_, ?_, ?_, h0.heldPlain, rfl⟩, hpp⟩).fb.err
  · intro o ho; simp [foldFrom] at ho
  · intro g o hg; simp [foldFrom, SSt.obj] at hg
  · intro a b o ha; simp [foldFrom, SSt.obj] at ha
  · intro w hw; simp [foldFrom] at hw
  · intro o r hr; simp [foldFrom, resOf] at hr
  · intro f hf; rw [hget] at hf; simp at hf
  · intro f o _ ho; simp [foldFrom, SSt.obj] at ho
  · intro f hf; rw [hget] at hf; simp at hf
  · intro f; rw [hget]
  · intro f pid hf; rw [hget] at hf; simp at hf
  · intro f g pid hf; rw [hget] at hf; simp at hf
  · intro f pid hf; rw [hget] at hf; simp at hf
  · intro pid t hp w hw; simp [foldFrom] at hw

/-- a program with plain futures whose resolved values do not print as an exception -/
def Program.PlainFuturesV (p : Program) : Prop := ∀ d ∈ p.defs, ∀ seg ∈ d.segs, FV.PlainSegV seg

theorem future_clauses_silent_on_program_plain (p : Program) (gateCont : Bool) (hp : p.Plain)
    (hf : p.PlainFuturesV) (endT : Option Nat) (n : Nat) :
    ((enum (FV.futTrace endT n (p.initState gateCont))).foldl (fun st q => stepLine st q.1 q.2) {}).err = none :=
  future_clauses_silent_on_model_plain endT n _ (initState_ok p gateCont hp) hf rfl

instance (a : Act) : Decidable (FV.PlainActV a) := by
  cases a <;> simp only [FV.PlainActV] <;> infer_instance
instance (seg : Seg) : Decidable (FV.PlainSegV seg) := by unfold FV.PlainSegV; infer_instance
instance (p : Program) : Decidable p.PlainFuturesV := by unfold Program.PlainFuturesV; infer_instance

/-- a key of the lines of `futTrace`, for examples -/
def ftKey : Line → Nat × Nat × Nat
  | .resolve f _ => (1, f, 0)
  | .wait pid f _ => (2, pid, f)
  | .resume clk pid _ tag => (3, clk, pid + 100 * tag)
  | .start clk _ => (4, clk, 0)
  | .skipped clk _ => (5, clk, 0)
  | _ => (0, 0, 0)

end HappyModel.C01
