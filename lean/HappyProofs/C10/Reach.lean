import HappyProofs.C10.TuaWin
/-!
Leaky bucket, sliding window, fixed window: the admission bounds from **every reachable state**.

For each policy an explicit history invariant `…Hist c s hist now` relates the policy state `s` to the
list `hist` of everything admitted so far (and the current time `now`).  It holds of the fresh policy
with the empty history, it is preserved by every operation whose time does not decrease
(`…_hist_step`, hence along every run: `…_hist_run`), and from any state satisfying it the bound holds
for the history followed by all future admissions.
-/
namespace HappyModel.C10

variable {σ : Type}

/-- the state after a list of operations -/
def Policy.run (P : Policy σ) : σ → List Op → σ
  | s, [] => s
  | s, o :: os => Policy.run P (P.step s o) os

/-- the time of the last operation (`now` if there is none) -/
def endTime (now : Nat) : List Op → Nat
  | [] => now
  | o :: os => endTime o.time os

theorem admitted_cons (P : Policy σ) (s : σ) (o : Op) (os : List Op) :
    P.admitted s (o :: os) = P.admitted s [o] ++ P.admitted (P.step s o) os := by
  cases o with
  | acq t => simp only [Policy.admitted, Policy.step]; split <;> simp
  | tua t => simp [Policy.admitted, Policy.step]
  | succ t => simp [Policy.admitted, Policy.step]
  | fail t => simp [Policy.admitted, Policy.step]

theorem admitted_append (P : Policy σ) : ∀ (a : List Op) (s : σ) (b : List Op),
    P.admitted s (a ++ b) = P.admitted s a ++ P.admitted (P.run s a) b
  | [], s, b => by simp [Policy.admitted, Policy.run]
  | o :: os, s, b => by
    rw [List.cons_append, admitted_cons, admitted_append P os, admitted_cons P s o os, Policy.run,
      List.append_assoc]

/-- an invariant closed under single steps holds along every run -/
theorem hist_run (P : Policy σ) (H : σ → List Nat → Nat → Prop)
    (hstep : ∀ s hist now o, H s hist now → now ≤ o.time → H (P.step s o) (hist ++ P.admitted s [o]) o.time) :
    ∀ (ops : List Op) (s : σ) (hist : List Nat) (now : Nat), H s hist now → MonoOps now ops →
      H (P.run s ops) (hist ++ P.admitted s ops) (endTime now ops)
  | [], s, hist, now, h, _ => by simpa [Policy.run, Policy.admitted, endTime] using h
  | o :: os, s, hist, now, h, hm => by
    have := hist_run P H hstep os _ _ _ (hstep s hist now o h hm.1) hm.2
    rw [admitted_cons, ← List.append_assoc]
    exact this

/-! ### leaky bucket -/

/-- `hist` is correctly spaced and the leak timer is at the last admission -/
def LBHist (c : LBCfg) (s : LB) (hist : List Nat) (_now : Nat) : Prop :=
  spacingOK c.p c.one 0 hist = true ∧ s.last = hist.getLast?

theorem spacing_append (p one e : Nat) : ∀ (pre xs : List Nat), spacingOK p one e pre = true →
    (∀ l, pre.getLast? = some l → spacingOK p one e (l :: xs) = true) →
    (pre = [] → spacingOK p one e xs = true) → spacingOK p one e (pre ++ xs) = true
  | [], xs, _, _, h => by simpa using h rfl
  | [a], xs, _, h, _ => by simpa using h a rfl
  | a :: b :: rest, xs, h1, h2, _ => by
    simp only [spacingOK, Bool.and_eq_true, decide_eq_true_eq] at h1
    have ih := spacing_append p one e (b :: rest) xs h1.2
      (fun l hl => h2 l (by rw [List.getLast?_cons_cons]; exact hl)) (fun h => by cases h)
    simp only [List.cons_append, spacingOK, Bool.and_eq_true, decide_eq_true_eq]
    exact ⟨h1.1, by simpa using ih⟩

theorem lb_hist_bound (c : LBCfg) (s : LB) (hist : List Nat) (now : Nat) (h : LBHist c s hist now)
    (ops : List Op) : spacingOK c.p c.one 0 (hist ++ (lbPolicy c).admitted s ops) = true := by
  obtain ⟨h1, h2⟩ := h
  obtain ⟨a, b⟩ := lb_spacing c ops s
  refine spacing_append _ _ _ hist _ h1 (fun l hl => a l (by rw [h2, hl])) (fun he => b (by rw [h2, he]; rfl))

theorem lb_hist_step (c : LBCfg) (s : LB) (hist : List Nat) (now : Nat) (o : Op) (h : LBHist c s hist now)
    (_ht : now ≤ o.time) :
    LBHist c ((lbPolicy c).step s o) (hist ++ (lbPolicy c).admitted s [o]) o.time := by
  refine ⟨lb_hist_bound c s hist now h [o], ?_⟩
  obtain ⟨_, h2⟩ := h
  cases o with
  | acq t =>
    cases hl : s.last with
    | none =>
      have e : LB.acquire c s t = (⟨some t⟩, true) := by simp [LB.acquire, hl]
      simp [Policy.step, Policy.admitted, lbPolicy, e]
    | some l =>
      by_cases hq : l ≤ t ∧ c.one ≤ c.p * (t - l)
      · have e : LB.acquire c s t = (⟨some t⟩, true) := by simp [LB.acquire, hl, hq]
        simp [Policy.step, Policy.admitted, lbPolicy, e]
      · have e : LB.acquire c s t = (s, false) := by simp only [LB.acquire, hl, hq, if_false]
        simpa [Policy.step, Policy.admitted, lbPolicy, e] using h2
  | tua t => simpa [Policy.step, Policy.admitted, lbPolicy, LB.tua] using h2
  | succ t => simpa [Policy.step, Policy.admitted] using h2
  | fail t => simpa [Policy.step, Policy.admitted] using h2

/-! ### sliding window -/

/-- `hist` = entries already pruned (all expired before `now`) followed by the log; it satisfies the bound -/
def SWHist (c : WCfg) (s : SW) (hist : List Nat) (now : Nat) : Prop :=
  ∃ dropped, hist = dropped ++ s.log ∧ (∀ e ∈ dropped, e + c.W < now) ∧
    ∀ a, cnt a (a + c.W) hist ≤ c.N

theorem sw_hist_bound (c : WCfg) (s : SW) (hist : List Nat) (now : Nat) (h : SWHist c s hist now)
    (ops : List Op) (hm : MonoOps now ops) (a : Nat) :
    cnt a (a + c.W) (hist ++ (swPolicy c).admitted s ops) ≤ c.N := by
  obtain ⟨d, e, hd, hc⟩ := h
  subst e
  exact sw_main c ops s d now hm hd hc a

theorem sw_hist_step (c : WCfg) (s : SW) (hist : List Nat) (now : Nat) (o : Op) (h : SWHist c s hist now)
    (ht : now ≤ o.time) :
    SWHist c ((swPolicy c).step s o) (hist ++ (swPolicy c).admitted s [o]) o.time := by
  have hb := sw_hist_bound c s hist now h [o] ⟨ht, trivial⟩
  obtain ⟨d, e, hd, _⟩ := h
  subst e
  have pr : ∀ t, now ≤ t →
      (d ++ s.log.takeWhile (fun e => decide (e + c.W < t))) ++ (s.prune c t).log = d ++ s.log ∧
      (∀ e ∈ d ++ s.log.takeWhile (fun e => decide (e + c.W < t)), e + c.W < t) := by
    intro t ht
    constructor
    · simp only [SW.prune, List.append_assoc, List.takeWhile_append_dropWhile]
    · intro e he
      rcases List.mem_append.mp he with h | h
      · have := hd e h; omega
      · simpa using takeWhile_all _ _ e h
  cases o with
  | acq t =>
    simp only [Op.time] at ht ⊢
    obtain ⟨p1, p2⟩ := pr t ht
    refine ⟨d ++ s.log.takeWhile (fun e => decide (e + c.W < t)), ?_, p2, hb⟩
    simp only [Policy.step, Policy.admitted, swPolicy, SW.acquire]
    split
    · simp only [if_true]; rw [← List.append_assoc, p1]
    · simp only [Bool.false_eq_true, if_false, List.append_nil]; rw [p1]
  | tua t =>
    simp only [Op.time] at ht ⊢
    obtain ⟨p1, p2⟩ := pr t ht
    refine ⟨d ++ s.log.takeWhile (fun e => decide (e + c.W < t)), ?_, p2, hb⟩
    simp only [Policy.step, Policy.admitted, swPolicy, List.append_nil]
    rw [SW.tua_fst, p1]
  | succ t =>
    simp only [Op.time] at ht ⊢
    exact ⟨d, by simp [Policy.step, Policy.admitted], fun e he => by have := hd e he; omega, hb⟩
  | fail t =>
    simp only [Op.time] at ht ⊢
    exact ⟨d, by simp [Policy.step, Policy.admitted], fun e he => by have := hd e he; omega, hb⟩

/-! ### fixed window -/

def FWHist (c : WCfg) (s : FW) (hist : List Nat) (now : Nat) : Prop :=
  FInv c s hist now ∧ ∀ k, cntWin c.W k hist ≤ c.N

theorem fw_hist_bound (c : WCfg) (hW : 0 < c.W) (s : FW) (hist : List Nat) (now : Nat) (h : FWHist c s hist now)
    (ops : List Op) (hm : MonoOps now ops) :
    (∀ k, cntWin c.W k (hist ++ (fwPolicy c).admitted s ops) ≤ c.N) ∧
    (∀ a, cnt a (a + c.W) (hist ++ (fwPolicy c).admitted s ops) ≤ 2 * c.N) := by
  have h1 := fw_main c hW ops s hist now hm h.1 h.2
  refine ⟨h1, fun a => ?_⟩
  have := cnt_le_two_windows c.W hW a (hist ++ (fwPolicy c).admitted s ops)
  have := h1 (a / c.W); have := h1 (a / c.W + 1)
  omega

theorem fw_hist_step (c : WCfg) (hW : 0 < c.W) (s : FW) (hist : List Nat) (now : Nat) (o : Op)
    (h : FWHist c s hist now) (ht : now ≤ o.time) :
    FWHist c ((fwPolicy c).step s o) (hist ++ (fwPolicy c).admitted s [o]) o.time := by
  refine ⟨?_, (fw_hist_bound c hW s hist now h [o] ⟨ht, trivial⟩).1⟩
  obtain ⟨hi, _⟩ := h
  have stay : ∀ t, now ≤ t → FInv c (s.reset c t) hist t := by
    intro t ht
    obtain ⟨r1, r2, r3, r4⟩ := FW.reset_spec c hW s hist now t hi ht
    refine ⟨fun h => (by rw [r1] at h; cases h), ?_⟩
    intro w hw
    rw [r1] at hw; cases hw
    exact ⟨t / c.W, rfl, Nat.div_mul_le_self _ _, r2, r3, r4⟩
  cases o with
  | acq t =>
    simp only [Op.time] at ht ⊢
    obtain ⟨r1, r2, r3, r4⟩ := FW.reset_spec c hW s hist now t hi ht
    simp only [Policy.step, Policy.admitted, fwPolicy, FW.acquire]
    by_cases hq : (s.reset c t).cnt < c.N
    · simp only [hq, if_true]
      refine ⟨fun h => (by simp only [r1] at h; cases h), ?_⟩
      intro w hw
      simp only [r1] at hw; cases hw
      refine ⟨t / c.W, rfl, Nat.div_mul_le_self _ _, ?_, ?_, by simp only []; omega⟩
      · intro e he
        rcases List.mem_append.mp he with h | h
        · exact r2 e h
        · simp at h; subst h; exact Nat.le_refl _
      · rw [cntWin_append, cntWin_single]; simp only [if_true]; omega
    · simp only [hq, if_false, Bool.false_eq_true, List.append_nil]
      exact stay t ht
  | tua t =>
    simp only [Op.time] at ht ⊢
    simp only [Policy.step, Policy.admitted, fwPolicy, FW.tua, List.append_nil]
    exact stay t ht
  | succ t =>
    simp only [Op.time] at ht ⊢
    simp only [Policy.step, Policy.admitted, List.append_nil]
    refine ⟨hi.1, ?_⟩
    intro w hw; obtain ⟨k0, a1, a2, a3⟩ := hi.2 w hw; exact ⟨k0, a1, by omega, a3⟩
  | fail t =>
    simp only [Op.time] at ht ⊢
    simp only [Policy.step, Policy.admitted, List.append_nil]
    refine ⟨hi.1, ?_⟩
    intro w hw; obtain ⟨k0, a1, a2, a3⟩ := hi.2 w hw; exact ⟨k0, a1, by omega, a3⟩

end HappyModel.C10
