import HappyProofs.C10.TuaSpec
/-! `blocksOK` for the adaptive bucket: a returned wait is honoured up to the next rate change. -/
namespace HappyModel.C10

/-- what a caller of the adaptive policy observes (`fb` = feedback, with `current_rate` afterwards) -/
def AD.obs (c : ADCfg) : AD → List Op → List Obs
  | _, [] => []
  | s, .acq t :: os => .acq t (s.acquire c t).2 :: AD.obs c (s.acquire c t).1 os
  | s, .tua t :: os => .tua t (s.tua c t).2 :: AD.obs c (s.tua c t).1 os
  | s, .succ t :: os => .fb t (s.success c).p :: AD.obs c (s.success c) os
  | s, .fail t :: os => .fb t (s.failure c).p :: AD.obs c (s.failure c) os

theorem ad_noEarly_of_ge (c : ADCfg) (L : Nat) : ∀ (os : List Op) (s : AD) (now : Nat), L ≤ now → MonoOps now os →
    noEarly L (AD.obs c s os) = true := by
  intro os
  induction os with
  | nil => intro s now _ _; rfl
  | cons o os ih =>
    intro s now hl hm
    obtain ⟨hm1, hm2⟩ := hm
    cases o with
    | acq t =>
      simp only [Op.time] at hm1 hm2
      simp only [AD.obs, noEarly, Bool.and_eq_true, Bool.or_eq_true, decide_eq_true_eq]
      exact ⟨Or.inl (by omega), ih _ t (by omega) hm2⟩
    | tua t =>
      simp only [Op.time] at hm1 hm2
      simp only [AD.obs, noEarly]
      exact ih _ t (by omega) hm2
    | succ t => rfl
    | fail t => rfl

theorem ad_noEarly (c : ADCfg) (L : Nat) : ∀ (os : List Op) (s : AD) (now : Nat), AD.Blocked c L s now →
    MonoOps now os → noEarly L (AD.obs c s os) = true := by
  intro os
  induction os with
  | nil => intro s now _ _; rfl
  | cons o os ih =>
    intro s now hb hm
    obtain ⟨hm1, hm2⟩ := hm
    cases o with
    | acq t =>
      simp only [Op.time] at hm1 hm2
      by_cases hl : t < L
      · obtain ⟨a, b⟩ := AD.blocked_refill c L s now t hb hm1 hl
        have hno : ¬ c.one ≤ (s.refill c t).tok := by omega
        have e : s.acquire c t = (s.refill c t, false) := by simp only [AD.acquire, hno, if_false]
        simp only [AD.obs, noEarly, e, Bool.not_false, Bool.or_true, Bool.true_and]
        exact ih _ t b hm2
      · exact ad_noEarly_of_ge c L (.acq t :: os) s t (by omega) ⟨Nat.le_refl _, hm2⟩
    | tua t =>
      simp only [Op.time] at hm1 hm2
      by_cases hl : t < L
      · simp only [AD.obs, noEarly]
        rw [AD.tua_fst]
        exact ih _ t (AD.blocked_refill c L s now t hb hm1 hl).2 hm2
      · exact ad_noEarly_of_ge c L (.tua t :: os) s t (by omega) ⟨Nat.le_refl _, hm2⟩
    | succ t => rfl
    | fail t => rfl

/-- after `time_until_available(t) = w` nothing is admitted before `t + w`, up to the next feedback -/
theorem ad_tua_noEarly (c : ADCfg) (s : AD) (t : Nat) (os : List Op) (hp : 0 < s.p)
    (hm : ∀ l, s.last = some l → l ≤ t) (hmo : MonoOps t os) :
    noEarly (t + (AD.tua c s t).2) (AD.obs c (AD.tua c s t).1 os) = true := by
  by_cases hw : (AD.tua c s t).2 = 0
  · rw [hw]; exact ad_noEarly_of_ge c _ os _ t (Nat.le_refl _) hmo
  · obtain ⟨r1, rp, _⟩ := AD.refill_le c s t hm
    refine ad_noEarly c _ os _ t ?_ hmo
    rw [AD.tua_fst]
    refine ⟨t, r1, Nat.le_refl _, ?_⟩
    intro t' ht' hL
    unfold AD.tua at hL hw
    by_cases h : c.one ≤ (s.refill c t).tok
    · simp only [h, if_true] at hw; exact absurd trivial hw
    · simp only [h, if_false] at hL
      have := before_wait (c.one - (s.refill c t).tok) s.p (t' - t) hp (by omega) (by omega)
      rw [rp]
      omega

theorem ad_blocks_spec (c : ADCfg) (hc : ADOk c) (hmin : 0 < c.pmin) : ∀ (ops : List Op) (s : AD) (now : Nat),
    s.InRange c → (∀ l, s.last = some l → l ≤ now) → MonoOps now ops → blocksOK (AD.obs c s ops) = true := by
  intro ops
  induction ops with
  | nil => intro s now _ _ _; rfl
  | cons o os ih =>
    intro s now hr hs hm
    obtain ⟨hm1, hm2⟩ := hm
    have hr' := AD.step_range c hc s o hr
    have hs' : ∀ l, s.last = some l → l ≤ o.time := fun l hl => Nat.le_trans (hs l hl) hm1
    cases o with
    | acq t =>
      simp only [Op.time] at hm1 hm2 hs'
      simp only [AD.obs, blocksOK]
      refine ih _ t hr' ?_ hm2
      obtain ⟨r1, _, _⟩ := AD.refill_le c s t hs'
      intro l hl
      simp only [AD.acquire] at hl
      split at hl <;> (simp only [r1] at hl; cases hl; exact Nat.le_refl _)
    | tua t =>
      simp only [Op.time] at hm1 hm2 hs'
      simp only [AD.obs, blocksOK, Bool.and_eq_true]
      refine ⟨ad_tua_noEarly c s t os (by have := hr.1; omega) hs' hm2, ih _ t hr' ?_ hm2⟩
      obtain ⟨r1, _, _⟩ := AD.refill_le c s t hs'
      intro l hl
      rw [AD.tua_fst, r1] at hl; cases hl; exact Nat.le_refl _
    | succ t =>
      simp only [Op.time] at hm1 hm2 hs'
      simp only [AD.obs, blocksOK]
      exact ih _ t hr' hs' hm2
    | fail t =>
      simp only [Op.time] at hm1 hm2 hs'
      simp only [AD.obs, blocksOK]
      exact ih _ t hr' hs' hm2

end HappyModel.C10
