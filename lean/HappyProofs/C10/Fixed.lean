import HappyProofs.C10.Windows
/-! Fixed window: ≤ N per aligned window; ≤ 2N in any window-length interval. -/
namespace HappyModel.C10

/-- `pre` = admitted so far.  All of it lies in windows up to the current one, whose counter
    dominates the number admitted in it. -/
def FInv (c : WCfg) (s : FW) (pre : List Nat) (now : Nat) : Prop :=
  (s.cur = none → pre = []) ∧
  (∀ w, s.cur = some w → ∃ k0, w = k0 * c.W ∧ w ≤ now ∧ (∀ e ∈ pre, e / c.W ≤ k0) ∧
    cntWin c.W k0 pre ≤ s.cnt ∧ s.cnt ≤ c.N)

theorem cntWin_zero_of_lt (W k : Nat) (pre : List Nat) (k0 : Nat) (h : ∀ e ∈ pre, e / W ≤ k0)
    (hk : k0 < k) : cntWin W k pre = 0 := by
  simp only [cntWin, List.length_eq_zero_iff, List.filter_eq_nil_iff, decide_eq_true_eq]
  intro e he; have := h e he; omega

theorem cntWin_single (W k t : Nat) : cntWin W k [t] = if t / W = k then 1 else 0 := by
  simp only [cntWin, List.filter_cons]
  split <;> simp_all

theorem FW.reset_spec (c : WCfg) (hW : 0 < c.W) (s : FW) (pre : List Nat) (now t : Nat)
    (hi : FInv c s pre now) (ht : now ≤ t) :
    (s.reset c t).cur = some (t / c.W * c.W) ∧ (∀ e ∈ pre, e / c.W ≤ t / c.W) ∧
    cntWin c.W (t / c.W) pre ≤ (s.reset c t).cnt ∧ (s.reset c t).cnt ≤ c.N := by
  obtain ⟨h1, h2⟩ := hi
  unfold FW.reset
  cases hc : s.cur with
  | none =>
    have := h1 hc; subst this
    simp [cntWin]
  | some w =>
    obtain ⟨k0, e1, e2, e3, e4, e5⟩ := h2 w hc
    have hk0 : k0 ≤ t / c.W := by
      have : k0 * c.W / c.W ≤ t / c.W := Nat.div_le_div_right (by omega)
      rwa [Nat.mul_div_cancel _ hW] at this
    by_cases hlt : w < t / c.W * c.W
    · simp only [hlt, if_true]
      have hk : k0 < t / c.W := by
        rw [e1] at hlt; exact Nat.lt_of_mul_lt_mul_right hlt
      refine ⟨trivial, fun e he => Nat.le_trans (e3 e he) hk0, ?_, Nat.zero_le _⟩
      rw [cntWin_zero_of_lt c.W _ pre k0 e3 hk]; exact Nat.le_refl _
    · simp only [hlt, if_false]
      have hge : t / c.W ≤ k0 := by
        rw [e1] at hlt
        exact Nat.le_of_mul_le_mul_right (Nat.le_of_not_lt hlt) hW
      have heq : k0 = t / c.W := by omega
      subst heq
      exact ⟨by rw [hc, e1], e3, e4, e5⟩

theorem fw_admitted_acq (c : WCfg) (s : FW) (t : Nat) (os : List Op) :
    (fwPolicy c).admitted s (.acq t :: os) =
      if (s.reset c t).cnt < c.N then
        t :: (fwPolicy c).admitted ⟨(s.reset c t).cur, (s.reset c t).cnt + 1⟩ os
      else (fwPolicy c).admitted (s.reset c t) os := by
  simp only [Policy.admitted, fwPolicy, FW.acquire]
  split <;> simp_all

theorem fw_main (c : WCfg) (hW : 0 < c.W) : ∀ (ops : List Op) (s : FW) (pre : List Nat) (now : Nat),
    MonoOps now ops → FInv c s pre now → (∀ k, cntWin c.W k pre ≤ c.N) →
    ∀ k, cntWin c.W k (pre ++ (fwPolicy c).admitted s ops) ≤ c.N := by
  intro ops
  induction ops with
  | nil => intro s pre now _ _ h k; simpa [Policy.admitted] using h k
  | cons o os ih =>
    intro s pre now hm hi hc
    obtain ⟨hm1, hm2⟩ := hm
    have stay : ∀ t, now ≤ t → FInv c (s.reset c t) pre t := by
      intro t ht
      obtain ⟨r1, r2, r3, r4⟩ := FW.reset_spec c hW s pre now t hi ht
      refine ⟨fun h => (by rw [r1] at h; cases h), ?_⟩
      intro w hw
      rw [r1] at hw; cases hw
      exact ⟨t / c.W, rfl, Nat.div_mul_le_self _ _, r2, r3, r4⟩
    cases o with
    | acq t =>
      simp only [Op.time] at hm1 hm2
      obtain ⟨r1, r2, r3, r4⟩ := FW.reset_spec c hW s pre now t hi hm1
      rw [fw_admitted_acq]
      by_cases hq : (s.reset c t).cnt < c.N
      · rw [if_pos hq]
        intro k
        have e : pre ++ t :: (fwPolicy c).admitted ⟨(s.reset c t).cur, (s.reset c t).cnt + 1⟩ os =
            (pre ++ [t]) ++ (fwPolicy c).admitted ⟨(s.reset c t).cur, (s.reset c t).cnt + 1⟩ os := by simp
        rw [e]
        refine ih _ (pre ++ [t]) t hm2 ?_ ?_ k
        · refine ⟨fun h => (by simp only [r1] at h; cases h), ?_⟩
          intro w hw
          simp only [r1] at hw; cases hw
          refine ⟨t / c.W, rfl, Nat.div_mul_le_self _ _, ?_, ?_, by simp only []; omega⟩
          · intro e he
            rcases List.mem_append.mp he with h | h
            · exact r2 e h
            · simp at h; subst h; exact Nat.le_refl _
          · rw [cntWin_append, cntWin_single]; simp only [if_true]; omega
        · intro k'
          rw [cntWin_append, cntWin_single]
          have := hc k'
          split
          · rename_i hk; subst hk; omega
          · omega
      · rw [if_neg hq]
        exact ih _ pre t hm2 (stay t hm1) hc
    | tua t =>
      simp only [Op.time] at hm1 hm2
      simp only [Policy.admitted, fwPolicy, FW.tua]
      exact ih _ pre t hm2 (stay t hm1) hc
    | succ t =>
      simp only [Op.time] at hm1 hm2
      simp only [Policy.admitted]
      refine ih s pre t hm2 ⟨hi.1, ?_⟩ hc
      intro w hw; obtain ⟨k0, a1, a2, a3⟩ := hi.2 w hw; exact ⟨k0, a1, by omega, a3⟩
    | fail t =>
      simp only [Op.time] at hm1 hm2
      simp only [Policy.admitted]
      refine ih s pre t hm2 ⟨hi.1, ?_⟩ hc
      intro w hw; obtain ⟨k0, a1, a2, a3⟩ := hi.2 w hw; exact ⟨k0, a1, by omega, a3⟩

/-- a closed interval of one window length meets at most two aligned windows -/
theorem cnt_le_two_windows (W : Nat) (hW : 0 < W) (a : Nat) (ts : List Nat) :
    cnt a (a + W) ts ≤ cntWin W (a / W) ts + cntWin W (a / W + 1) ts := by
  unfold cnt cntWin
  apply filter_length_le_add
  intro x _ hx
  simp only [decide_eq_true_eq] at hx ⊢
  have h1 : a / W ≤ x / W := Nat.div_le_div_right hx.1
  have h2 : x / W ≤ (a + W) / W := Nat.div_le_div_right hx.2
  rw [Nat.add_div_right _ hW] at h2
  omega

end HappyModel.C10
