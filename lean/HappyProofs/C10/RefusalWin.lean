import HappyProofs.C10.EntityPoll
import HappyProofs.C10.TuaWin
/-! `RefusalWaits` for the two window policies: a refused acquire is answered with a positive wait. -/
namespace HappyModel.C10

theorem sw_refusalWaits (c : WCfg) (hN : 1 ≤ c.N) : RefusalWaits (swPolicy c) := by
  intro s t h
  simp only [swPolicy, SW.acquire] at h ⊢
  by_cases hq : (s.prune c t).log.length < c.N
  · simp [hq] at h
  · simp only [hq, if_false]
    unfold SW.tua
    rw [SW.prune_idem]
    simp only [hq, if_false]
    cases hl : (s.prune c t).log with
    | nil => simp [hl] at hq; omega
    | cons o rest =>
      simp only
      split <;> omega

theorem FW.reset_idem (c : WCfg) (s : FW) (t : Nat) : (s.reset c t).reset c t = s.reset c t := by
  cases hc : s.cur with
  | none => simp [FW.reset, hc]
  | some w =>
    by_cases h : w < t / c.W * c.W
    · have e : s.reset c t = ⟨some (t / c.W * c.W), 0⟩ := by simp [FW.reset, hc, h]
      rw [e]; simp [FW.reset]
    · have e : s.reset c t = s := by simp [FW.reset, hc, h]
      rw [e, e]

theorem fw_refusalWaits (c : WCfg) (hW : 0 < c.W) : RefusalWaits (fwPolicy c) := by
  intro s t h
  simp only [fwPolicy, FW.acquire] at h ⊢
  by_cases hq : (s.reset c t).cnt < c.N
  · simp [hq] at h
  · simp only [hq, if_false]
    simp only [FW.tua, FW.reset_idem, FW.wait, hq, if_false]
    have hlt : t < t / c.W * c.W + c.W := by
      have h1 : c.W * (t / c.W) + t % c.W = t := Nat.div_add_mod t c.W
      have h2 := Nat.mod_lt t hW
      rw [Nat.mul_comm] at h1
      omega
    cases hc : s.cur with
    | none =>
      simp only [FW.reset, hc]
      have : ¬ t / c.W * c.W + c.W ≤ t := by omega
      simp only [this, if_false]; omega
    | some w =>
      by_cases hr : w < t / c.W * c.W
      · simp only [FW.reset, hc, hr, if_true]
        have : ¬ t / c.W * c.W + c.W ≤ t := by omega
        simp only [this, if_false]; omega
      · simp only [FW.reset, hc, hr, if_false]
        have : ¬ w + c.W ≤ t := by omega
        simp only [this, if_false]; omega

end HappyModel.C10
