import HappyProofs.C10.Bucket
/-! `time_until_available`: zero ⇒ admitted now; positive ⇒ nothing admitted earlier; iterating the
    returned wait reaches zero within two positive waits (the 1 ns guard). Token and leaky bucket. -/
namespace HappyModel.C10

theorem waitOf_pos (d p : Nat) : 0 < waitOf d p := by
  unfold waitOf; split
  · exact Nat.one_pos
  · exact Nat.pos_of_ne_zero ‹_›

theorem waitOf_small (d p : Nat) (h : d / p = 0) : waitOf d p = 1 := by
  unfold waitOf; simp [h]

/-- `p * (d / p - 1) + p ≤ d` when the quotient is positive -/
theorem mul_pred_div (d p : Nat) (h : d / p ≠ 0) : p * (d / p - 1) + p ≤ d := by
  have := Nat.mul_div_le d p
  generalize d / p = q at *
  have h1 : p * (q - 1) + p = p * q := by
    rw [← Nat.mul_succ]; congr 1; omega
  omega

/-- strictly before the returned wait the deficit is not yet covered -/
theorem before_wait (d p x : Nat) (hp : 0 < p) (hd : 0 < d) (hx : x < waitOf d p) : p * x < d := by
  unfold waitOf at hx
  by_cases h : d / p = 0
  · simp only [h, if_true] at hx
    have : x = 0 := by omega
    subst this; simpa using hd
  · simp only [h, if_false] at hx
    have h1 : p * x ≤ p * (d / p - 1) := Nat.mul_le_mul_left _ (by omega)
    have := mul_pred_div d p h
    omega

/-- after the returned wait at most `p − 1` units are missing; they arrive within 1 ns -/
theorem after_wait (d p : Nat) (hp : 0 < p) : d < p * waitOf d p + p ∧ (d / p ≠ 0 → p * waitOf d p ≤ d) := by
  unfold waitOf
  have h1 := Nat.div_add_mod d p
  have h2 := Nat.mod_lt d hp
  by_cases h : d / p = 0
  · simp only [h, if_true]
    rw [h] at h1
    constructor
    · omega
    · intro hh; exact absurd rfl hh
  · simp only [h, if_false]
    exact ⟨by omega, fun _ => Nat.mul_div_le d p⟩

/-! ### token bucket -/

theorem TB.refill_same (c : TBCfg) (s : TB) (t : Nat) (h : s.last = some t) : s.refill c t = s := by
  unfold TB.refill; rw [h]; simp

theorem TB.refill_later (c : TBCfg) (s : TB) (l t : Nat) (h : s.last = some l) (hlt : l < t) :
    s.refill c t = ⟨min c.cap (s.tok + c.p * (t - l)), some t⟩ := by
  unfold TB.refill; rw [h]; simp; omega

theorem tb_tua_zero_admits (c : TBCfg) (s : TB) (t : Nat) (hm : ∀ l, s.last = some l → l ≤ t)
    (h0 : (TB.tua c s t).2 = 0) : (TB.acquire c (TB.tua c s t).1 t).2 = true := by
  have r1 := (TB.refill_spec c s t hm).1
  unfold TB.tua at h0 ⊢
  by_cases h : c.one ≤ (s.refill c t).tok
  · simp only [h, if_true]
    unfold TB.acquire
    rw [TB.refill_same c _ t r1]
    simp [h]
  · simp only [h, if_false] at h0
    have := waitOf_pos (c.one - (s.refill c t).tok) c.p
    omega

theorem tb_tua_positive_blocks (c : TBCfg) (s : TB) (t t' : Nat) (hp : 0 < c.p)
    (hm : ∀ l, s.last = some l → l ≤ t) (h1 : t ≤ t') (h2 : t' < t + (TB.tua c s t).2) :
    (TB.acquire c (TB.tua c s t).1 t').2 = false := by
  have r1 := (TB.refill_spec c s t hm).1
  unfold TB.tua at h2 ⊢
  by_cases h : c.one ≤ (s.refill c t).tok
  · simp only [h, if_true] at h2; omega
  · simp only [h, if_false] at h2 ⊢
    unfold TB.acquire
    by_cases he : t' = t
    · subst he
      rw [TB.refill_same c _ t' r1]; simp [h]
    · rw [TB.refill_later c _ t t' r1 (by omega)]
      have hb := before_wait (c.one - (s.refill c t).tok) c.p (t' - t) hp (by omega) (by omega)
      have : min c.cap ((s.refill c t).tok + c.p * (t' - t)) < c.one := by
        have := Nat.min_le_right c.cap ((s.refill c t).tok + c.p * (t' - t)); omega
      simp only []
      rw [if_neg (by omega)]

theorem tb_tua_reaches_admission (c : TBCfg) (s : TB) (t : Nat) (hp : 0 < c.p) (hcap : c.one ≤ c.cap)
    (hm : ∀ l, s.last = some l → l ≤ t) :
    (TB.tua c s t).2 = 0 ∨
    (TB.tua c (TB.tua c s t).1 (t + (TB.tua c s t).2)).2 = 0 ∨
    (TB.tua c (TB.tua c (TB.tua c s t).1 (t + (TB.tua c s t).2)).1
        (t + (TB.tua c s t).2 + (TB.tua c (TB.tua c s t).1 (t + (TB.tua c s t).2)).2)).2 = 0 := by
  have r1 := (TB.refill_spec c s t hm).1
  by_cases h : c.one ≤ (s.refill c t).tok
  · left; unfold TB.tua; simp [h]
  · right
    have e1 : TB.tua c s t = (s.refill c t, waitOf (c.one - (s.refill c t).tok) c.p) := by
      unfold TB.tua; simp [h]
    rw [e1]; simp only []
    generalize hr : s.refill c t = r at *
    generalize hd : c.one - r.tok = d at *
    have hw := waitOf_pos d c.p
    obtain ⟨a1, a2⟩ := after_wait d c.p hp
    have e2 : r.refill c (t + waitOf d c.p) = ⟨min c.cap (r.tok + c.p * waitOf d c.p), some (t + waitOf d c.p)⟩ := by
      rw [TB.refill_later c r t _ r1 (by omega), Nat.add_sub_cancel_left]
    by_cases h' : c.one ≤ min c.cap (r.tok + c.p * waitOf d c.p)
    · left; unfold TB.tua; rw [e2]; simp [h']
    · right
      have hlt : r.tok + c.p * waitOf d c.p < c.one := by
        rcases Nat.lt_or_ge (r.tok + c.p * waitOf d c.p) c.one with x | x
        · exact x
        · exact absurd (Nat.le_min.mpr ⟨hcap, x⟩) h'
      have hmin : min c.cap (r.tok + c.p * waitOf d c.p) = r.tok + c.p * waitOf d c.p :=
        Nat.min_eq_right (by omega)
      have e3 : TB.tua c r (t + waitOf d c.p) =
          (⟨r.tok + c.p * waitOf d c.p, some (t + waitOf d c.p)⟩,
            waitOf (c.one - (r.tok + c.p * waitOf d c.p)) c.p) := by
        unfold TB.tua; rw [e2, hmin]; simp; omega
      rw [e3]; simp only []
      -- fewer than p units are missing, so the next wait is the 1 ns guard and it suffices
      have hsmall : (c.one - (r.tok + c.p * waitOf d c.p)) / c.p = 0 :=
        Nat.div_eq_of_lt (by omega)
      have hw2 : waitOf (c.one - (r.tok + c.p * waitOf d c.p)) c.p = 1 := waitOf_small _ _ hsmall
      rw [hw2]
      unfold TB.tua
      rw [TB.refill_later c _ (t + waitOf d c.p) _ rfl (by omega)]
      have : c.one ≤ min c.cap (r.tok + c.p * waitOf d c.p + c.p) :=
        Nat.le_min.mpr ⟨hcap, by omega⟩
      simp [this]

/-! ### leaky bucket -/

theorem lb_tua_zero_admits (c : LBCfg) (s : LB) (t : Nat)
    (h0 : (LB.tua c s t).2 = 0) : (LB.acquire c (LB.tua c s t).1 t).2 = true := by
  unfold LB.tua LB.wait at h0
  unfold LB.tua LB.acquire
  simp only [] at h0 ⊢
  cases hl : s.last with
  | none => simp
  | some l =>
    simp only [hl] at h0 ⊢
    by_cases h1 : l ≤ t
    · simp only [h1, if_true] at h0
      by_cases h2 : c.one ≤ c.p * (t - l)
      · simp [h1, h2]
      · simp only [h2, if_false] at h0
        have := waitOf_pos (c.one - c.p * (t - l)) c.p; omega
    · simp only [h1, if_false] at h0
      have := waitOf_pos (c.one + c.p * (l - t)) c.p; omega

theorem lb_tua_positive_blocks (c : LBCfg) (s : LB) (t t' : Nat) (hp : 0 < c.p)
    (hm : ∀ l, s.last = some l → l ≤ t) (h1 : t ≤ t') (h2 : t' < t + (LB.tua c s t).2) :
    (LB.acquire c (LB.tua c s t).1 t').2 = false := by
  unfold LB.tua LB.wait at h2
  unfold LB.tua LB.acquire
  simp only [] at h2 ⊢
  cases hl : s.last with
  | none => simp only [hl] at h2; omega
  | some l =>
    have hlt := hm l hl
    simp only [hl, hlt, if_true] at h2 ⊢
    by_cases h3 : c.one ≤ c.p * (t - l)
    · simp only [h3, if_true] at h2; omega
    · simp only [h3, if_false] at h2
      have hb := before_wait (c.one - c.p * (t - l)) c.p (t' - t) hp (by omega) (by omega)
      have hs := mul_sub_split c.p l t t' hlt h1
      rw [if_neg (by omega)]

theorem lb_tua_reaches_admission (c : LBCfg) (s : LB) (t : Nat) (hp : 0 < c.p)
    (hm : ∀ l, s.last = some l → l ≤ t) :
    (LB.tua c s t).2 = 0 ∨ (LB.tua c s (t + (LB.tua c s t).2)).2 = 0 ∨
    (LB.tua c s (t + (LB.tua c s t).2 + (LB.tua c s (t + (LB.tua c s t).2)).2)).2 = 0 := by
  unfold LB.tua
  simp only []
  cases hl : s.last with
  | none => left; simp [LB.wait, hl]
  | some l =>
    have hlt := hm l hl
    by_cases h3 : c.one ≤ c.p * (t - l)
    · left; simp [LB.wait, hl, hlt, h3]
    · right
      have e1 : s.wait c t = waitOf (c.one - c.p * (t - l)) c.p := by simp [LB.wait, hl, hlt, h3]
      rw [e1]
      generalize hd : c.one - c.p * (t - l) = d
      have hw := waitOf_pos d c.p
      obtain ⟨a1, a2⟩ := after_wait d c.p hp
      have s1 : c.p * (t + waitOf d c.p - l) = c.p * (t - l) + c.p * waitOf d c.p := by
        rw [← Nat.mul_add]; congr 1; omega
      by_cases h4 : c.one ≤ c.p * (t + waitOf d c.p - l)
      · left; simp [LB.wait, hl, h4]; omega
      · right
        have e2 : s.wait c (t + waitOf d c.p) = 1 := by
          have hle : l ≤ t + waitOf d c.p := by omega
          simp only [LB.wait, hl, hle, if_true, h4, if_false]
          exact waitOf_small _ _ (Nat.div_eq_of_lt (by omega))
        rw [e2]
        have s2 : c.p * (t + waitOf d c.p + 1 - l) = c.p * (t - l) + c.p * waitOf d c.p + c.p := by
          have : t + waitOf d c.p + 1 - l = (t - l) + waitOf d c.p + 1 := by omega
          rw [this, Nat.mul_add, Nat.mul_add, Nat.mul_one]
        have hle : l ≤ t + waitOf d c.p + 1 := by omega
        have : c.one ≤ c.p * (t + waitOf d c.p + 1 - l) := by omega
        simp [LB.wait, hl, hle, this]

end HappyModel.C10
