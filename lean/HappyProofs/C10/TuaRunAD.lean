import HappyProofs.C10.TuaRun
/-! `time_until_available` over whole runs, adaptive bucket (between two rate changes). -/
namespace HappyModel.C10

/-- only `try_acquire` / `time_until_available` calls: no `record_success` / `record_failure` -/
def NoFeedback (ops : List Op) : Prop := ∀ o ∈ ops, (∃ t, o = .acq t) ∨ (∃ t, o = .tua t)

theorem ad_admitted_eq (c : ADCfg) : ∀ (ops : List Op) (s : AD), NoFeedback ops →
    AD.admitted c s ops = (adPolicy c).admitted s ops := by
  intro ops
  induction ops with
  | nil => intro s _; rfl
  | cons o os ih =>
    intro s hn
    have hn' : NoFeedback os := fun o' ho' => hn o' (List.mem_cons_of_mem _ ho')
    cases o with
    | acq t => simp only [AD.admitted, Policy.admitted, adPolicy]; rw [ih _ hn']; rfl
    | tua t => simp only [AD.admitted, Policy.admitted, adPolicy, AD.step]; rw [ih _ hn']; rfl
    | succ t => rcases hn (.succ t) (List.mem_cons_self) with ⟨_, h⟩ | ⟨_, h⟩ <;> cases h
    | fail t => rcases hn (.fail t) (List.mem_cons_self) with ⟨_, h⟩ | ⟨_, h⟩ <;> cases h

theorem AD.refill_le (c : ADCfg) (s : AD) (t : Nat) (h : ∀ l, s.last = some l → l ≤ t) :
    (s.refill c t).last = some t ∧ (s.refill c t).p = s.p ∧
    (∀ l, s.last = some l → (s.refill c t).tok ≤ s.tok + s.p * (t - l)) := by
  unfold AD.refill
  cases hl : s.last with
  | none => simp
  | some l =>
    have hlt := h l hl
    by_cases h2 : t ≤ l
    · have : t = l := by omega
      subst this
      simp [hl]
    · simp only [h2, if_false]
      refine ⟨trivial, trivial, ?_⟩
      intro l' hl'; cases hl'
      exact Nat.min_le_right _ _

def AD.Blocked (c : ADCfg) (L : Nat) (s : AD) (now : Nat) : Prop :=
  ∃ l, s.last = some l ∧ l ≤ now ∧ ∀ t', l ≤ t' → t' < L → s.tok + s.p * (t' - l) < c.one

theorem AD.tua_fst (c : ADCfg) (s : AD) (t : Nat) : (AD.tua c s t).1 = s.refill c t := by
  unfold AD.tua; split <;> rfl

theorem AD.blocked_refill (c : ADCfg) (L : Nat) (s : AD) (now t : Nat) (hb : AD.Blocked c L s now)
    (h1 : now ≤ t) (h2 : t < L) : (s.refill c t).tok < c.one ∧ AD.Blocked c L (s.refill c t) t := by
  obtain ⟨l, hl, hln, hall⟩ := hb
  obtain ⟨r1, rp, r2⟩ := AD.refill_le c s t (by intro l' hl'; rw [hl] at hl'; cases hl'; omega)
  have r := r2 l hl
  have hnow := hall t (by omega) h2
  refine ⟨by omega, t, r1, Nat.le_refl _, ?_⟩
  intro t' ht' hL
  have := hall t' (by omega) hL
  have := mul_sub_split s.p l t t' (by omega) ht'
  rw [rp]
  omega

theorem ad_tua_blocks_run (c : ADCfg) (s : AD) (t : Nat) (ops : List Op) (hp : 0 < s.p)
    (hm : ∀ l, s.last = some l → l ≤ t) (hmo : MonoOps t ops) (hnf : NoFeedback ops) :
    ∀ x ∈ AD.admitted c (AD.tua c s t).1 ops, t + (AD.tua c s t).2 ≤ x := by
  rw [ad_admitted_eq c ops _ hnf]
  by_cases hw : (AD.tua c s t).2 = 0
  · intro x hx; rw [hw]; exact admitted_ge _ ops _ t hmo x hx
  · obtain ⟨r1, rp, _⟩ := AD.refill_le c s t hm
    have hb : AD.Blocked c (t + (AD.tua c s t).2) (AD.tua c s t).1 t := by
      rw [AD.tua_fst]
      refine ⟨t, r1, Nat.le_refl _, ?_⟩
      intro t' ht' hL
      unfold AD.tua at hL hw
      by_cases h : c.one ≤ (s.refill c t).tok
      · simp only [h, if_true] at hw; exact absurd trivial hw
      · simp only [h, if_false] at hL
        have := before_wait (c.one - (s.refill c t).tok) s.p (t' - t) hp (by omega) (by omega)
        rw [rp]
        omega
    refine blocked_run (adPolicy c) (AD.Blocked c _) _ ?_ ?_ ops _ t hb hmo
    · intro s' now t' hb' h1 h2
      obtain ⟨a, b⟩ := AD.blocked_refill c _ s' now t' hb' h1 h2
      have : ¬ c.one ≤ (s'.refill c t').tok := by omega
      simp only [adPolicy, AD.acquire, this, if_false]
      exact ⟨trivial, b⟩
    · intro s' now t' hb' h1 h2
      simp only [adPolicy]; rw [AD.tua_fst]
      exact (AD.blocked_refill c _ s' now t' hb' h1 h2).2

end HappyModel.C10
