import HappyProofs.C10.TuaSpecAD
import HappyProofs.C10.Adaptive
/-!
Adaptive bucket: the wait returned by `time_until_available` is honoured **through feedback**, as long as
the rate is not raised before the wait has elapsed.  A `record_failure` (rate down, bucket clamped) or a
`record_success` that leaves the rate where it is only makes the bucket poorer; only a rate *increase*
before `t + w` can admit earlier (decided counter-example in `PropsRun.lean`).
-/
namespace HappyModel.C10

/-- no operation before `L` raises the rate -/
def AD.NoRaiseBefore (c : ADCfg) (L : Nat) : AD → List Op → Prop
  | _, [] => True
  | s, o :: os => (o.time < L → (s.step c o).p ≤ s.p) ∧ AD.NoRaiseBefore c L (s.step c o) os

theorem ad_admitted_ge (c : ADCfg) : ∀ (ops : List Op) (s : AD) (now : Nat), MonoOps now ops →
    ∀ x ∈ AD.admitted c s ops, now ≤ x := by
  intro ops
  induction ops with
  | nil => intro s now _ x hx; simp [AD.admitted] at hx
  | cons o os ih =>
    intro s now hm x hx
    obtain ⟨hm1, hm2⟩ := hm
    cases o with
    | acq t =>
      simp only [Op.time] at hm1 hm2
      simp only [AD.admitted] at hx
      split at hx
      · rcases List.mem_cons.mp hx with h | h
        · omega
        · have := ih _ t hm2 x h; omega
      · have := ih _ t hm2 x hx; omega
    | tua t =>
      simp only [Op.time] at hm1 hm2
      simp only [AD.admitted] at hx
      have := ih _ t hm2 x hx; omega
    | succ t =>
      simp only [Op.time] at hm1 hm2
      simp only [AD.admitted] at hx
      have := ih _ t hm2 x hx; omega
    | fail t =>
      simp only [Op.time] at hm1 hm2
      simp only [AD.admitted] at hx
      have := ih _ t hm2 x hx; omega

/-- feedback that does not raise the rate keeps a blocked bucket blocked -/
theorem AD.blocked_feedback (c : ADCfg) (L : Nat) (s s' : AD) (now now' : Nat) (hb : AD.Blocked c L s now)
    (hn : now ≤ now') (hp : s'.p ≤ s.p) (ht : s'.tok ≤ s.tok) (hl : s'.last = s.last) :
    AD.Blocked c L s' now' := by
  obtain ⟨l, h1, h2, h3⟩ := hb
  refine ⟨l, by rw [hl]; exact h1, by omega, ?_⟩
  intro t' a b
  have := h3 t' a b
  have : s'.p * (t' - l) ≤ s.p * (t' - l) := Nat.mul_le_mul_right _ hp
  omega

theorem ad_blocked_run_mono (c : ADCfg) (L : Nat) : ∀ (ops : List Op) (s : AD) (now : Nat),
    AD.Blocked c L s now → MonoOps now ops → AD.NoRaiseBefore c L s ops →
    ∀ x ∈ AD.admitted c s ops, L ≤ x := by
  intro ops
  induction ops with
  | nil => intro s now _ _ _ x hx; simp [AD.admitted] at hx
  | cons o os ih =>
    intro s now hb hm hn x hx
    obtain ⟨hm1, hm2⟩ := hm
    obtain ⟨hn1, hn2⟩ := hn
    by_cases hL : o.time < L
    · cases o with
      | acq t =>
        simp only [Op.time] at hm1 hm2 hL
        obtain ⟨a, b⟩ := AD.blocked_refill c L s now t hb hm1 hL
        have hno : ¬ c.one ≤ (s.refill c t).tok := by omega
        have e : s.acquire c t = (s.refill c t, false) := by simp only [AD.acquire, hno, if_false]
        simp only [AD.admitted, e, Bool.false_eq_true, if_false] at hx
        have e2 : s.step c (.acq t) = s.refill c t := by simp only [AD.step, e]
        rw [e2] at hn2
        exact ih _ t b hm2 hn2 x hx
      | tua t =>
        simp only [Op.time] at hm1 hm2 hL
        have e2 : s.step c (.tua t) = s.refill c t := by simp only [AD.step]; exact AD.tua_fst c s t
        simp only [AD.admitted] at hx
        rw [e2] at hx hn2
        exact ih _ t (AD.blocked_refill c L s now t hb hm1 hL).2 hm2 hn2 x hx
      | succ t =>
        simp only [Op.time] at hm1 hm2 hL
        simp only [AD.admitted] at hx
        exact ih _ t (AD.blocked_feedback c L s _ now t hb hm1 (hn1 hL) (Nat.le_refl _) rfl) hm2 hn2 x hx
      | fail t =>
        simp only [Op.time] at hm1 hm2 hL
        simp only [AD.admitted] at hx
        exact ih _ t (AD.blocked_feedback c L s _ now t hb hm1 (hn1 hL) (Nat.min_le_left _ _) rfl) hm2 hn2 x hx
    · have := ad_admitted_ge c (o :: os) s o.time ⟨Nat.le_refl _, hm2⟩ x hx
      omega

/-- after `time_until_available(t) = w`, whatever calls and feedback follow, nothing is admitted before
    `t + w` unless the rate was raised before `t + w` -/
theorem ad_tua_blocks_run_mono (c : ADCfg) (s : AD) (t : Nat) (ops : List Op) (hp : 0 < s.p)
    (hm : ∀ l, s.last = some l → l ≤ t) (hmo : MonoOps t ops)
    (hn : AD.NoRaiseBefore c (t + (AD.tua c s t).2) (AD.tua c s t).1 ops) :
    ∀ x ∈ AD.admitted c (AD.tua c s t).1 ops, t + (AD.tua c s t).2 ≤ x := by
  by_cases hw : (AD.tua c s t).2 = 0
  · intro x hx; rw [hw]; exact ad_admitted_ge c ops _ t hmo x hx
  · obtain ⟨r1, rp, _⟩ := AD.refill_le c s t hm
    refine ad_blocked_run_mono c _ ops _ t ?_ hmo hn
    rw [AD.tua_fst]
    refine ⟨t, r1, Nat.le_refl _, ?_⟩
    intro t' ht' hL
    unfold AD.tua at hL hw
    by_cases h : c.one ≤ (s.refill c t).tok
    · simp only [h, if_true] at hw; exact absurd trivial hw
    · simp only [h, if_false] at hL
      have := before_wait (c.one - (s.refill c t).tok) s.p (t' - t) hp (by omega) (by omega)
      rw [rp]
      omega

/-! ### the same at Spec level: `blocksOKR` follows the reported rate through the feedback records -/

theorem ad_noEarlyR_of_ge (c : ADCfg) (L : Nat) : ∀ (os : List Op) (s : AD) (r now : Nat), L ≤ now → MonoOps now os →
    noEarlyR L r (AD.obs c s os) = true := by
  intro os
  induction os with
  | nil => intro s r now _ _; rfl
  | cons o os ih =>
    intro s r now hl hm
    obtain ⟨hm1, hm2⟩ := hm
    cases o with
    | acq t =>
      simp only [Op.time] at hm1 hm2
      simp only [AD.obs, noEarlyR, Bool.and_eq_true, Bool.or_eq_true, decide_eq_true_eq]
      exact ⟨Or.inl (by omega), ih _ r t (by omega) hm2⟩
    | tua t =>
      simp only [Op.time] at hm1 hm2
      simp only [AD.obs, noEarlyR]
      exact ih _ r t (by omega) hm2
    | succ t =>
      simp only [Op.time] at hm1 hm2
      simp only [AD.obs, noEarlyR]
      split
      · exact ih _ _ t (by omega) hm2
      · rfl
    | fail t =>
      simp only [Op.time] at hm1 hm2
      simp only [AD.obs, noEarlyR]
      split
      · exact ih _ _ t (by omega) hm2
      · rfl

theorem ad_noEarlyR (c : ADCfg) (L : Nat) : ∀ (os : List Op) (s : AD) (now : Nat), AD.Blocked c L s now →
    MonoOps now os → noEarlyR L s.p (AD.obs c s os) = true := by
  intro os
  induction os with
  | nil => intro s now _ _; rfl
  | cons o os ih =>
    intro s now hb hm
    obtain ⟨hm1, hm2⟩ := hm
    by_cases hL : o.time < L
    · cases o with
      | acq t =>
        simp only [Op.time] at hm1 hm2 hL
        obtain ⟨a, b⟩ := AD.blocked_refill c L s now t hb hm1 hL
        have hno : ¬ c.one ≤ (s.refill c t).tok := by omega
        have e : s.acquire c t = (s.refill c t, false) := by simp only [AD.acquire, hno, if_false]
        simp only [AD.obs, noEarlyR, e, Bool.not_false, Bool.or_true, Bool.true_and]
        have := ih _ t b hm2
        rw [AD.refill_p] at this; exact this
      | tua t =>
        simp only [Op.time] at hm1 hm2 hL
        simp only [AD.obs, noEarlyR]
        rw [AD.tua_fst]
        have := ih _ t (AD.blocked_refill c L s now t hb hm1 hL).2 hm2
        rw [AD.refill_p] at this; exact this
      | succ t =>
        simp only [Op.time] at hm1 hm2 hL
        simp only [AD.obs, noEarlyR]
        split
        · rename_i hle
          exact ih _ t (AD.blocked_feedback c L s _ now t hb hm1 hle (Nat.le_refl _) rfl) hm2
        · rfl
      | fail t =>
        simp only [Op.time] at hm1 hm2 hL
        simp only [AD.obs, noEarlyR]
        split
        · rename_i hle
          exact ih _ t (AD.blocked_feedback c L s _ now t hb hm1 hle (Nat.min_le_left _ _) rfl) hm2
        · rfl
    · exact ad_noEarlyR_of_ge c L (o :: os) s s.p o.time (by omega) ⟨Nat.le_refl _, hm2⟩

theorem ad_blocksR_spec (c : ADCfg) (hc : ADOk c) (hmin : 0 < c.pmin) : ∀ (ops : List Op) (s : AD) (now : Nat),
    s.InRange c → (∀ l, s.last = some l → l ≤ now) → MonoOps now ops →
    blocksOKR s.p (AD.obs c s ops) = true := by
  intro ops
  induction ops with
  | nil => intro s now _ _ _; rfl
  | cons o os ih =>
    intro s now hr hs hm
    obtain ⟨hm1, hm2⟩ := hm
    have hr' := AD.step_range c hc s o hr
    have hs' : ∀ l, s.last = some l → l ≤ o.time := fun l hl => Nat.le_trans (hs l hl) hm1
    cases o with
    | acq t =>
      simp only [Op.time] at hm1 hm2 hs'
      simp only [AD.obs, blocksOKR]
      have hp : (s.acquire c t).1.p = s.p := by
        simp only [AD.acquire]; split
        · rfl
        · exact AD.refill_p c s t
      have := ih (s.acquire c t).1 t hr' (by
        obtain ⟨r1, _, _⟩ := AD.refill_le c s t hs'
        intro l hl
        simp only [AD.acquire] at hl
        split at hl <;> (simp only [r1] at hl; cases hl; exact Nat.le_refl _)) hm2
      rw [hp] at this; exact this
    | tua t =>
      simp only [Op.time] at hm1 hm2 hs'
      simp only [AD.obs, blocksOKR, Bool.and_eq_true]
      have hp : (s.tua c t).1.p = s.p := by rw [AD.tua_fst]; exact AD.refill_p c s t
      obtain ⟨r1, rp, _⟩ := AD.refill_le c s t hs'
      constructor
      · by_cases hw : (AD.tua c s t).2 = 0
        · rw [hw]; exact ad_noEarlyR_of_ge c _ os _ _ t (Nat.le_refl _) hm2
        · have hb : AD.Blocked c (t + (AD.tua c s t).2) (AD.tua c s t).1 t := by
            rw [AD.tua_fst]
            refine ⟨t, r1, Nat.le_refl _, ?_⟩
            intro t' ht' hL
            unfold AD.tua at hL hw
            by_cases h : c.one ≤ (s.refill c t).tok
            · simp only [h, if_true] at hw; exact absurd trivial hw
            · simp only [h, if_false] at hL
              have hpos : 0 < s.p := by have := hr.1; omega
              have := before_wait (c.one - (s.refill c t).tok) s.p (t' - t) hpos (by omega) (by omega)
              rw [rp]
              omega
          have := ad_noEarlyR c _ os _ t hb hm2
          rw [hp] at this; exact this
      · have := ih (s.tua c t).1 t hr' (by
          intro l hl
          rw [AD.tua_fst, r1] at hl; cases hl; exact Nat.le_refl _) hm2
        rw [hp] at this; exact this
    | succ t =>
      simp only [Op.time] at hm1 hm2 hs'
      simp only [AD.obs, blocksOKR]
      exact ih _ t hr' hs' hm2
    | fail t =>
      simp only [Op.time] at hm1 hm2 hs'
      simp only [AD.obs, blocksOKR]
      exact ih _ t hr' hs' hm2

end HappyModel.C10
