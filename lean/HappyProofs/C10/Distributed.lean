import HappyModel.C10.Distributed
/-!
`DistributedRateLimiter`: for every number of instances, every limit and window and **every
interleaving** of the generators' segments (overlapping read-modify-write cycles included), each request
is forwarded, dropped or still in flight — exactly once.
-/
namespace HappyModel.C10

def DRL.F (s : DRL) : List Nat := s.fwd.map (·.2.1)
def DRL.I (s : DRL) : List Nat := s.flights.map (·.id)

/-- accounting invariant, as multiset equality (counts) -/
def DRL.Inv (s : DRL) : Prop := ∀ x, (s.F ++ s.I ++ s.dropped).count x = s.recv.count x

theorem count_map_erase (l : List DFlight) (f : DFlight) (hf : f ∈ l) (x : Nat) :
    (l.map (·.id)).count x = ((l.erase f).map (·.id)).count x + (if f.id = x then 1 else 0) := by
  have hp : (l.map (·.id)).Perm (f.id :: (l.erase f).map (·.id)) := by
    simpa using (List.perm_cons_erase hf).map (·.id)
  rw [hp.count_eq x, List.count_cons]
  by_cases h : f.id = x <;> simp [h]

theorem find_flight {l : List DFlight} {i id : Nat} {f : DFlight}
    (h : l.find? (fun f => f.inst == i && f.id == id) = some f) : f ∈ l ∧ f.id = id := by
  refine ⟨List.mem_of_find?_eq_some h, ?_⟩
  have := List.find?_some h
  simp only [Bool.and_eq_true, beq_iff_eq] at this
  exact this.2

theorem DRL.step_inv (W : Nat → Nat) (N : Nat) (s : DRL) (a : DAct) (h : s.Inv) : (s.step W N a).1.Inv := by
  unfold DRL.Inv at *
  intro x
  have hx := h x
  cases a with
  | arr i id t =>
    simp only [DRL.step]
    split
    · simp only [DRL.F, DRL.I, DRL.setInst, List.count_append, List.count_cons] at hx ⊢
      omega
    · simp only [DRL.F, DRL.I, DRL.setInst, List.count_append, List.count_cons, List.map_cons] at hx ⊢
      omega
  | res i id t =>
    simp only [DRL.step]
    split
    · exact hx
    · rename_i f hfind
      obtain ⟨hmem, hid⟩ := find_flight hfind
      have hc := count_map_erase s.flights f hmem x
      rw [hid] at hc
      split
      · split
        · simp only [DRL.F, DRL.I, DRL.setInst, List.count_append, List.count_cons] at hx ⊢
          by_cases e : id = x <;> simp [e] at hc ⊢ <;> omega
        · simp only [DRL.F, DRL.I, DRL.setInst, List.count_append, List.count_cons, List.map_cons] at hx ⊢
          rw [hid]
          by_cases e : id = x <;> simp [e] at hc ⊢ <;> omega
      · simp only [DRL.F, DRL.I, DRL.setInst, List.count_append, List.count_cons, List.map_cons] at hx ⊢
        by_cases e : id = x <;> simp [e] at hc ⊢ <;> omega

theorem DRL.run_inv (W : Nat → Nat) (N : Nat) : ∀ (acts : List DAct) (s : DRL), s.Inv → (DRL.run W N s acts).Inv
  | [], _, h => h
  | a :: as, s, h => DRL.run_inv W N as _ (DRL.step_inv W N s a h)

theorem DRL.step_recv (W : Nat → Nat) (N : Nat) (s : DRL) (a : DAct) :
    (s.step W N a).1.recv = dReqIds [a] ++ s.recv := by
  cases a with
  | arr i id t => simp only [DRL.step]; split <;> simp [dReqIds, DRL.setInst]
  | res i id t =>
    simp only [DRL.step]
    split
    · simp [dReqIds]
    · split
      · split <;> simp [dReqIds, DRL.setInst]
      · simp [dReqIds, DRL.setInst]

theorem dReqIds_cons (a : DAct) (as : List DAct) : dReqIds (a :: as) = dReqIds as ++ dReqIds [a] := by
  cases a <;> simp [dReqIds]

theorem DRL.run_recv (W : Nat → Nat) (N : Nat) : ∀ (acts : List DAct) (s : DRL),
    (DRL.run W N s acts).recv = dReqIds acts ++ s.recv
  | [], _ => by simp [DRL.run, dReqIds]
  | a :: as, s => by
    have e := dReqIds_cons a as
    rw [DRL.run, DRL.run_recv W N as, DRL.step_recv, e, List.append_assoc]

/-! ### without overlap the shared counter is exact and the per-window limit holds -/

/-- no request in flight; per window, the counter equals the number of forwards and is within the limit -/
def DRL.Seq (N : Nat) (s : DRL) : Prop :=
  s.flights = [] ∧ ∀ w, s.fwdWin.count w = s.count w ∧ s.count w ≤ N

theorem DRL.count_cons (s : DRL) (w c w' : Nat) :
    ({ s with store := (w, c) :: s.store } : DRL).count w' = if w = w' then c else s.count w' := by
  simp only [DRL.count, List.find?_cons]
  by_cases h : w = w'
  · simp [h]
  · have hb : (w == w') = false := by simp [h]
    simp [hb, h]

theorem DRL.serve_seq (W : Nat → Nat) (N : Nat) (s : DRL) (r : Nat × Nat × Nat × Nat × Nat) (h : s.Seq N) :
    (s.serve W N r).Seq N := by
  obtain ⟨i, id, t, t1, t2⟩ := r
  obtain ⟨hf, hc⟩ := h
  simp only [DRL.serve]
  -- first segment
  by_cases hl : N ≤ ((s.inst i).roll (W t)).known
  · -- local rejection: nothing in flight, the two `res` find nothing
    have e1 : (s.step W N (.arr i id t)).1.flights = [] := by simp [DRL.step, hl, DRL.setInst, hf]
    have e1s : ∀ w, (s.step W N (.arr i id t)).1.count w = s.count w := by
      intro w; simp [DRL.step, hl, DRL.setInst, DRL.count]
    have e1w : (s.step W N (.arr i id t)).1.fwdWin = s.fwdWin := by simp [DRL.step, hl, DRL.setInst]
    generalize (s.step W N (.arr i id t)).1 = s1 at e1 e1s e1w
    have e2 : (s1.step W N (.res i id t1)).1 = s1 := by simp [DRL.step, e1]
    rw [e2]
    have e3 : (s1.step W N (.res i id t2)).1 = s1 := by simp [DRL.step, e1]
    rw [e3]
    exact ⟨e1, fun w => by rw [e1w, e1s]; exact hc w⟩
  · -- read issued
    have e1 : (s.step W N (.arr i id t)).1.flights = [⟨i, id, t, W t, none⟩] := by
      simp [DRL.step, hl, DRL.setInst, hf]
    have e1s : ∀ w, (s.step W N (.arr i id t)).1.count w = s.count w := by
      intro w; simp [DRL.step, hl, DRL.setInst, DRL.count]
    have e1w : (s.step W N (.arr i id t)).1.fwdWin = s.fwdWin := by simp [DRL.step, hl, DRL.setInst]
    generalize (s.step W N (.arr i id t)).1 = s1 at e1 e1s e1w
    by_cases hg : N ≤ s1.count (W t)
    · -- global rejection
      have e2f : (s1.step W N (.res i id t1)).1.flights = [] := by
        simp [DRL.step, e1, hg, DRL.setInst]
      have e2s : ∀ w, (s1.step W N (.res i id t1)).1.count w = s1.count w := by
        have hst : (s1.step W N (.res i id t1)).1.store = s1.store := by simp [DRL.step, e1, hg, DRL.setInst]
        intro w; simp only [DRL.count, hst]
      have e2w : (s1.step W N (.res i id t1)).1.fwdWin = s1.fwdWin := by
        simp [DRL.step, e1, hg, DRL.setInst]
      generalize (s1.step W N (.res i id t1)).1 = s2 at e2f e2s e2w
      have e3 : (s2.step W N (.res i id t2)).1 = s2 := by simp [DRL.step, e2f]
      rw [e3]
      exact ⟨e2f, fun w => by rw [e2w, e2s, e1w, e1s]; exact hc w⟩
    · -- write issued, then forwarded
      have e2f : (s1.step W N (.res i id t1)).1.flights = [⟨i, id, t, W t, some (s1.count (W t) + 1)⟩] := by
        simp [DRL.step, e1, hg, DRL.setInst]
      have e2s : ∀ w, (s1.step W N (.res i id t1)).1.count w = s1.count w := by
        have hst : (s1.step W N (.res i id t1)).1.store = s1.store := by simp [DRL.step, e1, hg, DRL.setInst]
        intro w; simp only [DRL.count, hst]
      have e2w : (s1.step W N (.res i id t1)).1.fwdWin = s1.fwdWin := by
        simp [DRL.step, e1, hg, DRL.setInst]
      generalize (s1.step W N (.res i id t1)).1 = s2 at e2f e2s e2w
      have e3f : (s2.step W N (.res i id t2)).1.flights = [] := by
        simp [DRL.step, e2f, DRL.setInst]
      have e3w : (s2.step W N (.res i id t2)).1.fwdWin = (W t) :: s2.fwdWin := by
        simp [DRL.step, e2f, DRL.setInst]
      have e3s : ∀ w, (s2.step W N (.res i id t2)).1.count w =
          if W t = w then s1.count (W t) + 1 else s2.count w := by
        have hst : (s2.step W N (.res i id t2)).1.store = (W t, s1.count (W t) + 1) :: s2.store := by
          simp [DRL.step, e2f, DRL.setInst]
        intro w
        have := DRL.count_cons s2 (W t) (s1.count (W t) + 1) w
        simp only [DRL.count] at this ⊢
        rw [hst]; exact this
      refine ⟨e3f, fun w => ?_⟩
      rw [e3w, e3s, List.count_cons]
      have := hc w
      have h1 := e1s w; have h2 := e2s w
      by_cases hw : W t = w
      · subst hw
        simp only [beq_self_eq_true, if_true]
        rw [e2w, e1w]
        omega
      · simp only [hw, if_false]
        have : (W t == w) = false := by simp [hw]
        simp only [this, Bool.false_eq_true, if_false, Nat.add_zero]
        rw [e2w, e1w, h2, h1]; exact hc w

theorem DRL.serveAll_seq (W : Nat → Nat) (N : Nat) : ∀ (rs : List (Nat × Nat × Nat × Nat × Nat)) (s : DRL), s.Seq N →
    (DRL.serveAll W N s rs).Seq N
  | [], _, h => h
  | r :: rs, s, h => DRL.serveAll_seq W N rs _ (DRL.serve_seq W N s r h)

/-- the ghost lists stay aligned: `fwdWin` is `fwdArr` mapped through `wid`, provided every flight
    records `win = wid arr` -/
def DRL.Ghost (W : Nat → Nat) (s : DRL) : Prop :=
  s.fwdWin = s.fwdArr.map W ∧ ∀ f ∈ s.flights, f.win = W f.arr

theorem DRL.step_ghost (W : Nat → Nat) (N : Nat) (s : DRL) (a : DAct) (h : s.Ghost W) : (s.step W N a).1.Ghost W := by
  obtain ⟨h1, h2⟩ := h
  cases a with
  | arr i id t =>
    simp only [DRL.step]
    split
    · exact ⟨by simpa [DRL.setInst] using h1, by simpa [DRL.setInst] using h2⟩
    · refine ⟨by simpa [DRL.setInst] using h1, ?_⟩
      intro f hf
      simp only [DRL.setInst, List.mem_cons] at hf
      rcases hf with rfl | hf
      · rfl
      · exact h2 f hf
  | res i id t =>
    simp only [DRL.step]
    split
    · exact ⟨h1, h2⟩
    · rename_i f hfind
      obtain ⟨hmem, _⟩ := find_flight hfind
      have hsub : ∀ g ∈ s.flights.erase f, g.win = W g.arr := fun g hg => h2 g (List.mem_of_mem_erase hg)
      split
      · split
        · exact ⟨by simpa [DRL.setInst] using h1, by simpa [DRL.setInst] using hsub⟩
        · refine ⟨by simpa [DRL.setInst] using h1, ?_⟩
          intro g hg
          simp only [DRL.setInst, List.mem_cons] at hg
          rcases hg with rfl | hg
          · exact h2 f hmem
          · exact hsub g hg
      · refine ⟨?_, by simpa [DRL.setInst] using hsub⟩
        simp only [DRL.setInst, List.map_cons, h1, h2 f hmem]

theorem DRL.serve_ghost (W : Nat → Nat) (N : Nat) (s : DRL) (r : Nat × Nat × Nat × Nat × Nat) (h : s.Ghost W) :
    (s.serve W N r).Ghost W :=
  DRL.step_ghost W N _ _ (DRL.step_ghost W N _ _ (DRL.step_ghost W N _ _ h))

theorem DRL.serveAll_ghost (W : Nat → Nat) (N : Nat) : ∀ (rs : List (Nat × Nat × Nat × Nat × Nat)) (s : DRL),
    s.Ghost W → (DRL.serveAll W N s rs).Ghost W
  | [], _, h => h
  | r :: rs, s, h => DRL.serveAll_ghost W N rs _ (DRL.serve_ghost W N s r h)

theorem cntWin_eq_count (W k : Nat) (ts : List Nat) : cntWin W k ts = (ts.map (aligned W)).count k := by
  induction ts with
  | nil => rfl
  | cons t ts ih =>
    simp only [cntWin, List.filter_cons, List.map_cons, List.count_cons, aligned] at ih ⊢
    by_cases h : t / W = k <;> simp [h, ih]

end HappyModel.C10
