import HappyProofs.C10.Tua
import HappyProofs.C10.Fixed
import HappyProofs.C10.Adaptive
/-! `time_until_available` for the window policies and the adaptive bucket. -/
namespace HappyModel.C10

/-! ### fixed window -/

/-- reachable fixed-window states: the current window start is aligned and not in the future -/
def FW.Ok (c : WCfg) (s : FW) (t : Nat) : Prop :=
  s.cnt ≤ c.N ∧ ∀ w, s.cur = some w → ∃ k0, w = k0 * c.W ∧ w ≤ t

theorem FW.Ok.inv {c : WCfg} {s : FW} {t : Nat} (h : FW.Ok c s t) : FInv c s [] t :=
  ⟨fun _ => rfl, fun w hw => by
    obtain ⟨k0, a, b⟩ := h.2 w hw
    exact ⟨k0, a, b, by simp, by simp [cntWin], h.1⟩⟩

theorem FW.reset_cur (c : WCfg) (hW : 0 < c.W) (s : FW) (t : Nat) (h : FW.Ok c s t) :
    (s.reset c t).cur = some (t / c.W * c.W) :=
  (FW.reset_spec c hW s [] t t h.inv (Nat.le_refl _)).1

theorem FW.reset_fix (c : WCfg) (r : FW) (t' : Nat) (k : Nat) (h : r.cur = some (k * c.W))
    (hk : t' / c.W = k) : r.reset c t' = r := by
  unfold FW.reset; rw [h, hk]; simp

theorem FW.reset_advance (c : WCfg) (r : FW) (t' w : Nat) (h : r.cur = some w)
    (hlt : w < t' / c.W * c.W) : r.reset c t' = ⟨some (t' / c.W * c.W), 0⟩ := by
  unfold FW.reset; rw [h]; simp [hlt]

theorem fw_tua_zero_admits (c : WCfg) (hW : 0 < c.W) (s : FW) (t : Nat) (h : FW.Ok c s t)
    (h0 : (FW.tua c s t).2 = 0) : (FW.acquire c (FW.tua c s t).1 t).2 = true := by
  have rc := FW.reset_cur c hW s t h
  simp only [FW.tua] at h0 ⊢
  unfold FW.acquire
  rw [FW.reset_fix c _ t (t / c.W) rc rfl]
  unfold FW.wait at h0
  by_cases hq : (s.reset c t).cnt < c.N
  · simp [hq]
  · simp only [hq, if_false, rc] at h0
    have := Nat.lt_div_mul_add (a := t) hW
    split at h0 <;> omega

theorem fw_tua_positive_blocks (c : WCfg) (hW : 0 < c.W) (s : FW) (t t' : Nat) (h : FW.Ok c s t)
    (h1 : t ≤ t') (h2 : t' < t + (FW.tua c s t).2) :
    (FW.acquire c (FW.tua c s t).1 t').2 = false := by
  have rc := FW.reset_cur c hW s t h
  simp only [FW.tua] at h2 ⊢
  unfold FW.wait at h2
  by_cases hq : (s.reset c t).cnt < c.N
  · simp only [hq, if_true] at h2; omega
  · simp only [hq, if_false, rc] at h2
    have hlo := Nat.div_mul_le_self t c.W
    have hk : t' / c.W = t / c.W := by
      apply Nat.div_eq_of_lt_le
      · omega
      · rw [Nat.add_mul, Nat.one_mul]; split at h2 <;> omega
    unfold FW.acquire
    rw [FW.reset_fix c _ t' (t / c.W) rc hk]
    simp [hq]

theorem fw_tua_reaches_admission (c : WCfg) (hW : 0 < c.W) (hN : 1 ≤ c.N) (s : FW) (t : Nat)
    (h : FW.Ok c s t) :
    (FW.tua c s t).2 = 0 ∨ (FW.tua c (FW.tua c s t).1 (t + (FW.tua c s t).2)).2 = 0 := by
  have rc := FW.reset_cur c hW s t h
  by_cases hq : (s.reset c t).cnt < c.N
  · left; simp [FW.tua, FW.wait, hq]
  · right
    have hlt := Nat.lt_div_mul_add (a := t) hW
    have hlo := Nat.div_mul_le_self t c.W
    have e1 : (FW.tua c s t).2 = t / c.W * c.W + c.W - t := by
      simp only [FW.tua, FW.wait, hq, if_false, rc]
      rw [if_neg (by omega)]
    rw [e1]
    have e2 : t + (t / c.W * c.W + c.W - t) = (t / c.W + 1) * c.W := by
      rw [Nat.add_mul, Nat.one_mul]; omega
    rw [e2]
    have e3 : (t / c.W + 1) * c.W / c.W = t / c.W + 1 := Nat.mul_div_cancel _ hW
    simp only [FW.tua]
    have : ((s.reset c t).reset c ((t / c.W + 1) * c.W)) = ⟨some ((t / c.W + 1) * c.W), 0⟩ := by
      have hl : t / c.W * c.W < (t / c.W + 1) * c.W / c.W * c.W := by
        rw [e3, Nat.add_mul, Nat.one_mul]; omega
      rw [FW.reset_advance c _ _ _ rc hl, e3]
    rw [this]
    simp [FW.wait]; omega

/-! ### sliding window -/

theorem dropWhile_head_false (p : Nat → Bool) : ∀ (l : List Nat) (o : Nat) (rest : List Nat),
    l.dropWhile p = o :: rest → p o = false := by
  intro l
  induction l with
  | nil => intro o rest h; simp at h
  | cons x xs ih =>
    intro o rest h
    rw [List.dropWhile_cons] at h
    cases hx : p x with
    | true => rw [hx] at h; simp only [if_true] at h; exact ih o rest h
    | false =>
      rw [hx] at h; simp only [Bool.false_eq_true, if_false] at h
      cases h; exact hx

theorem dropWhile_of_head_false (p : Nat → Bool) (o : Nat) (rest : List Nat) (h : p o = false) :
    (o :: rest).dropWhile p = o :: rest := by
  rw [List.dropWhile_cons, h]; simp

theorem SW.prune_idem (c : WCfg) (s : SW) (t : Nat) : (s.prune c t).prune c t = s.prune c t := by
  unfold SW.prune
  simp only []
  cases h : s.log.dropWhile (fun e => decide (e + c.W < t)) with
  | nil => simp
  | cons o rest => rw [dropWhile_of_head_false _ o rest (dropWhile_head_false _ _ o rest h)]

theorem SW.tua_fst (c : WCfg) (s : SW) (t : Nat) : (SW.tua c s t).1 = s.prune c t := by
  unfold SW.tua; split
  · rfl
  · split <;> rfl

theorem sw_tua_zero_admits (c : WCfg) (hN : 1 ≤ c.N) (s : SW) (t : Nat)
    (h0 : (SW.tua c s t).2 = 0) : (SW.acquire c (SW.tua c s t).1 t).2 = true := by
  rw [SW.tua_fst]
  unfold SW.acquire
  rw [SW.prune_idem]
  by_cases hq : (s.prune c t).log.length < c.N
  · simp [hq]
  · unfold SW.tua at h0
    simp only [hq, if_false] at h0
    cases hl : (s.prune c t).log with
    | nil => rw [hl] at hq; simp at hq; omega
    | cons o rest => rw [hl] at h0; simp only [] at h0; split at h0 <;> omega

theorem sw_tua_positive_blocks (c : WCfg) (s : SW) (t t' : Nat)
    (h1 : t ≤ t') (h2 : t' < t + (SW.tua c s t).2) :
    (SW.acquire c (SW.tua c s t).1 t').2 = false := by
  rw [SW.tua_fst]
  unfold SW.tua at h2
  by_cases hq : (s.prune c t).log.length < c.N
  · simp only [hq, if_true] at h2; omega
  · simp only [hq, if_false] at h2
    cases hl : (s.prune c t).log with
    | nil => rw [hl] at h2; simp only [] at h2; omega
    | cons o rest =>
      rw [hl] at h2; simp only [] at h2
      have hh : decide (o + c.W < t) = false := dropWhile_head_false _ s.log o rest (by
        have := hl; simpa [SW.prune] using this)
      simp only [decide_eq_false_iff_not] at hh
      have keep : (s.prune c t).prune c t' = s.prune c t := by
        have : (⟨o :: rest⟩ : SW).prune c t' = ⟨o :: rest⟩ := by
          unfold SW.prune; simp only []
          rw [dropWhile_of_head_false]
          simp only [decide_eq_false_iff_not]
          split at h2 <;> omega
        have e : s.prune c t = ⟨o :: rest⟩ := by
          cases hp : s.prune c t; simp only [hp] at hl; rw [hl]
        rw [e]; exact this
      unfold SW.acquire
      rw [keep]
      simp [hq]

/-! ### adaptive bucket = token bucket with the current rate -/

def AD.toTB (s : AD) : TB := ⟨s.tok, s.last⟩
def ADCfg.tb (c : ADCfg) (p : Nat) : TBCfg := ⟨c.cap p, p, c.one⟩

theorem ad_refill_toTB (c : ADCfg) (s : AD) (t : Nat) :
    (s.refill c t).toTB = s.toTB.refill (c.tb s.p) t := by
  cases hl : s.last with
  | none => simp [AD.refill, TB.refill, AD.toTB, ADCfg.tb, hl]
  | some l => by_cases h : t ≤ l <;> simp [AD.refill, TB.refill, AD.toTB, ADCfg.tb, hl, h]

theorem ad_tua_sim (c : ADCfg) (s : AD) (t : Nat) :
    (AD.tua c s t).2 = (TB.tua (c.tb s.p) s.toTB t).2 ∧
    (AD.tua c s t).1.toTB = (TB.tua (c.tb s.p) s.toTB t).1 ∧ (AD.tua c s t).1.p = s.p := by
  have e := ad_refill_toTB c s t
  have ep := AD.refill_p c s t
  have et : (s.refill c t).tok = (s.toTB.refill (c.tb s.p) t).tok := by rw [← e]; rfl
  by_cases h : c.one ≤ (s.refill c t).tok
  · have h' : (c.tb s.p).one ≤ (s.toTB.refill (c.tb s.p) t).tok := by rw [← et]; exact h
    unfold AD.tua TB.tua; rw [if_pos h, if_pos h']; exact ⟨rfl, e, ep⟩
  · have h' : ¬ (c.tb s.p).one ≤ (s.toTB.refill (c.tb s.p) t).tok := by rw [← et]; exact h
    unfold AD.tua TB.tua; rw [if_neg h, if_neg h']
    refine ⟨?_, e, ep⟩
    simp only []; rw [← et]; rfl

theorem ad_acq_sim (c : ADCfg) (s : AD) (t : Nat) :
    (AD.acquire c s t).2 = (TB.acquire (c.tb s.p) s.toTB t).2 := by
  have e := ad_refill_toTB c s t
  have et : (s.refill c t).tok = (s.toTB.refill (c.tb s.p) t).tok := by rw [← e]; rfl
  by_cases h : c.one ≤ (s.refill c t).tok
  · have h' : (c.tb s.p).one ≤ (s.toTB.refill (c.tb s.p) t).tok := by rw [← et]; exact h
    unfold AD.acquire TB.acquire; rw [if_pos h, if_pos h']
  · have h' : ¬ (c.tb s.p).one ≤ (s.toTB.refill (c.tb s.p) t).tok := by rw [← et]; exact h
    unfold AD.acquire TB.acquire; rw [if_neg h, if_neg h']

theorem ad_tua_zero_admits (c : ADCfg) (s : AD) (t : Nat) (hm : ∀ l, s.last = some l → l ≤ t)
    (h0 : (AD.tua c s t).2 = 0) : (AD.acquire c (AD.tua c s t).1 t).2 = true := by
  obtain ⟨a1, a2, a3⟩ := ad_tua_sim c s t
  rw [ad_acq_sim, a3, a2]
  exact tb_tua_zero_admits (c.tb s.p) s.toTB t hm (a1 ▸ h0)

theorem ad_tua_positive_blocks (c : ADCfg) (s : AD) (t t' : Nat) (hp : 0 < s.p)
    (hm : ∀ l, s.last = some l → l ≤ t) (h1 : t ≤ t') (h2 : t' < t + (AD.tua c s t).2) :
    (AD.acquire c (AD.tua c s t).1 t').2 = false := by
  obtain ⟨a1, a2, a3⟩ := ad_tua_sim c s t
  rw [ad_acq_sim, a3, a2]
  exact tb_tua_positive_blocks (c.tb s.p) s.toTB t t' hp hm h1 (a1 ▸ h2)

theorem ad_tua_reaches_admission (c : ADCfg) (s : AD) (t : Nat) (hp : 0 < s.p)
    (hcap : c.one ≤ c.cap s.p) (hm : ∀ l, s.last = some l → l ≤ t) :
    (AD.tua c s t).2 = 0 ∨
    (AD.tua c (AD.tua c s t).1 (t + (AD.tua c s t).2)).2 = 0 ∨
    (AD.tua c (AD.tua c (AD.tua c s t).1 (t + (AD.tua c s t).2)).1
        (t + (AD.tua c s t).2 + (AD.tua c (AD.tua c s t).1 (t + (AD.tua c s t).2)).2)).2 = 0 := by
  obtain ⟨a1, a2, a3⟩ := ad_tua_sim c s t
  obtain ⟨b1, b2, b3⟩ := ad_tua_sim c (AD.tua c s t).1 (t + (AD.tua c s t).2)
  obtain ⟨d1, _, _⟩ := ad_tua_sim c (AD.tua c (AD.tua c s t).1 (t + (AD.tua c s t).2)).1
    (t + (AD.tua c s t).2 + (AD.tua c (AD.tua c s t).1 (t + (AD.tua c s t).2)).2)
  rw [b3, a3] at d1
  rw [a3] at b1 b2
  rw [a2] at b1 b2
  rw [b2] at d1
  rw [d1, b1, a1]
  exact tb_tua_reaches_admission (c.tb s.p) s.toTB t hp hcap hm

end HappyModel.C10

namespace HappyModel.C10

theorem length_dropWhile_le' (p : Nat → Bool) : ∀ l : List Nat, (l.dropWhile p).length ≤ l.length := by
  intro l
  induction l with
  | nil => simp
  | cons x xs ih => rw [List.dropWhile_cons]; split <;> simp <;> omega

theorem sw_tua_zero_of_lt (c : WCfg) (s : SW) (t : Nat) (h : (s.prune c t).log.length < c.N) :
    (SW.tua c s t).2 = 0 := by
  unfold SW.tua; simp [h]

theorem sw_tua_of_full (c : WCfg) (s : SW) (t o : Nat) (rest : List Nat)
    (h : (s.prune c t).log = o :: rest) (hf : ¬ (s.prune c t).log.length < c.N) :
    (SW.tua c s t).2 = (if o + c.W - t = 0 then 1 else o + c.W - t) := by
  unfold SW.tua; simp only [hf, if_false]; rw [h]

theorem sw_prune_drop (c : WCfg) (o : Nat) (rest : List Nat) (t' : Nat) (h : o + c.W < t') :
    ((⟨o :: rest⟩ : SW).prune c t').log.length ≤ rest.length := by
  unfold SW.prune; simp only []
  rw [List.dropWhile_cons]; simp only [h, decide_true, if_true]
  exact length_dropWhile_le' _ _

theorem sw_prune_keep (c : WCfg) (o : Nat) (rest : List Nat) (t' : Nat) (h : ¬ o + c.W < t') :
    (⟨o :: rest⟩ : SW).prune c t' = ⟨o :: rest⟩ := by
  unfold SW.prune; simp only []
  rw [dropWhile_of_head_false]; simp [h]

/-- sliding window: zero is reached after at most two positive waits (the expiry instant itself is
    still inside the closed window, so the second wait is the 1 ns guard) -/
theorem sw_tua_reaches_admission (c : WCfg) (hN : 1 ≤ c.N) (s : SW) (t : Nat)
    (hlen : s.log.length ≤ c.N) :
    (SW.tua c s t).2 = 0 ∨
    (SW.tua c (SW.tua c s t).1 (t + (SW.tua c s t).2)).2 = 0 ∨
    (SW.tua c (SW.tua c (SW.tua c s t).1 (t + (SW.tua c s t).2)).1
        (t + (SW.tua c s t).2 + (SW.tua c (SW.tua c s t).1 (t + (SW.tua c s t).2)).2)).2 = 0 := by
  have hpl : (s.prune c t).log.length ≤ c.N :=
    Nat.le_trans (by unfold SW.prune; exact length_dropWhile_le' _ _) hlen
  by_cases hq : (s.prune c t).log.length < c.N
  · left; exact sw_tua_zero_of_lt c s t hq
  · right
    cases hl : (s.prune c t).log with
    | nil => rw [hl] at hq; simp at hq; omega
    | cons o rest =>
      have hrest : rest.length < c.N := by rw [hl] at hpl; simp at hpl; omega
      have hh : ¬ o + c.W < t := by
        have := dropWhile_head_false _ s.log o rest (by have := hl; simpa [SW.prune] using this)
        simpa using this
      have e : s.prune c t = ⟨o :: rest⟩ := by
        cases hp : s.prune c t; simp only [hp] at hl; rw [hl]
      have w1 := sw_tua_of_full c s t o rest hl hq
      rw [SW.tua_fst, w1, e]
      by_cases hz : o + c.W - t = 0
      · -- we are exactly at the expiry instant: the guard moves 1 ns past it
        left
        simp only [hz, if_true]
        apply sw_tua_zero_of_lt
        exact Nat.lt_of_le_of_lt (sw_prune_drop c o rest (t + 1) (by omega)) hrest
      · right
        simp only [hz, if_false]
        have t1 : t + (o + c.W - t) = o + c.W := by omega
        rw [t1]
        have keep := sw_prune_keep c o rest (o + c.W) (by omega)
        have hfull : ¬ ((⟨o :: rest⟩ : SW).prune c (o + c.W)).log.length < c.N := by
          rw [keep]; rw [hl] at hq; exact hq
        have w2 := sw_tua_of_full c ⟨o :: rest⟩ (o + c.W) o rest (by rw [keep]) hfull
        rw [SW.tua_fst, w2, keep]
        simp only [Nat.sub_self, if_true]
        apply sw_tua_zero_of_lt
        exact Nat.lt_of_le_of_lt (sw_prune_drop c o rest (o + c.W + 1) (by omega)) hrest

end HappyModel.C10

namespace HappyModel.C10

/-- the hypotheses of the window-policy theorems hold in every reachable state -/
theorem sw_step_len (c : WCfg) (s : SW) (o : Op) (h : s.log.length ≤ c.N) :
    ((swPolicy c).step s o).log.length ≤ c.N := by
  have hp : ∀ t, (s.prune c t).log.length ≤ c.N := fun t =>
    Nat.le_trans (by unfold SW.prune; exact length_dropWhile_le' _ _) h
  cases o with
  | acq t =>
    simp only [Policy.step, swPolicy, SW.acquire]
    split
    · simp only [List.length_append, List.length_singleton]; omega
    · exact hp t
  | tua t => simp only [Policy.step, swPolicy]; rw [SW.tua_fst]; exact hp t
  | succ t => exact h
  | fail t => exact h

theorem fw_step_ok (c : WCfg) (hW : 0 < c.W) (s : FW) (now : Nat) (o : Op) (h : FW.Ok c s now)
    (ht : now ≤ o.time) : FW.Ok c ((fwPolicy c).step s o) o.time := by
  have weak : ∀ t, now ≤ t → FW.Ok c s t := fun t h' =>
    ⟨h.1, fun w hw => by obtain ⟨k0, a, b⟩ := h.2 w hw; exact ⟨k0, a, by omega⟩⟩
  have rs : ∀ t, now ≤ t → FW.Ok c (s.reset c t) t := by
    intro t h'
    obtain ⟨r1, _, _, r4⟩ := FW.reset_spec c hW s [] t t (weak t h').inv (Nat.le_refl _)
    exact ⟨r4, fun w hw => by rw [r1] at hw; cases hw; exact ⟨t / c.W, rfl, Nat.div_mul_le_self _ _⟩⟩
  cases o with
  | acq t =>
    simp only [Op.time] at ht ⊢
    simp only [Policy.step, fwPolicy, FW.acquire]
    split
    · exact ⟨by simp only []; omega, (rs t ht).2⟩
    · exact rs t ht
  | tua t => simp only [Op.time] at ht ⊢; simp only [Policy.step, fwPolicy, FW.tua]; exact rs t ht
  | succ t => simp only [Op.time] at ht ⊢; exact weak t ht
  | fail t => simp only [Op.time] at ht ⊢; exact weak t ht

end HappyModel.C10
