import HappyProofs.C10.AdaptiveCredit
import HappyProofs.C10.TuaSpecAD
/-!
Adaptive bucket, the clause at full strength: for **every** feedback sequence, while `current_rate`
is `r` the admissions satisfy the bucket bound of `r` (`adaptiveOK`, `Spec.lean`).  The invariant that
carries it is `tok ≤ cap p` — the bucket never holds more than the current rate allows — which
`record_failure` re-establishes by discarding the excess (`AD.failure`) and `record_success`
preserves because the bucket only grows.
-/
namespace HappyModel.C10

theorem AD.refill_tok_le (c : ADCfg) (s : AD) (t B : Nat) (hB : c.cap s.p ≤ B) (hs : s.tok ≤ B) :
    (s.refill c t).tok ≤ B := by
  unfold AD.refill
  cases s.last with
  | none => exact hs
  | some l =>
    simp only
    split
    · exact hs
    · exact Nat.le_trans (Nat.min_le_left _ _) hB

/-- segment bound inside one epoch (rate `r` throughout) -/
theorem ad_epoch_seg (c : ADCfg) (B t0 r : Nat) : ∀ (ops : List Op) (s : AD) (l k : Nat),
    s.p = r → s.last = some l → t0 ≤ l → MonoOps l ops →
    k * c.one + s.tok ≤ B + r * (l - t0) →
    segOK B r c.one t0 k (epochAdm r (AD.obs c s ops)) = true := by
  intro ops
  induction ops with
  | nil => intro s l k _ _ _ _ _; simp [AD.obs, epochAdm, segOK]
  | cons o os ih =>
    intro s l k hp hl h0 hm hpot
    obtain ⟨hm1, hm2⟩ := hm
    have key : ∀ t, l ≤ t → (s.refill c t).last = some t ∧ (s.refill c t).p = r ∧
        k * c.one + (s.refill c t).tok ≤ B + r * (t - t0) := by
      intro t hlt
      obtain ⟨r1, rp, r2⟩ := AD.refill_le c s t (by intro l' hl'; rw [hl] at hl'; cases hl'; exact hlt)
      have h3 := r2 l hl
      have := mul_sub_split r t0 l t h0 hlt
      rw [hp] at rp h3
      exact ⟨r1, rp, by omega⟩
    cases o with
    | acq t =>
      simp only [Op.time] at hm1 hm2
      obtain ⟨k1, kp, k2⟩ := key t hm1
      by_cases hq : c.one ≤ (s.refill c t).tok
      · have e : s.acquire c t = (⟨s.p, (s.refill c t).tok - c.one, (s.refill c t).last⟩, true) := by
          simp only [AD.acquire, hq, if_true]
        simp only [AD.obs, epochAdm, e, if_true, segOK, Bool.and_eq_true, decide_eq_true_eq]
        have e2 : (k + 1) * c.one = k * c.one + c.one := Nat.succ_mul _ _
        exact ⟨by omega, ih _ t (k + 1) hp k1 (by omega) hm2 (by simp only []; omega)⟩
      · have e : s.acquire c t = (s.refill c t, false) := by simp only [AD.acquire, hq, if_false]
        simp only [AD.obs, epochAdm, e, Bool.false_eq_true, if_false]
        exact ih _ t k kp k1 (by omega) hm2 k2
    | tua t =>
      simp only [Op.time] at hm1 hm2
      obtain ⟨k1, kp, k2⟩ := key t hm1
      simp only [AD.obs, epochAdm]
      rw [AD.tua_fst]
      exact ih _ t k kp k1 (by omega) hm2 k2
    | succ t =>
      simp only [Op.time] at hm1 hm2
      simp only [AD.obs, epochAdm]
      split
      · rename_i hr
        exact ih _ l k hr (by simp [AD.success, hl]) h0 (MonoOps.weaken hm1 hm2)
          (by simpa [AD.success] using hpot)
      · simp [segOK]
    | fail t =>
      simp only [Op.time] at hm1 hm2
      simp only [AD.obs, epochAdm]
      split
      · rename_i hr
        exact ih _ l k hr (by simp [AD.failure, hl]) h0 (MonoOps.weaken hm1 hm2)
          (by
            have := Nat.min_le_left s.tok (c.cap (c.dec s.p))
            simp only [AD.failure]; omega)
      · simp [segOK]

/-- bucket bound of the rate `r` over one epoch, from any state whose bucket is within `B ≥ cap r` -/
theorem ad_epoch_bucketOK (c : ADCfg) (B r : Nat) (hB : c.cap r ≤ B) : ∀ (ops : List Op) (s : AD),
    s.p = r → s.tok ≤ B →
    (∀ l, s.last = some l → MonoOps l ops) → (s.last = none → MonoOps 0 ops) →
    bucketOK B r c.one (epochAdm r (AD.obs c s ops)) = true := by
  intro ops
  induction ops with
  | nil => intro s _ _ _ _; simp [AD.obs, epochAdm, bucketOK]
  | cons o os ih =>
    intro s hp hs hm hm0
    have hle : ∀ l, s.last = some l → l ≤ o.time := fun l hl => (hm l hl).1
    have hm2 : MonoOps o.time os := by
      cases hl : s.last with
      | none => exact (hm0 hl).2
      | some l => exact (hm l hl).2
    have next : ∀ (s' : AD), s'.p = r → s'.tok ≤ B → s'.last = some o.time →
        bucketOK B r c.one (epochAdm r (AD.obs c s' os)) = true := by
      intro s' h0 h1 h2
      exact ih s' h0 h1 (by intro l hl; rw [h2] at hl; cases hl; exact hm2) (by intro h; rw [h2] at h; cases h)
    have hBs : c.cap s.p ≤ B := by rw [hp]; exact hB
    cases o with
    | acq t =>
      simp only [Op.time] at hle hm2 next
      obtain ⟨r1, rp, _⟩ := AD.refill_le c s t hle
      have rB := AD.refill_tok_le c s t B hBs hs
      by_cases hq : c.one ≤ (s.refill c t).tok
      · have e : s.acquire c t = (⟨s.p, (s.refill c t).tok - c.one, (s.refill c t).last⟩, true) := by
          simp only [AD.acquire, hq, if_true]
        simp only [AD.obs, epochAdm, e, if_true, bucketOK, Bool.and_eq_true, decide_eq_true_eq]
        refine ⟨⟨by omega, ?_⟩, next _ hp (by simp only []; omega) r1⟩
        exact ad_epoch_seg c B t r os _ t 1 hp r1 (Nat.le_refl _) hm2 (by simp only []; omega)
      · have e : s.acquire c t = (s.refill c t, false) := by simp only [AD.acquire, hq, if_false]
        simp only [AD.obs, epochAdm, e, Bool.false_eq_true, if_false]
        exact next _ (by rw [rp, hp]) rB r1
    | tua t =>
      simp only [Op.time] at hle hm2 next
      obtain ⟨r1, rp, _⟩ := AD.refill_le c s t hle
      simp only [AD.obs, epochAdm]
      rw [AD.tua_fst]
      exact next _ (by rw [rp, hp]) (AD.refill_tok_le c s t B hBs hs) r1
    | succ t =>
      simp only [Op.time] at hle hm2
      simp only [AD.obs, epochAdm]
      split
      · rename_i hr
        exact ih _ hr (by simpa [AD.success] using hs)
          (fun l hl => MonoOps.weaken (hle l (by simpa [AD.success] using hl)) hm2)
          (fun _ => MonoOps.weaken (Nat.zero_le _) hm2)
      · simp [bucketOK]
    | fail t =>
      simp only [Op.time] at hle hm2
      simp only [AD.obs, epochAdm]
      split
      · rename_i hr
        exact ih _ hr (by
            have := Nat.min_le_left s.tok (c.cap (c.dec s.p))
            simp only [AD.failure]; omega)
          (fun l hl => MonoOps.weaken (hle l (by simpa [AD.failure] using hl)) hm2)
          (fun _ => MonoOps.weaken (Nat.zero_le _) hm2)
      · simp [bucketOK]

/-- the bucket never holds more than the current rate allows -/
def AD.Full (c : ADCfg) (s : AD) : Prop := s.tok ≤ c.cap s.p

theorem AD.step_full (c : ADCfg) (hc : ADOk c) (s : AD) (o : Op) (hr : s.InRange c) (h : s.Full c) :
    (s.step c o).Full c := by
  unfold AD.Full at *
  cases o with
  | acq t =>
    have := AD.refill_tok_le c s t _ (Nat.le_refl _) h
    simp only [AD.step, AD.acquire]
    split
    · simp only []; omega
    · rw [AD.refill_p]; exact this
  | tua t =>
    simp only [AD.step]; rw [AD.tua_fst, AD.refill_p]
    exact AD.refill_tok_le c s t _ (Nat.le_refl _) h
  | succ t =>
    simp only [AD.step, AD.success]
    refine Nat.le_trans h (c.cap_mono ?_)
    have := hr.2
    exact Nat.le_min.mpr ⟨this, by omega⟩
  | fail t =>
    simp only [AD.step, AD.failure]
    exact Nat.min_le_right _ _

/-- every epoch opened by a rate change satisfies the bucket bound of its rate -/
theorem ad_epochsOK (c : ADCfg) (hc : ADOk c) : ∀ (ops : List Op) (s : AD) (now : Nat),
    s.InRange c → s.Full c → (∀ l, s.last = some l → l ≤ now) → MonoOps now ops →
    epochsOK c.cap c.one 0 s.p (AD.obs c s ops) = true := by
  intro ops
  induction ops with
  | nil => intro s now _ _ _ _; rfl
  | cons o os ih =>
    intro s now hr hf hs hm
    obtain ⟨hm1, hm2⟩ := hm
    have hr' := AD.step_range c hc s o hr
    have hf' := AD.step_full c hc s o hr hf
    have hs' : ∀ l, s.last = some l → l ≤ o.time := fun l hl => Nat.le_trans (hs l hl) hm1
    cases o with
    | acq t =>
      simp only [Op.time] at hm1 hm2 hs'
      simp only [AD.obs, epochsOK]
      have hp : (s.acquire c t).1.p = s.p := by
        simp only [AD.acquire]; split
        · rfl
        · exact AD.refill_p c s t
      have := ih (s.acquire c t).1 t hr' hf' (by
        obtain ⟨r1, _, _⟩ := AD.refill_le c s t hs'
        intro l hl
        simp only [AD.acquire] at hl
        split at hl <;> (simp only [r1] at hl; cases hl; exact Nat.le_refl _)) hm2
      rw [hp] at this; exact this
    | tua t =>
      simp only [Op.time] at hm1 hm2 hs'
      simp only [AD.obs, epochsOK]
      have hp : (s.tua c t).1.p = s.p := by rw [AD.tua_fst]; exact AD.refill_p c s t
      have := ih (s.tua c t).1 t hr' hf' (by
        obtain ⟨r1, _, _⟩ := AD.refill_le c s t hs'
        intro l hl
        rw [AD.tua_fst, r1] at hl; cases hl; exact Nat.le_refl _) hm2
      rw [hp] at this; exact this
    | succ t =>
      simp only [Op.time] at hm1 hm2 hs'
      simp only [AD.obs, epochsOK, Bool.and_eq_true, Bool.or_eq_true]
      refine ⟨Or.inr ?_, ih _ t hr' hf' hs' hm2⟩
      rw [Nat.add_zero]
      exact ad_epoch_bucketOK c _ _ (Nat.le_refl _) os _ rfl hf'
        (fun l hl => MonoOps.weaken (hs' l hl) hm2) (fun _ => MonoOps.weaken (Nat.zero_le _) hm2)
    | fail t =>
      simp only [Op.time] at hm1 hm2 hs'
      simp only [AD.obs, epochsOK, Bool.and_eq_true, Bool.or_eq_true]
      refine ⟨Or.inr ?_, ih _ t hr' hf' hs' hm2⟩
      rw [Nat.add_zero]
      exact ad_epoch_bucketOK c _ _ (Nat.le_refl _) os _ rfl hf'
        (fun l hl => MonoOps.weaken (hs' l hl) hm2) (fun _ => MonoOps.weaken (Nat.zero_le _) hm2)

theorem ad_adaptiveOK (c : ADCfg) (hc : ADOk c) (ops : List Op) (s : AD) (now : Nat)
    (hr : s.InRange c) (hf : s.Full c) (hs : ∀ l, s.last = some l → l ≤ now) (hm : MonoOps now ops) :
    adaptiveOK c.cap c.one 0 s.p (AD.obs c s ops) = true := by
  simp only [adaptiveOK, Bool.and_eq_true, Nat.add_zero]
  exact ⟨ad_epoch_bucketOK c _ _ (Nat.le_refl _) ops s rfl hf
    (fun l hl => MonoOps.weaken (hs l hl) hm) (fun _ => MonoOps.weaken (Nat.zero_le _) hm),
    ad_epochsOK c hc ops s now hr hf hs hm⟩

end HappyModel.C10
