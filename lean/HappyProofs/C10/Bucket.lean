import HappyModel.C10.Spec
/-! Token bucket: the potential argument `k·one + tokens ≤ B + p·(now − t₀)`. -/
namespace HappyModel.C10

theorem mul_sub_split (p a b c : Nat) (h1 : a ≤ b) (h2 : b ≤ c) :
    p * (b - a) + p * (c - b) = p * (c - a) := by
  rw [← Nat.mul_add]; congr 1; omega

/-- what `_refill` guarantees when time does not run backwards -/
theorem TB.refill_spec (c : TBCfg) (s : TB) (t : Nat) (h : ∀ l, s.last = some l → l ≤ t) :
    (s.refill c t).last = some t ∧
    (∀ l, s.last = some l → (s.refill c t).tok ≤ s.tok + c.p * (t - l)) ∧
    (s.last = none → (s.refill c t).tok = s.tok) ∧
    (∀ B, c.cap ≤ B → s.tok ≤ B → (s.refill c t).tok ≤ B) := by
  unfold TB.refill
  cases hl : s.last with
  | none => simp
  | some l =>
    have hlt := h l hl
    by_cases h2 : t ≤ l
    · have : t = l := by omega
      subst this
      simp [hl]
    · simp only [h2, if_false]
      refine ⟨by simp, ?_, by simp, ?_⟩
      · intro l' hl'; cases hl'; exact Nat.min_le_right _ _
      · intro B hB _; exact Nat.le_trans (Nat.min_le_left _ _) hB

theorem tb_admitted_acq (c : TBCfg) (s : TB) (t : Nat) (os : List Op) :
    (tbPolicy c).admitted s (.acq t :: os) =
      if c.one ≤ (s.refill c t).tok then
        t :: (tbPolicy c).admitted ⟨(s.refill c t).tok - c.one, (s.refill c t).last⟩ os
      else (tbPolicy c).admitted (s.refill c t) os := by
  simp only [Policy.admitted, tbPolicy, TB.acquire]
  split <;> simp_all

theorem tb_admitted_tua (c : TBCfg) (s : TB) (t : Nat) (os : List Op) :
    (tbPolicy c).admitted s (.tua t :: os) = (tbPolicy c).admitted (s.refill c t) os := by
  simp only [Policy.admitted, tbPolicy, TB.tua]
  split <;> rfl

/-- after an admission at `t0`: every later admission keeps `(k+1)·one ≤ B + p·(t − t0)` -/
theorem tb_seg (c : TBCfg) (B t0 : Nat) : ∀ (ops : List Op) (s : TB) (l k : Nat),
    s.last = some l → t0 ≤ l → MonoOps l ops → k * c.one + s.tok ≤ B + c.p * (l - t0) →
    segOK B c.p c.one t0 k ((tbPolicy c).admitted s ops) = true := by
  intro ops
  induction ops with
  | nil => intro s l k _ _ _ _; simp [Policy.admitted, segOK]
  | cons o os ih =>
    intro s l k hl h0 hm hpot
    obtain ⟨hm1, hm2⟩ := hm
    have key : ∀ t, l ≤ t → (s.refill c t).last = some t ∧
        k * c.one + (s.refill c t).tok ≤ B + c.p * (t - t0) := by
      intro t hlt
      obtain ⟨r1, r2, _, _⟩ := TB.refill_spec c s t (by intro l' hl'; rw [hl] at hl'; cases hl'; exact hlt)
      have := r2 l hl
      have := mul_sub_split c.p t0 l t h0 hlt
      exact ⟨r1, by omega⟩
    cases o with
    | acq t =>
      simp only [Op.time] at hm1 hm2
      obtain ⟨k1, k2⟩ := key t hm1
      rw [tb_admitted_acq]
      by_cases hq : c.one ≤ (s.refill c t).tok
      · simp only [hq, if_true, segOK, Bool.and_eq_true, decide_eq_true_eq]
        have e : (k + 1) * c.one = k * c.one + c.one := Nat.succ_mul _ _
        refine ⟨by omega, ih _ t (k + 1) k1 (by omega) hm2 (by simp only []; omega)⟩
      · simp only [hq, if_false]
        exact ih _ t k k1 (by omega) hm2 k2
    | tua t =>
      simp only [Op.time] at hm1 hm2
      obtain ⟨k1, k2⟩ := key t hm1
      rw [tb_admitted_tua]
      exact ih _ t k k1 (by omega) hm2 k2
    | succ t =>
      simp only [Op.time] at hm1 hm2
      simp only [Policy.admitted]
      exact ih s l k hl h0 (by
        cases os with
        | nil => trivial
        | cons o' os' => exact ⟨Nat.le_trans hm1 hm2.1, hm2.2⟩) hpot
    | fail t =>
      simp only [Op.time] at hm1 hm2
      simp only [Policy.admitted]
      exact ih s l k hl h0 (by
        cases os with
        | nil => trivial
        | cons o' os' => exact ⟨Nat.le_trans hm1 hm2.1, hm2.2⟩) hpot

theorem MonoOps.weaken {a b : Nat} (h : a ≤ b) : ∀ {os : List Op}, MonoOps b os → MonoOps a os
  | [], _ => trivial
  | _ :: _, hm => ⟨Nat.le_trans h hm.1, hm.2⟩

/-- every run of consecutive admissions satisfies the bucket bound, from any state -/
theorem tb_bucketOK (c : TBCfg) (B : Nat) (hB : c.cap ≤ B) : ∀ (ops : List Op) (s : TB),
    s.tok ≤ B → (∀ l, s.last = some l → MonoOps l ops) → (s.last = none → MonoOps 0 ops) →
    bucketOK B c.p c.one ((tbPolicy c).admitted s ops) = true := by
  intro ops
  induction ops with
  | nil => intro s _ _ _; simp [Policy.admitted, bucketOK]
  | cons o os ih =>
    intro s hs hm hm0
    have hle : ∀ l, s.last = some l → l ≤ o.time := fun l hl => (hm l hl).1
    have hm2 : MonoOps o.time os := by
      cases hl : s.last with
      | none => exact (hm0 hl).2
      | some l => exact (hm l hl).2
    have next : ∀ (s' : TB), s'.tok ≤ B → s'.last = some o.time →
        bucketOK B c.p c.one ((tbPolicy c).admitted s' os) = true := by
      intro s' h1 h2
      exact ih s' h1 (by intro l hl; rw [h2] at hl; cases hl; exact hm2) (by intro h; rw [h2] at h; cases h)
    cases o with
    | acq t =>
      simp only [Op.time] at hle hm2 next
      obtain ⟨r1, _, _, r4⟩ := TB.refill_spec c s t hle
      have rB := r4 B hB hs
      rw [tb_admitted_acq]
      by_cases hq : c.one ≤ (s.refill c t).tok
      · simp only [hq, if_true, bucketOK, Bool.and_eq_true, decide_eq_true_eq]
        refine ⟨⟨by omega, ?_⟩, next _ (by simp only []; omega) r1⟩
        exact tb_seg c B t os _ t 1 r1 (Nat.le_refl _) hm2 (by simp only []; omega)
      · simp only [hq, if_false]
        exact next _ rB r1
    | tua t =>
      simp only [Op.time] at hle hm2 next
      obtain ⟨r1, _, _, r4⟩ := TB.refill_spec c s t hle
      rw [tb_admitted_tua]
      exact next _ (r4 B hB hs) r1
    | succ t =>
      simp only [Policy.admitted]
      simp only [Op.time] at hle hm2
      exact ih s hs (fun l hl => MonoOps.weaken (hle l hl) hm2) (fun _ => MonoOps.weaken (Nat.zero_le _) hm2)
    | fail t =>
      simp only [Policy.admitted]
      simp only [Op.time] at hle hm2
      exact ih s hs (fun l hl => MonoOps.weaken (hle l hl) hm2) (fun _ => MonoOps.weaken (Nat.zero_le _) hm2)

end HappyModel.C10
