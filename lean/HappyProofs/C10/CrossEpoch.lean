import HappyProofs.C10.AdaptiveEpoch
/-!
Adaptive bucket: the admission bound **across** rate changes, in integral form.

`_refill` is lazy: the time since the previous `try_acquire` / `time_until_available` call is credited, as
a whole, at the rate in force *at the call that closes it*.  So a run's elapsed time `[l, T]` (`l` = refill
clock at the start, `T` = time of the last call) is partitioned into **epochs** — maximal runs of calls
made at the same rate —, epoch `e` owning the span from the last call before it to its own last call, and

    admissions · one + tokens left  ≤  tokens at the start + Σₑ rateₑ · lengthₑ ,   Σₑ lengthₑ = T − l ,

with tokens at the start ≤ `cap(rate)` and every `rateₑ ∈ [pmin, pmax]`.  (Attributing each instant to the
rate in force *at that instant* instead is false of the code: `adaptive_naive_integral_bound_false`.)
-/
namespace HappyModel.C10

/-- time of the last `try_acquire` / `time_until_available` call (feedback does not touch the refill clock) -/
def callEnd (l : Nat) : List Op → Nat
  | [] => l
  | .acq t :: os => callEnd t os
  | .tua t :: os => callEnd t os
  | .succ _ :: os => callEnd l os
  | .fail _ :: os => callEnd l os

/-- the time a `_refill` at `t` credits -/
def AD.gap (s : AD) (t : Nat) : Nat :=
  match s.last with
  | some l => t - l
  | none => 0

/-- add the span `(p, len)` to the epoch list (newest first); same rate as the newest epoch: extend it -/
def addSpan (p len : Nat) : List (Nat × Nat) → List (Nat × Nat)
  | [] => [(p, len)]
  | (q, n) :: es => if q = p then (q, n + len) :: es else (p, len) :: (q, n) :: es

/-- the epochs of a run as `(rate, length)` pairs, newest first; `acc` = epochs so far -/
def AD.epochs (c : ADCfg) : AD → List (Nat × Nat) → List Op → List (Nat × Nat)
  | _, acc, [] => acc
  | s, acc, .acq t :: os => AD.epochs c (s.step c (.acq t)) (addSpan s.p (s.gap t) acc) os
  | s, acc, .tua t :: os => AD.epochs c (s.step c (.tua t)) (addSpan s.p (s.gap t) acc) os
  | s, acc, .succ t :: os => AD.epochs c (s.step c (.succ t)) acc os
  | s, acc, .fail t :: os => AD.epochs c (s.step c (.fail t)) acc os

def spanSum : List (Nat × Nat) → Nat
  | [] => 0
  | (p, n) :: es => p * n + spanSum es

def spanLen : List (Nat × Nat) → Nat
  | [] => 0
  | (_, n) :: es => n + spanLen es

/-- consecutive epochs have different rates (the epochs are maximal) -/
def AdjDistinct : List (Nat × Nat) → Prop
  | [] => True
  | [_] => True
  | a :: b :: es => a.1 ≠ b.1 ∧ AdjDistinct (b :: es)

theorem spanSum_add (p n : Nat) (es : List (Nat × Nat)) : spanSum (addSpan p n es) = spanSum es + p * n := by
  cases es with
  | nil => simp [addSpan, spanSum]
  | cons e es =>
    obtain ⟨q, m⟩ := e
    simp only [addSpan]
    split
    · rename_i h; subst h; simp only [spanSum, Nat.mul_add]; omega
    · simp only [spanSum]; omega

theorem spanLen_add (p n : Nat) (es : List (Nat × Nat)) : spanLen (addSpan p n es) = spanLen es + n := by
  cases es with
  | nil => simp [addSpan, spanLen]
  | cons e es =>
    obtain ⟨q, m⟩ := e
    simp only [addSpan]
    split <;> simp only [spanLen] <;> omega

theorem adj_add (p n : Nat) (es : List (Nat × Nat)) (h : AdjDistinct es) : AdjDistinct (addSpan p n es) := by
  cases es with
  | nil => simp [addSpan, AdjDistinct]
  | cons e es =>
    obtain ⟨q, m⟩ := e
    simp only [addSpan]
    split
    · cases es with
      | nil => simp [AdjDistinct]
      | cons e2 es2 => exact h
    · rename_i hne
      exact ⟨fun h' => hne h'.symm, h⟩

theorem mem_addSpan (p n : Nat) (es : List (Nat × Nat)) (x : Nat × Nat) (hx : x ∈ addSpan p n es) :
    x.1 = p ∨ ∃ y ∈ es, y.1 = x.1 := by
  cases es with
  | nil => simp only [addSpan, List.mem_singleton] at hx; left; rw [hx]
  | cons e es =>
    obtain ⟨q, m⟩ := e
    simp only [addSpan] at hx
    split at hx
    · rcases List.mem_cons.mp hx with h | h
      · right; exact ⟨(q, m), List.mem_cons_self, by rw [h]⟩
      · right; exact ⟨x, List.mem_cons_of_mem _ h, rfl⟩
    · rcases List.mem_cons.mp hx with h | h
      · left; rw [h]
      · right; exact ⟨x, h, rfl⟩

theorem AD.credit1_eq (s : AD) (t : Nat) : s.credit1 t = s.p * s.gap t := by
  unfold AD.credit1 AD.gap; cases s.last <;> simp

/-- the credit is the epoch sum -/
theorem epochs_sum (c : ADCfg) : ∀ (ops : List Op) (s : AD) (acc : List (Nat × Nat)),
    spanSum (AD.epochs c s acc ops) = spanSum acc + AD.credit c s ops := by
  intro ops
  induction ops with
  | nil => intro s acc; simp [AD.epochs, AD.credit]
  | cons o os ih =>
    intro s acc
    cases o with
    | acq t => simp only [AD.epochs, AD.credit]; rw [ih, spanSum_add, AD.credit1_eq]; omega
    | tua t => simp only [AD.epochs, AD.credit]; rw [ih, spanSum_add, AD.credit1_eq]; omega
    | succ t => simp only [AD.epochs, AD.credit]; rw [ih]
    | fail t => simp only [AD.epochs, AD.credit]; rw [ih]

/-- the epoch lengths partition the elapsed time up to the last call -/
theorem epochs_len (c : ADCfg) : ∀ (ops : List Op) (s : AD) (acc : List (Nat × Nat)) (l : Nat),
    s.last = some l → MonoOps l ops →
    spanLen (AD.epochs c s acc ops) = spanLen acc + (callEnd l ops - l) := by
  intro ops
  induction ops with
  | nil => intro s acc l _ _; simp [AD.epochs, callEnd]
  | cons o os ih =>
    intro s acc l hl hm
    obtain ⟨hm1, hm2⟩ := hm
    have hle : ∀ l', s.last = some l' → l' ≤ o.time := by
      intro l' hl'; rw [hl] at hl'; cases hl'; exact hm1
    have hce : ∀ (t : Nat) (os' : List Op), MonoOps t os' → t ≤ callEnd t os' := by
      intro t os'
      induction os' generalizing t with
      | nil => intro _; exact Nat.le_refl _
      | cons o' os'' ih' =>
        intro hm'
        cases o' with
        | acq t' => exact Nat.le_trans hm'.1 (ih' t' hm'.2)
        | tua t' => exact Nat.le_trans hm'.1 (ih' t' hm'.2)
        | succ t' => exact ih' t (MonoOps.weaken hm'.1 hm'.2)
        | fail t' => exact ih' t (MonoOps.weaken hm'.1 hm'.2)
    cases o with
    | acq t =>
      simp only [Op.time] at hm1 hm2 hle
      obtain ⟨⟨a1, _⟩, _⟩ := AD.step_call c s t hle
      have hg : s.gap t = t - l := by simp [AD.gap, hl]
      have := hce t os hm2
      simp only [AD.epochs, callEnd]
      rw [ih _ _ t a1 hm2, spanLen_add, hg]; omega
    | tua t =>
      simp only [Op.time] at hm1 hm2 hle
      obtain ⟨_, ⟨a1, _⟩⟩ := AD.step_call c s t hle
      have hg : s.gap t = t - l := by simp [AD.gap, hl]
      have := hce t os hm2
      simp only [AD.epochs, callEnd]
      rw [ih _ _ t a1 hm2, spanLen_add, hg]; omega
    | succ t =>
      simp only [Op.time] at hm1 hm2
      simp only [AD.epochs, callEnd]
      exact ih _ _ l (by simp [AD.step, AD.success, hl]) (MonoOps.weaken hm1 hm2)
    | fail t =>
      simp only [Op.time] at hm1 hm2
      simp only [AD.epochs, callEnd]
      exact ih _ _ l (by simp [AD.step, AD.failure, hl]) (MonoOps.weaken hm1 hm2)

theorem epochs_adj (c : ADCfg) : ∀ (ops : List Op) (s : AD) (acc : List (Nat × Nat)), AdjDistinct acc →
    AdjDistinct (AD.epochs c s acc ops) := by
  intro ops
  induction ops with
  | nil => intro s acc h; exact h
  | cons o os ih =>
    intro s acc h
    cases o with
    | acq t => exact ih _ _ (adj_add _ _ _ h)
    | tua t => exact ih _ _ (adj_add _ _ _ h)
    | succ t => exact ih _ _ h
    | fail t => exact ih _ _ h

theorem epochs_range (c : ADCfg) (hc : ADOk c) : ∀ (ops : List Op) (s : AD) (acc : List (Nat × Nat)),
    s.InRange c → (∀ e ∈ acc, c.pmin ≤ e.1 ∧ e.1 ≤ c.pmax) →
    ∀ e ∈ AD.epochs c s acc ops, c.pmin ≤ e.1 ∧ e.1 ≤ c.pmax := by
  intro ops
  induction ops with
  | nil => intro s acc _ h; exact h
  | cons o os ih =>
    intro s acc hr h
    have hr' := AD.step_range c hc s o hr
    have hadd : ∀ n, ∀ e ∈ addSpan s.p n acc, c.pmin ≤ e.1 ∧ e.1 ≤ c.pmax := by
      intro n e he
      rcases mem_addSpan _ _ _ _ he with h1 | ⟨y, hy, h2⟩
      · rw [h1]; exact hr
      · rw [← h2]; exact h y hy
    cases o with
    | acq t => exact ih _ _ hr' (hadd _)
    | tua t => exact ih _ _ hr' (hadd _)
    | succ t => exact ih _ _ hr' h
    | fail t => exact ih _ _ hr' h

end HappyModel.C10
