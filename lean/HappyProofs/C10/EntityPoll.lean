import HappyProofs.C10.EntityInv
import HappyProofs.C10.Tua
/-!
The drain never stalls, entity level (any policy — `RateLimitedEntity` over the five policies and the
`Inductor` over its oracle gate): whatever is queued has a poll event coming, at most one poll event is
outstanding, no poll is scheduled in the past, and a poll that forwards nothing is re-armed strictly
later provided the policy answers a refusal with a positive wait (`RefusalWaits`, proved for the token,
leaky and adaptive buckets and for an oracle whose waits are ≥ 1 ns).
-/
namespace HappyModel.C10

variable {σ : Type}

/-- what an observer sees of one delivery (the driver prints exactly these fields) -/
def Ent.eobs1 (e e' : Ent σ) : Act → EObs
  | .req _ t => ⟨false, t, decide (e.fwd.length < e'.fwd.length), if e.poll.isNone then e'.poll else none⟩
  | .poll t => ⟨true, t, decide (e.fwd.length < e'.fwd.length), e'.poll⟩

def Ent.trace (P : Policy σ) (qcap : Nat) : Ent σ → List Act → List EObs
  | _, [] => []
  | e, a :: as => e.eobs1 (e.step P qcap a) a :: Ent.trace P qcap (e.step P qcap a) as

theorem ensurePoll_poll (P : Policy σ) (e : Ent σ) (t : Nat) :
    (e.ensurePoll P t).poll = match e.poll with
      | some q => some q
      | none => some (t + (P.tua e.pol t).2) := by
  unfold Ent.ensurePoll; split <;> simp_all

theorem ensurePoll_fwd (P : Policy σ) (e : Ent σ) (t : Nat) : (e.ensurePoll P t).fwd = e.fwd := by
  unfold Ent.ensurePoll; split <;> rfl

theorem ensurePoll_isSome (P : Policy σ) (e : Ent σ) (t : Nat) : (e.ensurePoll P t).poll.isSome = true := by
  rw [ensurePoll_poll]; split <;> rfl

theorem ensurePoll_poll_cases (P : Policy σ) (e e0 : Ent σ) (t : Nat) (h : e.poll = e0.poll) :
    (e.ensurePoll P t).poll = e0.poll ∨ (e0.poll = none ∧ ∃ w, (e.ensurePoll P t).poll = some (t + w)) := by
  rw [ensurePoll_poll]
  cases hp : e.poll with
  | some q => left; rw [← h, hp]
  | none => right; exact ⟨by rw [← h, hp], _, rfl⟩

/-- a request never disturbs an outstanding poll; it may schedule one (not in the past) when none is -/
theorem onReq_poll (P : Policy σ) (qcap : Nat) (e : Ent σ) (id t : Nat) :
    (e.onReq P qcap id t).poll = e.poll ∨
      (e.poll = none ∧ ∃ w, (e.onReq P qcap id t).poll = some (t + w)) := by
  unfold Ent.onReq
  split
  · split
    · left; rfl
    · exact ensurePoll_poll_cases P _ e t rfl
  · split
    · exact ensurePoll_poll_cases P _ e t rfl
    · left; rfl

theorem onPoll_fwd_le (P : Policy σ) (e : Ent σ) (t : Nat) : e.fwd.length ≤ (e.onPoll P t).fwd.length := by
  unfold Ent.onPoll
  split
  · exact Nat.le_refl _
  · split
    · split
      · simp
      · rw [ensurePoll_fwd]; simp
    · rw [ensurePoll_fwd]; exact Nat.le_refl _

/-- a poll clears the flag and re-arms it or not; if it forwarded nothing and re-armed, the wait is
    the policy's answer right after its refusal -/
theorem onPoll_poll (P : Policy σ) (e : Ent σ) (t : Nat) :
    (e.onPoll P t).poll = none ∨
    (∃ w, (e.onPoll P t).poll = some (t + w) ∧
      ((e.onPoll P t).fwd.length = e.fwd.length →
        (P.acq e.pol t).2 = false ∧ w = (P.tua (P.acq e.pol t).1 t).2)) := by
  unfold Ent.onPoll
  cases e.queue with
  | nil => left; rfl
  | cons h rest =>
    by_cases ha : (P.acq e.pol t).2 = true
    · simp only [ha, if_true]
      cases rest with
      | nil => left; rfl
      | cons h2 r2 =>
        right
        refine ⟨_, by rw [ensurePoll_poll], ?_⟩
        intro hlen
        rw [ensurePoll_fwd] at hlen
        simp only [List.length_cons] at hlen
        omega
    · have ha' : (P.acq e.pol t).2 = false := by simpa using ha
      simp only [ha', Bool.false_eq_true, if_false]
      right
      exact ⟨_, by rw [ensurePoll_poll], fun _ => ⟨trivial, rfl⟩⟩

/-- whatever is queued has a poll event coming for it -/
def Ent.Covered (e : Ent σ) : Prop := e.queue ≠ [] → e.poll.isSome = true

theorem step_covered (P : Policy σ) (qcap : Nat) (e : Ent σ) (a : Act) (h : e.Covered) :
    (e.step P qcap a).Covered := by
  unfold Ent.Covered at *
  cases a with
  | req id t =>
    simp only [Ent.step, Ent.onReq]
    split
    · split
      · rename_i hq0; intro hq; exact absurd hq0 hq
      · intro _; exact ensurePoll_isSome P _ t
    · split
      · intro _; exact ensurePoll_isSome P _ t
      · exact h
  | poll t =>
    simp only [Ent.step, Ent.onPoll]
    split
    · rename_i hq; intro hq'; exact absurd hq hq'
    · split
      · split
        · intro hq; exact absurd rfl hq
        · intro _; exact ensurePoll_isSome P _ t
      · intro _; exact ensurePoll_isSome P _ t

theorem run_covered (P : Policy σ) (qcap : Nat) : ∀ (acts : List Act) (e : Ent σ), e.Covered →
    (Ent.run P qcap e acts).Covered
  | [], _, h => h
  | a :: as, e, h => run_covered P qcap as _ (step_covered P qcap e a h)

/-- the Spec's `outstanding`, folded over the model's own trace, is the model's poll flag -/
theorem outstanding_trace (P : Policy σ) (qcap : Nat) : ∀ (acts : List Act) (e : Ent σ),
    outstanding e.poll (Ent.trace P qcap e acts) = (Ent.run P qcap e acts).poll := by
  intro acts
  induction acts with
  | nil => intro e; rfl
  | cons a as ih =>
    intro e
    simp only [Ent.trace, outstanding, Ent.run]
    rw [← ih (e.step P qcap a)]
    congr 1
    cases a with
    | req id t =>
      simp only [Ent.eobs1, Ent.step]
      rcases onReq_poll P qcap e id t with h | ⟨h0, w, h⟩
      · rw [h]; cases hp : e.poll <;> simp
      · rw [h, h0]; simp
    | poll t =>
      simp only [Ent.eobs1, Ent.step]
      cases (e.onPoll P t).poll <;> simp

theorem singlePoll_trace (P : Policy σ) (qcap : Nat) : ∀ (acts : List Act) (e : Ent σ),
    singlePollOK e.poll (Ent.trace P qcap e acts) = true := by
  intro acts
  induction acts with
  | nil => intro e; rfl
  | cons a as ih =>
    intro e
    simp only [Ent.trace, singlePollOK, Bool.and_eq_true]
    constructor
    · cases a with
      | req id t => simp only [Ent.eobs1]; cases hp : e.poll <;> simp
      | poll t => simp [Ent.eobs1]
    · have := ih (e.step P qcap a)
      have e2 : (match (e.eobs1 (e.step P qcap a) a).next with
          | some p => some p
          | none => if (e.eobs1 (e.step P qcap a) a).poll then none else e.poll) = (e.step P qcap a).poll := by
        cases a with
        | req id t =>
          simp only [Ent.eobs1, Ent.step]
          rcases onReq_poll P qcap e id t with h | ⟨h0, w, h⟩
          · rw [h]; cases hp : e.poll <;> simp
          · rw [h, h0]; simp
        | poll t =>
          simp only [Ent.eobs1, Ent.step]
          cases (e.onPoll P t).poll <;> simp
      rw [← e2] at this; exact this

/-- the policy answers a refusal with a positive wait (asked at the same instant, in the state the
    refusal left) -/
def RefusalWaits (P : Policy σ) : Prop :=
  ∀ s t, (P.acq s t).2 = false → 0 < (P.tua (P.acq s t).1 t).2

theorem noStall_trace (P : Policy σ) (hP : RefusalWaits P) (qcap : Nat) : ∀ (acts : List Act) (e : Ent σ),
    noStallOK (Ent.trace P qcap e acts) = true := by
  intro acts
  induction acts with
  | nil => intro e; rfl
  | cons a as ih =>
    intro e
    have := ih (e.step P qcap a)
    simp only [noStallOK, Ent.trace, List.all_cons, Bool.and_eq_true] at this ⊢
    refine ⟨?_, this⟩
    cases a with
    | req id t =>
      simp only [Ent.eobs1, Ent.step]
      rcases onReq_poll P qcap e id t with h | ⟨h0, w, h⟩
      · rw [h]; cases hp : e.poll <;> simp
      · rw [h, h0]; simp
    | poll t =>
      simp only [Ent.eobs1, Ent.step]
      rcases onPoll_poll P e t with h | ⟨w, h, hw⟩
      · rw [h]
      · rw [h]
        show (decide (t ≤ t + w) &&
          !(true && !decide (e.fwd.length < (e.onPoll P t).fwd.length) && (t + w == t))) = true
        have h1 : decide (t ≤ t + w) = true := by simp
        rw [h1]
        by_cases hl : e.fwd.length < (e.onPoll P t).fwd.length
        · simp [hl]
        · have hlen : (e.onPoll P t).fwd.length = e.fwd.length := by
            have := onPoll_fwd_le P e t
            omega
          obtain ⟨hr, hw'⟩ := hw hlen
          have hpos := hP e.pol t hr
          have hne : (t + w == t) = false := by
            rw [beq_eq_false_iff_ne]; omega
          simp [hl, hne]

/-! ### `RefusalWaits` for the bucket policies and the oracle -/

theorem TB.refill_idem (c : TBCfg) (s : TB) (t : Nat) : (s.refill c t).refill c t = s.refill c t := by
  cases hl : s.last with
  | none => simp [TB.refill, hl]
  | some l =>
    by_cases h : t ≤ l
    · have e : s.refill c t = s := by simp [TB.refill, hl, h]
      rw [e, e]
    · have e : s.refill c t = ⟨min c.cap (s.tok + c.p * (t - l)), some t⟩ := by simp [TB.refill, hl, h]
      rw [e]; simp [TB.refill]

theorem AD.refill_idem (c : ADCfg) (s : AD) (t : Nat) : (s.refill c t).refill c t = s.refill c t := by
  cases hl : s.last with
  | none => simp [AD.refill, hl]
  | some l =>
    by_cases h : t ≤ l
    · have e : s.refill c t = s := by simp [AD.refill, hl, h]
      rw [e, e]
    · have e : s.refill c t = ⟨s.p, min (c.cap s.p) (s.tok + s.p * (t - l)), some t⟩ := by
        simp [AD.refill, hl, h]
      rw [e]; simp [AD.refill]

theorem tb_refusalWaits (c : TBCfg) : RefusalWaits (tbPolicy c) := by
  intro s t h
  simp only [tbPolicy, TB.acquire] at h ⊢
  by_cases hq : c.one ≤ (s.refill c t).tok
  · simp [hq] at h
  · simp only [hq, if_false]
    have hidem := TB.refill_idem c s t
    simp only [TB.tua, hidem, hq, if_false]
    exact waitOf_pos _ _

theorem lb_refusalWaits (c : LBCfg) : RefusalWaits (lbPolicy c) := by
  intro s t h
  simp only [lbPolicy, LB.acquire] at h ⊢
  cases hl : s.last with
  | none => simp [hl] at h
  | some l =>
    simp only [hl] at h ⊢
    by_cases hq : l ≤ t ∧ c.one ≤ c.p * (t - l)
    · simp [hq] at h
    · simp only [hq, if_false, LB.tua, LB.wait, hl]
      by_cases h1 : l ≤ t
      · have h2 : ¬ c.one ≤ c.p * (t - l) := fun x => hq ⟨h1, x⟩
        simp only [h1, h2, if_true, if_false]; exact waitOf_pos _ _
      · simp only [h1, if_false]; exact waitOf_pos _ _

theorem ad_refusalWaits (c : ADCfg) : RefusalWaits (adPolicy c) := by
  intro s t h
  simp only [adPolicy, AD.acquire] at h ⊢
  by_cases hq : c.one ≤ (s.refill c t).tok
  · simp [hq] at h
  · simp only [hq, if_false]
    have hidem := AD.refill_idem c s t
    simp only [AD.tua, hidem, hq, if_false]
    exact waitOf_pos _ _

/-- the Inductor's gate: whatever the smoothed interval truncates to, the 1 ns guard of
    `_ensure_poll_scheduled` makes the wait positive -/
theorem orc_refusalWaits : RefusalWaits orcPolicy := by
  intro s t _
  simp only [orcPolicy]
  split <;> omega

end HappyModel.C10
