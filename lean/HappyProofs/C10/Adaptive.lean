import HappyProofs.C10.Bucket
/-! Adaptive policy: the rate stays in `[pmin, pmax]`; admissions satisfy the bucket bound of `pmax`. -/
namespace HappyModel.C10

structure ADOk (c : ADCfg) : Prop where
  range : c.pmin ≤ c.pmax
  factor : c.fn ≤ c.fd

def AD.InRange (c : ADCfg) (s : AD) : Prop := c.pmin ≤ s.p ∧ s.p ≤ c.pmax

theorem AD.refill_p (c : ADCfg) (s : AD) (t : Nat) : (s.refill c t).p = s.p := by
  unfold AD.refill; split
  · rfl
  · split <;> rfl

theorem AD.step_range (c : ADCfg) (hc : ADOk c) (s : AD) (o : Op) (h : s.InRange c) :
    (s.step c o).InRange c := by
  obtain ⟨h1, h2⟩ := h
  have := hc.range
  cases o with
  | acq t =>
    simp only [AD.step, AD.acquire, AD.InRange]
    split <;> simp only [AD.refill_p] <;> exact ⟨h1, h2⟩
  | tua t =>
    simp only [AD.step, AD.tua, AD.InRange]
    split <;> simp only [AD.refill_p] <;> exact ⟨h1, h2⟩
  | succ t =>
    simp only [AD.step, AD.success, AD.InRange]
    exact ⟨Nat.le_min.mpr ⟨this, by omega⟩, Nat.min_le_left _ _⟩
  | fail t =>
    simp only [AD.step, AD.failure, AD.InRange]
    have hd : s.p * c.fn / c.fd ≤ s.p := by
      apply Nat.div_le_of_le_mul
      rw [Nat.mul_comm c.fd s.p]
      exact Nat.mul_le_mul_left _ hc.factor
    exact ⟨Nat.le_max_left _ _, Nat.max_le.mpr ⟨this, by omega⟩⟩

theorem ad_rates_ok (c : ADCfg) (hc : ADOk c) : ∀ (ops : List Op) (s : AD), s.InRange c →
    ratesOK c.pmin c.pmax (AD.rates c s ops) = true
  | [], _, _ => by simp [AD.rates, ratesOK]
  | o :: os, s, h => by
    have h' := AD.step_range c hc s o h
    have ih := ad_rates_ok c hc os _ h'
    simp only [AD.rates, ratesOK, List.all_cons, Bool.and_eq_true, decide_eq_true_eq] at ih ⊢
    exact ⟨h', ih⟩

theorem ADCfg.cap_mono (c : ADCfg) {p q : Nat} (h : p ≤ q) : c.cap p ≤ c.cap q :=
  Nat.div_le_div_right (Nat.mul_le_mul_right _ h)

theorem AD.refill_spec (c : ADCfg) (s : AD) (t : Nat) (hp : s.p ≤ c.pmax)
    (h : ∀ l, s.last = some l → l ≤ t) :
    (s.refill c t).last = some t ∧
    (∀ l, s.last = some l → (s.refill c t).tok ≤ s.tok + c.pmax * (t - l)) ∧
    (∀ B, c.cap c.pmax ≤ B → s.tok ≤ B → (s.refill c t).tok ≤ B) := by
  unfold AD.refill
  cases hl : s.last with
  | none => simp
  | some l =>
    have hlt := h l hl
    by_cases h2 : t ≤ l
    · have : t = l := by omega
      subst this
      simp [hl]
    · simp only [h2, if_false]
      refine ⟨by simp, ?_, ?_⟩
      · intro l' hl'; cases hl'
        have : s.p * (t - l) ≤ c.pmax * (t - l) := Nat.mul_le_mul_right _ hp
        have := Nat.min_le_right (c.cap s.p) (s.tok + s.p * (t - l))
        omega
      · intro B hB _
        exact Nat.le_trans (Nat.min_le_left _ _) (Nat.le_trans (c.cap_mono hp) hB)

theorem ad_admitted_acq (c : ADCfg) (s : AD) (t : Nat) (os : List Op) :
    AD.admitted c s (.acq t :: os) =
      if c.one ≤ (s.refill c t).tok then
        t :: AD.admitted c ⟨s.p, (s.refill c t).tok - c.one, (s.refill c t).last⟩ os
      else AD.admitted c (s.refill c t) os := by
  simp only [AD.admitted, AD.acquire]
  split <;> simp_all

theorem ad_seg (c : ADCfg) (hc : ADOk c) (B t0 : Nat) : ∀ (ops : List Op) (s : AD) (l k : Nat),
    s.InRange c → s.last = some l → t0 ≤ l → MonoOps l ops →
    k * c.one + s.tok ≤ B + c.pmax * (l - t0) →
    segOK B c.pmax c.one t0 k (AD.admitted c s ops) = true := by
  intro ops
  induction ops with
  | nil => intro s l k _ _ _ _ _; simp [AD.admitted, segOK]
  | cons o os ih =>
    intro s l k hr hl h0 hm hpot
    obtain ⟨hm1, hm2⟩ := hm
    have key : ∀ t, l ≤ t → (s.refill c t).last = some t ∧
        k * c.one + (s.refill c t).tok ≤ B + c.pmax * (t - t0) := by
      intro t hlt
      obtain ⟨r1, r2, _⟩ := AD.refill_spec c s t hr.2 (by intro l' hl'; rw [hl] at hl'; cases hl'; exact hlt)
      have := r2 l hl
      have := mul_sub_split c.pmax t0 l t h0 hlt
      exact ⟨r1, by omega⟩
    have hr' := AD.step_range c hc s o hr
    cases o with
    | acq t =>
      simp only [Op.time] at hm1 hm2
      obtain ⟨k1, k2⟩ := key t hm1
      rw [ad_admitted_acq]
      by_cases hq : c.one ≤ (s.refill c t).tok
      · simp only [hq, if_true, segOK, Bool.and_eq_true, decide_eq_true_eq]
        have e : (k + 1) * c.one = k * c.one + c.one := Nat.succ_mul _ _
        refine ⟨by omega, ih _ t (k + 1) ⟨hr.1, hr.2⟩ k1 (by omega) hm2 (by simp only []; omega)⟩
      · simp only [hq, if_false]
        exact ih _ t k (by simp only [AD.InRange, AD.refill_p]; exact hr) k1 (by omega) hm2 k2
    | tua t =>
      simp only [Op.time] at hm1 hm2
      obtain ⟨k1, k2⟩ := key t hm1
      have e : AD.step c s (.tua t) = s.refill c t := by
        simp only [AD.step, AD.tua]; split <;> rfl
      simp only [AD.admitted, e]
      exact ih _ t k (by simp only [AD.InRange, AD.refill_p]; exact hr) k1 (by omega) hm2 k2
    | succ t =>
      simp only [Op.time] at hm1 hm2
      simp only [AD.admitted]
      exact ih _ l k hr' (by simp [AD.step, AD.success, hl]) h0 (MonoOps.weaken hm1 hm2)
        (by simpa [AD.step, AD.success] using hpot)
    | fail t =>
      simp only [Op.time] at hm1 hm2
      simp only [AD.admitted]
      exact ih _ l k hr' (by simp [AD.step, AD.failure, hl]) h0 (MonoOps.weaken hm1 hm2)
        (by
          have := Nat.min_le_left s.tok (c.cap (c.dec s.p))
          simp only [AD.step, AD.failure]; omega)

theorem ad_bucketOK (c : ADCfg) (hc : ADOk c) (B : Nat) (hB : c.cap c.pmax ≤ B) :
    ∀ (ops : List Op) (s : AD), s.InRange c → s.tok ≤ B →
    (∀ l, s.last = some l → MonoOps l ops) → (s.last = none → MonoOps 0 ops) →
    bucketOK B c.pmax c.one (AD.admitted c s ops) = true := by
  intro ops
  induction ops with
  | nil => intro s _ _ _ _; simp [AD.admitted, bucketOK]
  | cons o os ih =>
    intro s hr hs hm hm0
    have hle : ∀ l, s.last = some l → l ≤ o.time := fun l hl => (hm l hl).1
    have hm2 : MonoOps o.time os := by
      cases hl : s.last with
      | none => exact (hm0 hl).2
      | some l => exact (hm l hl).2
    have hr' := AD.step_range c hc s o hr
    have next : ∀ (s' : AD), s'.InRange c → s'.tok ≤ B → s'.last = some o.time →
        bucketOK B c.pmax c.one (AD.admitted c s' os) = true := by
      intro s' h0 h1 h2
      exact ih s' h0 h1 (by intro l hl; rw [h2] at hl; cases hl; exact hm2) (by intro h; rw [h2] at h; cases h)
    cases o with
    | acq t =>
      simp only [Op.time] at hle hm2 next
      obtain ⟨r1, _, r4⟩ := AD.refill_spec c s t hr.2 hle
      have rB := r4 B hB hs
      rw [ad_admitted_acq]
      by_cases hq : c.one ≤ (s.refill c t).tok
      · simp only [hq, if_true, bucketOK, Bool.and_eq_true, decide_eq_true_eq]
        refine ⟨⟨by omega, ?_⟩, next _ ⟨hr.1, hr.2⟩ (by simp only []; omega) r1⟩
        exact ad_seg c hc B t os _ t 1 ⟨hr.1, hr.2⟩ r1 (Nat.le_refl _) hm2 (by simp only []; omega)
      · simp only [hq, if_false]
        exact next _ (by simp only [AD.InRange, AD.refill_p]; exact hr) rB r1
    | tua t =>
      simp only [Op.time] at hle hm2 next
      obtain ⟨r1, _, r4⟩ := AD.refill_spec c s t hr.2 hle
      have e : AD.step c s (.tua t) = s.refill c t := by
        simp only [AD.step, AD.tua]; split <;> rfl
      simp only [AD.admitted, e]
      exact next _ (by simp only [AD.InRange, AD.refill_p]; exact hr) (r4 B hB hs) r1
    | succ t =>
      simp only [AD.admitted]
      simp only [Op.time] at hle hm2
      exact ih _ hr' (by simpa [AD.step, AD.success] using hs)
        (fun l hl => MonoOps.weaken (hle l (by simpa [AD.step, AD.success] using hl)) hm2)
        (fun _ => MonoOps.weaken (Nat.zero_le _) hm2)
    | fail t =>
      simp only [AD.admitted]
      simp only [Op.time] at hle hm2
      exact ih _ hr' (by
          have := Nat.min_le_left s.tok (c.cap (c.dec s.p))
          simp only [AD.step, AD.failure]; omega)
        (fun l hl => MonoOps.weaken (hle l (by simpa [AD.step, AD.failure] using hl)) hm2)
        (fun _ => MonoOps.weaken (Nat.zero_le _) hm2)

end HappyModel.C10
