import HappyModel.C10.Spec
/-! Leaky bucket spacing, sliding-window and fixed-window bounds. -/
namespace HappyModel.C10

/-! ### leaky bucket -/

theorem lb_admitted_acq_some (c : LBCfg) (s : LB) (l t : Nat) (os : List Op) (hl : s.last = some l) :
    (lbPolicy c).admitted s (.acq t :: os) =
      if l ≤ t ∧ c.one ≤ c.p * (t - l) then t :: (lbPolicy c).admitted ⟨some t⟩ os
      else (lbPolicy c).admitted s os := by
  simp only [Policy.admitted, lbPolicy, LB.acquire, hl]
  split <;> simp_all

theorem lb_admitted_acq_none (c : LBCfg) (s : LB) (t : Nat) (os : List Op) (hl : s.last = none) :
    (lbPolicy c).admitted s (.acq t :: os) = t :: (lbPolicy c).admitted ⟨some t⟩ os := by
  simp [Policy.admitted, lbPolicy, LB.acquire, hl]

theorem lb_spacing (c : LBCfg) : ∀ (ops : List Op) (s : LB),
    (∀ l, s.last = some l → spacingOK c.p c.one 0 (l :: (lbPolicy c).admitted s ops) = true) ∧
    (s.last = none → spacingOK c.p c.one 0 ((lbPolicy c).admitted s ops) = true) := by
  intro ops
  induction ops with
  | nil => intro s; simp [Policy.admitted, spacingOK]
  | cons o os ih =>
    intro s
    cases o with
    | acq t =>
      have ih1 := (ih ⟨some t⟩).1 t rfl
      constructor
      · intro l hl
        rw [lb_admitted_acq_some c s l t os hl]
        by_cases hq : l ≤ t ∧ c.one ≤ c.p * (t - l)
        · rw [if_pos hq]
          simp only [spacingOK, Bool.and_eq_true, decide_eq_true_eq]
          exact ⟨⟨hq.1, by omega⟩, ih1⟩
        · simp only [hq, if_false]
          exact (ih s).1 l hl
      · intro hl
        rw [lb_admitted_acq_none c s t os hl]
        exact ih1
    | tua t =>
      simp only [Policy.admitted, lbPolicy, LB.tua]
      exact ih s
    | succ t => simp only [Policy.admitted]; exact ih s
    | fail t => simp only [Policy.admitted]; exact ih s

/-! ### counting lemmas -/

theorem cnt_append (a b : Nat) (x y : List Nat) : cnt a b (x ++ y) = cnt a b x + cnt a b y := by
  simp [cnt, List.filter_append]

theorem cntWin_append (W k : Nat) (x y : List Nat) :
    cntWin W k (x ++ y) = cntWin W k x + cntWin W k y := by
  simp [cntWin, List.filter_append]

theorem filter_length_le_of_imp (p q : Nat → Bool) (l : List Nat)
    (h : ∀ x ∈ l, p x = true → q x = true) : (l.filter p).length ≤ (l.filter q).length := by
  induction l with
  | nil => simp
  | cons x xs ih =>
    have ih' := ih (fun y hy => h y (List.mem_cons_of_mem _ hy))
    have hx := h x (List.mem_cons_self)
    simp only [List.filter_cons]
    cases hp : p x <;> cases hq : q x <;> simp_all <;> omega

theorem filter_length_le_add (p q r : Nat → Bool) (l : List Nat)
    (h : ∀ x ∈ l, p x = true → q x = true ∨ r x = true) :
    (l.filter p).length ≤ (l.filter q).length + (l.filter r).length := by
  induction l with
  | nil => simp
  | cons x xs ih =>
    have ih' := ih (fun y hy => h y (List.mem_cons_of_mem _ hy))
    have hx := h x (List.mem_cons_self)
    simp only [List.filter_cons]
    cases hp : p x <;> cases hq : q x <;> cases hr : r x <;> simp_all <;> omega

theorem takeWhile_all (p : Nat → Bool) : ∀ (l : List Nat) x, x ∈ l.takeWhile p → p x = true := by
  intro l
  induction l with
  | nil => intro x h; simp at h
  | cons y ys ih =>
    intro x h
    simp only [List.takeWhile_cons] at h
    cases hy : p y with
    | false => simp [hy] at h
    | true =>
      simp only [hy, if_true, List.mem_cons] at h
      rcases h with rfl | h
      · exact hy
      · exact ih x h

/-! ### sliding window -/

theorem sw_admitted_acq (c : WCfg) (s : SW) (t : Nat) (os : List Op) :
    (swPolicy c).admitted s (.acq t :: os) =
      if (s.prune c t).log.length < c.N then
        t :: (swPolicy c).admitted ⟨(s.prune c t).log ++ [t]⟩ os
      else (swPolicy c).admitted (s.prune c t) os := by
  simp only [Policy.admitted, swPolicy, SW.acquire]
  split <;> simp_all

/-- `hist` = everything admitted so far = `dropped ++ s.log`; all of `dropped` expired before `now` -/
theorem sw_main (c : WCfg) : ∀ (ops : List Op) (s : SW) (dropped : List Nat) (now : Nat),
    MonoOps now ops → (∀ e ∈ dropped, e + c.W < now) →
    (∀ a, cnt a (a + c.W) (dropped ++ s.log) ≤ c.N) →
    ∀ a, cnt a (a + c.W) (dropped ++ s.log ++ (swPolicy c).admitted s ops) ≤ c.N := by
  intro ops
  induction ops with
  | nil => intro s d now _ _ h a; simpa [Policy.admitted] using h a
  | cons o os ih =>
    intro s d now hm hd hc
    obtain ⟨hm1, hm2⟩ := hm
    -- pruning at a later time only moves expired entries from the log to `dropped`
    have pr : ∀ t, now ≤ t →
        (d ++ s.log.takeWhile (fun e => decide (e + c.W < t))) ++ (s.prune c t).log = d ++ s.log ∧
        (∀ e ∈ d ++ s.log.takeWhile (fun e => decide (e + c.W < t)), e + c.W < t) := by
      intro t ht
      constructor
      · simp only [SW.prune, List.append_assoc, List.takeWhile_append_dropWhile]
      · intro e he
        rcases List.mem_append.mp he with h | h
        · have := hd e h; omega
        · simpa using takeWhile_all _ _ e h
    cases o with
    | acq t =>
      simp only [Op.time] at hm1 hm2
      obtain ⟨p1, p2⟩ := pr t hm1
      rw [sw_admitted_acq]
      by_cases hq : (s.prune c t).log.length < c.N
      · rw [if_pos hq]
        intro a
        have e1 : d ++ s.log ++ t :: (swPolicy c).admitted ⟨(s.prune c t).log ++ [t]⟩ os =
            (d ++ s.log.takeWhile (fun e => decide (e + c.W < t))) ++ ((s.prune c t).log ++ [t]) ++
              (swPolicy c).admitted ⟨(s.prune c t).log ++ [t]⟩ os := by
          rw [← p1]; simp
        have := ih ⟨(s.prune c t).log ++ [t]⟩ _ t hm2 p2 (by
          intro a'
          rw [← List.append_assoc, p1, cnt_append]
          have h0 := hc a'
          by_cases hin : a' ≤ t ∧ t ≤ a' + c.W
          · -- everything counted in the window is still in the pruned log
            have hle : cnt a' (a' + c.W) (d ++ s.log) ≤ (s.prune c t).log.length := by
              rw [← p1, cnt_append]
              have z : cnt a' (a' + c.W) (d ++ s.log.takeWhile (fun e => decide (e + c.W < t))) = 0 := by
                simp only [cnt, List.length_eq_zero_iff, List.filter_eq_nil_iff, decide_eq_true_eq]
                intro e he; have := p2 e he; omega
              rw [z, Nat.zero_add]
              exact List.length_filter_le _ _
            have : cnt a' (a' + c.W) [t] ≤ 1 := List.length_filter_le _ _
            omega
          · have : cnt a' (a' + c.W) [t] = 0 := by simp [cnt, hin]
            omega) a
        rw [e1]; exact this
      · rw [if_neg hq]
        intro a
        have := ih (s.prune c t) _ t hm2 p2 (by intro a'; rw [p1]; exact hc a') a
        rw [p1] at this
        exact this
    | tua t =>
      simp only [Op.time] at hm1 hm2
      obtain ⟨p1, p2⟩ := pr t hm1
      have e : ((swPolicy c).tua s t).1 = s.prune c t := by
        simp only [swPolicy, SW.tua]; split
        · rfl
        · split <;> rfl
      simp only [Policy.admitted, e]
      intro a
      have := ih (s.prune c t) _ t hm2 p2 (by intro a'; rw [p1]; exact hc a') a
      rw [p1] at this
      exact this
    | succ t =>
      simp only [Op.time] at hm1 hm2
      simp only [Policy.admitted]
      exact ih s d t hm2 (fun e he => by have := hd e he; omega) hc
    | fail t =>
      simp only [Op.time] at hm1 hm2
      simp only [Policy.admitted]
      exact ih s d t hm2 (fun e he => by have := hd e he; omega) hc

end HappyModel.C10
