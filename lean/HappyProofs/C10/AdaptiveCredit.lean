import HappyProofs.C10.TuaRunAD
import HappyProofs.C10.Reach
/-!
Adaptive bucket: the sharp admission bound.

`_refill` credits `current_rate × (now − last_refill)` at every `try_acquire` / `time_until_available`
call, with the rate in force *at that call* — a rate change between two calls is applied retroactively
to the whole time since the last call.  `AD.credit` is the sum of those products over a run (the
discrete "∫ rate" the code actually computes).  Every admission is paid for by tokens held at the start
or by this credit (`ad_credit_bound`, any state, any operation list, no side conditions); between two
rate changes the credit is exactly `rate × elapsed` (`ad_credit_const`), and it never exceeds
`pmax × elapsed` (`ad_credit_le_pmax`), so the bound is at least as sharp as the `pmax` one.  The naive
reading "capacity + ∫ (rate in force at each instant)" is false of the code
(`ad_naive_integral_bound_false`).
-/
namespace HappyModel.C10

/-- the state after a list of operations -/
def AD.run (c : ADCfg) : AD → List Op → AD
  | s, [] => s
  | s, o :: os => AD.run c (s.step c o) os

/-- what one `_refill` at `t` offers before capping -/
def AD.credit1 (s : AD) (t : Nat) : Nat :=
  match s.last with
  | some l => s.p * (t - l)
  | none => 0

/-- total refill credit offered along a run: Σ over the calls of (rate at the call) × (time since the
    previous call) -/
def AD.credit (c : ADCfg) : AD → List Op → Nat
  | _, [] => 0
  | s, .acq t :: os => s.credit1 t + AD.credit c (s.step c (.acq t)) os
  | s, .tua t :: os => s.credit1 t + AD.credit c (s.step c (.tua t)) os
  | s, .succ t :: os => AD.credit c (s.step c (.succ t)) os
  | s, .fail t :: os => AD.credit c (s.step c (.fail t)) os

theorem AD.refill_credit (c : ADCfg) (s : AD) (t : Nat) : (s.refill c t).tok ≤ s.tok + s.credit1 t := by
  unfold AD.refill AD.credit1
  cases hl : s.last with
  | none => simp
  | some l =>
    simp only
    split
    · omega
    · exact Nat.min_le_right _ _

/-- **credit bound**: admissions · one token + tokens left ≤ tokens at the start + credit -/
theorem ad_credit_bound (c : ADCfg) : ∀ (ops : List Op) (s : AD),
    (AD.admitted c s ops).length * c.one + (AD.run c s ops).tok ≤ s.tok + AD.credit c s ops := by
  intro ops
  induction ops with
  | nil => intro s; simp [AD.admitted, AD.run, AD.credit]
  | cons o os ih =>
    intro s
    cases o with
    | acq t =>
      have hr := AD.refill_credit c s t
      have ih' := ih (s.step c (.acq t))
      simp only [AD.admitted, AD.run, AD.credit]
      simp only [AD.step, AD.acquire] at ih' ⊢
      by_cases hq : c.one ≤ (s.refill c t).tok
      · simp only [hq, if_true, List.length_cons] at ih' ⊢
        rw [Nat.succ_mul]
        omega
      · simp only [hq, if_false, Bool.false_eq_true] at ih' ⊢
        omega
    | tua t =>
      have hr := AD.refill_credit c s t
      have ih' := ih (s.step c (.tua t))
      simp only [AD.admitted, AD.run, AD.credit]
      have e : (s.step c (.tua t)).tok = (s.refill c t).tok := by
        simp only [AD.step]; rw [AD.tua_fst]
      omega
    | succ t =>
      have ih' := ih (s.step c (.succ t))
      simp only [AD.admitted, AD.run, AD.credit]
      have e : (s.step c (.succ t)).tok = s.tok := rfl
      omega
    | fail t =>
      have ih' := ih (s.step c (.fail t))
      simp only [AD.admitted, AD.run, AD.credit]
      have e : (s.step c (.fail t)).tok ≤ s.tok := Nat.min_le_left _ _
      omega

theorem endTime_ge : ∀ (ops : List Op) (now : Nat), MonoOps now ops → now ≤ endTime now ops
  | [], _, _ => Nat.le_refl _
  | o :: os, now, hm => Nat.le_trans hm.1 (endTime_ge os o.time hm.2)

theorem AD.step_call (c : ADCfg) (s : AD) (t : Nat) (h : ∀ l, s.last = some l → l ≤ t) :
    ((s.step c (.acq t)).last = some t ∧ (s.step c (.acq t)).p = s.p) ∧
    ((s.step c (.tua t)).last = some t ∧ (s.step c (.tua t)).p = s.p) := by
  obtain ⟨r1, rp, _⟩ := AD.refill_le c s t h
  constructor
  · simp only [AD.step, AD.acquire]; split <;> exact ⟨r1, by first | rfl | exact rp⟩
  · simp only [AD.step]; rw [AD.tua_fst]; exact ⟨r1, rp⟩

/-- between two rate changes the credit is exactly `rate × elapsed` -/
theorem ad_credit_const (c : ADCfg) : ∀ (ops : List Op) (s : AD) (l : Nat), s.last = some l → MonoOps l ops →
    NoFeedback ops → AD.credit c s ops = s.p * (endTime l ops - l) := by
  intro ops
  induction ops with
  | nil => intro s l _ _ _; simp [AD.credit, endTime]
  | cons o os ih =>
    intro s l hl hm hn
    obtain ⟨hm1, hm2⟩ := hm
    have hn' : NoFeedback os := fun o' ho' => hn o' (List.mem_cons_of_mem _ ho')
    have hle : ∀ l', s.last = some l' → l' ≤ o.time := by
      intro l' hl'; rw [hl] at hl'; cases hl'; exact hm1
    cases o with
    | acq t =>
      simp only [Op.time] at hm1 hm2 hle
      obtain ⟨⟨a1, a2⟩, _⟩ := AD.step_call c s t hle
      have := ih _ t a1 hm2 hn'
      have hge := endTime_ge os t hm2
      simp only [AD.credit, endTime, Op.time, AD.credit1, hl, this, a2]
      exact mul_sub_split s.p l t _ hm1 hge
    | tua t =>
      simp only [Op.time] at hm1 hm2 hle
      obtain ⟨_, ⟨a1, a2⟩⟩ := AD.step_call c s t hle
      have := ih _ t a1 hm2 hn'
      have hge := endTime_ge os t hm2
      simp only [AD.credit, endTime, Op.time, AD.credit1, hl, this, a2]
      exact mul_sub_split s.p l t _ hm1 hge
    | succ t => rcases hn (.succ t) (List.mem_cons_self) with ⟨_, h⟩ | ⟨_, h⟩ <;> cases h
    | fail t => rcases hn (.fail t) (List.mem_cons_self) with ⟨_, h⟩ | ⟨_, h⟩ <;> cases h

/-- the credit never exceeds `pmax × elapsed` -/
theorem ad_credit_le_pmax (c : ADCfg) (hc : ADOk c) : ∀ (ops : List Op) (s : AD) (lo now : Nat), s.InRange c →
    (∀ l, s.last = some l → lo ≤ l ∧ l ≤ now) → lo ≤ now → MonoOps now ops →
    AD.credit c s ops ≤ c.pmax * (endTime now ops - lo) := by
  intro ops
  induction ops with
  | nil => intro s lo now _ _ _ _; simp [AD.credit]
  | cons o os ih =>
    intro s lo now hr hl hlo hm
    obtain ⟨hm1, hm2⟩ := hm
    have hr' := AD.step_range c hc s o hr
    have hle : ∀ l', s.last = some l' → l' ≤ o.time := fun l' hl' => Nat.le_trans (hl l' hl').2 hm1
    have hc1 : ∀ t, now ≤ t → s.credit1 t ≤ c.pmax * (t - lo) := by
      intro t ht
      unfold AD.credit1
      cases hs : s.last with
      | none => simp
      | some l =>
        obtain ⟨x, y⟩ := hl l hs
        exact Nat.mul_le_mul hr.2 (by omega)
    cases o with
    | acq t =>
      simp only [Op.time] at hm1 hm2 hle hr'
      obtain ⟨⟨a1, _⟩, _⟩ := AD.step_call c s t hle
      have := ih _ t t hr' (by intro l hl'; rw [a1] at hl'; cases hl'; exact ⟨Nat.le_refl _, Nat.le_refl _⟩)
        (Nat.le_refl _) hm2
      have hge := endTime_ge os t hm2
      have := hc1 t hm1
      have := mul_sub_split c.pmax lo t (endTime t os) (by omega) hge
      simp only [AD.credit, endTime, Op.time]
      omega
    | tua t =>
      simp only [Op.time] at hm1 hm2 hle hr'
      obtain ⟨_, ⟨a1, _⟩⟩ := AD.step_call c s t hle
      have := ih _ t t hr' (by intro l hl'; rw [a1] at hl'; cases hl'; exact ⟨Nat.le_refl _, Nat.le_refl _⟩)
        (Nat.le_refl _) hm2
      have hge := endTime_ge os t hm2
      have := hc1 t hm1
      have := mul_sub_split c.pmax lo t (endTime t os) (by omega) hge
      simp only [AD.credit, endTime, Op.time]
      omega
    | succ t =>
      simp only [Op.time] at hm1 hm2 hr'
      simp only [AD.credit, endTime, Op.time]
      exact ih _ lo t hr' (fun l hl' => by obtain ⟨x, y⟩ := hl l hl'; exact ⟨x, by omega⟩) (by omega) hm2
    | fail t =>
      simp only [Op.time] at hm1 hm2 hr'
      simp only [AD.credit, endTime, Op.time]
      exact ih _ lo t hr' (fun l hl' => by obtain ⟨x, y⟩ := hl l hl'; exact ⟨x, by omega⟩) (by omega) hm2

/-- ∫ of the rate in force over real time: before each operation, (rate now) × (time since the
    previous operation) -/
def AD.rateIntegral (c : ADCfg) : AD → Nat → List Op → Nat
  | _, _, [] => 0
  | s, now, o :: os => s.p * (o.time - now) + AD.rateIntegral c (s.step c o) o.time os

end HappyModel.C10
