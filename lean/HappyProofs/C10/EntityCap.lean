import HappyProofs.C10.EntityPoll
/-!
The queue respects its configured capacity: for any policy, any capacity (0 included) and any schedule
of deliveries the depth never exceeds the capacity, a request is dropped exactly when it is refused while
the queue is full, and `dropped` counts exactly those.
-/
namespace HappyModel.C10

variable {σ : Type}

def Ent.cobs1 (e e' : Ent σ) : Act → CObs
  | .req _ _ => ⟨true, decide (e.fwd.length < e'.fwd.length), decide (e.dropped.length < e'.dropped.length),
      e'.queue.length⟩
  | .poll _ => ⟨false, decide (e.fwd.length < e'.fwd.length), decide (e.dropped.length < e'.dropped.length),
      e'.queue.length⟩

def Ent.ctrace (P : Policy σ) (qcap : Nat) : Ent σ → List Act → List CObs
  | _, [] => []
  | e, a :: as => e.cobs1 (e.step P qcap a) a :: Ent.ctrace P qcap (e.step P qcap a) as

theorem ensurePoll_dropped (P : Policy σ) (e : Ent σ) (t : Nat) : (e.ensurePoll P t).dropped = e.dropped := by
  unfold Ent.ensurePoll; split <;> rfl

theorem step_cap (P : Policy σ) (qcap : Nat) (e : Ent σ) (a : Act) (h : e.queue.length ≤ qcap) :
    capStepOK (some qcap) e.queue.length (e.cobs1 (e.step P qcap a) a) = true ∧
    (e.step P qcap a).queue.length ≤ qcap := by
  obtain ⟨pol, queue, poll, fwd, dropped, recv⟩ := e
  simp only at h
  cases a with
  | req id t =>
    by_cases ha : (P.acq pol t).2 = true
    · cases queue with
      | nil => simp [Ent.step, Ent.onReq, Ent.cobs1, capStepOK, ha]
      | cons x rest =>
        simp only [Ent.step, Ent.onReq, Ent.cobs1, capStepOK, ha, if_true, ensurePoll_queue, ensurePoll_fwd,
          ensurePoll_dropped]
        simp at h ⊢
        omega
    · have ha' : (P.acq pol t).2 = false := by simpa using ha
      by_cases hc : queue.length < qcap
      · simp only [Ent.step, Ent.onReq, Ent.cobs1, capStepOK, ha', Bool.false_eq_true, if_false, hc, if_true,
          ensurePoll_queue, ensurePoll_fwd, ensurePoll_dropped]
        simp
        omega
      · simp only [Ent.step, Ent.onReq, Ent.cobs1, capStepOK, ha', Bool.false_eq_true, if_false, hc]
        simp
        omega
  | poll t =>
    cases queue with
    | nil => simp [Ent.step, Ent.onPoll, Ent.cobs1, capStepOK]
    | cons x rest =>
      by_cases ha : (P.acq pol t).2 = true
      · cases rest with
        | nil => simp [Ent.step, Ent.onPoll, Ent.cobs1, capStepOK, ha]
        | cons y r =>
          simp only [Ent.step, Ent.onPoll, Ent.cobs1, capStepOK, ha, if_true, ensurePoll_queue, ensurePoll_fwd,
            ensurePoll_dropped]
          simp at h ⊢
          omega
      · have ha' : (P.acq pol t).2 = false := by simpa using ha
        simp only [Ent.step, Ent.onPoll, Ent.cobs1, capStepOK, ha', Bool.false_eq_true, if_false,
          ensurePoll_queue, ensurePoll_fwd, ensurePoll_dropped]
        simp at h ⊢
        omega

theorem cap_trace (P : Policy σ) (qcap : Nat) : ∀ (acts : List Act) (e : Ent σ), e.queue.length ≤ qcap →
    capacityOK (some qcap) e.queue.length (Ent.ctrace P qcap e acts) = true ∧
    (Ent.run P qcap e acts).queue.length ≤ qcap := by
  intro acts
  induction acts with
  | nil => intro e h; exact ⟨rfl, h⟩
  | cons a as ih =>
    intro e h
    obtain ⟨h1, h2⟩ := step_cap P qcap e a h
    obtain ⟨i1, i2⟩ := ih _ h2
    simp only [Ent.ctrace, capacityOK, Bool.and_eq_true, Ent.run]
    refine ⟨⟨h1, ?_⟩, i2⟩
    cases a <;> exact i1

/-- `dropped` counts exactly the deliveries flagged as drops -/
theorem dropped_trace (P : Policy σ) (qcap : Nat) : ∀ (acts : List Act) (e : Ent σ),
    (Ent.run P qcap e acts).dropped.length =
      e.dropped.length + ((Ent.ctrace P qcap e acts).filter (·.drop)).length := by
  intro acts
  induction acts with
  | nil => intro e; simp [Ent.run, Ent.ctrace]
  | cons a as ih =>
    intro e
    simp only [Ent.run, Ent.ctrace]
    rw [ih]
    have hd : (e.step P qcap a).dropped.length = e.dropped.length ∨
        (e.step P qcap a).dropped.length = e.dropped.length + 1 := by
      cases a with
      | req id t =>
        simp only [Ent.step, Ent.onReq]
        split
        · split
          · left; rfl
          · left; rw [ensurePoll_dropped]
        · split
          · left; rw [ensurePoll_dropped]
          · right; simp
      | poll t =>
        simp only [Ent.step, Ent.onPoll]
        split
        · left; rfl
        · split
          · split
            · left; rfl
            · left; rw [ensurePoll_dropped]
          · left; rw [ensurePoll_dropped]
    have hflag : (e.cobs1 (e.step P qcap a) a).drop = decide (e.dropped.length < (e.step P qcap a).dropped.length) := by
      cases a <;> rfl
    rw [List.filter_cons, hflag]
    rcases hd with h | h
    · rw [h]; simp
    · rw [h]; simp; omega

/-! ### unbounded queue (`capacity = inf`): modelled by any capacity the run cannot reach -/

theorem capStep_none (q db : Nat) (o : CObs) (h : capStepOK (some q) db o = true) (hd : o.drop = false) :
    capStepOK none db o = true := by
  simp only [capStepOK, hd, Bool.false_eq_true, if_false, Bool.and_eq_true, decide_eq_true_eq,
    Bool.true_and, Bool.not_false, Bool.not_eq_true'] at h ⊢
  obtain ⟨_, h2⟩ := h
  by_cases hr : o.req = true
  · simp only [hr, if_true] at h2 ⊢
    by_cases hf : o.fwd = true
    · simp only [hf, if_true] at h2 ⊢; exact h2
    · simp only [hf, Bool.false_eq_true, if_false, Bool.and_eq_true] at h2 ⊢
      simpa using h2.2
  · simp only [hr, Bool.false_eq_true, if_false] at h2 ⊢; exact h2

theorem step_queue_le (P : Policy σ) (qcap : Nat) (e : Ent σ) (a : Act) :
    (e.step P qcap a).queue.length ≤ e.queue.length + 1 := by
  obtain ⟨pol, queue, poll, fwd, dropped, recv⟩ := e
  cases a with
  | req id t =>
    by_cases ha : (P.acq pol t).2 = true
    · cases queue with
      | nil => simp [Ent.step, Ent.onReq, ha]
      | cons x rest => simp [Ent.step, Ent.onReq, ha, ensurePoll_queue]
    · have ha' : (P.acq pol t).2 = false := by simpa using ha
      by_cases hc : queue.length < qcap
      · simp [Ent.step, Ent.onReq, ha', hc, ensurePoll_queue]
      · simp [Ent.step, Ent.onReq, ha', hc]
  | poll t =>
    cases queue with
    | nil => simp [Ent.step, Ent.onPoll]
    | cons x rest =>
      by_cases ha : (P.acq pol t).2 = true
      · cases rest with
        | nil => simp [Ent.step, Ent.onPoll, ha]
        | cons y r => simp [Ent.step, Ent.onPoll, ha, ensurePoll_queue]
      · have ha' : (P.acq pol t).2 = false := by simpa using ha
        simp [Ent.step, Ent.onPoll, ha', ensurePoll_queue]

theorem step_no_drop (P : Policy σ) (qcap : Nat) (e : Ent σ) (a : Act) (h : e.queue.length < qcap) :
    (e.cobs1 (e.step P qcap a) a).drop = false := by
  obtain ⟨pol, queue, poll, fwd, dropped, recv⟩ := e
  simp only at h
  cases a with
  | req id t =>
    by_cases ha : (P.acq pol t).2 = true
    · cases queue with
      | nil => simp [Ent.step, Ent.onReq, Ent.cobs1, ha]
      | cons x rest => simp [Ent.step, Ent.onReq, Ent.cobs1, ha, ensurePoll_dropped]
    · have ha' : (P.acq pol t).2 = false := by simpa using ha
      simp [Ent.step, Ent.onReq, Ent.cobs1, ha', h, ensurePoll_dropped]
  | poll t =>
    cases queue with
    | nil => simp [Ent.step, Ent.onPoll, Ent.cobs1]
    | cons x rest =>
      by_cases ha : (P.acq pol t).2 = true
      · cases rest with
        | nil => simp [Ent.step, Ent.onPoll, Ent.cobs1, ha]
        | cons y r => simp [Ent.step, Ent.onPoll, Ent.cobs1, ha, ensurePoll_dropped]
      · have ha' : (P.acq pol t).2 = false := by simpa using ha
        simp [Ent.step, Ent.onPoll, Ent.cobs1, ha', ensurePoll_dropped]

/-- a capacity the run cannot reach behaves as no capacity at all: nothing is dropped and the
    unbounded clause (`cap = none`) holds -/
theorem cap_trace_unbounded (P : Policy σ) (qcap : Nat) : ∀ (acts : List Act) (e : Ent σ),
    e.queue.length + acts.length ≤ qcap →
    capacityOK none e.queue.length (Ent.ctrace P qcap e acts) = true := by
  intro acts
  induction acts with
  | nil => intro e _; rfl
  | cons a as ih =>
    intro e h
    simp only [List.length_cons] at h
    have h1 := (step_cap P qcap e a (by omega)).1
    have h2 := step_no_drop P qcap e a (by omega)
    have h3 := step_queue_le P qcap e a
    simp only [Ent.ctrace, capacityOK, Bool.and_eq_true]
    refine ⟨capStep_none qcap _ _ h1 h2, ?_⟩
    have := ih (e.step P qcap a) (by omega)
    cases a <;> exact this

end HappyModel.C10
