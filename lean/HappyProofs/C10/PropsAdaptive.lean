import HappyProofs.C10.AdaptiveEpoch
/-!
# C10 — the adaptive clause at full strength (property theorems)

"adaptive: the bucket bound of its current rate … for all success/failure feedback sequences".

`adaptiveOK` (Spec) cuts the observed call sequence at every feedback record that changes
`current_rate` and demands, of each epoch, `n · one ≤ cap r + r · (t − t₀)` for every run of `n`
consecutive admissions `t₀ … t` inside it (`cap r = r · window`).  A burst after `record_failure`
— later, or at the very same instant — is therefore judged against the *decreased* capacity.
-/
namespace HappyModel.C10

/-- **Adaptive, current-rate bound, all feedback sequences.**  From any state whose rate is in range
    and whose bucket holds no more than its rate allows (both hold initially and are preserved,
    `adaptive_bucket_within_rate`), for every operation list with non-decreasing times, the observed
    transcript satisfies the bucket bound of the rate in force in every epoch. -/
theorem adaptive_epoch_bound (c : ADCfg) (hc : ADOk c) (s : AD) (now : Nat) (ops : List Op)
    (hr : s.InRange c) (hf : s.tok ≤ c.cap s.p) (hs : ∀ l, s.last = some l → l ≤ now)
    (hm : MonoOps now ops) :
    adaptiveOK c.cap c.one 0 s.p (AD.obs c s ops) = true :=
  ad_adaptiveOK c hc ops s now hr hf hs hm

/-- **Tokens never exceed `current_rate · window`**, after any operation list (in particular right
    after a `record_failure`), and the rate stays in `[pmin, pmax]`. -/
theorem adaptive_bucket_within_rate (c : ADCfg) (hc : ADOk c) : ∀ (ops : List Op) (s : AD),
    s.InRange c → s.tok ≤ c.cap s.p →
    (AD.run c s ops).InRange c ∧ (AD.run c s ops).tok ≤ c.cap (AD.run c s ops).p := by
  intro ops
  induction ops with
  | nil => intro s hr hf; exact ⟨hr, hf⟩
  | cons o os ih =>
    intro s hr hf
    exact ih _ (AD.step_range c hc s o hr) (AD.step_full c hc s o hr hf)

theorem segOK_same_instant (B p one t0 : Nat) : ∀ (ts : List Nat) (k : Nat), ts ≠ [] → (∀ x ∈ ts, x = t0) →
    segOK B p one t0 k ts = true → (k + ts.length) * one ≤ B := by
  intro ts
  induction ts with
  | nil => intro k h; exact absurd rfl h
  | cons x r ih =>
    intro k _ hall hseg
    simp only [segOK, Bool.and_eq_true, decide_eq_true_eq] at hseg
    cases r with
    | nil =>
      have : x = t0 := hall x (List.mem_cons_self)
      subst this
      simp only [List.length_cons, List.length_nil, Nat.sub_self, Nat.mul_zero, Nat.zero_add] at hseg ⊢
      omega
    | cons y r' =>
      have := ih (k + 1) (by simp) (fun z hz => hall z (List.mem_cons_of_mem _ hz)) hseg.2
      simp only [List.length_cons] at this ⊢
      have e : k + (r'.length + 1 + 1) = k + 1 + (r'.length + 1) := by omega
      rw [e]; exact this

theorem mono_replicate_acq (t : Nat) : ∀ (k l : Nat), l ≤ t → MonoOps l (List.replicate k (.acq t))
  | 0, _, _ => trivial
  | k + 1, _, h => ⟨h, mono_replicate_acq t k t (Nat.le_refl _)⟩

theorem epochAdm_burst_times (c : ADCfg) (r t : Nat) : ∀ (k : Nat) (s : AD),
    ∀ x ∈ epochAdm r (AD.obs c s (List.replicate k (.acq t))), x = t := by
  intro k
  induction k with
  | zero => intro s x hx; simp [AD.obs, epochAdm] at hx
  | succ k ih =>
    intro s x hx
    simp only [List.replicate_succ, AD.obs, epochAdm] at hx
    split at hx
    · rcases List.mem_cons.mp hx with h | h
      · exact h
      · exact ih _ x h
    · exact ih _ x hx

/-- **A burst after a decrease is bounded by the decreased capacity**: whatever the bucket held, the
    requests granted by `k` `try_acquire` calls at one instant `t` following `record_failure` — later
    or at the very same instant — number at most `cap (new rate) / one`. -/
theorem adaptive_burst_after_decrease (c : ADCfg) (s : AD) (t k : Nat) (hl : ∀ l, s.last = some l → l ≤ t) :
    (epochAdm (c.dec s.p) (AD.obs c (s.failure c) (List.replicate k (.acq t)))).length * c.one
      ≤ c.cap (c.dec s.p) := by
  have hb := ad_epoch_bucketOK c (c.cap (c.dec s.p)) (c.dec s.p) (Nat.le_refl _)
    (List.replicate k (.acq t)) (s.failure c) rfl (Nat.min_le_right _ _)
    (fun l h => mono_replicate_acq t k l (hl l h)) (fun _ => mono_replicate_acq t k 0 (Nat.zero_le _))
  have hall := epochAdm_burst_times c (c.dec s.p) t k (s.failure c)
  generalize epochAdm (c.dec s.p) (AD.obs c (s.failure c) (List.replicate k (.acq t))) = L at hb hall
  cases L with
  | nil => simp
  | cons x ts =>
    simp only [bucketOK, Bool.and_eq_true, decide_eq_true_eq] at hb
    cases ts with
    | nil => simp only [List.length_cons, List.length_nil]; omega
    | cons y r =>
      have hx : x = t := hall x (List.mem_cons_self)
      have := segOK_same_instant _ _ _ x (y :: r) 1 (by simp)
        (fun z hz => by rw [hx]; exact hall z (List.mem_cons_of_mem _ hz)) hb.1.2
      simp only [List.length_cons] at this ⊢
      have e : r.length + 1 + 1 = 1 + (r.length + 1) := by omega
      rw [e]; exact this

-- rates 2…8 units/ns, window 4 ns, one token = 4 units: bucket 8 tokens at rate 8, 4 at rate 4
example : ADOk ⟨2, 8, 1, 1, 2, 4, 1, 4⟩ ∧ AD.InRange ⟨2, 8, 1, 1, 2, 4, 1, 4⟩ ⟨8, 32, none⟩ ∧
    (32 : Nat) ≤ ADCfg.cap ⟨2, 8, 1, 1, 2, 4, 1, 4⟩ 8 := by
  refine ⟨⟨by decide, by decide⟩, ⟨by decide, by decide⟩, by decide⟩
/-- the repaired model: failure before the first call, burst later — 4 admitted, not 8 -/
example : AD.obs ⟨2, 8, 1, 1, 2, 4, 1, 4⟩ ⟨8, 32, none⟩
      [.fail 1, .acq 2, .acq 2, .acq 2, .acq 2, .acq 2] =
    [.fb 1 4, .acq 2 true, .acq 2 true, .acq 2 true, .acq 2 true, .acq 2 false] := by rfl
/-- what the unrepaired code answers on the same input (8 grants at rate 4) is rejected by the Spec,
    and so is a same-instant burst after the decrease -/
example : adaptiveOK (ADCfg.cap ⟨2, 8, 1, 1, 2, 4, 1, 4⟩) 4 0 8
      [.fb 1 4, .acq 2 true, .acq 2 true, .acq 2 true, .acq 2 true, .acq 2 true] = false ∧
    adaptiveOK (ADCfg.cap ⟨2, 8, 1, 1, 2, 4, 1, 4⟩) 4 0 8
      [.acq 5 true, .fb 5 4, .acq 5 true, .acq 5 true, .acq 5 true, .acq 5 true, .acq 5 true] = false ∧
    adaptiveOK (ADCfg.cap ⟨2, 8, 1, 1, 2, 4, 1, 4⟩) 4 0 8
      [.acq 5 true, .fb 5 4, .acq 5 true, .acq 5 true, .acq 5 true, .acq 5 true, .acq 5 false] = true := by
  decide

end HappyModel.C10
