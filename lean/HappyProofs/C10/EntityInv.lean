import HappyModel.C10.Spec
/-! `RateLimitedEntity` over an arbitrary policy: every request is forwarded, queued or dropped
    exactly once, and forwarding follows arrival order. -/
namespace HappyModel.C10

variable {σ : Type}

/-- chronological views of the logs (the model stores them newest first) -/
def Ent.F (e : Ent σ) : List Nat := (e.fwd.map (·.1)).reverse
def Ent.D (e : Ent σ) : List Nat := e.dropped.reverse
def Ent.R (e : Ent σ) : List Nat := e.recv.reverse

theorem ensurePoll_F (P : Policy σ) (e : Ent σ) (t : Nat) : (e.ensurePoll P t).F = e.F := by
  unfold Ent.ensurePoll Ent.F; split <;> rfl
theorem ensurePoll_D (P : Policy σ) (e : Ent σ) (t : Nat) : (e.ensurePoll P t).D = e.D := by
  unfold Ent.ensurePoll Ent.D; split <;> rfl
theorem ensurePoll_R (P : Policy σ) (e : Ent σ) (t : Nat) : (e.ensurePoll P t).R = e.R := by
  unfold Ent.ensurePoll Ent.R; split <;> rfl
theorem ensurePoll_queue (P : Policy σ) (e : Ent σ) (t : Nat) : (e.ensurePoll P t).queue = e.queue := by
  unfold Ent.ensurePoll; split <;> rfl

/-- the four outcomes of a request -/
theorem onReq_cases (P : Policy σ) (qcap : Nat) (e : Ent σ) (id t : Nat) :
    (e.onReq P qcap id t).R = e.R ++ [id] ∧
    (((e.onReq P qcap id t).F = e.F ++ [id] ∧ e.queue = [] ∧ (e.onReq P qcap id t).queue = [] ∧
        (e.onReq P qcap id t).D = e.D) ∨
     (∃ h rest, e.queue = h :: rest ∧ (e.onReq P qcap id t).F = e.F ++ [h] ∧
        (e.onReq P qcap id t).queue = rest ++ [id] ∧ (e.onReq P qcap id t).D = e.D) ∨
     ((e.onReq P qcap id t).F = e.F ∧ (e.onReq P qcap id t).queue = e.queue ++ [id] ∧
        (e.onReq P qcap id t).D = e.D) ∨
     ((e.onReq P qcap id t).F = e.F ∧ (e.onReq P qcap id t).queue = e.queue ∧
        (e.onReq P qcap id t).D = e.D ++ [id])) := by
  unfold Ent.onReq
  by_cases ha : (P.acq e.pol t).2 = true
  · simp only [ha, if_true]
    cases hq : e.queue with
    | nil => simp [Ent.R, Ent.F, Ent.D]
    | cons h rest =>
      simp only [ensurePoll_R, ensurePoll_F, ensurePoll_D, ensurePoll_queue]
      refine ⟨by simp [Ent.R], Or.inr (Or.inl ⟨h, rest, rfl, ?_, rfl, ?_⟩)⟩
      · simp [Ent.F]
      · simp [Ent.D]
  · have ha' : (P.acq e.pol t).2 = false := by simpa using ha
    simp only [ha', Bool.false_eq_true, if_false]
    by_cases hc : e.queue.length < qcap
    · simp only [hc, if_true, ensurePoll_R, ensurePoll_F, ensurePoll_D, ensurePoll_queue]
      exact ⟨by simp [Ent.R], Or.inr (Or.inr (Or.inl ⟨by simp [Ent.F], trivial, by simp [Ent.D]⟩))⟩
    · simp only [hc, if_false]
      exact ⟨by simp [Ent.R], Or.inr (Or.inr (Or.inr ⟨by simp [Ent.F], trivial, by simp [Ent.D]⟩))⟩

/-- a poll forwards the head of the queue or changes nothing -/
theorem onPoll_cases (P : Policy σ) (e : Ent σ) (t : Nat) :
    (e.onPoll P t).R = e.R ∧ (e.onPoll P t).D = e.D ∧
    (((e.onPoll P t).F = e.F ∧ (e.onPoll P t).queue = e.queue) ∨
     (∃ h rest, e.queue = h :: rest ∧ (e.onPoll P t).F = e.F ++ [h] ∧ (e.onPoll P t).queue = rest)) := by
  unfold Ent.onPoll
  cases hq : e.queue with
  | nil => simp [Ent.R, Ent.F, Ent.D, hq]
  | cons h rest =>
    by_cases ha : (P.acq e.pol t).2 = true
    · simp only [ha, if_true]
      cases rest with
      | nil =>
        refine ⟨by simp [Ent.R], by simp [Ent.D], Or.inr ⟨h, [], rfl, by simp [Ent.F], rfl⟩⟩
      | cons h2 r2 =>
        simp only [ensurePoll_R, ensurePoll_F, ensurePoll_D, ensurePoll_queue]
        refine ⟨by simp [Ent.R], by simp [Ent.D], Or.inr ⟨h, h2 :: r2, rfl, by simp [Ent.F], rfl⟩⟩
    · have ha' : (P.acq e.pol t).2 = false := by simpa using ha
      simp only [ha', Bool.false_eq_true, if_false, ensurePoll_R, ensurePoll_F, ensurePoll_D, ensurePoll_queue]
      refine ⟨by simp [Ent.R], by simp [Ent.D], Or.inl ⟨by simp [Ent.F], ?_⟩⟩
      simp [hq]

/-- invariant: multiset accounting and order -/
structure EInv (e : Ent σ) : Prop where
  count : ∀ x, (e.F ++ e.queue ++ e.D).count x = e.R.count x
  order : (e.F ++ e.queue).Sublist e.R

theorem init_inv (s : σ) : EInv (Ent.init s) := by
  constructor
  · intro x; simp [Ent.init, Ent.F, Ent.D, Ent.R]
  · simp [Ent.init, Ent.F, Ent.R]

theorem step_inv (P : Policy σ) (qcap : Nat) (e : Ent σ) (a : Act) (h : EInv e) :
    EInv (e.step P qcap a) := by
  obtain ⟨hc, ho⟩ := h
  cases a with
  | req id t =>
    simp only [Ent.step]
    obtain ⟨r, cs⟩ := onReq_cases P qcap e id t
    rcases cs with ⟨f, q0, q, d⟩ | ⟨h, rest, q0, f, q, d⟩ | ⟨f, q, d⟩ | ⟨f, q, d⟩
    · constructor
      · intro x; have := hc x
        rw [r, f, q, d]; rw [q0] at this
        simp only [List.count_append, List.count_cons, List.count_nil] at this ⊢; omega
      · rw [r, f, q]; rw [q0] at ho
        simpa using List.Sublist.append ho (List.Sublist.refl [id])
    · constructor
      · intro x; have := hc x
        rw [r, f, q, d]; rw [q0] at this
        simp only [List.count_append, List.count_cons, List.count_nil] at this ⊢; omega
      · rw [r, f, q]; rw [q0] at ho
        have := List.Sublist.append ho (List.Sublist.refl [id])
        simpa using this
    · constructor
      · intro x; have := hc x
        rw [r, f, q, d]
        simp only [List.count_append, List.count_cons, List.count_nil] at this ⊢; omega
      · rw [r, f, q]
        have := List.Sublist.append ho (List.Sublist.refl [id])
        simpa using this
    · constructor
      · intro x; have := hc x
        rw [r, f, q, d]
        simp only [List.count_append, List.count_cons, List.count_nil] at this ⊢; omega
      · rw [r, f, q]
        exact List.Sublist.trans ho (List.sublist_append_left _ _)
  | poll t =>
    simp only [Ent.step]
    obtain ⟨r, d, cs⟩ := onPoll_cases P e t
    rcases cs with ⟨f, q⟩ | ⟨h, rest, q0, f, q⟩
    · exact ⟨by intro x; rw [r, d, f, q]; exact hc x, by rw [r, f, q]; exact ho⟩
    · constructor
      · intro x; have := hc x
        rw [r, f, q, d]; rw [q0] at this
        simp only [List.count_append, List.count_cons, List.count_nil] at this ⊢; omega
      · rw [r, f, q]; rw [q0] at ho
        simpa using ho

theorem run_inv (P : Policy σ) (qcap : Nat) : ∀ (acts : List Act) (e : Ent σ), EInv e →
    EInv (Ent.run P qcap e acts)
  | [], _, h => h
  | a :: as, e, h => run_inv P qcap as _ (step_inv P qcap e a h)

theorem step_R (P : Policy σ) (qcap : Nat) (e : Ent σ) (a : Act) :
    (e.step P qcap a).R = e.R ++ reqIds [a] := by
  cases a with
  | req id t => simp only [Ent.step, reqIds]; exact (onReq_cases P qcap e id t).1
  | poll t => simp only [Ent.step, reqIds, List.append_nil]; exact (onPoll_cases P e t).1

theorem reqIds_cons (a : Act) (as : List Act) : reqIds (a :: as) = reqIds [a] ++ reqIds as := by
  cases a <;> simp [reqIds]

theorem run_R (P : Policy σ) (qcap : Nat) : ∀ (acts : List Act) (e : Ent σ),
    (Ent.run P qcap e acts).R = e.R ++ reqIds acts
  | [], e => by simp [Ent.run, reqIds]
  | a :: as, e => by
    rw [Ent.run, run_R P qcap as, step_R, reqIds_cons a as, List.append_assoc]

theorem nodupB_iff (l : List Nat) : nodupB l = true ↔ l.Nodup := by
  induction l with
  | nil => simp [nodupB]
  | cons x xs ih => simp [nodupB, List.nodup_cons, ih]

end HappyModel.C10
