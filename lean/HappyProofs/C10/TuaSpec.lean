import HappyProofs.C10.TuaRunAD
/-!
The Spec predicate `blocksOK` (the one the driver evaluates on transcripts of the real
implementation) holds of the model's own transcript of every run from every good state.
-/
namespace HappyModel.C10

/-- what a caller of a directly driven policy observes -/
def Policy.obs {σ : Type} (P : Policy σ) : σ → List Op → List Obs
  | _, [] => []
  | s, .acq t :: os => .acq t (P.acq s t).2 :: Policy.obs P (P.acq s t).1 os
  | s, .tua t :: os => .tua t (P.tua s t).2 :: Policy.obs P (P.tua s t).1 os
  | s, .succ _ :: os => Policy.obs P s os
  | s, .fail _ :: os => Policy.obs P s os

theorem noEarly_obs {σ : Type} (P : Policy σ) (lim : Nat) : ∀ (ops : List Op) (s : σ),
    (∀ x ∈ P.admitted s ops, lim ≤ x) → noEarly lim (P.obs s ops) = true := by
  intro ops
  induction ops with
  | nil => intro s _; rfl
  | cons o os ih =>
    intro s h
    cases o with
    | acq t =>
      simp only [Policy.obs, noEarly, Bool.and_eq_true, Bool.or_eq_true, decide_eq_true_eq,
        Bool.not_eq_true']
      simp only [Policy.admitted] at h
      cases hok : (P.acq s t).2 with
      | true =>
        rw [hok] at h; simp only [if_true] at h
        exact ⟨Or.inl (h t (List.mem_cons_self)), ih _ (fun x hx => h x (List.mem_cons_of_mem _ hx))⟩
      | false =>
        rw [hok] at h; simp only [Bool.false_eq_true, if_false] at h
        exact ⟨Or.inr rfl, ih _ h⟩
    | tua t => simp only [Policy.obs, noEarly]; exact ih _ (by simpa [Policy.admitted] using h)
    | succ t => simp only [Policy.obs]; exact ih _ (by simpa [Policy.admitted] using h)
    | fail t => simp only [Policy.obs]; exact ih _ (by simpa [Policy.admitted] using h)

theorem blocks_obs {σ : Type} (P : Policy σ) (G : σ → Nat → Prop)
    (hmono : ∀ s now t, G s now → now ≤ t → G s t)
    (hacq : ∀ s t, G s t → G (P.acq s t).1 t)
    (htua : ∀ s t, G s t → G (P.tua s t).1 t)
    (hblk : ∀ s t ops, G s t → MonoOps t ops →
      ∀ x ∈ P.admitted (P.tua s t).1 ops, t + (P.tua s t).2 ≤ x) :
    ∀ (ops : List Op) (s : σ) (now : Nat), G s now → MonoOps now ops → blocksOK (P.obs s ops) = true := by
  intro ops
  induction ops with
  | nil => intro s now _ _; rfl
  | cons o os ih =>
    intro s now hg hm
    obtain ⟨hm1, hm2⟩ := hm
    cases o with
    | acq t =>
      simp only [Op.time] at hm1 hm2
      simp only [Policy.obs, blocksOK]
      exact ih _ t (hacq s t (hmono s now t hg hm1)) hm2
    | tua t =>
      simp only [Op.time] at hm1 hm2
      have hg' := hmono s now t hg hm1
      simp only [Policy.obs, blocksOK, Bool.and_eq_true]
      exact ⟨noEarly_obs P _ os _ (hblk s t os hg' hm2), ih _ t (htua s t hg') hm2⟩
    | succ t =>
      simp only [Op.time] at hm1 hm2
      simp only [Policy.obs]
      exact ih s now hg (MonoOps.weaken hm1 hm2)
    | fail t =>
      simp only [Op.time] at hm1 hm2
      simp only [Policy.obs]
      exact ih s now hg (MonoOps.weaken hm1 hm2)

theorem tb_blocks_spec (c : TBCfg) (hp : 0 < c.p) (s : TB) (now : Nat) (ops : List Op)
    (hs : ∀ l, s.last = some l → l ≤ now) (hm : MonoOps now ops) :
    blocksOK ((tbPolicy c).obs s ops) = true := by
  refine blocks_obs (tbPolicy c) (fun s now => ∀ l, s.last = some l → l ≤ now) ?_ ?_ ?_ ?_ ops s now hs hm
  · intro s now t h1 h2 l hl; have := h1 l hl; omega
  · intro s t h l hl
    have r1 := (TB.refill_spec c s t h).1
    simp only [tbPolicy, TB.acquire] at hl
    split at hl <;> (simp only [r1] at hl; cases hl; exact Nat.le_refl _)
  · intro s t h l hl
    have r1 := (TB.refill_spec c s t h).1
    simp only [tbPolicy] at hl; rw [TB.tua_fst, r1] at hl; cases hl; exact Nat.le_refl _
  · intro s t ops h hmo; exact tb_tua_blocks_run c s t ops hp h hmo

theorem lb_blocks_spec (c : LBCfg) (hp : 0 < c.p) (s : LB) (now : Nat) (ops : List Op)
    (hs : ∀ l, s.last = some l → l ≤ now) (hm : MonoOps now ops) :
    blocksOK ((lbPolicy c).obs s ops) = true := by
  refine blocks_obs (lbPolicy c) (fun s now => ∀ l, s.last = some l → l ≤ now) ?_ ?_ ?_ ?_ ops s now hs hm
  · intro s now t h1 h2 l hl; have := h1 l hl; omega
  · intro s t h l hl
    simp only [lbPolicy, LB.acquire] at hl
    cases hl0 : s.last with
    | none => simp only [hl0] at hl; cases hl; exact Nat.le_refl _
    | some l0 =>
      simp only [hl0] at hl
      split at hl
      · cases hl; exact Nat.le_refl _
      · rw [hl0] at hl; cases hl; exact h l hl0
  · intro s t h l hl; exact h l hl
  · intro s t ops h hmo; exact lb_tua_blocks_run c s t ops hp h hmo

theorem sw_blocks_spec (c : WCfg) (s : SW) (now : Nat) (ops : List Op) (hm : MonoOps now ops) :
    blocksOK ((swPolicy c).obs s ops) = true :=
  blocks_obs (swPolicy c) (fun _ _ => True) (fun _ _ _ _ _ => trivial) (fun _ _ _ => trivial)
    (fun _ _ _ => trivial) (fun s t ops _ hmo => sw_tua_blocks_run c s t ops hmo) ops s now trivial hm

theorem fw_blocks_spec (c : WCfg) (hW : 0 < c.W) (s : FW) (now : Nat) (ops : List Op) (hs : FW.Ok c s now)
    (hm : MonoOps now ops) : blocksOK ((fwPolicy c).obs s ops) = true := by
  refine blocks_obs (fwPolicy c) (FW.Ok c) ?_ ?_ ?_ ?_ ops s now hs hm
  · intro s now t h h2
    exact ⟨h.1, fun w hw => by obtain ⟨k0, a, b⟩ := h.2 w hw; exact ⟨k0, a, by omega⟩⟩
  · intro s t h; exact fw_step_ok c hW s t (.acq t) h (Nat.le_refl _)
  · intro s t h; exact fw_step_ok c hW s t (.tua t) h (Nat.le_refl _)
  · intro s t ops h hmo; exact fw_tua_blocks_run c hW s t ops h hmo

end HappyModel.C10
