import HappyProofs.C10.CrossEpoch
import HappyProofs.C10.AdaptiveBlocks
import HappyProofs.C10.DrainRun
import HappyProofs.C10.RefusalWin
/-!
# C10 — run-level property theorems that close the former partial statements

* `adaptive_cross_epoch_bound` — the admission bound over any interval spanning rate changes, in integral
  form over the run's epochs;
* `adaptive_wait_honoured_until_raise`, `adaptive_blocks_spec_through_feedback` — the returned wait is a
  lower bound through feedback, unless the rate is raised first (`adaptive_wait_not_binding_after_raise`
  keeps the decided counter-example);
* `drain_never_stalls_run` — the drain procedure reaches a granted acquire after at most two positive
  waits, for each of the five policies, from every state an operation list can reach.
-/
namespace HappyModel.C10

/-- **Adaptive, across rate changes** (all feedback sequences, from any state in range whose bucket is
    within its rate — both hold initially and are preserved, `adaptive_bucket_within_rate` — and, since the
    start state is arbitrary, over any interval of a run): with `E = AD.epochs c s [] ops` the run's epochs
    `(rateₑ, lengthₑ)`,

    * admissions · one + tokens left ≤ tokens at the start + Σₑ rateₑ · lengthₑ, and tokens at the start
      ≤ `cap (rate at the start)`;
    * Σₑ lengthₑ = (time of the last call) − (refill clock at the start): the epochs partition the elapsed
      time;
    * every `rateₑ ∈ [pmin, pmax]`, consecutive epochs have different rates;
    * inside each epoch the bucket of its own rate caps the burst (`adaptive_epoch_bound`).

    The epoch that owns a stretch of time is the one in which the `try_acquire` /
    `time_until_available` call that *closes* it is made (lazy refill). -/
theorem adaptive_cross_epoch_bound (c : ADCfg) (hc : ADOk c) (s : AD) (l : Nat) (ops : List Op)
    (hr : s.InRange c) (hf : s.tok ≤ c.cap s.p) (hl : s.last = some l) (hm : MonoOps l ops) :
    (AD.admitted c s ops).length * c.one + (AD.run c s ops).tok
        ≤ s.tok + spanSum (AD.epochs c s [] ops) ∧
    s.tok ≤ c.cap s.p ∧
    spanLen (AD.epochs c s [] ops) = callEnd l ops - l ∧
    (∀ e ∈ AD.epochs c s [] ops, c.pmin ≤ e.1 ∧ e.1 ≤ c.pmax) ∧
    AdjDistinct (AD.epochs c s [] ops) ∧
    adaptiveOK c.cap c.one 0 s.p (AD.obs c s ops) = true := by
  refine ⟨?_, hf, ?_, ?_, ?_, ?_⟩
  · have h1 := ad_credit_bound c ops s
    have h2 := epochs_sum c ops s []
    simp only [spanSum, Nat.zero_add] at h2
    omega
  · have := epochs_len c ops s [] l hl hm
    simpa [spanLen] using this
  · exact epochs_range c hc ops s [] hr (by intro e he; cases he)
  · exact epochs_adj c ops s [] trivial
  · exact ad_adaptiveOK c hc ops s l hr hf (by intro l' h; rw [hl] at h; cases h; exact Nat.le_refl _) hm

/-- rates 1…8, failure 8 → 1, success 1 → 8, window 10 ns, one token = 40 units; the run of
    `adaptive_naive_integral_bound_false`: three epochs at rate 8 of lengths 0, 10, 10 ns as the *calls*
    see them (the stretches spent at rate 1 are credited at 8 by the call that closes them) -/
example : AD.epochs ⟨1, 8, 7, 1, 8, 10, 1, 40⟩ ⟨8, 80, some 0⟩ []
      [.acq 0, .acq 0, .fail 0, .succ 10, .acq 10, .acq 10, .fail 10, .succ 20, .acq 20, .acq 20] = [(8, 20)] ∧
    AD.epochs ⟨1, 8, 7, 1, 8, 10, 1, 40⟩ ⟨8, 80, some 0⟩ []
      [.acq 0, .fail 0, .acq 10, .succ 10, .acq 20, .acq 25] = [(8, 15), (1, 10), (8, 0)] ∧
    callEnd 0 [.acq 0, .fail 0, .acq 10, .succ 10, .acq 20, .acq 25] = 25 := by decide

/-- **Adaptive: the returned wait is honoured through feedback** — after
    `time_until_available(t) = w`, for every continuation (acquires, further queries, `record_failure`,
    `record_success`) in which no operation before `t + w` raises the rate, nothing is admitted before
    `t + w`. -/
theorem adaptive_wait_honoured_until_raise (c : ADCfg) (s : AD) (t : Nat) (ops : List Op) (hp : 0 < s.p)
    (hm : ∀ l, s.last = some l → l ≤ t) (hmo : MonoOps t ops)
    (hn : AD.NoRaiseBefore c (t + (AD.tua c s t).2) (AD.tua c s t).1 ops) :
    ∀ x ∈ AD.admitted c (AD.tua c s t).1 ops, t + (AD.tua c s t).2 ≤ x :=
  ad_tua_blocks_run_mono c s t ops hp hm hmo hn

/-- the same over whole transcripts, as the executable Spec predicate `blocksOKR` (the promise of every
    `time_until_available` call of the run survives the feedback records that do not report a higher rate) -/
theorem adaptive_blocks_spec_through_feedback (c : ADCfg) (hc : ADOk c) (hmin : 0 < c.pmin) (s : AD) (now : Nat)
    (ops : List Op) (hr : s.InRange c) (hs : ∀ l, s.last = some l → l ≤ now) (hm : MonoOps now ops) :
    blocksOKR s.p (AD.obs c s ops) = true :=
  ad_blocksR_spec c hc hmin ops s now hr hs hm

/-- **A rate increase does end the promise**: rate 2, empty bucket at 0, one token = 8 units:
    `time_until_available(0) = 4`; `record_success(1)` raises the rate to 8 and `try_acquire(2)` is granted. -/
theorem adaptive_wait_not_binding_after_raise :
    ¬ (∀ (c : ADCfg) (s : AD) (t : Nat) (ops : List Op), 0 < s.p → (∀ l, s.last = some l → l ≤ t) → MonoOps t ops →
        ∀ x ∈ AD.admitted c (AD.tua c s t).1 ops, t + (AD.tua c s t).2 ≤ x) := by
  intro h
  have := h ⟨2, 8, 6, 1, 2, 4, 1, 8⟩ ⟨2, 0, some 0⟩ 0 [.acq 1, .succ 1, .acq 2] (by decide)
    (by intro l hl; cases hl; exact Nat.le_refl _) (by simp [MonoOps, Op.time]) 2 (by decide)
  revert this
  decide

example : AD.NoRaiseBefore ⟨2, 8, 6, 1, 2, 4, 1, 8⟩ 4 ⟨2, 0, some 0⟩ [.acq 1, .fail 1, .acq 3, .succ 4, .acq 4] ∧
    ¬ AD.NoRaiseBefore ⟨2, 8, 6, 1, 2, 4, 1, 8⟩ 4 ⟨2, 0, some 0⟩ [.acq 1, .succ 1, .acq 2] := by
  simp [AD.NoRaiseBefore, AD.step, AD.acquire, AD.refill, AD.success, AD.failure, ADCfg.dec, ADCfg.cap, Op.time]
example : blocksOKR 2 [.tua 0 4, .fb 1 2, .acq 2 true] = false ∧ blocksOKR 2 [.tua 0 4, .fb 1 8, .acq 2 true] = true ∧
    blocksOK [.tua 0 4, .fb 1 2, .acq 2 true] = true := by decide

/-- **A drain never stalls — run level, explicit bound, all five policies.**  From the state reached by
    *any* operation list with non-decreasing times (adaptive: feedback included), at any instant `t` not
    before the last operation, the drain procedure — ask `time_until_available`, wait exactly what it
    returned, ask again — gets zero after at most **two** positive waits (the second one is the 1 ns
    guard; the fixed window needs one) and the `try_acquire` made at that instant is granted:
    `drainOK 2` holds.  Hypotheses: rate > 0, the bucket holds at least one token, `N ≥ 1`, `W > 0` — with
    any of them violated no request is ever admitted. -/
theorem drain_never_stalls_run :
    (∀ (c : TBCfg) (tok0 : Nat) (ops : List Op) (t : Nat), 0 < c.p → c.one ≤ c.cap → MonoOps 0 ops →
      endTime 0 ops ≤ t →
      drainOK 2 ((tbPolicy c).drain 6 ((tbPolicy c).run ⟨tok0, none⟩ ops) t []).2.2
        ((tbPolicy c).acq ((tbPolicy c).drain 6 ((tbPolicy c).run ⟨tok0, none⟩ ops) t []).1
          ((tbPolicy c).drain 6 ((tbPolicy c).run ⟨tok0, none⟩ ops) t []).2.1).2 = true) ∧
    (∀ (c : LBCfg) (ops : List Op) (t : Nat), 0 < c.p → MonoOps 0 ops → endTime 0 ops ≤ t →
      drainOK 2 ((lbPolicy c).drain 6 ((lbPolicy c).run ⟨none⟩ ops) t []).2.2
        ((lbPolicy c).acq ((lbPolicy c).drain 6 ((lbPolicy c).run ⟨none⟩ ops) t []).1
          ((lbPolicy c).drain 6 ((lbPolicy c).run ⟨none⟩ ops) t []).2.1).2 = true) ∧
    (∀ (c : WCfg) (ops : List Op) (t : Nat), 1 ≤ c.N → MonoOps 0 ops → endTime 0 ops ≤ t →
      drainOK 2 ((swPolicy c).drain 6 ((swPolicy c).run ⟨[]⟩ ops) t []).2.2
        ((swPolicy c).acq ((swPolicy c).drain 6 ((swPolicy c).run ⟨[]⟩ ops) t []).1
          ((swPolicy c).drain 6 ((swPolicy c).run ⟨[]⟩ ops) t []).2.1).2 = true) ∧
    (∀ (c : WCfg) (ops : List Op) (t : Nat), 0 < c.W → 1 ≤ c.N → MonoOps 0 ops → endTime 0 ops ≤ t →
      drainOK 1 ((fwPolicy c).drain 6 ((fwPolicy c).run ⟨none, 0⟩ ops) t []).2.2
        ((fwPolicy c).acq ((fwPolicy c).drain 6 ((fwPolicy c).run ⟨none, 0⟩ ops) t []).1
          ((fwPolicy c).drain 6 ((fwPolicy c).run ⟨none, 0⟩ ops) t []).2.1).2 = true) ∧
    (∀ (c : ADCfg) (s : AD) (ops : List Op) (t : Nat), ADOk c → 0 < c.pmin → c.one ≤ c.cap c.pmin →
      s.InRange c → s.last = none → MonoOps 0 ops → endTime 0 ops ≤ t →
      drainOK 2 ((adPolicy c).drain 6 (AD.run c s ops) t []).2.2
        ((adPolicy c).acq ((adPolicy c).drain 6 (AD.run c s ops) t []).1
          ((adPolicy c).drain 6 (AD.run c s ops) t []).2.1).2 = true) := by
  refine ⟨?_, ?_, ?_, ?_, ?_⟩
  · intro c tok0 ops t hp hcap hm ht
    have hI := inv_run (tbPolicy c) TB.I (tb_step_I c) ops ⟨tok0, none⟩ 0 (by intro l h; cases h) hm
    exact drain_ok _ _ (tb_drainFacts c hp hcap) _ t (fun l h => Nat.le_trans (hI l h) ht) 3
  · intro c ops t hp hm ht
    have hI := inv_run (lbPolicy c) LB.I (lb_step_I c) ops ⟨none⟩ 0 (by intro l h; cases h) hm
    exact drain_ok _ _ (lb_drainFacts c hp) _ t (fun l h => Nat.le_trans (hI l h) ht) 3
  · intro c ops t hN hm _
    have hI := inv_run (swPolicy c) (SW.I c) (fun s _ o h _ => sw_step_len c s o h) ops ⟨[]⟩ 0
      (by simp [SW.I]) hm
    exact drain_ok _ _ (sw_drainFacts c hN) _ t hI 3
  · intro c ops t hW hN hm ht
    have hI := inv_run (fwPolicy c) (FW.Ok c) (fw_step_ok c hW) ops ⟨none, 0⟩ 0
      ⟨Nat.zero_le _, by intro w h; cases h⟩ hm
    have hI' := hI.later ht
    -- one positive wait suffices for the fixed window
    have hr := fw_tua_reaches_admission c hW hN _ t hI'
    have hF := fw_drainFacts c hW hN
    by_cases h0 : ((fwPolicy c).tua ((fwPolicy c).run ⟨none, 0⟩ ops) t).2 = 0
    · have := hF.zero _ t hI' h0
      simp [Policy.drain, h0, drainOK, this]
    · have hI1 := hF.keep _ t hI'
      have h1 : ((fwPolicy c).tua ((fwPolicy c).tua ((fwPolicy c).run ⟨none, 0⟩ ops) t).1
          (t + ((fwPolicy c).tua ((fwPolicy c).run ⟨none, 0⟩ ops) t).2)).2 = 0 := by
        rcases hr with a | a
        · exact absurd a h0
        · exact a
      have := hF.zero _ _ hI1 h1
      simp [Policy.drain, h0, h1, drainOK, this]
  · intro c s ops t hc hmin hcap hr hl hm ht
    obtain ⟨a, b, d⟩ := ad_run_I c hc hmin hcap ops s 0 hr (by intro l h; rw [hl] at h; cases h) hm
    exact drain_ok _ _ (ad_drainFacts c) _ t ⟨a, b, fun l h => Nat.le_trans (d l h) ht⟩ 3

/-- the two window policies also answer a refusal with a positive wait (sliding: `N ≥ 1`; fixed:
    `W > 0`), so `entity_drain_never_stalls` applies to the rate-limited entity over **every** policy -/
theorem refusal_waits_window_policies :
    (∀ c : WCfg, 1 ≤ c.N → RefusalWaits (swPolicy c)) ∧ (∀ c : WCfg, 0 < c.W → RefusalWaits (fwPolicy c)) :=
  ⟨sw_refusalWaits, fw_refusalWaits⟩

-- token bucket (cap 3, 2 units/ns, one token = 3 units) emptied at 0: waits 1, then the 1 ns guard, then 0
example : ((tbPolicy ⟨3, 2, 3⟩).drain 6 ((tbPolicy ⟨3, 2, 3⟩).run ⟨3, none⟩ [.acq 0]) 0 []).2.2 = [1, 1, 0] := by decide

end HappyModel.C10
