import HappyProofs.C10.AdaptiveEpoch
/-!
"Repeatedly waiting the returned duration reaches an admitting instant within a few steps, so a drain
never stalls" — as a statement about the *procedure* (`Policy.drain`: ask, wait what was returned, ask
again, …, acquire when zero is returned), with an explicit step bound, from every state a run can reach.

`DrainFacts P I` packages what the procedure needs of a policy under a state condition `I s t` that a
`time_until_available` call preserves; `drain_ok` derives the executable Spec predicate
`drainOK 2 waits granted` (zero reached after at most two positive waits — the second is the 1 ns guard —
and the acquire made then is granted).  The five instances follow, and `*_run` lemmas show `I` holds after
every operation list with non-decreasing times.
-/
namespace HappyModel.C10

variable {σ : Type}

/-- the drain procedure: at most `fuel` `time_until_available` calls; returns the state, the instant
    reached and the waits returned (the last one is the first zero, if any) -/
def Policy.drain (P : Policy σ) : Nat → σ → Nat → List Nat → σ × Nat × List Nat
  | 0, s, cur, acc => (s, cur, acc.reverse)
  | fuel + 1, s, cur, acc =>
    if (P.tua s cur).2 = 0 then ((P.tua s cur).1, cur, (0 :: acc).reverse)
    else P.drain fuel (P.tua s cur).1 (cur + (P.tua s cur).2) ((P.tua s cur).2 :: acc)

structure DrainFacts (P : Policy σ) (I : σ → Nat → Prop) : Prop where
  keep : ∀ s t, I s t → I (P.tua s t).1 (t + (P.tua s t).2)
  zero : ∀ s t, I s t → (P.tua s t).2 = 0 → (P.acq (P.tua s t).1 t).2 = true
  reach : ∀ s t, I s t →
    (P.tua s t).2 = 0 ∨ (P.tua (P.tua s t).1 (t + (P.tua s t).2)).2 = 0 ∨
    (P.tua (P.tua (P.tua s t).1 (t + (P.tua s t).2)).1
      (t + (P.tua s t).2 + (P.tua (P.tua s t).1 (t + (P.tua s t).2)).2)).2 = 0

theorem drain_ok (P : Policy σ) (I : σ → Nat → Prop) (h : DrainFacts P I) (s : σ) (t : Nat) (hI : I s t)
    (fuel : Nat) :
    drainOK 2 (P.drain (fuel + 3) s t []).2.2
      (P.acq (P.drain (fuel + 3) s t []).1 (P.drain (fuel + 3) s t []).2.1).2 = true := by
  have hr := h.reach s t hI
  by_cases h0 : (P.tua s t).2 = 0
  · have := h.zero s t hI h0
    simp [Policy.drain, h0, drainOK, this]
  · have hI1 := h.keep s t hI
    by_cases h1 : (P.tua (P.tua s t).1 (t + (P.tua s t).2)).2 = 0
    · have := h.zero _ _ hI1 h1
      simp [Policy.drain, h0, h1, drainOK, this]
    · have h2 : (P.tua (P.tua (P.tua s t).1 (t + (P.tua s t).2)).1
          (t + (P.tua s t).2 + (P.tua (P.tua s t).1 (t + (P.tua s t).2)).2)).2 = 0 := by
        rcases hr with a | a | a
        · exact absurd a h0
        · exact absurd a h1
        · exact a
      have hI2 := h.keep _ _ hI1
      have := h.zero _ _ hI2 h2
      simp [Policy.drain, h0, h1, h2, drainOK, this]

/-- a state condition that every operation of a run preserves holds at the end of the run -/
theorem inv_run (P : Policy σ) (I : σ → Nat → Prop)
    (hstep : ∀ s now o, I s now → now ≤ o.time → I (P.step s o) o.time) :
    ∀ (ops : List Op) (s : σ) (now : Nat), I s now → MonoOps now ops → I (P.run s ops) (endTime now ops)
  | [], _, _, h, _ => h
  | o :: os, s, now, h, hm => inv_run P I hstep os _ o.time (hstep s now o h hm.1) hm.2

/-! ### token bucket -/

def TB.I (s : TB) (t : Nat) : Prop := ∀ l, s.last = some l → l ≤ t

theorem tb_drainFacts (c : TBCfg) (hp : 0 < c.p) (hcap : c.one ≤ c.cap) : DrainFacts (tbPolicy c) TB.I where
  keep := by
    intro s t hI l hl
    simp only [tbPolicy] at hl
    rw [TB.tua_fst, (TB.refill_spec c s t hI).1] at hl
    cases hl; omega
  zero := fun s t hI h0 => tb_tua_zero_admits c s t hI h0
  reach := fun s t hI => tb_tua_reaches_admission c s t hp hcap hI

theorem tb_step_I (c : TBCfg) (s : TB) (now : Nat) (o : Op) (h : TB.I s now) (ht : now ≤ o.time) :
    TB.I ((tbPolicy c).step s o) o.time := by
  have hle : ∀ l, s.last = some l → l ≤ o.time := fun l hl => Nat.le_trans (h l hl) ht
  cases o with
  | acq t =>
    simp only [Op.time] at hle ⊢
    intro l hl
    simp only [Policy.step, tbPolicy, TB.acquire] at hl
    have r1 := (TB.refill_spec c s t hle).1
    split at hl <;> (simp only [r1] at hl; cases hl; exact Nat.le_refl _)
  | tua t =>
    simp only [Op.time] at hle ⊢
    intro l hl
    simp only [Policy.step, tbPolicy] at hl
    rw [TB.tua_fst, (TB.refill_spec c s t hle).1] at hl
    cases hl; exact Nat.le_refl _
  | succ t => exact hle
  | fail t => exact hle

/-! ### leaky bucket -/

def LB.I (s : LB) (t : Nat) : Prop := ∀ l, s.last = some l → l ≤ t

theorem lb_drainFacts (c : LBCfg) (hp : 0 < c.p) : DrainFacts (lbPolicy c) LB.I where
  keep := by
    intro s t hI l hl
    have := hI l hl
    omega
  zero := fun s t _ h0 => lb_tua_zero_admits c s t h0
  reach := fun s t hI => lb_tua_reaches_admission c s t hp hI

theorem lb_step_I (c : LBCfg) (s : LB) (now : Nat) (o : Op) (h : LB.I s now) (ht : now ≤ o.time) :
    LB.I ((lbPolicy c).step s o) o.time := by
  have hle : ∀ l, s.last = some l → l ≤ o.time := fun l hl => Nat.le_trans (h l hl) ht
  cases o with
  | acq t =>
    simp only [Op.time] at hle ⊢
    intro l hl
    simp only [Policy.step, lbPolicy, LB.acquire] at hl
    cases hs : s.last with
    | none => simp only [hs] at hl; cases hl; exact Nat.le_refl _
    | some l0 =>
      simp only [hs] at hl
      split at hl
      · cases hl; exact Nat.le_refl _
      · exact hle l hl
  | tua t => exact hle
  | succ t => exact hle
  | fail t => exact hle

/-! ### sliding window -/

def SW.I (c : WCfg) (s : SW) (_t : Nat) : Prop := s.log.length ≤ c.N

theorem sw_drainFacts (c : WCfg) (hN : 1 ≤ c.N) : DrainFacts (swPolicy c) (SW.I c) where
  keep := fun s t hI => sw_step_len c s (.tua t) hI
  zero := fun s t _ h0 => sw_tua_zero_admits c hN s t h0
  reach := fun s t hI => sw_tua_reaches_admission c hN s t hI

/-! ### fixed window -/

theorem FW.Ok.later {c : WCfg} {s : FW} {t t' : Nat} (h : FW.Ok c s t) (ht : t ≤ t') : FW.Ok c s t' :=
  ⟨h.1, fun w hw => by obtain ⟨k0, a, b⟩ := h.2 w hw; exact ⟨k0, a, by omega⟩⟩

theorem fw_drainFacts (c : WCfg) (hW : 0 < c.W) (hN : 1 ≤ c.N) : DrainFacts (fwPolicy c) (FW.Ok c) where
  keep := fun s t hI => (fw_step_ok c hW s t (.tua t) hI (Nat.le_refl _)).later (Nat.le_add_right _ _)
  zero := fun s t hI h0 => fw_tua_zero_admits c hW s t hI h0
  reach := fun s t hI => by
    rcases fw_tua_reaches_admission c hW hN s t hI with a | a
    · exact Or.inl a
    · exact Or.inr (Or.inl a)

/-! ### adaptive bucket -/

def AD.I (c : ADCfg) (s : AD) (t : Nat) : Prop :=
  0 < s.p ∧ c.one ≤ c.cap s.p ∧ ∀ l, s.last = some l → l ≤ t

theorem ad_drainFacts (c : ADCfg) : DrainFacts (adPolicy c) (AD.I c) where
  keep := by
    intro s t ⟨h1, h2, h3⟩
    simp only [adPolicy]
    rw [AD.tua_fst]
    unfold AD.I
    rw [AD.refill_p]
    refine ⟨h1, h2, ?_⟩
    intro l hl
    rw [(AD.refill_le c s t h3).1] at hl
    cases hl; omega
  zero := fun s t hI h0 => ad_tua_zero_admits c s t hI.2.2 h0
  reach := fun s t hI => ad_tua_reaches_admission c s t hI.1 hI.2.1 hI.2.2

/-- with feedback: after any operation list the adaptive state still satisfies the drain's condition,
    provided `pmin > 0` and the smallest bucket holds a token -/
theorem ad_run_I (c : ADCfg) (hc : ADOk c) (hmin : 0 < c.pmin) (hcap : c.one ≤ c.cap c.pmin) :
    ∀ (ops : List Op) (s : AD) (now : Nat), s.InRange c → (∀ l, s.last = some l → l ≤ now) → MonoOps now ops →
    AD.I c (AD.run c s ops) (endTime now ops) := by
  intro ops
  induction ops with
  | nil =>
    intro s now hr hl _
    exact ⟨Nat.lt_of_lt_of_le hmin hr.1, Nat.le_trans hcap (c.cap_mono hr.1), hl⟩
  | cons o os ih =>
    intro s now hr hl hm
    obtain ⟨hm1, hm2⟩ := hm
    have hr' := AD.step_range c hc s o hr
    have hle : ∀ l, s.last = some l → l ≤ o.time := fun l h => Nat.le_trans (hl l h) hm1
    refine ih _ o.time hr' ?_ hm2
    cases o with
    | acq t =>
      simp only [Op.time] at hle ⊢
      obtain ⟨⟨a1, _⟩, _⟩ := AD.step_call c s t hle
      intro l h; rw [a1] at h; cases h; exact Nat.le_refl _
    | tua t =>
      simp only [Op.time] at hle ⊢
      obtain ⟨_, ⟨a1, _⟩⟩ := AD.step_call c s t hle
      intro l h; rw [a1] at h; cases h; exact Nat.le_refl _
    | succ t => exact hle
    | fail t => exact hle

end HappyModel.C10
