import HappyProofs.C10.TuaWin
import HappyProofs.C10.EntityInv
/-!
# C10 — property theorems

"For any sequence of arrival times, the admitted requests satisfy the policy's bound over every time
interval (token bucket: capacity + rate × length; leaky bucket: spacing of at least 1/rate; sliding
window: at most N in any window; fixed window: at most N per aligned window and 2N in any
window-length interval; adaptive: the bucket bound of its current rate, which stays within
[min, max]).  If time_until_available returns zero an immediate acquire succeeds; otherwise no acquire
can succeed before the returned wait has elapsed, and repeatedly waiting the returned duration reaches
an admitting instant within a few steps.  A rate-limited entity forwards, queues or drops every
request exactly once, and forwards requests in arrival order."

All statements are about the exact-integer model of `HappyModel/C10` (times in ns; `one` units = one
token; rate `p` units per ns) and quantify over every operation list whose times never decrease
(`MonoOps`, what the engine guarantees) — and, for the entity, over every policy and every schedule.
The Spec predicates (`bucketOK`, `spacingOK`, `cnt`, `cntWin`, `ratesOK`, `exactlyOnceOK`, `fifoOK`)
are the ones the driver evaluates on transcripts of the real implementation.
-/
namespace HappyModel.C10

/-! ## admission bounds -/

/-- Token bucket: every run of `n` consecutive admissions `t₀ … t` satisfies
    `n · one ≤ max(cap, initial tokens) + p · (t − t₀)` — i.e. in any interval of length ℓ at most
    capacity + rate·ℓ requests are admitted.  Any starting state, any operation list. -/
theorem token_bucket_bound (c : TBCfg) (s : TB) (ops : List Op)
    (hm : ∀ l, s.last = some l → MonoOps l ops) (hm0 : s.last = none → MonoOps 0 ops) :
    bucketOK (max c.cap s.tok) c.p c.one ((tbPolicy c).admitted s ops) = true :=
  tb_bucketOK c _ (Nat.le_max_left _ _) ops s (Nat.le_max_right _ _) hm hm0

example : (tbPolicy ⟨2, 1, 1⟩).admitted ⟨2, none⟩ [.acq 0, .acq 0, .acq 0, .tua 0, .acq 1, .acq 1] = [0, 0, 1] := by decide
example : MonoOps 0 [.acq 0, .acq 0, .acq 0, .tua 0, .acq 1, .acq 1] := by simp [MonoOps, Op.time]
example : bucketOK 2 1 1 [0, 0, 1] = true ∧ bucketOK 2 1 1 [0, 0, 0] = false := by decide

/-- Leaky bucket: consecutive admissions are at least `1/rate` apart (`one ≤ p · Δ`), from a fresh
    policy and for any operation list (no assumption on times). -/
theorem leaky_spacing (c : LBCfg) (ops : List Op) :
    spacingOK c.p c.one 0 ((lbPolicy c).admitted ⟨none⟩ ops) = true :=
  (lb_spacing c ops ⟨none⟩).2 rfl

example : (lbPolicy ⟨1, 4⟩).admitted ⟨none⟩ [.acq 0, .acq 3, .acq 4, .acq 7, .acq 9] = [0, 4, 9] := by decide
example : spacingOK 1 4 0 [0, 4, 9] = true ∧ spacingOK 1 4 0 [0, 3] = false := by decide

/-- Sliding window: at most `N` admissions in *every* closed window `[a, a + W]`. -/
theorem sliding_window_bound (c : WCfg) (ops : List Op) (hm : MonoOps 0 ops) (a : Nat) :
    cnt a (a + c.W) ((swPolicy c).admitted ⟨[]⟩ ops) ≤ c.N := by
  have := sw_main c ops ⟨[]⟩ [] 0 hm (by simp) (by simp [cnt]) a
  simpa using this

/-- … in particular the executable Spec predicate holds of the model's admitted list -/
theorem sliding_window_spec (c : WCfg) (ops : List Op) (hm : MonoOps 0 ops) :
    slidingOK c.W c.N ((swPolicy c).admitted ⟨[]⟩ ops) = true := by
  simp only [slidingOK, List.all_eq_true, decide_eq_true_eq]
  intro a _; exact sliding_window_bound c ops hm a

example : (swPolicy ⟨10, 2⟩).admitted ⟨[]⟩ [.acq 0, .acq 5, .acq 10, .acq 11, .acq 15, .acq 16] = [0, 5, 11, 16] := by decide
example : slidingOK 10 2 [0, 5, 11, 16] = true ∧ slidingOK 10 2 [0, 5, 10] = false := by decide

/-- Fixed window: at most `N` admissions in every aligned window `[k·W, (k+1)·W)` and at most `2N` in
    every closed interval of one window length. -/
theorem fixed_window_bounds (c : WCfg) (hW : 0 < c.W) (ops : List Op) (hm : MonoOps 0 ops) :
    (∀ k, cntWin c.W k ((fwPolicy c).admitted ⟨none, 0⟩ ops) ≤ c.N) ∧
    (∀ a, cnt a (a + c.W) ((fwPolicy c).admitted ⟨none, 0⟩ ops) ≤ 2 * c.N) := by
  have h1 : ∀ k, cntWin c.W k ((fwPolicy c).admitted ⟨none, 0⟩ ops) ≤ c.N := by
    intro k
    have := fw_main c hW ops ⟨none, 0⟩ [] 0 hm ⟨fun _ => rfl, fun w h => by cases h⟩ (by simp [cntWin]) k
    simpa using this
  refine ⟨h1, fun a => ?_⟩
  have := cnt_le_two_windows c.W hW a ((fwPolicy c).admitted ⟨none, 0⟩ ops)
  have := h1 (a / c.W); have := h1 (a / c.W + 1)
  omega

theorem fixed_window_spec (c : WCfg) (hW : 0 < c.W) (ops : List Op) (hm : MonoOps 0 ops) :
    fixedAlignedOK c.W c.N ((fwPolicy c).admitted ⟨none, 0⟩ ops) = true ∧
    fixedAnyOK c.W c.N ((fwPolicy c).admitted ⟨none, 0⟩ ops) = true := by
  obtain ⟨h1, h2⟩ := fixed_window_bounds c hW ops hm
  simp only [fixedAlignedOK, fixedAnyOK, List.all_eq_true, decide_eq_true_eq]
  exact ⟨fun t _ => h1 _, fun a _ => h2 a⟩

example : (fwPolicy ⟨10, 1⟩).admitted ⟨none, 0⟩ [.acq 9, .acq 9, .acq 10, .acq 19, .acq 20] = [9, 10, 20] := by decide
example : fixedAnyOK 10 1 [9, 10, 20] = true ∧ fixedAlignedOK 10 1 [9, 10, 20] = true ∧
    fixedAlignedOK 10 1 [10, 19] = false := by decide

/-- Adaptive: after every operation (acquire, time_until_available, success or failure feedback) the
    rate is within `[pmin, pmax]`, and admissions satisfy the bucket bound of the largest rate. -/
theorem adaptive_rate_in_range (c : ADCfg) (hc : ADOk c) (s : AD) (hs : s.InRange c) (ops : List Op) :
    ratesOK c.pmin c.pmax (AD.rates c s ops) = true :=
  ad_rates_ok c hc ops s hs

theorem adaptive_bucket_bound (c : ADCfg) (hc : ADOk c) (s : AD) (hs : s.InRange c) (ops : List Op)
    (hm : ∀ l, s.last = some l → MonoOps l ops) (hm0 : s.last = none → MonoOps 0 ops) :
    bucketOK (max (c.cap c.pmax) s.tok) c.pmax c.one (AD.admitted c s ops) = true :=
  ad_bucketOK c hc _ (Nat.le_max_left _ _) ops s hs (Nat.le_max_right _ _) hm hm0

example : ADOk ⟨2, 8, 1, 1, 2, 4, 1, 4⟩ ∧ AD.InRange ⟨2, 8, 1, 1, 2, 4, 1, 4⟩ ⟨4, 16, none⟩ := by
  refine ⟨⟨by decide, by decide⟩, by decide, by decide⟩
example : AD.rates ⟨2, 8, 1, 1, 2, 4, 1, 4⟩ ⟨4, 16, none⟩ [.fail 0, .fail 0, .fail 1, .succ 1, .acq 2] = [2, 2, 2, 3, 3] := by decide

/-! ## time_until_available -/

/-!
State hypotheses (all hold in every reachable state, see `fw_step_ok`, `sw_step_len`, `AD.step_range`):
`NotBefore s.last t` — the clock has not gone backwards; `FW.Ok` — the current fixed window is
aligned and not in the future, counter ≤ N; sliding log no longer than `N`.  Configuration hypotheses:
rate `0 < p`, capacity of at least one token, `1 ≤ N`, `0 < W` — without them nothing is ever admitted.
-/

/-- the last refill / leak time is not after `t` -/
def NotBefore (last : Option Nat) (t : Nat) : Prop := ∀ l, last = some l → l ≤ t

/-- `time_until_available(t) = 0` ⇒ `try_acquire(t)` right afterwards is granted — all five policies -/
theorem tua_zero_admits :
    (∀ (c : TBCfg) (s : TB) (t : Nat), NotBefore s.last t →
      (TB.tua c s t).2 = 0 → (TB.acquire c (TB.tua c s t).1 t).2 = true) ∧
    (∀ (c : LBCfg) (s : LB) (t : Nat),
      (LB.tua c s t).2 = 0 → (LB.acquire c (LB.tua c s t).1 t).2 = true) ∧
    (∀ (c : WCfg) (s : SW) (t : Nat), 1 ≤ c.N →
      (SW.tua c s t).2 = 0 → (SW.acquire c (SW.tua c s t).1 t).2 = true) ∧
    (∀ (c : WCfg) (s : FW) (t : Nat), 0 < c.W → FW.Ok c s t →
      (FW.tua c s t).2 = 0 → (FW.acquire c (FW.tua c s t).1 t).2 = true) ∧
    (∀ (c : ADCfg) (s : AD) (t : Nat), NotBefore s.last t →
      (AD.tua c s t).2 = 0 → (AD.acquire c (AD.tua c s t).1 t).2 = true) :=
  ⟨tb_tua_zero_admits, lb_tua_zero_admits, fun c s t hN => sw_tua_zero_admits c hN s t,
   fun c s t hW h => fw_tua_zero_admits c hW s t h, ad_tua_zero_admits⟩

/-- `time_until_available(t) = w > 0` ⇒ no `try_acquire(t')` with `t ≤ t' < t + w` is granted -/
theorem tua_positive_blocks :
    (∀ (c : TBCfg) (s : TB) (t t' : Nat), 0 < c.p → NotBefore s.last t → t ≤ t' →
      t' < t + (TB.tua c s t).2 → (TB.acquire c (TB.tua c s t).1 t').2 = false) ∧
    (∀ (c : LBCfg) (s : LB) (t t' : Nat), 0 < c.p → NotBefore s.last t → t ≤ t' →
      t' < t + (LB.tua c s t).2 → (LB.acquire c (LB.tua c s t).1 t').2 = false) ∧
    (∀ (c : WCfg) (s : SW) (t t' : Nat), t ≤ t' →
      t' < t + (SW.tua c s t).2 → (SW.acquire c (SW.tua c s t).1 t').2 = false) ∧
    (∀ (c : WCfg) (s : FW) (t t' : Nat), 0 < c.W → FW.Ok c s t → t ≤ t' →
      t' < t + (FW.tua c s t).2 → (FW.acquire c (FW.tua c s t).1 t').2 = false) ∧
    (∀ (c : ADCfg) (s : AD) (t t' : Nat), 0 < s.p → NotBefore s.last t → t ≤ t' →
      t' < t + (AD.tua c s t).2 → (AD.acquire c (AD.tua c s t).1 t').2 = false) :=
  ⟨tb_tua_positive_blocks, lb_tua_positive_blocks, sw_tua_positive_blocks,
   fun c s t t' hW h => fw_tua_positive_blocks c hW s t t' h, ad_tua_positive_blocks⟩

/-- Waiting the returned duration reaches `time_until_available = 0` after at most two positive waits
    (one for the fixed window); the second one is the 1 ns guard.  With `tua_zero_admits` the acquire
    made at that instant is granted — a drain never stalls. -/
theorem tua_reaches_admission :
    (∀ (c : TBCfg) (s : TB) (t : Nat), 0 < c.p → c.one ≤ c.cap → NotBefore s.last t →
      (TB.tua c s t).2 = 0 ∨
      (TB.tua c (TB.tua c s t).1 (t + (TB.tua c s t).2)).2 = 0 ∨
      (TB.tua c (TB.tua c (TB.tua c s t).1 (t + (TB.tua c s t).2)).1
        (t + (TB.tua c s t).2 + (TB.tua c (TB.tua c s t).1 (t + (TB.tua c s t).2)).2)).2 = 0) ∧
    (∀ (c : LBCfg) (s : LB) (t : Nat), 0 < c.p → NotBefore s.last t →
      (LB.tua c s t).2 = 0 ∨ (LB.tua c s (t + (LB.tua c s t).2)).2 = 0 ∨
      (LB.tua c s (t + (LB.tua c s t).2 + (LB.tua c s (t + (LB.tua c s t).2)).2)).2 = 0) ∧
    (∀ (c : WCfg) (s : SW) (t : Nat), 1 ≤ c.N → s.log.length ≤ c.N →
      (SW.tua c s t).2 = 0 ∨
      (SW.tua c (SW.tua c s t).1 (t + (SW.tua c s t).2)).2 = 0 ∨
      (SW.tua c (SW.tua c (SW.tua c s t).1 (t + (SW.tua c s t).2)).1
        (t + (SW.tua c s t).2 + (SW.tua c (SW.tua c s t).1 (t + (SW.tua c s t).2)).2)).2 = 0) ∧
    (∀ (c : WCfg) (s : FW) (t : Nat), 0 < c.W → 1 ≤ c.N → FW.Ok c s t →
      (FW.tua c s t).2 = 0 ∨ (FW.tua c (FW.tua c s t).1 (t + (FW.tua c s t).2)).2 = 0) ∧
    (∀ (c : ADCfg) (s : AD) (t : Nat), 0 < s.p → c.one ≤ c.cap s.p → NotBefore s.last t →
      (AD.tua c s t).2 = 0 ∨
      (AD.tua c (AD.tua c s t).1 (t + (AD.tua c s t).2)).2 = 0 ∨
      (AD.tua c (AD.tua c (AD.tua c s t).1 (t + (AD.tua c s t).2)).1
        (t + (AD.tua c s t).2 + (AD.tua c (AD.tua c s t).1 (t + (AD.tua c s t).2)).2)).2 = 0) :=
  ⟨tb_tua_reaches_admission, lb_tua_reaches_admission,
   fun c s t hN hl => sw_tua_reaches_admission c hN s t hl,
   fun c s t hW hN h => fw_tua_reaches_admission c hW hN s t h, ad_tua_reaches_admission⟩

example : (TB.tua ⟨3, 2, 3⟩ ⟨0, some 0⟩ 0).2 = 1 ∧
    (TB.tua ⟨3, 2, 3⟩ (TB.tua ⟨3, 2, 3⟩ ⟨0, some 0⟩ 0).1 1).2 = 1 ∧
    (TB.tua ⟨3, 2, 3⟩ (TB.tua ⟨3, 2, 3⟩ (TB.tua ⟨3, 2, 3⟩ ⟨0, some 0⟩ 0).1 1).1 2).2 = 0 := by decide
example : (LB.tua ⟨2, 7⟩ ⟨some 0⟩ 0).2 = 3 ∧ (LB.tua ⟨2, 7⟩ ⟨some 0⟩ 3).2 = 1 ∧ (LB.tua ⟨2, 7⟩ ⟨some 0⟩ 4).2 = 0 := by decide
-- sliding window (W = 10, N = 1) holding an admission at 5: waits 10, then the 1 ns guard, then zero
example : (SW.tua ⟨10, 1⟩ ⟨[5]⟩ 5).2 = 10 ∧ (SW.tua ⟨10, 1⟩ ⟨[5]⟩ 15).2 = 1 ∧ (SW.tua ⟨10, 1⟩ ⟨[5]⟩ 16).2 = 0 := by decide
-- fixed window (W = 10, N = 1), full at 13: wait 7 to the boundary, then zero; the state is `FW.Ok`
example : (FW.tua ⟨10, 1⟩ ⟨some 10, 1⟩ 13).2 = 7 ∧ (FW.tua ⟨10, 1⟩ ⟨some 10, 1⟩ 20).2 = 0 ∧
    FW.Ok ⟨10, 1⟩ ⟨some 10, 1⟩ 13 :=
  ⟨by decide, by decide, by decide, fun w h => by cases h; exact ⟨1, by decide, by decide⟩⟩
example : NotBefore (some 3) 5 := fun l h => by cases h; decide

/-! ## the rate-limited entity (any policy, any schedule of request and poll deliveries) -/

/-- the entity after a whole schedule, started empty with policy state `s0` -/
def Ent.final {σ : Type} (P : Policy σ) (qcap : Nat) (s0 : σ) (acts : List Act) : Ent σ :=
  Ent.run P qcap (Ent.init s0) acts

theorem final_inv {σ : Type} (P : Policy σ) (qcap : Nat) (s0 : σ) (acts : List Act) :
    EInv (Ent.final P qcap s0 acts) ∧ (Ent.final P qcap s0 acts).R = reqIds acts := by
  refine ⟨run_inv P qcap acts _ (init_inv s0), ?_⟩
  have := run_R P qcap acts (Ent.init s0)
  simpa [Ent.init, Ent.R, Ent.final] using this

/-- forwarded ⊎ queued ⊎ dropped = received, as multisets: every id occurs among the forwarded, the
    still queued and the dropped requests exactly as often as it was received -/
theorem entity_exactly_once {σ : Type} (P : Policy σ) (qcap : Nat) (s0 : σ) (acts : List Act) :
    ((Ent.final P qcap s0 acts).F ++ (Ent.final P qcap s0 acts).queue ++ (Ent.final P qcap s0 acts).D).Perm
      (reqIds acts) := by
  obtain ⟨hi, hr⟩ := final_inv P qcap s0 acts
  rw [List.perm_iff_count]
  intro x; rw [← hr]; exact hi.count x

/-- with distinct request ids the executable Spec predicate holds of the model's logs -/
theorem entity_exactly_once_spec {σ : Type} (P : Policy σ) (qcap : Nat) (s0 : σ) (acts : List Act)
    (hd : (reqIds acts).Nodup) :
    exactlyOnceOK (reqIds acts) (Ent.final P qcap s0 acts).F (Ent.final P qcap s0 acts).D
      (Ent.final P qcap s0 acts).queue.length = true := by
  have hp := entity_exactly_once P qcap s0 acts
  generalize Ent.final P qcap s0 acts = e at *
  have hnd : (e.F ++ e.queue ++ e.D).Nodup := hp.nodup_iff.mpr hd
  have hsub : (e.F ++ e.D).Sublist (e.F ++ e.queue ++ e.D) := by
    rw [List.append_assoc]
    exact List.Sublist.append (List.Sublist.refl _) (List.sublist_append_right _ _)
  have hlen := hp.length_eq
  simp only [exactlyOnceOK, Bool.and_eq_true, nodupB_iff, List.all_eq_true, List.contains_iff_mem,
    decide_eq_true_eq]
  refine ⟨⟨hsub.nodup hnd, fun x hx => hp.mem_iff.mp (hsub.subset hx)⟩, ?_⟩
  simp only [List.length_append] at hlen; omega

/-- requests are forwarded in arrival order: the forwarded ids followed by the queued ids form a
    subsequence of the arrival sequence -/
theorem entity_fifo {σ : Type} (P : Policy σ) (qcap : Nat) (s0 : σ) (acts : List Act) :
    ((Ent.final P qcap s0 acts).F ++ (Ent.final P qcap s0 acts).queue).Sublist (reqIds acts) ∧
    fifoOK (reqIds acts) (Ent.final P qcap s0 acts).F = true := by
  obtain ⟨hi, hr⟩ := final_inv P qcap s0 acts
  have h1 := hi.order
  rw [hr] at h1
  refine ⟨h1, ?_⟩
  simp only [fifoOK, List.isSublist_iff_sublist]
  exact List.Sublist.trans (List.sublist_append_left _ _) h1

/-- the token bucket (1 token, refill p = 1 unit/ns, one = 4) as the entity's policy: requests 0, 1, 2
    arrive at 0, 1, 4; request 2 arrives while 1 is queued and a token is available: 1 goes first -/
example :
    (Ent.final (tbPolicy ⟨4, 1, 4⟩) 10 ⟨4, none⟩ [.req 0 0, .req 1 1, .req 2 4, .poll 4, .poll 8]).fwd.reverse
      = [(0, 0), (1, 4), (2, 8)] ∧
    (Ent.final (tbPolicy ⟨4, 1, 4⟩) 10 ⟨4, none⟩ [.req 0 0, .req 1 1, .req 2 4, .poll 4, .poll 8]).queue = [] ∧
    (reqIds [.req 0 0, .req 1 1, .req 2 4, .poll 4, .poll 8]).Nodup := by decide

end HappyModel.C10
