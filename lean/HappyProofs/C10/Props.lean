import HappyProofs.C10.TuaWin
import HappyProofs.C10.TuaSpecAD
import HappyProofs.C10.AdaptiveCredit
import HappyProofs.C10.PropsAdaptive
import HappyProofs.C10.PropsRun
import HappyProofs.C10.EntityInv
import HappyProofs.C10.EntityPoll
import HappyProofs.C10.EntityCap
import HappyProofs.C10.Distributed
/-!
# C10 — property theorems

"For any sequence of arrival times, the admitted requests satisfy the policy's bound over every time
interval (token bucket: capacity + rate × length; leaky bucket: spacing of at least 1/rate; sliding
window: at most N in any window; fixed window: at most N per aligned window and 2N in any
window-length interval; adaptive: the bucket bound of its current rate, which stays within
[min, max]).  If time_until_available returns zero an immediate acquire succeeds; otherwise no acquire
can succeed before the returned wait has elapsed, and repeatedly waiting the returned duration reaches
an admitting instant within a few steps.  A rate-limited entity forwards, queues or drops every
request exactly once, and forwards requests in arrival order."

All statements are about the exact-integer model of `HappyModel/C10` (times in ns; `one` units = one
token; rate `p` units per ns) and quantify over every operation list whose times never decrease
(`MonoOps`, what the engine guarantees) — and, for the entity, over every policy and every schedule.
The Spec predicates (`bucketOK`, `spacingOK`, `cnt`, `cntWin`, `ratesOK`, `exactlyOnceOK`, `fifoOK`)
are the ones the driver evaluates on transcripts of the real implementation.
-/
namespace HappyModel.C10

/-! ## admission bounds -/

/-- Token bucket: every run of `n` consecutive admissions `t₀ … t` satisfies
    `n · one ≤ max(cap, initial tokens) + p · (t − t₀)` — i.e. in any interval of length ℓ at most
    capacity + rate·ℓ requests are admitted.  Any starting state, any operation list. -/
theorem token_bucket_bound (c : TBCfg) (s : TB) (ops : List Op)
    (hm : ∀ l, s.last = some l → MonoOps l ops) (hm0 : s.last = none → MonoOps 0 ops) :
    bucketOK (max c.cap s.tok) c.p c.one ((tbPolicy c).admitted s ops) = true :=
  tb_bucketOK c _ (Nat.le_max_left _ _) ops s (Nat.le_max_right _ _) hm hm0

example : (tbPolicy ⟨2, 1, 1⟩).admitted ⟨2, none⟩ [.acq 0, .acq 0, .acq 0, .tua 0, .acq 1, .acq 1] = [0, 0, 1] := by decide
example : MonoOps 0 [.acq 0, .acq 0, .acq 0, .tua 0, .acq 1, .acq 1] := by simp [MonoOps, Op.time]
example : bucketOK 2 1 1 [0, 0, 1] = true ∧ bucketOK 2 1 1 [0, 0, 0] = false := by decide

/-- Leaky bucket: consecutive admissions are at least `1/rate` apart (`one ≤ p · Δ`), from a fresh
    policy and for any operation list (no assumption on times). -/
theorem leaky_spacing (c : LBCfg) (ops : List Op) :
    spacingOK c.p c.one 0 ((lbPolicy c).admitted ⟨none⟩ ops) = true :=
  (lb_spacing c ops ⟨none⟩).2 rfl

example : (lbPolicy ⟨1, 4⟩).admitted ⟨none⟩ [.acq 0, .acq 3, .acq 4, .acq 7, .acq 9] = [0, 4, 9] := by decide
example : spacingOK 1 4 0 [0, 4, 9] = true ∧ spacingOK 1 4 0 [0, 3] = false := by decide

/-- Sliding window: at most `N` admissions in *every* closed window `[a, a + W]`. -/
theorem sliding_window_bound (c : WCfg) (ops : List Op) (hm : MonoOps 0 ops) (a : Nat) :
    cnt a (a + c.W) ((swPolicy c).admitted ⟨[]⟩ ops) ≤ c.N := by
  have := sw_main c ops ⟨[]⟩ [] 0 hm (by simp) (by simp [cnt]) a
  simpa using this

/-- … in particular the executable Spec predicate holds of the model's admitted list -/
theorem sliding_window_spec (c : WCfg) (ops : List Op) (hm : MonoOps 0 ops) :
    slidingOK c.W c.N ((swPolicy c).admitted ⟨[]⟩ ops) = true := by
  simp only [slidingOK, List.all_eq_true, decide_eq_true_eq]
  intro a _; exact sliding_window_bound c ops hm a

example : (swPolicy ⟨10, 2⟩).admitted ⟨[]⟩ [.acq 0, .acq 5, .acq 10, .acq 11, .acq 15, .acq 16] = [0, 5, 11, 16] := by decide
example : slidingOK 10 2 [0, 5, 11, 16] = true ∧ slidingOK 10 2 [0, 5, 10] = false := by decide

/-- Fixed window: at most `N` admissions in every aligned window `[k·W, (k+1)·W)` and at most `2N` in
    every closed interval of one window length. -/
theorem fixed_window_bounds (c : WCfg) (hW : 0 < c.W) (ops : List Op) (hm : MonoOps 0 ops) :
    (∀ k, cntWin c.W k ((fwPolicy c).admitted ⟨none, 0⟩ ops) ≤ c.N) ∧
    (∀ a, cnt a (a + c.W) ((fwPolicy c).admitted ⟨none, 0⟩ ops) ≤ 2 * c.N) := by
  have h1 : ∀ k, cntWin c.W k ((fwPolicy c).admitted ⟨none, 0⟩ ops) ≤ c.N := by
    intro k
    have := fw_main c hW ops ⟨none, 0⟩ [] 0 hm ⟨fun _ => rfl, fun w h => by cases h⟩ (by simp [cntWin]) k
    simpa using this
  refine ⟨h1, fun a => ?_⟩
  have := cnt_le_two_windows c.W hW a ((fwPolicy c).admitted ⟨none, 0⟩ ops)
  have := h1 (a / c.W); have := h1 (a / c.W + 1)
  omega

theorem fixed_window_spec (c : WCfg) (hW : 0 < c.W) (ops : List Op) (hm : MonoOps 0 ops) :
    fixedAlignedOK c.W c.N ((fwPolicy c).admitted ⟨none, 0⟩ ops) = true ∧
    fixedAnyOK c.W c.N ((fwPolicy c).admitted ⟨none, 0⟩ ops) = true := by
  obtain ⟨h1, h2⟩ := fixed_window_bounds c hW ops hm
  simp only [fixedAlignedOK, fixedAnyOK, List.all_eq_true, decide_eq_true_eq]
  exact ⟨fun t _ => h1 _, fun a _ => h2 a⟩

example : (fwPolicy ⟨10, 1⟩).admitted ⟨none, 0⟩ [.acq 9, .acq 9, .acq 10, .acq 19, .acq 20] = [9, 10, 20] := by decide
example : fixedAnyOK 10 1 [9, 10, 20] = true ∧ fixedAlignedOK 10 1 [9, 10, 20] = true ∧
    fixedAlignedOK 10 1 [10, 19] = false := by decide

/-- Adaptive: after every operation (acquire, time_until_available, success or failure feedback) the
    rate is within `[pmin, pmax]`, and admissions satisfy the bucket bound of the largest rate. -/
theorem adaptive_rate_in_range (c : ADCfg) (hc : ADOk c) (s : AD) (hs : s.InRange c) (ops : List Op) :
    ratesOK c.pmin c.pmax (AD.rates c s ops) = true :=
  ad_rates_ok c hc ops s hs

theorem adaptive_bucket_bound (c : ADCfg) (hc : ADOk c) (s : AD) (hs : s.InRange c) (ops : List Op)
    (hm : ∀ l, s.last = some l → MonoOps l ops) (hm0 : s.last = none → MonoOps 0 ops) :
    bucketOK (max (c.cap c.pmax) s.tok) c.pmax c.one (AD.admitted c s ops) = true :=
  ad_bucketOK c hc _ (Nat.le_max_left _ _) ops s hs (Nat.le_max_right _ _) hm hm0

example : ADOk ⟨2, 8, 1, 1, 2, 4, 1, 4⟩ ∧ AD.InRange ⟨2, 8, 1, 1, 2, 4, 1, 4⟩ ⟨4, 16, none⟩ := by
  refine ⟨⟨by decide, by decide⟩, by decide, by decide⟩
example : AD.rates ⟨2, 8, 1, 1, 2, 4, 1, 4⟩ ⟨4, 16, none⟩ [.fail 0, .fail 0, .fail 1, .succ 1, .acq 2] = [2, 2, 2, 3, 3] := by decide

/-! ## time_until_available -/

/-!
State hypotheses (all hold in every reachable state, see `fw_step_ok`, `sw_step_len`, `AD.step_range`):
`NotBefore s.last t` — the clock has not gone backwards; `FW.Ok` — the current fixed window is
aligned and not in the future, counter ≤ N; sliding log no longer than `N`.  Configuration hypotheses:
rate `0 < p`, capacity of at least one token, `1 ≤ N`, `0 < W` — without them nothing is ever admitted.
-/

/-- the last refill / leak time is not after `t` -/
def NotBefore (last : Option Nat) (t : Nat) : Prop := ∀ l, last = some l → l ≤ t

/-- `time_until_available(t) = 0` ⇒ `try_acquire(t)` right afterwards is granted — all five policies -/
theorem tua_zero_admits :
    (∀ (c : TBCfg) (s : TB) (t : Nat), NotBefore s.last t →
      (TB.tua c s t).2 = 0 → (TB.acquire c (TB.tua c s t).1 t).2 = true) ∧
    (∀ (c : LBCfg) (s : LB) (t : Nat),
      (LB.tua c s t).2 = 0 → (LB.acquire c (LB.tua c s t).1 t).2 = true) ∧
    (∀ (c : WCfg) (s : SW) (t : Nat), 1 ≤ c.N →
      (SW.tua c s t).2 = 0 → (SW.acquire c (SW.tua c s t).1 t).2 = true) ∧
    (∀ (c : WCfg) (s : FW) (t : Nat), 0 < c.W → FW.Ok c s t →
      (FW.tua c s t).2 = 0 → (FW.acquire c (FW.tua c s t).1 t).2 = true) ∧
    (∀ (c : ADCfg) (s : AD) (t : Nat), NotBefore s.last t →
      (AD.tua c s t).2 = 0 → (AD.acquire c (AD.tua c s t).1 t).2 = true) :=
  ⟨tb_tua_zero_admits, lb_tua_zero_admits, fun c s t hN => sw_tua_zero_admits c hN s t,
   fun c s t hW h => fw_tua_zero_admits c hW s t h, ad_tua_zero_admits⟩

/-- `time_until_available(t) = w > 0` ⇒ no `try_acquire(t')` with `t ≤ t' < t + w` is granted -/
theorem tua_positive_blocks :
    (∀ (c : TBCfg) (s : TB) (t t' : Nat), 0 < c.p → NotBefore s.last t → t ≤ t' →
      t' < t + (TB.tua c s t).2 → (TB.acquire c (TB.tua c s t).1 t').2 = false) ∧
    (∀ (c : LBCfg) (s : LB) (t t' : Nat), 0 < c.p → NotBefore s.last t → t ≤ t' →
      t' < t + (LB.tua c s t).2 → (LB.acquire c (LB.tua c s t).1 t').2 = false) ∧
    (∀ (c : WCfg) (s : SW) (t t' : Nat), t ≤ t' →
      t' < t + (SW.tua c s t).2 → (SW.acquire c (SW.tua c s t).1 t').2 = false) ∧
    (∀ (c : WCfg) (s : FW) (t t' : Nat), 0 < c.W → FW.Ok c s t → t ≤ t' →
      t' < t + (FW.tua c s t).2 → (FW.acquire c (FW.tua c s t).1 t').2 = false) ∧
    (∀ (c : ADCfg) (s : AD) (t t' : Nat), 0 < s.p → NotBefore s.last t → t ≤ t' →
      t' < t + (AD.tua c s t).2 → (AD.acquire c (AD.tua c s t).1 t').2 = false) :=
  ⟨tb_tua_positive_blocks, lb_tua_positive_blocks, sw_tua_positive_blocks,
   fun c s t t' hW h => fw_tua_positive_blocks c hW s t t' h, ad_tua_positive_blocks⟩

/-- Waiting the returned duration reaches `time_until_available = 0` after at most two positive waits
    (one for the fixed window); the second one is the 1 ns guard.  With `tua_zero_admits` the acquire
    made at that instant is granted — a drain never stalls. -/
theorem tua_reaches_admission :
    (∀ (c : TBCfg) (s : TB) (t : Nat), 0 < c.p → c.one ≤ c.cap → NotBefore s.last t →
      (TB.tua c s t).2 = 0 ∨
      (TB.tua c (TB.tua c s t).1 (t + (TB.tua c s t).2)).2 = 0 ∨
      (TB.tua c (TB.tua c (TB.tua c s t).1 (t + (TB.tua c s t).2)).1
        (t + (TB.tua c s t).2 + (TB.tua c (TB.tua c s t).1 (t + (TB.tua c s t).2)).2)).2 = 0) ∧
    (∀ (c : LBCfg) (s : LB) (t : Nat), 0 < c.p → NotBefore s.last t →
      (LB.tua c s t).2 = 0 ∨ (LB.tua c s (t + (LB.tua c s t).2)).2 = 0 ∨
      (LB.tua c s (t + (LB.tua c s t).2 + (LB.tua c s (t + (LB.tua c s t).2)).2)).2 = 0) ∧
    (∀ (c : WCfg) (s : SW) (t : Nat), 1 ≤ c.N → s.log.length ≤ c.N →
      (SW.tua c s t).2 = 0 ∨
      (SW.tua c (SW.tua c s t).1 (t + (SW.tua c s t).2)).2 = 0 ∨
      (SW.tua c (SW.tua c (SW.tua c s t).1 (t + (SW.tua c s t).2)).1
        (t + (SW.tua c s t).2 + (SW.tua c (SW.tua c s t).1 (t + (SW.tua c s t).2)).2)).2 = 0) ∧
    (∀ (c : WCfg) (s : FW) (t : Nat), 0 < c.W → 1 ≤ c.N → FW.Ok c s t →
      (FW.tua c s t).2 = 0 ∨ (FW.tua c (FW.tua c s t).1 (t + (FW.tua c s t).2)).2 = 0) ∧
    (∀ (c : ADCfg) (s : AD) (t : Nat), 0 < s.p → c.one ≤ c.cap s.p → NotBefore s.last t →
      (AD.tua c s t).2 = 0 ∨
      (AD.tua c (AD.tua c s t).1 (t + (AD.tua c s t).2)).2 = 0 ∨
      (AD.tua c (AD.tua c (AD.tua c s t).1 (t + (AD.tua c s t).2)).1
        (t + (AD.tua c s t).2 + (AD.tua c (AD.tua c s t).1 (t + (AD.tua c s t).2)).2)).2 = 0) :=
  ⟨tb_tua_reaches_admission, lb_tua_reaches_admission,
   fun c s t hN hl => sw_tua_reaches_admission c hN s t hl,
   fun c s t hW hN h => fw_tua_reaches_admission c hW hN s t h, ad_tua_reaches_admission⟩

example : (TB.tua ⟨3, 2, 3⟩ ⟨0, some 0⟩ 0).2 = 1 ∧
    (TB.tua ⟨3, 2, 3⟩ (TB.tua ⟨3, 2, 3⟩ ⟨0, some 0⟩ 0).1 1).2 = 1 ∧
    (TB.tua ⟨3, 2, 3⟩ (TB.tua ⟨3, 2, 3⟩ (TB.tua ⟨3, 2, 3⟩ ⟨0, some 0⟩ 0).1 1).1 2).2 = 0 := by decide
example : (LB.tua ⟨2, 7⟩ ⟨some 0⟩ 0).2 = 3 ∧ (LB.tua ⟨2, 7⟩ ⟨some 0⟩ 3).2 = 1 ∧ (LB.tua ⟨2, 7⟩ ⟨some 0⟩ 4).2 = 0 := by decide
-- sliding window (W = 10, N = 1) holding an admission at 5: waits 10, then the 1 ns guard, then zero
example : (SW.tua ⟨10, 1⟩ ⟨[5]⟩ 5).2 = 10 ∧ (SW.tua ⟨10, 1⟩ ⟨[5]⟩ 15).2 = 1 ∧ (SW.tua ⟨10, 1⟩ ⟨[5]⟩ 16).2 = 0 := by decide
-- fixed window (W = 10, N = 1), full at 13: wait 7 to the boundary, then zero; the state is `FW.Ok`
example : (FW.tua ⟨10, 1⟩ ⟨some 10, 1⟩ 13).2 = 7 ∧ (FW.tua ⟨10, 1⟩ ⟨some 10, 1⟩ 20).2 = 0 ∧
    FW.Ok ⟨10, 1⟩ ⟨some 10, 1⟩ 13 :=
  ⟨by decide, by decide, by decide, fun w h => by cases h; exact ⟨1, by decide, by decide⟩⟩
example : NotBefore (some 3) 5 := fun l h => by cases h; decide

/-! ## time_until_available over whole runs -/

/-- After `time_until_available(t) = w`, **no** `try_acquire` at any time in `[t, t + w)` is granted,
    whatever refused acquires and further `time_until_available` calls are made in between: every
    timestamp admitted by *any* continuation `ops` (times not decreasing) is `≥ t + w`.  All five
    policies; for the adaptive one up to the next rate change (`NoFeedback`). -/
theorem tua_positive_blocks_run :
    (∀ (c : TBCfg) (s : TB) (t : Nat) (ops : List Op), 0 < c.p → NotBefore s.last t → MonoOps t ops →
      ∀ x ∈ (tbPolicy c).admitted (TB.tua c s t).1 ops, t + (TB.tua c s t).2 ≤ x) ∧
    (∀ (c : LBCfg) (s : LB) (t : Nat) (ops : List Op), 0 < c.p → NotBefore s.last t → MonoOps t ops →
      ∀ x ∈ (lbPolicy c).admitted (LB.tua c s t).1 ops, t + (LB.tua c s t).2 ≤ x) ∧
    (∀ (c : WCfg) (s : SW) (t : Nat) (ops : List Op), MonoOps t ops →
      ∀ x ∈ (swPolicy c).admitted (SW.tua c s t).1 ops, t + (SW.tua c s t).2 ≤ x) ∧
    (∀ (c : WCfg) (s : FW) (t : Nat) (ops : List Op), 0 < c.W → FW.Ok c s t → MonoOps t ops →
      ∀ x ∈ (fwPolicy c).admitted (FW.tua c s t).1 ops, t + (FW.tua c s t).2 ≤ x) ∧
    (∀ (c : ADCfg) (s : AD) (t : Nat) (ops : List Op), 0 < s.p → NotBefore s.last t → MonoOps t ops →
      NoFeedback ops → ∀ x ∈ AD.admitted c (AD.tua c s t).1 ops, t + (AD.tua c s t).2 ≤ x) :=
  ⟨fun c s t ops hp h hm => tb_tua_blocks_run c s t ops hp h hm,
   fun c s t ops hp h hm => lb_tua_blocks_run c s t ops hp h hm,
   fun c s t ops hm => sw_tua_blocks_run c s t ops hm,
   fun c s t ops hW h hm => fw_tua_blocks_run c hW s t ops h hm,
   fun c s t ops hp h hm hn => ad_tua_blocks_run c s t ops hp h hm hn⟩

-- token bucket (cap 3, 1 unit/ns, one token = 3 units), empty at 0: wait 3; the acquires at 1 and 2 and
-- the second time_until_available in between change nothing; the acquire at 3 is granted
example : (TB.tua ⟨3, 1, 3⟩ ⟨0, some 0⟩ 0).2 = 3 ∧
    (tbPolicy ⟨3, 1, 3⟩).admitted (TB.tua ⟨3, 1, 3⟩ ⟨0, some 0⟩ 0).1 [.acq 1, .tua 1, .acq 2, .acq 3, .acq 3] = [3] := by
  decide
example : MonoOps 0 [.acq 1, .tua 1, .acq 2, .acq 3, .acq 3] ∧ NoFeedback [.acq 1, .tua 1, .acq 2, .acq 3, .acq 3] :=
  ⟨by simp [MonoOps, Op.time], by simp [NoFeedback]⟩
-- sliding window (W = 10, N = 1) holding 5: wait 10 at 5; refused at 9 and at 15 (closed window), granted at 16
example : (SW.tua ⟨10, 1⟩ ⟨[5]⟩ 5).2 = 10 ∧
    (swPolicy ⟨10, 1⟩).admitted (SW.tua ⟨10, 1⟩ ⟨[5]⟩ 5).1 [.acq 9, .tua 9, .acq 14, .acq 15, .acq 16] = [16] := by decide

/-- The executable Spec predicate `blocksOK` — "after `time_until_available(t) = w` no acquire before
    `t + w` succeeds (up to the next rate change)" over a whole transcript — holds of the model's
    transcript of **every** run from every good state: each of the run's `time_until_available` calls is
    honoured by all later calls. -/
theorem tua_blocks_spec :
    (∀ (c : TBCfg) (s : TB) (now : Nat) (ops : List Op), 0 < c.p → NotBefore s.last now → MonoOps now ops →
      blocksOK ((tbPolicy c).obs s ops) = true) ∧
    (∀ (c : LBCfg) (s : LB) (now : Nat) (ops : List Op), 0 < c.p → NotBefore s.last now → MonoOps now ops →
      blocksOK ((lbPolicy c).obs s ops) = true) ∧
    (∀ (c : WCfg) (s : SW) (now : Nat) (ops : List Op), MonoOps now ops →
      blocksOK ((swPolicy c).obs s ops) = true) ∧
    (∀ (c : WCfg) (s : FW) (now : Nat) (ops : List Op), 0 < c.W → FW.Ok c s now → MonoOps now ops →
      blocksOK ((fwPolicy c).obs s ops) = true) ∧
    (∀ (c : ADCfg) (s : AD) (now : Nat) (ops : List Op), ADOk c → 0 < c.pmin → s.InRange c →
      NotBefore s.last now → MonoOps now ops → blocksOK (AD.obs c s ops) = true) :=
  ⟨fun c s now ops hp h hm => tb_blocks_spec c hp s now ops h hm,
   fun c s now ops hp h hm => lb_blocks_spec c hp s now ops h hm,
   fun c s now ops hm => sw_blocks_spec c s now ops hm,
   fun c s now ops hW h hm => fw_blocks_spec c hW s now ops h hm,
   fun c s now ops hc hmin hr h hm => ad_blocks_spec c hc hmin ops s now hr h hm⟩

example : (tbPolicy ⟨3, 1, 3⟩).obs ⟨0, some 0⟩ [.tua 0, .acq 1, .tua 1, .acq 2, .acq 3] =
    [.tua 0 3, .acq 1 false, .tua 1 2, .acq 2 false, .acq 3 true] := by rfl
example : blocksOK [.tua 0 3, .acq 1 false, .tua 1 2, .acq 2 false, .acq 3 true] = true ∧
    blocksOK [.tua 0 3, .acq 1 false, .acq 2 true] = false := by decide
-- adaptive: the promise ends at a rate change (the `fb` record), as in the Spec
example : AD.obs ⟨2, 8, 6, 1, 2, 4, 1, 8⟩ ⟨2, 0, some 0⟩ [.tua 0, .acq 1, .succ 1, .acq 2] =
    [.tua 0 4, .acq 1 false, .fb 1 8, .acq 2 true] := by rfl
example : blocksOK [.tua 0 4, .acq 1 false, .fb 1 8, .acq 2 true] = true ∧
    blocksOK [.tua 0 4, .acq 1 false, .acq 2 true] = false := by decide

/-! ## the window / spacing bounds from every reachable state

`LBHist`, `SWHist`, `FWHist` (`HappyProofs/C10/Reach.lean`) relate a policy state to the list of
everything admitted so far.  They hold of the fresh policy, are preserved by every operation
(`policy_hist_reachable`), and give the bounds for history ++ future from any state satisfying them. -/

/-- Leaky bucket, any reachable state: the history followed by all future admissions is correctly
    spaced (no assumption on times). -/
theorem leaky_spacing_reachable (c : LBCfg) (s : LB) (hist : List Nat) (now : Nat) (h : LBHist c s hist now)
    (ops : List Op) : spacingOK c.p c.one 0 (hist ++ (lbPolicy c).admitted s ops) = true :=
  lb_hist_bound c s hist now h ops

/-- … and from *any* state whatsoever: the future admissions are correctly spaced among themselves and
    from the state's last leak time. -/
theorem leaky_spacing_any_state (c : LBCfg) (s : LB) (ops : List Op) :
    spacingOK c.p c.one 0 ((lbPolicy c).admitted s ops) = true ∧
    (∀ l, s.last = some l → spacingOK c.p c.one 0 (l :: (lbPolicy c).admitted s ops) = true) := by
  obtain ⟨a, b⟩ := lb_spacing c ops s
  refine ⟨?_, a⟩
  cases hl : s.last with
  | none => exact b hl
  | some l =>
    have := a l hl
    cases hx : (lbPolicy c).admitted s ops with
    | nil => rfl
    | cons x xs =>
      rw [hx] at this
      simp only [spacingOK, Bool.and_eq_true] at this
      exact this.2

/-- Sliding window, any reachable state: at most `N` admissions in every closed window `[a, a + W]` of
    the history followed by all future admissions. -/
theorem sliding_window_bound_reachable (c : WCfg) (s : SW) (hist : List Nat) (now : Nat)
    (h : SWHist c s hist now) (ops : List Op) (hm : MonoOps now ops) (a : Nat) :
    cnt a (a + c.W) (hist ++ (swPolicy c).admitted s ops) ≤ c.N :=
  sw_hist_bound c s hist now h ops hm a

/-- Fixed window, any reachable state: at most `N` per aligned window and `2N` per window-length
    interval, for the history followed by all future admissions. -/
theorem fixed_window_bounds_reachable (c : WCfg) (hW : 0 < c.W) (s : FW) (hist : List Nat) (now : Nat)
    (h : FWHist c s hist now) (ops : List Op) (hm : MonoOps now ops) :
    (∀ k, cntWin c.W k (hist ++ (fwPolicy c).admitted s ops) ≤ c.N) ∧
    (∀ a, cnt a (a + c.W) (hist ++ (fwPolicy c).admitted s ops) ≤ 2 * c.N) :=
  fw_hist_bound c hW s hist now h ops hm

/-- reachability closure: the three history invariants hold of the fresh policy with the empty
    history, are preserved by every single operation whose time does not decrease, and therefore hold
    of the state reached by any run, with exactly the run's admitted list as history. -/
theorem policy_hist_reachable :
    (∀ (c : LBCfg), LBHist c ⟨none⟩ [] 0 ∧
      (∀ s hist now o, LBHist c s hist now → now ≤ o.time →
        LBHist c ((lbPolicy c).step s o) (hist ++ (lbPolicy c).admitted s [o]) o.time) ∧
      (∀ ops, MonoOps 0 ops →
        LBHist c ((lbPolicy c).run ⟨none⟩ ops) ((lbPolicy c).admitted ⟨none⟩ ops) (endTime 0 ops))) ∧
    (∀ (c : WCfg), SWHist c ⟨[]⟩ [] 0 ∧
      (∀ s hist now o, SWHist c s hist now → now ≤ o.time →
        SWHist c ((swPolicy c).step s o) (hist ++ (swPolicy c).admitted s [o]) o.time) ∧
      (∀ ops, MonoOps 0 ops →
        SWHist c ((swPolicy c).run ⟨[]⟩ ops) ((swPolicy c).admitted ⟨[]⟩ ops) (endTime 0 ops))) ∧
    (∀ (c : WCfg), 0 < c.W → FWHist c ⟨none, 0⟩ [] 0 ∧
      (∀ s hist now o, FWHist c s hist now → now ≤ o.time →
        FWHist c ((fwPolicy c).step s o) (hist ++ (fwPolicy c).admitted s [o]) o.time) ∧
      (∀ ops, MonoOps 0 ops →
        FWHist c ((fwPolicy c).run ⟨none, 0⟩ ops) ((fwPolicy c).admitted ⟨none, 0⟩ ops) (endTime 0 ops))) := by
  refine ⟨fun c => ?_, fun c => ?_, fun c hW => ?_⟩
  · have h0 : LBHist c ⟨none⟩ [] 0 := ⟨rfl, rfl⟩
    refine ⟨h0, lb_hist_step c, fun ops hm => ?_⟩
    simpa using hist_run (lbPolicy c) (LBHist c) (lb_hist_step c) ops _ [] 0 h0 hm
  · have h0 : SWHist c ⟨[]⟩ [] 0 := ⟨[], rfl, fun _ h => by simp at h, fun _ => Nat.zero_le _⟩
    refine ⟨h0, sw_hist_step c, fun ops hm => ?_⟩
    simpa using hist_run (swPolicy c) (SWHist c) (sw_hist_step c) ops _ [] 0 h0 hm
  · have h0 : FWHist c ⟨none, 0⟩ [] 0 := ⟨⟨fun _ => rfl, fun w h => by cases h⟩, fun _ => Nat.zero_le _⟩
    refine ⟨h0, fw_hist_step c hW, fun ops hm => ?_⟩
    simpa using hist_run (fwPolicy c) (FWHist c) (fw_hist_step c hW) ops _ [] 0 h0 hm

-- non-vacuity: a sliding-window state in mid-run (the entry 0 already pruned), its history, and the
-- invariant obtained from the closure theorem
example : ((swPolicy ⟨10, 2⟩).run ⟨[]⟩ [.acq 0, .acq 5, .acq 10, .acq 11]).log = [5, 11] ∧
    (swPolicy ⟨10, 2⟩).admitted ⟨[]⟩ [.acq 0, .acq 5, .acq 10, .acq 11] = [0, 5, 11] := by decide
example : SWHist ⟨10, 2⟩ ⟨[5, 11]⟩ [0, 5, 11] 11 :=
  (policy_hist_reachable.2.1 ⟨10, 2⟩).2.2 [.acq 0, .acq 5, .acq 10, .acq 11] (by simp [MonoOps, Op.time])
example : (swPolicy ⟨10, 2⟩).admitted ⟨[5, 11]⟩ [.acq 12, .acq 15, .acq 16, .acq 21, .acq 22] = [16, 22] := by decide
-- fixed window in mid-run: window [10, 20) holds one admission
example : FWHist ⟨10, 1⟩ ⟨some 10, 1⟩ [9, 10] 19 :=
  (policy_hist_reachable.2.2 ⟨10, 1⟩ (by decide)).2.2 [.acq 9, .acq 9, .acq 10, .acq 19] (by simp [MonoOps, Op.time])
example : LBHist ⟨1, 4⟩ ⟨some 4⟩ [0, 4] 7 :=
  (policy_hist_reachable.1 ⟨1, 4⟩).2.2 [.acq 0, .acq 3, .acq 4, .acq 7] (by simp [MonoOps, Op.time])

/-! ## adaptive bucket: the sharp bound -/

/-- **Adaptive, credit bound** (any state, any operation list, no side condition): admissions · one
    token + tokens left ≤ tokens at the start + Σ over the `try_acquire` / `time_until_available` calls
    of (rate in force at the call) × (time since the previous call) — the discrete "capacity + ∫ rate"
    the code implements (`AD.credit`). -/
theorem adaptive_credit_bound (c : ADCfg) (s : AD) (ops : List Op) :
    (AD.admitted c s ops).length * c.one + (AD.run c s ops).tok ≤ s.tok + AD.credit c s ops :=
  ad_credit_bound c ops s

/-- between two rate changes this is the bucket bound of the **current** rate:
    admissions · one + tokens left ≤ tokens at the start + `current_rate` × elapsed -/
theorem adaptive_current_rate_bound (c : ADCfg) (s : AD) (l : Nat) (ops : List Op) (hl : s.last = some l)
    (hm : MonoOps l ops) (hn : NoFeedback ops) :
    (AD.admitted c s ops).length * c.one + (AD.run c s ops).tok ≤ s.tok + s.p * (endTime l ops - l) := by
  have := ad_credit_bound c ops s
  rw [ad_credit_const c ops s l hl hm hn] at this
  exact this

/-- the credit never exceeds `pmax × elapsed`: the credit bound implies the `pmax` bound -/
theorem adaptive_credit_le_pmax (c : ADCfg) (hc : ADOk c) (s : AD) (hs : s.InRange c) (l : Nat) (ops : List Op)
    (hl : s.last = some l) (hm : MonoOps l ops) :
    AD.credit c s ops ≤ c.pmax * (endTime l ops - l) :=
  ad_credit_le_pmax c hc ops s l l hs (fun l' hl' => by rw [hl] at hl'; cases hl'; exact ⟨Nat.le_refl _, Nat.le_refl _⟩)
    (Nat.le_refl _) hm

/-- rates 1…8 units/ns, one failure drops 8 → 1, one success raises 1 → 8, window 10 ns, one token = 40
    units; the bucket starts full at rate 8.  Twice: drain, `record_failure`, wait 10 ns at rate 1,
    `record_success` just before the next acquire — which is then credited 8 × 10 units. -/
def adNaiveWitness : List Op :=
  [.acq 0, .acq 0, .fail 0, .succ 10, .acq 10, .acq 10, .fail 10, .succ 20, .acq 20, .acq 20]

/-- the naive reading "admissions ≤ capacity + ∫ (rate in force at each instant) dt" is **false** of
    the code, even with the capacity of the largest rate: `_refill` applies the rate in force at the
    call to the whole time since the previous call.  Here 6 admissions (240 units) against
    capacity 80 + ∫ = 20. -/
theorem adaptive_naive_integral_bound_false :
    ¬ (∀ (c : ADCfg) (s : AD) (l : Nat) (ops : List Op), ADOk c → s.InRange c → s.last = some l → MonoOps l ops →
        (AD.admitted c s ops).length * c.one ≤ max (c.cap c.pmax) s.tok + AD.rateIntegral c s l ops) := by
  intro h
  have := h ⟨1, 8, 7, 1, 8, 10, 1, 40⟩ ⟨8, 80, some 0⟩ 0 adNaiveWitness ⟨by decide, by decide⟩
    ⟨by decide, by decide⟩ rfl (by simp [adNaiveWitness, MonoOps, Op.time])
  revert this
  decide

example : AD.admitted ⟨1, 8, 7, 1, 8, 10, 1, 40⟩ ⟨8, 80, some 0⟩ adNaiveWitness = [0, 0, 10, 10, 20, 20] ∧
    AD.credit ⟨1, 8, 7, 1, 8, 10, 1, 40⟩ ⟨8, 80, some 0⟩ adNaiveWitness = 160 ∧
    AD.rateIntegral ⟨1, 8, 7, 1, 8, 10, 1, 40⟩ ⟨8, 80, some 0⟩ 0 adNaiveWitness = 20 ∧
    (AD.run ⟨1, 8, 7, 1, 8, 10, 1, 40⟩ ⟨8, 80, some 0⟩ adNaiveWitness).tok = 0 := by decide
-- between rate changes: rate 2, tokens 0 at 0, one token = 8: admissions at 4 and 8, none in between
example : AD.admitted ⟨2, 8, 6, 1, 2, 4, 1, 8⟩ ⟨2, 0, some 0⟩ [.acq 3, .acq 4, .tua 5, .acq 7, .acq 8] = [4, 8] ∧
    endTime 0 [.acq 3, .acq 4, .tua 5, .acq 7, .acq 8] = 8 ∧
    NoFeedback [.acq 3, .acq 4, .tua 5, .acq 7, .acq 8] := ⟨by decide, by decide, by simp [NoFeedback]⟩

/-! ## the rate-limited entity (any policy, any schedule of request and poll deliveries) -/

/-- the entity after a whole schedule, started empty with policy state `s0` -/
def Ent.final {σ : Type} (P : Policy σ) (qcap : Nat) (s0 : σ) (acts : List Act) : Ent σ :=
  Ent.run P qcap (Ent.init s0) acts

theorem final_inv {σ : Type} (P : Policy σ) (qcap : Nat) (s0 : σ) (acts : List Act) :
    EInv (Ent.final P qcap s0 acts) ∧ (Ent.final P qcap s0 acts).R = reqIds acts := by
  refine ⟨run_inv P qcap acts _ (init_inv s0), ?_⟩
  have := run_R P qcap acts (Ent.init s0)
  simpa [Ent.init, Ent.R, Ent.final] using this

/-- forwarded ⊎ queued ⊎ dropped = received, as multisets: every id occurs among the forwarded, the
    still queued and the dropped requests exactly as often as it was received -/
theorem entity_exactly_once {σ : Type} (P : Policy σ) (qcap : Nat) (s0 : σ) (acts : List Act) :
    ((Ent.final P qcap s0 acts).F ++ (Ent.final P qcap s0 acts).queue ++ (Ent.final P qcap s0 acts).D).Perm
      (reqIds acts) := by
  obtain ⟨hi, hr⟩ := final_inv P qcap s0 acts
  rw [List.perm_iff_count]
  intro x; rw [← hr]; exact hi.count x

/-- with distinct request ids the executable Spec predicate holds of the model's logs -/
theorem entity_exactly_once_spec {σ : Type} (P : Policy σ) (qcap : Nat) (s0 : σ) (acts : List Act)
    (hd : (reqIds acts).Nodup) :
    exactlyOnceOK (reqIds acts) (Ent.final P qcap s0 acts).F (Ent.final P qcap s0 acts).D
      (Ent.final P qcap s0 acts).queue.length = true := by
  have hp := entity_exactly_once P qcap s0 acts
  generalize Ent.final P qcap s0 acts = e at *
  have hnd : (e.F ++ e.queue ++ e.D).Nodup := hp.nodup_iff.mpr hd
  have hsub : (e.F ++ e.D).Sublist (e.F ++ e.queue ++ e.D) := by
    rw [List.append_assoc]
    exact List.Sublist.append (List.Sublist.refl _) (List.sublist_append_right _ _)
  have hlen := hp.length_eq
  simp only [exactlyOnceOK, Bool.and_eq_true, nodupB_iff, List.all_eq_true, List.contains_iff_mem,
    decide_eq_true_eq]
  refine ⟨⟨hsub.nodup hnd, fun x hx => hp.mem_iff.mp (hsub.subset hx)⟩, ?_⟩
  simp only [List.length_append] at hlen; omega

/-- requests are forwarded in arrival order: the forwarded ids followed by the queued ids form a
    subsequence of the arrival sequence -/
theorem entity_fifo {σ : Type} (P : Policy σ) (qcap : Nat) (s0 : σ) (acts : List Act) :
    ((Ent.final P qcap s0 acts).F ++ (Ent.final P qcap s0 acts).queue).Sublist (reqIds acts) ∧
    fifoOK (reqIds acts) (Ent.final P qcap s0 acts).F = true := by
  obtain ⟨hi, hr⟩ := final_inv P qcap s0 acts
  have h1 := hi.order
  rw [hr] at h1
  refine ⟨h1, ?_⟩
  simp only [fifoOK, List.isSublist_iff_sublist]
  exact List.Sublist.trans (List.sublist_append_left _ _) h1

/-- the token bucket (1 token, refill p = 1 unit/ns, one = 4) as the entity's policy: requests 0, 1, 2
    arrive at 0, 1, 4; request 2 arrives while 1 is queued and a token is available: 1 goes first -/
example :
    (Ent.final (tbPolicy ⟨4, 1, 4⟩) 10 ⟨4, none⟩ [.req 0 0, .req 1 1, .req 2 4, .poll 4, .poll 8]).fwd.reverse
      = [(0, 0), (1, 4), (2, 8)] ∧
    (Ent.final (tbPolicy ⟨4, 1, 4⟩) 10 ⟨4, none⟩ [.req 0 0, .req 1 1, .req 2 4, .poll 4, .poll 8]).queue = [] ∧
    (reqIds [.req 0 0, .req 1 1, .req 2 4, .poll 4, .poll 8]).Nodup := by decide

/-! ## the drain never stalls (entity level), and the Inductor -/

/-- **The drain never stalls**, for any policy that answers a refusal with a positive wait, any queue
    capacity and any schedule of deliveries: no poll event is scheduled in the past, a poll that forwards
    nothing is re-armed strictly later, at most one poll event is outstanding, and whatever is still
    queued at the end has a poll event coming for it. -/
theorem entity_drain_never_stalls {σ : Type} (P : Policy σ) (hP : RefusalWaits P) (qcap : Nat) (s0 : σ)
    (acts : List Act) :
    noStallOK (Ent.trace P qcap (Ent.init s0) acts) = true ∧
    singlePollOK none (Ent.trace P qcap (Ent.init s0) acts) = true ∧
    pollCoverOK (Ent.trace P qcap (Ent.init s0) acts) (Ent.final P qcap s0 acts).queue.length = true := by
  refine ⟨noStall_trace P hP qcap acts _, singlePoll_trace P qcap acts (Ent.init s0), ?_⟩
  have hc := run_covered P qcap acts (Ent.init s0) (by intro h; exact absurd rfl h)
  have ho := outstanding_trace P qcap acts (Ent.init s0)
  simp only [pollCoverOK, Bool.or_eq_true, beq_iff_eq]
  by_cases hq : (Ent.final P qcap s0 acts).queue = []
  · left; simp [hq]
  · right
    have : (Ent.init s0).poll = none := rfl
    rw [this] at ho
    rw [ho]; exact hc hq

/-- the token, leaky and adaptive buckets and the Inductor's gate all answer a refusal with a positive
    wait (the 1 ns progress guard) -/
theorem refusal_waits_policies :
    (∀ c, RefusalWaits (tbPolicy c)) ∧ (∀ c, RefusalWaits (lbPolicy c)) ∧ (∀ c, RefusalWaits (adPolicy c)) ∧
    RefusalWaits orcPolicy :=
  ⟨tb_refusalWaits, lb_refusalWaits, ad_refusalWaits, orc_refusalWaits⟩

/-- **Inductor** (`Ent` over the oracle gate, any decisions `ds`, any truncated intervals `ws`): every
    event is forwarded, queued or dropped exactly once, forwarding follows arrival order, and its drain
    never stalls. -/
theorem inductor_exactly_once_fifo_drains (qcap : Nat) (o : Orc) (acts : List Act) :
    ((Ent.final orcPolicy qcap o acts).F ++ (Ent.final orcPolicy qcap o acts).queue ++
        (Ent.final orcPolicy qcap o acts).D).Perm (reqIds acts) ∧
    fifoOK (reqIds acts) (Ent.final orcPolicy qcap o acts).F = true ∧
    noStallOK (Ent.trace orcPolicy qcap (Ent.init o) acts) = true ∧
    pollCoverOK (Ent.trace orcPolicy qcap (Ent.init o) acts) (Ent.final orcPolicy qcap o acts).queue.length = true :=
  ⟨entity_exactly_once orcPolicy qcap o acts, (entity_fifo orcPolicy qcap o acts).2,
   (entity_drain_never_stalls orcPolicy orc_refusalWaits qcap o acts).1,
   (entity_drain_never_stalls orcPolicy orc_refusalWaits qcap o acts).2.2⟩

/-- the gate refuses twice (the second time at the poll) and the smoothed interval has truncated to
    0 ns: the poll is re-armed 1 ns later, not at the same instant; event 1 leaves before event 2 -/
example :
    Ent.trace orcPolicy 10 (Ent.init ⟨[true, false, false, false, true, true], [0, 0, 5]⟩)
      [.req 0 0, .req 1 0, .req 2 0, .poll 1, .poll 2, .poll 7] =
    [⟨false, 0, true, none⟩, ⟨false, 0, false, some 1⟩, ⟨false, 0, false, none⟩,
     ⟨true, 1, false, some 2⟩, ⟨true, 2, true, some 7⟩, ⟨true, 7, true, none⟩] ∧
    (Ent.final orcPolicy 10 ⟨[true, false, false, false, true, true], [0, 0, 5]⟩
      [.req 0 0, .req 1 0, .req 2 0, .poll 1, .poll 2, .poll 7]).F = [0, 1, 2] := by decide
example : noStallOK [⟨true, 1, false, some 1⟩] = false ∧ noStallOK [⟨true, 1, true, some 1⟩] = true ∧
    pollCoverOK [⟨false, 0, false, some 1⟩, ⟨true, 1, false, none⟩] 1 = false := by decide

/-! ## the queue respects its capacity -/

/-- **Capacity** (any policy — the five policies and the Inductor's gate —, any capacity incl. 0, any
    schedule): the queue depth never exceeds the configured capacity; a request is dropped exactly when
    it is refused while the queue is full (capacity 0: whenever it is refused), a refused request that
    finds room is queued, a poll drops nothing; and `dropped` counts exactly the drops. -/
theorem entity_capacity_respected {σ : Type} (P : Policy σ) (qcap : Nat) (s0 : σ) (acts : List Act) :
    capacityOK (some qcap) 0 (Ent.ctrace P qcap (Ent.init s0) acts) = true ∧
    (Ent.final P qcap s0 acts).queue.length ≤ qcap ∧
    (Ent.final P qcap s0 acts).dropped.length =
      ((Ent.ctrace P qcap (Ent.init s0) acts).filter (·.drop)).length := by
  obtain ⟨h1, h2⟩ := cap_trace P qcap acts (Ent.init s0) (Nat.zero_le _)
  refine ⟨h1, h2, ?_⟩
  have := dropped_trace P qcap acts (Ent.init s0)
  simpa [Ent.init, Ent.final] using this

/-- **Unbounded queue** (`capacity = inf`, i.e. any capacity the run cannot reach): nothing is ever
    dropped — the clause with no capacity (`none`) holds. -/
theorem entity_unbounded_never_drops {σ : Type} (P : Policy σ) (qcap : Nat) (s0 : σ) (acts : List Act)
    (h : acts.length ≤ qcap) :
    capacityOK none 0 (Ent.ctrace P qcap (Ent.init s0) acts) = true :=
  cap_trace_unbounded P qcap acts (Ent.init s0) (by simpa [Ent.init] using h)

/-- capacity 0, token bucket with one token: the second and third request are refused and dropped;
    what a limiter that buffers them anyway reports is rejected by the Spec -/
example : Ent.ctrace (tbPolicy ⟨4, 1, 4⟩) 0 (Ent.init ⟨4, none⟩) [.req 0 0, .req 1 0, .req 2 1] =
    [⟨true, true, false, 0⟩, ⟨true, false, true, 0⟩, ⟨true, false, true, 0⟩] := by decide
example : capacityOK (some 0) 0 [⟨true, true, false, 0⟩, ⟨true, false, false, 1⟩] = false ∧
    capacityOK (some 1) 0 [⟨true, true, false, 0⟩, ⟨true, false, false, 1⟩, ⟨true, false, true, 1⟩] = true ∧
    capacityOK (some 2) 0 [⟨true, true, false, 0⟩, ⟨true, false, false, 1⟩, ⟨true, false, true, 1⟩] = false ∧
    capacityOK none 0 [⟨true, true, false, 0⟩, ⟨true, false, false, 1⟩, ⟨true, false, true, 1⟩] = false := by decide

/-! ## the distributed rate limiter -/

/-- **DistributedRateLimiter, exactly once**: any number of instances, any limit, any window-id
    function, **any interleaving** of the generators' segments: forwarded ⊎ in flight ⊎ dropped = received. -/
theorem drl_exactly_once (wid : Nat → Nat) (N n : Nat) (acts : List DAct) :
    ((DRL.run wid N (DRL.init n) acts).F ++ (DRL.run wid N (DRL.init n) acts).I ++
      (DRL.run wid N (DRL.init n) acts).dropped).Perm (dReqIds acts) := by
  have hi := DRL.run_inv wid N acts (DRL.init n) (by intro x; simp [DRL.init, DRL.F, DRL.I])
  have hr := DRL.run_recv wid N acts (DRL.init n)
  rw [List.perm_iff_count]
  intro x
  have := hi x
  rw [hr] at this
  simpa [DRL.init] using this

/-- with distinct request ids the executable Spec predicate holds of the model's logs -/
theorem drl_exactly_once_spec (wid : Nat → Nat) (N n : Nat) (acts : List DAct) (hd : (dReqIds acts).Nodup) :
    drlExactlyOnceOK (dReqIds acts) (DRL.run wid N (DRL.init n) acts).F (DRL.run wid N (DRL.init n) acts).dropped
      (DRL.run wid N (DRL.init n) acts).I = true := by
  have hp := drl_exactly_once wid N n acts
  generalize DRL.run wid N (DRL.init n) acts = s at *
  have hp2 : (s.F ++ s.dropped ++ s.I).Perm (dReqIds acts) := by
    refine List.Perm.trans ?_ hp
    rw [List.append_assoc, List.append_assoc]
    exact List.Perm.append_left _ List.perm_append_comm
  have hlen := hp2.length_eq
  simp only [drlExactlyOnceOK, Bool.and_eq_true, nodupB_iff, List.all_eq_true, List.contains_iff_mem,
    decide_eq_true_eq]
  refine ⟨⟨hp2.nodup_iff.mpr hd, fun x hx => hp2.mem_iff.mp hx⟩, ?_⟩
  simp only [List.length_append] at hlen; omega

/-- **Per-window limit without overlap** (any window-id function): when every request's
    read-modify-write cycle completes before the next request arrives, the shared counter of every window
    id equals the number of requests forwarded under it and never exceeds the global limit.  (With
    overlapping cycles the counter loses updates by design and the limit is not claimed.) -/
theorem drl_sequential_window_bound (wid : Nat → Nat) (N n : Nat) (rs : List (Nat × Nat × Nat × Nat × Nat))
    (w : Nat) :
    (DRL.serveAll wid N (DRL.init n) rs).fwdWin.count w = (DRL.serveAll wid N (DRL.init n) rs).count w ∧
    (DRL.serveAll wid N (DRL.init n) rs).fwdWin.count w ≤ N := by
  have h := DRL.serveAll_seq wid N rs (DRL.init n)
    ⟨rfl, fun w => by simp [DRL.init, DRL.count]⟩
  have := h.2 w
  omega

/-- **Repaired (`wid = t / W`, integer nanoseconds): at most `N` forwards per aligned window**
    `[k·W, (k+1)·W)` of arrival time, for every non-overlapping run — the fixed-window clause for the
    distributed limiter, as the executable Spec predicate `drlWindowOK`. -/
theorem drl_aligned_window_repaired (W N n : Nat) (rs : List (Nat × Nat × Nat × Nat × Nat)) :
    (∀ k, cntWin W k (DRL.serveAll (aligned W) N (DRL.init n) rs).fwdArr ≤ N) ∧
    drlWindowOK W N (DRL.serveAll (aligned W) N (DRL.init n) rs).fwdArr = true := by
  have hg := DRL.serveAll_ghost (aligned W) N rs (DRL.init n) ⟨rfl, by intro f hf; simp [DRL.init] at hf⟩
  have hb : ∀ k, cntWin W k (DRL.serveAll (aligned W) N (DRL.init n) rs).fwdArr ≤ N := by
    intro k
    rw [cntWin_eq_count, ← hg.1]
    exact (drl_sequential_window_bound (aligned W) N n rs k).2
  refine ⟨hb, ?_⟩
  simp only [drlWindowOK, List.all_eq_true, decide_eq_true_eq]
  exact fun t _ => hb _

/-- what `int(now.to_seconds() // 0.1)` answers at 0.3 s (IEEE doubles: `0.3 // 0.1 = 2.0`) -/
def drlFloatWitnessWid : Nat → Nat := widTable 100000000 [(300000000, 2)]

/-- **Current (float floor division): the aligned-window limit is false.**  Window 0.1 s, limit 1, one
    instance, store latencies 1 ms: the requests at 0.30 s and 0.35 s — both inside `[0.3 s, 0.4 s)`, not
    overlapping — are both forwarded, because 0.30 s is counted under window id 2. -/
theorem drl_aligned_window_current_false :
    drlWindowOK 100000000 1
      (DRL.serveAll drlFloatWitnessWid 1 (DRL.init 1)
        [(0, 0, 300000000, 301000000, 302000000), (0, 1, 350000000, 351000000, 352000000)]).fwdArr = false := by
  decide

/-- two instances, limit 1, window 10 ns: served one after the other the second request of window 0 is
    rejected (globally, by the other instance's counter) and the one in window 1 forwarded; interleaved
    (both read 0 before either writes) both are forwarded — the lost update -/
example :
    (DRL.serveAll (aligned 10) 1 (DRL.init 2) [(0, 0, 0, 1, 2), (1, 1, 3, 4, 5), (1, 2, 10, 11, 12)]).fwd.reverse =
      [(0, 0, 2), (1, 2, 12)] ∧
    (DRL.serveAll (aligned 10) 1 (DRL.init 2) [(0, 0, 0, 1, 2), (1, 1, 3, 4, 5), (1, 2, 10, 11, 12)]).dropped = [1] ∧
    (DRL.run (aligned 10) 1 (DRL.init 2)
      [.arr 0 0 0, .arr 1 1 0, .res 0 0 1, .res 1 1 1, .res 0 0 2, .res 1 1 2]).fwd.reverse =
      [(0, 0, 2), (1, 1, 2)] ∧
    (dReqIds [.arr 0 0 0, .arr 1 1 0, .res 0 0 1, .res 1 1 1, .res 0 0 2, .res 1 1 2]).Nodup := by decide
-- a burst sharing ONE timestamp, alternating between two instances, zero store latency, each request served
-- to completion before the next (`drl_sequential_window_bound` covers it: the times are arbitrary): limit 2,
-- the first two are forwarded, the others rejected — globally first, then locally once the instance knows
example :
    (DRL.serveAll (aligned 10) 2 (DRL.init 2)
      [(0, 0, 5, 5, 5), (1, 1, 5, 5, 5), (0, 2, 5, 5, 5), (1, 3, 5, 5, 5), (0, 4, 5, 5, 5)]).fwd.reverse =
      [(0, 0, 5), (1, 1, 5)] ∧
    (DRL.serveAll (aligned 10) 2 (DRL.init 2)
      [(0, 0, 5, 5, 5), (1, 1, 5, 5, 5), (0, 2, 5, 5, 5), (1, 3, 5, 5, 5), (0, 4, 5, 5, 5)]).dropped = [4, 3, 2] ∧
    (DRL.serveAll (aligned 10) 2 (DRL.init 2)
      [(0, 0, 5, 5, 5), (1, 1, 5, 5, 5), (0, 2, 5, 5, 5), (1, 3, 5, 5, 5), (0, 4, 5, 5, 5)]).count 0 = 2 := by decide
-- the same two requests under the repaired window id: the second one is rejected
example :
    (DRL.serveAll (aligned 100000000) 1 (DRL.init 1)
      [(0, 0, 300000000, 301000000, 302000000), (0, 1, 350000000, 351000000, 352000000)]).fwdArr = [300000000] := by
  decide

end HappyModel.C10
