import HappyProofs.C10.TuaWin
/-!
`time_until_available` over whole runs: after a returned wait `w` at time `t`, every acquire made at a
time in `[t, t + w)` is refused, whatever refused acquires and further `time_until_available` calls
happen in between.  Per policy a predicate `Blocked L s now` ("nothing can be admitted before `L`")
that is established by the call, implies refusal, and is preserved by refused calls.
-/
namespace HappyModel.C10

/-- admitted timestamps are never before the time the run starts from -/
theorem admitted_ge {σ : Type} (P : Policy σ) : ∀ (ops : List Op) (s : σ) (now : Nat), MonoOps now ops →
    ∀ x ∈ P.admitted s ops, now ≤ x := by
  intro ops
  induction ops with
  | nil => intro s now _ x hx; simp [Policy.admitted] at hx
  | cons o os ih =>
    intro s now hm x hx
    obtain ⟨hm1, hm2⟩ := hm
    cases o with
    | acq t =>
      simp only [Op.time] at hm1 hm2
      simp only [Policy.admitted] at hx
      split at hx
      · rcases List.mem_cons.mp hx with rfl | hx
        · exact hm1
        · exact Nat.le_trans hm1 (ih _ t hm2 x hx)
      · exact Nat.le_trans hm1 (ih _ t hm2 x hx)
    | tua t =>
      simp only [Op.time] at hm1 hm2
      simp only [Policy.admitted] at hx
      exact Nat.le_trans hm1 (ih _ t hm2 x hx)
    | succ t =>
      simp only [Op.time] at hm1 hm2
      simp only [Policy.admitted] at hx
      exact Nat.le_trans hm1 (ih _ t hm2 x hx)
    | fail t =>
      simp only [Op.time] at hm1 hm2
      simp only [Policy.admitted] at hx
      exact Nat.le_trans hm1 (ih _ t hm2 x hx)

/-- the generic argument: a predicate that forces refusal before `L` and survives refused calls -/
theorem blocked_run {σ : Type} (P : Policy σ) (B : σ → Nat → Prop) (L : Nat)
    (hacq : ∀ s now t, B s now → now ≤ t → t < L → (P.acq s t).2 = false ∧ B (P.acq s t).1 t)
    (htua : ∀ s now t, B s now → now ≤ t → t < L → B (P.tua s t).1 t) :
    ∀ (ops : List Op) (s : σ) (now : Nat), B s now → MonoOps now ops → ∀ x ∈ P.admitted s ops, L ≤ x := by
  intro ops
  induction ops with
  | nil => intro s now _ _ x hx; simp [Policy.admitted] at hx
  | cons o os ih =>
    intro s now hb hm x hx
    obtain ⟨hm1, hm2⟩ := hm
    cases o with
    | acq t =>
      simp only [Op.time] at hm1 hm2
      by_cases hl : t < L
      · obtain ⟨h1, h2⟩ := hacq s now t hb hm1 hl
        simp only [Policy.admitted, h1] at hx
        exact ih _ t h2 hm2 x hx
      · have := admitted_ge P (.acq t :: os) s t ⟨Nat.le_refl _, hm2⟩ x hx
        omega
    | tua t =>
      simp only [Op.time] at hm1 hm2
      by_cases hl : t < L
      · simp only [Policy.admitted] at hx
        exact ih _ t (htua s now t hb hm1 hl) hm2 x hx
      · have := admitted_ge P (.tua t :: os) s t ⟨Nat.le_refl _, hm2⟩ x hx
        omega
    | succ t =>
      simp only [Op.time] at hm1 hm2
      simp only [Policy.admitted] at hx
      exact ih s now hb (MonoOps.weaken hm1 hm2) x hx
    | fail t =>
      simp only [Op.time] at hm1 hm2
      simp only [Policy.admitted] at hx
      exact ih s now hb (MonoOps.weaken hm1 hm2) x hx

/-! ### token bucket -/

def TB.Blocked (c : TBCfg) (L : Nat) (s : TB) (now : Nat) : Prop :=
  ∃ l, s.last = some l ∧ l ≤ now ∧ ∀ t', l ≤ t' → t' < L → s.tok + c.p * (t' - l) < c.one

theorem TB.tua_fst (c : TBCfg) (s : TB) (t : Nat) : (TB.tua c s t).1 = s.refill c t := by
  unfold TB.tua; split <;> rfl

theorem TB.blocked_refill (c : TBCfg) (L : Nat) (s : TB) (now t : Nat) (hb : TB.Blocked c L s now)
    (h1 : now ≤ t) (h2 : t < L) : (s.refill c t).tok < c.one ∧ TB.Blocked c L (s.refill c t) t := by
  obtain ⟨l, hl, hln, hall⟩ := hb
  obtain ⟨r1, r2, _, _⟩ := TB.refill_spec c s t (by intro l' hl'; rw [hl] at hl'; cases hl'; omega)
  have r := r2 l hl
  have hnow := hall t (by omega) h2
  refine ⟨by omega, t, r1, Nat.le_refl _, ?_⟩
  intro t' ht' hL
  have := hall t' (by omega) hL
  have := mul_sub_split c.p l t t' (by omega) ht'
  omega

theorem tb_tua_blocks_run (c : TBCfg) (s : TB) (t : Nat) (ops : List Op) (hp : 0 < c.p)
    (hm : ∀ l, s.last = some l → l ≤ t) (hmo : MonoOps t ops) :
    ∀ x ∈ (tbPolicy c).admitted (TB.tua c s t).1 ops, t + (TB.tua c s t).2 ≤ x := by
  by_cases hw : (TB.tua c s t).2 = 0
  · intro x hx; rw [hw]; exact admitted_ge _ ops _ t hmo x hx
  · have r1 := (TB.refill_spec c s t hm).1
    have hb : TB.Blocked c (t + (TB.tua c s t).2) (TB.tua c s t).1 t := by
      rw [TB.tua_fst]
      refine ⟨t, r1, Nat.le_refl _, ?_⟩
      intro t' ht' hL
      unfold TB.tua at hL hw
      by_cases h : c.one ≤ (s.refill c t).tok
      · simp only [h, if_true] at hw; exact absurd trivial hw
      · simp only [h, if_false] at hL
        have := before_wait (c.one - (s.refill c t).tok) c.p (t' - t) hp (by omega) (by omega)
        omega
    refine blocked_run (tbPolicy c) (TB.Blocked c _) _ ?_ ?_ ops _ t hb hmo
    · intro s' now t' hb' h1 h2
      obtain ⟨a, b⟩ := TB.blocked_refill c _ s' now t' hb' h1 h2
      have : ¬ c.one ≤ (s'.refill c t').tok := by omega
      simp only [tbPolicy, TB.acquire, this, if_false]
      exact ⟨trivial, b⟩
    · intro s' now t' hb' h1 h2
      simp only [tbPolicy]; rw [TB.tua_fst]
      exact (TB.blocked_refill c _ s' now t' hb' h1 h2).2

/-! ### leaky bucket -/

def LB.Blocked (c : LBCfg) (L : Nat) (s : LB) (now : Nat) : Prop :=
  ∃ l, s.last = some l ∧ l ≤ now ∧ ∀ t', l ≤ t' → t' < L → c.p * (t' - l) < c.one

theorem lb_tua_blocks_run (c : LBCfg) (s : LB) (t : Nat) (ops : List Op) (hp : 0 < c.p)
    (hm : ∀ l, s.last = some l → l ≤ t) (hmo : MonoOps t ops) :
    ∀ x ∈ (lbPolicy c).admitted (LB.tua c s t).1 ops, t + (LB.tua c s t).2 ≤ x := by
  by_cases hw : (LB.tua c s t).2 = 0
  · intro x hx; rw [hw]; exact admitted_ge _ ops _ t hmo x hx
  · have hb : LB.Blocked c (t + (LB.tua c s t).2) (LB.tua c s t).1 t := by
      unfold LB.tua LB.wait at hw ⊢
      simp only at hw ⊢
      cases hl : s.last with
      | none => simp [hl] at hw
      | some l =>
        have hlt := hm l hl
        simp only [hl, hlt, if_true] at hw ⊢
        refine ⟨l, hl, hlt, ?_⟩
        intro t' ht' hL
        by_cases h3 : c.one ≤ c.p * (t - l)
        · simp [h3] at hw
        · simp only [h3, if_false] at hL
          by_cases hge : t ≤ t'
          · have := before_wait (c.one - c.p * (t - l)) c.p (t' - t) hp (by omega) (by omega)
            have := mul_sub_split c.p l t t' hlt hge
            omega
          · have : c.p * (t' - l) ≤ c.p * (t - l) := Nat.mul_le_mul_left _ (by omega)
            omega
    refine blocked_run (lbPolicy c) (LB.Blocked c _) _ ?_ ?_ ops _ t hb hmo
    · intro s' now t' hb' h1 h2
      obtain ⟨l, hl, hln, hall⟩ := hb'
      have := hall t' (by omega) h2
      have hno : ¬ (l ≤ t' ∧ c.one ≤ c.p * (t' - l)) := by omega
      simp only [lbPolicy, LB.acquire, hl, hno, if_false]
      exact ⟨trivial, l, hl, by omega, hall⟩
    · intro s' now t' hb' h1 h2
      obtain ⟨l, hl, hln, hall⟩ := hb'
      exact ⟨l, hl, by omega, hall⟩

/-! ### sliding window -/

def SW.Blocked (c : WCfg) (L : Nat) (s : SW) (_now : Nat) : Prop :=
  ¬ s.log.length < c.N ∧ ∃ o rest, s.log = o :: rest ∧ ∀ t', t' < L → ¬ o + c.W < t'

theorem SW.blocked_prune (c : WCfg) (L : Nat) (s : SW) (now t : Nat) (hb : SW.Blocked c L s now) (h2 : t < L) :
    s.prune c t = s := by
  obtain ⟨_, o, rest, hl, hall⟩ := hb
  cases s with
  | mk log =>
    simp only at hl; subst hl
    exact sw_prune_keep c o rest t (hall t h2)

theorem sw_tua_blocks_run (c : WCfg) (s : SW) (t : Nat) (ops : List Op) (hmo : MonoOps t ops) :
    ∀ x ∈ (swPolicy c).admitted (SW.tua c s t).1 ops, t + (SW.tua c s t).2 ≤ x := by
  by_cases hw : (SW.tua c s t).2 = 0
  · intro x hx; rw [hw]; exact admitted_ge _ ops _ t hmo x hx
  · have hb : SW.Blocked c (t + (SW.tua c s t).2) (SW.tua c s t).1 t := by
      rw [SW.tua_fst]
      by_cases hq : (s.prune c t).log.length < c.N
      · exact absurd (sw_tua_zero_of_lt c s t hq) hw
      · refine ⟨hq, ?_⟩
        cases hl : (s.prune c t).log with
        | nil =>
          exfalso; apply hw
          unfold SW.tua; rw [hl]; split <;> rfl
        | cons o rest =>
          refine ⟨o, rest, rfl, ?_⟩
          intro t' hL
          rw [sw_tua_of_full c s t o rest hl hq] at hL
          have hh : ¬ o + c.W < t := by
            have := dropWhile_head_false _ s.log o rest (by have := hl; simpa [SW.prune] using this)
            simpa using this
          split at hL <;> omega
    refine blocked_run (swPolicy c) (SW.Blocked c _) _ ?_ ?_ ops _ t hb hmo
    · intro s' now t' hb' h1 h2
      have hp := SW.blocked_prune c _ s' now t' hb' h2
      simp only [swPolicy, SW.acquire, hp, hb'.1, if_false]
      exact ⟨trivial, hb'⟩
    · intro s' now t' hb' h1 h2
      simp only [swPolicy]; rw [SW.tua_fst, SW.blocked_prune c _ s' now t' hb' h2]
      exact hb'

/-! ### fixed window -/

def FW.Blocked (c : WCfg) (L : Nat) (s : FW) (now : Nat) : Prop :=
  ∃ k, s.cur = some (k * c.W) ∧ k * c.W ≤ now ∧ L ≤ (k + 1) * c.W ∧ ¬ s.cnt < c.N

theorem FW.blocked_reset (c : WCfg) (L : Nat) (s : FW) (now t : Nat) (hb : FW.Blocked c L s now)
    (h1 : now ≤ t) (h2 : t < L) : s.reset c t = s := by
  obtain ⟨k, hc, hlo, hhi, _⟩ := hb
  have hk : t / c.W = k := Nat.div_eq_of_lt_le (by omega) (by omega)
  exact FW.reset_fix c s t k hc hk

theorem fw_tua_blocks_run (c : WCfg) (hW : 0 < c.W) (s : FW) (t : Nat) (ops : List Op) (h : FW.Ok c s t)
    (hmo : MonoOps t ops) :
    ∀ x ∈ (fwPolicy c).admitted (FW.tua c s t).1 ops, t + (FW.tua c s t).2 ≤ x := by
  by_cases hw : (FW.tua c s t).2 = 0
  · intro x hx; rw [hw]; exact admitted_ge _ ops _ t hmo x hx
  · have rc := FW.reset_cur c hW s t h
    have hlo := Nat.div_mul_le_self t c.W
    have hlt := Nat.lt_div_mul_add (a := t) hW
    have hb : FW.Blocked c (t + (FW.tua c s t).2) (FW.tua c s t).1 t := by
      simp only [FW.tua] at hw ⊢
      unfold FW.wait at hw ⊢
      by_cases hq : (s.reset c t).cnt < c.N
      · simp [hq] at hw
      · simp only [hq, if_false, rc] at hw ⊢
        refine ⟨t / c.W, rc, hlo, ?_, hq⟩
        rw [Nat.add_mul, Nat.one_mul]
        split <;> omega
    refine blocked_run (fwPolicy c) (FW.Blocked c _) _ ?_ ?_ ops _ t hb hmo
    · intro s' now t' hb' h1 h2
      have hr := FW.blocked_reset c _ s' now t' hb' h1 h2
      obtain ⟨k, a1, a2, a3, a4⟩ := hb'
      simp only [fwPolicy, FW.acquire, hr, a4, if_false]
      exact ⟨trivial, k, a1, by omega, a3, a4⟩
    · intro s' now t' hb' h1 h2
      have hr := FW.blocked_reset c _ s' now t' hb' h1 h2
      obtain ⟨k, a1, a2, a3, a4⟩ := hb'
      simp only [fwPolicy, FW.tua, hr]
      exact ⟨k, a1, by omega, a3, a4⟩

end HappyModel.C10
