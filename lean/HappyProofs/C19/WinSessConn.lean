import HappyProofs.C19.WinSessSep
/-!
Session windows, the per-session invariant the extra clauses of the judge need: a session is not emitted,
holds records of its key only, spans exactly `[min et, max et + gap]` of them (both attained) and is
*gap-connected* — every record but a last one has a successor within the gap.  `sessAdd`
(`_add_to_session_window` + `_merge_sessions`) keeps it, and the records of all sessions after it are the
records before plus the new one (as a multiset).
-/
namespace HappyModel.C19.Win
set_option linter.unusedVariables false

def recsOf (wins : List Win) : List Rec := wins.flatMap (·.recs)

structure GoodS (gap : Nat) (w : Win) : Prop where
  em : w.emitted = false
  keys : ∀ r ∈ w.recs, r.key = w.key
  bnd : ∀ r ∈ w.recs, w.s ≤ r.et ∧ r.et + gap ≤ w.e
  lo : ∃ r ∈ w.recs, r.et = w.s
  hi : ∃ r ∈ w.recs, r.et + gap = w.e
  conn : ∀ r ∈ w.recs, r.et + gap = w.e ∨ ∃ r' ∈ w.recs, r.et < r'.et ∧ r'.et ≤ r.et + gap

/-- walking up the chain of successors from `x ≤ τ` one crosses `τ` by a step of at most `gap` -/
theorem conn_cross (gap : Nat) (w : Win) (g : GoodS gap w) (τ : Nat) (hτ : τ + gap < w.e) :
    ∀ (n : Nat) (x : Rec), x ∈ w.recs → w.e - (x.et + gap) ≤ n → x.et ≤ τ →
      ∃ z ∈ w.recs, τ < z.et ∧ z.et ≤ τ + gap := by
  intro n
  induction n with
  | zero =>
    intro x hx hn hxt
    have := (g.bnd x hx).2
    omega
  | succ n ih =>
    intro x hx hn hxt
    rcases g.conn x hx with h | ⟨x', hx', h1, h2⟩
    · omega
    · by_cases hc : τ < x'.et
      · exact ⟨x', hx', hc, by omega⟩
      · have := (g.bnd x' hx').2
        exact ih x' hx' (by omega) (by omega)

/-- a new record within the session's range joins it -/
theorem goodS_join (gap : Nat) (w : Win) (r : Rec) (g : GoodS gap w) (hk : r.key = w.key)
    (hin : inSession gap r.et w = true) :
    GoodS gap { w with recs := w.recs ++ [r], e := max w.e (r.et + gap), s := min w.s r.et } := by
  simp only [inSession, Bool.and_eq_true, decide_eq_true_eq] at hin
  obtain ⟨rl, hrl, hlo⟩ := g.lo
  obtain ⟨rh, hrh, hhi⟩ := g.hi
  refine ⟨g.em, ?_, ?_, ?_, ?_, ?_⟩
  · intro x hx
    rcases List.mem_append.1 hx with hx | hx
    · exact g.keys x hx
    · simp only [List.mem_singleton] at hx; subst hx; exact hk
  · intro x hx
    show min w.s r.et ≤ x.et ∧ x.et + gap ≤ max w.e (r.et + gap)
    rcases List.mem_append.1 hx with hx | hx
    · have := g.bnd x hx; omega
    · simp only [List.mem_singleton] at hx; subst hx; omega
  · show ∃ x ∈ w.recs ++ [r], x.et = min w.s r.et
    by_cases h : w.s ≤ r.et
    · exact ⟨rl, List.mem_append_left _ hrl, by omega⟩
    · exact ⟨r, by simp, by omega⟩
  · show ∃ x ∈ w.recs ++ [r], x.et + gap = max w.e (r.et + gap)
    by_cases h : r.et + gap ≤ w.e
    · exact ⟨rh, List.mem_append_left _ hrh, by omega⟩
    · exact ⟨r, by simp, by omega⟩
  · intro x hx
    show x.et + gap = max w.e (r.et + gap) ∨ ∃ r' ∈ w.recs ++ [r], x.et < r'.et ∧ r'.et ≤ x.et + gap
    rcases List.mem_append.1 hx with hx | hx
    · rcases g.conn x hx with h | ⟨x', hx', h1, h2⟩
      · by_cases hc : r.et + gap ≤ w.e
        · left; omega
        · right; exact ⟨r, by simp, by omega, by omega⟩
      · right; exact ⟨x', List.mem_append_left _ hx', h1, h2⟩
    · simp only [List.mem_singleton] at hx
      subst hx
      by_cases hc : w.e ≤ x.et + gap
      · left; omega
      · right
        -- a record of the session above `x`, at most `gap` away
        by_cases hs : x.et < w.s
        · exact ⟨rl, List.mem_append_left _ hrl, by omega, by omega⟩
        · obtain ⟨z, hz, h1, h2⟩ := conn_cross gap w g x.et (by omega) _ rl hrl (Nat.le_refl _) (by omega)
          exact ⟨z, List.mem_append_left _ hz, h1, h2⟩

/-- two overlapping sessions of one key merge into one -/
theorem goodS_merge (gap : Nat) (cur b : Win) (gc : GoodS gap cur) (gb : GoodS gap b) (hk : b.key = cur.key)
    (hs : cur.s ≤ b.s) (hm : b.s ≤ cur.e) :
    GoodS gap { cur with e := max cur.e b.e, recs := cur.recs ++ b.recs } := by
  obtain ⟨cl, hcl, hclo⟩ := gc.lo
  obtain ⟨ch, hch, hchi⟩ := gc.hi
  obtain ⟨bl, hbl, hblo⟩ := gb.lo
  obtain ⟨bh, hbh, hbhi⟩ := gb.hi
  refine ⟨gc.em, ?_, ?_, ?_, ?_, ?_⟩
  · intro x hx
    rcases List.mem_append.1 hx with hx | hx
    · exact gc.keys x hx
    · exact (gb.keys x hx).trans hk
  · intro x hx
    show cur.s ≤ x.et ∧ x.et + gap ≤ max cur.e b.e
    rcases List.mem_append.1 hx with hx | hx
    · have := gc.bnd x hx; omega
    · have := gb.bnd x hx; omega
  · exact ⟨cl, List.mem_append_left _ hcl, hclo⟩
  · show ∃ x ∈ cur.recs ++ b.recs, x.et + gap = max cur.e b.e
    by_cases h : b.e ≤ cur.e
    · exact ⟨ch, List.mem_append_left _ hch, by omega⟩
    · exact ⟨bh, List.mem_append_right _ hbh, by omega⟩
  · intro x hx
    show x.et + gap = max cur.e b.e ∨ ∃ r' ∈ cur.recs ++ b.recs, x.et < r'.et ∧ r'.et ≤ x.et + gap
    rcases List.mem_append.1 hx with hx | hx
    · rcases gc.conn x hx with h | ⟨x', hx', h1, h2⟩
      · by_cases hc : b.e ≤ cur.e
        · left; omega
        · right
          by_cases hb : x.et < b.s
          · exact ⟨bl, List.mem_append_right _ hbl, by omega, by omega⟩
          · obtain ⟨z, hz, h1, h2⟩ := conn_cross gap b gb x.et (by omega) _ bl hbl (Nat.le_refl _) (by omega)
            exact ⟨z, List.mem_append_right _ hz, h1, h2⟩
      · right; exact ⟨x', List.mem_append_left _ hx', h1, h2⟩
    · rcases gb.conn x hx with h | ⟨x', hx', h1, h2⟩
      · by_cases hc : cur.e ≤ b.e
        · left; omega
        · right
          have hxb := (gb.bnd x hx).1
          obtain ⟨z, hz, h1, h2⟩ := conn_cross gap cur gc x.et (by omega) _ cl hcl (Nat.le_refl _) (by omega)
          exact ⟨z, List.mem_append_left _ hz, h1, h2⟩
      · right; exact ⟨x', List.mem_append_right _ hx', h1, h2⟩

theorem mergeFrom_goodS (gap : Nat) : ∀ (l : List Win) (cur : Win), GoodS gap cur →
    (∀ w ∈ l, GoodS gap w ∧ w.key = cur.key) → (∀ w ∈ l, cur.s ≤ w.s) → l.Pairwise (fun a b => a.s ≤ b.s) →
    ∀ x ∈ mergeFrom cur l, GoodS gap x := by
  intro l
  induction l with
  | nil =>
    intro cur gc _ _ _ x hx
    simp only [mergeFrom, List.mem_singleton] at hx
    subst hx; exact gc
  | cons b rest ih =>
    intro cur gc hl hs hsorted
    rw [List.pairwise_cons] at hsorted
    obtain ⟨gb, hkb⟩ := hl b (by simp)
    have hcb := hs b (by simp)
    by_cases hm : b.s ≤ cur.e
    · simp only [mergeFrom, hm, if_true]
      exact ih _ (goodS_merge gap cur b gc gb hkb hcb hm)
        (fun w hw => hl w (List.mem_cons_of_mem _ hw))
        (fun w hw => Nat.le_trans hcb (hsorted.1 w hw)) hsorted.2
    · simp only [mergeFrom, hm, if_false]
      intro x hx
      rcases List.mem_cons.1 hx with rfl | hx
      · exact gc
      · exact ih b gb (fun w hw => ⟨(hl w (List.mem_cons_of_mem _ hw)).1,
          ((hl w (List.mem_cons_of_mem _ hw)).2).trans hkb.symm⟩) hsorted.1 hsorted.2 x hx

theorem mergeSessions_goodS (gap k : Nat) (l : List Win) (hl : ∀ w ∈ l, GoodS gap w ∧ w.key = k) :
    ∀ x ∈ mergeSessions l, GoodS gap x := by
  unfold mergeSessions
  have hsorted := sorted_sortByStart l
  have hmem := fun x => mem_sortByStart x l
  cases hs : sortByStart l with
  | nil => simp
  | cons a rest =>
    rw [hs] at hsorted hmem
    rw [List.pairwise_cons] at hsorted
    have ha := hl a ((hmem a).mp (by simp))
    exact mergeFrom_goodS gap rest a ha.1
      (fun w hw => ⟨(hl w ((hmem w).mp (List.mem_cons_of_mem _ hw))).1,
        ((hl w ((hmem w).mp (List.mem_cons_of_mem _ hw))).2).trans ha.2.symm⟩) hsorted.1 hsorted.2

theorem sessJoin_goodS (gap : Nat) (r : Rec) : ∀ (l l' : List Win),
    sessJoin gap r l = some l' → (∀ w ∈ l, GoodS gap w ∧ w.key = r.key) → ∀ w ∈ l', GoodS gap w ∧ w.key = r.key := by
  intro l
  induction l with
  | nil => intro l' h; simp [sessJoin] at h
  | cons w ws ih =>
    intro l' h hl
    have hw := hl w (by simp)
    by_cases hin : inSession gap r.et w = true
    · simp only [sessJoin, hin, if_true, Option.some.injEq] at h
      subst h
      intro x hx
      rcases List.mem_cons.1 hx with rfl | hx
      · exact ⟨goodS_join gap w r hw.1 hw.2.symm hin, hw.2⟩
      · exact hl x (List.mem_cons_of_mem _ hx)
    · simp only [sessJoin, hin, Bool.false_eq_true, if_false, Option.map_eq_some_iff] at h
      obtain ⟨l2, h2, rfl⟩ := h
      intro x hx
      rcases List.mem_cons.1 hx with rfl | hx
      · exact hw
      · exact ih l2 h2 (fun w hw => hl w (List.mem_cons_of_mem _ hw)) x hx

/-- `_add_to_session_window` keeps every session good -/
theorem sessAdd_goodS (gap : Nat) (r : Rec) (wins : List Win) (h : ∀ w ∈ wins, GoodS gap w) :
    ∀ w ∈ sessAdd gap r wins, GoodS gap w := by
  have hmine : ∀ w ∈ wins.filter (fun w => w.key == r.key), GoodS gap w ∧ w.key = r.key := by
    intro w hw
    obtain ⟨hw1, hw2⟩ := List.mem_filter.mp hw
    exact ⟨h w hw1, by simpa using hw2⟩
  have hjoined : ∀ w ∈ joinedOf gap r wins, GoodS gap w ∧ w.key = r.key := by
    unfold joinedOf
    cases hj : sessJoin gap r (wins.filter fun w => w.key == r.key) with
    | some l => exact sessJoin_goodS gap r _ l hj hmine
    | none =>
      intro w hw
      simp only [List.mem_append, List.mem_singleton] at hw
      rcases hw with hw | hw
      · exact hmine w hw
      · subst hw
        refine ⟨⟨rfl, ?_, ?_, ⟨r, by simp, rfl⟩, ⟨r, by simp, rfl⟩, ?_⟩, rfl⟩
        · intro x hx; simp only [List.mem_singleton] at hx; subst hx; rfl
        · intro x hx; simp only [List.mem_singleton] at hx; subst hx
          show x.et ≤ x.et ∧ x.et + gap ≤ x.et + gap; omega
        · intro x hx; simp only [List.mem_singleton] at hx; subst hx; left; rfl
  rw [sessAdd_eq]
  intro w hw
  rcases List.mem_append.1 hw with hw | hw
  · exact h w (List.mem_filter.mp hw).1
  · exact mergeSessions_goodS gap r.key _ hjoined w hw

/-! ### the records, as a multiset -/

theorem recsOf_cons (w : Win) (l : List Win) : recsOf (w :: l) = w.recs ++ recsOf l := by simp [recsOf]
theorem recsOf_append (a b : List Win) : recsOf (a ++ b) = recsOf a ++ recsOf b := by simp [recsOf]

theorem sessJoin_recs (gap : Nat) (r : Rec) : ∀ (l l' : List Win),
    sessJoin gap r l = some l' → (recsOf l').Perm (recsOf l ++ [r]) := by
  intro l
  induction l with
  | nil => intro l' h; simp [sessJoin] at h
  | cons w ws ih =>
    intro l' h
    by_cases hin : inSession gap r.et w = true
    · simp only [sessJoin, hin, if_true, Option.some.injEq] at h
      subst h
      simp only [recsOf_cons, List.append_assoc]
      exact List.Perm.append_left _ List.perm_append_comm
    · simp only [sessJoin, hin, Bool.false_eq_true, if_false, Option.map_eq_some_iff] at h
      obtain ⟨l2, h2, rfl⟩ := h
      simp only [recsOf_cons, List.append_assoc]
      exact List.Perm.append_left _ (ih l2 h2)

theorem insertByStart_perm (w : Win) : ∀ l : List Win, (insertByStart w l).Perm (w :: l) := by
  intro l
  induction l with
  | nil => simp [insertByStart]
  | cons a rest ih =>
    by_cases h : w.s ≤ a.s
    · simp [insertByStart, h]
    · simp only [insertByStart, h, if_false]
      exact ((List.Perm.cons a ih).trans (List.Perm.swap w a rest))

theorem sortByStart_perm : ∀ l : List Win, (sortByStart l).Perm l := by
  intro l
  induction l with
  | nil => simp [sortByStart]
  | cons a rest ih =>
    simp only [sortByStart]
    exact (insertByStart_perm a _).trans (List.Perm.cons a ih)

theorem mergeFrom_recs : ∀ (l : List Win) (cur : Win), recsOf (mergeFrom cur l) = cur.recs ++ recsOf l := by
  intro l
  induction l with
  | nil => intro cur; simp [mergeFrom, recsOf]
  | cons b rest ih =>
    intro cur
    by_cases hm : b.s ≤ cur.e
    · simp only [mergeFrom, hm, if_true, ih, recsOf_cons, List.append_assoc]
    · simp only [mergeFrom, hm, if_false, recsOf_cons, ih]

theorem mergeSessions_recs (l : List Win) : (recsOf (mergeSessions l)).Perm (recsOf l) := by
  have hp := sortByStart_perm l
  unfold mergeSessions
  cases hs : sortByStart l with
  | nil =>
    rw [hs] at hp
    have : l = [] := List.Perm.eq_nil hp.symm
    subst this; simp [recsOf]
  | cons a rest =>
    rw [hs] at hp
    simp only [mergeFrom_recs]
    have := List.Perm.flatMap_right (·.recs) hp
    simpa [recsOf] using this

/-- the records of all sessions after `_add_to_session_window` are the records before plus the new one -/
theorem sessAdd_recs (gap : Nat) (r : Rec) (wins : List Win) :
    (recsOf (sessAdd gap r wins)).Perm (recsOf wins ++ [r]) := by
  rw [sessAdd_eq, recsOf_append]
  have hsplit : (recsOf (wins.filter fun w => !(w.key == r.key)) ++ recsOf (wins.filter fun w => w.key == r.key)).Perm
      (recsOf wins) := by
    have := List.filter_append_perm (fun w : Win => w.key == r.key) wins
    have := List.Perm.flatMap_right (·.recs) this
    simp only [List.flatMap_append] at this
    exact List.perm_append_comm.trans this
  have hj : (recsOf (joinedOf gap r wins)).Perm (recsOf (wins.filter fun w => w.key == r.key) ++ [r]) := by
    unfold joinedOf
    cases hjn : sessJoin gap r (wins.filter fun w => w.key == r.key) with
    | some l => exact sessJoin_recs gap r _ l hjn
    | none => simp [recsOf_append, recsOf]
  refine (List.Perm.append_left _ ((mergeSessions_recs _).trans hj)).trans ?_
  rw [← List.append_assoc]
  exact List.Perm.append_right _ hsplit

end HappyModel.C19.Win
