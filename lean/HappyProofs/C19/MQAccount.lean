import HappyProofs.C19.MQAccountLemmas
/-!
# C19 — "every published message stays accounted for"

`Inv s`: pending and in-flight partition the live keys (`Part`, see `MQAccountLemmas`), `live` /
`dlq` ids are below `npub`, and `live + acknowledged + dead-lettered = published`.  Every action of
the repaired queue (`cfg.legacy = false`) preserves `Inv`, for enabled and disabled (nonsense)
actions alike, so the observable counters add up after every step of every schedule.
-/
namespace HappyModel.C19
set_option linter.unusedVariables false

/-! ### the state invariant -/

structure Inv (s : MQ) : Prop where
  part : Part s.pending s.inflight s.live
  lB : ∀ k ∈ s.live, k < s.npub
  acc : s.live.length + s.nAck + s.dlq.length = s.npub
  dB : ∀ k ∈ s.dlq, k < s.npub ∧ k ∉ s.live

theorem Inv.init : Inv {} := ⟨Part.nil, by simp, rfl, by simp⟩

theorem dropPending_eq (cfg : Cfg) (hl : cfg.legacy = false) (s : MQ) (k : Nat) :
    s.dropPending cfg k = s.pending.erase k := by
  simp [MQ.dropPending, hl]

theorem Inv.fresh {s : MQ} (inv : Inv s) : s.npub ∉ s.live :=
  fun h => Nat.lt_irrefl _ (inv.lB _ h)

theorem Inv.publish (cfg : Cfg) {s : MQ} (inv : Inv s) : Inv (s.publish cfg).1 := by
  unfold MQ.publish
  split
  · exact inv
  · refine ⟨inv.part.push inv.fresh, ?_, ?_, ?_⟩
    · intro x hx
      simp only [List.mem_append, List.mem_singleton] at hx
      rcases hx with hx | rfl
      · exact Nat.lt_succ_of_lt (inv.lB x hx)
      · exact Nat.lt_succ_self _
    · have := inv.acc
      simp only [List.length_append, List.length_singleton]
      omega
    · intro x hx
      have hx' := inv.dB x hx
      refine ⟨Nat.lt_succ_of_lt hx'.1, fun hm => ?_⟩
      simp only [List.mem_append, List.mem_singleton] at hm
      rcases hm with hm | rfl
      · exact hx'.2 hm
      · exact Nat.lt_irrefl _ hx'.1

theorem Inv.dispatch {s : MQ} (inv : Inv s) (t k c : Nat) (hk : k ∈ s.live) :
    Inv (s.dispatch t k c) :=
  ⟨inv.part.toFlight hk, inv.lB, inv.acc, inv.dB⟩

theorem Inv.deliverBegin {s : MQ} (inv : Inv s) (t k : Nat) : Inv (s.deliverBegin t k).1 := by
  unfold MQ.deliverBegin
  split
  · next hk =>
    split
    · exact inv.dispatch t k _ hk
    · exact inv
  · exact inv

theorem Inv.pollA {s : MQ} (inv : Inv s) (t : Nat) : Inv (s.pollA t).1 := by
  unfold MQ.pollA
  split
  · exact inv.deliverBegin t _
  · exact inv

theorem Inv.ackMsg (cfg : Cfg) (hl : cfg.legacy = false) {s : MQ} (inv : Inv s) (k : Nat) :
    Inv (s.ackMsg cfg k) := by
  unfold MQ.ackMsg
  split
  · next hk =>
    have hpos := List.length_pos_of_mem hk
    refine ⟨?_, ?_, ?_, ?_⟩
    · simp only [dropPending_eq cfg hl]
      exact inv.part.eraseAll k
    · intro x hx
      exact inv.lB x (List.mem_of_mem_erase hx)
    · have := inv.acc
      simp only [List.length_erase_of_mem hk]
      omega
    · intro x hx
      exact ⟨(inv.dB x hx).1, fun hm => (inv.dB x hx).2 (List.mem_of_mem_erase hm)⟩
  · exact inv

theorem Inv.toDlq (cfg : Cfg) (hl : cfg.legacy = false) {s : MQ} (inv : Inv s) (k : Nat)
    (hk : k ∈ s.live) : Inv (s.toDlq cfg k) := by
  have hpos := List.length_pos_of_mem hk
  unfold MQ.toDlq
  refine ⟨?_, ?_, ?_, ?_⟩
  · simp only [dropPending_eq cfg hl]
    exact inv.part.eraseAll k
  · intro x hx
    exact inv.lB x (List.mem_of_mem_erase hx)
  · have := inv.acc
    simp only [List.length_erase_of_mem hk, List.length_append, List.length_singleton]
    omega
  · intro x hx
    simp only [List.mem_append, List.mem_singleton] at hx
    rcases hx with hx | rfl
    · exact ⟨(inv.dB x hx).1, fun hm => (inv.dB x hx).2 (List.mem_of_mem_erase hm)⟩
    · exact ⟨inv.lB _ hk, inv.part.lN.not_mem_erase⟩

theorem Inv.requeue (cfg : Cfg) (hl : cfg.legacy = false) {s : MQ} (inv : Inv s) (k : Nat)
    (hk : k ∈ s.live) : Inv (s.requeue cfg k) := by
  unfold MQ.requeue
  refine ⟨?_, inv.lB, inv.acc, inv.dB⟩
  simp only [dropPending_eq cfg hl]
  exact inv.part.toBack hk

theorem Inv.reject (cfg : Cfg) (hl : cfg.legacy = false) {s : MQ} (inv : Inv s) (k : Nat)
    (rq : Bool) : Inv (s.reject cfg k rq) := by
  unfold MQ.reject
  split
  · next hk =>
    split
    · exact inv.requeue cfg hl k hk
    · exact inv.toDlq cfg hl k hk
  · exact inv

theorem Inv.timeout (cfg : Cfg) (hl : cfg.legacy = false) {s : MQ} (inv : Inv s) (k : Nat) :
    Inv (s.timeout cfg k).1 := by
  unfold MQ.timeout
  split
  · next hk =>
    split
    · exact inv
    · split
      · exact inv.reject cfg hl k false
      · exact ⟨inv.part.toFront hk, inv.lB, inv.acc, inv.dB⟩
  · exact inv

theorem Inv.fire (cfg : Cfg) {s : MQ} (inv : Inv s) (t d : Nat) : Inv (s.fire cfg t d).1 := by
  unfold MQ.fire
  split
  · exact inv
  · split
    · split
      · exact ⟨inv.part, inv.lB, inv.acc, inv.dB⟩
      · exact ⟨inv.part, inv.lB, inv.acc, inv.dB⟩
    · exact inv

theorem Inv.recv {s : MQ} (inv : Inv s) (t d : Nat) : Inv (s.recv t d).1 := by
  unfold MQ.recv
  split
  · exact inv
  · split
    · split
      · exact ⟨inv.part, inv.lB, inv.acc, inv.dB⟩
      · exact inv
    · exact inv

/-- every action — enabled or not — preserves the invariant -/
theorem Inv.step (cfg : Cfg) (hl : cfg.legacy = false) {s : MQ} (inv : Inv s) (t : Nat) (a : Act) :
    Inv (s.step cfg t a).1 := by
  cases a with
  | pub => exact inv.publish cfg
  | poll => exact inv.pollA t
  | redeliv k =>
    exact Inv.deliverBegin (s := { s with sched := s.sched.erase k })
      ⟨inv.part, inv.lB, inv.acc, inv.dB⟩ t k
  | fire d => exact inv.fire cfg t d
  | recv d => exact inv.recv t d
  | ack k => exact inv.ackMsg cfg hl k
  | rej k rq => exact inv.reject cfg hl k rq
  | tmo k => exact inv.timeout cfg hl k
  | sub c => exact ⟨inv.part, inv.lB, inv.acc, inv.dB⟩
  | unsub c => exact ⟨inv.part, inv.lB, inv.acc, inv.dB⟩

theorem Inv.exec (cfg : Cfg) (hl : cfg.legacy = false) (sched : List (Nat × Act)) :
    ∀ {s : MQ}, Inv s → Inv (MQ.exec cfg s sched) := by
  induction sched with
  | nil => intro s inv; exact inv
  | cons ta rest ih =>
    intro s inv
    obtain ⟨t, a⟩ := ta
    simp only [MQ.exec]
    exact ih (inv.step cfg hl t a)

theorem Inv.accounted {s : MQ} (inv : Inv s) : s.ctr.accounted = true := by
  have h1 := inv.part.len
  have h2 := inv.acc
  simp only [Ctr.accounted, MQ.ctr, beq_iff_eq]
  omega

theorem run_accounted (cfg : Cfg) (hl : cfg.legacy = false) (sched : List (Nat × Act)) :
    ∀ {s : MQ}, Inv s → jAccounted (MQ.run cfg s sched) = none := by
  induction sched with
  | nil => intro s inv; rfl
  | cons ta rest ih =>
    intro s inv
    obtain ⟨t, a⟩ := ta
    have inv' := inv.step cfg hl t a
    simp only [MQ.run, jAccounted, inv'.accounted, if_true]
    exact ih inv'

/-! ### the theorems -/

/-- after every operation sequence: pending + in flight + acknowledged + dead-lettered = published -/
theorem message_accounted (cfg : Cfg) (hl : cfg.legacy = false) (sched : List (Nat × Act)) :
    jAccounted (MQ.run cfg {} sched) = none :=
  run_accounted cfg hl sched Inv.init

/-- set-level form at every reachable state: pending and in-flight partition the live messages,
    no id is duplicated, live ids and dead-lettered ids are published ids and are disjoint -/
theorem accounted_partition (cfg : Cfg) (hl : cfg.legacy = false) (sched : List (Nat × Act)) :
    let s := MQ.exec cfg {} sched
    s.pending.Nodup ∧ s.inflight.Nodup ∧ s.live.Nodup ∧
    (∀ k, k ∈ s.live ↔ (k ∈ s.pending ∨ k ∈ s.inflight)) ∧
    (∀ k, ¬ (k ∈ s.pending ∧ k ∈ s.inflight)) ∧
    (∀ k ∈ s.live, k < s.npub) ∧ (∀ k ∈ s.dlq, k < s.npub ∧ k ∉ s.live) ∧
    s.live.length + s.nAck + s.dlq.length = s.npub := by
  intro s
  have inv : Inv s := Inv.exec cfg hl sched Inv.init
  refine ⟨inv.part.pN, inv.part.fN, inv.part.lN, fun k => ⟨inv.part.lPF k, ?_⟩,
    fun k h => (inv.part.pL k h.1).2 h.2, inv.lB, inv.dB, inv.acc⟩
  rintro (h | h)
  · exact (inv.part.pL k h).1
  · exact inv.part.fL k h

/-- the theorems are not vacuous: a run with a dispatch, a delivery, an acknowledgement, a second
    message that times out at the redelivery limit and is dead-lettered -/
def demoSched : List (Nat × Act) :=
  [(0, .sub 0), (1, .pub), (1, .pub), (2, .poll), (7, .fire 0), (7, .recv 0), (8, .ack 0),
   (9, .poll), (14, .fire 1), (14, .recv 1), (20, .tmo 1)]

example :
    (MQ.run { lat := 5, maxRe := 1 } {} demoSched).map (·.out) =
      [.unit, .pubOk 0, .pubOk 1, .disp 0 0 0 1, .emit 0 0 1 7, .recv 0 0 1, .unit,
       .disp 1 1 0 1, .emit 1 0 1 14, .recv 1 0 1, .tmoNone] ∧
    (MQ.exec { lat := 5, maxRe := 1 } {} demoSched).nAck = 1 ∧
    (MQ.exec { lat := 5, maxRe := 1 } {} demoSched).dlq = [1] ∧
    jAccounted (MQ.run { lat := 5, maxRe := 1 } {} demoSched) = none := by
  decide

end HappyModel.C19
