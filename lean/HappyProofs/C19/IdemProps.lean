import HappyProofs.C19.IdemJudge
/-!
# C19 / idem — property theorems for the IdempotencyStore

"nothing is delivered again after it was acknowledged", for the duplicate-suppressing store: for
**every** schedule (any requests — repeated keys, no key —, any interleaving of target receipts,
completions, completion events and sweeps the engine can produce, any ttl, max_entries ≥ 1,
cleanup_interval) the run of the model satisfies the Spec `judgeIdem` — the same function the driver
uses to judge the transcript of the real implementation.  `cfg.legacy = false` is the code after
`fixes/C19-idem-cleanup-chains.diff`; `legacy_idem_chains_witness` shows the clause failing before it.

Hypotheses of the run-level theorems: `Sorted` (the engine's clock never goes backwards, C01) and
`Deliverable` (the engine only delivers events that exist: a forwarded event at its stamp, a
completion event for a finished request whose key is in flight, a sweep that was scheduled).
-/
namespace HappyModel.C19.Idem

instance decSorted : (lo : Nat) → (l : List (Nat × Act)) → Decidable (Sorted lo l)
  | _, [] => isTrue trivial
  | lo, (t, _) :: rest => by
    unfold Sorted
    exact @instDecidableAnd _ _ _ (decSorted t rest)

instance (cfg : Cfg) (s : St) (sched : List (Nat × Act)) : Decidable (Deliverable cfg s sched) := by
  unfold Deliverable
  infer_instance

/-- the observed history of a run (latest line first) -/
def histOf (cfg : Cfg) (sched : List (Nat × Act)) : List Obs := (run cfg {} sched).reverse

theorem inv_after (cfg : Cfg) (hl : cfg.legacy = false) (hm : 1 ≤ cfg.maxE) (sched : List (Nat × Act))
    (hs : Sorted 0 sched) (hd : Deliverable cfg {} sched) :
    ∃ lo, Inv cfg (finalSt cfg {} sched) (histOf cfg sched) lo := by
  obtain ⟨_, lo, h⟩ := run_ok hl hm sched {} [] 0 (inv_init cfg 0) hs hd
  exact ⟨lo, by simpa [histOf] using h⟩

/-- **all clauses**: the Spec accepts every run of the model -/
theorem idem_run_accepted (cfg : Cfg) (hl : cfg.legacy = false) (hm : 1 ≤ cfg.maxE) (sched : List (Nat × Act))
    (hs : Sorted 0 sched) (hd : Deliverable cfg {} sched) :
    judgeIdem cfg [] (run cfg {} sched) = none :=
  (run_ok hl hm sched {} [] 0 (inv_init cfg 0) hs hd).1

/-- **no second delivery**: after any run, a request whose key the observed history shows in flight
    or remembered is suppressed: nothing is handed to the target, nothing else changes but the counters -/
theorem idem_no_duplicate_forward (cfg : Cfg) (hl : cfg.legacy = false) (hm : 1 ≤ cfg.maxE)
    (sched : List (Nat × Act)) (hs : Sorted 0 sched) (hd : Deliverable cfg {} sched)
    (t rid : Nat) (k : Key) (hr : remembered cfg (histOf cfg sched) k = true) :
    let s := finalSt cfg {} sched
    (∃ c, (step cfg s t (.req rid (some k))).2 = .sup c) ∧
    (step cfg s t (.req rid (some k))).1.sent = s.sent ∧
    (step cfg s t (.req rid (some k))).1.cache = s.cache ∧
    (step cfg s t (.req rid (some k))).1.infl = s.infl := by
  obtain ⟨lo, I⟩ := inv_after cfg hl hm sched hs hd
  have hk : known (finalSt cfg {} sched) k = true := by rw [← remembered_eq I]; exact hr
  simp only [step, stepReq, hk, if_true]
  exact ⟨⟨_, rfl⟩, trivial, trivial, trivial⟩

/-- **a fresh key is forwarded exactly once, now**: after any run, a request whose key is neither in
    flight nor remembered (never seen, expired by a sweep, evicted) — and every key-less request — hands
    exactly one event to the target, stamped with the current instant; a keyed one is then in flight -/
theorem idem_fresh_key_forwarded (cfg : Cfg) (hl : cfg.legacy = false) (hm : 1 ≤ cfg.maxE)
    (sched : List (Nat × Act)) (hs : Sorted 0 sched) (hd : Deliverable cfg {} sched) (t rid : Nat) :
    let s := finalSt cfg {} sched
    (∀ k, remembered cfg (histOf cfg sched) k = false →
      (∃ cl c, (step cfg s t (.req rid (some k))).2 = .fwd t cl c) ∧
      (step cfg s t (.req rid (some k))).1.sent = s.sent ++ [(rid, some k, t)] ∧
      (step cfg s t (.req rid (some k))).1.infl = s.infl ++ [k]) ∧
    ((∃ cl c, (step cfg s t (.req rid none)).2 = .fwd t cl c) ∧
      (step cfg s t (.req rid none)).1.sent = s.sent ++ [(rid, none, t)]) := by
  obtain ⟨lo, I⟩ := inv_after cfg hl hm sched hs hd
  refine ⟨fun k hr => ?_, ⟨_, _, rfl⟩, rfl⟩
  have hk : known (finalSt cfg {} sched) k = false := by rw [← remembered_eq I]; exact hr
  simp only [step, stepReq, hk, forward]
  exact ⟨⟨_, _, rfl⟩, rfl, rfl⟩

/-- **the statistics add up** after any run: total = hits + misses + key-less requests, every register
    equals the number of observed lines of its kind, cache_size = stored − expired = remembered keys,
    in_flight_count = keys in flight -/
theorem idem_counters_add_up (cfg : Cfg) (hl : cfg.legacy = false) (hm : 1 ≤ cfg.maxE)
    (sched : List (Nat × Act)) (hs : Sorted 0 sched) (hd : Deliverable cfg {} sched) :
    let s := finalSt cfg {} sched
    let h := histOf cfg sched
    s.total = s.hits + s.misses + nKeyless h ∧ s.total = nReq h ∧ s.hits = nSup h ∧ s.misses = nMiss h ∧
    s.stored = nStored h ∧ s.cache.length + s.expired = s.stored ∧
    s.cache.length = (live cfg h).length ∧ s.infl.length = (flying h).length := by
  obtain ⟨lo, I⟩ := inv_after cfg hl hm sched hs hd
  exact ⟨I.addup, I.total, I.hits, I.misses, I.stored, I.size, by rw [I.cache], by rw [I.infl]⟩

/-- **cache_size ≤ max_entries** after any run -/
theorem idem_cache_bounded (cfg : Cfg) (hl : cfg.legacy = false) (hm : 1 ≤ cfg.maxE)
    (sched : List (Nat × Act)) (hs : Sorted 0 sched) (hd : Deliverable cfg {} sched) :
    (finalSt cfg {} sched).cache.length ≤ cfg.maxE := by
  obtain ⟨lo, I⟩ := inv_after cfg hl hm sched hs hd
  exact I.bound

/-- **one cleanup chain**: after any run at most one cleanup event is pending, exactly one while a key
    is in flight or remembered (the chain neither dies with entries left nor multiplies), and it is due
    no earlier than `cleanup_interval` after the last sweep -/
theorem idem_single_cleanup_chain (cfg : Cfg) (hl : cfg.legacy = false) (hm : 1 ≤ cfg.maxE)
    (sched : List (Nat × Act)) (hs : Sorted 0 sched) (hd : Deliverable cfg {} sched) :
    let s := finalSt cfg {} sched
    s.pend.length ≤ 1 ∧ ((s.cache ≠ [] ∨ s.infl ≠ []) → s.pend.length = 1) ∧
    (∀ x p, lastSweep (histOf cfg sched) = some x → p ∈ s.pend → x + cfg.interval ≤ p) := by
  obtain ⟨lo, I⟩ := inv_after cfg hl hm sched hs hd
  refine ⟨?_, ?_, I.gap⟩
  · by_cases hc : (finalSt cfg {} sched).cache = []
    · by_cases hf : (finalSt cfg {} sched).infl = []
      · simp [I.idle hc hf]
      · obtain ⟨p, hp⟩ := I.busy (Or.inr hf); simp [hp]
    · obtain ⟨p, hp⟩ := I.busy (Or.inl hc); simp [hp]
  · intro hb
    obtain ⟨p, hp⟩ := I.busy hb
    simp [hp]

/-! ### once per TTL window -/

def isStoreAct (e : Nat × Act) : Bool := match e.2 with | .resp (some _) => true | _ => false

theorem step_cache_kept (cfg : Cfg) (httl : 1 ≤ cfg.ttl) (s : St) (t : Nat) (a : Act) (k : Key) (c : Nat)
    (hin : (k, c) ∈ s.cache)
    (hsw : a = .sweep → t < c + cfg.ttl) (hcap : isStoreAct (t, a) = true → s.cache.length < cfg.maxE) :
    (k, c) ∈ (step cfg s t a).1.cache ∧
    (step cfg s t a).1.cache.length ≤ s.cache.length + (if isStoreAct (t, a) then 1 else 0) := by
  cases a with
  | req rid k' =>
    cases k' with
    | none => exact ⟨hin, by simp [step, stepReq, forward]⟩
    | some k' =>
      by_cases hk : known s k' = true
      · simp only [step, stepReq, hk, if_true]; exact ⟨hin, by simp⟩
      · have hk' : known s k' = false := by simpa using hk
        simp only [step, stepReq, hk', forward]; exact ⟨hin, by simp⟩
  | recv rid =>
    simp only [step, stepRecv]
    split
    · split
      · exact ⟨hin, by simp⟩
      · exact ⟨hin, by simp⟩
    · exact ⟨hin, by simp⟩
  | done rid =>
    simp only [step, stepDone]
    split
    · exact ⟨hin, by simp⟩
    · exact ⟨hin, by simp⟩
  | resp k' =>
    simp only [step, stepResp]
    split
    · cases k' with
      | none => exact ⟨hin, by simp [respSt]⟩
      | some k' =>
        have hlt := hcap rfl
        have hno : ¬ cfg.maxE ≤ s.cache.length := by omega
        simp only [respSt, remember, hno, if_false, isStoreAct]
        exact ⟨List.mem_append_left _ hin, by simp⟩
    · exact ⟨hin, by simp⟩
  | sweep =>
    simp only [step, stepSweep]
    split
    · have ht := hsw rfl
      refine ⟨?_, ?_⟩
      · simp only [sweepSt, keep, List.mem_filter]
        refine ⟨hin, ?_⟩
        simp only [isExpired, Bool.not_eq_true', decide_eq_false_iff_not]
        omega
      · simp only [sweepSt, keep]
        exact Nat.le_trans (List.length_filter_le _ _) (Nat.le_add_right _ _)
    · exact ⟨hin, by simp⟩

/-- **within a TTL window without eviction each key is processed at most once**: from any state in which
    key `k` is remembered since `c`, after any continuation whose sweeps all run before `c + ttl` and
    whose completions cannot fill the cache beyond `max_entries`, a request for `k` is still suppressed -/
theorem idem_once_per_ttl_window (cfg : Cfg) (httl : 1 ≤ cfg.ttl) (more : List (Nat × Act)) (s : St) (k : Key) (c : Nat)
    (hin : (k, c) ∈ s.cache) (hsw : ∀ e ∈ more, e.2 = .sweep → e.1 < c + cfg.ttl)
    (hcap : s.cache.length + more.countP isStoreAct ≤ cfg.maxE) (t rid : Nat) :
    ∃ ctr, (step cfg (finalSt cfg s more) t (.req rid (some k))).2 = .sup ctr := by
  have key : (k, c) ∈ (finalSt cfg s more).cache := by
    induction more generalizing s with
    | nil => exact hin
    | cons e rest ih =>
      obtain ⟨t', a⟩ := e
      have h1 := step_cache_kept cfg httl s t' a k c hin (fun ha => hsw (t', a) (by simp) ha)
        (fun hst => by simp only [List.countP_cons, hst, if_true] at hcap; omega)
      refine ih (step cfg s t' a).1 h1.1 (fun e he => hsw e (by simp [he])) ?_
      have h2 := h1.2
      simp only [List.countP_cons] at hcap
      split at h2 <;> split at hcap <;> simp_all <;> omega
  have hk : known (finalSt cfg s more) k = true := by
    unfold known hasKey
    simp only [Bool.or_eq_true, List.any_eq_true]
    exact Or.inl ⟨(k, c), key, by simp⟩
  simp only [step, stepReq, hk, if_true]
  exact ⟨_, rfl⟩

/-! ### non-vacuity and witnesses (times in units; ttl 4, max_entries 1, interval 4) -/

def exCfg : Cfg := { ttl := 4, maxE := 1, interval := 4 }

/-- key 0 forwarded, a duplicate while in flight, completion, a duplicate while remembered, key 1
    completes and evicts key 0, a key-less request, key 0 again (fresh), the sweep at 4 expires nothing,
    the sweep at 8 expires key 1 -/
def exSched : List (Nat × Act) :=
  [(0, .req 0 (some 0)), (0, .recv 0), (1, .req 1 (some 0)), (2, .done 0), (2, .resp (some 0)),
   (2, .req 2 (some 0)), (3, .req 3 (some 1)), (3, .recv 3), (3, .done 3), (3, .resp (some 1)),
   (3, .req 4 none), (3, .req 5 (some 0)), (4, .sweep), (8, .sweep)]

example : Sorted 0 exSched ∧ Deliverable exCfg {} exSched := by decide
example : judgeIdem exCfg [] (run exCfg {} exSched) = none := by decide
example : ((run exCfg {} exSched).map fun o => match o.out with | .fwd _ _ _ => 1 | .sup _ => 2 | _ => 0)
    = [1, 0, 2, 0, 0, 2, 1, 0, 0, 0, 1, 1, 0, 0] := by decide
example : (finalSt exCfg {} exSched).cache = [] ∧ (finalSt exCfg {} exSched).expired = 2
    ∧ (finalSt exCfg {} exSched).pend = [12] := by decide

/-- the Spec is not vacuous: forwarding a key that is in flight is a violation -/
example : judgeIdem exCfg []
    [⟨0, .req 0 (some 0), .fwd 0 (some 4) ⟨1, 0, 1, 0, 0, 0, 1⟩⟩,
     ⟨1, .req 1 (some 0), .fwd 1 none ⟨2, 0, 2, 0, 0, 0, 1⟩⟩] = some "idem/forward/duplicate-forwarded" := by decide
/-- … suppressing a key that was evicted is one … -/
example : judgeIdem exCfg []
    ((run exCfg {} (exSched.take 11)) ++ [⟨3, .req 5 (some 0), .sup ⟨6, 3, 2, 1, 2, 1, 0⟩⟩])
    = some "idem/forward/fresh-key-suppressed" := by decide
/-- … and so is a target that receives an event twice -/
example : judgeIdem exCfg []
    [⟨0, .req 0 (some 0), .fwd 0 (some 4) ⟨1, 0, 1, 0, 0, 0, 1⟩⟩, ⟨0, .recv 0, .got (some 0) 0⟩,
     ⟨0, .recv 0, .got (some 0) 0⟩] = some "idem/target/unforwarded-event-received" := by decide

/-- **the code before the fix**: a key-less request that arrives while key 0 is in flight starts a second
    cleanup chain; the store sweeps at 4 and at 5 although cleanup_interval is 4 -/
theorem legacy_idem_chains_witness :
    judgeIdem { exCfg with legacy := true } []
      (run { exCfg with legacy := true } {} [(0, .req 0 (some 0)), (0, .recv 0), (1, .req 1 none), (4, .sweep), (5, .sweep)])
      = some "idem/cleanup/sweeps-closer-than-interval" := by decide

end HappyModel.C19.Idem
