import HappyModel.C19.StreamSpec
/-!
# C19 — event log / consumer group: keys and commits

"A key always maps to the same partition" (for every sharding hash: the hash is a parameter of the
append action) and "committed offsets never move backwards" (for the code after
`fixes/C19-commit-moves-backwards.diff`; the code before it has a two-commit counterexample).
-/
namespace HappyModel.C19

/-! ### association-list lookups -/

theorem lookup_filter_ne {α β : Type} [BEq α] [LawfulBEq α] (l : List (α × β)) {k k' : α}
    (h : k' ≠ k) : (l.filter (fun e => e.1 != k)).lookup k' = l.lookup k' := by
  induction l with
  | nil => rfl
  | cons e rest ih =>
    obtain ⟨a, b⟩ := e
    by_cases ha : a = k
    · subst ha
      have h1 : (k' == a) = false := by simpa using h
      simp [List.lookup_cons, h1, ih]
    · have h2 : (a != k) = true := by simpa using ha
      simp only [List.filter_cons, h2, if_true, List.lookup_cons, ih]

theorem getD_lookup_setCommitted (l : List ((Nat × Nat) × Nat)) (c p v c' p' : Nat) :
    ((setCommitted l c p v).lookup (c', p')).getD 0 =
      if c' = c ∧ p' = p then v else (l.lookup (c', p')).getD 0 := by
  unfold setCommitted
  by_cases h : c' = c ∧ p' = p
  · obtain ⟨rfl, rfl⟩ := h
    simp
  · have hne : (c', p') ≠ (c, p) := by
      intro e; injection e with e1 e2; exact h ⟨e1, e2⟩
    have h1 : ((c', p') == (c, p)) = false := by simpa using hne
    rw [List.lookup_cons, h1, lookup_filter_ne _ hne, if_neg h]

/-! ### a key always maps to the same partition -/

/-- the sharding hash is a function of the key in this schedule -/
def HashFn (sched : List (Nat × SAct)) : Prop :=
  ∀ t1 t2 k h1 h2, (t1, SAct.append k h1) ∈ sched → (t2, SAct.append k h2) ∈ sched → h1 = h2

theorem jKeys_run (cfg : SCfg) (s : Stream) (kp : List (Nat × Nat)) (sched : List (Nat × SAct))
    (hkp : ∀ k p, kp.lookup k = some p → ∀ t h, (t, SAct.append k h) ∈ sched → h % cfg.n = p)
    (hh : HashFn sched) : jKeys kp (Stream.run cfg s sched) = none := by
  induction sched generalizing s kp with
  | nil => rfl
  | cons x rest ih =>
    obtain ⟨t, a⟩ := x
    have hh' : HashFn rest := fun t1 t2 k h1 h2 m1 m2 =>
      hh t1 t2 k h1 h2 (List.mem_cons_of_mem _ m1) (List.mem_cons_of_mem _ m2)
    have hkp' : ∀ k p, kp.lookup k = some p → ∀ t h, (t, SAct.append k h) ∈ rest → h % cfg.n = p :=
      fun k p hl t h m => hkp k p hl t h (List.mem_cons_of_mem _ m)
    cases a with
    | append key h =>
      simp only [Stream.run, Stream.step, Stream.append, jKeys]
      cases hl : kp.lookup key with
      | some p' =>
        have := hkp key p' hl t h (List.mem_cons_self ..)
        simp only [this, beq_self_eq_true, if_true]
        exact ih _ _ hkp' hh'
      | none =>
        simp only
        refine ih _ _ ?_ hh'
        intro k p hlk t' h' m
        rw [List.lookup_cons] at hlk
        by_cases hk : k = key
        · subst hk
          simp at hlk
          rw [← hlk, hh t' t k h' h (List.mem_cons_of_mem _ m) (List.mem_cons_self ..)]
        · have : (k == key) = false := by simpa using hk
          rw [this] at hlk
          exact hkp' k p hlk t' h' m
    | _ => simp only [Stream.run, Stream.step, jKeys]; exact ih _ _ hkp' hh'

/-- a key always maps to the same partition (for every hash function: the hash is a parameter) -/
theorem key_partition_stable (cfg : SCfg) (sched : List (Nat × SAct)) (hh : HashFn sched) :
    jKeys [] (Stream.run cfg (Stream.init cfg.n) sched) = none :=
  jKeys_run cfg _ [] sched (fun _ _ h => by simp at h) hh

/-- non-vacuity: three partitions, repeated keys, a read, a retention sweep -/
example : jKeys [] (Stream.run {n := 3, ret := .size 1} (Stream.init 3)
    [(0, .append 7 4), (1, .append 8 5), (2, .append 7 4), (3, .read 1 0 5), (4, .retention),
     (5, .append 7 4), (6, .append 9 1)]) = none := by decide

/-- the judge does reject a key whose hash changes between appends -/
example : jKeys [] (Stream.run {n := 3} (Stream.init 3)
    [(0, .append 7 4), (1, .append 7 5)]) = some "log/key/partition-changed" := by decide

/-! ### committed offsets never move backwards -/

theorem committedOf_commitOne (cfg : SCfg) (s : Stream) (c : Nat) (po : Nat × Nat) (c' p' : Nat) :
    (s.commitOne cfg c po).committedOf c' p' =
      if c' = c ∧ p' = po.1 then
        (if cfg.legacyCommit then po.2 else max (s.committedOf c po.1) po.2)
      else s.committedOf c' p' := by
  simp only [Stream.commitOne, Stream.committedOf, getD_lookup_setCommitted]

theorem committedOf_commitOne_le (cfg : SCfg) (hc : cfg.legacyCommit = false) (s : Stream)
    (c : Nat) (po : Nat × Nat) (c' p' : Nat) :
    s.committedOf c' p' ≤ (s.commitOne cfg c po).committedOf c' p' := by
  rw [committedOf_commitOne, hc]
  split
  · next h => obtain ⟨rfl, rfl⟩ := h; simp only [Bool.false_eq_true, if_false]; omega
  · exact Nat.le_refl _

theorem committedOf_commit_le (cfg : SCfg) (hc : cfg.legacyCommit = false) (s : Stream)
    (c : Nat) (offs : List (Nat × Nat)) (c' p' : Nat) :
    s.committedOf c' p' ≤ (s.commit cfg c offs).committedOf c' p' := by
  induction offs generalizing s with
  | nil => exact Nat.le_refl _
  | cons po rest ih =>
    simp only [Stream.commit]
    exact Nat.le_trans (committedOf_commitOne_le cfg hc s c po c' p') (ih _)

/-- the judge's table never exceeds the model's committed offsets -/
def CRel (last : List ((Nat × Nat) × Nat)) (s : Stream) : Prop :=
  ∀ c p, lastOf last c p ≤ s.committedOf c p

theorem lastOf_setCommitted (l : List ((Nat × Nat) × Nat)) (c p v c' p' : Nat) :
    lastOf (setCommitted l c p v) c' p' = if c' = c ∧ p' = p then v else lastOf l c' p' := by
  simp only [lastOf, getD_lookup_setCommitted]

theorem crel_note (s : Stream) (c : Nat) (cs : List (Nat × Nat)) (last : List ((Nat × Nat) × Nat))
    (h : CRel last s) (hcs : ∀ pv ∈ cs, pv.2 = s.committedOf c pv.1) :
    CRel (noteCommitted last c cs) s := by
  induction cs generalizing last with
  | nil => exact h
  | cons pv rest ih =>
    simp only [noteCommitted]
    refine ih _ ?_ (fun x hx => hcs x (List.mem_cons_of_mem _ hx))
    intro c' p'
    rw [lastOf_setCommitted]
    split
    · next e => obtain ⟨rfl, rfl⟩ := e; rw [hcs pv (List.mem_cons_self ..)]; exact Nat.le_refl _
    · exact h c' p'

theorem jCommit_run (cfg : SCfg) (hc : cfg.legacyCommit = false) (s : Stream)
    (last : List ((Nat × Nat) × Nat)) (sched : List (Nat × SAct)) (h : CRel last s) :
    jCommit last (Stream.run cfg s sched) = none := by
  induction sched generalizing s last with
  | nil => rfl
  | cons x rest ih =>
    obtain ⟨t, a⟩ := x
    cases a with
    | commit c offs =>
      simp only [Stream.run, Stream.step, jCommit]
      have h' : CRel last (s.commit cfg c offs) := fun c' p' =>
        Nat.le_trans (h c' p') (committedOf_commit_le cfg hc s c offs c' p')
      have hok : commitOk last c ((s.commit cfg c offs).observeCommitted c) = true := by
        simp only [commitOk, Stream.observeCommitted, List.all_eq_true, List.mem_map,
          decide_eq_true_eq]
        rintro pv ⟨p, _, rfl⟩
        exact h' c p
      rw [if_pos hok]
      refine ih _ _ (crel_note _ c _ last h' ?_)
      simp only [Stream.observeCommitted, List.mem_map]
      rintro pv ⟨p, _, rfl⟩
      rfl
    | append key hsh => simp only [Stream.run, Stream.step, Stream.append, jCommit]; exact ih _ _ h
    | retention => simp only [Stream.run, Stream.step, Stream.retention, jCommit]; exact ih _ _ h
    | joinB c' => simp only [Stream.run, Stream.step, Stream.rebalance, jCommit]; exact ih _ _ h
    | leaveB c' => simp only [Stream.run, Stream.step, Stream.rebalance, jCommit]; exact ih _ _ h
    | _ => simp only [Stream.run, Stream.step, jCommit]; exact ih _ _ h

/-- committed offsets never move backwards -/
theorem committed_monotone (cfg : SCfg) (hc : cfg.legacyCommit = false) (sched : List (Nat × SAct)) :
    jCommit [] (Stream.run cfg (Stream.init cfg.n) sched) = none :=
  jCommit_run cfg hc _ [] sched (fun c p => by simp [lastOf])

/-- non-vacuity: two members, increasing commits, then a smaller one (ignored by the fixed code) -/
example : jCommit [] (Stream.run {n := 2} (Stream.init 2)
    [(0, .joinA 0), (1, .joinB 0), (2, .commit 0 [(1, 3)]), (3, .commit 0 [(1, 5), (0, 2)]),
     (4, .commit 0 [(1, 4)])]) = none := by decide

example : ((Stream.exec {n := 2} (Stream.init 2)
    [(0, .joinA 0), (1, .joinB 0), (2, .commit 0 [(1, 3)]), (3, .commit 0 [(1, 5), (0, 2)]),
     (4, .commit 0 [(1, 4)])]).observeCommitted 0) = [(0, 2), (1, 5)] := by decide

/-- the code before the fix: a smaller commit moves the committed offset backwards -/
theorem legacy_commit_witness :
    jCommit [] (Stream.run {n := 2, legacyCommit := true} (Stream.init 2)
      [(0, .joinA 0), (1, .joinB 0), (2, .commit 0 [(1, 5)]), (3, .commit 0 [(1, 3)])])
      = some "group/commit/moved-backwards" := by decide

end HappyModel.C19
