import HappyModel.C19.Win
import HappyProofs.C19.WinAssign
import HappyProofs.C19.WinStep
import HappyProofs.C19.WinSession
import HappyProofs.C19.WinSessSep
import HappyProofs.C19.WinSessRun
/-!
C19 extension family `Win` — property theorems for the stream-processor windows
(`streaming/stream_processor.py` after `fixes/C19-win-*.diff`).

* `tumbling_assigns_exactly_one`, `sliding_assigns_size_div_slide`, `assign_eq_specWindows`,
  `mem_specWindows_iff` (in `WinAssign.lean`): the code's window assignment is the definition.
* `window_records_accounted_once`: for every configuration with tumbling or sliding windows, every
  policy / lateness and every schedule of Process / Watermark segments, the Spec judge accepts the
  model's own transcript: every accepted record is owed to exactly its windows, every result carries
  exactly the records owed so far and a new one, no closed window is left out, late records go where
  the policy says, the counters add up.
* `session_records_conserved`: session windows never lose or duplicate a record.
* `stats_conservation`: the public counters of every run.
-/
namespace HappyModel.C19.Win

theorem judge_run_ok (cfg : Cfg) (hk : cfg.kind ≠ 2) (hs : cfg.kind = 0 ∨ 0 < cfg.slide) :
    ∀ (sched : List Line) (s : St) (j : JSt), R s j → legit cfg s sched = true →
      judgeCore cfg j (sched.zip (run cfg s sched)) = none := by
  intro sched
  induction sched with
  | nil => intro s j _ _; rfl
  | cons ln rest ih =>
    intro s j h hl
    simp only [legit, Bool.and_eq_true] at hl
    obtain ⟨hok, hR⟩ := step_ok cfg hk hs s j ln h hl.1
    simp only [run, List.zip_cons_cons, judgeCore, judgeWith, hok]
    exact ih _ _ hR hl.2

/-- **Exactly-once accounting of windowed records** (tumbling and sliding windows).  For every window
size / slide, allowed lateness, late-event policy and every schedule of generator segments (records in any
order with any event times, self-scheduled and injected watermarks, side-output deliveries), the Spec judge
accepts the transcript of the model.  `legit` is the engine's part: a LateEvent is delivered only while in
flight and none is in flight at the end. -/
theorem window_records_accounted_once (cfg : Cfg) (sched : List Line) (hk : cfg.kind ≠ 2)
    (hs : cfg.kind = 0 ∨ 0 < cfg.slide) (hl : legit cfg {} sched = true) :
    judgeCore cfg {} (sched.zip (run cfg {} sched)) = none :=
  judge_run_ok cfg hk hs sched {} {} R_init hl

/-- **The full statement**: every window kind the library has (tumbling, sliding, session), every policy /
lateness / schedule, against the core *and* extra clauses of the judge (`judgeSafety`): late classification,
counters, watermark, results = records owed, never twice, never dropped, side output, `active_windows`; for
sessions: an emitted session consists of pending records of its key, spans `[min et, max et + gap]`, is
gap-connected and maximal, no closed session is left, `active_windows` = number of gap groups.
For sessions the judge recognises the members of a result by record id, hence the hypothesis that the schedule's
record ids are distinct (`session_judge_needs_distinct_ids` shows it cannot be dropped); tumbling / sliding need none. -/
theorem window_records_accounted_once_full (cfg : Cfg) (sched : List Line)
    (hs : cfg.kind = 0 ∨ cfg.kind = 2 ∨ 0 < cfg.slide) (hl : legit cfg {} sched = true)
    (hid : cfg.kind = 2 → (procIds sched).Nodup) :
    judgeSafety cfg {} (sched.zip (run cfg {} sched)) = none := by
  by_cases hk : cfg.kind = 2
  · exact judge_safety_run_sess cfg hk sched {} {} (RS_init cfg.gap) hl (hid hk) (by simp)
  · exact judge_safety_run cfg hk (by omega) sched {} {} R_init hl

/-- all window kinds against the core clauses — no hypothesis on record ids -/
theorem window_core_clauses_all_kinds (cfg : Cfg) (sched : List Line)
    (hs : cfg.kind = 0 ∨ cfg.kind = 2 ∨ 0 < cfg.slide) (hl : legit cfg {} sched = true) :
    judgeCore cfg {} (sched.zip (run cfg {} sched)) = none := by
  by_cases hk : cfg.kind = 2
  · exact judge_core_run_sess cfg hk sched {} {} R0_init hl
  · exact judge_run_ok cfg hk (by omega) sched {} {} R_init hl

/-- two session records with the same id: the judge cannot tell which of them a result with that id carries and
rejects the model's (correct) transcript — the distinct-ids hypothesis of the full statement is needed -/
theorem session_judge_needs_distinct_ids :
    legit { kind := 2, size := 0, slide := 0, gap := 2, late := 0, policy := 0, side := false, interval := 1 } {}
      [⟨0, .proc ⟨0, 0, 1, 1⟩⟩, ⟨0, .proc ⟨0, 0, 10, 1⟩⟩, ⟨1, .wmA true 5⟩, ⟨1, .wmB⟩] = true ∧
    judgeSafety { kind := 2, size := 0, slide := 0, gap := 2, late := 0, policy := 0, side := false, interval := 1 } {}
      (([⟨0, .proc ⟨0, 0, 1, 1⟩⟩, ⟨0, .proc ⟨0, 0, 10, 1⟩⟩, ⟨1, .wmA true 5⟩, ⟨1, .wmB⟩] : List Line).zip
        (run { kind := 2, size := 0, slide := 0, gap := 2, late := 0, policy := 0, side := false, interval := 1 } {}
          [⟨0, .proc ⟨0, 0, 1, 1⟩⟩, ⟨0, .proc ⟨0, 0, 10, 1⟩⟩, ⟨1, .wmA true 5⟩, ⟨1, .wmB⟩])) ≠ none := by
  decide

/-! non-vacuity: a run with two keys, a window emitted, re-opened by a record inside the allowed lateness
and emitted again with both records, a late record sent to the side output and received -/
def demoCfg : Cfg := { kind := 1, size := 4, slide := 2, gap := 0, late := 3, policy := 1, side := true, interval := 1 }

def demoSched : List Line :=
  [⟨0, .proc ⟨0, 0, 1, 5⟩⟩, ⟨0, .proc ⟨1, 1, 3, 2⟩⟩, ⟨1, .wmA false 1⟩, ⟨1, .wmB⟩,
   ⟨2, .wmA true 6⟩, ⟨2, .wmB⟩, ⟨3, .proc ⟨2, 0, 3, 7⟩⟩, ⟨3, .wmA false 2⟩, ⟨3, .wmB⟩,
   ⟨4, .proc ⟨3, 0, 0, 1⟩⟩, ⟨4, .lateRecv 3⟩, ⟨4, .fin⟩]

example : legit demoCfg {} demoSched = true := by decide

example : (run demoCfg {} demoSched).filterMap (fun o => match o with | .emits _ ems _ => some ems | _ => none) =
    [[], [⟨0, 0, 4, 1, 5, [0]⟩, ⟨1, 0, 4, 1, 2, [1]⟩, ⟨1, 2, 6, 1, 2, [1]⟩],
     [⟨0, 0, 4, 2, 12, [0, 2]⟩, ⟨0, 2, 6, 1, 7, [2]⟩]] := by decide

example : judgeFull demoCfg {} (demoSched.zip (run demoCfg {} demoSched)) = none := by decide

/-- the pinned tree's answer to a record inside the allowed lateness — a second result for window [0, 4)
carrying only the new record — is rejected -/
theorem judge_rejects_double_emission :
    judgeCore { kind := 0, size := 4, slide := 1, gap := 0, late := 9, policy := 0, side := false, interval := 1 } {}
      [(⟨0, .proc ⟨0, 0, 1, 5⟩⟩, .proc 0 ⟨1, 0, 0, 0, 0, 0, 1, 0⟩),
       (⟨1, .wmA true 4⟩, .wm false ⟨1, 0, 0, 0, 0, 0, 1, 4⟩),
       (⟨1, .wmB⟩, .emits 1 [⟨0, 0, 4, 1, 5, [0]⟩] ⟨1, 1, 0, 0, 0, 0, 0, 4⟩),
       (⟨2, .proc ⟨1, 0, 2, 7⟩⟩, .proc 0 ⟨2, 1, 0, 0, 0, 0, 1, 4⟩),
       (⟨3, .wmA true 5⟩, .wm false ⟨2, 1, 0, 0, 0, 0, 1, 5⟩),
       (⟨3, .wmB⟩, .emits 1 [⟨0, 0, 4, 1, 7, [1]⟩] ⟨2, 2, 0, 0, 0, 0, 0, 5⟩)]
      = some "win/emit/records-not-those-assigned" := by decide

/-- a firing that leaves a closed window out is rejected, and so is a second emission without a new record -/
theorem judge_rejects_dropped_window :
    judgeCore { kind := 0, size := 4, slide := 1, gap := 0, late := 0, policy := 0, side := false, interval := 1 } {}
      [(⟨0, .proc ⟨0, 0, 1, 5⟩⟩, .proc 0 ⟨1, 0, 0, 0, 0, 0, 1, 0⟩),
       (⟨1, .wmA true 4⟩, .wm false ⟨1, 0, 0, 0, 0, 0, 1, 4⟩),
       (⟨1, .wmB⟩, .emits 0 [] ⟨1, 0, 0, 0, 0, 0, 1, 4⟩)]
      = some "win/emit/closed-window-not-emitted" ∧
    judgeCore { kind := 0, size := 4, slide := 1, gap := 0, late := 0, policy := 0, side := false, interval := 1 } {}
      [(⟨0, .proc ⟨0, 0, 1, 5⟩⟩, .proc 0 ⟨1, 0, 0, 0, 0, 0, 1, 0⟩),
       (⟨1, .wmA true 4⟩, .wm false ⟨1, 0, 0, 0, 0, 0, 1, 4⟩),
       (⟨1, .wmB⟩, .emits 1 [⟨0, 0, 4, 1, 5, [0]⟩] ⟨1, 1, 0, 0, 0, 0, 0, 4⟩),
       (⟨2, .wmA true 5⟩, .wm false ⟨1, 1, 0, 0, 0, 0, 0, 5⟩),
       (⟨2, .wmB⟩, .emits 1 [⟨0, 0, 4, 1, 5, [0]⟩] ⟨1, 2, 0, 0, 0, 0, 0, 5⟩)]
      = some "win/emit/window-emitted-twice" := by decide

/-! ### sessions -/

/-- **Session windows never lose or duplicate a record.**  For every schedule: the records in the active
sessions plus the records in all emitted results are the accepted records — by count, by sum of values,
and id by id (each accepted id appears exactly as often as it was accepted). -/
theorem session_records_conserved (cfg : Cfg) (hk : cfg.kind = 2) (sched : List Line) :
    let s := finalState cfg {} sched
    let tr := sched.zip (run cfg {} sched)
    measure (fun _ => 1) s.wins + emM (·.cnt) (run cfg {} sched) = accM (fun _ => 1) tr ∧
    measure (·.val) s.wins + emM (·.sum) (run cfg {} sched) = accM (·.val) tr ∧
    ∀ i, measure (fun r => if r.id = i then 1 else 0) s.wins + emM (fun em => em.ids.count i) (run cfg {} sched)
      = accM (fun r => if r.id = i then 1 else 0) tr := by
  refine ⟨?_, ?_, ?_⟩
  · have := session_measure (fun _ => 1) (·.cnt) cnt_toEm cfg hk sched {}
    simpa [measure_nil] using this
  · have := session_measure (·.val) (·.sum) sum_toEm cfg hk sched {}
    simpa [measure_nil] using this
  · intro i
    have := session_measure (fun r => if r.id = i then 1 else 0) (fun em => em.ids.count i) (idcount_toEm i) cfg hk sched {}
    simpa [measure_nil] using this

/-- **Records within the gap are in the same session.**  For every schedule, two different active sessions
of one key hold records further apart than the gap, and every session spans its records
(`start ≤ et`, `et + gap ≤ end`) — the class's promise "events within the gap threshold are merged into the
same session", which the pinned tree breaks by not moving the start. -/
theorem session_records_within_gap_together (cfg : Cfg) (hk : cfg.kind = 2) (sched : List Line) :
    let wins := (finalState cfg {} sched).wins
    (∀ w ∈ wins, ∀ r ∈ w.recs, w.s ≤ r.et ∧ r.et + cfg.gap ≤ w.e) ∧
    wins.Pairwise fun a b => a.key = b.key →
      ∀ r1 ∈ a.recs, ∀ r2 ∈ b.recs, r1.et + cfg.gap < r2.et ∨ r2.et + cfg.gap < r1.et := by
  have h := run_sinv cfg hk sched {} ⟨by simp, List.Pairwise.nil⟩
  refine ⟨fun w hw => (h.1 w hw).2.2, ?_⟩
  refine pairwise_imp_of_mem _ ?_ h.2
  intro a b ha hb hsep hkey r1 hr1 r2 hr2
  have h1 := (h.1 a ha).2.2 r1 hr1
  have h2 := (h.1 b hb).2.2 r2 hr2
  cases hsep hkey with
  | inl hlt => left; omega
  | inr hlt => right; omega

def sessCfg : Cfg := { kind := 2, size := 0, slide := 0, gap := 2, late := 0, policy := 2, side := false, interval := 1 }

/-- non-vacuity: event times 10, 8, 7 arriving in that order end up in one session [7, 12] (the repaired
behaviour), which the full judge accepts -/
def sessSched : List Line :=
  [⟨0, .proc ⟨0, 0, 10, 1⟩⟩, ⟨0, .proc ⟨1, 0, 8, 2⟩⟩, ⟨0, .proc ⟨2, 0, 7, 3⟩⟩, ⟨1, .wmA true 12⟩, ⟨1, .wmB⟩, ⟨1, .fin⟩]

example : (run sessCfg {} sessSched).filterMap (fun o => match o with | .emits _ ems _ => some ems | _ => none) =
    [[⟨0, 7, 12, 3, 6, [0, 1, 2]⟩]] := by decide

example : judgeFull sessCfg {} (sessSched.zip (run sessCfg {} sessSched)) = none := by decide

example : legit sessCfg {} sessSched = true ∧ (procIds sessSched).Nodup := by decide

/-- two sessions of one key that stay apart: 1 and 5 with gap 2 -/
example : ((finalState sessCfg {} [⟨0, .proc ⟨0, 0, 5, 1⟩⟩, ⟨0, .proc ⟨1, 0, 1, 2⟩⟩]).wins.map fun w => (w.s, w.e)) = [(1, 3), (5, 7)] := by
  decide

/-- the pinned tree's sessions for the same input — [7, 9] and [10, 12] holding 10 and 8 — are rejected -/
example : (judgeFull sessCfg {}
      [(⟨0, .proc ⟨0, 0, 10, 1⟩⟩, .proc 0 ⟨1, 0, 0, 0, 0, 0, 1, 0⟩),
       (⟨0, .proc ⟨1, 0, 8, 2⟩⟩, .proc 0 ⟨2, 0, 0, 0, 0, 0, 1, 0⟩),
       (⟨1, .wmA true 12⟩, .wm false ⟨2, 0, 0, 0, 0, 0, 1, 12⟩),
       (⟨1, .wmB⟩, .emits 1 [⟨0, 10, 12, 2, 3, [0, 1]⟩] ⟨2, 1, 0, 0, 0, 0, 0, 12⟩)])
      = some "win/session/bounds-do-not-span-the-records" := by decide

/-! ### counters -/

def emLen : List Out → Nat
  | [] => 0
  | .emits _ ems _ :: rest => ems.length + emLen rest
  | _ :: rest => emLen rest

theorem counters_run (cfg : Cfg) : ∀ (sched : List Line) (s : St), s.le = s.ld + s.lu + s.ls → s.le ≤ s.ep →
    let s' := finalState cfg s sched
    s'.ep = s.ep + countProc sched ∧ s'.we = s.we + emLen (run cfg s sched) ∧
    s'.le = s'.ld + s'.lu + s'.ls ∧ s'.le ≤ s'.ep := by
  intro sched
  induction sched with
  | nil => intro s h1 h2; simp only [finalState, countProc, run, emLen]; omega
  | cons ln rest ih =>
    intro s h1 h2
    obtain ⟨t, act⟩ := ln
    cases act with
    | proc r =>
      obtain ⟨c1, c2, c3, c4⟩ := stepProc_counts cfg t r s
      have := ih (stepProc cfg t r s).1 (by omega) (by omega)
      simp only [finalState, run, step, countProc, emLen] at this ⊢
      omega
    | wmA ext w =>
      have hf : (stepWmA t ext w s).1.ep = s.ep ∧ (stepWmA t ext w s).1.we = s.we ∧
          (stepWmA t ext w s).1.le = s.le ∧ (stepWmA t ext w s).1.ld = s.ld ∧
          (stepWmA t ext w s).1.lu = s.lu ∧ (stepWmA t ext w s).1.ls = s.ls := by
        unfold stepWmA; cases ext <;> simp <;> split <;> simp
      have := ih (stepWmA t ext w s).1 (by omega) (by omega)
      simp only [finalState, run, step, countProc, emLen] at this ⊢
      omega
    | wmB =>
      have hf : (stepWmB cfg t s).1.ep = s.ep ∧ (stepWmB cfg t s).1.we = s.we + (stepWmB cfg t s).2.length ∧
          (stepWmB cfg t s).1.le = s.le ∧ (stepWmB cfg t s).1.ld = s.ld ∧
          (stepWmB cfg t s).1.lu = s.lu ∧ (stepWmB cfg t s).1.ls = s.ls := by
        simp [stepWmB]
      have := ih (stepWmB cfg t s).1 (by omega) (by omega)
      simp only [finalState, run, step, countProc, emLen] at this ⊢
      omega
    | lateRecv id =>
      have hf : (stepLate id s).1.ep = s.ep ∧ (stepLate id s).1.we = s.we ∧
          (stepLate id s).1.le = s.le ∧ (stepLate id s).1.ld = s.ld ∧
          (stepLate id s).1.lu = s.lu ∧ (stepLate id s).1.ls = s.ls := by
        unfold stepLate; split <;> simp
      have hno : ∀ rest', emLen ((stepLate id s).2 :: rest') = emLen rest' := by
        intro rest'; unfold stepLate; split <;> rfl
      have := ih (stepLate id s).1 (by omega) (by omega)
      simp only [finalState, run, step, countProc, hno] at this ⊢
      omega
    | fin =>
      have := ih s h1 h2
      simp only [finalState, run, step, countProc, emLen] at this ⊢
      omega

/-- **The public counters add up**, for every window kind, policy and schedule: `events_processed` is the
number of Process events, `windows_emitted` the number of results handed to the sink, every late record is
counted in exactly one of dropped / updated / side-output, and late ≤ processed. -/
theorem stats_conservation (cfg : Cfg) (sched : List Line) :
    let s := finalState cfg {} sched
    s.ep = countProc sched ∧ s.we = emLen (run cfg {} sched) ∧ s.le = s.ld + s.lu + s.ls ∧ s.le ≤ s.ep := by
  have := counters_run cfg sched {} rfl (Nat.le_refl _)
  simpa using this

example : (finalState demoCfg {} demoSched).stats = ⟨4, 5, 1, 0, 0, 1, 0, 6⟩ := by decide

end HappyModel.C19.Win
