import HappyModel.C19.StreamSpec
import HappyProofs.C19.Assign
import HappyProofs.C19.StreamCommit
import HappyProofs.C19.StreamLogLemmas
/-!
# C19 — event log: offsets within a partition are gap-free and increasing

The i-th append to a partition gets offset i; every read and every poll returns appended records
with offsets increasing by exactly one within a partition; a read returns its own partition only
and nothing below the requested offset.  Holds for every retention policy (size retention drops a
prefix; age retention drops a prefix because time stamps are nondecreasing under a monotone clock)
and every assignment strategy (a poll walks the member's assigned partitions, which are distinct).

`key_partition_stable`, `committed_monotone` and `legacy_commit_witness` are in `StreamCommit.lean`;
the list lemmas are in `StreamLogLemmas.lean`.
-/
namespace HappyModel.C19

/-! ### assigned partitions are distinct -/

theorem flat_filter_sublist (a : Assignment) (f : Nat × List Nat → Bool) :
    (flat (a.filter f)).Sublist (flat a) := by
  induction a with
  | nil => exact List.Sublist.refl _
  | cons e rest ih =>
    show (flat (List.filter f (e :: rest))).Sublist (e.2 ++ flat rest)
    by_cases he : f e = true
    · rw [List.filter_cons_of_pos he]
      exact List.Sublist.append (List.Sublist.refl _) ih
    · rw [List.filter_cons_of_neg he]
      exact List.sublist_append_of_sublist_right ih

theorem flat_assignWith_nodup (st : Strategy) (prev : Assignment) (n : Nat) (members : List Nat)
    (hprev : (flat prev).Nodup) (hm : members.Nodup) :
    (flat (assignWith st prev (List.range n) members)).Nodup := by
  cases st with
  | sticky => exact flat_stickyAssign_nodup prev hprev _ _ hm List.nodup_range
  | range =>
    by_cases hne : members = []
    · simp [assignWith, rangeAssign, hne]
    · exact (perm_of_isPartition List.nodup_range
        (range_is_partition _ _ hm List.nodup_range hne)).2.nodup_iff.mpr List.nodup_range
  | rr =>
    by_cases hne : members = []
    · simp [assignWith, rrAssign, hne]
    · exact (perm_of_isPartition List.nodup_range
        (rr_is_partition _ _ hm List.nodup_range hne)).2.nodup_iff.mpr List.nodup_range

theorem mine_nodup (s : Stream) (c : Nat) (h : (flat s.asg).Nodup) : (s.mine c).Nodup := by
  unfold Stream.mine
  cases hl : s.asg.lookup c with
  | none => exact List.nodup_nil
  | some l =>
    have hm : l ∈ s.asg.map (·.2) := List.mem_map.mpr ⟨_, lookup_mem hl, rfl⟩
    have hs := List.sublist_flatten_of_mem hm
    rw [← List.flatMap_def] at hs
    exact List.Nodup.sublist hs h

/-! ### the state invariant -/

structure LInv (cfg : SCfg) (s : Stream) (T : Nat) : Prop where
  pl : s.parts.length = cfg.n
  hl : s.hw.length = cfg.n
  ok : ∀ p, p < cfg.n → OkFrom (s.hwOf p) (s.part p)
  ts : ∀ p, p < cfg.n → (s.part p).Pairwise (fun a b => a.ts ≤ b.ts)
  tb : ∀ p, p < cfg.n → ∀ r ∈ s.part p, r.ts ≤ T
  asg : (flat s.asg).Nodup
  prev : (flat s.prev).Nodup
  mem : s.members.Nodup

theorem LInv.mono {cfg : SCfg} {s : Stream} {T T' : Nat} (h : LInv cfg s T) (hT : T ≤ T') :
    LInv cfg s T' :=
  { h with tb := fun p hp r hr => Nat.le_trans (h.tb p hp r hr) hT }

theorem getD_set {α : Type} (l : List α) (i j : Nat) (a d : α) (hi : i < l.length) :
    (l.set i a).getD j d = if j = i then a else l.getD j d := by
  simp only [List.getD_eq_getElem?_getD, List.getElem?_set]
  by_cases h : i = j
  · subst h; simp [hi]
  · have : ¬ j = i := fun e => h e.symm
    simp [h, this]

theorem log_init_inv (n : Nat) (cfg : SCfg) (hc : cfg.n = n) : LInv cfg (Stream.init n) 0 := by
  subst hc
  have hp : ∀ p, (Stream.init cfg.n).part p = [] := by
    intro p
    simp only [Stream.init, Stream.part, List.getD_eq_getElem?_getD, List.getElem?_replicate]
    split <;> rfl
  have hh : ∀ p, (Stream.init cfg.n).hwOf p = 0 := by
    intro p
    simp only [Stream.init, Stream.hwOf, List.getD_eq_getElem?_getD, List.getElem?_replicate]
    split <;> rfl
  refine ⟨by simp [Stream.init], by simp [Stream.init], ?_, ?_, ?_, List.nodup_nil, List.nodup_nil,
    List.nodup_nil⟩
  · intro p _; rw [hp]; trivial
  · intro p _; rw [hp]; exact List.Pairwise.nil
  · intro p _ r hr; rw [hp] at hr; cases hr

theorem log_append_inv (cfg : SCfg) (hn : 0 < cfg.n) (s : Stream) (t key h : Nat) (hi : LInv cfg s t) :
    LInv cfg (s.append cfg t key h).1 t := by
  have hp : h % cfg.n < cfg.n := Nat.mod_lt _ hn
  have hpart : ∀ q, (s.append cfg t key h).1.part q =
      if q = h % cfg.n then s.part (h % cfg.n) ++ [⟨s.hwOf (h % cfg.n), key, t⟩] else s.part q :=
    fun q => getD_set s.parts _ q _ [] (by rw [hi.pl]; exact hp)
  have hhw : ∀ q, (s.append cfg t key h).1.hwOf q =
      if q = h % cfg.n then s.hwOf (h % cfg.n) + 1 else s.hwOf q :=
    fun q => getD_set s.hw _ q _ 0 (by rw [hi.hl]; exact hp)
  refine ⟨by simp [Stream.append, hi.pl], by simp [Stream.append, hi.hl], ?_, ?_, ?_,
    hi.asg, hi.prev, hi.mem⟩
  · intro q hq
    rw [hpart, hhw]
    split
    · exact (hi.ok _ hp).snoc key t
    · exact hi.ok q hq
  · intro q hq
    rw [hpart]
    split
    · refine List.pairwise_append.mpr ⟨hi.ts _ hp, List.pairwise_singleton _ _, ?_⟩
      intro a ha b hb
      rw [List.mem_singleton.mp hb]
      exact hi.tb _ hp a ha
    · exact hi.ts q hq
  · intro q hq r hr
    rw [hpart] at hr
    split at hr
    · rcases List.mem_append.mp hr with hm | hm
      · exact hi.tb _ hp r hm
      · rw [List.mem_singleton.mp hm]; exact Nat.le_refl _
    · exact hi.tb q hq r hr

theorem part_retention (cfg : SCfg) (s : Stream) (t q : Nat) :
    (s.retention cfg t).part q = retainPart cfg.ret t (s.part q) := by
  simp only [Stream.retention, Stream.part, List.getD_eq_getElem?_getD, List.getElem?_map]
  cases s.parts[q]? with
  | none => cases cfg.ret <;> simp [retainPart]
  | some l => rfl

theorem log_retention_inv (cfg : SCfg) (s : Stream) (t : Nat) (hi : LInv cfg s t) :
    LInv cfg (s.retention cfg t) t := by
  refine ⟨by simp [Stream.retention, hi.pl], hi.hl, ?_, ?_, ?_, hi.asg, hi.prev, hi.mem⟩
  · intro q hq
    obtain ⟨k, hk⟩ := retainPart_eq_drop cfg.ret t (s.part q) (hi.ts q hq)
    rw [part_retention, hk]
    exact (hi.ok q hq).drop k
  · intro q hq
    obtain ⟨k, hk⟩ := retainPart_eq_drop cfg.ret t (s.part q) (hi.ts q hq)
    rw [part_retention, hk]
    exact (hi.ts q hq).sublist (List.drop_sublist _ _)
  · intro q hq r hr
    obtain ⟨k, hk⟩ := retainPart_eq_drop cfg.ret t (s.part q) (hi.ts q hq)
    rw [part_retention, hk] at hr
    exact hi.tb q hq r (List.mem_of_mem_drop hr)

theorem log_rebalance_inv (cfg : SCfg) (s : Stream) (t : Nat) (hi : LInv cfg s t) :
    LInv cfg (s.rebalance cfg) t := by
  have ha := flat_assignWith_nodup cfg.strat s.prev cfg.n s.members hi.prev hi.mem
  refine ⟨hi.pl, hi.hl, hi.ok, hi.ts, hi.tb, ha, ?_, hi.mem⟩
  show (flat (if cfg.strat = .sticky then _ else s.prev)).Nodup
  split
  · exact ha
  · exact hi.prev

theorem log_commit_eq (cfg : SCfg) (s : Stream) (c : Nat) (offs : List (Nat × Nat)) :
    ∃ cm, s.commit cfg c offs = { s with committed := cm } := by
  induction offs generalizing s with
  | nil => exact ⟨s.committed, rfl⟩
  | cons po rest ih =>
    obtain ⟨cm, h⟩ := ih (s.commitOne cfg c po)
    exact ⟨cm, by rw [Stream.commit, h]; rfl⟩

theorem log_insertNew_nodup {l : List Nat} (h : l.Nodup) (k : Nat) : (insertNew l k).Nodup := by
  unfold insertNew
  split
  · exact h
  · next hk =>
    refine List.nodup_append.mpr ⟨h, by simp, ?_⟩
    intro a ha b hb e
    rw [List.mem_singleton.mp hb] at e
    exact hk (e ▸ ha)

theorem log_step_inv (cfg : SCfg) (hn : 0 < cfg.n) (s : Stream) (t : Nat) (a : SAct)
    (hi : LInv cfg s t) : LInv cfg (s.step cfg t a).1 t := by
  cases a with
  | append key h => exact log_append_inv cfg hn s t key h hi
  | read p off max => exact hi
  | retention => exact log_retention_inv cfg s t hi
  | joinA c => exact ⟨hi.pl, hi.hl, hi.ok, hi.ts, hi.tb, hi.asg, hi.prev, log_insertNew_nodup hi.mem c⟩
  | joinB c => exact log_rebalance_inv cfg s t hi
  | leaveA c =>
    exact ⟨hi.pl, hi.hl, hi.ok, hi.ts, hi.tb, List.Nodup.sublist (flat_filter_sublist _ _) hi.asg,
      hi.prev, hi.mem.erase c⟩
  | leaveB c => exact log_rebalance_inv cfg s t hi
  | commit c offs =>
    obtain ⟨cm, h⟩ := log_commit_eq cfg s c offs
    show LInv cfg (s.commit cfg c offs) t
    rw [h]
    exact ⟨hi.pl, hi.hl, hi.ok, hi.ts, hi.tb, hi.asg, hi.prev, hi.mem⟩
  | poll c max => exact hi

theorem log_step_hw (cfg : SCfg) (s : Stream) (t : Nat) (a : SAct) (ha : ∀ k h, a ≠ .append k h) :
    (s.step cfg t a).1.hw = s.hw := by
  cases a with
  | append key h => exact absurd rfl (ha key h)
  | commit c offs =>
    obtain ⟨cm, h⟩ := log_commit_eq cfg s c offs
    show (s.commit cfg c offs).hw = s.hw
    rw [h]
  | _ => rfl

/-! ### the property -/

/-- schedule times never decrease (the engine's clock is monotone) -/
def TimesMono (sched : List (Nat × SAct)) : Prop := (sched.map (·.1)).Pairwise (· ≤ ·)

theorem jOffsets_run (cfg : SCfg) (hn : 0 < cfg.n) (s : Stream) (T : Nat) (next : List (Nat × Nat))
    (sched : List (Nat × SAct)) (hi : LInv cfg s T) (hT : ∀ x ∈ sched, T ≤ x.1)
    (ht : TimesMono sched) (hnx : ∀ p, p < cfg.n → nextOf next p = s.hwOf p) :
    jOffsets cfg.n next (Stream.run cfg s sched) = none := by
  induction sched generalizing s T next with
  | nil => rfl
  | cons x rest ih =>
    obtain ⟨t, a⟩ := x
    have hi' : LInv cfg s t := hi.mono (hT _ (List.mem_cons_self ..))
    have hs := log_step_inv cfg hn s t a hi'
    obtain ⟨ht1, ht'⟩ := List.pairwise_cons.mp (show ((t :: rest.map (·.1)).Pairwise (· ≤ ·)) from ht)
    have hT' : ∀ x ∈ rest, t ≤ x.1 := fun x hx => ht1 _ (List.mem_map.mpr ⟨x, hx, rfl⟩)
    by_cases happ : ∃ k h, a = .append k h
    · obtain ⟨key, h, rfl⟩ := happ
      have hp : h % cfg.n < cfg.n := Nat.mod_lt _ hn
      simp only [Stream.run, Stream.step, jOffsets, Stream.append]
      have hc : (decide (h % cfg.n < cfg.n) && s.hwOf (h % cfg.n) == nextOf next (h % cfg.n)) = true := by
        simp [hp, hnx _ hp]
      rw [if_pos hc]
      refine ih _ t _ hs hT' ht' ?_
      intro q hq
      rw [nextOf_setNext]
      show _ = (s.hw.set (h % cfg.n) (s.hwOf (h % cfg.n) + 1)).getD q 0
      rw [getD_set _ _ _ _ _ (by rw [hi.hl]; exact hp)]
      split
      · rfl
      · exact hnx q hq
    · have hna : ∀ k h, a ≠ .append k h := fun k h e => happ ⟨k, h, e⟩
      have hnx' : ∀ p, p < cfg.n → nextOf next p = (s.step cfg t a).1.hwOf p := by
        intro p hp
        rw [hnx p hp, Stream.hwOf, Stream.hwOf, log_step_hw cfg s t a hna]
      have hrest := ih _ t next hs hT' ht' hnx'
      have hall : ∀ recs : List (Nat × Nat), (∀ x ∈ recs, x.1 < cfg.n ∧ x.2 < s.hwOf x.1) →
          (recs.all fun po => decide (po.2 < nextOf next po.1)) = true := by
        intro recs h
        rw [List.all_eq_true]
        intro x hx
        rw [hnx _ (h x hx).1]
        exact decide_eq_true (h x hx).2
      cases a with
      | append key h => exact absurd rfl (hna key h)
      | read p off max =>
        have hm := readPart_mem cfg s p off max (hi.ok p)
        have h1 := readPart_consecutive cfg s p off max (hi.ok p)
        have h2 := hall _ (fun x hx => by
          obtain ⟨e1, e2, _, e4⟩ := hm x hx
          rw [e1]; exact ⟨e2, e4⟩)
        have h3 : ((s.readPart cfg p off max).all fun po => po.1 == p && decide (off ≤ po.2)) = true := by
          rw [List.all_eq_true]
          intro x hx
          obtain ⟨e1, _, e3, _⟩ := hm x hx
          simp [e1, e3]
        simp only [Stream.run, Stream.step, jOffsets, h1, h2, h3, Bool.not_true, Bool.false_eq_true,
          if_false, if_true]
        exact hrest
      | poll c max =>
        obtain ⟨h1, hq⟩ := pollGo_ok cfg s c max hi.ok (s.mine c) [] (mine_nodup s c hi.asg) rfl
          (fun x hx => by cases hx) (fun x hx => by cases hx)
        have h2 := hall _ hq
        simp only [Stream.run, Stream.step, jOffsets, h1, h2, Bool.not_true, Bool.false_eq_true,
          if_false]
        exact hrest
      | _ => simp only [Stream.run, Stream.step, jOffsets]; exact hrest

/-- offsets within a partition are gap-free and increasing: the i-th append to a partition gets
    offset i, and every read returns appended records of its partition with offsets increasing by one -/
theorem offsets_gap_free_increasing (cfg : SCfg) (hn : 0 < cfg.n) (sched : List (Nat × SAct))
    (ht : TimesMono sched) :
    jOffsets cfg.n [] (Stream.run cfg (Stream.init cfg.n) sched) = none := by
  refine jOffsets_run cfg hn _ 0 [] sched (log_init_inv cfg.n cfg rfl) (fun _ _ => Nat.zero_le _) ht ?_
  intro p _
  simp only [nextOf, List.lookup_nil, Option.getD_none, Stream.init, Stream.hwOf,
    List.getD_eq_getElem?_getD, List.getElem?_replicate]
  split <;> rfl

/-- non-vacuity: three partitions, several appends to one partition, reads, a size-retention sweep,
    a member that joins and polls its assigned partitions -/
example : jOffsets 3 [] (Stream.run {n := 3, ret := .size 2} (Stream.init 3)
    [(0, .append 7 4), (1, .append 8 4), (2, .append 9 4), (3, .append 5 2), (4, .read 1 0 5),
     (5, .retention), (6, .read 1 0 5), (7, .append 7 4), (8, .joinA 0), (9, .joinB 0),
     (10, .poll 0 10), (11, .read 1 3 0)]) = none := by decide

/-- the same with age retention under a monotone clock -/
example : jOffsets 2 [] (Stream.run {n := 2, ret := .age 3} (Stream.init 2)
    [(0, .append 7 1), (1, .append 8 1), (4, .append 9 1), (5, .retention), (5, .read 1 0 5),
     (6, .append 5 1), (7, .read 1 1 2)]) = none := by decide

/-- what those reads return: the survivors of the sweep, offsets increasing by one -/
example : (Stream.run {n := 2, ret := .age 3} (Stream.init 2)
    [(0, .append 7 1), (1, .append 8 1), (4, .append 9 1), (5, .retention), (5, .read 1 0 5),
     (6, .append 5 1), (7, .read 1 1 2)]).map (·.out) =
    [.appended 1 0, .appended 1 1, .appended 1 2, .total 1 [[], [2]], .records [(1, 2)], .appended 1 3,
     .records [(1, 2), (1, 3)]] := by decide

/-- the judge does reject a trace with a gap -/
example : jOffsets 2 [] [⟨0, .append 7 1, .appended 1 0⟩, ⟨1, .append 7 1, .appended 1 2⟩]
    = some "log/offsets/not-gap-free" := by decide
example : jOffsets 2 [(1, 5)] [⟨0, .read 1 0 5, .records [(1, 2), (1, 4)]⟩]
    = some "log/read/offsets-not-increasing-by-one" := by decide

end HappyModel.C19
