import HappyModel.C19.Assign
/-!
# C19 — lemmas for the assignment strategies

`flat a` (the concatenation of all members' lists) is shown to be a permutation of `parts` for each
strategy; `isPartition_of_perm` turns that, with the key list, into the Bool spec.
-/
namespace HappyModel.C19

/-- concatenation of all members' lists -/
abbrev flat (a : Assignment) : List Nat := a.flatMap (·.2)
abbrev keys (a : Assignment) : List Nat := a.map (·.1)

/-! ### sort is a permutation -/

theorem insertNat_perm (x : Nat) (l : List Nat) : (insertNat x l).Perm (x :: l) := by
  induction l with
  | nil => exact List.Perm.refl _
  | cons y ys ih =>
    simp only [insertNat]
    split
    · exact List.Perm.refl _
    · exact ((List.Perm.cons y ih).trans (List.Perm.swap x y ys))

theorem sortNat_perm (l : List Nat) : (sortNat l).Perm l := by
  induction l with
  | nil => exact List.Perm.refl _
  | cons x xs ih =>
    simp only [sortNat]
    exact (insertNat_perm x _).trans (List.Perm.cons x ih)

theorem sortNat_nodup {l : List Nat} (h : l.Nodup) : (sortNat l).Nodup :=
  (sortNat_perm l).nodup_iff.mpr h

theorem mem_sortNat {l : List Nat} {x : Nat} : x ∈ sortNat l ↔ x ∈ l :=
  (sortNat_perm l).mem_iff

theorem sortNat_length (l : List Nat) : (sortNat l).length = l.length :=
  (sortNat_perm l).length_eq

theorem sortNat_ne_nil {l : List Nat} (h : l ≠ []) : sortNat l ≠ [] := by
  intro h'
  have := sortNat_length l
  rw [h'] at this
  cases l with
  | nil => exact h rfl
  | cons x xs => simp at this

/-! ### from "flat is a permutation of parts" to the spec -/

theorem isPartition_of_perm {parts cons : List Nat} {a : Assignment}
    (hk : keys a = sortNat cons) (hperm : (flat a).Perm parts) (hp : parts.Nodup) :
    isPartition parts cons a = true := by
  have hnd : (flat a).Nodup := hperm.nodup_iff.mpr hp
  simp only [isPartition, Bool.and_eq_true, beq_iff_eq, List.all_eq_true, List.contains_iff_mem]
  refine ⟨⟨hk, ?_⟩, ?_⟩
  · intro p hpm
    rw [hnd.count, if_pos (hperm.mem_iff.mpr hpm)]
  · intro p hpm
    exact hperm.mem_iff.mp hpm

/-- the converse direction, showing the spec is not weaker than intended -/
theorem perm_of_isPartition {parts cons : List Nat} {a : Assignment} (hp : parts.Nodup)
    (h : isPartition parts cons a = true) : keys a = sortNat cons ∧ (flat a).Perm parts := by
  simp only [isPartition, Bool.and_eq_true, beq_iff_eq, List.all_eq_true,
    List.contains_iff_mem] at h
  refine ⟨h.1.1, ?_⟩
  rw [List.perm_iff_count]
  intro p
  by_cases hm : p ∈ parts
  · rw [h.1.2 p hm, hp.count, if_pos hm]
  · have : p ∉ flat a := fun hx => hm (h.2 p hx)
    rw [List.count_eq_zero_of_not_mem this, List.count_eq_zero_of_not_mem hm]

/-! ### range -/

theorem keys_rangeGo (b r i : Nat) (cs ps : List Nat) : keys (rangeGo b r i cs ps) = cs := by
  induction cs generalizing i ps with
  | nil => rfl
  | cons c cs ih =>
    show c :: keys (rangeGo b r (i + 1) cs _) = c :: cs
    rw [ih]

/-- the slices concatenate to a prefix whose length is the sum of the counts -/
theorem flat_rangeGo (b r i : Nat) (cs ps : List Nat) :
    flat (rangeGo b r i cs ps) = ps.take (cs.length * b + (min (i + cs.length) r - min i r)) := by
  induction cs generalizing i ps with
  | nil => simp [rangeGo, flat]
  | cons c cs ih =>
    simp only [rangeGo, flat, List.flatMap_cons]
    have := ih (i + 1) (ps.drop (b + if i < r then 1 else 0))
    simp only [flat] at this
    rw [this, ← List.take_add]
    congr 1
    simp only [List.length_cons, Nat.succ_mul]
    split <;> omega

theorem flat_rangeAssign (parts cons : List Nat) (hne : cons ≠ []) :
    flat (rangeAssign parts cons) = sortNat parts := by
  have hc : 0 < (sortNat cons).length := List.length_pos_iff.mpr (sortNat_ne_nil hne)
  simp only [rangeAssign, if_neg hne]
  rw [flat_rangeGo]
  apply List.take_of_length_le
  have h1 := Nat.div_add_mod (sortNat parts).length (sortNat cons).length
  have h2 := Nat.mod_lt (sortNat parts).length hc
  omega

/-! ### round robin -/

theorem keys_addAt (j p : Nat) (a : Assignment) : keys (addAt j p a) = keys a := by
  induction a generalizing j with
  | nil => cases j <;> rfl
  | cons e rest ih =>
    cases j with
    | zero => rfl
    | succ j =>
      show e.1 :: keys (addAt j p rest) = e.1 :: keys rest
      rw [ih]

theorem flat_addAt (j p : Nat) (a : Assignment) (h : j < a.length) :
    (flat (addAt j p a)).Perm (p :: flat a) := by
  induction a generalizing j with
  | nil => simp at h
  | cons e rest ih =>
    cases j with
    | zero =>
      simp only [addAt, flat, List.flatMap_cons, List.append_assoc]
      exact List.perm_middle
    | succ j =>
      simp only [addAt, flat, List.flatMap_cons]
      have := ih j (by simpa using h)
      exact (List.Perm.append_left e.2 this).trans List.perm_middle

theorem keys_rrGo (c i : Nat) (ps : List Nat) (a : Assignment) : keys (rrGo c i ps a) = keys a := by
  induction ps generalizing i a with
  | nil => rfl
  | cons p ps ih => simp only [rrGo]; rw [ih, keys_addAt]

theorem flat_rrGo (c i : Nat) (ps : List Nat) (a : Assignment) (hc : 0 < c) (hl : a.length = c) :
    (flat (rrGo c i ps a)).Perm (ps ++ flat a) := by
  induction ps generalizing i a with
  | nil => exact List.Perm.refl _
  | cons p ps ih =>
    simp only [rrGo]
    have hlt : i % c < a.length := by rw [hl]; exact Nat.mod_lt i hc
    have hl' : (addAt (i % c) p a).length = c := by
      have := congrArg List.length (keys_addAt (i % c) p a)
      simpa [keys, hl] using this
    refine (ih (i + 1) _ hl').trans ?_
    exact ((List.Perm.append_left ps (flat_addAt _ p a hlt)).trans List.perm_middle)

theorem keys_emptyAssign (l : List Nat) : keys (emptyAssign l) = l := by
  simp [keys, emptyAssign, Function.comp_def]

theorem flat_emptyAssign (l : List Nat) : flat (emptyAssign l) = [] := by
  induction l with
  | nil => rfl
  | cons x xs ih => simp [flat, emptyAssign]

end HappyModel.C19
