import HappyProofs.C19.MQOrderLemmas
/-!
C19 clause 2: first deliveries follow publish order (`jOrder`), for the fixed code
(`cfg.legacy = false`) and every schedule whose `redeliv k` actions are legitimate, i.e. happen
only for messages that were dispatched before (`message_redelivery` events are only created by
`schedule_redelivery` of an in-flight message).
-/
namespace HappyModel.C19

/-- hypothesis on the schedule: a `redeliv k` action happens only when k was dispatched before -/
def RedelivLegit (cfg : Cfg) : MQ → List (Nat × Act) → Prop
  | _, [] => True
  | s, (t, a) :: rest =>
    (match a with | .redeliv k => 1 ≤ s.cnt k | _ => True) ∧ RedelivLegit cfg (s.step cfg t a).1 rest

/-! ### the judge -/

theorem jOrder_misuse : ∀ (tr : List ORec) (j : OrdSt), j.misuse = true → jOrder j tr = none
  | [], _, _ => rfl
  | r :: rs, j, hm => by
    have hb : j.bad r = false := by
      unfold OrdSt.bad; split <;> simp [hm]
    have hs : (j.step r).misuse = true := by
      unfold OrdSt.step
      split
      · exact hm
      · split
        · simp [hm]
        · exact hm
    simp only [jOrder, hb]
    exact jOrder_misuse rs _ hs

/-- a step whose output is not a dispatch and that is not a `reject(requeue)` of a never-delivered
    message leaves the judge state alone -/
theorem ordst_quiet (j : OrdSt) (r : ORec) (ho : ∀ d k c n, r.out ≠ .disp d k c n)
    (hm : j.misuse = false) (hrej : ∀ k, r.act = .rej k true → k ∈ j.seen) :
    j.bad r = false ∧ j.step r = j := by
  constructor
  · unfold OrdSt.bad
    split
    · next d k c n h => exact absurd h (ho d k c n)
    · rfl
  · unfold OrdSt.step
    split
    · next d k c n h => exact absurd h (ho d k c n)
    · split
      · next k h =>
        have := hrej k h
        cases j
        simp_all
      · rfl

/-- state of the queue vs. state of the judge -/
structure Rel (s : MQ) (j : OrdSt) : Prop where
  inv : OInv s
  e : j.lb = 0 ∨ ∃ i, j.lb = i + 1 ∧ 1 ≤ s.dlog.count i
  g : j.seen = s.dlog
  m : j.misuse = false

theorem rel_init : Rel {} {} := ⟨core_init, Or.inl rfl, rfl, rfl⟩

theorem rel_disp {s s' : MQ} {j : OrdSt} {d k c : Nat} (hr : Rel s j) (hinv' : OInv s')
    (hk : k ∈ s.live) (hdl : s'.dlog = k :: s.dlog) (r : ORec)
    (ho : r.out = .disp d k c (s.dlog.count k + 1)) :
    j.bad r = false ∧ Rel s' (j.step r) := by
  constructor
  · simp only [OrdSt.bad, ho]
    by_cases hc : s.dlog.count k = 0
    · by_cases hlt : k < j.lb
      · exfalso
        rcases hr.e with h0 | ⟨i, hi, hci⟩
        · omega
        · have hne : k ≠ i := by intro e; subst e; omega
          exact hr.inv.c k i (by omega) hci hc hk
      · simp [hlt]
    · have : (s.dlog.count k + 1 == 1) = false := by simp; omega
      simp [this]
  · have hlb : (j.step r).lb = if s.dlog.count k + 1 = 1 then max j.lb (k + 1) else j.lb := by
      simp only [OrdSt.step, ho]
    have hseen : (j.step r).seen = k :: j.seen := by simp only [OrdSt.step, ho]
    have hmis : (j.step r).misuse = j.misuse := by simp only [OrdSt.step, ho]
    refine ⟨hinv', ?_, ?_, hmis.trans hr.m⟩
    · rw [hlb, hdl]
      have hmono : ∀ i, 1 ≤ s.dlog.count i → 1 ≤ (k :: s.dlog).count i := by
        intro i hi; have := count_cons_le k i s.dlog; omega
      have hkk : 1 ≤ (k :: s.dlog).count k := by rw [List.count_cons]; simp
      split
      · by_cases hle : j.lb ≤ k + 1
        · exact Or.inr ⟨k, by omega, hkk⟩
        · rcases hr.e with h0 | ⟨i, hi, hci⟩
          · omega
          · exact Or.inr ⟨i, by omega, hmono i hci⟩
      · rcases hr.e with h0 | ⟨i, hi, hci⟩
        · exact Or.inl h0
        · exact Or.inr ⟨i, hi, hmono i hci⟩
    · rw [hseen, hdl, hr.g]

/-! ### the queue -/

/-- what one step does, as far as the order clause can tell -/
def Kind (s : MQ) (p : MQ × Out) : Prop :=
  OInv p.1 ∧
  ((p.1.dlog = s.dlog ∧ ∀ d k c n, p.2 ≠ .disp d k c n) ∨
   (∃ d k c, p.2 = .disp d k c (s.dlog.count k + 1) ∧ k ∈ s.live ∧ p.1.dlog = k :: s.dlog))

theorem kind_quiet {s s' : MQ} {o : Out} (hi : OInv s') (hd : s'.dlog = s.dlog)
    (ho : ∀ d k c n, o ≠ .disp d k c n) : Kind s (s', o) := ⟨hi, Or.inl ⟨hd, ho⟩⟩

theorem dropPending_eq_o {cfg : Cfg} (hl : cfg.legacy = false) (s : MQ) (k : Nat) :
    s.dropPending cfg k = s.pending.erase k := by simp [MQ.dropPending, hl]

theorem deliverBegin_kind (s : MQ) (t k : Nat) (hinv : OInv s)
    (hf : 1 ≤ s.dlog.count k ∨ ∃ rest, s.pending = k :: rest) : Kind s (s.deliverBegin t k) := by
  unfold MQ.deliverBegin
  split
  · next hk =>
    split
    · next c _ =>
      exact ⟨core_dispatch hinv hk hf, Or.inr ⟨s.nd, k, c, rfl, hk, rfl⟩⟩
    · exact kind_quiet hinv rfl (by simp)
  · exact kind_quiet hinv rfl (by simp)

theorem reject_kind {cfg : Cfg} (hl : cfg.legacy = false) (s : MQ) (k : Nat) (rq : Bool) (o : Out)
    (ho : ∀ d k c n, o ≠ .disp d k c n) (hinv : OInv s) (hrq : rq = true → 1 ≤ s.dlog.count k) :
    Kind s (s.reject cfg k rq, o) := by
  unfold MQ.reject
  split
  · next hk =>
    split
    · next hc =>
      refine kind_quiet ?_ rfl ho
      show Core s.npub s.live s.dlog (s.dropPending cfg k ++ [k]) (s.inflight.erase k)
      rw [dropPending_eq_o hl]
      exact core_requeue hinv hk (hrq hc.1)
    · refine kind_quiet ?_ rfl ho
      show Core s.npub (s.live.erase k) s.dlog (s.dropPending cfg k) (s.inflight.erase k)
      rw [dropPending_eq_o hl]
      exact core_remove k hinv
  · exact kind_quiet hinv rfl ho

theorem step_kind {cfg : Cfg} (hl : cfg.legacy = false) (s : MQ) (t : Nat) (a : Act) (hinv : OInv s)
    (h1 : ∀ k, a = .redeliv k → 1 ≤ s.dlog.count k)
    (h2 : ∀ k, a = .rej k true → 1 ≤ s.dlog.count k) : Kind s (s.step cfg t a) := by
  cases a with
  | pub =>
    simp only [MQ.step, MQ.publish]
    split
    · exact kind_quiet hinv rfl (by simp)
    · exact kind_quiet (core_publish hinv) rfl (by simp)
  | poll =>
    simp only [MQ.step]
    unfold MQ.pollA
    split
    · next k _ _ _ hp _ => exact deliverBegin_kind s t k hinv (Or.inr ⟨_, hp⟩)
    · exact kind_quiet hinv rfl (by simp)
  | redeliv k =>
    exact deliverBegin_kind { s with sched := s.sched.erase k } t k hinv (Or.inl (h1 k rfl))
  | fire d =>
    simp only [MQ.step, MQ.fire]
    split
    · exact kind_quiet hinv rfl (by simp)
    · split
      · split
        · exact kind_quiet hinv rfl (by simp)
        · exact kind_quiet hinv rfl (by simp)
      · exact kind_quiet hinv rfl (by simp)
  | recv d =>
    simp only [MQ.step, MQ.recv]
    split
    · exact kind_quiet hinv rfl (by simp)
    · split
      · split
        · exact kind_quiet hinv rfl (by simp)
        · exact kind_quiet hinv rfl (by simp)
      · exact kind_quiet hinv rfl (by simp)
  | ack k =>
    simp only [MQ.step, MQ.ackMsg]
    split
    · refine kind_quiet ?_ rfl (by simp)
      show Core s.npub (s.live.erase k) s.dlog (s.dropPending cfg k) (s.inflight.erase k)
      rw [dropPending_eq_o hl]
      exact core_remove k hinv
    · exact kind_quiet hinv rfl (by simp)
  | rej k rq =>
    exact reject_kind hl s k rq .unit (by simp) hinv (fun e => h2 k (by rw [e]))
  | tmo k =>
    simp only [MQ.step, MQ.timeout]
    split
    · next hk =>
      split
      · exact kind_quiet hinv rfl (by simp)
      · split
        · exact reject_kind hl s k false .tmoNone (by simp) hinv (by simp)
        · exact kind_quiet (core_timeout hinv hk) rfl (by simp)
    · exact kind_quiet hinv rfl (by simp)
  | sub c => exact kind_quiet hinv rfl (by simp)
  | unsub c => exact kind_quiet hinv rfl (by simp)

/-! ### the run -/

theorem run_order {cfg : Cfg} (hl : cfg.legacy = false) :
    ∀ (sched : List (Nat × Act)) (s : MQ) (j : OrdSt), Rel s j → RedelivLegit cfg s sched →
      jOrder j (MQ.run cfg s sched) = none
  | [], _, _, _, _ => rfl
  | (t, a) :: rest, s, j, hr, hleg => by
    obtain ⟨hleg1, hrest⟩ := hleg
    simp only [MQ.run, jOrder]
    by_cases hmis : ∃ k, a = .rej k true ∧ k ∉ j.seen
    · -- the consumer requeues a message it never received: the clause stops judging
      obtain ⟨k, rfl, hk⟩ := hmis
      have hb : j.bad ⟨t, .rej k true, (s.step cfg t (.rej k true)).2,
          (s.step cfg t (.rej k true)).1.ctr⟩ = false := rfl
      rw [hb]
      exact jOrder_misuse _ _ (by simp [OrdSt.step, MQ.step, hk])
    · have hseen : ∀ k, a = .rej k true → k ∈ j.seen := by
        intro k e
        apply Classical.byContradiction
        intro hn
        exact hmis ⟨k, e, hn⟩
      have hk := step_kind hl s t a hr.inv
        (by intro k e; subst e; exact hleg1)
        (by intro k e; have := hseen k e; rw [hr.g] at this; exact List.count_pos_iff.2 this)
      obtain ⟨hinv', ⟨hd, ho⟩ | ⟨d, k, c, ho, hkl, hd⟩⟩ := hk
      · have hq := ordst_quiet j ⟨t, a, (s.step cfg t a).2, (s.step cfg t a).1.ctr⟩ ho hr.m hseen
        rw [hq.1, hq.2]
        exact run_order hl rest _ j ⟨hinv', by rw [hd]; exact hr.e, by rw [hd]; exact hr.g, hr.m⟩
          hrest
      · have hq := rel_disp hr hinv' hkl hd ⟨t, a, (s.step cfg t a).2, (s.step cfg t a).1.ctr⟩ ho
        rw [hq.1]
        exact run_order hl rest _ _ hq.2 hrest

theorem first_deliveries_in_publish_order (cfg : Cfg) (hl : cfg.legacy = false)
    (sched : List (Nat × Act)) (h : RedelivLegit cfg {} sched) :
    jOrder {} (MQ.run cfg {} sched) = none :=
  run_order hl sched {} {} rel_init h

/-! ### non-vacuity -/

instance decRedelivLegit (cfg : Cfg) : ∀ s sched, Decidable (RedelivLegit cfg s sched)
  | _, [] => isTrue trivial
  | s, (t, a) :: rest =>
    have : Decidable (RedelivLegit cfg (s.step cfg t a).1 rest) := decRedelivLegit cfg _ rest
    match a with
    | .redeliv k => (inferInstance : Decidable (1 ≤ s.cnt k ∧ RedelivLegit cfg _ rest))
    | .pub | .poll | .fire _ | .recv _ | .ack _ | .rej _ _ | .tmo _ | .sub _ | .unsub _ =>
      (inferInstance : Decidable (True ∧ RedelivLegit cfg _ rest))

/-- two publishes, a first delivery, a timeout with its redelivery event, the next first delivery -/
def ordDemoSched : List (Nat × Act) :=
  [(0, .sub 7), (1, .pub), (2, .pub), (3, .poll), (4, .tmo 0), (5, .redeliv 0), (6, .poll)]

def ordDemoCfg : Cfg := { lat := 10, maxRe := 3 }

/-- the hypothesis of the theorem is satisfiable by a schedule with a real redelivery … -/
example : RedelivLegit ordDemoCfg {} ordDemoSched := by decide

/-- … whose run contains first deliveries (n = 1) of messages 0 and 1 and a redelivery (n = 2) -/
example : (MQ.run ordDemoCfg {} ordDemoSched).map (·.out) =
    [.unit, .pubOk 0, .pubOk 1, .disp 0 0 7 1, .tmoEv, .disp 1 0 7 2, .disp 2 1 7 1] := by decide

/-- a `redeliv` of a message that was never dispatched is not a legitimate schedule -/
example : ¬ RedelivLegit ordDemoCfg {} [(0, .sub 7), (1, .pub), (2, .pub), (3, .redeliv 1)] := by
  decide

/-- the judge is not trivially `none`: first deliveries 1 then 0 are rejected -/
example : jOrder {}
    [⟨0, .poll, .disp 0 1 7 1, ⟨1, 1, 0, 0, 2, 1, 0, 0, 0⟩⟩,
     ⟨1, .poll, .disp 1 0 7 1, ⟨0, 2, 0, 0, 2, 2, 0, 0, 0⟩⟩]
    = some "mq/order/first-delivery-out-of-publish-order" := by decide

end HappyModel.C19
