import HappyProofs.C19.StreamReadLemmas
/-!
# C19 — a read returns exactly the retained suffix

For every append / retention / read / join / leave / commit / poll sequence the model's run
satisfies `jReads`: every retention sweep leaves a contiguous run ending at the newest record,
every read returns the retained records with offset ≥ the requested one (increasing, the first
`min(m, count)`), every poll returns that for the member's assigned partitions from the largest
committed offsets, and what `consumer_lag` shows is the largest committed offset.
-/
namespace HappyModel.C19

/-- the judge's bookkeeping agrees with the model state -/
structure RInv (cfg : SCfg) (s : Stream) (j : RSt) : Prop where
  next : j.next = s.hw
  lo : ∀ p, p < cfg.n → j.loOf p + (s.part p).length = s.hwOf p
  com : j.com = s.committed
  asg : j.asg = s.asg

theorem RInv.nextOf {cfg : SCfg} {s : Stream} {j : RSt} (h : RInv cfg s j) (p : Nat) :
    j.nextOf p = s.hwOf p := by
  unfold RSt.nextOf Stream.hwOf; rw [h.next]

theorem rinv_init (cfg : SCfg) : RInv cfg (Stream.init cfg.n) (RSt.init cfg.n) := by
  refine ⟨rfl, ?_, rfl, rfl⟩
  intro p _
  simp only [RSt.init, RSt.loOf, Stream.init, Stream.part, Stream.hwOf, List.getD_eq_getElem?_getD,
    List.getElem?_replicate]
  split <;> rfl

theorem readVerdict_model (cfg : SCfg) (s : Stream) (j : RSt) (T : Nat) (p off m : Nat)
    (hi : LInv cfg s T) (hr : RInv cfg s j) :
    readVerdict cfg.n j p off m (s.readPart cfg p off m) = none := by
  have h := readPart_eq cfg s j p off m (hi.ok p) (hr.nextOf p) (hr.lo p)
  unfold readVerdict
  by_cases hm : m = 0
  · subst hm
    rw [if_pos rfl] at h
    simp [h]
  · rw [if_neg hm] at h
    simp [h]

theorem pollVerdict_model (cfg : SCfg) (s : Stream) (j : RSt) (T : Nat) (c m : Nat)
    (hi : LInv cfg s T) (hr : RInv cfg s j) :
    pollVerdict cfg.n j c m (Stream.pollGo cfg s c m (s.mine c) []) = none := by
  have h := pollGo_eq cfg s j c m hi.ok hr.nextOf hr.lo hr.com (s.mine c) []
  have hm : j.mine c = s.mine c := by unfold RSt.mine Stream.mine; rw [hr.asg]
  unfold pollVerdict
  simp [h, hm]

/-- what a sweep leaves in every partition is a contiguous run ending at the newest record -/
theorem suffix_model (cfg : SCfg) (s : Stream) (j : RSt) (t : Nat) (hi : LInv cfg s t)
    (hr : RInv cfg s j) (p : Nat) (hp : p < cfg.n) :
    suffixOk (j.loOf p) (j.nextOf p) ((s.retention cfg t).kept.getD p []) = true ∧
      (j.nextOf p - ((s.retention cfg t).kept.getD p []).length)
        + ((s.retention cfg t).part p).length = (s.retention cfg t).hwOf p := by
  have hi' := log_retention_inv cfg s t hi
  have hok := hi'.ok p hp
  have hhw : (s.retention cfg t).hwOf p = s.hwOf p := rfl
  obtain ⟨k, hk⟩ := retainPart_eq_drop cfg.ret t (s.part p) (hi.ts p hp)
  have hlen : ((s.retention cfg t).part p).length ≤ (s.part p).length := by
    rw [part_retention, hk, List.length_drop]; omega
  have hle := hok.length_le
  have hlo := hr.lo p hp
  rw [kept_getD, hok.map_off, hr.nextOf, List.length_range', hhw]
  rw [hhw] at hle
  refine ⟨?_, by omega⟩
  unfold suffixOk
  rw [List.length_range']
  simp only [Bool.and_eq_true, decide_eq_true_eq, beq_iff_eq]
  exact ⟨by omega, trivial⟩

theorem rstep_retention (cfg : SCfg) (s : Stream) (j : RSt) (t : Nat) (hi : LInv cfg s t)
    (hr : RInv cfg s j) :
    ∃ j', j.step cfg.n ⟨t, .retention, (s.step cfg t .retention).2⟩ = .ok j' ∧
      RInv cfg (s.step cfg t .retention).1 j' := by
  have hlen : (s.retention cfg t).kept.length = cfg.n := by
    simp [Stream.kept, Stream.retention, hi.pl]
  have hall : ((List.range cfg.n).all fun p =>
      suffixOk (j.loOf p) (j.nextOf p) ((s.retention cfg t).kept.getD p [])) = true := by
    rw [List.all_eq_true]
    intro p hp
    exact (suffix_model cfg s j t hi hr p (List.mem_range.mp hp)).1
  refine ⟨RSt.mk ((List.range cfg.n).map
      (fun p => j.nextOf p - ((s.retention cfg t).kept.getD p []).length)) j.next j.com j.asg, ?_, ?_⟩
  · simp only [Stream.step, RSt.step, hlen, kept_total, bne_self_eq_false, Bool.false_eq_true,
      if_false, hall, if_true]
  · refine ⟨hr.next, ?_, hr.com, hr.asg⟩
    intro p hp
    show ((List.range cfg.n).map _).getD p 0 + _ = _
    rw [getD_map_range _ _ _ hp]
    exact (suffix_model cfg s j t hi hr p hp).2

theorem rstep_append (cfg : SCfg) (hn : 0 < cfg.n) (s : Stream) (j : RSt) (t key h : Nat)
    (hi : LInv cfg s t) (hr : RInv cfg s j) :
    ∃ j', j.step cfg.n ⟨t, .append key h, (s.step cfg t (.append key h)).2⟩ = .ok j' ∧
      RInv cfg (s.step cfg t (.append key h)).1 j' := by
  have hp : h % cfg.n < cfg.n := Nat.mod_lt _ hn
  refine ⟨{ j with next := j.next.set (h % cfg.n) (s.hwOf (h % cfg.n) + 1) }, rfl, ?_⟩
  have hpart : ∀ q, (s.append cfg t key h).1.part q =
      if q = h % cfg.n then s.part (h % cfg.n) ++ [⟨s.hwOf (h % cfg.n), key, t⟩] else s.part q :=
    fun q => getD_set s.parts _ q _ [] (by rw [hi.pl]; exact hp)
  have hhw : ∀ q, (s.append cfg t key h).1.hwOf q =
      if q = h % cfg.n then s.hwOf (h % cfg.n) + 1 else s.hwOf q :=
    fun q => getD_set s.hw _ q _ 0 (by rw [hi.hl]; exact hp)
  refine ⟨?_, ?_, hr.com, hr.asg⟩
  · show j.next.set _ _ = s.hw.set _ _
    rw [hr.next]
  · intro q hq
    show j.loOf q + ((s.append cfg t key h).1.part q).length = (s.append cfg t key h).1.hwOf q
    rw [hpart, hhw]
    have := hr.lo q hq
    split
    · next e => subst e; rw [List.length_append]; simp only [List.length_cons, List.length_nil]; omega
    · exact this

theorem rstep_commit (cfg : SCfg) (hc : cfg.legacyCommit = false) (s : Stream) (j : RSt)
    (t c : Nat) (offs : List (Nat × Nat)) (hr : RInv cfg s j) :
    ∃ j', j.step cfg.n ⟨t, .commit c offs, (s.step cfg t (.commit c offs)).2⟩ = .ok j' ∧
      RInv cfg (s.step cfg t (.commit c offs)).1 j' := by
  obtain ⟨cm, hcm⟩ := log_commit_eq cfg s c offs
  have hcom : (s.commit cfg c offs).committed = noteMax j.com c offs := by
    rw [hr.com]; exact commit_noteMax cfg hc s c offs
  refine ⟨{ j with com := noteMax j.com c offs }, ?_, ?_⟩
  · have hall : ((s.commit cfg c offs).observeCommitted c).all
        (fun pv => pv.2 == lastOf (noteMax j.com c offs) c pv.1) = true := by
      rw [List.all_eq_true]
      intro pv hpv
      obtain ⟨p, _, rfl⟩ := List.mem_map.mp hpv
      rw [← hcom]
      simp [Stream.committedOf, lastOf]
    simp only [Stream.step, RSt.step, hall, if_true]
  · refine ⟨?_, ?_, hcom.symm, ?_⟩
    · show j.next = (s.commit cfg c offs).hw
      rw [hcm]; exact hr.next
    · intro p hp
      show j.loOf p + ((s.commit cfg c offs).part p).length = (s.commit cfg c offs).hwOf p
      rw [hcm]; exact hr.lo p hp
    · show j.asg = (s.commit cfg c offs).asg
      rw [hcm]; exact hr.asg

/-- every step of the model is accepted and keeps the judge's bookkeeping in agreement -/
theorem rstep_model (cfg : SCfg) (hn : 0 < cfg.n) (hc : cfg.legacyCommit = false) (s : Stream)
    (j : RSt) (t : Nat) (a : SAct) (hi : LInv cfg s t) (hr : RInv cfg s j) :
    ∃ j', j.step cfg.n ⟨t, a, (s.step cfg t a).2⟩ = .ok j' ∧ RInv cfg (s.step cfg t a).1 j' := by
  cases a with
  | append key h => exact rstep_append cfg hn s j t key h hi hr
  | retention => exact rstep_retention cfg s j t hi hr
  | commit c offs => exact rstep_commit cfg hc s j t c offs hr
  | read p off max =>
    refine ⟨j, ?_, hr⟩
    simp only [Stream.step, RSt.step, readVerdict_model cfg s j t p off max hi hr]
  | poll c max =>
    refine ⟨j, ?_, hr⟩
    simp only [Stream.step, RSt.step, pollVerdict_model cfg s j t c max hi hr]
  | joinA c => exact ⟨j, rfl, ⟨hr.next, hr.lo, hr.com, hr.asg⟩⟩
  | joinB c =>
    exact ⟨{ j with asg := (s.rebalance cfg).asg }, rfl, ⟨hr.next, hr.lo, hr.com, rfl⟩⟩
  | leaveA c =>
    refine ⟨{ j with asg := j.asg.filter (fun e => e.1 != c) }, rfl, ⟨hr.next, hr.lo, hr.com, ?_⟩⟩
    show j.asg.filter _ = s.asg.filter _
    rw [hr.asg]
  | leaveB c =>
    exact ⟨{ j with asg := (s.rebalance cfg).asg }, rfl, ⟨hr.next, hr.lo, hr.com, rfl⟩⟩

theorem jReads_run (cfg : SCfg) (hn : 0 < cfg.n) (hc : cfg.legacyCommit = false) (s : Stream)
    (T : Nat) (j : RSt) (sched : List (Nat × SAct)) (hi : LInv cfg s T) (hT : ∀ x ∈ sched, T ≤ x.1)
    (ht : TimesMono sched) (hr : RInv cfg s j) :
    jReads cfg.n j (Stream.run cfg s sched) = none := by
  induction sched generalizing s T j with
  | nil => rfl
  | cons x rest ih =>
    obtain ⟨t, a⟩ := x
    have hi' : LInv cfg s t := hi.mono (hT _ (List.mem_cons_self ..))
    have hs := log_step_inv cfg hn s t a hi'
    obtain ⟨ht1, ht'⟩ := List.pairwise_cons.mp (show ((t :: rest.map (·.1)).Pairwise (· ≤ ·)) from ht)
    have hT' : ∀ x ∈ rest, t ≤ x.1 := fun x hx => ht1 _ (List.mem_map.mpr ⟨x, hx, rfl⟩)
    obtain ⟨j', hj, hr'⟩ := rstep_model cfg hn hc s j t a hi' hr
    simp only [Stream.run, jReads, hj]
    exact ih _ t j' hs hT' ht' hr'

/-- **a read returns exactly the retained suffix**: for every append / retention / read / group
    sequence (every retention policy, every strategy, monotone clock), each retention sweep leaves
    a contiguous run ending at the newest record, each read of `p` from `o` with limit `m` returns
    the retained records with offset ≥ `o` in increasing order, the first `min(m, count)`, and each
    poll returns that from the member's largest committed offsets over its assigned partitions -/
theorem read_returns_retained_suffix (cfg : SCfg) (hn : 0 < cfg.n) (hc : cfg.legacyCommit = false)
    (sched : List (Nat × SAct)) (ht : TimesMono sched) :
    jReads cfg.n (RSt.init cfg.n) (Stream.run cfg (Stream.init cfg.n) sched) = none :=
  jReads_run cfg hn hc _ 0 _ sched (log_init_inv cfg.n cfg rfl) (fun _ _ => Nat.zero_le _) ht
    (rinv_init cfg)

/-- non-vacuity: size retention trims the head of partition 1 (offsets 0, 1 go), a read from offset 1
    starts at the first retained record, a member polls, commits what it read and polls again -/
example :
    let sched : List (Nat × SAct) :=
      [(0, .joinA 0), (0, .joinB 0), (1, .append 7 1), (1, .append 7 1), (2, .append 7 1), (2, .append 7 1),
       (3, .retention), (4, .read 1 1 2), (5, .poll 0 1), (5, .commit 0 [(1, 3)]), (6, .append 7 1),
       (7, .poll 0 100), (8, .read 1 3 0)]
    TimesMono sched ∧
    (Stream.run {n := 2, ret := .size 2} (Stream.init 2) sched).map (·.out) =
      [.unit, .rebalanced 1 [(0, [0, 1])] [0, 1], .appended 1 0, .appended 1 1, .appended 1 2, .appended 1 3,
       .total 2 [[], [2, 3]], .records [(1, 2), (1, 3)], .records [(1, 2)], .committed [(0, 0), (1, 3)],
       .appended 1 4, .records [(1, 3), (1, 4)], .records [(1, 3)]] := by
  refine ⟨by unfold TimesMono; decide, by decide⟩

/-- the judge rejects the run of a log that finds records by list index instead of by offset
    (after the sweep the record with offset 2 sits at index 0) -/
example : jReads 1 (RSt.init 1)
    [⟨1, .append 7 0, .appended 0 0⟩, ⟨1, .append 7 0, .appended 0 1⟩, ⟨2, .append 7 0, .appended 0 2⟩,
     ⟨2, .append 7 0, .appended 0 3⟩, ⟨3, .retention, .total 2 [[2, 3]]⟩, ⟨4, .read 0 1 5, .records [(0, 3)]⟩]
    = some "log/read/skipped-retained-record" := by decide

/-- … and a poll that hands out a committed record again, or misses a retained one -/
example : jReads 1 { RSt.init 1 with asg := [(0, [0])], next := [4], com := [((0, 0), 2)] }
    [⟨5, .poll 0 10, .records [(0, 1), (0, 2), (0, 3)]⟩] = some "group/poll/returned-below-committed" := by
  decide
example : jReads 1 { RSt.init 1 with asg := [(0, [0])], next := [4], com := [((0, 0), 2)] }
    [⟨5, .poll 0 10, .records [(0, 3)]⟩] = some "group/poll/skipped-record" := by decide
example : jReads 1 (RSt.init 1)
    [⟨1, .append 7 0, .appended 0 0⟩, ⟨1, .append 7 0, .appended 0 1⟩, ⟨2, .append 7 0, .appended 0 2⟩,
     ⟨3, .retention, .total 2 [[0, 2]]⟩] = some "log/retention/not-a-suffix" := by decide

end HappyModel.C19
