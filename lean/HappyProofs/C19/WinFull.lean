import HappyProofs.C19.WinStep
/-!
Towards the full statement `window_records_accounted_once_full`:

* tumbling / sliding windows against the *extra* clause as well (`active_windows` = number of windows with an
  unshown record), i.e. against `judgeSafety`;
* session windows against the *core* clauses (late classification, counters, watermark, results delivered,
  side output): with these the core judge accepts the model for every window kind the library has.
-/
namespace HappyModel.C19.Win
set_option linter.unusedVariables false

/-! ### `dedupIdents` -/

theorem mem_dedupIdents (x : Nat × Nat × Nat) : ∀ l : List (Nat × Nat × Nat), x ∈ dedupIdents l ↔ x ∈ l := by
  intro l
  induction l with
  | nil => simp [dedupIdents]
  | cons a l ih =>
    simp only [dedupIdents]
    split
    · next hc =>
      have ha : a ∈ l := ih.1 |> fun _ => (mem_dedupIdents_aux a l (by simpa using hc))
      constructor
      · intro h; exact List.mem_cons_of_mem _ (ih.1 h)
      · intro h
        rcases List.mem_cons.1 h with rfl | h
        · simpa using hc
        · exact ih.2 h
    · simp only [List.mem_cons, ih]
where
  mem_dedupIdents_aux (a : Nat × Nat × Nat) (l : List (Nat × Nat × Nat)) (h : a ∈ dedupIdents l) : a ∈ l := by
    induction l with
    | nil => simp [dedupIdents] at h
    | cons b l ih =>
      simp only [dedupIdents] at h
      split at h
      · exact List.mem_cons_of_mem _ (ih h)
      · rcases List.mem_cons.1 h with rfl | h
        · exact List.mem_cons_self
        · exact List.mem_cons_of_mem _ (ih h)

theorem nodup_dedupIdents : ∀ l : List (Nat × Nat × Nat), (dedupIdents l).Nodup := by
  intro l
  induction l with
  | nil => simp [dedupIdents]
  | cons a l ih =>
    simp only [dedupIdents]
    split
    · exact ih
    · next hc => exact List.nodup_cons.2 ⟨by simpa using hc, ih⟩

/-! ### `active_windows` for tumbling / sliding windows -/

theorem nodup_map_filter (p : Win → Bool) (wins : List Win) (h : (wins.map ident).Nodup) :
    ((wins.filter p).map ident).Nodup :=
  List.Nodup.sublist (List.Sublist.map _ List.filter_sublist) h

/-- the number of windows not yet emitted is the number of distinct identities with an obligation not done -/
theorem aw_fixed (wins : List Win) (obl : List Obl) (h : WinRel wins obl) :
    (wins.filter fun w => !w.emitted).length =
      (dedupIdents ((obl.filter fun o => !o.done).map fun o => (o.key, o.s, o.e))).length := by
  have e : (wins.filter fun w => !w.emitted).length = ((wins.filter fun w => !w.emitted).map ident).length := by simp
  rw [e]
  apply List.Perm.length_eq
  rw [List.perm_ext_iff_of_nodup (nodup_map_filter _ wins h.nodup) (nodup_dedupIdents _)]
  intro x
  rw [mem_dedupIdents]
  simp only [List.mem_map, List.mem_filter, Bool.not_eq_eq_eq_not, Bool.not_true]
  constructor
  · rintro ⟨w, ⟨hw, hem⟩, rfl⟩
    -- a window that is not emitted has an obligation that is not done
    have hall := h.emitted w hw
    rw [hem] at hall
    have hany := all_false_any _ hall.symm
    obtain ⟨o, ho, hod⟩ := List.any_eq_true.1 hany
    obtain ⟨ho1, ho2⟩ := List.mem_filter.1 ho
    obtain ⟨k1, k2, k3⟩ := (oblFor_iff _ _ _ _).1 ho2
    exact ⟨o, ⟨ho1, by simpa using hod⟩, by simp [ident, k1, k2, k3]⟩
  · rintro ⟨o, ⟨ho, hod⟩, rfl⟩
    obtain ⟨w, hw, hwo⟩ := h.cover o ho
    obtain ⟨k1, k2, k3⟩ := (oblFor_iff _ _ _ _).1 hwo
    refine ⟨w, ⟨hw, ?_⟩, by simp [ident, k1, k2, k3]⟩
    rw [h.emitted w hw]
    cases hq : (obl.filter (oblFor w.key w.s w.e)).all (·.done) with
    | false => rfl
    | true =>
      have := List.all_eq_true.mp hq o (List.mem_filter.mpr ⟨ho, hwo⟩)
      rw [hod] at this; cases this

theorem awCheck_ok (cfg : Cfg) (hk : cfg.kind ≠ 2) (s : St) (j : JSt) (h : R s j) :
    ∀ c ∈ awCheck cfg j s.stats, c.1 = true := by
  have hk2 : (cfg.kind == 2) = false := by simp [hk]
  intro c hc
  simp only [awCheck, List.mem_cons, List.not_mem_nil, or_false] at hc
  subst hc
  simp only [activeExp, hk2, Bool.false_eq_true, if_false, St.stats, beq_iff_eq]
  exact aw_fixed s.wins j.obl h.2.2.2.2.2.2.2.2.2

theorem firstFail_append (a b : List (Bool × String)) (ha : firstFail a = none) (hb : firstFail b = none) :
    firstFail (a ++ b) = none := by
  induction a with
  | nil => simpa using hb
  | cons x a ih =>
    obtain ⟨ok, sig⟩ := x
    simp only [firstFail, List.cons_append] at ha ⊢
    split
    · next hok => rw [if_pos hok] at ha; exact ih ha
    · next hok => rw [if_neg hok] at ha; cases ha

/-- the extra clause for tumbling / sliding windows, given the relation after the step -/
theorem extra_ok (cfg : Cfg) (hk : cfg.kind ≠ 2) (s : St) (j : JSt) (ln : Line) (h : R s j)
    (hR : R (step cfg s ln).1 (after cfg j ln (step cfg s ln).2)) :
    firstFail (extraChecks cfg j ln (step cfg s ln).2) = none := by
  have hk2 : (cfg.kind == 2) = false := by simp [hk]
  obtain ⟨t, act⟩ := ln
  apply firstFail_none
  cases act with
  | proc r =>
    intro c hc
    simp only [step, extraChecks] at hc
    exact awCheck_ok cfg hk _ _ hR c hc
  | wmA ext w =>
    intro c hc
    simp only [step, extraChecks] at hc
    exact awCheck_ok cfg hk _ _ hR c hc
  | wmB =>
    intro c hc
    simp only [step, extraChecks, hk2, Bool.false_eq_true, if_false, List.nil_append] at hc
    exact awCheck_ok cfg hk _ _ hR c hc
  | lateRecv id =>
    intro c hc
    simp only [extraChecks] at hc
    simp at hc
  | fin =>
    intro c hc
    simp only [step, extraChecks] at hc
    exact awCheck_ok cfg hk _ _ h c hc

theorem judge_safety_run (cfg : Cfg) (hk : cfg.kind ≠ 2) (hs : cfg.kind = 0 ∨ 0 < cfg.slide) :
    ∀ (sched : List Line) (s : St) (j : JSt), R s j → legit cfg s sched = true →
      judgeSafety cfg j (sched.zip (run cfg s sched)) = none := by
  intro sched
  induction sched with
  | nil => intro s j _ _; rfl
  | cons ln rest ih =>
    intro s j h hl
    simp only [legit, Bool.and_eq_true] at hl
    obtain ⟨hok, hR⟩ := step_ok cfg hk hs s j ln h hl.1
    have hex := extra_ok cfg hk s j ln h hR
    simp only [run, List.zip_cons_cons, judgeSafety, judgeWith, firstFail_append _ _ hok hex]
    exact ih _ _ hR hl.2

/-! ### session windows against the core clauses -/

/-- model state ↔ judge bookkeeping, without the windows -/
def R0 (s : St) (j : JSt) : Prop :=
  s.wm = j.wm ∧ s.fly = j.fly ∧ s.ep = j.ep ∧ s.we = j.we ∧ s.le = j.le ∧ s.ld = j.ld ∧ s.lu = j.lu ∧
  s.ls = j.ls ∧ j.le = j.ld + j.lu + j.ls

theorem R0_init : R0 {} {} := ⟨rfl, rfl, rfl, rfl, rfl, rfl, rfl, rfl, rfl⟩

theorem statChecks_ok0 (s : St) (j : JSt) (h : R0 s j) : ∀ c ∈ statChecks j s.stats, c.1 = true := by
  obtain ⟨hwm, _, hep, hwe, hle, hld, hlu, hls, hsum⟩ := h
  intro c hc
  simp only [statChecks, List.mem_cons, List.not_mem_nil, or_false] at hc
  rcases hc with hc | hc | hc
  · subst hc; simp [countersOk, St.stats, hep, hwe, hle, hld, hlu, hls]
  · subst hc; simp [St.stats, hle, hld, hlu, hls]; exact hsum
  · subst hc; simp [St.stats, hwm]

theorem stepProc_ok0 (cfg : Cfg) (t : Nat) (r : Rec) (s : St) (j : JSt) (h : R0 s j) :
    (stepProc cfg t r s).2 = expStatus cfg j r ∧ R0 (stepProc cfg t r s).1 (afterProc cfg t j r) := by
  obtain ⟨hwm, hfly, hep, hwe, hle, hld, hlu, hls, hsum⟩ := h
  by_cases hl : r.et + cfg.late < j.wm
  · by_cases hp0 : cfg.policy = 0
    · refine ⟨by simp [stepProc, isLate, hwm, hl, hp0, expStatus, lateExp], ?_⟩
      simp [R0, stepProc, isLate, hwm, hl, hp0, afterProc, expStatus, lateExp, accepted, hfly, hep, hwe, hle,
        hld, hlu, hls]
      omega
    · by_cases hp1 : cfg.policy = 1
      · refine ⟨by simp [stepProc, isLate, hwm, hl, hp1, expStatus, lateExp], ?_⟩
        simp [R0, stepProc, isLate, hwm, hl, hp1, afterProc, expStatus, lateExp, accepted, hfly, hep, hwe, hle,
          hld, hlu, hls]
        omega
      · have hp2 : 2 ≤ cfg.policy := by omega
        have hmin : min cfg.policy 2 = 2 := by omega
        refine ⟨by simp [stepProc, isLate, hwm, hl, hp0, hp1, expStatus, lateExp, hmin], ?_⟩
        simp [R0, stepProc, isLate, hwm, hl, hp0, hp1, afterProc, expStatus, lateExp, accepted, hfly, hep, hwe,
          hle, hld, hlu, hls, hmin, hp2]
        omega
  · refine ⟨by simp [stepProc, isLate, hwm, hl, expStatus, lateExp], ?_⟩
    simp [R0, stepProc, isLate, hwm, hl, afterProc, expStatus, lateExp, accepted, hfly, hep, hwe, hle, hld, hlu,
      hls]
    exact hsum

theorem stepWmA_ok0 (t : Nat) (ext : Bool) (w : Nat) (s : St) (j : JSt) (h : R0 s j) :
    R0 (stepWmA t ext w s).1 { j with wm := max j.wm w } := by
  obtain ⟨hwm, hfly, hep, hwe, hle, hld, hlu, hls, hsum⟩ := h
  unfold stepWmA
  cases ext with
  | true => exact ⟨by simp [hwm], hfly, hep, hwe, hle, hld, hlu, hls, hsum⟩
  | false =>
    by_cases hc : s.wq.contains (t, w) = true
    · simp only [Bool.false_eq_true, if_false, hc, if_true]
      exact ⟨by simp [hwm], hfly, hep, hwe, hle, hld, hlu, hls, hsum⟩
    · simp only [Bool.false_eq_true, if_false, hc]
      exact ⟨by simp [hwm], hfly, hep, hwe, hle, hld, hlu, hls, hsum⟩

/-- one action of the session model against the core clauses -/
theorem step_ok_sess (cfg : Cfg) (hk : cfg.kind = 2) (s : St) (j : JSt) (ln : Line) (h : R0 s j)
    (hl : legitLine s ln = true) :
    firstFail (coreChecks cfg j ln (step cfg s ln).2) = none ∧
    R0 (step cfg s ln).1 (after cfg j ln (step cfg s ln).2) := by
  have hk2 : (cfg.kind == 2) = true := by simp [hk]
  obtain ⟨t, act⟩ := ln
  cases act with
  | proc r =>
    obtain ⟨hst, hR⟩ := stepProc_ok0 cfg t r s j h
    refine ⟨?_, by simpa [step, after] using hR⟩
    apply firstFail_none
    intro c hc
    simp only [step, coreChecks, after, List.mem_cons] at hc
    rcases hc with hc | hc
    · subst hc; simp [hst]
    · exact statChecks_ok0 _ _ hR c hc
  | wmA ext w =>
    have hR := stepWmA_ok0 t ext w s j h
    refine ⟨?_, by simpa [step, after] using hR⟩
    apply firstFail_none
    intro c hc
    simp only [step, coreChecks, after] at hc
    exact statChecks_ok0 _ _ hR c hc
  | wmB =>
    obtain ⟨hwm, hfly, hep, hwe, hle, hld, hlu, hls, hsum⟩ := h
    have hR : R0 (stepWmB cfg t s).1 (afterFire cfg t j (stepWmB cfg t s).2) := by
      simp only [R0, stepWmB, afterFire]
      exact ⟨hwm, hfly, hep, by simp [hwe], hle, hld, hlu, hls, hsum⟩
    refine ⟨?_, by simpa [step, after] using hR⟩
    apply firstFail_none
    intro c hc
    simp only [step, coreChecks, after, hk2, if_true, List.mem_append, List.mem_cons, List.not_mem_nil, or_false] at hc
    rcases hc with hc | hc
    · subst hc; simp
    · exact statChecks_ok0 _ _ hR c hc
  | lateRecv id =>
    obtain ⟨hwm, hfly, hep, hwe, hle, hld, hlu, hls, hsum⟩ := h
    simp only [legitLine] at hl
    cases hf : s.fly.find? (fun r => r.id == id) with
    | none => rw [hf] at hl; exact absurd hl (by decide)
    | some r =>
      have hmem := List.mem_of_find?_eq_some hf
      have hid : (r.id == id) = true := by simpa using List.find?_some hf
      refine ⟨?_, ?_⟩
      · apply firstFail_none
        intro c hc
        simp only [step, stepLate, hf, coreChecks, List.mem_cons, List.not_mem_nil, or_false] at hc
        subst hc
        simp only [Bool.true_and, List.any_eq_true]
        exact ⟨r, hfly ▸ hmem, by simp [hid]⟩
      · simp only [step, stepLate, hf, after]
        exact ⟨hwm, by simp [hfly], hep, hwe, hle, hld, hlu, hls, hsum⟩
  | fin =>
    simp only [legitLine] at hl
    refine ⟨?_, by simpa [step, after] using h⟩
    apply firstFail_none
    intro c hc
    simp only [step, coreChecks, List.mem_cons] at hc
    rcases hc with hc | hc
    · subst hc
      have hfly := h.2.1
      have : s.fly = [] := by simpa using hl
      simp [← hfly, this]
    · exact statChecks_ok0 _ _ h c hc

theorem judge_core_run_sess (cfg : Cfg) (hk : cfg.kind = 2) :
    ∀ (sched : List Line) (s : St) (j : JSt), R0 s j → legit cfg s sched = true →
      judgeCore cfg j (sched.zip (run cfg s sched)) = none := by
  intro sched
  induction sched with
  | nil => intro s j _ _; rfl
  | cons ln rest ih =>
    intro s j h hl
    simp only [legit, Bool.and_eq_true] at hl
    obtain ⟨hok, hR⟩ := step_ok_sess cfg hk s j ln h hl.1
    simp only [run, List.zip_cons_cons, judgeCore, judgeWith, hok]
    exact ih _ _ hR hl.2

end HappyModel.C19.Win
