import HappyProofs.C19.WinInv
/-!
A firing (second segment of a Watermark event) of the tumbling / sliding model against the judge:
every clause of `fixedChecks` holds and the window ↔ obligation relation is preserved.
-/
namespace HappyModel.C19.Win

theorem firstFail_none : ∀ l : List (Bool × String), (∀ c ∈ l, c.1 = true) → firstFail l = none := by
  intro l
  induction l with
  | nil => intro _; rfl
  | cons c rest ih =>
    intro h
    obtain ⟨ok, sig⟩ := c
    have h1 : ok = true := h (ok, sig) (by simp)
    subst h1
    simp only [firstFail, if_true]
    exact ih fun c hc => h c (List.mem_cons_of_mem _ hc)

theorem distinctIdents_of_nodup : ∀ ems : List Em, (ems.map emIdent).Nodup → distinctIdents ems = true := by
  intro ems
  induction ems with
  | nil => intro _; rfl
  | cons em rest ih =>
    intro h
    rw [List.map_cons, List.nodup_cons] at h
    have hno : (rest.any fun x => emIdent x == emIdent em) = false := by
      cases hq : rest.any fun x => emIdent x == emIdent em with
      | false => rfl
      | true =>
        obtain ⟨x, hx, hxe⟩ := List.any_eq_true.mp hq
        have : emIdent x = emIdent em := by simpa using hxe
        exact absurd (List.mem_map.mpr ⟨x, hx, this⟩) h.1
    simp [distinctIdents, hno, ih h.2]

theorem markDone_done (wm : Nat) (o : Obl) : (markDone wm o).done = (o.done || decide (o.e ≤ wm)) := by
  unfold markDone
  by_cases h : o.e ≤ wm <;> simp [h]

theorem oblFor_markDone (k s e wm : Nat) (o : Obl) : oblFor k s e (markDone wm o) = oblFor k s e o := by
  unfold markDone
  by_cases h : o.e ≤ wm <;> simp [h, oblFor]

theorem pair_markDone (wm : Nat) (o : Obl) : pairOfObl (markDone wm o) = pairOfObl o := by
  unfold markDone
  by_cases h : o.e ≤ wm <;> simp [h, pairOfObl]

theorem filter_markDone (wm k s e : Nat) (obl : List Obl) :
    (obl.map (markDone wm)).filter (oblFor k s e) = (obl.filter (oblFor k s e)).map (markDone wm) := by
  rw [List.filter_map]
  have : (oblFor k s e ∘ markDone wm) = oblFor k s e := by
    funext o; exact oblFor_markDone k s e wm o
  rw [this]

theorem all_markDone (e wm : Nat) : ∀ l : List Obl, (∀ o ∈ l, o.e = e) →
    l.all (fun o => (markDone wm o).done) = (decide (e ≤ wm) || l.all (·.done)) := by
  intro l
  induction l with
  | nil => intro _; simp
  | cons a rest ih =>
    intro h
    have ha : a.e = e := h a (by simp)
    have ih' := ih fun o ho => h o (List.mem_cons_of_mem _ ho)
    rw [List.all_cons, List.all_cons, ih', markDone_done, ha]
    generalize decide (e ≤ wm) = d
    generalize a.done = ad
    generalize (rest.all fun x => x.done) = ra
    cases d <;> cases ad <;> cases ra <;> rfl

theorem ident_markEmitted (wm : Nat) (w : Win) : ident (markEmitted wm w) = ident w := by
  unfold markEmitted
  cases closable wm w <;> simp [ident]

theorem markEmitted_fields (wm : Nat) (w : Win) :
    (markEmitted wm w).key = w.key ∧ (markEmitted wm w).s = w.s ∧ (markEmitted wm w).e = w.e ∧
    (markEmitted wm w).recs = w.recs ∧ (markEmitted wm w).emitted = (decide (w.e ≤ wm) || w.emitted) := by
  obtain ⟨k, s, e, recs, em⟩ := w
  unfold markEmitted closable
  cases em <;> by_cases h : e ≤ wm <;> simp [h]

theorem filter_e (k s e : Nat) (obl : List Obl) : ∀ o ∈ obl.filter (oblFor k s e), o.e = e := by
  intro o ho
  exact ((oblFor_iff _ _ _ _).mp (List.mem_filter.mp ho).2).2.2

/-- the relation survives a firing: windows marked emitted ↔ obligations marked done -/
theorem fire_rel (wm : Nat) (wins : List Win) (obl : List Obl) (h : WinRel wins obl) :
    WinRel (wins.map (markEmitted wm)) (obl.map (markDone wm)) := by
  refine ⟨?_, ?_, ?_, ?_⟩
  · intro w' hw'
    obtain ⟨w, hw, rfl⟩ := List.mem_map.mp hw'
    obtain ⟨f1, f2, f3, f4, _⟩ := markEmitted_fields wm w
    rw [f1, f2, f3, f4, filter_markDone, List.map_map]
    have : (pairOfObl ∘ markDone wm) = pairOfObl := by funext o; exact pair_markDone wm o
    rw [this]; exact h.recs w hw
  · intro w' hw'
    obtain ⟨w, hw, rfl⟩ := List.mem_map.mp hw'
    obtain ⟨f1, f2, f3, _, f5⟩ := markEmitted_fields wm w
    rw [f1, f2, f3, f5, filter_markDone, List.all_map]
    have := all_markDone w.e wm (obl.filter (oblFor w.key w.s w.e)) (filter_e _ _ _ _)
    simp only [Function.comp_def]
    rw [this, h.emitted w hw]
  · intro o' ho'
    obtain ⟨o, ho, rfl⟩ := List.mem_map.mp ho'
    obtain ⟨w, hw, hwo⟩ := h.cover o ho
    obtain ⟨f1, f2, f3, _, _⟩ := markEmitted_fields wm w
    exact ⟨markEmitted wm w, List.mem_map.mpr ⟨w, hw, rfl⟩, by rw [f1, f2, f3, oblFor_markDone]; exact hwo⟩
  · rw [List.map_map]
    have : (ident ∘ markEmitted wm) = ident := by funext w; exact ident_markEmitted wm w
    rw [this]; exact h.nodup

theorem all_false_any (l : List Obl) (h : l.all (·.done) = false) : l.any (fun o => !o.done) = true := by
  induction l with
  | nil => simp at h
  | cons a rest ih =>
    simp only [List.all_cons, Bool.and_eq_false_iff] at h
    simp only [List.any_cons, Bool.or_eq_true]
    cases h with
    | inl h => left; simp [h]
    | inr h => right; exact ih h

theorem map_fst_pair_rec (l : List Rec) : (l.map pairOfRec).map Prod.fst = l.map (·.id) := by
  simp [List.map_map, Function.comp_def, pairOfRec]

theorem map_snd_pair_rec (l : List Rec) : (l.map pairOfRec).map Prod.snd = l.map (·.val) := by
  simp [List.map_map, Function.comp_def, pairOfRec]

theorem map_fst_pair_obl (l : List Obl) : (l.map pairOfObl).map Prod.fst = l.map (·.id) := by
  simp [List.map_map, Function.comp_def, pairOfObl]

theorem map_snd_pair_obl (l : List Obl) : (l.map pairOfObl).map Prod.snd = l.map (·.val) := by
  simp [List.map_map, Function.comp_def, pairOfObl]

/-- the results of a firing of the model pass every clause of the judge -/
theorem fire_checks (j : JSt) (wins : List Win) (h : WinRel wins j.obl) :
    ∀ c ∈ fixedChecks j ((wins.filter (closable j.wm)).map toEm).length ((wins.filter (closable j.wm)).map toEm),
      c.1 = true := by
  intro c hc
  simp only [fixedChecks, List.mem_append, List.mem_cons, List.mem_flatMap, List.not_mem_nil, or_false] at hc
  rcases hc with ((hc | hc) | ⟨em, hem, hc⟩) | hc
  · subst hc; simp
  · subst hc
    apply distinctIdents_of_nodup
    rw [List.map_map]
    have : (emIdent ∘ toEm) = ident := by funext w; rfl
    rw [this]
    exact List.Nodup.sublist (List.Sublist.map _ List.filter_sublist) h.nodup
  · obtain ⟨w, hwf, rfl⟩ := List.mem_map.mp hem
    obtain ⟨hw, hcl⟩ := List.mem_filter.mp hwf
    have hcl' : w.emitted = false ∧ w.e ≤ j.wm := by
      simpa [closable] using hcl
    have hrec := h.recs w hw
    have hids : w.recs.map (·.id) = (j.obl.filter (oblFor w.key w.s w.e)).map (·.id) := by
      rw [← map_fst_pair_rec, hrec, map_fst_pair_obl]
    have hvals : w.recs.map (·.val) = (j.obl.filter (oblFor w.key w.s w.e)).map (·.val) := by
      rw [← map_snd_pair_rec, hrec, map_snd_pair_obl]
    have hlen : w.recs.length = (j.obl.filter (oblFor w.key w.s w.e)).length := by
      have := congrArg List.length hrec
      simpa using this
    have hany : (j.obl.filter (oblFor w.key w.s w.e)).any (fun o => !o.done) = true :=
      all_false_any _ (by rw [← h.emitted w hw]; exact hcl'.1)
    simp only [emOk, toEm, List.mem_cons, List.not_mem_nil, or_false] at hc
    rcases hc with hc | hc | hc | hc
    · subst hc; simp [hcl'.2]
    · subst hc; simp [hids]
    · subst hc; exact hany
    · subst hc; simp [hlen, sumVals, hvals]
  · subst hc
    simp only [closureOk, List.all_eq_true, Bool.or_eq_true, decide_eq_true_eq, List.any_eq_true]
    intro o ho
    by_cases hd : o.done = true
    · exact Or.inl (Or.inl hd)
    · by_cases hlt : j.wm < o.e
      · exact Or.inl (Or.inr hlt)
      · right
        obtain ⟨w, hw, hwo⟩ := h.cover o ho
        have hoe : o.e = w.e := ((oblFor_iff _ _ _ _).mp hwo).2.2
        have hem : w.emitted = false := by
          rw [h.emitted w hw]
          cases hq : (j.obl.filter (oblFor w.key w.s w.e)).all (·.done) with
          | false => rfl
          | true =>
            have := List.all_eq_true.mp hq o (List.mem_filter.mpr ⟨ho, hwo⟩)
            exact absurd this hd
        refine ⟨toEm w, List.mem_map.mpr ⟨w, List.mem_filter.mpr ⟨hw, ?_⟩, rfl⟩, hwo⟩
        simp [closable, hem]; omega

end HappyModel.C19.Win
