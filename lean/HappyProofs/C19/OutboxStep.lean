import HappyProofs.C19.OutboxLemmas
/-!
Every segment of the repaired OutboxRelay model keeps the coupled invariant, and the Spec judge
accepts what the segment shows (`step_inv`); hence the judge accepts every run (`judgeFrom_run`).
-/
namespace HappyModel.C19.Outbox
open List

theorem pending_of_core {s : St} {j : JSt} (c : Core s j) :
    pendingFrom 1 s.flags = range' (s.relayedCnt + 1) (s.written - s.relayedCnt) := by
  have := pendingFrom_prefix 1 s.relayedCnt (s.written - s.relayedCnt)
  rw [← c.flags, Nat.add_comm 1 s.relayedCnt] at this
  exact this

theorem pollStart_inv {cfg : Cfg} {t p : Nat} {s : St} {j : JSt} (hl : cfg.legacy = false)
    (h : Inv cfg.batch s j) :
    ∃ j', jevs cfg.batch t j (pollStart cfg t s p).2 = .ok j' ∧
      Inv cfg.batch (pollStart cfg t s p).1 j' := by
  unfold pollStart
  simp only [hl, Bool.false_eq_true, if_false]
  cases h with
  | busy p0 r b q =>
    simp only [b.running, if_true]
    have c := b.core
    have e1 : jev cfg.batch t j .start = .ok { j with opn := j.opn + 1 } := by simp [jev, b.opn]
    have e2 : jev cfg.batch t { j with opn := j.opn + 1 } .done = .ok { j with opn := 1 } := by
      simp [jev, b.opn]
    refine ⟨{ j with opn := 1 }, ?_, ?_⟩
    · simp only [jevs, e1, e2]; rfl
    · exact Inv.busy p0 r ⟨⟨c.flags, c.le, c.jw, c.sent, c.hi, c.fl, c.clean⟩, b.running, rfl, b.bound,
        b.drain⟩ q
  | idle c r q o =>
    simp only [r, Bool.false_eq_true, if_false]
    obtain ⟨r', hr', hle, hlt⟩ := take_range'_min cfg.batch (s.relayedCnt + 1) (s.written - s.relayedCnt)
    have hpe : (pendingFrom 1 s.flags).take cfg.batch = range' (s.relayedCnt + 1) r' := by
      rw [pending_of_core c]; exact hr'
    have e1 : jev cfg.batch t j .start = .ok { j with opn := 1, busyEmits := 0, dirty := false } := by
      simp [jev, o]
    have hle' := c.le
    have hb : Busy cfg.batch { s with running := true, cycles := s.cycles + 1 }
        { j with opn := 1, busyEmits := 0, dirty := false } r' :=
      ⟨⟨c.flags, c.le, c.jw, c.sent, c.hi, c.fl, c.clean⟩, rfl, rfl,
        by show s.relayedCnt + r' ≤ s.written; omega,
        by intro _ h2
           have : r' < cfg.batch := by simp only at h2; omega
           have := hlt this
           show s.relayedCnt + r' = s.written; omega⟩
    obtain ⟨j2, hj2, hinv⟩ := advance_busy (t := t) (p := p) hl hb q
    refine ⟨j2, ?_, ?_⟩
    · simp only [jevs, e1, hpe]; exact hj2
    · simp only [hpe]; exact hinv

theorem resume_inv {cfg : Cfg} {t p : Nat} {s : St} {j : JSt} (hl : cfg.legacy = false)
    (h : Inv cfg.batch s j) :
    ∃ j', jevs cfg.batch t j (step cfg s ⟨t, .resume p⟩).2 = .ok j' ∧
      Inv cfg.batch (step cfg s ⟨t, .resume p⟩).1 j' := by
  simp only [step]
  cases h with
  | idle c r q o =>
    rw [q]; simp only [takePoll]
    exact ⟨j, rfl, Inv.idle c r q o⟩
  | busy p0 r b q =>
    rw [q]
    by_cases hp : p0 = p
    · simp only [takePoll, hp, if_true]
      have c := b.core
      have hb : Busy cfg.batch { s with polls := [] } j r :=
        ⟨⟨c.flags, c.le, c.jw, c.sent, c.hi, c.fl, c.clean⟩, b.running, b.opn, b.bound, b.drain⟩
      exact advance_busy (t := t) (p := p) hl hb rfl
    · simp only [takePoll, hp, if_false]
      exact ⟨j, rfl, Inv.busy p0 r b q⟩

theorem write_inv {cfg : Cfg} {t : Nat} {s : St} {j : JSt} (h : Inv cfg.batch s j) :
    ∃ j', jevs cfg.batch t j (step cfg s ⟨t, .write⟩).2 = .ok j' ∧
      Inv cfg.batch (step cfg s ⟨t, .write⟩).1 j' := by
  simp only [step]
  have c := h.core
  have hle := c.le
  have hlen : s.flags.length = s.written := by
    rw [c.flags, length_append, length_replicate, length_replicate]; omega
  have e1 : jev cfg.batch t j (.wrote (s.flags.length + 1))
      = .ok { j with writes := j.writes + 1, dirty := true, clean := false } := by
    simp [jev, hlen, c.jw]
  have hfl : s.flags ++ [false]
      = replicate s.relayedCnt true ++ replicate (s.written + 1 - s.relayedCnt) false := by
    have : s.written + 1 - s.relayedCnt = (s.written - s.relayedCnt) + 1 := by omega
    rw [this, replicate_succ', ← append_assoc, ← c.flags]
  have hc : Core { s with flags := s.flags ++ [false], written := s.written + 1 }
      { j with writes := j.writes + 1, dirty := true, clean := false } :=
    ⟨hfl, by show s.relayedCnt ≤ s.written + 1; omega, by show j.writes + 1 = s.written + 1; rw [c.jw],
      c.sent, c.hi, c.fl, by intro hh; cases hh⟩
  refine ⟨{ j with writes := j.writes + 1, dirty := true, clean := false }, by simp only [jevs, e1], ?_⟩
  cases h with
  | idle _ r q o => exact Inv.idle hc r q o
  | busy p0 r b q =>
    exact Inv.busy p0 r ⟨hc, b.running, b.opn, by have := b.bound; show s.relayedCnt + r ≤ s.written + 1; omega,
      by intro hd; cases hd⟩ q

theorem recv_inv {cfg : Cfg} {t : Nat} {s : St} {j : JSt} (h : Inv cfg.batch s j) :
    ∃ j', jevs cfg.batch t j (step cfg s ⟨t, .recv⟩).2 = .ok j' ∧
      Inv cfg.batch (step cfg s ⟨t, .recv⟩).1 j' := by
  simp only [step]
  have c := h.core
  cases hf : s.flight with
  | nil => exact ⟨j, rfl, h⟩
  | cons x rest =>
    obtain ⟨k, st⟩ := x
    by_cases hst : st = t
    · simp only [hst, if_true]
      have hjf : j.flight = (k, t) :: rest := by rw [c.fl, hf, hst]
      have e1 : jev cfg.batch t j (.got k t) = .ok { j with flight := rest } := by
        simp [jev, hjf, eraseFirst]
      have hc : Core { s with flight := rest } { j with flight := rest } :=
        ⟨c.flags, c.le, c.jw, c.sent, c.hi, rfl, c.clean⟩
      refine ⟨{ j with flight := rest }, by simp only [jevs, e1], ?_⟩
      cases h with
      | idle _ r q o => exact Inv.idle hc r q o
      | busy p0 r b q => exact Inv.busy p0 r ⟨hc, b.running, b.opn, b.bound, b.drain⟩ q
    · simp only [hst, if_false]
      exact ⟨j, rfl, h⟩

theorem fin_ok {batch t : Nat} {s : St} {j : JSt} (c : Core s j) : jev batch t j .fin = .ok j := by
  simp only [jev]
  split
  · rename_i hq
    have hcl : j.clean = true := by
      simp only [Bool.and_eq_true] at hq; exact hq.1.1
    have hall : ((range' 1 j.writes).all fun k => decide (k ∈ j.sent)) = true := by
      rw [all_eq_true]
      intro k hk
      rw [c.sent, c.clean hcl, ← c.jw]
      exact decide_eq_true hk
    simp only [hall, if_true]
  · rfl

theorem step_inv {cfg : Cfg} (hl : cfg.legacy = false) {s : St} {j : JSt} (g : Seg)
    (h : Inv cfg.batch s j) :
    ∃ j', jevs cfg.batch g.t j (step cfg s g).2 = .ok j' ∧ Inv cfg.batch (step cfg s g).1 j' := by
  obtain ⟨t, a⟩ := g
  cases a with
  | write => exact write_inv h
  | prime =>
    simp only [step]
    exact ⟨j, rfl, h.frame rfl rfl rfl rfl rfl rfl⟩
  | nudge =>
    simp only [step]
    split
    · exact ⟨j, rfl, h⟩
    · exact ⟨j, rfl, h.frame rfl rfl rfl rfl rfl rfl⟩
  | poll p => simp only [step]; exact pollStart_inv hl h
  | resume p => exact resume_inv hl h
  | recv => exact recv_inv h
  | fin =>
    simp only [step]
    exact ⟨j, by simp only [jevs, fin_ok h.core], h⟩

theorem init_inv (batch : Nat) : Inv batch {} {} :=
  Inv.idle ⟨rfl, Nat.le_refl _, rfl, rfl, rfl, rfl, fun h => by cases h⟩ rfl rfl rfl

/-- the judge accepts the model's transcript of every schedule; the final states are coupled -/
theorem judgeFrom_run {cfg : Cfg} (hl : cfg.legacy = false) (segs : List Seg) :
    ∀ (s : St) (j : JSt), Inv cfg.batch s j →
      ∃ jf, judgeFrom cfg.batch j (run cfg s segs) = .ok jf ∧ Inv cfg.batch (runSt cfg s segs) jf := by
  induction segs with
  | nil => intro s j h; exact ⟨j, rfl, h⟩
  | cons g gs ih =>
    intro s j h
    obtain ⟨j1, hj1, h1⟩ := step_inv hl g h
    obtain ⟨jf, hjf, hf⟩ := ih _ _ h1
    refine ⟨jf, ?_, hf⟩
    simp only [run, judgeFrom, hj1, checkCtr_of_core h1.core, if_true]
    exact hjf

/-- the judge's `sent` list is the list of relay events of the transcript it has read -/
theorem jev_sent {batch t : Nat} {j j' : JSt} {e : Ev} (h : jev batch t j e = .ok j') :
    j'.sent = j.sent ++ evEmits [e] := by
  cases e <;> simp only [jev] at h <;> (try split at h) <;> (try split at h) <;> (try split at h)
    <;> (try split at h) <;> (try split at h) <;> (cases h <;> simp [evEmits])

end HappyModel.C19.Outbox
