import HappyProofs.C19.IdemInv
/-!
C19 / idem — every step of the model preserves the invariant (one lemma per branch of the code).
-/
namespace HappyModel.C19.Idem

variable {cfg : Cfg} {s : St} {h : List Obs} {lo : Nat}

/-- unfold what the history says after one more line -/
macro "hist_simp" : tactic =>
  `(tactic| simp [live, flying, awaiting, working, finished, pendingCl, lastSweep, nReq, nSup, nMiss, nStored,
      nKeyless, List.countP_cons, isReq, isSup, isMiss, isStore, isKeyless])

/-- a key-less request: forwarded, nothing else changes (repaired code: no cleanup is started) -/
theorem req_none_inv (hl : cfg.legacy = false) (I : Inv cfg s h lo) (t rid : Nat) (ht : lo ≤ t) :
    Inv cfg (stepReq cfg s t rid none).1 (⟨t, .req rid none, (stepReq cfg s t rid none).2⟩ :: h) t := by
  have hc : cleanupAt cfg { s with total := s.total + 1 } false t = none := by
    simp [cleanupAt, wantCleanup, hl]
  simp only [stepReq, forward, Option.isSome_none, hc, Option.toList_none, List.append_nil]
  exact {
    cache := by hist_simp; exact I.cache
    infl := by hist_simp; exact I.infl
    sent := by hist_simp; exact I.sent
    work := by hist_simp; exact I.work
    fins := by hist_simp; exact I.fins
    pend := by hist_simp; exact I.pend
    total := by hist_simp; exact I.total
    hits := by hist_simp; exact I.hits
    misses := by hist_simp; exact I.misses
    stored := by hist_simp; exact I.stored
    addup := by have := I.addup; hist_simp; simp only [nKeyless] at this; omega
    size := I.size
    bound := I.bound
    idle := I.idle
    busy := I.busy
    gap := by intro x p hx hp; exact I.gap x p (by simpa [lastSweep] using hx) hp
    mono := by intro x hx; exact Nat.le_trans (I.mono x (by simpa [lastSweep] using hx)) ht
  }

/-- a request whose key is in flight or remembered: suppressed, a hit -/
theorem req_dup_inv (I : Inv cfg s h lo) (t rid : Nat) (k : Key) (ht : lo ≤ t) (hk : known s k = true) :
    Inv cfg (stepReq cfg s t rid (some k)).1 (⟨t, .req rid (some k), (stepReq cfg s t rid (some k)).2⟩ :: h) t := by
  simp only [stepReq, hk, if_true]
  exact {
    cache := by hist_simp; exact I.cache
    infl := by hist_simp; exact I.infl
    sent := by hist_simp; exact I.sent
    work := by hist_simp; exact I.work
    fins := by hist_simp; exact I.fins
    pend := by hist_simp; exact I.pend
    total := by hist_simp; exact I.total
    hits := by hist_simp; exact I.hits
    misses := by hist_simp; exact I.misses
    stored := by hist_simp; exact I.stored
    addup := by have := I.addup; hist_simp; simp only [nKeyless] at this; omega
    size := I.size
    bound := I.bound
    idle := I.idle
    busy := I.busy
    gap := by intro x p hx hp; exact I.gap x p (by simpa [lastSweep] using hx) hp
    mono := by intro x hx; exact Nat.le_trans (I.mono x (by simpa [lastSweep] using hx)) ht
  }

/-- the cleanup decision of a fresh keyed forward: a chain is started exactly when nothing was
    cached or in flight before -/
theorem fresh_cl (s : St) (cfg : Cfg) (k : Key) (t : Nat) :
    (s.cache = [] ∧ s.infl = [] ∧
      cleanupAt cfg { s with total := s.total + 1, misses := s.misses + 1, infl := s.infl ++ [k] } true t
        = some (t + cfg.interval)) ∨
    ((s.cache ≠ [] ∨ s.infl ≠ []) ∧
      cleanupAt cfg { s with total := s.total + 1, misses := s.misses + 1, infl := s.infl ++ [k] } true t = none) := by
  cases hc : s.cache with
  | cons a l => right; simp [cleanupAt, wantCleanup]
  | nil =>
    cases hf : s.infl with
    | nil => left; simp [cleanupAt, wantCleanup]
    | cons a l => right; simp [cleanupAt, wantCleanup]

/-- a request with a fresh key: forwarded, in flight, a miss -/
theorem req_fresh_inv (I : Inv cfg s h lo) (t rid : Nat) (k : Key) (ht : lo ≤ t) (hk : known s k = false) :
    Inv cfg (stepReq cfg s t rid (some k)).1 (⟨t, .req rid (some k), (stepReq cfg s t rid (some k)).2⟩ :: h) t := by
  simp only [stepReq, hk, forward, Option.isSome_some]
  rcases fresh_cl s cfg k t with ⟨hc, hf, hcl⟩ | ⟨hne, hcl⟩
  · simp only [hcl]
    have hp := I.idle hc hf
    exact {
      cache := by hist_simp; exact I.cache
      infl := by hist_simp; exact I.infl
      sent := by hist_simp; exact I.sent
      work := by hist_simp; exact I.work
      fins := by hist_simp; exact I.fins
      pend := by hist_simp; exact I.pend
      total := by hist_simp; exact I.total
      hits := by hist_simp; exact I.hits
      misses := by hist_simp; exact I.misses
      stored := by hist_simp; exact I.stored
      addup := by have := I.addup; hist_simp; simp only [nKeyless] at this; omega
      size := I.size
      bound := I.bound
      idle := by intro _ hf'; simp at hf'
      busy := by intro _; exact ⟨t + cfg.interval, by simp [hp]⟩
      gap := by
        intro x p hx hp'
        have hx' := I.mono x (by simpa [lastSweep] using hx)
        simp [hp] at hp'
        omega
      mono := by intro x hx; exact Nat.le_trans (I.mono x (by simpa [lastSweep] using hx)) ht
    }
  · simp only [hcl]
    exact {
      cache := by hist_simp; exact I.cache
      infl := by hist_simp; exact I.infl
      sent := by hist_simp; exact I.sent
      work := by hist_simp; exact I.work
      fins := by hist_simp; exact I.fins
      pend := by hist_simp; exact I.pend
      total := by hist_simp; exact I.total
      hits := by hist_simp; exact I.hits
      misses := by hist_simp; exact I.misses
      stored := by hist_simp; exact I.stored
      addup := by have := I.addup; hist_simp; simp only [nKeyless] at this; omega
      size := I.size
      bound := I.bound
      idle := by intro _ hf'; simp at hf'
      busy := by intro _; simpa using I.busy hne
      gap := by intro x p hx hp; exact I.gap x p (by simpa [lastSweep] using hx) (by simpa using hp)
      mono := by intro x hx; exact Nat.le_trans (I.mono x (by simpa [lastSweep] using hx)) ht
    }

/-- the target receives a forwarded event -/
theorem recv_inv (I : Inv cfg s h lo) (t rid : Nat) (ht : lo ≤ t) (hb : (stepRecv s t rid).2 ≠ .bad) :
    Inv cfg (stepRecv s t rid).1 (⟨t, .recv rid, (stepRecv s t rid).2⟩ :: h) t := by
  cases hf : findRid rid s.sent with
  | none => simp [stepRecv, hf] at hb
  | some e =>
    obtain ⟨r, k, st⟩ := e
    by_cases hst : st = t
    · simp only [stepRecv, hf, hst, beq_self_eq_true, if_true]
      exact {
        cache := by hist_simp; exact I.cache
        infl := by hist_simp; exact I.infl
        sent := by hist_simp; rw [I.sent]
        work := by hist_simp; exact I.work
        fins := by hist_simp; exact I.fins
        pend := by hist_simp; exact I.pend
        total := by hist_simp; exact I.total
        hits := by hist_simp; exact I.hits
        misses := by hist_simp; exact I.misses
        stored := by hist_simp; exact I.stored
        addup := by have := I.addup; hist_simp; simp only [nKeyless] at this; omega
        size := I.size
        bound := I.bound
        idle := I.idle
        busy := I.busy
        gap := by intro x p hx hp; exact I.gap x p (by simpa [lastSweep] using hx) hp
        mono := by intro x hx; exact Nat.le_trans (I.mono x (by simpa [lastSweep] using hx)) ht
      }
    · simp [stepRecv, hf, hst] at hb

/-- the target finishes an event -/
theorem done_inv (I : Inv cfg s h lo) (t rid : Nat) (ht : lo ≤ t) (hb : (stepDone s rid).2 ≠ .bad) :
    Inv cfg (stepDone s rid).1 (⟨t, .done rid, (stepDone s rid).2⟩ :: h) t := by
  cases hf : findRid rid s.work with
  | none => simp [stepDone, hf] at hb
  | some e =>
    obtain ⟨r, k⟩ := e
    simp only [stepDone, hf]
    exact {
      cache := by hist_simp; exact I.cache
      infl := by hist_simp; exact I.infl
      sent := by hist_simp; exact I.sent
      work := by hist_simp; rw [I.work]
      fins := by hist_simp; exact I.fins
      pend := by hist_simp; exact I.pend
      total := by hist_simp; exact I.total
      hits := by hist_simp; exact I.hits
      misses := by hist_simp; exact I.misses
      stored := by hist_simp; exact I.stored
      addup := by have := I.addup; hist_simp; simp only [nKeyless] at this; omega
      size := I.size
      bound := I.bound
      idle := I.idle
      busy := I.busy
      gap := by intro x p hx hp; exact I.gap x p (by simpa [lastSweep] using hx) hp
      mono := by intro x hx; exact Nat.le_trans (I.mono x (by simpa [lastSweep] using hx)) ht
    }

end HappyModel.C19.Idem
