import HappyProofs.C19.Assign
import HappyProofs.C19.MQAccount
import HappyProofs.C19.MQAck
import HappyProofs.C19.MQAckFinal
import HappyProofs.C19.MQRedeliv
import HappyProofs.C19.MQHyp
import HappyProofs.C19.MQOrder
import HappyProofs.C19.MQLimit
import HappyProofs.C19.MQReach
import HappyProofs.C19.StreamLog
import HappyProofs.C19.StreamGroup
import HappyProofs.C19.StreamRead
import HappyProofs.C19.StreamRetention
import HappyProofs.C19.TopicOnce
import HappyProofs.C19.WinProps
import HappyProofs.C19.OutboxProps
import HappyProofs.C19.IdemProps
/-!
# C19 — property theorems

"Message queue: every published message stays accounted for (pending, in flight, acknowledged or
dead-lettered) and is never lost; every delivery and every requested redelivery reaches a
subscribed consumer at the delivery instant, first deliveries follow publish order, the redelivery
limit moves a message to the dead-letter queue, and nothing is delivered again after it was
acknowledged. Topic: every published message reaches every subscriber active at publish time
exactly once. Event log and consumer group: offsets within a partition are gap-free and
increasing, a key always maps to the same partition, after every rebalance each partition belongs
to exactly one member, and committed offsets never move backwards."

Every statement below is `<Spec predicate> (<model run on an arbitrary schedule>) = none`:
the Spec predicates (`HappyModel/C19/Spec.lean`, `StreamSpec.lean`, `Assign.lean`) are the same
functions the driver uses to judge traces of the real implementation; the schedule (which generator
segment the engine ran at which instant) is universally quantified.  The proofs are in the sibling
files (`MQAccount`, `MQAck`, `MQOrder`, `MQLimit`, `MQReach`, `Assign`, `StreamLog`, `StreamGroup`,
`TopicOnce`); this file only states the property theorems.  `cfg.legacy = false` /
`cfg.legacyCommit = false` select the code after `fixes/C19-*.diff`; the `legacy_*_witness`
theorems show the clause failing for the code before the fix on a concrete schedule.
-/
namespace HappyModel.C19.Props
open HappyModel.C19

/-! ## message queue -/

/-- published = pending ⊎ in flight ⊎ acknowledged ⊎ dead-lettered after every operation sequence -/
theorem message_accounted (cfg : Cfg) (hl : cfg.legacy = false) (sched : List (Nat × Act)) :
    jAccounted (MQ.run cfg {} sched) = none :=
  HappyModel.C19.message_accounted cfg hl sched

/-- set-level form: pending and in-flight partition the live messages; dead-lettered ids are
    published, not live; live + acknowledged + dead-lettered = published -/
theorem accounted_partition (cfg : Cfg) (hl : cfg.legacy = false) (sched : List (Nat × Act)) :
    let s := MQ.exec cfg {} sched
    s.pending.Nodup ∧ s.inflight.Nodup ∧ s.live.Nodup ∧
    (∀ k, k ∈ s.live ↔ (k ∈ s.pending ∨ k ∈ s.inflight)) ∧
    (∀ k, ¬ (k ∈ s.pending ∧ k ∈ s.inflight)) ∧
    (∀ k ∈ s.live, k < s.npub) ∧ (∀ k ∈ s.dlq, k < s.npub ∧ k ∉ s.live) ∧
    s.live.length + s.nAck + s.dlq.length = s.npub :=
  HappyModel.C19.accounted_partition cfg hl sched

/-- first deliveries follow publish order (redelivery events exist only for messages that were
    delivered before: `RedelivLegit`) -/
theorem first_deliveries_in_publish_order (cfg : Cfg) (hl : cfg.legacy = false)
    (sched : List (Nat × Act)) (h : RedelivLegit cfg {} sched) :
    jOrder {} (MQ.run cfg {} sched) = none :=
  HappyModel.C19.first_deliveries_in_publish_order cfg hl sched h

/-- the same with the hypothesis reduced to the engine fact "only events that exist are delivered": a
    `message_redelivery` event reaches the queue only if `schedule_redelivery` handed one out that has not been
    delivered yet (`TimerCausal`; it implies `RedelivLegit`, a condition on model states) -/
theorem first_deliveries_in_publish_order_causal (cfg : Cfg) (hl : cfg.legacy = false)
    (sched : List (Nat × Act)) (h : TimerCausal cfg {} [] sched) :
    jOrder {} (MQ.run cfg {} sched) = none :=
  HappyModel.C19.first_deliveries_in_publish_order_causal cfg hl sched h

/-- deliveries without the quiescent-end hypothesis: on every schedule the judge's clauses about consumers, stamps
    and receipt instants hold at every step; its only possible objection is the end-of-run one, raised exactly when a
    delivery is still suspended or in the engine's heap at the cut -/
theorem delivery_safe_on_every_schedule (cfg : Cfg) (hl : cfg.legacy = false) (sched : List (Nat × Act)) :
    jReach cfg.lat {} (MQ.run cfg {} sched) =
      if (MQ.exec cfg {} sched).tix = [] then none else some "mq/delivery/never-reached-consumer" :=
  HappyModel.C19.delivery_safe_on_every_schedule cfg hl sched

/-- the redelivery limit moves a message to the dead-letter queue, nothing else does, and a
    dead-lettered message is never delivered again -/
theorem redelivery_limit_to_dlq (cfg : Cfg) (hl : cfg.legacy = false) (sched : List (Nat × Act)) :
    jLimit cfg.maxRe {} (MQ.run cfg {} sched) = none :=
  HappyModel.C19.redelivery_limit_to_dlq cfg hl sched

/-- nothing is delivered again after it was acknowledged -/
theorem no_delivery_after_ack (cfg : Cfg) (hl : cfg.legacy = false) (sched : List (Nat × Act)) :
    jAck {} (MQ.run cfg {} sched) = none :=
  HappyModel.C19.no_delivery_after_ack cfg hl sched

/-- the consumer's call is what counts: once `acknowledge(k)` was called for a published message — while
    in flight, while back in the pending queue after a visibility timeout (late ack, before the
    redelivery event fires), after a reject/requeue, or after dead-lettering — no delivery of `k` starts -/
theorem ack_is_final (cfg : Cfg) (hl : cfg.legacy = false) (sched : List (Nat × Act)) :
    jAckFinal {} (MQ.run cfg {} sched) = none :=
  HappyModel.C19.ack_is_final cfg hl sched

/-- and the message stays accounted for: acknowledging a message the queue still owes (published, never
    acknowledged, not dead-lettered) moves the acknowledged counter by exactly one, any other call by zero -/
theorem ack_of_owed_message_takes_effect (cfg : Cfg) (hl : cfg.legacy = false)
    (sched : List (Nat × Act)) :
    jAckTakes {} (MQ.run cfg {} sched) = none :=
  HappyModel.C19.ack_of_owed_message_takes_effect cfg hl sched

/-- a requested redelivery is never lost: `schedule_redelivery(k)` on a message that is in flight with no redelivery
    timer pending hands out a redelivery event or, at the limit, dead-letters (never "nothing to do": no message stuck
    in flight for ever), and a timer that fires for a message the queue owes while a consumer is subscribed starts a
    delivery — whatever subscribe / unsubscribe operations happen around the timer -/
theorem redelivery_never_stuck (cfg : Cfg) (hl : cfg.legacy = false) (sched : List (Nat × Act)) :
    jRedeliv {} (MQ.run cfg {} sched) = none :=
  HappyModel.C19.redelivery_never_stuck cfg hl sched

/-- every delivery picks a subscribed consumer, is not stamped in the past, and is received by that
    consumer exactly once at t0 + latency; at a quiescent end nothing is missing -/
theorem delivery_reaches_consumer (cfg : Cfg) (hl : cfg.legacy = false) (sched : List (Nat × Act))
    (hq : (MQ.exec cfg {} sched).tix = []) :
    jReach cfg.lat {} (MQ.run cfg {} sched) = none :=
  HappyModel.C19.delivery_reaches_consumer cfg hl sched hq

/-- the code before `fixes/C19-stale-delivery-stamp.diff` -/
theorem legacy_stale_stamp_witness :
    jReach 5 {} (MQ.run {lat := 5, maxRe := 2, legacy := true} {} [(0,.sub 0),(1,.pub),(2,.poll),(7,.fire 0)])
      = some "mq/delivery/stamped-in-the-past" :=
  HappyModel.C19.legacy_stale_stamp_witness

/-- the code before `fixes/C19-ack-leaves-ghost-in-pending.diff` -/
theorem legacy_ghost_pending_witness :
    jAccounted (MQ.run {lat := 0, maxRe := 3, legacy := true} {}
      [(0,.sub 0),(1,.pub),(2,.pub),(3,.poll),(3,.fire 0),(3,.recv 0),(4,.tmo 0),(5,.ack 0)])
      = some "mq/accounted/counters-do-not-add-up" :=
  HappyModel.C19.legacy_ghost_pending_witness

/-! ## consumer-group assignment strategies -/

/-- range, round-robin and sticky (for every sequence of memberships on one sticky object):
    every partition is in exactly one member's list -/
theorem assignment_is_partition :
    (∀ parts cons : List Nat, cons.Nodup → parts.Nodup → cons ≠ [] →
      isPartition parts cons (rangeAssign parts cons) = true) ∧
    (∀ parts cons : List Nat, cons.Nodup → parts.Nodup → cons ≠ [] →
      isPartition parts cons (rrAssign parts cons) = true) ∧
    (∀ calls : List (List Nat × List Nat), (∀ c ∈ calls, c.1.Nodup ∧ c.2.Nodup) →
      runOk calls (stickyRun [] calls) = true) :=
  ⟨range_is_partition, rr_is_partition, sticky_is_partition⟩

/-- inside the group, after every rebalance (all strategies, every join / leave order, overlapping
    rebalances) the assignment is a partition of `0 … n-1` over the current members -/
theorem rebalance_is_partition (cfg : SCfg) (sched : List (Nat × SAct)) :
    jRebalance cfg.n [] (Stream.run cfg (Stream.init cfg.n) sched) = none :=
  HappyModel.C19.rebalance_is_partition cfg sched

/-- committed offsets never move backwards -/
theorem committed_monotone (cfg : SCfg) (hc : cfg.legacyCommit = false) (sched : List (Nat × SAct)) :
    jCommit [] (Stream.run cfg (Stream.init cfg.n) sched) = none :=
  HappyModel.C19.committed_monotone cfg hc sched

/-- the code before `fixes/C19-commit-moves-backwards.diff` -/
theorem legacy_commit_witness :
    jCommit [] (Stream.run {n := 2, legacyCommit := true} (Stream.init 2)
      [(0, .joinA 0), (1, .joinB 0), (2, .commit 0 [(1, 5)]), (3, .commit 0 [(1, 3)])])
      = some "group/commit/moved-backwards" :=
  HappyModel.C19.legacy_commit_witness

/-! ## event log -/

/-- the i-th append to a partition gets offset i; reads and polls return appended records whose
    offsets increase by exactly one per partition (every retention policy; clock monotone) -/
theorem offsets_gap_free_increasing (cfg : SCfg) (hn : 0 < cfg.n) (sched : List (Nat × SAct))
    (ht : TimesMono sched) :
    jOffsets cfg.n [] (Stream.run cfg (Stream.init cfg.n) sched) = none :=
  HappyModel.C19.offsets_gap_free_increasing cfg hn sched ht

/-- a key always maps to the same partition, for every sharding hash (the hash is a parameter) -/
theorem key_partition_stable (cfg : SCfg) (sched : List (Nat × SAct)) (hh : HashFn sched) :
    jKeys [] (Stream.run cfg (Stream.init cfg.n) sched) = none :=
  HappyModel.C19.key_partition_stable cfg sched hh

/-- a read returns exactly the retained suffix: every retention sweep leaves a contiguous run of
    offsets ending at the newest record; a read of `p` from offset `o` with limit `m` returns the
    retained records with offset ≥ `o`, in increasing offset order, the first `min(m, count)` — none
    skipped, none below `o`, none expired; a poll returns that for the member's assigned partitions
    (assignment order, shared limit) from the largest offsets it committed, so a member that
    commits what it read never gets a record twice and never misses a retained one; the committed
    offset shown by `consumer_lag` is the largest committed one -/
theorem read_returns_retained_suffix (cfg : SCfg) (hn : 0 < cfg.n) (hc : cfg.legacyCommit = false)
    (sched : List (Nat × SAct)) (ht : TimesMono sched) :
    jReads cfg.n (RSt.init cfg.n) (Stream.run cfg (Stream.init cfg.n) sched) = none :=
  HappyModel.C19.read_returns_retained_suffix cfg hn hc sched ht

/-- a retention sweep keeps what its policy says: everything without a policy, the newest
    `min(n, count)` records of every partition under size retention, exactly the records younger
    than the maximum age under age retention -/
theorem retention_keeps_policy (cfg : SCfg) (hn : 0 < cfg.n) (sched : List (Nat × SAct))
    (ht : TimesMono sched) :
    jRetention cfg.n cfg.ret (PSt.init cfg.n) (Stream.run cfg (Stream.init cfg.n) sched) = none :=
  HappyModel.C19.retention_keeps_policy cfg hn sched ht

/-! ## topic -/

/-- every published message reaches every subscriber active at publish time exactly once -/
theorem topic_exactly_once_per_active_subscriber (sched : List (Nat × TAct))
    (hq1 : (Topic.exec false {} sched).inprog = []) (hq2 : (Topic.exec false {} sched).heap = []) :
    jTopic {} (Topic.run false {} sched) = none :=
  HappyModel.C19.topic_exactly_once_per_active_subscriber sched hq1 hq2

/-- the code before `fixes/C19-stale-delivery-stamp.diff` (Topic part) -/
theorem legacy_topic_witness :
    jTopic {} (Topic.run true {} [(0, .sub 0), (1, .pubA), (6, .pubEnd 0)])
      = some "topic/delivery/stamped-in-the-past" :=
  HappyModel.C19.legacy_topic_witness

/-- non-vacuity: the hypotheses hold on a concrete schedule with a delivery, an ack, a timeout at
    the limit and a dead-lettering -/
example :
    let cfg : Cfg := {lat := 5, maxRe := 1}
    let sched : List (Nat × Act) :=
      [(0,.sub 0),(1,.pub),(1,.pub),(2,.poll),(7,.fire 0),(7,.recv 0),(8,.ack 0),(9,.poll),
       (14,.fire 1),(14,.recv 1),(20,.tmo 1)]
    cfg.legacy = false ∧ RedelivLegit cfg {} sched ∧ (MQ.exec cfg {} sched).tix = [] ∧
      (MQ.exec cfg {} sched).dlq = [1] ∧ (MQ.exec cfg {} sched).nAck = 1 := by decide

/-- non-vacuity for the stream / topic hypotheses: a monotone schedule with repeated keys and a
    quiescent topic run with two subscribers -/
example :
    let sched : List (Nat × SAct) :=
      [(0, .joinA 0), (1, .append 7 3), (1, .joinB 0), (2, .append 7 3), (3, .append 4 2), (4, .read 1 0 10),
       (5, .commit 0 [(1, 2)]), (6, .poll 0 5)]
    TimesMono sched ∧ HashFn sched := by
  refine ⟨by unfold TimesMono; decide, ?_⟩
  intro t1 t2 k h1 h2 a b
  simp at a b
  omega

example :
    let sched : List (Nat × TAct) :=
      [(0, .sub 0), (0, .sub 1), (1, .pubA), (2, .unsub 1), (11, .pubEnd 0), (11, .recv 0 0), (11, .recv 0 1)]
    (Topic.exec false {} sched).inprog = [] ∧ (Topic.exec false {} sched).heap = [] := by decide

end HappyModel.C19.Props
