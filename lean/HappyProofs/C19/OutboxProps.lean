import HappyProofs.C19.OutboxStep
import HappyProofs.C19.OutboxFlow
/-!
# C19 / OutboxRelay — property theorems

"Every written entry is relayed to the downstream entity exactly once, in entry-id (write) order, by a
relay event stamped not in the past, and the counters add up."

`judge` (HappyModel/C19/Outbox.lean) is the function the driver uses to judge transcripts of the
real OutboxRelay.  The schedule — which generator segment ran when, any number of poll events,
non-poll events, `prime_poll()` calls and resumptions in any order — is universally quantified.
`cfg.legacy = false` is the tree after `fixes/C19-outbox-double-relay.diff`; for the pinned tree
the negation is proved on a concrete schedule (`legacy_outbox_double_relay_witness`).
-/
namespace HappyModel.C19.Outbox
open List

theorem jevs_sent {batch t : Nat} {evs : List Ev} {j j' : JSt} (h : jevs batch t j evs = .ok j') :
    j'.sent = j.sent ++ evEmits evs := by
  induction evs generalizing j with
  | nil => cases h; simp [evEmits]
  | cons e es ih =>
    simp only [jevs] at h
    cases he : jev batch t j e with
    | error x => rw [he] at h; cases h
    | ok j1 =>
      rw [he] at h
      have h1 := jev_sent he
      have h2 := ih h
      rw [h2, h1, append_assoc]
      congr 1
      cases e <;> simp [evEmits]

theorem judgeFrom_sent {batch : Nat} {ls : List Line} {j jf : JSt}
    (h : judgeFrom batch j ls = .ok jf) : jf.sent = j.sent ++ emitIds ls := by
  induction ls generalizing j with
  | nil => cases h; simp [emitIds]
  | cons l ls ih =>
    simp only [judgeFrom] at h
    cases he : jevs batch l.t j l.evs with
    | error x => rw [he] at h; cases h
    | ok j1 =>
      rw [he] at h
      simp only at h
      by_cases hc : checkCtr j1 l.ctr = true
      · rw [if_pos hc] at h
        rw [ih h, jevs_sent he, emitIds, append_assoc]
      · rw [if_neg hc] at h; cases h

/-- **Exactly once, in order** (repaired tree).  For every schedule the Spec judge accepts the model's
transcript — no entry relayed twice, none out of order, none unwritten, no relay event stamped in
the past or received off its stamp, counters add up after every segment, nothing missing at a
quiescent end — and the relay events of the run are exactly the entries `1, 2, …, n` in this order
(`n` = entries_relayed): each written entry has at most one relay event and they follow write order. -/
theorem outbox_relays_each_entry_once_in_order (cfg : Cfg) (hl : cfg.legacy = false) (segs : List Seg) :
    judge cfg.batch (run cfg {} segs) = none ∧
    emitIds (run cfg {} segs) = range' 1 (runSt cfg {} segs).relayedCnt ∧
    (runSt cfg {} segs).relayedCnt ≤ (runSt cfg {} segs).written := by
  obtain ⟨jf, hj, hinv⟩ := judgeFrom_run hl segs {} {} (init_inv cfg.batch)
  have hs := judgeFrom_sent hj
  refine ⟨by simp only [judge, hj], ?_, hinv.core.le⟩
  rw [← hinv.core.sent, hs]; rfl

/-- the relayed entries are always a prefix of the written ones, and the public counters add up:
entries_written = total_entries = entries_relayed + pending_count -/
theorem outbox_relayed_prefix (cfg : Cfg) (hl : cfg.legacy = false) (segs : List Seg) :
    let s := runSt cfg {} segs
    s.flags = replicate s.relayedCnt true ++ replicate (s.written - s.relayedCnt) false ∧
    s.flags.length = s.written ∧ s.written = s.relayedCnt + (pendingFrom 1 s.flags).length := by
  obtain ⟨jf, _, hinv⟩ := judgeFrom_run hl segs {} {} (init_inv cfg.batch)
  have c := hinv.core
  have hle := c.le
  refine ⟨c.flags, ?_, ?_⟩
  · rw [c.flags, length_append, length_replicate, length_replicate]; omega
  · rw [pending_of_core c, length_range']; omega

/-- **Exactly once at a quiescent end** (repaired tree).  If the judge has seen a draining poll cycle
after the last write (`clean`: it started with no other cycle in flight, fewer than `batch_size`
relay events were sent until no cycle was in flight any more, no write since), every written entry
has exactly one relay event, in write order; and once the engine has delivered everything
(`flight = []`) the downstream has received exactly the entries `1 … entries_written`, in order. -/
theorem outbox_quiescent_all_relayed (cfg : Cfg) (hl : cfg.legacy = false) (segs : List Seg) (jf : JSt)
    (hj : judgeFrom cfg.batch {} (run cfg {} segs) = .ok jf) (hq : jf.clean = true) :
    emitIds (run cfg {} segs) = range' 1 (runSt cfg {} segs).written ∧
    (runSt cfg {} segs).flags = replicate (runSt cfg {} segs).written true ∧
    ((runSt cfg {} segs).flight = [] → gotIds (run cfg {} segs) = range' 1 (runSt cfg {} segs).written) := by
  obtain ⟨jf', hj', hinv⟩ := judgeFrom_run hl segs {} {} (init_inv cfg.batch)
  rw [hj] at hj'; cases hj'
  have c := hinv.core
  have hn := c.clean hq
  have he : emitIds (run cfg {} segs) = range' 1 (runSt cfg {} segs).written := by
    have hs := judgeFrom_sent hj
    rw [← hn, ← c.sent, hs]; rfl
  refine ⟨he, ?_, ?_⟩
  · have := c.flags
    rw [hn, Nat.sub_self] at this
    simpa using this
  · intro hf
    have := run_flow cfg segs {}
    rw [hf] at this
    simpa [he, ids] using this

/-- the pinned tree (before `fixes/C19-outbox-double-relay.diff`): three entries, batch 3, relay latency
2; a non-poll event at t = 3, while the first cycle is in its yields, starts a second poll chain
whose cycle (t = 5) relays entry 3, which the first cycle relays again at t = 6 -/
theorem legacy_outbox_double_relay_witness :
    judge 3 (run ⟨3, 2, 2, true⟩ {}
      [⟨0, .write⟩, ⟨0, .write⟩, ⟨0, .write⟩, ⟨0, .prime⟩, ⟨2, .poll 0⟩, ⟨2, .recv⟩, ⟨3, .nudge⟩,
       ⟨4, .resume 0⟩, ⟨4, .recv⟩, ⟨5, .poll 1⟩, ⟨5, .recv⟩, ⟨6, .resume 0⟩])
      = some "outbox/relay/entry-relayed-twice" := by decide

/-- … and the same segments on the repaired model: the poll at t = 5 is skipped -/
example :
    judge 3 (run ⟨3, 2, 2, false⟩ {}
      [⟨0, .write⟩, ⟨0, .write⟩, ⟨0, .write⟩, ⟨0, .prime⟩, ⟨2, .poll 0⟩, ⟨2, .recv⟩, ⟨3, .nudge⟩,
       ⟨4, .resume 0⟩, ⟨4, .recv⟩, ⟨5, .poll 1⟩, ⟨5, .recv⟩, ⟨6, .resume 0⟩, ⟨6, .recv⟩, ⟨8, .resume 0⟩,
       ⟨10, .poll 1⟩, ⟨11, .fin⟩]) = none := by decide

/-- non-vacuity of `outbox_quiescent_all_relayed`: a run with two cycles (batch 2, five entries would
need three) whose end is quiescent, and one whose end is not -/
example :
    (match judgeFrom 2 {} (run ⟨2, 2, 1, false⟩ {}
      [⟨0, .write⟩, ⟨0, .write⟩, ⟨0, .write⟩, ⟨0, .nudge⟩, ⟨2, .poll 0⟩, ⟨2, .recv⟩, ⟨3, .resume 0⟩,
       ⟨3, .recv⟩, ⟨4, .resume 0⟩, ⟨6, .poll 1⟩, ⟨6, .recv⟩, ⟨7, .resume 1⟩, ⟨8, .fin⟩]) with
      | .ok jf => jf.clean && jf.flight.isEmpty && jf.sent == [1, 2, 3]
      | .error _ => false) = true := by decide

example :
    (match judgeFrom 2 {} (run ⟨2, 2, 1, false⟩ {}
      [⟨0, .write⟩, ⟨0, .write⟩, ⟨0, .write⟩, ⟨0, .nudge⟩, ⟨2, .poll 0⟩, ⟨2, .recv⟩, ⟨3, .resume 0⟩,
       ⟨3, .recv⟩, ⟨4, .resume 0⟩, ⟨8, .fin⟩]) with
      | .ok jf => !jf.clean && jf.sent == [1, 2]
      | .error _ => false) = true := by decide

/-- the judge rejects bad transcripts: an entry relayed before an older one, a relay event stamped in
the past, an entry missing at a quiescent end, counters that do not add up, an entry relayed twice -/
theorem judge_rejects_bad_traces :
    judge 3 [⟨0, [.wrote 1], ⟨1, 0, 1, 1, 0⟩⟩, ⟨0, [.wrote 2], ⟨2, 0, 2, 2, 0⟩⟩,
             ⟨1, [.start, .emit 2 1, .emit 1 1, .done, .nosched], ⟨2, 2, 0, 2, 1⟩⟩]
      = some "outbox/relay/out-of-order" ∧
    judge 3 [⟨0, [.wrote 1], ⟨1, 0, 1, 1, 0⟩⟩, ⟨5, [.start, .emit 1 4], ⟨1, 1, 0, 1, 1⟩⟩]
      = some "outbox/relay/stamped-in-the-past" ∧
    judge 3 [⟨0, [.wrote 1], ⟨1, 0, 1, 1, 0⟩⟩, ⟨0, [.wrote 2], ⟨2, 0, 2, 2, 0⟩⟩,
             ⟨1, [.start, .emit 1 1, .done, .sched 0 2], ⟨2, 1, 1, 2, 1⟩⟩, ⟨1, [.got 1 1], ⟨2, 1, 1, 2, 1⟩⟩,
             ⟨9, [.fin], ⟨2, 1, 1, 2, 1⟩⟩]
      = some "outbox/relay/entry-never-relayed" ∧
    judge 3 [⟨0, [.wrote 1], ⟨1, 0, 1, 1, 0⟩⟩, ⟨1, [.start, .emit 1 1, .done, .nosched], ⟨1, 1, 1, 1, 1⟩⟩]
      = some "outbox/counters/do-not-add-up" ∧
    judge 3 [⟨0, [.wrote 1], ⟨1, 0, 1, 1, 0⟩⟩, ⟨1, [.start, .emit 1 1], ⟨1, 1, 0, 1, 1⟩⟩,
             ⟨2, [.start, .emit 1 2], ⟨1, 2, 0, 1, 2⟩⟩]
      = some "outbox/relay/entry-relayed-twice" := by decide

end HappyModel.C19.Outbox
