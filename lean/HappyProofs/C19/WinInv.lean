import HappyModel.C19.Win
/-!
The relation between the model's windows (tumbling / sliding) and the judge's obligations, and its
preservation by adding a record and by a firing.
-/
namespace HappyModel.C19.Win

def ident (w : Win) : Nat × Nat × Nat := (w.key, w.s, w.e)
def pairOfRec (r : Rec) : Nat × Nat := (r.id, r.val)
def pairOfObl (o : Obl) : Nat × Nat := (o.id, o.val)

/-- every window holds exactly the obligations of its identity (in arrival order), is marked emitted
exactly when all of them are done, every obligation has its window, identities are distinct -/
structure WinRel (wins : List Win) (obl : List Obl) : Prop where
  recs : ∀ w ∈ wins, w.recs.map pairOfRec = (obl.filter (oblFor w.key w.s w.e)).map pairOfObl
  emitted : ∀ w ∈ wins, w.emitted = (obl.filter (oblFor w.key w.s w.e)).all (·.done)
  cover : ∀ o ∈ obl, ∃ w ∈ wins, oblFor w.key w.s w.e o = true
  nodup : (wins.map ident).Nodup

theorem winRel_nil : WinRel [] [] :=
  ⟨by simp, by simp, by simp, by simp⟩

theorem oblFor_iff (k s e : Nat) (o : Obl) : oblFor k s e o = true ↔ o.key = k ∧ o.s = s ∧ o.e = e := by
  simp [oblFor, and_assoc]

theorem sameWin_iff (k s e : Nat) (w : Win) : sameWin k s e w = true ↔ ident w = (k, s, e) := by
  simp [sameWin, ident, and_assoc]

theorem oblFor_mk (k s e : Nat) (r : Rec) (se : Nat × Nat) :
    oblFor k s e (mkObl r se) = true ↔ (r.key, se.1, se.2) = (k, s, e) := by
  simp [oblFor, mkObl, and_assoc]

def upd (r : Rec) (w : Win) : Win := { w with recs := w.recs ++ [r], emitted := false }

def newWin (r : Rec) (s e : Nat) : Win := { key := r.key, s := s, e := e, recs := [r], emitted := false }

theorem addRec_miss (r : Rec) (s e : Nat) :
    ∀ wins : List Win, (r.key, s, e) ∉ wins.map ident → addRec r s e wins = wins ++ [newWin r s e] := by
  intro wins
  induction wins with
  | nil => intro _; rfl
  | cons w ws ih =>
    intro h
    have hw : sameWin r.key s e w = false := by
      cases hsw : sameWin r.key s e w with
      | false => rfl
      | true => exact absurd (by simp [(sameWin_iff _ _ _ _).mp hsw]) h
    have hws : (r.key, s, e) ∉ ws.map ident := fun hh => h (by simp [hh])
    simp [addRec, hw, ih hws]

theorem addRec_hit (r : Rec) (s e : Nat) :
    ∀ wins : List Win, (wins.map ident).Nodup → (r.key, s, e) ∈ wins.map ident →
      addRec r s e wins = wins.map fun w => if sameWin r.key s e w then upd r w else w := by
  intro wins
  induction wins with
  | nil => intro _ h; simp at h
  | cons w ws ih =>
    intro hnd hmem
    rw [List.map_cons, List.nodup_cons] at hnd
    cases hsw : sameWin r.key s e w with
    | true =>
      have hid := (sameWin_iff _ _ _ _).mp hsw
      have hrest : ws.map (fun w => if sameWin r.key s e w then upd r w else w) = ws := by
        have : ∀ x ∈ ws, (if sameWin r.key s e x then upd r x else x) = x := by
          intro x hx
          have : sameWin r.key s e x = false := by
            cases hsx : sameWin r.key s e x with
            | false => rfl
            | true =>
              have := (sameWin_iff _ _ _ _).mp hsx
              exact absurd (List.mem_map.mpr ⟨x, hx, by rw [this, hid]⟩) hnd.1
          simp [this]
        calc ws.map (fun w => if sameWin r.key s e w then upd r w else w)
            = ws.map id := List.map_congr_left this
          _ = ws := List.map_id ws
      rw [List.map_cons, hrest]
      simp [addRec, hsw, upd]
    | false =>
      have hne : ident w ≠ (r.key, s, e) := fun hh => by
        rw [(sameWin_iff _ _ _ _).mpr hh] at hsw; exact absurd hsw (by decide)
      have hmem' : (r.key, s, e) ∈ ws.map ident := by
        rw [List.map_cons, List.mem_cons] at hmem
        cases hmem with
        | inl h => exact absurd h.symm hne
        | inr h => exact h
      simp [addRec, hsw, ih hnd.2 hmem']

theorem filter_snoc (p : Obl → Bool) (obl : List Obl) (o : Obl) :
    (obl ++ [o]).filter p = obl.filter p ++ (if p o then [o] else []) := by
  rw [List.filter_append]
  cases h : p o <;> simp [h]

/-- adding a record to one of its windows ↔ one more obligation -/
theorem addRec_rel (r : Rec) (s e : Nat) (wins : List Win) (obl : List Obl) (h : WinRel wins obl) :
    WinRel (addRec r s e wins) (obl ++ [mkObl r (s, e)]) := by
  by_cases hm : (r.key, s, e) ∈ wins.map ident
  · -- the window exists
    rw [addRec_hit r s e wins h.nodup hm]
    have hidf : ∀ w : Win, ident (if sameWin r.key s e w then upd r w else w) = ident w := by
      intro w; cases sameWin r.key s e w <;> simp [upd, ident]
    refine ⟨?_, ?_, ?_, ?_⟩
    · intro w' hw'
      obtain ⟨w, hw, rfl⟩ := List.mem_map.mp hw'
      cases hsw : sameWin r.key s e w with
      | true =>
        have hid := (sameWin_iff _ _ _ _).mp hsw
        have hk : w.key = r.key ∧ w.s = s ∧ w.e = e := by
          simp only [ident, Prod.mk.injEq] at hid; exact hid
        have hp : oblFor w.key w.s w.e (mkObl r (s, e)) = true :=
          (oblFor_mk _ _ _ _ _).mpr (by simp [hk.1, hk.2.1, hk.2.2])
        simp only [if_true, upd, filter_snoc, hp, List.map_append, h.recs w hw]
        simp [pairOfRec, pairOfObl, mkObl]
      | false =>
        have hp : oblFor w.key w.s w.e (mkObl r (s, e)) = false := by
          cases hq : oblFor w.key w.s w.e (mkObl r (s, e)) with
          | false => rfl
          | true =>
            have := (oblFor_mk _ _ _ _ _).mp hq
            rw [(sameWin_iff _ _ _ _).mpr (by simp only [ident]; exact this.symm)] at hsw
            exact absurd hsw (by decide)
        simp only [Bool.false_eq_true, if_false]
        rw [filter_snoc, hp]
        simp [h.recs w hw]
    · intro w' hw'
      obtain ⟨w, hw, rfl⟩ := List.mem_map.mp hw'
      cases hsw : sameWin r.key s e w with
      | true =>
        have hid := (sameWin_iff _ _ _ _).mp hsw
        have hk : w.key = r.key ∧ w.s = s ∧ w.e = e := by
          simp only [ident, Prod.mk.injEq] at hid; exact hid
        have hp : oblFor w.key w.s w.e (mkObl r (s, e)) = true :=
          (oblFor_mk _ _ _ _ _).mpr (by simp [hk.1, hk.2.1, hk.2.2])
        simp only [if_true, upd]
        rw [filter_snoc, hp]
        simp [mkObl]
      | false =>
        have hp : oblFor w.key w.s w.e (mkObl r (s, e)) = false := by
          cases hq : oblFor w.key w.s w.e (mkObl r (s, e)) with
          | false => rfl
          | true =>
            have := (oblFor_mk _ _ _ _ _).mp hq
            rw [(sameWin_iff _ _ _ _).mpr (by simp only [ident]; exact this.symm)] at hsw
            exact absurd hsw (by decide)
        simp only [Bool.false_eq_true, if_false]
        rw [filter_snoc, hp]
        simp [h.emitted w hw]
    · intro o ho
      rw [List.mem_append, List.mem_singleton] at ho
      cases ho with
      | inl ho =>
        obtain ⟨w, hw, hwo⟩ := h.cover o ho
        refine ⟨_, List.mem_map.mpr ⟨w, hw, rfl⟩, ?_⟩
        cases sameWin r.key s e w <;> simpa [upd] using hwo
      | inr ho =>
        obtain ⟨w, hw, hwid⟩ := List.mem_map.mp hm
        refine ⟨_, List.mem_map.mpr ⟨w, hw, rfl⟩, ?_⟩
        have hsw := (sameWin_iff r.key s e w).mpr hwid
        have hk : w.key = r.key ∧ w.s = s ∧ w.e = e := by
          simp only [ident, Prod.mk.injEq] at hwid; exact hwid
        subst ho
        simp only [hsw, if_true, upd]
        exact (oblFor_mk _ _ _ _ _).mpr (by simp [hk.1, hk.2.1, hk.2.2])
    · rw [List.map_map]
      have : (ident ∘ fun w => if sameWin r.key s e w then upd r w else w) = ident := by
        funext w; exact hidf w
      rw [this]; exact h.nodup
  · -- a new window
    rw [addRec_miss r s e wins hm]
    have hnone : ∀ o ∈ obl, oblFor r.key s e o = false := by
      intro o ho
      cases hq : oblFor r.key s e o with
      | false => rfl
      | true =>
        obtain ⟨w, hw, hwo⟩ := h.cover o ho
        have h1 := (oblFor_iff _ _ _ _).mp hq
        have h2 := (oblFor_iff _ _ _ _).mp hwo
        exact absurd (List.mem_map.mpr ⟨w, hw, by simp [ident, ← h1.1, ← h1.2.1, ← h1.2.2, h2.1, h2.2.1, h2.2.2]⟩) hm
    have hold : ∀ w ∈ wins, oblFor w.key w.s w.e (mkObl r (s, e)) = false := by
      intro w hw
      cases hq : oblFor w.key w.s w.e (mkObl r (s, e)) with
      | false => rfl
      | true =>
        have := (oblFor_mk _ _ _ _ _).mp hq
        exact absurd (List.mem_map.mpr ⟨w, hw, by simp only [ident]; exact this.symm⟩) hm
    have hnew : oblFor r.key s e (mkObl r (s, e)) = true := (oblFor_mk _ _ _ _ _).mpr rfl
    have hfil : obl.filter (oblFor r.key s e) = [] := List.filter_eq_nil_iff.mpr (by
      intro o ho; simp [hnone o ho])
    refine ⟨?_, ?_, ?_, ?_⟩
    · intro w hw
      rw [List.mem_append, List.mem_singleton] at hw
      cases hw with
      | inl hw => rw [filter_snoc, hold w hw]; simp [h.recs w hw]
      | inr hw =>
        subst hw
        simp only [newWin]
        rw [filter_snoc, hnew, hfil]
        simp [pairOfRec, pairOfObl, mkObl]
    · intro w hw
      rw [List.mem_append, List.mem_singleton] at hw
      cases hw with
      | inl hw => rw [filter_snoc, hold w hw]; simp [h.emitted w hw]
      | inr hw =>
        subst hw
        simp only [newWin]
        rw [filter_snoc, hnew, hfil]
        simp [mkObl]
    · intro o ho
      rw [List.mem_append, List.mem_singleton] at ho
      cases ho with
      | inl ho =>
        obtain ⟨w, hw, hwo⟩ := h.cover o ho
        exact ⟨w, List.mem_append_left _ hw, hwo⟩
      | inr ho => subst ho; exact ⟨newWin r s e, by simp, by simpa [newWin] using hnew⟩
    · rw [List.map_append, List.nodup_append]
      refine ⟨h.nodup, by simp, ?_⟩
      intro a ha b hb
      simp only [List.map_cons, List.map_nil, List.mem_singleton] at hb
      subst hb
      intro hab; subst hab
      exact hm (by simpa [newWin, ident] using ha)

theorem addAll_rel (r : Rec) : ∀ (l : List (Nat × Nat)) (wins : List Win) (obl : List Obl),
    WinRel wins obl → WinRel (addAll r l wins) (obl ++ l.map (mkObl r)) := by
  intro l
  induction l with
  | nil => intro wins obl h; simpa [addAll] using h
  | cons se rest ih =>
    intro wins obl h
    have h1 := addRec_rel r se.1 se.2 wins obl h
    have h2 := ih _ _ h1
    simpa [addAll, List.append_assoc] using h2

end HappyModel.C19.Win
