import HappyModel.C19.Spec
/-!
C19 clause 2 (first deliveries follow publish order) — the state invariant and its preservation
by the five ways the queue touches `npub / live / dlog / pending / inflight`.

The invariant is stated on the five components (`Core`) so that structure updates of the other
fields of `MQ` are invisible (`OInv s` unfolds by `rfl`).
-/
namespace HappyModel.C19

/-- a filter with a stronger predicate gives a sublist -/
theorem filter_sublist_of_imp {p q : Nat → Bool} (h : ∀ x, q x = true → p x = true) :
    ∀ l : List Nat, (l.filter q).Sublist (l.filter p)
  | [] => by simp
  | x :: l => by
    have ih := filter_sublist_of_imp h l
    cases hq : q x with
    | true => simpa [List.filter_cons, hq, h x hq] using ih
    | false =>
      cases hp : p x with
      | true => simpa [List.filter_cons, hq, hp] using ih.cons x
      | false => simpa [List.filter_cons, hq, hp] using ih

structure Core (npub : Nat) (live dlog pending inflight : List Nat) : Prop where
  nodup : live.Nodup
  /-- never-delivered live messages wait in the pending deque -/
  a : ∀ k ∈ live, dlog.count k = 0 → k ∈ pending
  /-- never-delivered messages wait in publish order -/
  b : (pending.filter (fun k => dlog.count k == 0)).Pairwise (· < ·)
  /-- a never-delivered message older than a delivered one is gone -/
  c : ∀ k i, k < i → 1 ≤ dlog.count i → dlog.count k = 0 → k ∉ live
  d1 : ∀ k ∈ live, k < npub
  d2 : ∀ k ∈ pending, k < npub
  d3 : ∀ k, 1 ≤ dlog.count k → k < npub
  f : ∀ k ∈ inflight, 1 ≤ dlog.count k

def OInv (s : MQ) : Prop := Core s.npub s.live s.dlog s.pending s.inflight

theorem core_init : Core 0 [] [] [] [] := by
  constructor <;> simp

theorem core_publish {n : Nat} {l d p f : List Nat} (h : Core n l d p f) :
    Core (n + 1) (l ++ [n]) d (p ++ [n]) f where
  nodup := by
    rw [List.nodup_append]
    refine ⟨h.nodup, by simp, ?_⟩
    intro x hx y hy
    simp only [List.mem_singleton] at hy
    have := h.d1 x hx
    omega
  a := by
    intro k hk hc
    rcases List.mem_append.1 hk with hk | hk
    · exact List.mem_append_left _ (h.a k hk hc)
    · exact List.mem_append_right _ hk
  b := by
    rw [List.filter_append, List.pairwise_append]
    refine ⟨h.b, ?_, ?_⟩
    · exact List.Pairwise.sublist List.filter_sublist (by simp)
    · intro x hx y hy
      have hx' := h.d2 x (List.mem_filter.1 hx).1
      have hy' := (List.mem_filter.1 hy).1
      simp only [List.mem_singleton] at hy'
      omega
  c := by
    intro k i hki hi hk hmem
    rcases List.mem_append.1 hmem with hm | hm
    · exact h.c k i hki hi hk hm
    · simp only [List.mem_singleton] at hm
      have := h.d3 i hi
      omega
  d1 := by
    intro k hk
    rcases List.mem_append.1 hk with hk | hk
    · have := h.d1 k hk; omega
    · simp only [List.mem_singleton] at hk; omega
  d2 := by
    intro k hk
    rcases List.mem_append.1 hk with hk | hk
    · have := h.d2 k hk; omega
    · simp only [List.mem_singleton] at hk; omega
  d3 := by intro k hk; have := h.d3 k hk; omega
  f := h.f

theorem count_cons_ne {k x : Nat} {d : List Nat} (hne : x ≠ k) : (k :: d).count x = d.count x := by
  rw [List.count_cons]
  have : (k == x) = false := by simp; omega
  simp [this]

theorem count_cons_le (k x : Nat) (d : List Nat) : d.count x ≤ (k :: d).count x := by
  rw [List.count_cons]; omega

theorem count_cons_zero {k x : Nat} {d : List Nat} (h : (k :: d).count x = 0) :
    d.count x = 0 ∧ x ≠ k := by
  rw [List.count_cons] at h
  refine ⟨by omega, ?_⟩
  intro hx
  subst hx
  simp at h

theorem core_dispatch {n k : Nat} {l d p f : List Nat} (h : Core n l d p f) (hk : k ∈ l)
    (hfirst : 1 ≤ d.count k ∨ ∃ rest, p = k :: rest) :
    Core n l (k :: d) (p.erase k) (insertNew f k) where
  nodup := h.nodup
  a := by
    intro x hx hc
    have ⟨hc0, hne⟩ := count_cons_zero hc
    exact (List.mem_erase_of_ne hne).2 (h.a x hx hc0)
  b := by
    refine List.Pairwise.sublist ?_ h.b
    refine List.Sublist.trans (List.Sublist.filter _ List.erase_sublist) ?_
    apply filter_sublist_of_imp
    intro x hx
    simp only [beq_iff_eq] at hx ⊢
    exact (count_cons_zero hx).1
  c := by
    intro x i hxi hi hx hmem
    have ⟨hx0, hne⟩ := count_cons_zero hx
    by_cases hik : i = k
    · subst hik
      rcases hfirst with h1 | ⟨rest, hp⟩
      · exact h.c x i hxi h1 hx0 hmem
      · -- first delivery of the head of the deque: x waits behind it, so i < x
        have hxp : x ∈ p := h.a x hmem hx0
        have hb := h.b
        by_cases hci : d.count i = 0
        · rw [hp] at hb hxp
          have hxr : x ∈ rest := by
            rcases List.mem_cons.1 hxp with e | e
            · exact absurd e hne
            · exact e
          have hfi : (i :: rest).filter (fun k => d.count k == 0)
              = i :: rest.filter (fun k => d.count k == 0) := by simp [hci]
          rw [hfi, List.pairwise_cons] at hb
          have := hb.1 x (List.mem_filter.2 ⟨hxr, by simp [hx0]⟩)
          omega
        · exact h.c x i hxi (by omega) hx0 hmem
    · rw [count_cons_ne hik] at hi
      exact h.c x i hxi hi hx0 hmem
  d1 := h.d1
  d2 := fun x hx => h.d2 x (List.mem_of_mem_erase hx)
  d3 := by
    intro x hx
    by_cases hxk : x = k
    · subst hxk; exact h.d1 x hk
    · rw [count_cons_ne hxk] at hx; exact h.d3 x hx
  f := by
    intro x hx
    by_cases hxk : x = k
    · subst hxk; rw [List.count_cons]; simp
    · have : x ∈ f := by
        unfold insertNew at hx
        split at hx
        · exact hx
        · rcases List.mem_append.1 hx with e | e
          · exact e
          · simp only [List.mem_singleton] at e; exact absurd e hxk
      have := h.f x this
      have := count_cons_le k x d
      omega

theorem core_remove {n : Nat} (k : Nat) {l d p f : List Nat} (h : Core n l d p f) :
    Core n (l.erase k) d (p.erase k) (f.erase k) where
  nodup := h.nodup.erase k
  a := by
    intro x hx hc
    have hne : x ≠ k := by
      intro e; subst e
      exact (List.Nodup.mem_erase_iff h.nodup).1 hx |>.1 rfl
    exact (List.mem_erase_of_ne hne).2 (h.a x (List.mem_of_mem_erase hx) hc)
  b := List.Pairwise.sublist (List.Sublist.filter _ List.erase_sublist) h.b
  c := fun x i hxi hi hx hm => h.c x i hxi hi hx (List.mem_of_mem_erase hm)
  d1 := fun x hx => h.d1 x (List.mem_of_mem_erase hx)
  d2 := fun x hx => h.d2 x (List.mem_of_mem_erase hx)
  d3 := h.d3
  f := fun x hx => h.f x (List.mem_of_mem_erase hx)

theorem core_requeue {n k : Nat} {l d p f : List Nat} (h : Core n l d p f) (hk : k ∈ l)
    (hc : 1 ≤ d.count k) : Core n l d (p.erase k ++ [k]) (f.erase k) where
  nodup := h.nodup
  a := by
    intro x hx hx0
    by_cases hxk : x = k
    · subst hxk; simp
    · exact List.mem_append_left _ ((List.mem_erase_of_ne hxk).2 (h.a x hx hx0))
  b := by
    have hk0 : [k].filter (fun k => d.count k == 0) = [] := by
      simp [List.filter_cons]; omega
    rw [List.filter_append, hk0, List.append_nil]
    exact List.Pairwise.sublist (List.Sublist.filter _ List.erase_sublist) h.b
  c := h.c
  d1 := h.d1
  d2 := by
    intro x hx
    rcases List.mem_append.1 hx with e | e
    · exact h.d2 x (List.mem_of_mem_erase e)
    · simp only [List.mem_singleton] at e; subst e; exact h.d1 x hk
  d3 := h.d3
  f := fun x hx => h.f x (List.mem_of_mem_erase hx)

theorem core_timeout {n k : Nat} {l d p f : List Nat} (h : Core n l d p f) (hk : k ∈ f) :
    Core n l d (k :: p) (f.erase k) where
  nodup := h.nodup
  a := fun x hx hx0 => List.mem_cons_of_mem _ (h.a x hx hx0)
  b := by
    have := h.f k hk
    have hk0 : (k :: p).filter (fun k => d.count k == 0) = p.filter (fun k => d.count k == 0) := by
      simp [List.filter_cons]; omega
    rw [hk0]
    exact h.b
  c := h.c
  d1 := h.d1
  d2 := by
    intro x hx
    rcases List.mem_cons.1 hx with e | e
    · subst e; exact h.d3 x (h.f x hk)
    · exact h.d2 x e
  d3 := h.d3
  f := fun x hx => h.f x (List.mem_of_mem_erase hx)

end HappyModel.C19
