import HappyProofs.C19.TopicOnceLemmas
/-!
# C19 — Topic: every published message reaches every subscriber active at publish time exactly once

The judge's bookkeeping (`TopSt`) is related to the model state: the active sets agree, what the
judge still expects to be received (`owed`) is — up to order — what the suspended publishes will
still emit plus what sits in the engine's heap, and publish ids are fresh.  Every step keeps the
relation and is accepted by the judge; when no publish is suspended and the heap is drained,
nothing is owed.
-/
namespace HappyModel.C19

/-- the deliveries still to come: one per subscriber addressed by a suspended publish, one per
    event in the heap -/
def owedOf (inprog : List (Nat × Nat × List Nat)) (heap : List (Nat × Nat × Nat)) :
    List (Nat × Nat) :=
  inprog.flatMap (fun e => e.2.2.map (fun c => (e.1, c))) ++ heap.map (fun e => (e.1, e.2.1))

structure TRel (s : Topic) (j : TopSt) : Prop where
  keys : (s.subs.map (·.1)).Nodup
  act : ∀ c, c ∈ j.active ↔ (c, true) ∈ s.subs
  actnd : j.active.Nodup
  owed : j.owed.Perm (owedOf s.inprog s.heap)
  look : ∀ e ∈ s.inprog, j.begun.lookup e.1 = some e.2.2
  fresh : ∀ e ∈ s.inprog, e.1 < s.npub
  ids : (s.inprog.map (·.1)).Nodup
  bfresh : ∀ e ∈ j.begun, e.1 < s.npub

theorem TRel.init : TRel {} {} :=
  { keys := List.nodup_nil, act := by intro c; simp, actnd := List.nodup_nil,
    owed := List.Perm.refl _, look := by intro e he; simp at he,
    fresh := by intro e he; simp at he, ids := List.nodup_nil,
    bfresh := by intro e he; simp at he }

/-- the judge accepts the step and the relation is kept -/
def TopicStepOk (s : Topic) (j : TopSt) (t : Nat) (a : TAct) : Prop :=
  ∃ j', j.check ⟨t, a, (s.step false t a).2⟩ = .ok j' ∧ TRel (s.step false t a).1 j'

theorem topic_step_sub {s : Topic} {j : TopSt} (h : TRel s j) (t c : Nat) : TopicStepOk s j t (.sub c) := by
  refine ⟨{ j with active := insertNew j.active c }, ?_, ?_⟩
  · simp only [Topic.step]; split <;> rfl
  · simp only [Topic.step]
    split
    · rename_i hc
      have hc' : c ∈ s.subs.map (·.1) := List.contains_iff_mem.mp hc
      refine { keys := ?_, act := ?_, actnd := topic_insertNew_nodup h.actnd c, owed := h.owed,
               look := h.look, fresh := h.fresh, ids := h.ids, bfresh := h.bfresh }
      · show ((setActive c true s.subs).map (·.1)).Nodup
        rw [setActive_keys]; exact h.keys
      · intro x
        show x ∈ insertNew j.active c ↔ (x, true) ∈ setActive c true s.subs
        rw [mem_insertNew, mem_setActive, h.act x]
        by_cases hx : x = c
        · subst hx; simp [hc']
        · simp [hx]
    · rename_i hc
      have hc' : c ∉ s.subs.map (·.1) := fun hm => hc (List.contains_iff_mem.mpr hm)
      refine { keys := ?_, act := ?_, actnd := topic_insertNew_nodup h.actnd c, owed := h.owed,
               look := h.look, fresh := h.fresh, ids := h.ids, bfresh := h.bfresh }
      · show ((s.subs ++ [(c, true)]).map (·.1)).Nodup
        rw [List.map_append, List.nodup_append]
        refine ⟨h.keys, by simp, ?_⟩
        intro a ha b hb
        simp only [List.map_cons, List.map_nil, List.mem_singleton] at hb
        subst hb
        intro hab
        subst hab
        exact hc' ha
      · intro x
        show x ∈ insertNew j.active c ↔ (x, true) ∈ s.subs ++ [(c, true)]
        rw [mem_insertNew, h.act x]
        simp

theorem topic_step_unsub {s : Topic} {j : TopSt} (h : TRel s j) (t c : Nat) :
    TopicStepOk s j t (.unsub c) := by
  refine ⟨{ j with active := j.active.erase c }, rfl, ?_⟩
  simp only [Topic.step]
  refine { keys := ?_, act := ?_, actnd := h.actnd.erase c, owed := h.owed,
           look := h.look, fresh := h.fresh, ids := h.ids, bfresh := h.bfresh }
  · show ((setActive c false s.subs).map (·.1)).Nodup
    rw [setActive_keys]; exact h.keys
  · intro x
    show x ∈ j.active.erase c ↔ (x, true) ∈ setActive c false s.subs
    rw [h.actnd.mem_erase_iff, mem_setActive, h.act x]
    simp

theorem topic_step_pubA {s : Topic} {j : TopSt} (h : TRel s j) (t : Nat) : TopicStepOk s j t .pubA := by
  have hss : sameSet s.active j.active = true :=
    sameSet_of_mem (fun c => (h.act c).trans (mem_active_iff _ _).symm)
  have hdf : dupFree s.active = true := (dupFree_iff _).mpr (active_nodup _ h.keys)
  have hlook : ∀ tg, ∀ e ∈ s.inprog, ((s.npub, tg) :: j.begun).lookup e.1 = some e.2.2 := by
    intro tg e he
    have hlt := h.fresh e he
    have : (e.1 == s.npub) = false := by simp; omega
    rw [List.lookup_cons, this]
    exact h.look e he
  have hfresh : ∀ e ∈ s.inprog, e.1 < s.npub + 1 := fun e he => Nat.lt_succ_of_lt (h.fresh e he)
  have hb : ∀ tg, ∀ e ∈ (s.npub, tg) :: j.begun, e.1 < s.npub + 1 := by
    intro tg e he
    rcases List.mem_cons.mp he with he | he
    · subst he; exact Nat.lt_succ_self _
    · exact Nat.lt_succ_of_lt (h.bfresh e he)
  by_cases he : s.active = []
  · refine ⟨{ j with owed := j.owed ++ ([] : List Nat).map (fun c => (s.npub, c)),
                     begun := (s.npub, []) :: j.begun }, ?_, ?_⟩
    · rw [he] at hss hdf
      simp only [Topic.step, if_pos he, TopSt.check, hss, hdf, Bool.and_self, if_true]
    · simp only [Topic.step, if_pos he]
      exact { keys := h.keys, act := h.act, actnd := h.actnd,
              owed := by simpa using h.owed, look := hlook [], fresh := hfresh, ids := h.ids,
              bfresh := hb [] }
  · refine ⟨{ j with owed := j.owed ++ s.active.map (fun c => (s.npub, c)),
                     begun := (s.npub, s.active) :: j.begun }, ?_, ?_⟩
    · simp only [Topic.step, if_neg he, TopSt.check, hss, hdf, Bool.and_self, if_true]
    · simp only [Topic.step, if_neg he]
      refine { keys := h.keys, act := h.act, actnd := h.actnd, owed := ?_, look := ?_,
               fresh := ?_, ids := ?_, bfresh := hb _ }
      · show (j.owed ++ s.active.map (fun c => (s.npub, c))).Perm
          (owedOf (s.inprog ++ [(s.npub, t, s.active)]) s.heap)
        simp only [owedOf, List.flatMap_append, List.flatMap_cons, List.flatMap_nil,
          List.append_nil, List.append_assoc]
        refine (List.Perm.append_right _ h.owed).trans ?_
        simp only [owedOf, List.append_assoc]
        exact List.Perm.append_left _ List.perm_append_comm
      · intro e hm
        rcases List.mem_append.mp hm with hm | hm
        · exact hlook _ e hm
        · simp only [List.mem_singleton] at hm
          subst hm
          simp
      · intro e hm
        rcases List.mem_append.mp hm with hm | hm
        · exact hfresh e hm
        · simp only [List.mem_singleton] at hm
          subst hm
          exact Nat.lt_succ_self _
      · show ((s.inprog ++ [(s.npub, t, s.active)]).map (·.1)).Nodup
        rw [List.map_append, List.nodup_append]
        refine ⟨h.ids, by simp, ?_⟩
        intro a ha b hb'
        simp only [List.map_cons, List.map_nil, List.mem_singleton] at hb'
        subst hb'
        obtain ⟨e, he1, he2⟩ := List.mem_map.mp ha
        have := h.fresh e he1
        omega

theorem topic_step_pubEnd {s : Topic} {j : TopSt} (h : TRel s j) (t m : Nat) :
    TopicStepOk s j t (.pubEnd m) := by
  cases hl : s.inprog.lookup m with
  | none =>
    refine ⟨j, ?_, ?_⟩
    · simp only [Topic.step, hl]; rfl
    · simp only [Topic.step, hl]; exact h
  | some v =>
    obtain ⟨t0, tg⟩ := v
    have hmem : (m, t0, tg) ∈ s.inprog := lookup_mem' hl
    have hbl : j.begun.lookup m = some tg := h.look _ hmem
    refine ⟨j, ?_, ?_⟩
    · simp only [Topic.step, hl, Bool.false_eq_true, false_and, if_false, TopSt.check,
        Nat.lt_irrefl, decide_false, hbl, BEq.rfl, if_true]
    · simp only [Topic.step, hl, Bool.false_eq_true, false_and, if_false]
      have hsub : ∀ e ∈ s.inprog.filter (fun e => e.1 != m), e ∈ s.inprog :=
        fun e he => (List.mem_filter.mp he).1
      refine { keys := h.keys, act := h.act, actnd := h.actnd, owed := ?_,
               look := fun e he => h.look e (hsub e he),
               fresh := fun e he => h.fresh e (hsub e he), ids := ?_, bfresh := h.bfresh }
      · show j.owed.Perm (owedOf (s.inprog.filter (fun e => e.1 != m))
          (s.heap ++ tg.map (fun c => (m, c, t))))
        refine h.owed.trans ?_
        have hp := flatMap_lookup_perm s.inprog (fun e => e.2.2.map (fun c => (e.1, c))) m
          (t0, tg) h.ids hl
        simp only [owedOf, List.map_append, List.map_map]
        refine (List.Perm.append_right _ hp).trans ?_
        simp only [List.append_assoc]
        refine List.perm_append_comm.trans ?_
        simp only [List.append_assoc]
        refine List.Perm.append_left _ ?_
        exact List.Perm.refl _
      · exact List.Nodup.sublist ((List.filter_sublist (l := s.inprog)).map _) h.ids

theorem topic_step_recv {s : Topic} {j : TopSt} (h : TRel s j) (t m c : Nat) :
    TopicStepOk s j t (.recv m c) := by
  by_cases hc : s.heap.contains (m, c, t) = true
  · have hm : (m, c, t) ∈ s.heap := List.contains_iff_mem.mp hc
    have hg : (m, c) ∈ s.heap.map (fun e => (e.1, e.2.1)) :=
      List.mem_map.mpr ⟨(m, c, t), hm, rfl⟩
    have ho : (m, c) ∈ j.owed :=
      h.owed.mem_iff.mpr (List.mem_append_right _ hg)
    have hoc : j.owed.contains (m, c) = true := List.contains_iff_mem.mpr ho
    refine ⟨{ j with owed := j.owed.erase (m, c) }, ?_, ?_⟩
    · simp only [Topic.step, if_pos hc, TopSt.check, hoc, if_true]
    · simp only [Topic.step, if_pos hc]
      refine { keys := h.keys, act := h.act, actnd := h.actnd, owed := ?_, look := h.look,
               fresh := h.fresh, ids := h.ids, bfresh := h.bfresh }
      show (j.owed.erase (m, c)).Perm (owedOf s.inprog (s.heap.erase (m, c, t)))
      have h1 : (j.owed.erase (m, c)).Perm
          ((s.heap.map (fun e => (e.1, e.2.1)) ++
            s.inprog.flatMap (fun e => e.2.2.map (fun c => (e.1, c)))).erase (m, c)) :=
        (h.owed.trans List.perm_append_comm).erase _
      rw [List.erase_append_left _ hg] at h1
      refine h1.trans (List.perm_append_comm.trans ?_)
      exact List.Perm.append_left _
        (map_erase_perm (fun e : Nat × Nat × Nat => (e.1, e.2.1)) s.heap (m, c, t) hm).symm
  · refine ⟨j, ?_, ?_⟩
    · simp only [Topic.step, if_neg hc]; rfl
    · simp only [Topic.step, if_neg hc]; exact h

theorem topic_step_ok {s : Topic} {j : TopSt} (h : TRel s j) (t : Nat) (a : TAct) : TopicStepOk s j t a := by
  cases a with
  | sub c => exact topic_step_sub h t c
  | unsub c => exact topic_step_unsub h t c
  | pubA => exact topic_step_pubA h t
  | pubEnd m => exact topic_step_pubEnd h t m
  | recv m c => exact topic_step_recv h t m c

theorem topic_run {s : Topic} {j : TopSt} (h : TRel s j) (sched : List (Nat × TAct))
    (hq1 : (Topic.exec false s sched).inprog = []) (hq2 : (Topic.exec false s sched).heap = []) :
    jTopic j (Topic.run false s sched) = none := by
  induction sched generalizing s j with
  | nil =>
    simp only [Topic.exec] at hq1 hq2
    have := h.owed
    rw [hq1, hq2] at this
    have : j.owed = [] := this.eq_nil
    simp [Topic.run, jTopic, this]
  | cons ta rest ih =>
    obtain ⟨t, a⟩ := ta
    obtain ⟨j', hc, hr⟩ := topic_step_ok h t a
    simp only [Topic.run, jTopic, hc]
    exact ih hr hq1 hq2

/-- every published message reaches every subscriber active at publish time exactly once -/
theorem topic_exactly_once_per_active_subscriber (sched : List (Nat × TAct))
    (hq1 : (Topic.exec false {} sched).inprog = []) (hq2 : (Topic.exec false {} sched).heap = []) :
    jTopic {} (Topic.run false {} sched) = none :=
  topic_run TRel.init sched hq1 hq2

/-- the code before the fix: delivery events stamped at publish start are in the engine's past -/
theorem legacy_topic_witness :
    jTopic {} (Topic.run true {} [(0, .sub 0), (1, .pubA), (6, .pubEnd 0)])
      = some "topic/delivery/stamped-in-the-past" := by decide

/-! ### the statement is not vacuous: two subscribers, an unsubscribe, two publishes (the second
started while the first is still suspended), everything received -/

def demoTopic : List (Nat × TAct) :=
  [(0, .sub 0), (1, .sub 1), (2, .pubA), (3, .unsub 1), (4, .pubA), (5, .pubEnd 1),
   (5, .recv 1 0), (6, .pubEnd 0), (6, .recv 0 1), (6, .recv 0 0)]

example : (Topic.exec false {} demoTopic).inprog = [] ∧ (Topic.exec false {} demoTopic).heap = [] ∧
    jTopic {} (Topic.run false {} demoTopic) = none := by decide
example : jTopic {} (Topic.run false {} demoTopic.dropLast)
    = some "topic/delivery/never-reached-subscriber" := by decide
example : (Topic.exec false {} demoTopic.dropLast).heap = [(0, 0, 6)] := by decide
/-- a delivery nobody is owed (received twice) is rejected -/
example : jTopic {} [⟨0, .sub 0, .unit⟩, ⟨1, .pubA, .started 0 [0]⟩, ⟨2, .pubEnd 0, .events [0] 2⟩,
    ⟨2, .recv 0 0, .got⟩, ⟨2, .recv 0 0, .got⟩] = some "topic/delivery/duplicate-or-not-subscribed" := by
  decide

end HappyModel.C19
