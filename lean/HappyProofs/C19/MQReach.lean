import HappyModel.C19.Spec
/-!
# C19 — every delivery reaches a subscribed consumer at the delivery instant

The judge `jReach` accepts every trace the fixed (`legacy = false`) message queue can produce, under
every schedule of actions that ends quiescent (no delivery still suspended or in the engine's heap).
Simulation relation `RRel` between the model state and the judge state; one lemma per kind of
action; induction on the schedule.  At the end: what the code before the fix does.
-/
namespace HappyModel.C19

/-- what the judge remembers of a started delivery -/
def tkOf (x : Ticket) : Tk := ⟨x.d, x.k, x.c, x.t0⟩

/-- model state `s` and judge state `j` describe the same history -/
structure RRel (lat : Nat) (s : MQ) (j : ReachSt) : Prop where
  subs : j.subs = s.cons
  tks : j.tks = s.tix.map tkOf
  stamp : ∀ x ∈ s.tix, ∀ n st, x.fired = some (n, st) → st = x.t0 + lat
  dlt : ∀ x ∈ s.tix, x.d < s.nd
  nodup : (s.tix.map (·.d)).Nodup

theorem rrel_init (lat : Nat) : RRel lat {} {} := ⟨rfl, rfl, by simp, by simp, by simp⟩

/-- the relation looks at `cons`, `tix`, `nd` only -/
theorem RRel.frame {lat : Nat} {s s' : MQ} {j : ReachSt} (h : RRel lat s j)
    (h1 : s'.cons = s.cons) (h2 : s'.tix = s.tix) (h3 : s'.nd = s.nd) : RRel lat s' j :=
  ⟨h.subs.trans h1.symm, by rw [h2]; exact h.tks, by rw [h2]; exact h.stamp,
   by rw [h2, h3]; exact h.dlt, by rw [h2]; exact h.nodup⟩

/-- a record the judge passes over, for a step that leaves `cons`, `tix`, `nd` alone -/
theorem reach_keep {lat : Nat} {s s' : MQ} {j : ReachSt} (h : RRel lat s j) (r : ORec)
    (hc : j.check lat r = .ok j) (h1 : s'.cons = s.cons) (h2 : s'.tix = s.tix) (h3 : s'.nd = s.nd) :
    ∃ j', j.check lat r = .ok j' ∧ RRel lat s' j' :=
  ⟨j, hc, h.frame h1 h2 h3⟩

theorem reach_eq_of_nodup_d : ∀ {l : List Ticket}, (l.map (·.d)).Nodup →
    ∀ {x y : Ticket}, x ∈ l → y ∈ l → x.d = y.d → x = y
  | [], _, _, _, hx, _, _ => by simp at hx
  | a :: l, h, x, y, hx, hy, hd => by
    simp only [List.map_cons, List.nodup_cons, List.mem_map, not_exists, not_and] at h
    rcases List.mem_cons.mp hx with ex | mx <;> rcases List.mem_cons.mp hy with ey | my
    · rw [ex, ey]
    · exact absurd (ex ▸ hd.symm) (h.1 y my)
    · exact absurd (ey ▸ hd) (h.1 x mx)
    · exact reach_eq_of_nodup_d h.2 mx my hd

/-! ### dispatch -/

theorem reach_deliverBegin {lat : Nat} {s : MQ} {j : ReachSt} (h : RRel lat s j) (t k : Nat)
    (a : Act) (ha : a = .poll ∨ ∃ k', a = .redeliv k') (cr : Ctr) :
    ∃ j', j.check lat ⟨t, a, (s.deliverBegin t k).2, cr⟩ = .ok j' ∧
      RRel lat (s.deliverBegin t k).1 j' := by
  unfold MQ.deliverBegin
  split
  · split
    · next c hc =>
      have hcm : c ∈ s.cons := List.mem_of_getElem? hc
      refine ⟨{ j with tks := j.tks ++ [⟨s.nd, k, c, t⟩] }, ?_, ?_⟩
      · simp [ReachSt.check, h.subs, hcm]
      · refine ⟨h.subs, ?_, ?_, ?_, ?_⟩
        · simp [MQ.dispatch, h.tks, tkOf]
        · intro y hy n st hf
          rcases List.mem_append.mp hy with hy | hy
          · exact h.stamp y hy n st hf
          · simp at hy; subst hy; simp at hf
        · intro y hy
          rcases List.mem_append.mp hy with hy | hy
          · exact Nat.lt_succ_of_lt (h.dlt y hy)
          · simp at hy; subst hy; exact Nat.lt_succ_self _
        · show ((s.tix ++ [(⟨s.nd, k, c, t, none⟩ : Ticket)]).map (fun x : Ticket => x.d)).Nodup
          rw [List.map_append]
          refine List.nodup_append.mpr ⟨h.nodup, by simp, ?_⟩
          intro x hx y hy hxy
          obtain ⟨x0, hx0, rfl⟩ := List.mem_map.mp hx
          have := h.dlt x0 hx0
          simp at hy
          omega
    · rcases ha with rfl | ⟨k', rfl⟩ <;> exact ⟨j, rfl, h⟩
  · rcases ha with rfl | ⟨k', rfl⟩ <;> exact ⟨j, rfl, h⟩

/-! ### the delivery resumes after the latency yield -/

theorem reach_tkOf_fire (d n st : Nat) (x : Ticket) : tkOf (Ticket.fire d n st x) = tkOf x := by
  unfold Ticket.fire; split <;> rfl

theorem reach_d_fire (d n st : Nat) (x : Ticket) : (Ticket.fire d n st x).d = x.d := by
  unfold Ticket.fire; split <;> rfl

theorem reach_fire {cfg : Cfg} (hl : cfg.legacy = false) {s : MQ} {j : ReachSt}
    (h : RRel cfg.lat s j) (t d : Nat) (cr : Ctr) :
    ∃ j', j.check cfg.lat ⟨t, .fire d, (s.fire cfg t d).2, cr⟩ = .ok j' ∧
      RRel cfg.lat (s.fire cfg t d).1 j' := by
  unfold MQ.fire
  split
  · exact ⟨j, rfl, h⟩
  · next x hx =>
    split
    · next hc =>
      rw [if_neg (by simp [hl])]
      refine ⟨j, by simp [ReachSt.check], ?_⟩
      have hxm : x ∈ s.tix := List.mem_of_find?_eq_some hx
      have hxd : x.d = d := by simpa using List.find?_some hx
      refine ⟨h.subs, ?_, ?_, ?_, ?_⟩
      · show j.tks = (s.tix.map (Ticket.fire d (s.cnt x.k) t)).map tkOf
        rw [List.map_map, h.tks]
        exact List.map_congr_left (fun y _ => (reach_tkOf_fire _ _ _ y).symm)
      · intro y hy n st hf
        obtain ⟨y0, hy0, rfl⟩ := List.mem_map.mp hy
        by_cases hyd : y0.d = d
        · have hy0x : y0 = x := reach_eq_of_nodup_d h.nodup hy0 hxm (hyd.trans hxd.symm)
          subst hy0x
          simp [Ticket.fire, hyd] at hf ⊢
          rw [← hf.2]; exact hc.2
        · have e : Ticket.fire d (s.cnt x.k) t y0 = y0 := by simp [Ticket.fire, hyd]
          rw [e] at hf ⊢
          exact h.stamp y0 hy0 n st hf
      · intro y hy
        obtain ⟨y0, hy0, rfl⟩ := List.mem_map.mp hy
        rw [reach_d_fire]; exact h.dlt y0 hy0
      · show ((s.tix.map (Ticket.fire d (s.cnt x.k) t)).map (fun x : Ticket => x.d)).Nodup
        have e : s.tix.map ((fun x : Ticket => x.d) ∘ Ticket.fire d (s.cnt x.k) t) =
            s.tix.map (fun x => x.d) := List.map_congr_left (fun y _ => reach_d_fire _ _ _ y)
        rw [List.map_map, e]
        exact h.nodup
    · exact ⟨j, rfl, h⟩

/-! ### the engine hands the delivery event to the consumer -/

theorem reach_recv {lat : Nat} {s : MQ} {j : ReachSt} (h : RRel lat s j) (t d : Nat) (cr : Ctr) :
    ∃ j', j.check lat ⟨t, .recv d, (s.recv t d).2, cr⟩ = .ok j' ∧ RRel lat (s.recv t d).1 j' := by
  unfold MQ.recv
  split
  · exact ⟨j, rfl, h⟩
  · next x hx =>
    split
    · next n st hf =>
      split
      · next hst =>
        have hxm : x ∈ s.tix := List.mem_of_find?_eq_some hx
        have hfind : j.tks.find? (fun y => y.d == d) = some (tkOf x) := by
          rw [h.tks, List.find?_map]
          have e : ((fun y : Tk => y.d == d) ∘ tkOf) = fun y : Ticket => y.d == d := rfl
          rw [e, hx]; rfl
        have ht : t = x.t0 + lat := hst ▸ h.stamp x hxm n st hf
        refine ⟨{ j with tks := j.tks.filter (fun y => y.d != d) }, ?_, ?_⟩
        · simp [ReachSt.check, hfind, tkOf, ht]
        · refine ⟨h.subs, ?_, ?_, ?_, ?_⟩
          · show j.tks.filter _ = (s.tix.filter _).map tkOf
            rw [h.tks, List.filter_map]; rfl
          · intro y hy; exact h.stamp y (List.mem_filter.mp hy).1
          · intro y hy; exact h.dlt y (List.mem_filter.mp hy).1
          · exact (List.filter_sublist.map _).nodup h.nodup
      · exact ⟨j, rfl, h⟩
    · exact ⟨j, rfl, h⟩

/-! ### acknowledge, reject, timeout never touch the deliveries on their way -/

theorem reach_reject_frame (cfg : Cfg) (s : MQ) (k : Nat) (rq : Bool) :
    (s.reject cfg k rq).cons = s.cons ∧ (s.reject cfg k rq).tix = s.tix ∧
      (s.reject cfg k rq).nd = s.nd := by
  unfold MQ.reject; split
  · split <;> exact ⟨rfl, rfl, rfl⟩
  · exact ⟨rfl, rfl, rfl⟩

theorem reach_ack_frame (cfg : Cfg) (s : MQ) (k : Nat) :
    (s.ackMsg cfg k).cons = s.cons ∧ (s.ackMsg cfg k).tix = s.tix ∧ (s.ackMsg cfg k).nd = s.nd := by
  unfold MQ.ackMsg; split <;> exact ⟨rfl, rfl, rfl⟩

theorem reach_timeout {cfg : Cfg} {s : MQ} {j : ReachSt} (h : RRel cfg.lat s j) (t k : Nat)
    (cr : Ctr) :
    ∃ j', j.check cfg.lat ⟨t, .tmo k, (s.timeout cfg k).2, cr⟩ = .ok j' ∧
      RRel cfg.lat (s.timeout cfg k).1 j' := by
  unfold MQ.timeout
  split
  · split
    · exact ⟨j, rfl, h⟩
    · split
      · have f := reach_reject_frame cfg s k false
        exact reach_keep h _ rfl f.1 f.2.1 f.2.2
      · exact reach_keep h _ rfl rfl rfl rfl
  · exact ⟨j, rfl, h⟩

/-! ### one step, the whole run -/

theorem reach_step (cfg : Cfg) (hl : cfg.legacy = false) {s : MQ} {j : ReachSt}
    (h : RRel cfg.lat s j) (t : Nat) (a : Act) :
    ∃ j', j.check cfg.lat ⟨t, a, (s.step cfg t a).2, (s.step cfg t a).1.ctr⟩ = .ok j' ∧
      RRel cfg.lat (s.step cfg t a).1 j' := by
  cases a with
  | pub =>
    simp only [MQ.step]
    unfold MQ.publish
    split
    · exact ⟨j, rfl, h⟩
    · exact reach_keep h _ rfl rfl rfl rfl
  | poll =>
    simp only [MQ.step]
    unfold MQ.pollA
    split
    · exact reach_deliverBegin h t _ _ (Or.inl rfl) _
    · exact ⟨j, rfl, h⟩
  | redeliv k =>
    have h' : RRel cfg.lat { s with sched := s.sched.erase k } j := h.frame rfl rfl rfl
    exact reach_deliverBegin h' t k _ (Or.inr ⟨k, rfl⟩) _
  | fire d => exact reach_fire hl h t d _
  | recv d => exact reach_recv h t d _
  | ack k =>
    have f := reach_ack_frame cfg s k
    exact reach_keep h _ rfl f.1 f.2.1 f.2.2
  | rej k rq =>
    have f := reach_reject_frame cfg s k rq
    exact reach_keep h _ rfl f.1 f.2.1 f.2.2
  | tmo k => exact reach_timeout h t k _
  | sub c =>
    refine ⟨{ j with subs := insertNew j.subs c }, rfl, ?_⟩
    exact ⟨by simp only [MQ.step, h.subs], h.tks, h.stamp, h.dlt, h.nodup⟩
  | unsub c =>
    refine ⟨{ j with subs := j.subs.erase c }, rfl, ?_⟩
    exact ⟨by simp only [MQ.step, h.subs], h.tks, h.stamp, h.dlt, h.nodup⟩

theorem reach_run (cfg : Cfg) (hl : cfg.legacy = false) (sched : List (Nat × Act)) :
    ∀ (s : MQ) (j : ReachSt), RRel cfg.lat s j → (MQ.exec cfg s sched).tix = [] →
      jReach cfg.lat j (MQ.run cfg s sched) = none := by
  induction sched with
  | nil =>
    intro s j h hq
    have hq' : s.tix = [] := hq
    simp [MQ.run, jReach, h.tks, hq']
  | cons x rest ih =>
    intro s j h hq
    obtain ⟨t, a⟩ := x
    obtain ⟨j', hj, h'⟩ := reach_step cfg hl h t a
    simp only [MQ.run, jReach, hj]
    exact ih _ _ h' hq

/-- every delivery picks a subscribed consumer, is never stamped in the past, and is received by
    that consumer exactly once at t0 + latency; at a quiescent end (no delivery still suspended or
    in the engine's heap) nothing is missing -/
theorem delivery_reaches_consumer (cfg : Cfg) (hl : cfg.legacy = false) (sched : List (Nat × Act))
    (hq : (MQ.exec cfg {} sched).tix = []) :
    jReach cfg.lat {} (MQ.run cfg {} sched) = none :=
  reach_run cfg hl sched {} {} (rrel_init _) hq

/-! ### non-vacuity: one message goes all the way to consumer 0; drop the final `recv` and the
judge objects (and the hypothesis `tix = []` fails) -/

def reachDemo : List (Nat × Act) := [(0, .sub 0), (1, .pub), (2, .poll), (7, .fire 0), (7, .recv 0)]

example : (MQ.exec {lat := 5, maxRe := 2} {} reachDemo).tix = [] := by decide
example : (MQ.run {lat := 5, maxRe := 2} {} reachDemo).map (·.out) =
    [.unit, .pubOk 0, .disp 0 0 0 1, .emit 0 0 1 7, .recv 0 0 1] := by decide
example : jReach 5 {} (MQ.run {lat := 5, maxRe := 2} {} reachDemo) = none := by decide
example : (MQ.exec {lat := 5, maxRe := 2} {} reachDemo.dropLast).tix ≠ [] := by decide
example : jReach 5 {} (MQ.run {lat := 5, maxRe := 2} {} reachDemo.dropLast) =
    some "mq/delivery/never-reached-consumer" := by decide

/-! ### the code before the fix -/

/-- the code before the fix: the delivery is stamped in the past and never reaches the consumer -/
theorem legacy_stale_stamp_witness :
    jReach 5 {} (MQ.run {lat := 5, maxRe := 2, legacy := true} {}
      [(0, .sub 0), (1, .pub), (2, .poll), (7, .fire 0)])
      = some "mq/delivery/stamped-in-the-past" := by decide

/-- the code before the fix: a late ack of a message awaiting redelivery leaves a ghost in pending -/
theorem legacy_ghost_pending_witness :
    jAccounted (MQ.run {lat := 0, maxRe := 3, legacy := true} {}
      [(0, .sub 0), (1, .pub), (2, .pub), (3, .poll), (3, .fire 0), (3, .recv 0), (4, .tmo 0),
       (5, .ack 0)])
      = some "mq/accounted/counters-do-not-add-up" := by decide

/-- the same schedule with the fix: the counters add up -/
example :
    jAccounted (MQ.run {lat := 0, maxRe := 3} {}
      [(0, .sub 0), (1, .pub), (2, .pub), (3, .poll), (3, .fire 0), (3, .recv 0), (4, .tmo 0),
       (5, .ack 0)]) = none := by decide

end HappyModel.C19
