import HappyProofs.C19.IdemStep2
/-!
C19 / idem — one step of the model: the invariant is preserved and the Spec accepts the line the
model prints; by induction the Spec accepts every run of the model.
-/
namespace HappyModel.C19.Idem

variable {cfg : Cfg} {s : St} {h : List Obs} {lo : Nat}

theorem step_inv (hl : cfg.legacy = false) (hm : 1 ≤ cfg.maxE) (I : Inv cfg s h lo) (t : Nat) (a : Act)
    (ht : lo ≤ t) (hb : (step cfg s t a).2 ≠ .bad) :
    Inv cfg (step cfg s t a).1 (⟨t, a, (step cfg s t a).2⟩ :: h) t := by
  cases a with
  | req rid k =>
    cases k with
    | none => exact req_none_inv hl I t rid ht
    | some k =>
      by_cases hk : known s k = true
      · exact req_dup_inv I t rid k ht hk
      · exact req_fresh_inv I t rid k ht (by simpa using hk)
  | recv rid => exact recv_inv I t rid ht hb
  | done rid => exact done_inv I t rid ht hb
  | resp k => exact resp_inv hm I t k ht hb
  | sweep => exact sweep_inv I t hb

theorem remembered_eq (I : Inv cfg s h lo) (k : Key) : remembered cfg h k = known s k := by
  unfold remembered known
  rw [← I.cache, ← I.infl]

theorem clTimeOk_cleanupAt (s : St) (b : Bool) (t : Nat) : clTimeOk cfg t (cleanupAt cfg s b t) = true := by
  unfold cleanupAt
  split <;> simp [clTimeOk]

theorem clTimeOk_nextSweep (s : St) (t : Nat) : clTimeOk cfg t (nextSweep cfg s t) = true := by
  unfold nextSweep
  split <;> simp [clTimeOk]

theorem fwd_ok {o : Obs} {s' : St} {lo' : Nat} (I' : Inv cfg s' (o :: h) lo') (t : Nat) (cl : Option Nat)
    (ht : o.t = t) (hcl : clTimeOk cfg t cl = true) : fwdCheck cfg h o t cl s'.ctr = none := by
  unfold fwdCheck
  refine chk_none (by simp [ht]) (chk_none (by rw [ht]; exact hcl) (chk_none (chain_ok I') (ctr_ok I' false)))

/-- the Spec accepts the line the model prints for a delivery the engine can make -/
theorem step_judge (hl : cfg.legacy = false) (hm : 1 ≤ cfg.maxE) (I : Inv cfg s h lo) (t : Nat) (a : Act)
    (ht : lo ≤ t) (hb : (step cfg s t a).2 ≠ .bad) :
    judgeOne cfg h ⟨t, a, (step cfg s t a).2⟩ = none := by
  have I' := step_inv hl hm I t a ht hb
  cases a with
  | req rid k =>
    cases k with
    | none =>
      have ho : (step cfg s t (.req rid none)).2 =
          .fwd t (cleanupAt cfg { s with total := s.total + 1 } false t) (step cfg s t (.req rid none)).1.ctr := rfl
      rw [ho] at I' ⊢
      exact fwd_ok I' t _ rfl (clTimeOk_cleanupAt _ _ _)
    | some k =>
      by_cases hk : known s k = true
      · have ho : (step cfg s t (.req rid (some k))).2 = .sup (step cfg s t (.req rid (some k))).1.ctr := by
          simp only [step, stepReq, hk, if_true]
        rw [ho] at I' ⊢
        show (if remembered cfg h k then _ else _) = none
        rw [remembered_eq I, hk]
        exact ctr_ok I' false
      · have hk' : known s k = false := by simpa using hk
        have ho : (step cfg s t (.req rid (some k))).2 =
            .fwd t (cleanupAt cfg { s with total := s.total + 1, misses := s.misses + 1, infl := s.infl ++ [k] } true t)
              (step cfg s t (.req rid (some k))).1.ctr := by
          simp only [step, stepReq, hk', forward, Option.isSome_some]
          rfl
        rw [ho] at I' ⊢
        show (if remembered cfg h k then _ else _) = none
        rw [remembered_eq I, hk']
        exact fwd_ok I' t _ rfl (clTimeOk_cleanupAt _ _ _)
  | recv rid =>
    cases hf : findRid rid s.sent with
    | none => simp [step, stepRecv, hf] at hb
    | some e =>
      obtain ⟨r, k, st⟩ := e
      by_cases hst : st = t
      · have ho : (step cfg s t (.recv rid)).2 = .got k st := by
          simp only [step, stepRecv, hf, hst, beq_self_eq_true, if_true]
        rw [ho]
        show (match findRid rid (awaiting h) with | none => _ | some (_, k', st') => _) = none
        rw [← I.sent, hf]
        exact chk_none (by simp) (chk_none (by simp [hst]) rfl)
      · simp [step, stepRecv, hf, hst] at hb
  | done rid =>
    cases hf : findRid rid s.work with
    | none => simp [step, stepDone, hf] at hb
    | some e =>
      obtain ⟨r, k⟩ := e
      have ho : (step cfg s t (.done rid)).2 = .fin k := by simp only [step, stepDone, hf]
      rw [ho]
      show (match findRid rid (working h) with | none => _ | some (_, k') => _) = none
      rw [← I.work, hf]
      exact chk_none (by simp) rfl
  | resp k =>
    by_cases hg : (s.fins.contains k && respOk s k) = true
    · have ho : (step cfg s t (.resp k)).2 = .ok (step cfg s t (.resp k)).1.ctr := by
        simp only [step, stepResp, hg, if_true]
      rw [ho] at I' ⊢
      have hfin : (finished h).contains k = true := by
        rw [← I.fins]
        simp only [Bool.and_eq_true] at hg
        exact hg.1
      exact chk_none hfin (chk_none (chain_ok I') (ctr_ok I' false))
    · exact absurd (by show (stepResp cfg s t k).2 = _; rw [stepResp, if_neg hg]) hb
  | sweep =>
    by_cases hg : s.pend.contains t = true
    · have ho : (step cfg s t .sweep).2 = .swept (nextSweep cfg s t) (step cfg s t .sweep).1.ctr := by
        simp only [step, stepSweep, hg, if_true]
      rw [ho] at I' ⊢
      have hp : (pendingCl h).contains t = true := by rw [← I.pend]; exact hg
      have hsp : spaced cfg h t = true := by
        unfold spaced
        cases hx : lastSweep h with
        | none => rfl
        | some x =>
          have := I.gap x t hx (by simpa using hg)
          simpa using this
      exact chk_none hp (chk_none hsp (chk_none (clTimeOk_nextSweep s t) (chk_none (chain_ok I') (ctr_ok I' true))))
    · exact absurd (by show (stepSweep cfg s t).2 = _; rw [stepSweep, if_neg hg]) hb

/-- times of a schedule never go backwards (the engine's clock, C01) -/
def Sorted : Nat → List (Nat × Act) → Prop
  | _, [] => True
  | lo, (t, _) :: rest => lo ≤ t ∧ Sorted t rest

/-- every delivery of the schedule is one the engine can make (the event exists) -/
def Deliverable (cfg : Cfg) (s : St) (sched : List (Nat × Act)) : Prop :=
  ∀ o ∈ run cfg s sched, o.out ≠ .bad

theorem run_ok (hl : cfg.legacy = false) (hm : 1 ≤ cfg.maxE) (sched : List (Nat × Act)) (s : St) (h : List Obs)
    (lo : Nat) (I : Inv cfg s h lo) (hs : Sorted lo sched) (hd : Deliverable cfg s sched) :
    judgeIdem cfg h (run cfg s sched) = none ∧
    ∃ lo', Inv cfg (finalSt cfg s sched) ((run cfg s sched).reverse ++ h) lo' := by
  induction sched generalizing s h lo with
  | nil => exact ⟨rfl, lo, by simpa [run, finalSt] using I⟩
  | cons e rest ih =>
    obtain ⟨t, a⟩ := e
    have hb : (step cfg s t a).2 ≠ .bad := hd ⟨t, a, (step cfg s t a).2⟩ (by simp [run])
    have hd' : Deliverable cfg (step cfg s t a).1 rest := by
      intro o ho
      exact hd o (by simp [run, ho])
    obtain ⟨h1, lo', h2⟩ := ih (step cfg s t a).1 (⟨t, a, (step cfg s t a).2⟩ :: h) t
      (step_inv hl hm I t a hs.1 hb) hs.2 hd'
    refine ⟨?_, lo', ?_⟩
    · simp only [run, judgeIdem, step_judge hl hm I t a hs.1 hb]
      exact h1
    · simpa [run, finalSt] using h2

end HappyModel.C19.Idem
