import HappyModel.C19.Win
/-!
Session windows: the active sessions of a key are pairwise separated and every session spans its records
(`start ≤ et`, `et + gap ≤ end`).  Hence two records of one key that sit in different active sessions are
further apart than the gap — "events within the gap threshold are merged into the same session".
(This is what the pinned tree violates: it does not move the start for an earlier record.)
-/
namespace HappyModel.C19.Win

/-- a well-formed session of key `k` -/
def goodK (gap k : Nat) (w : Win) : Prop :=
  w.key = k ∧ w.s ≤ w.e ∧ ∀ r ∈ w.recs, w.s ≤ r.et ∧ r.et + gap ≤ w.e

def sepKey (a b : Win) : Prop := a.key = b.key → a.e < b.s ∨ b.e < a.s

def SInv (gap : Nat) (wins : List Win) : Prop :=
  (∀ w ∈ wins, goodK gap w.key w) ∧ wins.Pairwise sepKey

theorem mem_insertByStart (x w : Win) : ∀ l : List Win, x ∈ insertByStart w l ↔ x = w ∨ x ∈ l := by
  intro l
  induction l with
  | nil => simp [insertByStart]
  | cons a rest ih =>
    by_cases h : w.s ≤ a.s
    · simp [insertByStart, h]
    · simp only [insertByStart, h, if_false, List.mem_cons, ih]
      constructor
      · rintro (h1 | h1 | h1)
        · exact Or.inr (Or.inl h1)
        · exact Or.inl h1
        · exact Or.inr (Or.inr h1)
      · rintro (h1 | h1 | h1)
        · exact Or.inr (Or.inl h1)
        · exact Or.inl h1
        · exact Or.inr (Or.inr h1)

theorem sorted_insertByStart (w : Win) : ∀ l : List Win, l.Pairwise (fun a b => a.s ≤ b.s) →
    (insertByStart w l).Pairwise (fun a b => a.s ≤ b.s) := by
  intro l
  induction l with
  | nil => intro _; simp [insertByStart]
  | cons a rest ih =>
    intro h
    rw [List.pairwise_cons] at h
    by_cases hw : w.s ≤ a.s
    · simp only [insertByStart, hw, if_true, List.pairwise_cons]
      refine ⟨?_, h.1, h.2⟩
      intro x hx
      rw [List.mem_cons] at hx
      cases hx with
      | inl hx => subst hx; exact hw
      | inr hx => exact Nat.le_trans hw (h.1 x hx)
    · simp only [insertByStart, hw, if_false, List.pairwise_cons]
      refine ⟨?_, ih h.2⟩
      intro x hx
      rw [mem_insertByStart] at hx
      cases hx with
      | inl hx => subst hx; omega
      | inr hx => exact h.1 x hx

theorem mem_sortByStart (x : Win) : ∀ l : List Win, x ∈ sortByStart l ↔ x ∈ l := by
  intro l
  induction l with
  | nil => simp [sortByStart]
  | cons a rest ih => simp [sortByStart, mem_insertByStart, ih]

theorem sorted_sortByStart : ∀ l : List Win, (sortByStart l).Pairwise (fun a b => a.s ≤ b.s) := by
  intro l
  induction l with
  | nil => simp [sortByStart]
  | cons a rest ih => exact sorted_insertByStart a _ ih

/-- `_merge_sessions` over sessions sorted by start yields a chain `end < next start` of good sessions -/
theorem mergeFrom_chain (gap k : Nat) : ∀ (l : List Win) (cur : Win), goodK gap k cur →
    (∀ w ∈ l, goodK gap k w) → (∀ w ∈ l, cur.s ≤ w.s) → l.Pairwise (fun a b => a.s ≤ b.s) →
    (mergeFrom cur l).Pairwise (fun a b => a.e < b.s) ∧ ∀ x ∈ mergeFrom cur l, goodK gap k x ∧ cur.s ≤ x.s := by
  intro l
  induction l with
  | nil =>
    intro cur hc _ _ _
    simp only [mergeFrom, List.pairwise_cons, List.not_mem_nil, false_imp_iff, implies_true, List.Pairwise.nil,
      and_self, List.mem_singleton, true_and]
    intro x hx; subst hx; exact ⟨hc, Nat.le_refl _⟩
  | cons b rest ih =>
    intro cur hc hl hs hsorted
    rw [List.pairwise_cons] at hsorted
    have hb := hl b (by simp)
    have hcb := hs b (by simp)
    have hrest : ∀ w ∈ rest, goodK gap k w := fun w hw => hl w (List.mem_cons_of_mem _ hw)
    by_cases hm : b.s ≤ cur.e
    · simp only [mergeFrom, hm, if_true]
      have hc' : goodK gap k { cur with e := max cur.e b.e, recs := cur.recs ++ b.recs } := by
        refine ⟨hc.1, ?_, ?_⟩
        · have := hc.2.1; show cur.s ≤ max cur.e b.e; omega
        · intro r hr
          show cur.s ≤ r.et ∧ r.et + gap ≤ max cur.e b.e
          rw [List.mem_append] at hr
          cases hr with
          | inl hr => have := hc.2.2 r hr; omega
          | inr hr => have := hb.2.2 r hr; omega
      have := ih _ hc' hrest (fun w hw => Nat.le_trans hcb (hsorted.1 w hw)) hsorted.2
      exact this
    · simp only [mergeFrom, hm, if_false, List.pairwise_cons, List.mem_cons]
      obtain ⟨hp, hg⟩ := ih b hb hrest hsorted.1 hsorted.2
      refine ⟨⟨?_, hp⟩, ?_⟩
      · intro x hx; have := (hg x hx).2; omega
      · rintro x (hx | hx)
        · subst hx; exact ⟨hc, Nat.le_refl _⟩
        · exact ⟨(hg x hx).1, Nat.le_trans hcb (hg x hx).2⟩

theorem mergeSessions_chain (gap k : Nat) (l : List Win) (hl : ∀ w ∈ l, goodK gap k w) :
    (mergeSessions l).Pairwise (fun a b => a.e < b.s) ∧ ∀ x ∈ mergeSessions l, goodK gap k x := by
  unfold mergeSessions
  have hsorted := sorted_sortByStart l
  have hmem := fun x => mem_sortByStart x l
  cases hs : sortByStart l with
  | nil => simp
  | cons a rest =>
    rw [hs] at hsorted hmem
    rw [List.pairwise_cons] at hsorted
    have ha := hl a ((hmem a).mp (by simp))
    have hr : ∀ w ∈ rest, goodK gap k w := fun w hw => hl w ((hmem w).mp (List.mem_cons_of_mem _ hw))
    obtain ⟨hp, hg⟩ := mergeFrom_chain gap k rest a ha hr hsorted.1 hsorted.2
    exact ⟨hp, fun x hx => (hg x hx).1⟩

theorem sessJoin_good (gap k : Nat) (r : Rec) (hr : r.key = k) : ∀ (l l' : List Win),
    sessJoin gap r l = some l' → (∀ w ∈ l, goodK gap k w) → ∀ w ∈ l', goodK gap k w := by
  intro l
  induction l with
  | nil => intro l' h; simp [sessJoin] at h
  | cons w ws ih =>
    intro l' h hl
    have hw := hl w (by simp)
    by_cases hin : inSession gap r.et w = true
    · simp only [sessJoin, hin, if_true, Option.some.injEq] at h
      subst h
      intro x hx
      rw [List.mem_cons] at hx
      cases hx with
      | inl hx =>
        subst hx
        refine ⟨hw.1, ?_, ?_⟩
        · have := hw.2.1; show min w.s r.et ≤ max w.e (r.et + gap); omega
        · intro r' hr'
          show min w.s r.et ≤ r'.et ∧ r'.et + gap ≤ max w.e (r.et + gap)
          rw [List.mem_append, List.mem_singleton] at hr'
          cases hr' with
          | inl hr' => have := hw.2.2 r' hr'; omega
          | inr hr' => subst hr'; omega
      | inr hx => exact hl x (List.mem_cons_of_mem _ hx)
    · simp only [sessJoin, hin, Bool.false_eq_true, if_false, Option.map_eq_some_iff] at h
      obtain ⟨l2, h2, rfl⟩ := h
      intro x hx
      rw [List.mem_cons] at hx
      cases hx with
      | inl hx => subst hx; exact hw
      | inr hx => exact ih l2 h2 (fun w hw => hl w (List.mem_cons_of_mem _ hw)) x hx

def joinedOf (gap : Nat) (r : Rec) (wins : List Win) : List Win :=
  match sessJoin gap r (wins.filter fun w => w.key == r.key) with
  | some l => l
  | none => (wins.filter fun w => w.key == r.key) ++
      [{ key := r.key, s := r.et, e := r.et + gap, recs := [r], emitted := false }]

theorem sessAdd_eq (gap : Nat) (r : Rec) (wins : List Win) :
    sessAdd gap r wins = (wins.filter fun w => !(w.key == r.key)) ++ mergeSessions (joinedOf gap r wins) := rfl

/-- `_add_to_session_window` keeps the sessions well-formed and separated -/
theorem sessAdd_inv (gap : Nat) (r : Rec) (wins : List Win) (h : SInv gap wins) : SInv gap (sessAdd gap r wins) := by
  obtain ⟨hg, hp⟩ := h
  have hmine : ∀ w ∈ wins.filter (fun w => w.key == r.key), goodK gap r.key w := by
    intro w hw
    obtain ⟨hw1, hw2⟩ := List.mem_filter.mp hw
    have hk : w.key = r.key := by simpa using hw2
    have := hg w hw1
    rw [hk] at this; exact this
  have hjoined : ∀ w ∈ joinedOf gap r wins, goodK gap r.key w := by
    unfold joinedOf
    cases hj : sessJoin gap r (wins.filter fun w => w.key == r.key) with
    | some l => exact sessJoin_good gap r.key r rfl _ l hj hmine
    | none =>
      intro w hw
      simp only [List.mem_append, List.mem_singleton] at hw
      cases hw with
      | inl hw => exact hmine w hw
      | inr hw =>
        subst hw
        refine ⟨rfl, by show r.et ≤ r.et + gap; omega, ?_⟩
        intro r' hr'
        simp only [List.mem_singleton] at hr'
        subst hr'
        show r'.et ≤ r'.et ∧ r'.et + gap ≤ r'.et + gap
        omega
  obtain ⟨hchain, hgood⟩ := mergeSessions_chain gap r.key _ hjoined
  rw [sessAdd_eq]
  refine ⟨?_, ?_⟩
  · intro w hw
    rw [List.mem_append] at hw
    cases hw with
    | inl hw => exact hg w (List.mem_filter.mp hw).1
    | inr hw =>
      have := hgood w hw
      rw [this.1]; exact this
  · rw [List.pairwise_append]
    refine ⟨hp.filter _, hchain.imp (fun hab _ => Or.inl hab), ?_⟩
    intro a ha b hb hkey
    have h1 : ¬ a.key = r.key := by simpa using (List.mem_filter.mp ha).2
    have h2 : b.key = r.key := (hgood b hb).1
    exact absurd (hkey.trans h2) h1

theorem step_sinv (cfg : Cfg) (hk : cfg.kind = 2) (s : St) (ln : Line) (h : SInv cfg.gap s.wins) :
    SInv cfg.gap (step cfg s ln).1.wins := by
  obtain ⟨t, act⟩ := ln
  cases act with
  | proc r =>
    have hsd : ∀ s' : St, (startDaemon cfg t r s').wins = s'.wins := by
      intro s'; unfold startDaemon; split <;> rfl
    have hadd := sessAdd_inv cfg.gap r s.wins h
    simp only [step]
    unfold stepProc
    by_cases hl : isLate cfg s.wm r.et = true
    · by_cases hp0 : cfg.policy = 0
      · simpa [hl, hp0] using h
      · by_cases hp1 : cfg.policy = 1
        · simpa [hl, hp1] using h
        · simpa [hl, hp0, hp1, hsd, addWindows, hk] using hadd
    · simpa [hl, hsd, addWindows, hk] using hadd
  | wmA ext w =>
    have hw : (stepWmA t ext w s).1.wins = s.wins := by
      unfold stepWmA; cases ext <;> simp <;> split <;> rfl
    simpa [step, hw] using h
  | wmB =>
    have hw : (stepWmB cfg t s).1.wins = s.wins.filter fun w => !closable s.wm w := by
      simp [stepWmB, hk]
    simp only [step, hw]
    exact ⟨fun w hw' => h.1 w (List.mem_filter.mp hw').1, h.2.filter _⟩
  | lateRecv id =>
    have hw : (stepLate id s).1.wins = s.wins := by
      unfold stepLate; split <;> rfl
    simpa [step, hw] using h
  | fin => simpa [step] using h

theorem run_sinv (cfg : Cfg) (hk : cfg.kind = 2) : ∀ (sched : List Line) (s : St), SInv cfg.gap s.wins →
    SInv cfg.gap (finalState cfg s sched).wins := by
  intro sched
  induction sched with
  | nil => intro s h; exact h
  | cons ln rest ih => intro s h; exact ih _ (step_sinv cfg hk s ln h)

theorem pairwise_imp_of_mem {R S : Win → Win → Prop} : ∀ l : List Win,
    (∀ a b, a ∈ l → b ∈ l → R a b → S a b) → l.Pairwise R → l.Pairwise S := by
  intro l
  induction l with
  | nil => intro _ _; exact List.Pairwise.nil
  | cons x rest ih =>
    intro himp h
    rw [List.pairwise_cons] at h ⊢
    refine ⟨fun y hy => himp x y (by simp) (List.mem_cons_of_mem _ hy) (h.1 y hy), ?_⟩
    exact ih (fun a b ha hb => himp a b (List.mem_cons_of_mem _ ha) (List.mem_cons_of_mem _ hb)) h.2

end HappyModel.C19.Win
