import HappyProofs.C19.IdemStep
/-!
C19 / idem — invariant preservation for the completion event and the sweep.
-/
namespace HappyModel.C19.Idem

variable {cfg : Cfg} {s : St} {h : List Obs} {lo : Nat}

theorem remember_size (hm : 1 ≤ cfg.maxE) (c : List (Key × Nat)) (k : Key) (t : Nat) :
    (remember cfg c k t).length + evicted cfg c = c.length + 1 := by
  unfold remember evicted
  split
  · simp [List.length_tail]; omega
  · simp

theorem remember_bound (c : List (Key × Nat)) (k : Key) (t : Nat) (hb : c.length ≤ cfg.maxE) (hm : 1 ≤ cfg.maxE) :
    (remember cfg c k t).length ≤ cfg.maxE := by
  unfold remember
  split
  · simp [List.length_tail]; omega
  · simp; omega

theorem remember_ne_nil (c : List (Key × Nat)) (k : Key) (t : Nat) : remember cfg c k t ≠ [] := by
  simp [remember]

/-- the store handles a completion event -/
theorem resp_inv (hm : 1 ≤ cfg.maxE) (I : Inv cfg s h lo) (t : Nat) (k : Option Key) (ht : lo ≤ t)
    (hb : (stepResp cfg s t k).2 ≠ .bad) :
    Inv cfg (stepResp cfg s t k).1 (⟨t, .resp k, (stepResp cfg s t k).2⟩ :: h) t := by
  by_cases hg : (s.fins.contains k && respOk s k) = true
  · simp only [stepResp, hg, if_true]
    cases k with
    | none =>
      simp only [respSt]
      exact {
        cache := by hist_simp; exact I.cache
        infl := by hist_simp; exact I.infl
        sent := by hist_simp; exact I.sent
        work := by hist_simp; exact I.work
        fins := by hist_simp; rw [I.fins]
        pend := by hist_simp; exact I.pend
        total := by hist_simp; exact I.total
        hits := by hist_simp; exact I.hits
        misses := by hist_simp; exact I.misses
        stored := by hist_simp; exact I.stored
        addup := by have := I.addup; hist_simp; simp only [nKeyless] at this; omega
        size := I.size
        bound := I.bound
        idle := I.idle
        busy := I.busy
        gap := by intro x p hx hp; exact I.gap x p (by simpa [lastSweep] using hx) hp
        mono := by intro x hx; exact Nat.le_trans (I.mono x (by simpa [lastSweep] using hx)) ht
      }
    | some k =>
      have hin : s.infl ≠ [] := by
        intro he
        simp [respOk, he] at hg
      simp only [respSt]
      exact {
        cache := by hist_simp; rw [I.cache]
        infl := by hist_simp; rw [I.infl]
        sent := by hist_simp; exact I.sent
        work := by hist_simp; exact I.work
        fins := by hist_simp; rw [I.fins]
        pend := by hist_simp; exact I.pend
        total := by hist_simp; exact I.total
        hits := by hist_simp; exact I.hits
        misses := by hist_simp; exact I.misses
        stored := by hist_simp; exact I.stored
        addup := by have := I.addup; hist_simp; simp only [nKeyless] at this; omega
        size := by
          have h1 := remember_size hm s.cache k t
          have h2 := I.size
          show (remember cfg s.cache k t).length + (s.expired + evicted cfg s.cache) = s.stored + 1
          omega
        bound := remember_bound s.cache k t I.bound hm
        idle := by intro hc _; exact absurd hc (remember_ne_nil s.cache k t)
        busy := by intro _; exact I.busy (Or.inr hin)
        gap := by intro x p hx hp; exact I.gap x p (by simpa [lastSweep] using hx) hp
        mono := by intro x hx; exact Nat.le_trans (I.mono x (by simpa [lastSweep] using hx)) ht
      }
  · exact absurd (by rw [stepResp, if_neg hg]) hb

/-- a sweep can only fire for the one pending cleanup event -/
theorem pend_single (I : Inv cfg s h lo) (t : Nat) (hp : s.pend.contains t = true) : s.pend = [t] := by
  have hne : s.pend ≠ [] := by intro he; simp [he] at hp
  have hb : s.cache ≠ [] ∨ s.infl ≠ [] := by
    by_cases hc : s.cache = []
    · by_cases hf : s.infl = []
      · exact absurd (I.idle hc hf) hne
      · exact Or.inr hf
    · exact Or.inl hc
  obtain ⟨p, hp'⟩ := I.busy hb
  rw [hp'] at hp ⊢
  simp at hp
  rw [hp]

/-- a cleanup sweep -/
theorem sweep_inv (I : Inv cfg s h lo) (t : Nat) (hb : (stepSweep cfg s t).2 ≠ .bad) :
    Inv cfg (stepSweep cfg s t).1 (⟨t, .sweep, (stepSweep cfg s t).2⟩ :: h) t := by
  by_cases hg : s.pend.contains t = true
  · have hp := pend_single I t hg
    simp only [stepSweep, hg, if_true, sweepSt]
    have hns : nextSweep cfg s t = none ∧ keep cfg t s.cache = [] ∧ s.infl = [] ∨
        nextSweep cfg s t = some (t + cfg.interval) ∧ (keep cfg t s.cache ≠ [] ∨ s.infl ≠ []) := by
      unfold nextSweep
      cases hk : keep cfg t s.cache with
      | nil =>
        cases hf : s.infl with
        | nil => left; simp
        | cons a l => right; simp
      | cons a l => right; simp
    have hsize : (keep cfg t s.cache).length + (s.expired + (s.cache.filter (isExpired cfg t)).length) = s.stored := by
      have h1 := filter_split_length (isExpired cfg t) s.cache
      have h2 := I.size
      unfold keep
      omega
    have hbound : (keep cfg t s.cache).length ≤ cfg.maxE :=
      Nat.le_trans (List.length_filter_le _ _) I.bound
    rcases hns with ⟨hn, hk, hf⟩ | ⟨hn, hne⟩
    · simp only [hn]
      exact {
        cache := by hist_simp; rw [I.cache]
        infl := by hist_simp; exact I.infl
        sent := by hist_simp; exact I.sent
        work := by hist_simp; exact I.work
        fins := by hist_simp; exact I.fins
        pend := by hist_simp; rw [I.pend]
        total := by hist_simp; exact I.total
        hits := by hist_simp; exact I.hits
        misses := by hist_simp; exact I.misses
        stored := by hist_simp; exact I.stored
        addup := by have := I.addup; hist_simp; simp only [nKeyless] at this; omega
        size := hsize
        bound := hbound
        idle := by intro _ _; simp [hp]
        busy := by
          intro hor
          rcases hor with hc | hf'
          · exact absurd hk hc
          · exact absurd hf hf'
        gap := by intro x p _ hp'; simp [hp] at hp'
        mono := by intro x hx; simp [lastSweep] at hx; omega
      }
    · simp only [hn]
      exact {
        cache := by hist_simp; rw [I.cache]
        infl := by hist_simp; exact I.infl
        sent := by hist_simp; exact I.sent
        work := by hist_simp; exact I.work
        fins := by hist_simp; exact I.fins
        pend := by hist_simp; rw [I.pend]
        total := by hist_simp; exact I.total
        hits := by hist_simp; exact I.hits
        misses := by hist_simp; exact I.misses
        stored := by hist_simp; exact I.stored
        addup := by have := I.addup; hist_simp; simp only [nKeyless] at this; omega
        size := hsize
        bound := hbound
        idle := by
          intro hc hf
          rcases hne with h1 | h1
          · exact absurd hc h1
          · exact absurd hf h1
        busy := by intro _; exact ⟨t + cfg.interval, by simp [hp]⟩
        gap := by
          intro x p hx hp'
          simp [lastSweep] at hx
          simp [hp] at hp'
          omega
        mono := by intro x hx; simp [lastSweep] at hx; omega
      }
  · exact absurd (by rw [stepSweep, if_neg hg]) hb

end HappyModel.C19.Idem
