import HappyProofs.C19.MQAck
/-!
# C19 — an acknowledgement is final wherever in its life cycle the message is

`jAckFinal`: once `acknowledge(k)` was called for a published id, no delivery of `k` starts any more —
whether the message was in flight, back in the pending queue after a visibility timeout, requeued by a
reject, or already dead-lettered.  `jAckTakes`: the call on a message the queue still owes (published,
never acknowledged, not dead-lettered — read off the trace alone) moves the acknowledged counter by
exactly one, every other call moves nothing.

`Eff` classifies what one action does to the ledger `(live, nAck, |dlq|, npub)`:
nothing / publish a fresh id / acknowledge a live id / dead-letter a live id.
-/
namespace HappyModel.C19
set_option linter.unusedVariables false

inductive Eff (s s' : MQ) (a : Act) (o : Out) : Prop
  | same (hl : s'.live = s.live) (hA : s'.nAck = s.nAck) (hD : s'.dlq.length = s.dlq.length)
      (hN : s'.npub = s.npub) (hp : ∀ k, o ≠ .pubOk k) (hk : ∀ k, a = .ack k → k ∉ s.live)
      (hR : ∀ k rq, a = .rej k rq → s'.nRej = if k ∈ s.live then s.nRej + 1 else s.nRej)
  | pub (ha : a = .pub) (ho : o = .pubOk s.npub) (hl : s'.live = s.live ++ [s.npub])
      (hA : s'.nAck = s.nAck) (hD : s'.dlq.length = s.dlq.length) (hN : s'.npub = s.npub + 1)
  | ack (k : Nat) (ha : a = .ack k) (ho : o = .unit) (hk : k ∈ s.live) (hl : s'.live = s.live.erase k)
      (hA : s'.nAck = s.nAck + 1) (hD : s'.dlq.length = s.dlq.length) (hN : s'.npub = s.npub)
  | dl (k : Nat) (ha : (∃ rq, a = .rej k rq) ∨ a = .tmo k) (ho : o = .unit ∨ o = .tmoNone)
      (hk : k ∈ s.live) (hl : s'.live = s.live.erase k)
      (hA : s'.nAck = s.nAck) (hD : s'.dlq.length = s.dlq.length + 1) (hN : s'.npub = s.npub)
      (hR : ∀ rq, a = .rej k rq → s'.nRej = s.nRej + 1)

theorem Eff.refl (s : MQ) {a : Act} {o : Out} (hp : ∀ k, o ≠ .pubOk k) (hk : ∀ k, a = .ack k → k ∉ s.live)
    (hr : ∀ k rq, a = .rej k rq → k ∉ s.live) :
    Eff s s a o := .same rfl rfl rfl rfl hp hk (fun k rq h => by simp [hr k rq h])

/-- an action that is neither `ack` nor `rej` and leaves the ledger alone -/
theorem Eff.idle {s s' : MQ} {a : Act} {o : Out} (hl : s'.live = s.live) (hA : s'.nAck = s.nAck)
    (hD : s'.dlq.length = s.dlq.length) (hN : s'.npub = s.npub) (hp : ∀ k, o ≠ .pubOk k)
    (ha : ∀ k, a ≠ .ack k) (hr : ∀ k rq, a ≠ .rej k rq) : Eff s s' a o :=
  .same hl hA hD hN hp (fun k h => absurd h (ha k)) (fun k rq h => absurd h (hr k rq))

theorem eff_deliverBegin (s : MQ) (t k : Nat) {a : Act} (ha : ∀ k, a ≠ .ack k)
    (hr : ∀ k rq, a ≠ .rej k rq) :
    Eff s (s.deliverBegin t k).1 a (s.deliverBegin t k).2 := by
  unfold MQ.deliverBegin
  split
  · split
    · exact Eff.idle rfl rfl rfl rfl (by simp) ha hr
    · exact Eff.idle rfl rfl rfl rfl (by simp) ha hr
  · exact Eff.idle rfl rfl rfl rfl (by simp) ha hr

theorem eff_reject (cfg : Cfg) (s : MQ) (k : Nat) (rq : Bool) {a : Act} {o : Out}
    (ha : (∃ rq, a = .rej k rq) ∨ a = .tmo k) (ho : o = .unit ∨ o = .tmoNone) :
    Eff s (s.reject cfg k rq) a o := by
  have hp : ∀ x, o ≠ .pubOk x := by rcases ho with rfl | rfl <;> simp
  have hna : ∀ x, a = .ack x → x ∉ s.live := by
    intro x h
    rcases ha with ⟨rq, rfl⟩ | rfl <;> cases h
  have hkk : ∀ k' rq', a = .rej k' rq' → k' = k := by
    intro k' rq' h
    rcases ha with ⟨rq, rfl⟩ | rfl
    · cases h; rfl
    · cases h
  unfold MQ.reject
  split
  · next hk =>
    split
    · exact .same rfl rfl rfl rfl hp hna (fun k' rq' h => by rw [hkk k' rq' h]; simp [hk, MQ.requeue])
    · exact .dl k ha ho hk rfl rfl (by simp [MQ.toDlq]) rfl (fun rq' h => by simp [MQ.toDlq])
  · next hk => exact Eff.refl s hp hna (fun k' rq' h => by rw [hkk k' rq' h]; exact hk)

theorem eff_timeout (cfg : Cfg) (s : MQ) (k : Nat) :
    Eff s (s.timeout cfg k).1 (.tmo k) (s.timeout cfg k).2 := by
  have hna : ∀ x, Act.tmo k ≠ .ack x := by intro x h; cases h
  have hnr : ∀ x rq, Act.tmo k ≠ .rej x rq := by intro x rq h; cases h
  unfold MQ.timeout
  split
  · split
    · exact Eff.idle rfl rfl rfl rfl (by simp) hna hnr
    · split
      · exact eff_reject cfg s k false (Or.inr rfl) (Or.inr rfl)
      · exact Eff.idle rfl rfl rfl rfl (by simp) hna hnr
  · exact Eff.idle rfl rfl rfl rfl (by simp) hna hnr

theorem eff_fire (cfg : Cfg) (s : MQ) (t d : Nat) :
    Eff s (s.fire cfg t d).1 (.fire d) (s.fire cfg t d).2 := by
  have hna : ∀ x, Act.fire d ≠ .ack x := by intro x h; cases h
  have hnr : ∀ x rq, Act.fire d ≠ .rej x rq := by intro x rq h; cases h
  unfold MQ.fire
  split
  · exact Eff.idle rfl rfl rfl rfl (by simp) hna hnr
  · split
    · split
      · exact Eff.idle rfl rfl rfl rfl (by simp) hna hnr
      · exact Eff.idle rfl rfl rfl rfl (by simp) hna hnr
    · exact Eff.idle rfl rfl rfl rfl (by simp) hna hnr

theorem eff_recv (s : MQ) (t d : Nat) : Eff s (s.recv t d).1 (.recv d) (s.recv t d).2 := by
  have hna : ∀ x, Act.recv d ≠ .ack x := by intro x h; cases h
  have hnr : ∀ x rq, Act.recv d ≠ .rej x rq := by intro x rq h; cases h
  unfold MQ.recv
  split
  · exact Eff.idle rfl rfl rfl rfl (by simp) hna hnr
  · split
    · split
      · exact Eff.idle rfl rfl rfl rfl (by simp) hna hnr
      · exact Eff.idle rfl rfl rfl rfl (by simp) hna hnr
    · exact Eff.idle rfl rfl rfl rfl (by simp) hna hnr

/-- every action has one of the four ledger effects -/
theorem eff_step (cfg : Cfg) (s : MQ) (t : Nat) (a : Act) :
    Eff s (s.step cfg t a).1 a (s.step cfg t a).2 := by
  cases a with
  | pub =>
    simp only [MQ.step]
    unfold MQ.publish
    split
    · exact Eff.idle rfl rfl rfl rfl (by simp) (by intro x h; cases h) (by intro x rq h; cases h)
    · exact .pub rfl rfl rfl rfl rfl rfl
  | poll =>
    simp only [MQ.step]
    unfold MQ.pollA
    split
    · exact eff_deliverBegin s t _ (by intro x h; cases h) (by intro x rq h; cases h)
    · exact Eff.idle rfl rfl rfl rfl (by simp) (by intro x h; cases h) (by intro x rq h; cases h)
  | redeliv k =>
    have h := eff_deliverBegin { s with sched := s.sched.erase k } t k (a := .redeliv k)
      (by intro x h; cases h) (by intro x rq h; cases h)
    cases h with
    | same hl hA hD hN hp hk hR => exact .same hl hA hD hN hp hk hR
    | pub ha => cases ha
    | ack k ha => cases ha
    | dl k ha => rcases ha with ⟨rq, ha⟩ | ha <;> cases ha
  | fire d => exact eff_fire cfg s t d
  | recv d => exact eff_recv s t d
  | ack k =>
    simp only [MQ.step]
    unfold MQ.ackMsg
    split
    · next hk => exact .ack k rfl rfl hk rfl rfl rfl rfl
    · next hk => exact Eff.refl s (by simp) (by intro x h; cases h; exact hk) (by intro x rq h; cases h)
  | rej k rq => exact eff_reject cfg s k rq (Or.inl ⟨rq, rfl⟩) (Or.inl rfl)
  | tmo k => exact eff_timeout cfg s k
  | sub c =>
    exact Eff.idle rfl rfl rfl rfl (by simp [MQ.step]) (by intro x h; cases h) (by intro x rq h; cases h)
  | unsub c =>
    exact Eff.idle rfl rfl rfl rfl (by simp [MQ.step]) (by intro x h; cases h) (by intro x rq h; cases h)

theorem mem_erase_nodup {l : List Nat} (hn : l.Nodup) (k x : Nat) :
    x ∈ l.erase k ↔ x ∈ l ∧ x ≠ k := by
  constructor
  · intro h
    exact ⟨List.mem_of_mem_erase h, fun e => by subst e; exact hn.not_mem_erase h⟩
  · intro ⟨h, hne⟩
    exact (List.mem_erase_of_ne hne).2 h

/-! ### `jAckFinal` -/

structure FinRel (s : MQ) (j : FinSt) : Prop where
  pubB : ∀ k ∈ j.pubd, k < s.npub
  gone : ∀ k ∈ j.acked, k ∉ s.live ∧ k < s.npub

theorem FinRel.init : FinRel {} {} := ⟨by simp, by simp⟩

theorem fin_step (cfg : Cfg) {s : MQ} {j : FinSt} (inv : Inv s) (rel : FinRel s j) (t : Nat) (a : Act) :
    ∃ j', j.check ⟨t, a, (s.step cfg t a).2, (s.step cfg t a).1.ctr⟩ = .ok j' ∧
      FinRel (s.step cfg t a).1 j' := by
  have e := eff_step cfg s t a
  have q : ∀ d k c n, (s.step cfg t a).2 = .disp d k c n → k ∈ s.live := by
    intro d k c n ho
    by_cases ha : ∃ k, a = .ack k
    · obtain ⟨x, rfl⟩ := ha
      simp [MQ.step] at ho
    · exact (quiet_step cfg s t a (fun k h => ha ⟨k, h⟩)).disp d k c n ho
  generalize (s.step cfg t a).2 = o at e q
  generalize (s.step cfg t a).1 = s' at e
  cases e with
  | same hl hA hD hN hp hk hR =>
    have keep : FinRel s' j := ⟨fun k h => hN ▸ rel.pubB k h, fun k h => hl ▸ hN ▸ rel.gone k h⟩
    unfold FinSt.check
    split
    · next k ho => exact absurd ho (hp k)
    · next d k c n ho =>
      have hna : k ∉ j.acked := fun h => (rel.gone k h).1 (q d k c n ho)
      exact ⟨j, by simp [hna], keep⟩
    · split
      · next k hak =>
        have hak : a = .ack k := hak
        split
        · next hc =>
          refine ⟨_, rfl, ⟨keep.pubB, ?_⟩⟩
          intro x hx
          rcases List.mem_cons.1 hx with rfl | hx
          · refine ⟨hl ▸ hk x hak, hN ▸ rel.pubB x ?_⟩
            simpa using hc
          · exact keep.gone x hx
        · exact ⟨j, rfl, keep⟩
      · exact ⟨j, rfl, keep⟩
  | pub ha ho hl hA hD hN =>
    subst ha ho
    refine ⟨{ j with pubd := s.npub :: j.pubd }, by simp [FinSt.check], ?_, ?_⟩
    · intro k hk
      rcases List.mem_cons.1 hk with rfl | hk
      · omega
      · have := rel.pubB k hk; omega
    · intro k hk
      have h := rel.gone k hk
      refine ⟨?_, by omega⟩
      rw [hl]
      simp only [List.mem_append, List.mem_singleton, not_or]
      exact ⟨h.1, by omega⟩
  | ack k ha ho hk hl hA hD hN =>
    subst ha ho
    have shrink : ∀ x ∈ j.acked, x ∉ s'.live ∧ x < s'.npub := fun x hx =>
      ⟨fun hm => (rel.gone x hx).1 (List.mem_of_mem_erase (hl ▸ hm)), hN ▸ (rel.gone x hx).2⟩
    have pubB : ∀ x ∈ j.pubd, x < s'.npub := fun x h => hN ▸ rel.pubB x h
    simp only [FinSt.check]
    split
    · refine ⟨_, rfl, ⟨pubB, ?_⟩⟩
      intro x hx
      rcases List.mem_cons.1 hx with rfl | hx
      · exact ⟨hl ▸ inv.part.lN.not_mem_erase, hN ▸ inv.lB _ hk⟩
      · exact shrink x hx
    · exact ⟨j, rfl, ⟨pubB, shrink⟩⟩
  | dl k ha ho hk hl hA hD hN hR =>
    have keep : FinRel s' j :=
      ⟨fun x h => hN ▸ rel.pubB x h, fun x hx =>
        ⟨fun hm => (rel.gone x hx).1 (List.mem_of_mem_erase (hl ▸ hm)), hN ▸ (rel.gone x hx).2⟩⟩
    refine ⟨j, ?_, keep⟩
    rcases ha with ⟨rq, rfl⟩ | rfl <;> rcases ho with rfl | rfl <;> simp [FinSt.check]

theorem run_ack_final (cfg : Cfg) (hl : cfg.legacy = false) (sched : List (Nat × Act)) :
    ∀ {s : MQ} {j : FinSt}, Inv s → FinRel s j → jAckFinal j (MQ.run cfg s sched) = none := by
  induction sched with
  | nil => intro s j _ _; rfl
  | cons ta rest ih =>
    intro s j inv rel
    obtain ⟨t, a⟩ := ta
    obtain ⟨j', hc, rel'⟩ := fin_step cfg inv rel t a
    simp only [MQ.run, jAckFinal, hc]
    exact ih (inv.step cfg hl t a) rel'

/-! ### `jAckTakes` -/

structure TakeRel (s : MQ) (j : TakeSt) : Prop where
  cA : j.A = s.nAck
  cD : j.D = s.dlq.length
  cR : j.R = s.nRej
  pubB : ∀ k ∈ j.pubd, k < s.npub
  ackB : ∀ k ∈ j.acked, k < s.npub
  deadB : ∀ k ∈ j.dead, k < s.npub
  live : ∀ k, k ∈ s.live ↔ (k ∈ j.pubd ∧ k ∉ j.acked ∧ k ∉ j.dead)

theorem TakeRel.init : TakeRel {} {} := ⟨rfl, rfl, rfl, by simp, by simp, by simp, by simp⟩

theorem TakeRel.owes {s : MQ} {j : TakeSt} (rel : TakeRel s j) (k : Nat) :
    j.owes k = true ↔ k ∈ s.live := by
  rw [rel.live k]
  simp [TakeSt.owes, and_assoc]

theorem take_step (cfg : Cfg) {s : MQ} {j : TakeSt} (inv : Inv s) (rel : TakeRel s j) (t : Nat) (a : Act) :
    ∃ j', j.check ⟨t, a, (s.step cfg t a).2, (s.step cfg t a).1.ctr⟩ = .ok j' ∧
      TakeRel (s.step cfg t a).1 j' := by
  have e := eff_step cfg s t a
  generalize (s.step cfg t a).2 = o at e
  generalize (s.step cfg t a).1 = s' at e
  cases e with
  | same hl hA hD hN hp hk hR =>
    have keep : ∀ j' : TakeSt, j'.pubd = j.pubd → j'.acked = j.acked → j'.dead = j.dead →
        j'.A = s'.nAck → j'.D = s'.dlq.length → j'.R = s'.nRej → TakeRel s' j' := by
      intro j' h1 h2 h3 h4 h5 h6
      refine ⟨h4, h5, h6, ?_, ?_, ?_, ?_⟩
      · rw [h1, hN]; exact rel.pubB
      · rw [h2, hN]; exact rel.ackB
      · rw [h3, hN]; exact rel.deadB
      · rw [h1, h2, h3, hl]; exact rel.live
    have hDD : (s'.ctr.D == j.D + 1) = false := by
      simp only [MQ.ctr, rel.cD, hD]; simp
    unfold TakeSt.check
    split
    · next k ho => exact absurd ho (hp k)
    · split
      · next k hak =>
        have hak : a = .ack k := hak
        have hno : j.owes k = false := by
          have h1 : ¬ j.owes k = true := fun h => hk k hak ((rel.owes k).1 h)
          simpa using h1
        simp only [hno, Bool.false_eq_true, if_false]
        have : (s'.ctr.A == j.A) = true := by simp [MQ.ctr, rel.cA, hA]
        simp only [this, if_true]
        exact ⟨_, rfl, keep _ rfl rfl rfl (rel.cA.trans hA.symm) rfl rfl⟩
      · next k rq hak =>
        have hak : a = .rej k rq := hak
        have hr := hR k rq hak
        have hc : (s'.ctr.rej == if j.owes k = true then j.R + 1 else j.R) = true := by
          by_cases hl' : k ∈ s.live
          · simp [MQ.ctr, hr, hl', (rel.owes k).2 hl', rel.cR]
          · have hno : j.owes k = false := by
              have h1 : ¬ j.owes k = true := fun h => hl' ((rel.owes k).1 h)
              simpa using h1
            simp [MQ.ctr, hr, hl', hno, rel.cR]
        simp only [hc, if_true]
        exact ⟨_, rfl, keep _ rfl rfl (by simp only [hDD]; simp) rfl rfl rfl⟩
      · exact ⟨_, rfl, keep _ rfl rfl (by simp only [hDD]; simp) rfl rfl rfl⟩
      · exact ⟨_, rfl, keep _ rfl rfl rfl rfl rfl rfl⟩
  | pub ha ho hl hA hD hN =>
    subst ha ho
    refine ⟨{ j with pubd := s.npub :: j.pubd, A := s'.ctr.A, D := s'.ctr.D, R := s'.ctr.rej },
      by simp [TakeSt.check], rfl, rfl, rfl, ?_, ?_, ?_, ?_⟩
    · intro k hk
      rcases List.mem_cons.1 hk with rfl | hk
      · omega
      · have := rel.pubB k hk; omega
    · intro k hk; have := rel.ackB k hk; omega
    · intro k hk; have := rel.deadB k hk; omega
    · intro k
      rw [hl]
      simp only [List.mem_append, List.mem_cons, List.not_mem_nil, or_false]
      constructor
      · rintro (h | rfl)
        · have := (rel.live k).1 h
          exact ⟨Or.inr this.1, this.2⟩
        · exact ⟨Or.inl rfl, fun h => Nat.lt_irrefl _ (rel.ackB _ h), fun h => Nat.lt_irrefl _ (rel.deadB _ h)⟩
      · rintro ⟨h | h, h2, h3⟩
        · exact Or.inr h
        · exact Or.inl ((rel.live k).2 ⟨h, h2, h3⟩)
  | ack k ha ho hk hl hA hD hN =>
    subst ha ho
    have hy : j.owes k = true := (rel.owes k).2 hk
    have hc : (s'.ctr.A == j.A + 1) = true := by simp [MQ.ctr, rel.cA, hA]
    refine ⟨{ j with acked := k :: j.acked, A := s'.ctr.A, D := s'.ctr.D, R := s'.ctr.rej },
      by simp [TakeSt.check, hy, hc], rfl, rfl, rfl, ?_, ?_, ?_, ?_⟩
    · rw [hN]; exact rel.pubB
    · intro x hx
      rcases List.mem_cons.1 hx with rfl | hx
      · exact hN ▸ inv.lB _ hk
      · exact hN ▸ rel.ackB x hx
    · rw [hN]; exact rel.deadB
    · intro x
      rw [hl, mem_erase_nodup inv.part.lN, rel.live x]
      simp only [List.mem_cons, not_or]
      constructor
      · rintro ⟨⟨h1, h2, h3⟩, hne⟩; exact ⟨h1, ⟨hne, h2⟩, h3⟩
      · rintro ⟨h1, ⟨hne, h2⟩, h3⟩; exact ⟨⟨h1, h2, h3⟩, hne⟩
  | dl k ha ho hk hl hA hD hN hR =>
    have hc : (s'.ctr.D == j.D + 1) = true := by simp [MQ.ctr, rel.cD, hD]
    have hy : j.owes k = true := (rel.owes k).2 hk
    have hrel : TakeRel s' { j with dead := k :: j.dead, A := s'.ctr.A, D := s'.ctr.D, R := s'.ctr.rej } := by
      refine ⟨rfl, rfl, rfl, ?_, ?_, ?_, ?_⟩
      · rw [hN]; exact rel.pubB
      · rw [hN]; exact rel.ackB
      · intro x hx
        rcases List.mem_cons.1 hx with rfl | hx
        · exact hN ▸ inv.lB _ hk
        · exact hN ▸ rel.deadB x hx
      · intro x
        rw [hl, mem_erase_nodup inv.part.lN, rel.live x]
        simp only [List.mem_cons, not_or]
        constructor
        · rintro ⟨⟨h1, h2, h3⟩, hne⟩; exact ⟨h1, h2, hne, h3⟩
        · rintro ⟨h1, h2, hne, h3⟩; exact ⟨⟨h1, h2, h3⟩, hne⟩
    refine ⟨_, ?_, hrel⟩
    rcases ha with ⟨rq, rfl⟩ | rfl
    · have hr : (s'.ctr.rej == j.R + 1) = true := by simp [MQ.ctr, hR rq rfl, rel.cR]
      rcases ho with rfl | rfl <;> simp [TakeSt.check, hc, hy, hr]
    · rcases ho with rfl | rfl <;> simp [TakeSt.check, hc]

theorem run_ack_takes (cfg : Cfg) (hl : cfg.legacy = false) (sched : List (Nat × Act)) :
    ∀ {s : MQ} {j : TakeSt}, Inv s → TakeRel s j → jAckTakes j (MQ.run cfg s sched) = none := by
  induction sched with
  | nil => intro s j _ _; rfl
  | cons ta rest ih =>
    intro s j inv rel
    obtain ⟨t, a⟩ := ta
    obtain ⟨j', hc, rel'⟩ := take_step cfg inv rel t a
    simp only [MQ.run, jAckTakes, hc]
    exact ih (inv.step cfg hl t a) rel'

/-! ### the theorems -/

/-- after `acknowledge(k)` was called for a published message — in flight, awaiting redelivery in the
    pending queue, requeued, or dead-lettered — no delivery of `k` starts, on any schedule -/
theorem ack_is_final (cfg : Cfg) (hl : cfg.legacy = false) (sched : List (Nat × Act)) :
    jAckFinal {} (MQ.run cfg {} sched) = none :=
  run_ack_final cfg hl sched Inv.init FinRel.init

/-- an acknowledgement (a reject) of a message the queue still owes is counted exactly once; any other
    acknowledgement (reject) is counted zero times -/
theorem ack_of_owed_message_takes_effect (cfg : Cfg) (hl : cfg.legacy = false) (sched : List (Nat × Act)) :
    jAckTakes {} (MQ.run cfg {} sched) = none :=
  run_ack_takes cfg hl sched Inv.init TakeRel.init

/-- a late acknowledgement: message 0 is delivered, its visibility timeout moves it back to pending
    (redelivery event due later), the consumer acknowledges, then the redelivery event and a poll arrive -/
def lateAckSched : List (Nat × Act) :=
  [(0, .sub 0), (1, .pub), (2, .poll), (7, .fire 0), (7, .recv 0), (10, .tmo 0), (12, .ack 0),
   (15, .redeliv 0), (16, .poll)]

/-- not vacuous: on `lateAckSched` the timeout hands back a redelivery event, the late ack is counted and
    nothing is dispatched afterwards; and both judges reject the trace of a queue that ignores the late
    acknowledgement and redelivers -/
example :
    (MQ.run { lat := 5, maxRe := 2 } {} lateAckSched).map (·.out) =
      [.unit, .pubOk 0, .disp 0 0 0 1, .emit 0 0 1 7, .recv 0 0 1, .tmoEv, .unit, .none, .idle] ∧
    (MQ.exec { lat := 5, maxRe := 2 } {} lateAckSched).nAck = 1 ∧
    jAckFinal {} (MQ.run { lat := 5, maxRe := 2 } {} lateAckSched) = none ∧
    jAckTakes {} (MQ.run { lat := 5, maxRe := 2 } {} lateAckSched) = none ∧
    jAckFinal {} [⟨1, .pub, .pubOk 0, ⟨1, 0, 0, 0, 1, 0, 0, 0, 0⟩⟩,
                  ⟨2, .poll, .disp 0 0 0 1, ⟨0, 1, 0, 0, 1, 1, 0, 0, 0⟩⟩,
                  ⟨10, .tmo 0, .tmoEv, ⟨1, 0, 0, 0, 1, 1, 0, 0, 0⟩⟩,
                  ⟨12, .ack 0, .unit, ⟨1, 0, 0, 0, 1, 1, 0, 0, 0⟩⟩,
                  ⟨15, .redeliv 0, .disp 1 0 0 2, ⟨0, 1, 0, 0, 1, 1, 1, 0, 0⟩⟩] =
      some "mq/ack/delivered-after-ack" ∧
    jAckTakes {} [⟨1, .pub, .pubOk 0, ⟨1, 0, 0, 0, 1, 0, 0, 0, 0⟩⟩,
                  ⟨2, .poll, .disp 0 0 0 1, ⟨0, 1, 0, 0, 1, 1, 0, 0, 0⟩⟩,
                  ⟨10, .tmo 0, .tmoEv, ⟨1, 0, 0, 0, 1, 1, 0, 0, 0⟩⟩,
                  ⟨12, .ack 0, .unit, ⟨1, 0, 0, 0, 1, 1, 0, 0, 0⟩⟩] =
      some "mq/ack/ack-of-accounted-message-ignored" ∧
    jAckTakes {} [⟨1, .pub, .pubOk 0, ⟨1, 0, 0, 0, 1, 0, 0, 0, 0⟩⟩,
                  ⟨2, .poll, .disp 0 0 0 1, ⟨0, 1, 0, 0, 1, 1, 0, 0, 0⟩⟩,
                  ⟨10, .tmo 0, .tmoEv, ⟨1, 0, 0, 0, 1, 1, 0, 0, 0⟩⟩,
                  ⟨12, .rej 0 false, .unit, ⟨1, 0, 0, 0, 1, 1, 0, 0, 0⟩⟩] =
      some "mq/reject/reject-of-accounted-message-ignored" := by
  decide

end HappyModel.C19
