import HappyProofs.C19.MQAccount
/-!
# C19 — "nothing is delivered again after it was acknowledged"

The judge `jAck` keeps the ids whose acknowledgement took effect (`acked`) and the last value of the
acknowledged counter (`A`).  `AckRel s j` relates it to the model state: `j.A = s.nAck`, and every
acknowledged id is a published id (`< s.npub`) that is no longer live.  Ids are never re-used
(`publish` only adds `s.npub`), a delivery only starts for a live id, and the counter moves only in
`ackMsg` on a live id — so no action, enabled or not, makes the judge fail.
-/
namespace HappyModel.C19
set_option linter.unusedVariables false

/-- what every action other than `ack` guarantees: ids only grow, the only new live id is the
    fresh one, the acknowledged counter stands still, a started delivery is of a live id -/
structure Quiet (s s' : MQ) (o : Out) : Prop where
  npub : s.npub ≤ s'.npub
  live : ∀ k ∈ s'.live, k ∈ s.live ∨ s.npub ≤ k
  nAck : s'.nAck = s.nAck
  disp : ∀ d k c n, o = .disp d k c n → k ∈ s.live

theorem Quiet.same (s : MQ) {o : Out} (ho : ∀ d k c n, o ≠ .disp d k c n) : Quiet s s o :=
  ⟨Nat.le_refl _, fun k h => Or.inl h, rfl, fun d k c n h => absurd h (ho d k c n)⟩

/-- same `npub`, `nAck`, and `live` shrinks -/
theorem Quiet.of_sub {s s' : MQ} {o : Out} (h1 : s'.npub = s.npub) (h2 : ∀ k ∈ s'.live, k ∈ s.live)
    (h3 : s'.nAck = s.nAck) (ho : ∀ d k c n, o ≠ .disp d k c n) : Quiet s s' o :=
  ⟨Nat.le_of_eq h1.symm, fun k h => Or.inl (h2 k h), h3, fun d k c n h => absurd h (ho d k c n)⟩

theorem quiet_publish (cfg : Cfg) (s : MQ) : Quiet s (s.publish cfg).1 (s.publish cfg).2 := by
  unfold MQ.publish
  split
  · exact Quiet.same s (by simp)
  · refine ⟨Nat.le_succ _, ?_, rfl, by simp⟩
    intro k hk
    simp only [List.mem_append, List.mem_singleton] at hk
    rcases hk with hk | rfl
    · exact Or.inl hk
    · exact Or.inr (Nat.le_refl _)

theorem quiet_deliverBegin (s : MQ) (t k : Nat) :
    Quiet s (s.deliverBegin t k).1 (s.deliverBegin t k).2 := by
  unfold MQ.deliverBegin
  split
  · next hk =>
    split
    · refine ⟨Nat.le_refl _, fun x h => Or.inl h, rfl, ?_⟩
      intro d k' c n h
      simp only [Out.disp.injEq] at h
      exact h.2.1 ▸ hk
    · exact Quiet.same s (by simp)
  · exact Quiet.same s (by simp)

theorem quiet_pollA (s : MQ) (t : Nat) : Quiet s (s.pollA t).1 (s.pollA t).2 := by
  unfold MQ.pollA
  split
  · exact quiet_deliverBegin s t _
  · exact Quiet.same s (by simp)

theorem quiet_reject (cfg : Cfg) (s : MQ) (k : Nat) (rq : Bool) {o : Out}
    (ho : ∀ d k c n, o ≠ .disp d k c n) : Quiet s (s.reject cfg k rq) o := by
  unfold MQ.reject
  split
  · split
    · exact Quiet.of_sub rfl (fun x h => h) rfl ho
    · exact Quiet.of_sub rfl (fun x h => List.mem_of_mem_erase h) rfl ho
  · exact Quiet.same s ho

theorem quiet_timeout (cfg : Cfg) (s : MQ) (k : Nat) :
    Quiet s (s.timeout cfg k).1 (s.timeout cfg k).2 := by
  unfold MQ.timeout
  split
  · split
    · exact Quiet.same s (by simp)
    · split
      · exact quiet_reject cfg s k false (by simp)
      · exact Quiet.of_sub rfl (fun x h => h) rfl (by simp)
  · exact Quiet.same s (by simp)

theorem quiet_fire (cfg : Cfg) (s : MQ) (t d : Nat) :
    Quiet s (s.fire cfg t d).1 (s.fire cfg t d).2 := by
  unfold MQ.fire
  split
  · exact Quiet.same s (by simp)
  · split
    · split
      · exact Quiet.of_sub rfl (fun x h => h) rfl (by simp)
      · exact Quiet.of_sub rfl (fun x h => h) rfl (by simp)
    · exact Quiet.same s (by simp)

theorem quiet_recv (s : MQ) (t d : Nat) : Quiet s (s.recv t d).1 (s.recv t d).2 := by
  unfold MQ.recv
  split
  · exact Quiet.same s (by simp)
  · split
    · split
      · exact Quiet.of_sub rfl (fun x h => h) rfl (by simp)
      · exact Quiet.same s (by simp)
    · exact Quiet.same s (by simp)

/-- every action other than `ack` is quiet -/
theorem quiet_step (cfg : Cfg) (s : MQ) (t : Nat) (a : Act) (ha : ∀ k, a ≠ .ack k) :
    Quiet s (s.step cfg t a).1 (s.step cfg t a).2 := by
  cases a with
  | pub => exact quiet_publish cfg s
  | poll => exact quiet_pollA s t
  | redeliv k =>
    have h := quiet_deliverBegin { s with sched := s.sched.erase k } t k
    exact ⟨h.npub, h.live, h.nAck, h.disp⟩
  | fire d => exact quiet_fire cfg s t d
  | recv d => exact quiet_recv s t d
  | ack k => exact absurd rfl (ha k)
  | rej k rq => exact quiet_reject cfg s k rq (by simp [MQ.step])
  | tmo k => exact quiet_timeout cfg s k
  | sub c => exact Quiet.of_sub rfl (fun x h => h) rfl (by simp [MQ.step])
  | unsub c => exact Quiet.of_sub rfl (fun x h => h) rfl (by simp [MQ.step])

/-! ### the judge -/

structure AckRel (s : MQ) (j : AckSt) : Prop where
  cnt : j.A = s.nAck
  gone : ∀ k ∈ j.acked, k ∉ s.live ∧ k < s.npub

theorem AckRel.init : AckRel {} {} := ⟨rfl, by simp⟩

/-- the judge accepts a record whose counter did not move, whose action is not `ack`, and which
    does not start a delivery of an acknowledged id -/
theorem check_ok_of_same (j : AckSt) (r : ORec) (hA : r.ctr.A = j.A)
    (hd : ∀ d k c n, r.out = .disp d k c n → k ∉ j.acked) (ha : ∀ k, r.act ≠ .ack k) :
    j.check r = .ok j := by
  unfold AckSt.check
  split
  · next d k c n ho =>
    have := hd d k c n ho
    simp [this, hA]
  · split
    · next k hk => exact absurd hk (ha k)
    · simp [hA]

theorem AckRel.quiet {s s' : MQ} {o : Out} {j : AckSt} (rel : AckRel s j) (q : Quiet s s' o) :
    AckRel s' j := by
  refine ⟨rel.cnt.trans q.nAck.symm, fun k hk => ?_⟩
  have h := rel.gone k hk
  refine ⟨fun hm => ?_, Nat.lt_of_lt_of_le h.2 q.npub⟩
  rcases q.live k hm with h' | h'
  · exact h.1 h'
  · exact Nat.lt_irrefl _ (Nat.lt_of_lt_of_le h.2 h')

/-- one step: the judge accepts and the relation is re-established -/
theorem ack_step (cfg : Cfg) (hl : cfg.legacy = false) {s : MQ} {j : AckSt} (inv : Inv s)
    (rel : AckRel s j) (t : Nat) (a : Act) :
    ∃ j', j.check ⟨t, a, (s.step cfg t a).2, (s.step cfg t a).1.ctr⟩ = .ok j' ∧
      AckRel (s.step cfg t a).1 j' := by
  by_cases ha : ∃ k, a = .ack k
  · obtain ⟨k, rfl⟩ := ha
    simp only [MQ.step]
    by_cases hk : k ∈ s.live
    · have hna : k ∉ j.acked := fun h => (rel.gone k h).1 hk
      have hs : s.ackMsg cfg k =
          { s with inflight := s.inflight.erase k, pending := s.dropPending cfg k,
                   live := s.live.erase k, sched := s.sched.erase k, nAck := s.nAck + 1 } := by
        unfold MQ.ackMsg; rw [if_pos hk]
      refine ⟨{ acked := k :: j.acked, A := s.nAck + 1 }, ?_, ?_, ?_⟩
      · rw [hs]
        simp [AckSt.check, MQ.ctr, rel.cnt, hna]
      · rw [hs]
      · rw [hs]
        intro x hx
        rcases List.mem_cons.1 hx with rfl | hx
        · exact ⟨inv.part.lN.not_mem_erase, inv.lB _ hk⟩
        · exact ⟨fun hm => (rel.gone x hx).1 (List.mem_of_mem_erase hm), (rel.gone x hx).2⟩
    · have hs : s.ackMsg cfg k = s := by unfold MQ.ackMsg; rw [if_neg hk]
      refine ⟨j, ?_, ?_⟩
      · rw [hs]
        simp [AckSt.check, MQ.ctr, rel.cnt]
      · rw [hs]; exact rel
  · have ha' : ∀ k, a ≠ .ack k := fun k h => ha ⟨k, h⟩
    have q := quiet_step cfg s t a ha'
    refine ⟨j, check_ok_of_same j _ ?_ ?_ ha', rel.quiet q⟩
    · show (s.step cfg t a).1.nAck = j.A
      rw [q.nAck, rel.cnt]
    · intro d k c n ho hm
      exact (rel.gone k hm).1 (q.disp d k c n ho)

theorem run_ack (cfg : Cfg) (hl : cfg.legacy = false) (sched : List (Nat × Act)) :
    ∀ {s : MQ} {j : AckSt}, Inv s → AckRel s j → jAck j (MQ.run cfg s sched) = none := by
  induction sched with
  | nil => intro s j _ _; rfl
  | cons ta rest ih =>
    intro s j inv rel
    obtain ⟨t, a⟩ := ta
    obtain ⟨j', hc, rel'⟩ := ack_step cfg hl inv rel t a
    simp only [MQ.run, jAck, hc]
    exact ih (inv.step cfg hl t a) rel'

/-- nothing is delivered again after it was acknowledged -/
theorem no_delivery_after_ack (cfg : Cfg) (hl : cfg.legacy = false) (sched : List (Nat × Act)) :
    jAck {} (MQ.run cfg {} sched) = none :=
  run_ack cfg hl sched Inv.init AckRel.init

/-- not vacuous: on `demoSched` (dispatch, delivery, ack of message 0, message 1 dead-lettered) the
    judge runs over two dispatches and an effective acknowledgement; and it does reject a trace in
    which an acknowledged message is dispatched again -/
example :
    ((MQ.run { lat := 5, maxRe := 1 } {} demoSched).filter
        (fun r => match r.out with | .disp .. => true | _ => false)).length = 2 ∧
    (MQ.exec { lat := 5, maxRe := 1 } {} demoSched).nAck = 1 ∧
    jAck {} (MQ.run { lat := 5, maxRe := 1 } {} demoSched) = none ∧
    jAck {} [⟨0, .ack 0, .unit, ⟨0, 0, 1, 0, 1, 1, 0, 0, 0⟩⟩,
             ⟨1, .poll, .disp 1 0 0 2, ⟨0, 1, 1, 0, 1, 1, 1, 0, 0⟩⟩] =
      some "mq/ack/delivered-after-ack" := by
  decide

end HappyModel.C19
