import HappyProofs.C19.MQAckFinal
/-!
# C19 — a requested redelivery is never lost (`jRedeliv`)

`Aux` collects what one action does to the consumer list, the in-flight keys and the set of ids with
a redelivery timer (`sched`); `RedRel` relates the judge's bookkeeping to the model state:
its consumer list *is* `s.cons`, every id it believes in flight is in `s.inflight`, every id in
`s.sched` is one it believes armed, `s.sched` has no duplicates.  Then a timeout of an in-flight,
un-armed message finds `k ∈ inflight`, `k ∉ sched` in the model — which hands out a redelivery event or
dead-letters — and a timer that fires for a live message with a consumer subscribed starts a delivery.
-/
namespace HappyModel.C19
set_option linter.unusedVariables false

theorem mem_insertNew (l : List Nat) (k x : Nat) : x ∈ insertNew l k ↔ x ∈ l ∨ x = k := by
  unfold insertNew
  split
  · next h => constructor
              · exact Or.inl
              · rintro (h' | rfl)
                · exact h'
                · exact h
  · simp

abbrev consAfter := subsAfter

/-- the id an action may take out of flight -/
def Act.releases : Act → Option Nat
  | .ack k => some k
  | .rej k _ => some k
  | .tmo k => some k
  | _ => none

structure Aux (s s' : MQ) (a : Act) (o : Out) : Prop where
  cons : s'.cons = consAfter s.cons a
  keep : ∀ x ∈ s.inflight, a.releases ≠ some x → x ∈ s'.inflight
  disp : ∀ d k c n, o = .disp d k c n → k ∈ s'.inflight
  dispRel : ∀ d k c n, o = .disp d k c n → a.releases = none
  tmoIdle : ∀ k, a = .tmo k → o ≠ .tmoEv → s'.dlq.length ≠ s.dlq.length + 1 → s'.inflight = s.inflight
  sched : s.sched.Nodup → ∀ x ∈ s'.sched, (x ∈ s.sched ∧ a ≠ .redeliv x) ∨ (a = .tmo x ∧ o = .tmoEv)
  nodup : s.sched.Nodup → s'.sched.Nodup
  tmoResp : ∀ k, a = .tmo k → k ∈ s.inflight → k ∉ s.sched → o = .tmoEv ∨ s'.dlq.length = s.dlq.length + 1
  redResp : ∀ k, a = .redeliv k → k ∈ s.live → s.cons ≠ [] → ∃ d c n, o = .disp d k c n

theorem nextConsumer_some (s : MQ) (h : s.cons ≠ []) : ∃ c, s.nextConsumer = some c := by
  unfold MQ.nextConsumer
  have hl : 0 < s.cons.length := List.length_pos_iff.2 h
  have : s.cidx % s.cons.length < s.cons.length := Nat.mod_lt _ hl
  exact ⟨s.cons[s.cidx % s.cons.length], List.getElem?_eq_getElem this⟩

/-- an action that touches none of consumers / in-flight / timers -/
theorem Aux.idle {s s' : MQ} {a : Act} {o : Out} (hc : s'.cons = s.cons) (hi : s'.inflight = s.inflight)
    (hs : s'.sched = s.sched) (ha : consAfter s.cons a = s.cons) (ho : ∀ d k c n, o ≠ .disp d k c n)
    (ht : ∀ k, a ≠ .tmo k) (hr : ∀ k, a ≠ .redeliv k) : Aux s s' a o where
  cons := by rw [hc, ha]
  keep x hx _ := hi ▸ hx
  disp d k c n h := absurd h (ho d k c n)
  dispRel d k c n h := absurd h (ho d k c n)
  tmoIdle k h := absurd h (ht k)
  sched _ x hx := Or.inl ⟨hs ▸ hx, hr x⟩
  nodup h := hs ▸ h
  tmoResp k h := absurd h (ht k)
  redResp k h := absurd h (hr k)

/-- `deliverBegin` on a state whose `sched` is `sc` (the caller may have erased the fired timer) -/
theorem aux_deliverBegin (s0 s : MQ) (t k : Nat) (a : Act) (hcons : s.cons = s0.cons)
    (hinf : s.inflight = s0.inflight) (hlive : s.live = s0.live)
    (ha : consAfter s0.cons a = s0.cons) (hrel : a.releases = none) (ht : ∀ k, a ≠ .tmo k)
    (hsched : s0.sched.Nodup → ∀ x ∈ s.sched, x ∈ s0.sched ∧ a ≠ .redeliv x) (hnd : s0.sched.Nodup → s.sched.Nodup)
    (hred : ∀ k', a = .redeliv k' → k' = k) :
    Aux s0 (s.deliverBegin t k).1 a (s.deliverBegin t k).2 := by
  have key : ∀ (s' : MQ) (o : Out), s'.cons = s.cons → s'.sched = s.sched →
      (∀ x ∈ s.inflight, x ∈ s'.inflight) → (∀ d k' c n, o = .disp d k' c n → k' ∈ s'.inflight) →
      (k ∈ s.live → s.cons ≠ [] → ∃ d c n, o = .disp d k c n) → Aux s0 s' a o := by
    intro s' o h1 h2 h3 h4 h5
    refine ⟨by rw [h1, hcons, ha], fun x hx _ => h3 x (hinf ▸ hx), h4, fun _ _ _ _ _ => hrel, fun k h => absurd h (ht k),
      fun nd x hx => Or.inl (hsched nd x (h2 ▸ hx)), fun h => h2 ▸ hnd h, fun k h => absurd h (ht k), ?_⟩
    intro k' hk' hl hc
    have := hred k' hk'
    subst this
    exact h5 (hlive ▸ hl) (hcons ▸ hc)
  unfold MQ.deliverBegin
  split
  · next hk =>
    split
    · next c hc =>
      refine key _ _ rfl rfl ?_ ?_ ?_
      · intro x hx
        show x ∈ insertNew s.inflight k
        exact (mem_insertNew _ _ _).2 (Or.inl hx)
      · intro d k' c' n h
        simp only [Out.disp.injEq] at h
        show k' ∈ insertNew s.inflight k
        exact (mem_insertNew _ _ _).2 (Or.inr h.2.1.symm)
      · intro _ _; exact ⟨_, _, _, rfl⟩
    · next hc =>
      refine key _ _ rfl rfl (fun x hx => hx) (by simp) ?_
      intro _ hne
      obtain ⟨c, hc'⟩ := nextConsumer_some s hne
      rw [hc'] at hc; cases hc
  · next hk => exact key _ _ rfl rfl (fun x hx => hx) (by simp) (fun h => absurd h hk)

theorem aux_rej (cfg : Cfg) (s : MQ) (k : Nat) (rq : Bool) :
    Aux s (s.reject cfg k rq) (.rej k rq) .unit := by
  have mk : ∀ s' : MQ, s'.cons = s.cons → (∀ x ∈ s.inflight, x ≠ k → x ∈ s'.inflight) →
      (∀ x ∈ s'.sched, x ∈ s.sched) → (s.sched.Nodup → s'.sched.Nodup) → Aux s s' (.rej k rq) .unit := by
    intro s' h1 h2 h3 h4
    refine ⟨by rw [h1]; rfl, ?_, by simp, by simp, by simp, fun _ x hx => Or.inl ⟨h3 x hx, by simp⟩, h4, by simp, by simp⟩
    intro x hx hne
    exact h2 x hx (fun e => hne (by simp [Act.releases, e]))
  unfold MQ.reject
  split
  · split
    · exact mk _ rfl (fun x hx hne => (List.mem_erase_of_ne hne).2 hx) (fun x hx => hx) (fun h => h)
    · exact mk _ rfl (fun x hx hne => (List.mem_erase_of_ne hne).2 hx)
        (fun x hx => List.mem_of_mem_erase hx) (fun h => h.erase k)
  · exact mk _ rfl (fun x hx _ => hx) (fun x hx => hx) (fun h => h)

theorem aux_ack (cfg : Cfg) (s : MQ) (k : Nat) : Aux s (s.ackMsg cfg k) (.ack k) .unit := by
  have mk : ∀ s' : MQ, s'.cons = s.cons → (∀ x ∈ s.inflight, x ≠ k → x ∈ s'.inflight) →
      (∀ x ∈ s'.sched, x ∈ s.sched) → (s.sched.Nodup → s'.sched.Nodup) → Aux s s' (.ack k) .unit := by
    intro s' h1 h2 h3 h4
    refine ⟨by rw [h1]; rfl, ?_, by simp, by simp, by simp, fun _ x hx => Or.inl ⟨h3 x hx, by simp⟩, h4, by simp, by simp⟩
    intro x hx hne
    exact h2 x hx (fun e => hne (by simp [Act.releases, e]))
  unfold MQ.ackMsg
  split
  · exact mk _ rfl (fun x hx hne => (List.mem_erase_of_ne hne).2 hx)
      (fun x hx => List.mem_of_mem_erase hx) (fun h => h.erase k)
  · exact mk _ rfl (fun x hx _ => hx) (fun x hx => hx) (fun h => h)

theorem aux_timeout (cfg : Cfg) {s : MQ} (inv : Inv s) (k : Nat) :
    Aux s (s.timeout cfg k).1 (.tmo k) (s.timeout cfg k).2 := by
  -- nothing happens
  have same : (k ∈ s.inflight → k ∈ s.sched) → Aux s s (.tmo k) .tmoNone := by
    intro h
    refine ⟨rfl, fun x hx _ => hx, by simp, by simp, fun _ _ _ _ => rfl, fun _ x hx => Or.inl ⟨hx, by simp⟩, fun h => h, ?_, by simp⟩
    intro k' hk' hi hs
    simp only [Act.tmo.injEq] at hk'
    subst hk'
    exact absurd (h hi) hs
  unfold MQ.timeout
  split
  · next hk =>
    split
    · next hs => exact same (fun _ => hs)
    · next hs =>
      split
      · -- at the limit: dead-lettered
        have hl : k ∈ s.live := inv.part.fL k hk
        have e : s.reject cfg k false = s.toDlq cfg k := by
          unfold MQ.reject; simp [hl]
        rw [e]
        refine ⟨rfl, ?_, by simp, by simp, ?_, fun _ x hx => Or.inl ⟨List.mem_of_mem_erase hx, by simp⟩,
          fun h => h.erase k, fun _ _ _ _ => Or.inr (by simp [MQ.toDlq]), by simp⟩
        · intro x hx hne
          have : x ≠ k := fun e => hne (by simp [Act.releases, e])
          exact (List.mem_erase_of_ne this).2 hx
        · intro k' _ _ hd
          exact absurd (by simp [MQ.toDlq]) hd
      · -- below the limit: back to pending, redelivery event handed out
        refine ⟨rfl, ?_, by simp, by simp, fun _ _ h => absurd rfl h, ?_, fun h => List.nodup_cons.2 ⟨hs, h⟩,
          fun _ _ _ _ => Or.inl rfl, by simp⟩
        · intro x hx hne
          have : x ≠ k := fun e => hne (by simp [Act.releases, e])
          exact (List.mem_erase_of_ne this).2 hx
        · intro _ x hx
          rcases List.mem_cons.1 hx with rfl | hx
          · exact Or.inr ⟨rfl, rfl⟩
          · exact Or.inl ⟨hx, by simp⟩
  · next hk => exact same (fun h => absurd h hk)

/-- every action, classified -/
theorem aux_step (cfg : Cfg) {s : MQ} (inv : Inv s) (t : Nat) (a : Act) :
    Aux s (s.step cfg t a).1 a (s.step cfg t a).2 := by
  cases a with
  | pub =>
    simp only [MQ.step]
    unfold MQ.publish
    split
    · exact Aux.idle rfl rfl rfl rfl (by simp) (by simp) (by simp)
    · exact Aux.idle rfl rfl rfl rfl (by simp) (by simp) (by simp)
  | poll =>
    simp only [MQ.step]
    unfold MQ.pollA
    split
    · exact aux_deliverBegin s s t _ .poll rfl rfl rfl rfl rfl (by simp) (fun _ x hx => ⟨hx, by simp⟩)
        (fun h => h) (by simp)
    · exact Aux.idle rfl rfl rfl rfl (by simp) (by simp) (by simp)
  | redeliv k =>
    simp only [MQ.step]
    refine aux_deliverBegin s { s with sched := s.sched.erase k } t k (.redeliv k) rfl rfl rfl rfl rfl (by simp)
      ?_ ?_ (by simp)
    · intro nd x hx
      -- the fired timer is gone (`sched` is duplicate-free)
      refine ⟨List.mem_of_mem_erase hx, fun e => ?_⟩
      simp only [Act.redeliv.injEq] at e
      subst e
      exact nd.not_mem_erase hx
    · intro h; exact h.erase k
  | fire d =>
    simp only [MQ.step]
    unfold MQ.fire
    split
    · exact Aux.idle rfl rfl rfl rfl (by simp) (by simp) (by simp)
    · split
      · split
        · exact Aux.idle rfl rfl rfl rfl (by simp) (by simp) (by simp)
        · exact Aux.idle rfl rfl rfl rfl (by simp) (by simp) (by simp)
      · exact Aux.idle rfl rfl rfl rfl (by simp) (by simp) (by simp)
  | recv d =>
    simp only [MQ.step]
    unfold MQ.recv
    split
    · exact Aux.idle rfl rfl rfl rfl (by simp) (by simp) (by simp)
    · split
      · split
        · exact Aux.idle rfl rfl rfl rfl (by simp) (by simp) (by simp)
        · exact Aux.idle rfl rfl rfl rfl (by simp) (by simp) (by simp)
      · exact Aux.idle rfl rfl rfl rfl (by simp) (by simp) (by simp)
  | ack k => exact aux_ack cfg s k
  | rej k rq => exact aux_rej cfg s k rq
  | tmo k => exact aux_timeout cfg inv k
  | sub c =>
    refine ⟨rfl, fun x hx _ => hx, by simp [MQ.step], by simp [MQ.step], by simp, fun _ x hx => Or.inl ⟨hx, by simp⟩, fun h => h,
      by simp, by simp⟩
  | unsub c =>
    refine ⟨rfl, fun x hx _ => hx, by simp [MQ.step], by simp [MQ.step], by simp, fun _ x hx => Or.inl ⟨hx, by simp⟩, fun h => h,
      by simp, by simp⟩

/-! ### the judge -/

structure RedRel (s : MQ) (j : RedSt) : Prop where
  tk : TakeRel s j.tk
  subs : j.subs = s.cons
  infl : ∀ x ∈ j.infl, x ∈ s.inflight
  armed : ∀ x ∈ s.sched, x ∈ j.armed
  nodup : s.sched.Nodup

theorem RedRel.init : RedRel {} {} := ⟨TakeRel.init, rfl, by simp, by simp, List.nodup_nil⟩

theorem check_of_not_disp (j : RedSt) (r : ORec) (h : ∀ d k c n, r.out ≠ .disp d k c n) :
    j.check r = j.onOther r := by
  unfold RedSt.check
  split
  · next d k c n ho => exact absurd ho (h d k c n)
  · rfl

theorem mem_filter_ne (l : List Nat) (k x : Nat) : x ∈ l.filter (· != k) ↔ x ∈ l ∧ x ≠ k := by
  simp [List.mem_filter]

theorem red_step (cfg : Cfg) {s : MQ} {j : RedSt} (inv : Inv s) (rel : RedRel s j) (t : Nat) (a : Act) :
    ∃ j', j.check ⟨t, a, (s.step cfg t a).2, (s.step cfg t a).1.ctr⟩ = .ok j' ∧
      RedRel (s.step cfg t a).1 j' := by
  obtain ⟨tk', htk, reltk⟩ := take_step cfg inv rel.tk t a
  have aux := aux_step cfg inv t a
  generalize (s.step cfg t a).2 = o at htk aux
  generalize (s.step cfg t a).1 = s' at htk aux reltk
  have hnext : j.tkNext ⟨t, a, o, s'.ctr⟩ = tk' := by simp [RedSt.tkNext, htk]
  have hsubs : subsAfter j.subs a = s'.cons := by rw [rel.subs, aux.cons]
  have nd' := aux.nodup rel.nodup
  -- `armed` after an action that is not an effective timeout
  have armedKeep : ∀ x ∈ s'.sched, (a = .tmo x ∧ o = .tmoEv) ∨ (x ∈ j.armed ∧ a ≠ .redeliv x) := by
    intro x hx
    rcases aux.sched rel.nodup x hx with ⟨h1, h2⟩ | h
    · exact Or.inr ⟨rel.armed x h1, h2⟩
    · exact Or.inl h
  by_cases hd : ∃ d k c n, o = .disp d k c n
  · obtain ⟨d, k, c, n, rfl⟩ := hd
    refine ⟨j.onDisp ⟨t, a, .disp d k c n, s'.ctr⟩ k, rfl, ?_⟩
    have hrel := aux.dispRel d k c n rfl
    refine ⟨by simp only [RedSt.onDisp, hnext]; exact reltk, by simp only [RedSt.onDisp]; exact hsubs, ?_, ?_, nd'⟩
    · intro x hx
      simp only [RedSt.onDisp] at hx
      rcases List.mem_cons.1 hx with rfl | hx
      · exact aux.disp d x c n rfl
      · exact aux.keep x (rel.infl x hx) (by rw [hrel]; simp)
    · intro x hx
      simp only [RedSt.onDisp]
      rcases armedKeep x hx with ⟨_, h⟩ | ⟨h1, h2⟩
      · cases h
      · cases a <;> simp only [armedAfterFire] <;> first
          | exact h1
          | (refine (mem_filter_ne _ _ _).2 ⟨h1, fun e => h2 (by rw [e])⟩)
  · have hnd : ∀ d k c n, o ≠ .disp d k c n := fun d k c n h => hd ⟨d, k, c, n, h⟩
    rw [check_of_not_disp _ _ hnd]
    -- what stays true whatever the action: the embedded clause-4b state and the consumer list
    have base : ∀ (infl armed : List Nat), (∀ x ∈ infl, x ∈ s'.inflight) → (∀ x ∈ s'.sched, x ∈ armed) →
        RedRel s' ⟨j.tkNext ⟨t, a, o, s'.ctr⟩, subsAfter j.subs a, infl, armed⟩ := by
      intro infl armed h1 h2
      exact ⟨by rw [hnext]; exact reltk, hsubs, h1, h2, nd'⟩
    have keepAll : a.releases = none → ∀ x ∈ j.infl, x ∈ s'.inflight := by
      intro h x hx
      exact aux.keep x (rel.infl x hx) (by rw [h]; simp)
    have keepBut : ∀ k, a.releases = some k → ∀ x ∈ j.infl.filter (· != k), x ∈ s'.inflight := by
      intro k h x hx
      obtain ⟨hx1, hx2⟩ := (mem_filter_ne _ _ _).1 hx
      exact aux.keep x (rel.infl x hx1) (by rw [h]; simpa using fun e => hx2 e.symm)
    have armedSame : (∀ x, a ≠ .tmo x) → (∀ x, a ≠ .redeliv x) → ∀ x ∈ s'.sched, x ∈ j.armed := by
      intro h1 h2 x hx
      rcases armedKeep x hx with ⟨h, _⟩ | ⟨h, _⟩
      · exact absurd h (h1 x)
      · exact h
    cases a with
    | redeliv k =>
      simp only [RedSt.onOther]
      have hno : (j.tk.owes k && !j.subs.isEmpty) = false := by
        by_cases ho : j.tk.owes k = true
        · by_cases he : j.subs = []
          · simp [he]
          · have hl : k ∈ s.live := (rel.tk.owes k).1 ho
            obtain ⟨d, c, n, h⟩ := aux.redResp k rfl hl (rel.subs ▸ he)
            exact absurd h (hnd d k c n)
        · simp [ho]
      rw [hno]
      refine ⟨_, rfl, base _ _ (keepAll rfl) ?_⟩
      intro x hx
      rcases armedKeep x hx with ⟨h, _⟩ | ⟨h1, h2⟩
      · cases h
      · exact (mem_filter_ne _ _ _).2 ⟨h1, fun e => h2 (by rw [e])⟩
    | tmo k =>
      simp only [RedSt.onOther]
      have heff : j.tmoEff ⟨t, .tmo k, o, s'.ctr⟩ = true ↔ (o = .tmoEv ∨ s'.dlq.length = s.dlq.length + 1) := by
        simp [RedSt.tmoEff, MQ.ctr, rel.tk.cD]
      have hno : (j.infl.contains k && !j.armed.contains k && !j.tmoEff ⟨t, .tmo k, o, s'.ctr⟩) = false := by
        by_cases h1 : k ∈ j.infl
        · by_cases h2 : k ∈ j.armed
          · simp [h2]
          · have hs : k ∉ s.sched := fun h => h2 (rel.armed k h)
            have := heff.2 (aux.tmoResp k rfl (rel.infl k h1) hs)
            simp [this]
        · simp [h1]
      rw [hno]
      refine ⟨_, rfl, base _ _ ?_ ?_⟩
      · by_cases he : j.tmoEff ⟨t, .tmo k, o, s'.ctr⟩ = true
        · simp only [he, if_true]
          exact keepBut k rfl
        · simp only [he, Bool.false_eq_true, if_false]
          have hne : ¬ (o = .tmoEv ∨ s'.dlq.length = s.dlq.length + 1) := fun h => he (heff.2 h)
          have hsame := aux.tmoIdle k rfl (fun h => hne (Or.inl h)) (fun h => hne (Or.inr h))
          intro x hx
          rw [hsame]; exact rel.infl x hx
      · intro x hx
        rcases armedKeep x hx with ⟨h1, h2⟩ | ⟨h1, _⟩
        · simp only [Act.tmo.injEq] at h1
          subst h1 h2
          simp
        · by_cases h : o = .tmoEv
          · subst h; simp [h1]
          · simp [h, h1]
    | ack k =>
      simp only [RedSt.onOther]
      exact ⟨_, rfl, base _ _ (keepBut k rfl) (armedSame (by simp) (by simp))⟩
    | rej k rq =>
      simp only [RedSt.onOther]
      exact ⟨_, rfl, base _ _ (keepBut k rfl) (armedSame (by simp) (by simp))⟩
    | pub => simp only [RedSt.onOther]; exact ⟨_, rfl, base _ _ (keepAll rfl) (armedSame (by simp) (by simp))⟩
    | poll => simp only [RedSt.onOther]; exact ⟨_, rfl, base _ _ (keepAll rfl) (armedSame (by simp) (by simp))⟩
    | fire d => simp only [RedSt.onOther]; exact ⟨_, rfl, base _ _ (keepAll rfl) (armedSame (by simp) (by simp))⟩
    | recv d => simp only [RedSt.onOther]; exact ⟨_, rfl, base _ _ (keepAll rfl) (armedSame (by simp) (by simp))⟩
    | sub c => simp only [RedSt.onOther]; exact ⟨_, rfl, base _ _ (keepAll rfl) (armedSame (by simp) (by simp))⟩
    | unsub c => simp only [RedSt.onOther]; exact ⟨_, rfl, base _ _ (keepAll rfl) (armedSame (by simp) (by simp))⟩

theorem run_redeliv (cfg : Cfg) (hl : cfg.legacy = false) (sched : List (Nat × Act)) :
    ∀ {s : MQ} {j : RedSt}, Inv s → RedRel s j → jRedeliv j (MQ.run cfg s sched) = none := by
  induction sched with
  | nil => intro s j _ _; rfl
  | cons ta rest ih =>
    intro s j inv rel
    obtain ⟨t, a⟩ := ta
    obtain ⟨j', hc, rel'⟩ := red_step cfg inv rel t a
    simp only [MQ.run, jRedeliv, hc]
    exact ih (inv.step cfg hl t a) rel'

/-- a timeout of a message that is in flight with no redelivery timer pending hands out a redelivery event or
    dead-letters; a timer that fires for a message the queue owes while a consumer is subscribed starts a
    delivery — on every schedule, including consumers leaving and returning around the timer -/
theorem redelivery_never_stuck (cfg : Cfg) (hl : cfg.legacy = false) (sched : List (Nat × Act)) :
    jRedeliv {} (MQ.run cfg {} sched) = none :=
  run_redeliv cfg hl sched Inv.init RedRel.init

/-- an orphaned redelivery: message 0 is delivered, times out (timer due at 20), the only consumer leaves, the timer
    fires with nobody subscribed, a consumer returns, a poll hands the message out, it times out again (a new timer),
    that timer redelivers, and the third timeout — at the limit 3 — dead-letters -/
def orphanSched : List (Nat × Act) :=
  [(0, .sub 0), (1, .pub), (2, .poll), (7, .fire 0), (7, .recv 0), (10, .tmo 0), (12, .unsub 0), (20, .redeliv 0),
   (21, .sub 1), (22, .poll), (27, .fire 1), (27, .recv 1), (30, .tmo 0), (40, .redeliv 0), (45, .fire 2), (45, .recv 2),
   (50, .tmo 0)]

/-- not vacuous: on `orphanSched` the fired timer finds nobody (`none`), the second timeout is honoured (`ev`), the
    third dead-letters; and the judge rejects the trace of a queue that refuses the second timeout, and one whose
    timer fires with a consumer subscribed and delivers nothing -/
example :
    (MQ.run { lat := 5, maxRe := 3 } {} orphanSched).map (·.out) =
      [.unit, .pubOk 0, .disp 0 0 0 1, .emit 0 0 1 7, .recv 0 0 1, .tmoEv, .unit, .none, .unit, .disp 1 0 1 2,
       .emit 0 1 2 27, .recv 0 1 2, .tmoEv, .disp 2 0 1 3, .emit 0 1 3 45, .recv 0 1 3, .tmoNone] ∧
    (MQ.exec { lat := 5, maxRe := 3 } {} orphanSched).dlq = [0] ∧
    jRedeliv {} (MQ.run { lat := 5, maxRe := 3 } {} orphanSched) = none ∧
    jRedeliv {} [⟨1, .pub, .pubOk 0, ⟨1, 0, 0, 0, 1, 0, 0, 0, 0⟩⟩,
                 ⟨2, .poll, .disp 0 0 0 1, ⟨0, 1, 0, 0, 1, 1, 0, 0, 0⟩⟩,
                 ⟨10, .tmo 0, .tmoEv, ⟨1, 0, 0, 0, 1, 1, 0, 0, 0⟩⟩,
                 ⟨20, .redeliv 0, .none, ⟨1, 0, 0, 0, 1, 1, 0, 0, 0⟩⟩,
                 ⟨22, .poll, .disp 1 0 1 2, ⟨0, 1, 0, 0, 1, 1, 1, 0, 0⟩⟩,
                 ⟨30, .tmo 0, .tmoNone, ⟨0, 1, 0, 0, 1, 1, 1, 0, 0⟩⟩] =
      some "mq/redelivery/timeout-of-in-flight-message-refused" ∧
    jRedeliv {} [⟨0, .sub 0, .unit, ⟨0, 0, 0, 0, 0, 0, 0, 0, 0⟩⟩,
                 ⟨1, .pub, .pubOk 0, ⟨1, 0, 0, 0, 1, 0, 0, 0, 0⟩⟩,
                 ⟨2, .poll, .disp 0 0 0 1, ⟨0, 1, 0, 0, 1, 1, 0, 0, 0⟩⟩,
                 ⟨10, .tmo 0, .tmoEv, ⟨1, 0, 0, 0, 1, 1, 0, 0, 0⟩⟩,
                 ⟨20, .redeliv 0, .none, ⟨1, 0, 0, 0, 1, 1, 0, 0, 0⟩⟩] =
      some "mq/redelivery/timer-fired-consumer-subscribed-not-delivered" := by
  decide

end HappyModel.C19
