import HappyModel.C19.Win
/-!
Session windows: joining, sorting and merging sessions never loses or duplicates a record — for every
additive measure of the records (count, sum of values, occurrences of one id) what the active sessions hold
plus what was emitted equals what was accepted.  Also the counter laws of the model (all window kinds).
-/
namespace HappyModel.C19.Win

def mu (f : Rec → Nat) (w : Win) : Nat := (w.recs.map f).sum
def measure (f : Rec → Nat) (wins : List Win) : Nat := (wins.map (mu f)).sum

theorem measure_nil (f : Rec → Nat) : measure f [] = 0 := rfl
theorem measure_cons (f : Rec → Nat) (w : Win) (l : List Win) : measure f (w :: l) = mu f w + measure f l := by
  simp [measure]
theorem measure_append (f : Rec → Nat) (a b : List Win) : measure f (a ++ b) = measure f a + measure f b := by
  simp [measure, List.sum_append]

theorem measure_filter_split (f : Rec → Nat) (p : Win → Bool) : ∀ wins : List Win,
    measure f (wins.filter fun w => !p w) + measure f (wins.filter p) = measure f wins := by
  intro wins
  induction wins with
  | nil => rfl
  | cons w ws ih =>
    cases hp : p w <;> simp [hp, measure_cons] <;> omega

theorem mu_append (f : Rec → Nat) (w : Win) (l : List Rec) (s e : Nat) (em : Bool) :
    mu f { w with recs := w.recs ++ l, e := e, s := s, emitted := em } = mu f w + (l.map f).sum := by
  simp [mu, List.sum_append]

theorem sessJoin_measure (f : Rec → Nat) (gap : Nat) (r : Rec) : ∀ (l l' : List Win),
    sessJoin gap r l = some l' → measure f l' = measure f l + f r := by
  intro l
  induction l with
  | nil => intro l' h; simp [sessJoin] at h
  | cons w ws ih =>
    intro l' h
    by_cases hin : inSession gap r.et w = true
    · simp only [sessJoin, hin, if_true, Option.some.injEq] at h
      subst h
      simp [measure_cons, mu, List.sum_append]; omega
    · simp only [sessJoin, hin, Bool.false_eq_true, if_false, Option.map_eq_some_iff] at h
      obtain ⟨l2, h2, rfl⟩ := h
      rw [measure_cons, measure_cons, ih l2 h2]; omega

theorem insertByStart_measure (f : Rec → Nat) (w : Win) : ∀ l : List Win,
    measure f (insertByStart w l) = mu f w + measure f l := by
  intro l
  induction l with
  | nil => simp [insertByStart, measure_cons, measure_nil]
  | cons a rest ih =>
    by_cases h : w.s ≤ a.s
    · simp [insertByStart, h, measure_cons]
    · simp [insertByStart, h, measure_cons, ih]; omega

theorem sortByStart_measure (f : Rec → Nat) : ∀ l : List Win, measure f (sortByStart l) = measure f l := by
  intro l
  induction l with
  | nil => rfl
  | cons a rest ih => simp [sortByStart, insertByStart_measure, ih, measure_cons]

theorem mergeFrom_measure (f : Rec → Nat) : ∀ (l : List Win) (cur : Win),
    measure f (mergeFrom cur l) = mu f cur + measure f l := by
  intro l
  induction l with
  | nil => intro cur; simp [mergeFrom, measure_cons, measure_nil]
  | cons b rest ih =>
    intro cur
    by_cases h : b.s ≤ cur.e
    · simp only [mergeFrom, h, if_true, ih, measure_cons]
      simp [mu, List.sum_append]; omega
    · simp only [mergeFrom, h, if_false, ih, measure_cons]

theorem mergeSessions_measure (f : Rec → Nat) (l : List Win) : measure f (mergeSessions l) = measure f l := by
  unfold mergeSessions
  have := sortByStart_measure f l
  cases hs : sortByStart l with
  | nil => rw [hs] at this; simpa [measure_nil] using this
  | cons a rest => rw [hs] at this; simp only [mergeFrom_measure]; rw [← this, measure_cons]

/-- `_add_to_session_window` adds exactly the new record -/
theorem sessAdd_measure (f : Rec → Nat) (gap : Nat) (r : Rec) (wins : List Win) :
    measure f (sessAdd gap r wins) = measure f wins + f r := by
  have hsplit := measure_filter_split f (fun w => w.key == r.key) wins
  simp only [sessAdd, measure_append, mergeSessions_measure]
  cases hj : sessJoin gap r (wins.filter fun w => w.key == r.key) with
  | some l =>
    simp only
    rw [sessJoin_measure f gap r _ l hj]; omega
  | none =>
    simp only [measure_append, measure_cons, measure_nil]
    simp [mu]; omega

/-! ### accounting over a run -/

def accM (f : Rec → Nat) : List (Line × Out) → Nat
  | [] => 0
  | (ln, out) :: rest =>
    (match ln.act, out with
     | .proc r, .proc st _ => if st = 0 ∨ st = 3 then f r else 0
     | _, _ => 0) + accM f rest

def emM (g : Em → Nat) : List Out → Nat
  | [] => 0
  | .emits _ ems _ :: rest => (ems.map g).sum + emM g rest
  | _ :: rest => emM g rest

theorem stepProc_measure (f : Rec → Nat) (cfg : Cfg) (hk : cfg.kind = 2) (t : Nat) (r : Rec) (s : St) :
    measure f (stepProc cfg t r s).1.wins =
      measure f s.wins + (if (stepProc cfg t r s).2 = 0 ∨ (stepProc cfg t r s).2 = 3 then f r else 0) := by
  have hsd : ∀ s' : St, (startDaemon cfg t r s').wins = s'.wins := by
    intro s'; unfold startDaemon; split <;> rfl
  unfold stepProc
  by_cases hl : isLate cfg s.wm r.et = true
  · by_cases hp0 : cfg.policy = 0
    · simp [hl, hp0]
    · by_cases hp1 : cfg.policy = 1
      · simp [hl, hp1]
      · simp [hl, hp0, hp1, hsd, addWindows, hk, sessAdd_measure]
  · simp [hl, hsd, addWindows, hk, sessAdd_measure]

theorem session_measure (f : Rec → Nat) (g : Em → Nat) (hg : ∀ w, g (toEm w) = mu f w) (cfg : Cfg)
    (hk : cfg.kind = 2) : ∀ (sched : List Line) (s : St),
    measure f (finalState cfg s sched).wins + emM g (run cfg s sched) =
      measure f s.wins + accM f (sched.zip (run cfg s sched)) := by
  intro sched
  induction sched with
  | nil => intro s; simp [finalState, run, emM, accM]
  | cons ln rest ih =>
    intro s
    obtain ⟨t, act⟩ := ln
    simp only [finalState, run, List.zip_cons_cons]
    have := ih (step cfg s ⟨t, act⟩).1
    cases act with
    | proc r =>
      have hm := stepProc_measure f cfg hk t r s
      simp only [step, emM, accM] at this ⊢
      rw [hm] at this
      omega
    | wmA ext w =>
      have hw : (stepWmA t ext w s).1.wins = s.wins := by
        unfold stepWmA; cases ext <;> simp <;> split <;> rfl
      simp only [step, emM, accM, hw] at this ⊢
      omega
    | wmB =>
      have hsplit := measure_filter_split f (closable s.wm) s.wins
      have hem : ((stepWmB cfg t s).2.map g).sum = measure f (s.wins.filter (closable s.wm)) := by
        simp [stepWmB, measure, List.map_map, Function.comp_def, hg]
      have hw : (stepWmB cfg t s).1.wins = s.wins.filter fun w => !closable s.wm w := by
        simp [stepWmB, hk]
      simp only [step, emM, accM, hw] at this ⊢
      rw [hem]
      omega
    | lateRecv id =>
      have hw : (stepLate id s).1.wins = s.wins := by
        unfold stepLate; split <;> rfl
      cases ho : (stepLate id s).2 <;> simp only [step, emM, accM, hw, ho] at this ⊢ <;> first | omega | (unfold stepLate at ho; split at ho <;> simp at ho)
    | fin =>
      simp only [step, emM, accM] at this ⊢
      omega

theorem cnt_toEm (w : Win) : (toEm w).cnt = mu (fun _ => 1) w := by
  simp only [toEm, mu]
  induction w.recs with
  | nil => rfl
  | cons a l ih => simp [ih]; omega

theorem sum_toEm (w : Win) : (toEm w).sum = mu (·.val) w := rfl

theorem idcount_toEm (i : Nat) (w : Win) :
    (toEm w).ids.count i = mu (fun r => if r.id = i then 1 else 0) w := by
  simp only [toEm, mu]
  induction w.recs with
  | nil => rfl
  | cons a l ih =>
    by_cases h : a.id = i
    · simp [h, ih]; omega
    · simp [h, ih]

/-! ### counters (all window kinds) -/

def countProc : List Line → Nat
  | [] => 0
  | ⟨_, .proc _⟩ :: rest => countProc rest + 1
  | _ :: rest => countProc rest

theorem stepProc_counts (cfg : Cfg) (t : Nat) (r : Rec) (s : St) :
    (stepProc cfg t r s).1.ep = s.ep + 1 ∧ (stepProc cfg t r s).1.we = s.we ∧
    ((stepProc cfg t r s).1.le + s.ld + s.lu + s.ls =
      s.le + (stepProc cfg t r s).1.ld + (stepProc cfg t r s).1.lu + (stepProc cfg t r s).1.ls) ∧
    (stepProc cfg t r s).1.le ≤ s.le + 1 := by
  have hsd : ∀ s' : St, (startDaemon cfg t r s').ep = s'.ep ∧ (startDaemon cfg t r s').we = s'.we ∧
      (startDaemon cfg t r s').le = s'.le ∧ (startDaemon cfg t r s').ld = s'.ld ∧
      (startDaemon cfg t r s').lu = s'.lu ∧ (startDaemon cfg t r s').ls = s'.ls := by
    intro s'; unfold startDaemon; split <;> simp
  unfold stepProc
  by_cases hl : isLate cfg s.wm r.et = true
  · by_cases hp0 : cfg.policy = 0
    · simp [hl, hp0]; omega
    · by_cases hp1 : cfg.policy = 1
      · simp [hl, hp1]; omega
      · simp [hl, hp0, hp1, hsd]; omega
  · simp [hl, hsd]

end HappyModel.C19.Win
