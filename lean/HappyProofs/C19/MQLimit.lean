import HappyModel.C19.Spec
/-!
# C19 — the redelivery limit moves a message to the dead-letter queue

The judge `jLimit` accepts every trace the fixed (`legacy = false`) message queue can produce, under
every schedule of actions.  Simulation relation `LRel` between the model state and the judge state;
one lemma per kind of action; induction on the schedule.
-/
namespace HappyModel.C19

/-- model state `s` and judge state `j` describe the same history -/
structure LRel (s : MQ) (j : LimSt) : Prop where
  seen : j.seen = s.dlog
  D : j.D = s.dlq.length
  rej : j.rej = s.nRej
  F : j.F = s.inflight.length
  dead : ∀ k ∈ j.dead, k ∉ s.live
  liveLt : ∀ k ∈ s.live, k < s.npub
  deadLt : ∀ k ∈ j.dead, k < s.npub
  nodup : s.live.Nodup

/-- what `LimSt.next` produces when the counters in the record are those of `s'` -/
def LimSt.after (s' : MQ) (seen dead : List Nat) : LimSt :=
  { seen := seen, dead := dead, D := s'.dlq.length, rej := s'.nRej, F := s'.inflight.length }

theorem LimSt.next_ctr (j : LimSt) (t : Nat) (a : Act) (o : Out) (s' : MQ) (seen dead : List Nat) :
    j.next ⟨t, a, o, s'.ctr⟩ seen dead = LimSt.after s' seen dead := rfl

theorem lrel_init : LRel {} {} := by
  refine ⟨rfl, rfl, rfl, rfl, ?_, ?_, ?_, ?_⟩ <;> simp

/-- a step that neither dispatches, nor dead-letters, nor publishes -/
theorem LRel.quiet {s s' : MQ} {j : LimSt} (h : LRel s j) (h1 : s'.dlog = s.dlog)
    (h2 : ∀ k ∈ s'.live, k ∈ s.live) (h3 : s'.npub = s.npub) (h4 : s'.live.Nodup) :
    LRel s' (LimSt.after s' j.seen j.dead) :=
  ⟨h.seen.trans h1.symm, rfl, rfl, rfl, fun k hk hk' => h.dead k hk (h2 k hk'),
   fun k hk => h3 ▸ h.liveLt k (h2 k hk), fun k hk => h3 ▸ h.deadLt k hk, h4⟩

/-- the record of a step: the judge compares `r.ctr.D` with its own `D` -/
def limOkPlain (j : LimSt) (r : ORec) : Except String LimSt :=
  if r.ctr.D == j.D then .ok (j.next r j.seen j.dead) else .error "mq/dlq/changed-without-reject"

/-- a plain record of a step that leaves `dlog`, `dlq`, `npub` alone and only shrinks `live` -/
theorem lim_plain {maxRe : Nat} {s s' : MQ} {j : LimSt} (h : LRel s j) (t : Nat) (a : Act) (o : Out)
    (hc : j.check maxRe ⟨t, a, o, s'.ctr⟩ = limOkPlain j ⟨t, a, o, s'.ctr⟩)
    (h0 : s'.dlq = s.dlq) (h1 : s'.dlog = s.dlog)
    (h2 : ∀ k ∈ s'.live, k ∈ s.live) (h3 : s'.npub = s.npub) (h4 : s'.live.Nodup) :
    ∃ j', j.check maxRe ⟨t, a, o, s'.ctr⟩ = .ok j' ∧ LRel s' j' := by
  refine ⟨LimSt.after s' j.seen j.dead, ?_, h.quiet h1 h2 h3 h4⟩
  rw [hc]
  simp [limOkPlain, LimSt.next, LimSt.after, MQ.ctr, h.D, h0]

theorem lim_same {maxRe : Nat} {s : MQ} {j : LimSt} (h : LRel s j) (t : Nat) (a : Act) (o : Out)
    (hc : j.check maxRe ⟨t, a, o, s.ctr⟩ = limOkPlain j ⟨t, a, o, s.ctr⟩) :
    ∃ j', j.check maxRe ⟨t, a, o, s.ctr⟩ = .ok j' ∧ LRel s j' :=
  lim_plain h t a o hc rfl rfl (fun _ hk => hk) rfl h.nodup

/-! ### dispatch -/

theorem lim_deliverBegin {maxRe : Nat} {s : MQ} {j : LimSt} (h : LRel s j) (t t' k : Nat) (a : Act)
    (ha : a = .poll ∨ ∃ k', a = .redeliv k') :
    ∃ j', j.check maxRe ⟨t, a, (s.deliverBegin t' k).2, (s.deliverBegin t' k).1.ctr⟩ = .ok j' ∧
      LRel (s.deliverBegin t' k).1 j' := by
  unfold MQ.deliverBegin
  split
  · next hk =>
    split
    · next c hc =>
      refine ⟨LimSt.after (s.dispatch t' k c) (k :: j.seen) j.dead, ?_, ?_⟩
      · have hd : ¬ k ∈ j.dead := fun hd => h.dead k hd hk
        simp [LimSt.check, LimSt.next, LimSt.after, MQ.ctr, MQ.dispatch, hd, h.D]
      · exact ⟨by simp [LimSt.after, MQ.dispatch, h.seen], rfl, rfl, rfl, h.dead, h.liveLt,
          h.deadLt, h.nodup⟩
    · rcases ha with rfl | ⟨k', rfl⟩ <;> exact lim_same h t _ _ rfl
  · rcases ha with rfl | ⟨k', rfl⟩ <;> exact lim_same h t _ _ rfl

/-! ### reject -/

theorem lim_mem_erase_nodup {l : List Nat} (hn : l.Nodup) (k : Nat) : k ∉ l.erase k :=
  fun hk => ((List.Nodup.mem_erase_iff hn).mp hk).1 rfl

theorem lrel_toDlq {cfg : Cfg} {s : MQ} {j : LimSt} (h : LRel s j) (k : Nat) (hk : k ∈ s.live) :
    LRel (s.toDlq cfg k) (LimSt.after (s.toDlq cfg k) j.seen (k :: j.dead)) := by
  refine ⟨h.seen, rfl, rfl, rfl, ?_, ?_, ?_, h.nodup.erase k⟩
  · intro x hx hx'
    rcases List.mem_cons.mp hx with rfl | hx
    · exact lim_mem_erase_nodup h.nodup _ hx'
    · exact h.dead x hx (List.mem_of_mem_erase hx')
  · exact fun x hx => h.liveLt x (List.mem_of_mem_erase hx)
  · intro x hx
    rcases List.mem_cons.mp hx with rfl | hx
    · exact h.liveLt _ hk
    · exact h.deadLt x hx

theorem lrel_requeue {cfg : Cfg} {s : MQ} {j : LimSt} (h : LRel s j) (k : Nat) :
    LRel (s.requeue cfg k) (LimSt.after (s.requeue cfg k) j.seen j.dead) :=
  h.quiet rfl (fun _ hk => hk) rfl h.nodup

theorem lim_reject {cfg : Cfg} {s : MQ} {j : LimSt} (h : LRel s j) (t k : Nat) (rq : Bool) :
    ∃ j', j.check cfg.maxRe ⟨t, .rej k rq, .unit, (s.reject cfg k rq).ctr⟩ = .ok j' ∧
      LRel (s.reject cfg k rq) j' := by
  unfold MQ.reject
  split
  · next hk =>
    split
    · next hc =>
      refine ⟨_, ?_, lrel_requeue h k⟩
      have hc' : j.seen.count k < cfg.maxRe := by rw [h.seen]; exact hc.2
      simp [LimSt.check, LimSt.next, LimSt.after, MQ.ctr, MQ.requeue, h.D, h.rej, hc.1, hc']
    · next hc =>
      refine ⟨_, ?_, lrel_toDlq h k hk⟩
      have hc' : ¬ (rq = true ∧ j.seen.count k < cfg.maxRe) := by rw [h.seen]; exact hc
      simp [LimSt.check, LimSt.next, LimSt.after, MQ.ctr, MQ.toDlq, h.D, h.rej]
      intro h1; exact Nat.le_of_not_lt (fun h2 => hc' ⟨h1, h2⟩)
  · refine ⟨LimSt.after s j.seen j.dead, ?_, h.quiet rfl (fun _ hk => hk) rfl h.nodup⟩
    simp [LimSt.check, LimSt.next, LimSt.after, MQ.ctr, h.D, h.rej]

/-! ### timeout -/

theorem lim_timeout {cfg : Cfg} {s : MQ} {j : LimSt} (h : LRel s j) (t k : Nat) :
    ∃ j', j.check cfg.maxRe ⟨t, .tmo k, (s.timeout cfg k).2, (s.timeout cfg k).1.ctr⟩ = .ok j' ∧
      LRel (s.timeout cfg k).1 j' := by
  have same : ∃ j', j.check cfg.maxRe ⟨t, .tmo k, .tmoNone, s.ctr⟩ = .ok j' ∧ LRel s j' := by
    refine ⟨LimSt.after s j.seen j.dead, ?_, h.quiet rfl (fun _ hk => hk) rfl h.nodup⟩
    simp [LimSt.check, LimSt.next, LimSt.after, MQ.ctr, h.D, h.F]
  unfold MQ.timeout
  split
  · split
    · exact same
    · split
      · next hc =>
        show ∃ j', j.check cfg.maxRe ⟨t, .tmo k, .tmoNone, (s.reject cfg k false).ctr⟩ = .ok j' ∧
          LRel (s.reject cfg k false) j'
        unfold MQ.reject
        split
        · next hk =>
          have hc' : cfg.maxRe ≤ j.seen.count k := by rw [h.seen]; exact hc
          rw [if_neg (by simp)]
          refine ⟨_, ?_, lrel_toDlq h k hk⟩
          simp [LimSt.check, LimSt.next, LimSt.after, MQ.ctr, MQ.toDlq, h.D, hc']
        · exact same
      · next hc =>
        refine ⟨LimSt.after _ j.seen j.dead, ?_, h.quiet rfl (fun _ hk => hk) rfl h.nodup⟩
        have hc' : j.seen.count k < cfg.maxRe := by rw [h.seen]; exact Nat.lt_of_not_le hc
        simp [LimSt.check, LimSt.next, LimSt.after, MQ.ctr, h.D, hc']
  · exact same

/-! ### one step, the whole run -/

theorem lim_step (cfg : Cfg) (hl : cfg.legacy = false) {s : MQ} {j : LimSt} (h : LRel s j)
    (t : Nat) (a : Act) :
    ∃ j', j.check cfg.maxRe ⟨t, a, (s.step cfg t a).2, (s.step cfg t a).1.ctr⟩ = .ok j' ∧
      LRel (s.step cfg t a).1 j' := by
  cases a with
  | pub =>
    simp only [MQ.step]
    unfold MQ.publish
    split
    · exact lim_same h t _ _ rfl
    · refine ⟨LimSt.after (s.publish cfg).1 j.seen j.dead, ?_, ?_⟩ <;>
        rw [show s.publish cfg = _ from if_neg ‹_›]
      · simp [LimSt.check, LimSt.next, LimSt.after, MQ.ctr, h.D]
      · refine ⟨h.seen, rfl, rfl, rfl, ?_, ?_, ?_, ?_⟩
        · intro x hx hx'
          rcases List.mem_append.mp hx' with hx' | hx'
          · exact h.dead x hx hx'
          · have := h.deadLt x hx
            simp at hx'; omega
        · intro x hx
          rcases List.mem_append.mp hx with hx | hx
          · exact Nat.lt_succ_of_lt (h.liveLt x hx)
          · simp at hx; simp [hx]
        · exact fun x hx => Nat.lt_succ_of_lt (h.deadLt x hx)
        · refine List.nodup_append.mpr ⟨h.nodup, by simp, ?_⟩
          intro x hx y hy hxy
          simp at hy
          have := h.liveLt x hx
          omega
  | poll =>
    simp only [MQ.step]
    unfold MQ.pollA
    split
    · exact lim_deliverBegin h t t _ _ (Or.inl rfl)
    · exact lim_same h t _ _ rfl
  | redeliv k =>
    simp only [MQ.step]
    have h' : LRel { s with sched := s.sched.erase k } j :=
      ⟨h.seen, h.D, h.rej, h.F, h.dead, h.liveLt, h.deadLt, h.nodup⟩
    exact lim_deliverBegin h' t t k _ (Or.inr ⟨k, rfl⟩)
  | fire d =>
    simp only [MQ.step]
    unfold MQ.fire
    split
    · exact lim_same h t _ _ rfl
    · split
      · rw [if_neg (by simp [hl])]
        exact lim_plain h t _ _ rfl rfl rfl (fun _ hk => hk) rfl h.nodup
      · exact lim_same h t _ _ rfl
  | recv d =>
    simp only [MQ.step]
    unfold MQ.recv
    split
    · exact lim_same h t _ _ rfl
    · split
      · split
        · exact lim_plain h t _ _ rfl rfl rfl (fun _ hk => hk) rfl h.nodup
        · exact lim_same h t _ _ rfl
      · exact lim_same h t _ _ rfl
  | ack k =>
    simp only [MQ.step]
    unfold MQ.ackMsg
    split
    · exact lim_plain h t _ _ rfl rfl rfl (fun _ hk => List.mem_of_mem_erase hk) rfl
        (h.nodup.erase k)
    · exact lim_same h t _ _ rfl
  | rej k rq => exact lim_reject h t k rq
  | tmo k => exact lim_timeout h t k
  | sub c => exact lim_plain h t _ _ rfl rfl rfl (fun _ hk => hk) rfl h.nodup
  | unsub c => exact lim_plain h t _ _ rfl rfl rfl (fun _ hk => hk) rfl h.nodup

theorem lim_run (cfg : Cfg) (hl : cfg.legacy = false) (sched : List (Nat × Act)) :
    ∀ (s : MQ) (j : LimSt), LRel s j → jLimit cfg.maxRe j (MQ.run cfg s sched) = none := by
  induction sched with
  | nil => intro s j _; rfl
  | cons x rest ih =>
    intro s j h
    obtain ⟨t, a⟩ := x
    obtain ⟨j', hj, h'⟩ := lim_step cfg hl h t a
    simp only [MQ.run, jLimit, hj]
    exact ih _ _ h'

/-- the redelivery limit moves a message to the dead-letter queue (and nothing else does, and a
    dead-lettered message is never delivered again) -/
theorem redelivery_limit_to_dlq (cfg : Cfg) (hl : cfg.legacy = false) (sched : List (Nat × Act)) :
    jLimit cfg.maxRe {} (MQ.run cfg {} sched) = none :=
  lim_run cfg hl sched {} {} lrel_init

/-! ### non-vacuity: message 0 is delivered, times out, is redelivered (attempt 2 = the limit), is
rejected with `requeue = true` and goes to the dead-letter queue; a later redelivery event for it
delivers nothing.  The judge is not trivially `none`: told a different limit it objects. -/

def limitDemo : List (Nat × Act) :=
  [(0, .sub 0), (1, .pub), (2, .poll), (3, .tmo 0), (4, .redeliv 0), (5, .rej 0 true), (6, .redeliv 0)]

example : (MQ.exec {lat := 5, maxRe := 2} {} limitDemo).dlq = [0] := by decide
example : (MQ.run {lat := 5, maxRe := 2} {} limitDemo).map (·.out) =
    [.unit, .pubOk 0, .disp 0 0 0 1, .tmoEv, .disp 1 0 0 2, .unit, .none] := by decide
example : jLimit 2 {} (MQ.run {lat := 5, maxRe := 2} {} limitDemo) = none := by decide
example : jLimit 3 {} (MQ.run {lat := 5, maxRe := 2} {} limitDemo) =
    some "mq/limit/dead-lettered-below-limit" := by decide
example : jLimit 1 {} (MQ.run {lat := 5, maxRe := 2} {} limitDemo) =
    some "mq/limit/requeued-at-limit" := by decide

end HappyModel.C19
